package gbk

// jsonRuntime: the JSON laws of C15 for one @fp.Json struct type (generic over the type).
const jsonRuntime = `
// ---- JSON laws (C15) ----

func lwIdentAll(a, b []any) int {
	for i := range a {
		if !lwIdent(a[i], b[i]) {
			return i
		}
	}
	return -1
}

func lwEqAll(a, b []any) int {
	for i := range a {
		if !lwEq(a[i], b[i]) {
			return i
		}
	}
	return -1
}

func lwClip(b []byte) string {
	s := string(b)
	if len(s) > 200 {
		s = s[:200] + "…"
	}
	return fmt.Sprintf("%q", s)
}

// lwRefField: one member of the JSON object the SPEC demands for a struct value: the key
// (from the field name / json tag of the spec by gombok's documented rule) and whether the
// member is dropped when the value is empty (0 never, 1 omitempty, 2 the rule leaves it open).
type lwRefField struct {
	idx  int // index into the struct's named fields
	key  string
	omit int
}

// lwEmptyJSON is encoding/json's notion of an empty value (omitempty).
func lwEmptyJSON(x any) bool {
	v := reflect.ValueOf(x)
	if !v.IsValid() {
		return true
	}
	switch v.Kind() {
	case reflect.Array, reflect.Map, reflect.Slice, reflect.String:
		return v.Len() == 0
	case reflect.Bool, reflect.Int, reflect.Int8, reflect.Int16, reflect.Int32, reflect.Int64,
		reflect.Uint, reflect.Uint8, reflect.Uint16, reflect.Uint32, reflect.Uint64, reflect.Uintptr,
		reflect.Float32, reflect.Float64, reflect.Interface, reflect.Pointer:
		return v.IsZero()
	}
	return false
}

type lwMember struct {
	k string
	v json.RawMessage
}

// lwMembers splits a JSON object into its members, in document order.
func lwMembers(b []byte) ([]lwMember, error) {
	dec := json.NewDecoder(bytes.NewReader(b))
	t, err := dec.Token()
	if err != nil {
		return nil, err
	}
	if t != json.Delim('{') {
		return nil, errors.New("not a JSON object")
	}
	var out []lwMember
	for dec.More() {
		t, err := dec.Token()
		if err != nil {
			return nil, err
		}
		k, ok := t.(string)
		if !ok {
			return nil, errors.New("member name is not a string")
		}
		var raw json.RawMessage
		if err := dec.Decode(&raw); err != nil {
			return nil, err
		}
		out = append(out, lwMember{k, raw})
	}
	return out, nil
}

// refObject: Marshal(x) must be the object the spec demands — one member per field that is
// not underscore-prefixed, in declaration order, named by the spec, holding the field's own
// encoding; omitempty members absent exactly when empty. Nothing here looks at AsMutable().
// Returns the full reference document (no member omitted) for the decode direction.
func (p *lwRep) refObject(m *lwMeta, b []byte, fx []any, ref []lwRefField) []byte {
	got, err := lwMembers(b)
	if err != nil {
		p.fail(m.name, "json-reference-object", "-", "-", "Marshal(x) is not a JSON object ("+err.Error()+"): "+lwClip(b))
		return nil
	}
	var doc bytes.Buffer
	doc.WriteByte('{')
	gi := 0
	bad := false
	for n, f := range ref {
		enc, err := json.Marshal(fx[f.idx])
		if err != nil {
			return nil // the field value has no encoding of its own: no reference
		}
		if n > 0 {
			doc.WriteByte(',')
		}
		kb, _ := json.Marshal(f.key)
		doc.Write(kb)
		doc.WriteByte(':')
		doc.Write(enc)
		if bad {
			continue
		}
		empty := lwEmptyJSON(fx[f.idx])
		if gi < len(got) && got[gi].k == f.key {
			if empty && f.omit == 1 {
				p.fail(m.name, "json-reference-object", m.names[f.idx], m.kinds[f.idx], "member "+f.key+" is present ("+lwClip(got[gi].v)+") although the field is empty and its tag rule says omitempty; Marshal(x)="+lwClip(b))
			} else if !bytes.Equal(got[gi].v, enc) {
				p.fail(m.name, "json-reference-object", m.names[f.idx], m.kinds[f.idx], "member "+f.key+" is "+lwClip(got[gi].v)+" but field "+m.names[f.idx]+" = "+lwShow(fx[f.idx])+" encodes as "+lwClip(enc)+"; Marshal(x)="+lwClip(b))
			}
			gi++
			continue
		}
		if empty && f.omit != 0 {
			continue
		}
		p.fail(m.name, "json-reference-object", m.names[f.idx], m.kinds[f.idx], "member "+f.key+" (field "+m.names[f.idx]+" = "+lwShow(fx[f.idx])+", encoding "+lwClip(enc)+") is missing or out of order; Marshal(x)="+lwClip(b))
		bad = true
	}
	if !bad && gi != len(got) {
		p.fail(m.name, "json-reference-object", "-", "-", "unexpected member "+got[gi].k+" = "+lwClip(got[gi].v)+"; Marshal(x)="+lwClip(b))
	}
	doc.WriteByte('}')
	return doc.Bytes()
}

type lwKept struct {
	ret, cp []byte
	what    string
}

func lwScribble(b []byte) {
	for i := range b {
		b[i] = "#[{\"x\\0"[i%7]
	}
}

func lwJSONLaws[T any](p *lwRep, m *lwMeta, r *lwRand, faithful, jsonok bool, n, hostile int,
	gen func(*lwRand, bool) T, fields func(T) []any, asMut func(T) any,
	direct func(*T, []byte) error, marshalDirect func(T) ([]byte, error), rfs []lwRefField, refOK bool) {

	napp := 0
	for _, a := range m.app {
		if a {
			napp++
		}
	}
	// second stream: values with a non-zero, non-empty value in EVERY field (a dropped or
	// defaulted field must be visible whatever its position); does not consume from r
	rz := &lwRand{s: r.s ^ 0x5851f42d4c957f2d, json: true, nz: true}
	var kept []lwKept
	var docs [][]byte
	for it := 0; it < n+n/4+5; it++ {
		src := r
		if it >= n {
			src = rz
		}
		x := gen(src, false)
		var b []byte
		err, pan := LwCatch(func() error { var e error; b, e = json.Marshal(x); return e })
		if pan != "" {
			p.fail(m.name, "json-marshal-panic", "-", "-", pan)
			continue
		}
		if err != nil {
			p.stat("json.marshal-error", 1)
			if jsonok {
				p.fail(m.name, "json-marshal-error", "-", "-", err.Error())
			}
			continue
		}
		p.ev(m.name, 1)
		b2, err2 := json.Marshal(asMut(x))
		if err2 != nil || !bytes.Equal(b, b2) {
			p.fail(m.name, "json-mutable-bytes", "-", "-", "Marshal(x)="+lwClip(b)+" Marshal(x.AsMutable())="+lwClip(b2))
		}
		if b3, err3 := json.Marshal(&x); err3 != nil || !bytes.Equal(b, b3) {
			p.fail(m.name, "json-marshal-pointer", "-", "-", "Marshal(x)="+lwClip(b)+" Marshal(&x)="+lwClip(b3))
		}
		// direct call: the returned slice is kept AS RETURNED (no copy) next to a copy taken now;
		// all later Marshal calls of this loop run while it is held, and it is re-compared at the end
		b4, err4 := marshalDirect(x)
		if err4 != nil || !bytes.Equal(b, b4) {
			p.fail(m.name, "json-marshal-direct", "-", "-", "Marshal(x)="+lwClip(b)+" x.MarshalJSON()="+lwClip(b4))
		}
		if err4 == nil && len(kept) < 400 {
			kept = append(kept, lwKept{b4, append([]byte(nil), b4...), "x.MarshalJSON()"})
			if b5, err5 := marshalDirect(x); err5 == nil {
				kept = append(kept, lwKept{b5, append([]byte(nil), b5...), "second x.MarshalJSON() of the same value"})
			}
			p.stat("json.alias.marshal-results-kept", 2)
		}
		p.stat("json.marshalled", 1)
		fx := fields(x)
		var refDoc []byte
		if refOK {
			refDoc = p.refObject(m, b, fx, rfs)
			p.stat("json.reference-object.struct-values", 1)
		}
		var y T
		err, pan = LwCatch(func() error { return json.Unmarshal(b, &y) })
		if pan != "" {
			p.fail(m.name, "json-unmarshal-panic", "-", "-", pan+" on "+lwClip(b))
			continue
		}
		var y2 T
		err2, pan2 := LwCatch(func() error { return direct(&y2, b) })
		if pan2 != "" {
			p.fail(m.name, "json-unmarshal-panic", "-", "-", pan2+" on "+lwClip(b))
			continue
		}
		// the same input buffer decoded twice by direct calls; the buffer must come back unchanged,
		// and overwriting it afterwards must not change what was decoded (no retained reference:
		// "UnmarshalJSON must copy the JSON data if it wishes to retain the data after returning")
		if err2 == nil {
			in := append([]byte(nil), b...)
			var y3, y4 T
			e3, pan3 := LwCatch(func() error { return direct(&y3, in) })
			e4, pan4 := LwCatch(func() error { return direct(&y4, in) })
			if pan3 != "" || pan4 != "" {
				p.fail(m.name, "json-unmarshal-panic", "-", "-", pan3+pan4+" on "+lwClip(b))
			} else if e3 != nil || e4 != nil {
				p.fail(m.name, "json-unmarshal-same-input-twice", "-", "-", fmt.Sprintf("UnmarshalJSON accepted %s once and failed on the same buffer later: %v %v", lwClip(b), e3, e4))
			} else {
				if !bytes.Equal(in, b) {
					p.fail(m.name, "json-unmarshal-modifies-input", "-", "-", "UnmarshalJSON changed the caller's input buffer from "+lwClip(b)+" to "+lwClip(in))
				}
				if j := lwEqAll(fields(y4), fields(y3)); j >= 0 {
					p.fail(m.name, "json-unmarshal-same-input-twice", m.names[j], m.kinds[j], "decoding the same buffer twice gives "+lwShow(fields(y3)[j])+" then "+lwShow(fields(y4)[j])+" on "+lwClip(b))
				}
				lwScribble(in)
				if j := lwEqAll(fields(y3), fields(y2)); j >= 0 {
					p.fail(m.name, "json-unmarshal-retains-input", m.names[j], m.kinds[j], "after the caller overwrote its input buffer, field "+m.names[j]+" of the decoded value changed to "+lwShow(fields(y3)[j])+" (decoded from an untouched copy: "+lwShow(fields(y2)[j])+"); input "+lwClip(b))
				}
				p.stat("json.alias.unmarshal-inputs-overwritten", 1)
			}
		}
		if faithful {
			if err != nil {
				p.fail(m.name, "json-roundtrip", "-", "-", "Unmarshal(Marshal(x)) fails: "+err.Error()+" on "+lwClip(b))
			} else {
				p.appOnly(m, "json-roundtrip", fields(y), fx)
			}
			if err2 != nil {
				p.fail(m.name, "json-roundtrip", "-", "-", "UnmarshalJSON(Marshal(x)) fails: "+err2.Error()+" on "+lwClip(b))
			} else {
				p.appOnly(m, "json-roundtrip-direct", fields(y2), fx)
			}
			if refDoc != nil {
				// decode direction against the reference document (every member present)
				var y5 T
				e5, pan5 := LwCatch(func() error { return json.Unmarshal(refDoc, &y5) })
				if pan5 != "" {
					p.fail(m.name, "json-unmarshal-panic", "-", "-", pan5+" on "+lwClip(refDoc))
				} else if e5 != nil {
					p.fail(m.name, "json-reference-decode", "-", "-", "Unmarshal of the reference object fails: "+e5.Error()+" on "+lwClip(refDoc))
				} else {
					p.appOnly(m, "json-reference-decode", fields(y5), fx)
				}
				p.stat("json.reference-decode.struct-values", 1)
			}
			p.stat("json.roundtrip.struct-values", 1)
			allNZ := true
			for j := range fx {
				if m.app[j] {
					p.stat("json.roundtrip.field."+m.kinds[j], 1)
					if lwZeroish(reflect.ValueOf(fx[j])) {
						allNZ = false
					}
				}
			}
			if allNZ {
				p.stat("json.roundtrip.all-fields-nonzero", 1)
				if napp >= 21 {
					p.stat(fmt.Sprintf("json.wide.fields-%d.all-nonzero-values", napp), 1)
				}
			}
		} else {
			p.stat("json.nopanic-only.struct-values", 1)
		}
		if len(docs) < 48 {
			docs = append(docs, b)
		}
	}
	for _, k := range kept {
		if !bytes.Equal(k.ret, k.cp) {
			p.fail(m.name, "json-marshal-result-changed-later", "-", "-", "the []byte returned by "+k.what+" was "+lwClip(k.cp)+" when it was returned and is "+lwClip(k.ret)+" after later Marshal calls: the result aliases storage that is reused")
			break
		}
	}
	if _, pan := LwCatch(func() error { return direct(nil, []byte("{}")) }); pan != "" {
		p.fail(m.name, "json-nil-receiver-panic", "-", "-", pan)
	}
	hs := LwHostile(r.n, docs, hostile)
	for _, h := range hs {
		seedK := r.u64()
		mk := func() T { return gen(lwNewRand(seedK, true), false) }
		for mode := 0; mode < 2; mode++ {
			s1 := mk()
			s0 := s1
			ref := mk()
			err, pan := LwCatch(func() error {
				if mode == 0 {
					return json.Unmarshal(h, &s1)
				}
				return direct(&s1, h)
			})
			p.stat("json.hostile.inputs", 1)
			p.ev(m.name, 1)
			if pan != "" {
				p.fail(m.name, "json-hostile-panic", "-", "-", fmt.Sprintf("mode %d: %s on %s", mode, pan, lwClip(h)))
				continue
			}
			if err == nil {
				p.stat("json.hostile.accepted", 1)
				continue
			}
			p.stat("json.hostile.rejected", 1)
			if j := lwIdentAll(fields(s1), fields(s0)); j >= 0 {
				p.fail(m.name, "json-error-target-changed", m.names[j], m.kinds[j], fmt.Sprintf("mode %d: error %q but field %s changed from %s to %s on input %s", mode, err.Error(), m.names[j], lwShow(fields(s0)[j]), lwShow(fields(s1)[j]), lwClip(h)))
			} else if j := lwEqAll(fields(s1), fields(ref)); j >= 0 {
				p.fail(m.name, "json-error-aliased-storage-changed", m.names[j], m.kinds[j], fmt.Sprintf("mode %d: error %q; the struct value is untouched but storage reachable from field %s was modified: now %s, before %s; input %s", mode, err.Error(), m.names[j], lwShow(fields(s1)[j]), lwShow(fields(ref)[j]), lwClip(h)))
			}
		}
	}
}
`
