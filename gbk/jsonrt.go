package gbk

// jsonRuntime: the JSON laws of C15 for one @fp.Json struct type (generic over the type).
const jsonRuntime = `
// ---- JSON laws (C15) ----

func lwIdentAll(a, b []any) int {
	for i := range a {
		if !lwIdent(a[i], b[i]) {
			return i
		}
	}
	return -1
}

func lwEqAll(a, b []any) int {
	for i := range a {
		if !lwEq(a[i], b[i]) {
			return i
		}
	}
	return -1
}

func lwClip(b []byte) string {
	s := string(b)
	if len(s) > 200 {
		s = s[:200] + "…"
	}
	return fmt.Sprintf("%q", s)
}

func lwJSONLaws[T any](p *lwRep, m *lwMeta, r *lwRand, faithful, jsonok bool, n, hostile int,
	gen func(*lwRand, bool) T, fields func(T) []any, asMut func(T) any,
	direct func(*T, []byte) error, marshalDirect func(T) ([]byte, error)) {

	var docs [][]byte
	for it := 0; it < n; it++ {
		x := gen(r, false)
		var b []byte
		err, pan := LwCatch(func() error { var e error; b, e = json.Marshal(x); return e })
		if pan != "" {
			p.fail(m.name, "json-marshal-panic", "-", "-", pan)
			continue
		}
		if err != nil {
			p.stat("json.marshal-error", 1)
			if jsonok {
				p.fail(m.name, "json-marshal-error", "-", "-", err.Error())
			}
			continue
		}
		p.ev(m.name, 1)
		b2, err2 := json.Marshal(asMut(x))
		if err2 != nil || !bytes.Equal(b, b2) {
			p.fail(m.name, "json-mutable-bytes", "-", "-", "Marshal(x)="+lwClip(b)+" Marshal(x.AsMutable())="+lwClip(b2))
		}
		if b3, err3 := json.Marshal(&x); err3 != nil || !bytes.Equal(b, b3) {
			p.fail(m.name, "json-marshal-pointer", "-", "-", "Marshal(x)="+lwClip(b)+" Marshal(&x)="+lwClip(b3))
		}
		if b4, err4 := marshalDirect(x); err4 != nil || !bytes.Equal(b, b4) {
			p.fail(m.name, "json-marshal-direct", "-", "-", "Marshal(x)="+lwClip(b)+" x.MarshalJSON()="+lwClip(b4))
		}
		p.stat("json.marshalled", 1)
		var y T
		err, pan = LwCatch(func() error { return json.Unmarshal(b, &y) })
		if pan != "" {
			p.fail(m.name, "json-unmarshal-panic", "-", "-", pan+" on "+lwClip(b))
			continue
		}
		var y2 T
		err2, pan2 := LwCatch(func() error { return direct(&y2, b) })
		if pan2 != "" {
			p.fail(m.name, "json-unmarshal-panic", "-", "-", pan2+" on "+lwClip(b))
			continue
		}
		if faithful {
			fx := fields(x)
			if err != nil {
				p.fail(m.name, "json-roundtrip", "-", "-", "Unmarshal(Marshal(x)) fails: "+err.Error()+" on "+lwClip(b))
			} else {
				p.appOnly(m, "json-roundtrip", fields(y), fx)
			}
			if err2 != nil {
				p.fail(m.name, "json-roundtrip", "-", "-", "UnmarshalJSON(Marshal(x)) fails: "+err2.Error()+" on "+lwClip(b))
			} else {
				p.appOnly(m, "json-roundtrip-direct", fields(y2), fx)
			}
			p.stat("json.roundtrip.struct-values", 1)
			for j := range fx {
				if m.app[j] {
					p.stat("json.roundtrip.field."+m.kinds[j], 1)
				}
			}
		} else {
			p.stat("json.nopanic-only.struct-values", 1)
		}
		if len(docs) < 48 {
			docs = append(docs, b)
		}
	}
	if _, pan := LwCatch(func() error { return direct(nil, []byte("{}")) }); pan != "" {
		p.fail(m.name, "json-nil-receiver-panic", "-", "-", pan)
	}
	hs := LwHostile(r.n, docs, hostile)
	for _, h := range hs {
		seedK := r.u64()
		mk := func() T { return gen(lwNewRand(seedK, true), false) }
		for mode := 0; mode < 2; mode++ {
			s1 := mk()
			s0 := s1
			ref := mk()
			err, pan := LwCatch(func() error {
				if mode == 0 {
					return json.Unmarshal(h, &s1)
				}
				return direct(&s1, h)
			})
			p.stat("json.hostile.inputs", 1)
			p.ev(m.name, 1)
			if pan != "" {
				p.fail(m.name, "json-hostile-panic", "-", "-", fmt.Sprintf("mode %d: %s on %s", mode, pan, lwClip(h)))
				continue
			}
			if err == nil {
				p.stat("json.hostile.accepted", 1)
				continue
			}
			p.stat("json.hostile.rejected", 1)
			if j := lwIdentAll(fields(s1), fields(s0)); j >= 0 {
				p.fail(m.name, "json-error-target-changed", m.names[j], m.kinds[j], fmt.Sprintf("mode %d: error %q but field %s changed from %s to %s on input %s", mode, err.Error(), m.names[j], lwShow(fields(s0)[j]), lwShow(fields(s1)[j]), lwClip(h)))
			} else if j := lwEqAll(fields(s1), fields(ref)); j >= 0 {
				p.fail(m.name, "json-error-aliased-storage-changed", m.names[j], m.kinds[j], fmt.Sprintf("mode %d: error %q; the struct value is untouched but storage reachable from field %s was modified: now %s, before %s; input %s", mode, err.Error(), m.names[j], lwShow(fields(s1)[j]), lwShow(fields(ref)[j]), lwClip(h)))
			}
		}
	}
}
`
