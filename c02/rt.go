// Trace runtime and oracle of C02: instrumented operands / callbacks, the reference model
// that predicts which user functions run and what failure comes out, and the comparison.
// Nothing in the model calls the library.
package main

import (
	"errors"
	"fmt"
	"math/bits"
	"math/rand/v2"
	"reflect"
	"sort"
	"strings"

	"verif/vrt"

	"github.com/csgura/fp"
)

// ---- callback ids -----------------------------------------------------------------------

const (
	idF       = 1    // final / combining function (pure or monadic continuation)
	idSup     = 1000 // + position (< 1000): supplier, Kleisli step, builder step function, traverse/fold function of element
	idRun     = 2000 // + position (< 1000): the state function of a StateT operand was executed
	idHandler = 400  // recover handler
	idIsDef   = 410  // isDefinedAt predicate of RecoverCase*
	idThen    = 420  // then-branch of RecoverCase*
	idInner   = 430  // state function of a StateT returned by a handler
)

func evName(id int) string {
	switch {
	case id == idF:
		return "F"
	case id >= idSup && id < idRun:
		return fmt.Sprintf("fn@%d", id-idSup)
	case id >= idRun && id < idRun+1000:
		return fmt.Sprintf("run@%d", id-idRun)
	case id == idHandler:
		return "handler"
	case id == idIsDef:
		return "isDefinedAt"
	case id == idThen:
		return "then"
	case id == idInner:
		return "run(handler-result)"
	}
	return fmt.Sprintf("cb%d", id)
}

// ev is one logged invocation of a user function.
type ev struct {
	ID   int
	Args []int
	Err  error // error argument (recover handlers)
	NoAr bool  // arguments not compared for this event
	Opt  bool  // re-run of a program OBJECT: this user function was applied when the program was built and may stay un-invoked
}

func (e ev) String() string {
	s := evName(e.ID)
	if e.Err != nil {
		return s + "(" + errName(e.Err) + ")"
	}
	if len(e.Args) > 0 {
		return s + fmt.Sprint(e.Args)
	}
	return s
}

func logStrings(l []ev) []string {
	out := make([]string, len(l))
	for i, e := range l {
		out[i] = e.String()
	}
	return out
}

// sentErr is the injected failure of one position. Identity (the pointer) is what the
// property demands to survive.
type sentErr struct {
	pos   int
	nonce int
}

func (e *sentErr) Error() string {
	return fmt.Sprintf("injected failure of position %d (#%d)", e.pos, e.nonce)
}

func errName(e error) string {
	if e == nil {
		return "<nil>"
	}
	if s, ok := e.(*sentErr); ok {
		return fmt.Sprintf("E%d", s.pos)
	}
	msg := "?"
	func() {
		defer func() {
			if recover() != nil {
				msg = "Error() panics"
			}
		}()
		msg = e.Error()
	}()
	if len(msg) > 60 {
		msg = msg[:60] + "…"
	}
	return fmt.Sprintf("%T{%s}", e, msg)
}

// ---- site descriptors -------------------------------------------------------------------

// step describes one position of a call, left to right.
type step struct {
	Bit    int   // failure bit of this position; -1: the position cannot fail
	Cb     int   // id logged when this position's user function is invoked; 0: none
	CbArgs []int // indices into vals the user function must receive; nil: none / not compared
	NoArgs bool  // do not compare the arguments of Cb
	OptErr bool  // a failing position is a None given to a Try combinator: error is fp.ErrOptionEmpty
	// Fixed: the operand of this position is a plain value handed over when the program / function value is
	// BUILT; a later execution of that value cannot see another failure bit for it.
	Fixed bool
	// AtBuild: the user function of this position is applied when the program value is built (first Kleisli
	// step of statet.Compose*): a re-run of the same program object need not invoke it again.
	AtBuild bool
}

// final describes the continuation invoked after every position succeeded.
type final struct {
	Args   []int
	NoArgs bool
	Bit    int // -1: pure function; else: monadic continuation that fails when the bit is set
}

const (
	mTry = iota
	mOption
	mEither
	mState
	mErr // plain error result (FoldError, Traverse_)
)

var monadNames = []string{"try", "option", "either", "statet", "error"}

type site struct {
	Key    string // stable violation key prefix = library call site
	Family string // family name used for hits / floors / distinct triples
	N      int    // arity (or sequence length)
	Monad  int
	Steps  []step
	Final  *final
	// WantVal: vals index of the success value when there is no Final (-1: not compared)
	WantVal int
	Exec    func(t *T)
	// Custom sites (recover / panic capture) enumerate and check their own cases.
	NCustom int
	Custom  func(t *T, c int)
	// Random-mask sites (long sequences, thorough only): NRandom cases, mask from the case PRNG.
	NRandom  int
	DynSteps func(L int) []step
	// Sized sites: NSized = len(sizedLengths) * nSizedPatterns cases (length, failing-position pattern).
	NSized int
	// Fn: the library call returns a function value that the site applies (t.run): it is applied again.
	// Prog: the result is a StateT program although the trace is modelled with another carrier.
	Fn, Prog bool
	// Want: expected success value (nil: not compared); set for sequence-shaped families.
	Want func(t *T, s *site) any

	failable []int // bits that can fail, ascending
}

func (s *site) init() {
	seen := map[int]bool{}
	for _, st := range s.Steps {
		if st.Bit >= 0 && !seen[st.Bit] {
			seen[st.Bit] = true
			s.failable = append(s.failable, st.Bit)
		}
	}
	if s.Final != nil && s.Final.Bit >= 0 && !seen[s.Final.Bit] {
		s.failable = append(s.failable, s.Final.Bit)
	}
	sort.Ints(s.failable)
}

// nMasks is the number of failure masks of the site (all subsets of the failable positions).
func (s *site) nMasks() int {
	if s.Custom != nil {
		return s.NCustom
	}
	if s.NRandom > 0 {
		return s.NRandom
	}
	if s.NSized > 0 {
		return s.NSized
	}
	return 1 << uint(len(s.failable))
}

func (s *site) maskOf(c int) uint64 {
	var m uint64
	for i, b := range s.failable {
		if c&(1<<uint(i)) != 0 {
			m |= 1 << uint(b)
		}
	}
	return m
}

// ---- trace ------------------------------------------------------------------------------

type outcome struct {
	set bool
	ok  bool
	val any
	err error
}

const nVals = 80

// fmask is a set of failing positions (bit k = position k fails); positions 0..63 in lo, 64..383 in hi.
type fmask struct {
	lo uint64
	hi [5]uint64
}

func (m fmask) has(k int) bool {
	if k < 0 {
		return false
	}
	if k < 64 {
		return m.lo&(1<<uint(k)) != 0
	}
	k -= 64
	return k>>6 < len(m.hi) && m.hi[k>>6]&(1<<uint(k&63)) != 0
}

func (m *fmask) set(k int) {
	if k < 64 {
		m.lo |= 1 << uint(k)
		return
	}
	k -= 64
	m.hi[k>>6] |= 1 << uint(k&63)
}

func (m fmask) zero() bool { return m == fmask{} }

func (m fmask) count() int {
	n := bits.OnesCount64(m.lo)
	for _, w := range m.hi {
		n += bits.OnesCount64(w)
	}
	return n
}

// merge: the bits of `fixed` come from build, all others from m.
func (m fmask) merge(build, fixed fmask) fmask {
	out := fmask{lo: m.lo&^fixed.lo | build.lo&fixed.lo}
	for i := range m.hi {
		out.hi[i] = m.hi[i]&^fixed.hi[i] | build.hi[i]&fixed.hi[i]
	}
	return out
}

type T struct {
	w    *vrt.W
	idx  int
	s    *site
	mask uint64    // failing positions 0..63
	hi   [5]uint64 // failing positions 64.. (sized sequences)
	vals []int
	errs []*sentErr
	log  []ev
	out  outcome
	bud  *vrt.Budget
	fail bool
	rng  *rand.Rand // the case PRNG (later executions draw their masks from it)
	acc  map[string]int64

	// panic-capture cases
	beh      int
	raised   any
	exec     *inlineExec
	escaped  any
	custNote string

	pulled     int  // elements pulled from instrumented iterators
	nonTrivial bool // a failure had to be propagated / a user function had to stay un-invoked
	skipped    int  // user functions of the call that correctly stayed un-invoked

	// later executions of program-valued results (rerun.go)
	init      int    // initial state of the next StateT run
	prog      func() // runs the StateT program OBJECT of the last resSt once more (from t.init)
	refn      func() // applies the function VALUE returned by the library call once more (t.run)
	progRerun bool   // the execution under judgement re-ran a program object
	nrun      int    // executions so far
	history   []runRec
	nlog0     int    // Custom sites: user functions invoked by the first execution
	mask0     uint64 // Custom sites: the case's own situation (later executions change t.mask)
	collect   bool   // violate() collects instead of reporting
	pending   []pendVio
}

func newT(w *vrt.W, idx int, s *site, need int) *T {
	t := &T{w: w, idx: idx, s: s, init: state0}
	nv, ne := nVals, 64
	if need > nv {
		nv = need
	}
	if need > ne {
		ne = need
	}
	t.vals = make([]int, nv)
	t.errs = make([]*sentErr, ne)
	return t
}

func (t *T) bit(k int) bool {
	if k < 0 {
		return false
	}
	if k < 64 {
		return t.mask&(1<<uint(k)) != 0
	}
	return fmask{hi: t.hi}.has(k)
}

func (t *T) getMask() fmask  { return fmask{lo: t.mask, hi: t.hi} }
func (t *T) setMask(m fmask) { t.mask, t.hi = m.lo, m.hi }

func (t *T) call(id int, args ...int) int {
	t.bud.Tick()
	a := append([]int(nil), args...)
	t.log = append(t.log, ev{ID: id, Args: a})
	return mix(id, a)
}

func (t *T) callErr(id int, e error) {
	t.bud.Tick()
	t.log = append(t.log, ev{ID: id, Err: e})
}

func mix(id int, args []int) int {
	h := uint64(id)*0x9e3779b97f4a7c15 + 12345
	for _, a := range args {
		h ^= uint64(a) + 0x9e3779b97f4a7c15 + (h << 6) + (h >> 2)
		h *= 0xbf58476d1ce4e5b9
	}
	return int(h % 1000003)
}

// operand constructors: position k succeeds with v or fails with its own sentinel.

func tryV[X any](t *T, k int, v X) fp.Try[X] {
	if t.bit(k) {
		return fp.Failure[X](t.errs[k])
	}
	return fp.Success(v)
}

func optV[X any](t *T, k int, v X) fp.Option[X] {
	if t.bit(k) {
		return fp.None[X]()
	}
	return fp.Some(v)
}

func eitV[X any](t *T, k int, v X) fp.Either[error, X] {
	if t.bit(k) {
		return fp.Left[error, X](t.errs[k])
	}
	return fp.Right[error](v)
}

func stV[X any](t *T, k int, v X) fp.StateT[int, X] {
	return func(s int) (fp.Try[X], int) {
		t.call(idRun + k)
		if t.bit(k) {
			return fp.Failure[X](t.errs[k]), s + 1
		}
		return fp.Success(v), s + 1
	}
}

// return-value adapters for the generated callbacks

func retInt(r int) int { return r }

func retVal(t *T, k int) func(int) int { return func(int) int { return t.vals[k] } }

func retTry(t *T, k int) func(int) fp.Try[int] {
	return func(r int) fp.Try[int] { return tryV(t, k, r) }
}
func retOpt(t *T, k int) func(int) fp.Option[int] {
	return func(r int) fp.Option[int] { return optV(t, k, r) }
}
func retEit(t *T, k int) func(int) fp.Either[error, int] {
	return func(r int) fp.Either[error, int] { return eitV(t, k, r) }
}
func retSt(t *T, k int) func(int) fp.StateT[int, int] {
	return func(r int) fp.StateT[int, int] { return stV(t, k, r) }
}
func retTryVal(t *T, k int) func(int) fp.Try[int] {
	return func(int) fp.Try[int] { return tryV(t, k, t.vals[k]) }
}
func retOptVal(t *T, k int) func(int) fp.Option[int] {
	return func(int) fp.Option[int] { return optV(t, k, t.vals[k]) }
}
func retEitVal(t *T, k int) func(int) fp.Either[error, int] {
	return func(int) fp.Either[error, int] { return eitV(t, k, t.vals[k]) }
}
func retStVal(t *T, k int) func(int) fp.StateT[int, int] {
	return func(int) fp.StateT[int, int] { return stV(t, k, t.vals[k]) }
}

// (value, error) adapter for try.FuncN / try.UnitN
func retPair(t *T, k int) func(int) (int, error) {
	return func(int) (int, error) {
		if t.bit(k) {
			return 0, t.errs[k]
		}
		return t.vals[k], nil
	}
}
func retError(t *T, k int) func(int) error {
	return func(int) error {
		if t.bit(k) {
			return t.errs[k]
		}
		return nil
	}
}

// result normalisers

func resTry[X any](t *T, r fp.Try[X]) {
	t.out = outcome{set: true, ok: r.IsSuccess()}
	if t.out.ok {
		t.out.val = normVal(r.Get())
	} else {
		t.out.err = r.Failed().Get()
	}
}

// normVal forces a sequence-shaped result (a lazily evaluated result must do its work while the trace is
// still being recorded; an fp.Iterator can be read only once) and normalises it to a non-nil []int.
func normVal(v any) any {
	var sl []int
	switch x := v.(type) {
	case fp.Iterator[int]:
		sl = x.ToSeq()
	case fp.Seq[int]:
		sl = x
	case []int:
		sl = x
	default:
		return v
	}
	return append(make([]int, 0, len(sl)), sl...)
}

func resOpt[X any](t *T, r fp.Option[X]) {
	t.out = outcome{set: true, ok: r.IsDefined()}
	if t.out.ok {
		t.out.val = normVal(r.Get())
	}
}

func resEit[X any](t *T, r fp.Either[error, X]) {
	t.out = outcome{set: true, ok: r.IsRight()}
	if t.out.ok {
		t.out.val = normVal(r.Get())
	} else {
		t.out.err = r.Left()
	}
}

const state0 = 1000

// resSt runs the program from t.init and keeps the program OBJECT: t.prog runs that very value again.
func resSt[X any](t *T, r fp.StateT[int, X]) {
	t.prog = func() {
		res, _ := r.Run(t.init)
		resTry(t, res)
	}
	t.prog()
}

// run applies a function value returned by the library (try.LiftA2(f), statet.TraverseFunc(f),
// future.Func3(f, ex), …) and keeps it: t.refn applies that very value again.
func (t *T) run(f func()) {
	t.refn = f
	f()
}

func resErr(t *T, e error) {
	t.out = outcome{set: true, ok: e == nil, err: e}
}

// ---- reference model --------------------------------------------------------------------

type expectation struct {
	log     []ev
	failBit int // -1: success expected
	optErr  bool
	hasVal  bool
	val     any
	skipped int // user functions that exist in the call but must not be invoked
}

func argsOf(t *T, idx []int) []int {
	out := make([]int, len(idx))
	for i, k := range idx {
		out[i] = t.vals[k]
	}
	return out
}

// model predicts the trace of site s under t.mask: positions are visited left to right; a
// position's user function (if any) runs, then (StateT) the operand's state function, then the
// position fails if its bit is set and nothing to its right is touched.
func model(s *site, t *T) expectation {
	x := expectation{failBit: -1}
	total := 0
	for _, st := range s.Steps {
		if st.Cb != 0 {
			total++
		}
		if s.Monad == mState && st.Bit >= 0 {
			total++
		}
	}
	if s.Final != nil {
		total++
		if s.Monad == mState && s.Final.Bit >= 0 {
			total++
		}
	}
	for _, st := range s.Steps {
		if st.Cb != 0 {
			x.log = append(x.log, ev{ID: st.Cb, Args: argsOf(t, st.CbArgs), NoAr: st.NoArgs, Opt: st.AtBuild && t.progRerun})
		}
		if s.Monad == mState && st.Bit >= 0 {
			x.log = append(x.log, ev{ID: idRun + st.Bit})
		}
		if t.bit(st.Bit) {
			x.failBit, x.optErr = st.Bit, st.OptErr
			x.skipped = total - len(x.log)
			return x
		}
	}
	if f := s.Final; f != nil {
		a := argsOf(t, f.Args)
		x.log = append(x.log, ev{ID: idF, Args: a, NoAr: f.NoArgs})
		if s.Monad == mState && f.Bit >= 0 {
			x.log = append(x.log, ev{ID: idRun + f.Bit})
		}
		if t.bit(f.Bit) {
			x.failBit = f.Bit
			return x
		}
		if !f.NoArgs {
			x.hasVal, x.val = true, mix(idF, a)
		}
		return x
	}
	if s.WantVal >= 0 {
		x.hasVal, x.val = true, t.vals[s.WantVal]
	} else if s.Want != nil {
		if v := s.Want(t, s); v != nil {
			x.hasVal, x.val = true, v
		}
	}
	return x
}

// ---- oracle -----------------------------------------------------------------------------

func (t *T) witness() any {
	m := map[string]any{
		"site":   t.s.Key,
		"family": t.s.Family,
		"arity":  t.s.N,
		"mask":   t.maskString(),
		"log":    logStrings(t.log),
	}
	if t.s.Custom != nil {
		m["custom_case"] = t.custNote
	}
	if t.out.set {
		m["result"] = t.outString()
	}
	if t.nrun > 0 || len(t.history) > 0 {
		m["execution"] = t.nrun + 1
		m["initial_state"] = t.init
		m["earlier_executions_of_the_same_value"] = t.history
	}
	return m
}

func (t *T) maskString() string {
	if len(t.s.failable) == 0 {
		return ""
	}
	hi := t.s.failable[len(t.s.failable)-1]
	if hi > 70 {
		// long sequences: list the failing positions
		var f []string
		for _, k := range t.s.failable {
			if t.bit(k) {
				f = append(f, fmt.Sprint(k))
			}
		}
		return fmt.Sprintf("positions 0..%d, failing: [%s]", hi, strings.Join(f, " "))
	}
	var b strings.Builder
	for k := 0; k <= hi; k++ {
		if t.bit(k) {
			b.WriteByte('F')
		} else {
			b.WriteByte('.')
		}
	}
	return b.String()
}

func (t *T) violate(kind, detail string) {
	t.fail = true
	if t.collect {
		t.pending = append(t.pending, pendVio{kind, detail})
		return
	}
	t.w.Violation(t.idx, t.s.Key+"/"+kind, detail+"\n"+fmt.Sprintf("site=%s arity=%d failing positions (left to right, F=fails)=%q\nobserved calls: %v", t.s.Key, t.s.N, t.maskString(), logStrings(t.log)), t.witness())
}

func sameArgs(a, b []int) bool {
	if len(a) != len(b) {
		return false
	}
	for i := range a {
		if a[i] != b[i] {
			return false
		}
	}
	return true
}

// compareLog decides the trace part of the property: exactly the expected user functions, once
// each, in order; nothing positioned after the first failing position. Every kind of deviation is
// reported under its own key (an extra call does not hide a missing, repeated, mis-ordered or
// mis-fed one).
func (t *T) compareLog(want []ev) bool {
	ok := true
	cnt := map[int]int{}
	for _, e := range t.log {
		cnt[e.ID]++
	}
	for _, e := range want {
		if e.Opt && cnt[e.ID] == 0 {
			// applied when the program object was built: not applied again by this re-run
			var w2 []ev
			for _, e2 := range want {
				if !(e2.Opt && cnt[e2.ID] == 0) {
					w2 = append(w2, e2)
				}
			}
			want = w2
			break
		}
	}
	wantIDs := map[int]bool{}
	for _, e := range want {
		wantIDs[e.ID] = true
	}
	var got []ev // the observed log restricted to the expected user functions
	extraSeen := false
	for _, e := range t.log {
		if wantIDs[e.ID] {
			got = append(got, e)
			continue
		}
		if extraSeen {
			continue
		}
		extraSeen, ok = true, false
		if t.s.Custom != nil {
			t.violate("unexpected-user-function-call", fmt.Sprintf("user function %s must not run in this situation (%s); expected calls: %v", evName(e.ID), t.custNote, logStrings(want)))
		} else {
			t.violate("callback-after-failure", fmt.Sprintf("user function %s was invoked although a position to its left had already failed; expected calls: %v", evName(e.ID), logStrings(want)))
		}
	}
	exact := true
	for _, e := range want {
		if cnt[e.ID] == 0 {
			t.violate("callback-not-invoked", fmt.Sprintf("user function %s positioned before the first failure was never invoked; expected calls: %v", evName(e.ID), logStrings(want)))
			ok, exact = false, false
			break
		}
	}
	for _, e := range want {
		if cnt[e.ID] > 1 {
			t.violate("callback-invoked-twice", fmt.Sprintf("user function %s was invoked %d times, expected exactly once; expected calls: %v", evName(e.ID), cnt[e.ID], logStrings(want)))
			ok, exact = false, false
			break
		}
	}
	if !exact || len(got) != len(want) {
		return ok
	}
	for i := range want {
		if got[i].ID != want[i].ID {
			t.violate("callback-order", fmt.Sprintf("user functions ran out of left-to-right order: expected %v", logStrings(want)))
			return false
		}
	}
	for i := range want {
		if want[i].NoAr {
			continue
		}
		if want[i].Err != nil || got[i].Err != nil {
			if want[i].Err != got[i].Err {
				t.violate("callback-argument", fmt.Sprintf("%s received %s, expected the failed operand's own error %s", evName(want[i].ID), errName(got[i].Err), errName(want[i].Err)))
				return false
			}
			continue
		}
		if !sameArgs(got[i].Args, want[i].Args) {
			t.violate("callback-argument", fmt.Sprintf("%s received %v, expected %v", evName(want[i].ID), got[i].Args, want[i].Args))
			return false
		}
	}
	return ok
}

func (t *T) compareOutcome(x expectation) bool {
	o := t.out
	if !o.set {
		t.violate("no-result", "harness: no result recorded")
		return false
	}
	if x.failBit < 0 {
		if !o.ok {
			t.violate("spurious-failure", fmt.Sprintf("no operand failed but the result is a failure (%s)", errName(o.err)))
			return false
		}
		if x.hasVal && !reflect.DeepEqual(o.val, x.val) {
			t.violate("success-value", fmt.Sprintf("all operands succeeded; result %s, expected %s", short(o.val), short(x.val)))
			return false
		}
		return true
	}
	if o.ok {
		t.violate("failure-lost", fmt.Sprintf("position %d failed but the result is a success (%v)", x.failBit, o.val))
		return false
	}
	if t.s.Monad == mOption {
		return true
	}
	if x.optErr {
		if !errors.Is(o.err, fp.ErrOptionEmpty) {
			t.violate("wrong-failure", fmt.Sprintf("first failing position %d is a None; result carries %s, expected fp.ErrOptionEmpty", x.failBit, errName(o.err)))
			return false
		}
		return true
	}
	want := t.errs[x.failBit]
	if o.err == error(want) {
		return true
	}
	if se, ok := o.err.(*sentErr); ok {
		t.violate("wrong-failure", fmt.Sprintf("first failing position is %d (left to right) but the result carries the failure of position %d", x.failBit, se.pos))
		return false
	}
	if errors.Is(o.err, fp.ErrOptionEmpty) {
		t.violate("wrong-failure", fmt.Sprintf("first failing position is %d but the result carries fp.ErrOptionEmpty (a later None)", x.failBit))
		return false
	}
	t.violate("error-identity-lost", fmt.Sprintf("the result is a failure but not the first failing operand's own error value: got %s (errors.Is=%v), want pointer-identical E%d", errName(o.err), errors.Is(o.err, want), x.failBit))
	return false
}

// short renders a value for a report without flooding it.
func short(v any) string {
	s := fmt.Sprintf("%v", v)
	if len(s) > 200 {
		s = s[:200] + fmt.Sprintf("… (%d bytes)", len(s))
	}
	return s
}
