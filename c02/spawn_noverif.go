//go:build !verif

package main

// without the verif hooks the default executor starts goroutines; resFut then waits for completion
func installInlineSpawn() {}
