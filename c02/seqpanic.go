// C02 — panic SEQUENCES at the capture sites (added after seeded C02-s3-1).
//
// The enumerated panic cases execute every (site, panic value kind) pair once, and in the quick
// tier two consecutive captures of one process never have the same kind. A capture site that
// keeps state between captures (the last captured panic, a cache keyed by the panic value) is
// visible only when several panics are captured IN A ROW by the same process: the same
// uncomparable dynamic type twice or three times (slice, map, func, a struct with a slice field, a
// comparable struct holding a slice in an interface field — comparing two such values with ==
// panics), alternating kinds, the very same comparable value twice (same string, same pointer, same
// struct, same 64 KiB array), the same type with different values (the second capture must expose
// the SECOND value), and normal returns between panics (a return must never become a failure).
// Every step of a script is one execution of the capture site on the same trace object (so "same
// value" really is the same value) and is judged by the check of the enumerated cases. Both tiers.
package main

import "fmt"

type pstep struct {
	beh  int
	bump bool // change the operand values before this step: same kind, DIFFERENT value
}

type pscript struct {
	name  string
	steps []pstep
}

func same(beh, n int) []pstep {
	out := make([]pstep, n)
	for i := range out {
		out[i] = pstep{beh: beh}
	}
	return out
}

func seqOf(behs ...int) []pstep {
	out := make([]pstep, len(behs))
	for i, b := range behs {
		out[i] = pstep{beh: b}
	}
	return out
}

func bumped(beh, n int) []pstep {
	out := make([]pstep, n)
	for i := range out {
		out[i] = pstep{beh: beh, bump: i > 0}
	}
	return out
}

var panicScripts = func() []pscript {
	var out []pscript
	add := func(name string, st []pstep) { out = append(out, pscript{name, st}) }
	// the same uncomparable dynamic type twice / three times in a row (fresh value every time)
	for _, b := range []int{behPanicSlice, behPanicMap, behPanicFunc, behPanicStructWithSlice, behPanicIfaceHoldingSlice, behPanicArrayOfSlices, behPanicLargeSlice} {
		add("same-uncomparable-type-twice:"+behName(b), same(b, 2))
		add("same-uncomparable-type-three-times:"+behName(b), same(b, 3))
	}
	// the very same comparable value twice / three times
	for _, b := range []int{behPanicString, behPanicErrorPtr, behPanicInt, behPanicStruct, behPanicErrorValue, behPanicUserPanicValue, behPanicLargeArray, behPanicLargeString, behPanicTypedNilErr} {
		add("same-comparable-value-twice:"+behName(b), same(b, 2))
	}
	add("same-comparable-value-three-times:"+behName(behPanicString), same(behPanicString, 3))
	add("same-comparable-value-three-times:"+behName(behPanicErrorPtr), same(behPanicErrorPtr, 3))
	// the same kind, a different value every time: the later capture must expose the later value
	for _, b := range []int{behPanicString, behPanicInt, behPanicStruct, behPanicErrorValue, behPanicSlice, behPanicPointer, behPanicStructWithSlice, behPanicIfaceHoldingSlice, behPanicWrapped} {
		add("same-kind-different-values:"+behName(b), bumped(b, 3))
	}
	// alternating kinds
	add("alternating:slice,string,slice,map,slice", seqOf(behPanicSlice, behPanicString, behPanicSlice, behPanicMap, behPanicSlice))
	add("alternating:map,func,map,func", seqOf(behPanicMap, behPanicFunc, behPanicMap, behPanicFunc))
	add("alternating:struct,struct-with-slice,struct,struct-with-slice", seqOf(behPanicStruct, behPanicStructWithSlice, behPanicStruct, behPanicStructWithSlice))
	add("alternating:iface-holding-slice,struct-with-slice,iface-holding-slice,iface-holding-slice", seqOf(behPanicIfaceHoldingSlice, behPanicStructWithSlice, behPanicIfaceHoldingSlice, behPanicIfaceHoldingSlice))
	add("alternating:runtime-error,slice,runtime-error,slice,slice", seqOf(behPanicNilMap, behPanicSlice, behPanicIndex, behPanicSlice, behPanicSlice))
	add("alternating:panic(nil),panic(nil),slice,panic(nil)", seqOf(behPanicNil, behPanicNil, behPanicSlice, behPanicNil))
	add("alternating:captured-error,captured-error,slice,slice", seqOf(behPanicRepanicCaptured, behPanicRepanicCaptured, behPanicSlice, behPanicSlice))
	add("alternating:nested-capture,nested-capture,map,map", seqOf(behPanicGetNestedOf, behPanicGetNestedOf, behPanicMap, behPanicMap))
	// normal returns between panics
	add("return-between:string,return,string", seqOf(behPanicString, behValue, behPanicString))
	add("return-between:slice,return,slice,return", seqOf(behPanicSlice, behValue, behPanicSlice, behValue))
	add("return-between:return,map,map,return,return", seqOf(behValue, behPanicMap, behPanicMap, behValue, behValue))
	add("return-between:struct-with-slice,return,struct-with-slice,struct-with-slice", seqOf(behPanicStructWithSlice, behValue, behPanicStructWithSlice, behPanicStructWithSlice))
	return out
}()

// regPanicSequences registers, for one capture site, one case per script. The site keeps the Key of
// the enumerated site (violations are keyed by the capture site: try.Of/panic-escaped, …); its
// family sorts after all others, so the case numbering of the older sites does not move.
func regPanicSequences(key, family string, n int, behs []int, runOnce func(t *T, mech func()), check func(t *T), exec func(t *T)) {
	hasErr := false
	for _, b := range behs {
		if b == behError {
			hasErr = true
		}
	}
	scripts := panicScripts
	if hasErr {
		scripts = append(append([]pscript{}, scripts...),
			pscript{"return-between:slice,returned-error,slice", seqOf(behPanicSlice, behError, behPanicSlice)},
			pscript{"return-between:returned-error,string,string,returned-error", seqOf(behError, behPanicString, behPanicString, behError)})
	}
	s := &site{Key: key, Family: "~panic-sequences:" + family, N: n, Monad: mTry, WantVal: -1, NCustom: len(scripts)}
	s.Custom = func(t *T, c int) {
		sc := scripts[c]
		t.mask0 = uint64(c) + 1<<32
		t.nonTrivial = true
		names := make([]string, len(sc.steps))
		for i, st := range sc.steps {
			names[i] = behName(st.beh)
		}
		for i, st := range sc.steps {
			if st.bump {
				t.vals[0] += 3
				t.vals[1] += 5
			}
			t.log, t.out, t.raised, t.escaped, t.refn = nil, outcome{}, nil, nil, nil
			t.mask = uint64(st.beh)
			runOnce(t, func() { exec(t) })
			t.custNote = fmt.Sprintf("%s — capture %d of %d made in a row by this process; the sequence: %v", behName(st.beh), i+1, len(sc.steps), names)
			if i == 0 {
				t.nlog0 = len(t.log)
			}
			check(t)
			if t.fail {
				return
			}
			if i > 0 {
				t.acc["panic.sequences.captures_after_an_earlier_capture"]++
				if st.beh >= behPanicString && sc.steps[i-1].beh == st.beh {
					t.acc["panic.sequences.same_kind_as_previous_capture"]++
				}
			}
		}
		t.acc["panic.sequences.scripts"]++
		t.acc["panic.sequence."+sc.name]++
	}
	reg(s)
}
