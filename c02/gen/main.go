// Generator of the arity-indexed call sites of check C02.
//
//	cd /verif && go run ./c02/gen -out ./c02
//
// writes gen_*.go into /verif/c02 (kept in the tree; the check does not generate at run time).
// Every site is a literal descriptor (positions, which of them own a user function, which can
// fail, the continuation) plus one closure that performs exactly one library call. The oracle
// (rt.go) works from the descriptor only.
package main

import (
	"bytes"
	"flag"
	"fmt"
	"go/format"
	"os"
	"path/filepath"
	"strings"
)

type monad struct {
	pkg, V, res, ret, retV, mconst string
	typ                            string // printf pattern of the carrier with element type
	tp                             string // explicit leading type argument where nothing carries it (LiftAN)
}

var monads = []monad{
	{"try", "tryV", "resTry", "retTry", "retTryVal", "mTry", "fp.Try[%s]", ""},
	{"option", "optV", "resOpt", "retOpt", "retOptVal", "mOption", "fp.Option[%s]", ""},
	{"either", "eitV", "resEit", "retEit", "retEitVal", "mEither", "fp.Either[error, %s]", "[error]"},
	{"statet", "stV", "resSt", "retSt", "retStVal", "mState", "fp.StateT[int, %s]", "[int]"},
}

const plainBase = 16

func pv(j int) string { return fmt.Sprintf("t.vals[%d]", plainBase+j) }

func pvs(n int) string {
	s := make([]string, n)
	for i := range s {
		s[i] = pv(i)
	}
	return strings.Join(s, ", ")
}

func pvIdx(n int) []int {
	s := make([]int, n)
	for i := range s {
		s[i] = plainBase + i
	}
	return s
}

func seqIdx(n int) []int {
	s := make([]int, n)
	for i := range s {
		s[i] = i
	}
	return s
}

func ints(a []int) string {
	if a == nil {
		return "nil"
	}
	s := make([]string, len(a))
	for i, v := range a {
		s[i] = fmt.Sprint(v)
	}
	return "[]int{" + strings.Join(s, ", ") + "}"
}

type stepD struct {
	bit     int
	cb      string // "" or expression
	cbArgs  []int
	optErr  bool
	fixed   bool // operand handed over as a plain value when the function value is built
	atBuild bool // user function applied when the program value is built
}

type finalD struct {
	args []int
	bit  int
}

type siteD struct {
	key, family string
	n           int
	m           monad
	steps       []stepD
	final       *finalD
	wantVal     int
	fn          bool   // the library call returns a function value; exec applies it through t.run
	exec        string // body of func(t *T)
}

// chunk closes the current init function and opens a new one every few sites: one giant init
// function (hundreds of composite literals and closures) makes the compiler's back end crawl.
var emitted int

func chunk(b *bytes.Buffer) {
	emitted++
	if emitted%6 == 0 {
		b.WriteString("}\n\nfunc init() {\n")
	}
}

func (s siteD) emit(b *bytes.Buffer) {
	chunk(b)
	fnf := ""
	if s.fn {
		fnf = " Fn: true,"
	}
	fmt.Fprintf(b, "\treg(&site{Key: %q, Family: %q, N: %d, Monad: %s, WantVal: %d,%s\n", s.key, s.family, s.n, s.m.mconst, s.wantVal, fnf)
	fmt.Fprintf(b, "\t\tSteps: []step{")
	for i, st := range s.steps {
		if i > 0 {
			b.WriteString(", ")
		}
		fmt.Fprintf(b, "{Bit: %d", st.bit)
		if st.cb != "" {
			fmt.Fprintf(b, ", Cb: %s", st.cb)
			if st.cbArgs != nil {
				fmt.Fprintf(b, ", CbArgs: %s", ints(st.cbArgs))
			}
		}
		if st.optErr {
			b.WriteString(", OptErr: true")
		}
		if st.fixed {
			b.WriteString(", Fixed: true")
		}
		if st.atBuild {
			b.WriteString(", AtBuild: true")
		}
		b.WriteString("}")
	}
	b.WriteString("},\n")
	if s.final != nil {
		fmt.Fprintf(b, "\t\tFinal: &final{Args: %s, Bit: %d},\n", ints(s.final.args), s.final.bit)
	}
	fmt.Fprintf(b, "\t\tExec: func(t *T) { %s }})\n", s.exec)
}

func ops(m monad, n int) string {
	s := make([]string, n)
	for i := range s {
		s[i] = fmt.Sprintf("%s(t, %d, t.vals[%d])", m.V, i, i)
	}
	return strings.Join(s, ", ")
}

// fixedOp: one monadic operand handed to the builder of a function value. For the strict monads its failure
// is decided when the function value is built; a StateT operand is a program that decides when it runs.
func fixedOp(m monad) []stepD {
	return []stepD{{bit: 0, fixed: m.pkg != "statet"}}
}

// applied renders "f := <builder>; t.run(func() { <res>(t, f<args>) })": the function value is kept and applied again.
func applied(m monad, builder, args string) string {
	return fmt.Sprintf("f := %s; t.run(func() { %s(t, f%s) })", builder, m.res, args)
}

func opSteps(n int) []stepD {
	s := make([]stepD, n)
	for i := range s {
		s[i] = stepD{bit: i}
	}
	return s
}

func sup(k int) string { return fmt.Sprintf("idSup + %d", k) }

// ---- helpers file ---------------------------------------------------------------------

func genHelpers() []byte {
	var b bytes.Buffer
	b.WriteString(header("helpers: instrumented callbacks of every arity"))
	b.WriteString("import \"github.com/csgura/fp\"\n\n")
	for n := 0; n <= 9; n++ {
		decl, call := argDecl(n), argCall(n)
		c := ""
		if n > 0 {
			c = ", " + call
		}
		fmt.Fprintf(&b, "func fn%d[R any](t *T, id int, ret func(int) R) func(%s) R {\n\treturn func(%s) R { return ret(t.call(id%s)) }\n}\n\n", n, decl, decl, c)
		fmt.Fprintf(&b, "func fp%d(t *T, id int, ret func(int) (int, error)) func(%s) (int, error) {\n\treturn func(%s) (int, error) { return ret(t.call(id%s)) }\n}\n\n", n, decl, decl, c)
	}
	for n := 1; n <= 9; n++ {
		fmt.Fprintf(&b, "func cur%d(t *T, id int) %s {\n\treturn ", n, curType(n))
		for i := 1; i <= n; i++ {
			rt := "int"
			if i < n {
				rt = curType(n - i)
			}
			fmt.Fprintf(&b, "func(a%d int) %s { return ", i, rt)
		}
		fmt.Fprintf(&b, "t.call(id, %s)", argCall(n))
		b.WriteString(strings.Repeat(" }", n))
		b.WriteString("\n}\n\n")
	}
	return b.Bytes()
}

func curType(n int) string {
	if n == 0 {
		return "int"
	}
	return "fp.Func1[int, " + curType(n-1) + "]"
}

func argDecl(n int) string {
	if n == 0 {
		return ""
	}
	s := make([]string, n)
	for i := range s {
		s[i] = fmt.Sprintf("a%d", i+1)
	}
	return strings.Join(s, ", ") + " int"
}

func argCall(n int) string {
	s := make([]string, n)
	for i := range s {
		s[i] = fmt.Sprintf("a%d", i+1)
	}
	return strings.Join(s, ", ")
}

func header(what string) string {
	return "// Code generated by /verif/c02/gen; DO NOT EDIT.\n// " + what + "\n\npackage main\n\n"
}

// ---- generated-monad families -----------------------------------------------------------

func suffix(name string, n int) string {
	if n == 1 {
		return name
	}
	return fmt.Sprintf("%s%d", name, n)
}

func genMonad(m monad) []byte {
	var b bytes.Buffer
	b.WriteString(header("call sites of the generated monad functions of package " + m.pkg))
	fmt.Fprintf(&b, "import (\n\t\"github.com/csgura/fp\"\n\t\"github.com/csgura/fp/%s\"\n)\n\nvar _ fp.Unit\n\nfunc init() {\n", m.pkg)
	p := m.pkg
	var sites []siteD
	add := func(s siteD) { sites = append(sites, s) }
	for n := 1; n <= 9; n++ {
		// MapN
		name := "Map"
		if n > 1 {
			name = fmt.Sprintf("Map%d", n)
		}
		add(siteD{key: p + "." + name, family: p + ".MapN", n: n, m: m, steps: opSteps(n), final: &finalD{seqIdx(n), -1}, wantVal: -1,
			exec: fmt.Sprintf("%s(t, %s.%s(%s, fn%d(t, idF, retInt)))", m.res, p, name, ops(m, n), n)})
		// LiftAN
		name = "Lift"
		if n > 1 {
			name = fmt.Sprintf("LiftA%d", n)
		}
		add(siteD{key: p + "." + name, family: p + ".LiftAN", n: n, m: m, steps: opSteps(n), final: &finalD{seqIdx(n), -1}, wantVal: -1, fn: true,
			exec: applied(m, fmt.Sprintf("%s.%s%s(fn%d(t, idF, retInt))", p, name, m.tp, n), "("+ops(m, n)+")")})
		// FlatMapN
		name = suffix("FlatMap", n)
		add(siteD{key: p + "." + name, family: p + ".FlatMapN", n: n, m: m, steps: opSteps(n), final: &finalD{seqIdx(n), n}, wantVal: -1,
			exec: fmt.Sprintf("%s(t, %s.%s(%s, fn%d(t, idF, %s(t, %d))))", m.res, p, name, ops(m, n), n, m.ret, n)})
		// LiftMN
		name = suffix("LiftM", n)
		add(siteD{key: p + "." + name, family: p + ".LiftMN", n: n, m: m, steps: opSteps(n), final: &finalD{seqIdx(n), n}, wantVal: -1, fn: true,
			exec: applied(m, fmt.Sprintf("%s.%s(fn%d(t, idF, %s(t, %d)))", p, name, n, m.ret, n), "("+ops(m, n)+")")})
		// FlapN: one monadic operand holding a curried function, N plain arguments
		name = suffix("Flap", n)
		apply := ""
		for i := 0; i < n; i++ {
			apply += "(" + pv(i) + ")"
		}
		add(siteD{key: p + "." + name, family: p + ".FlapN", n: n, m: m, steps: fixedOp(m), final: &finalD{pvIdx(n), -1}, wantVal: -1, fn: true,
			exec: applied(m, fmt.Sprintf("%s.%s(%s(t, 0, cur%d(t, idF)))", p, name, m.V, n), apply)})
		// MethodN / FlatMethodN: Method1 takes a 2-argument function, Method2 and Method3 a 3-argument one, MethodK (K>=3) a K-argument one
		fa := n
		if n == 1 {
			fa = 2
		} else if n == 2 {
			fa = 3
		}
		margs := append([]int{0}, pvIdx(fa-1)...)
		add(siteD{key: fmt.Sprintf("%s.Method%d", p, n), family: p + ".MethodN", n: n, m: m, steps: fixedOp(m), final: &finalD{margs, -1}, wantVal: -1, fn: true,
			exec: applied(m, fmt.Sprintf("%s.Method%d(%s(t, 0, t.vals[0]), fn%d(t, idF, retInt))", p, n, m.V, fa), "("+pvs(fa-1)+")")})
		add(siteD{key: fmt.Sprintf("%s.FlatMethod%d", p, n), family: p + ".FlatMethodN", n: n, m: m, steps: fixedOp(m), final: &finalD{margs, 1}, wantVal: -1, fn: true,
			exec: applied(m, fmt.Sprintf("%s.FlatMethod%d(%s(t, 0, t.vals[0]), fn%d(t, idF, %s(t, 1)))", p, n, m.V, fa, m.ret), "("+pvs(fa-1)+")")})
	}
	// Compose family: Kleisli chains
	for _, c := range []struct {
		name string
		k    int
	}{{"Compose", 2}, {"Compose2", 2}, {"Compose3", 3}, {"Compose4", 4}, {"Compose5", 5}} {
		var st []stepD
		var fs []string
		for k := 0; k < c.k; k++ {
			arg := []int{k - 1}
			if k == 0 {
				arg = []int{plainBase}
			}
			// statet: the first Kleisli step is applied when the composed function is applied, the rest when the program runs
			st = append(st, stepD{bit: k, cb: sup(k), cbArgs: arg, atBuild: k == 0 && m.pkg == "statet"})
			fs = append(fs, fmt.Sprintf("fn1(t, %s, %s(t, %d))", sup(k), m.retV, k))
		}
		add(siteD{key: p + "." + c.name, family: p + ".ComposeN", n: c.k, m: m, steps: st, wantVal: c.k - 1, fn: true,
			exec: applied(m, fmt.Sprintf("%s.%s(%s)", p, c.name, strings.Join(fs, ", ")), "("+pv(0)+")")})
	}
	// Ap / ApFunc
	add(siteD{key: p + ".Ap", family: p + ".Ap", n: 2, m: m, steps: opSteps(2), final: &finalD{[]int{1}, -1}, wantVal: -1,
		exec: fmt.Sprintf("%s(t, %s.Ap(%s(t, 0, cur1(t, idF)), %s(t, 1, t.vals[1])))", m.res, p, m.V, m.V)})
	add(siteD{key: p + ".ApFunc", family: p + ".ApFunc", n: 2, m: m, steps: []stepD{{bit: 0}, {bit: 1, cb: sup(1)}}, final: &finalD{[]int{1}, -1}, wantVal: -1,
		exec: fmt.Sprintf("%s(t, %s.ApFunc(%s(t, 0, cur1(t, idF)), fn0(t, %s, %s(t, 1))))", m.res, p, m.V, sup(1), m.retV)})
	// Flatten, Replace, Zip, Zip3, UnZip, With, FlapMap, FlatFlapMap
	add(siteD{key: p + ".Flatten", family: p + ".Flatten", n: 2, m: m, steps: opSteps(2), wantVal: 1,
		exec: fmt.Sprintf("%s(t, %s.Flatten(%s(t, 0, %s(t, 1, t.vals[1]))))", m.res, p, m.V, m.V)})
	add(siteD{key: p + ".Replace", family: p + ".Replace", n: 1, m: m, steps: opSteps(1), wantVal: 20,
		exec: fmt.Sprintf("%s(t, %s.Replace(%s(t, 0, t.vals[0]), t.vals[20]))", m.res, p, m.V)})
	add(siteD{key: p + ".Zip", family: p + ".ZipN", n: 2, m: m, steps: opSteps(2), wantVal: -1,
		exec: fmt.Sprintf("%s(t, %s.Zip(%s))", m.res, p, ops(m, 2))})
	add(siteD{key: p + ".Zip3", family: p + ".ZipN", n: 3, m: m, steps: opSteps(3), wantVal: -1,
		exec: fmt.Sprintf("%s(t, %s.Zip3(%s))", m.res, p, ops(m, 3))})
	add(siteD{key: p + ".UnZip#1", family: p + ".UnZip", n: 1, m: m, steps: opSteps(1), wantVal: 0,
		exec: fmt.Sprintf("a, _ := %s.UnZip(%s(t, 0, fp.Tuple2[int, int]{I1: t.vals[0], I2: t.vals[1]})); %s(t, a)", p, m.V, m.res)})
	add(siteD{key: p + ".UnZip#2", family: p + ".UnZip", n: 2, m: m, steps: opSteps(1), wantVal: 1,
		exec: fmt.Sprintf("_, a := %s.UnZip(%s(t, 0, fp.Tuple2[int, int]{I1: t.vals[0], I2: t.vals[1]})); %s(t, a)", p, m.V, m.res)})
	add(siteD{key: p + ".With", family: p + ".With", n: 1, m: m, steps: fixedOp(m), final: &finalD{[]int{plainBase, 0}, -1}, wantVal: -1, fn: true,
		exec: applied(m, fmt.Sprintf("%s.With(fn2(t, idF, retInt), %s(t, 0, t.vals[0]))", p, m.V), "("+pv(0)+")")})
	add(siteD{key: p + ".FlapMap", family: p + ".FlapMap", n: 1, m: m, steps: fixedOp(m), final: &finalD{[]int{0, plainBase}, -1}, wantVal: -1, fn: true,
		exec: applied(m, fmt.Sprintf("%s.FlapMap(fn2(t, idF, retInt), %s(t, 0, t.vals[0]))", p, m.V), "("+pv(0)+")")})
	add(siteD{key: p + ".FlatFlapMap", family: p + ".FlatFlapMap", n: 1, m: m, steps: fixedOp(m), final: &finalD{[]int{0, plainBase}, 1}, wantVal: -1, fn: true,
		exec: applied(m, fmt.Sprintf("%s.FlatFlapMap(fn2(t, idF, %s(t, 1)), %s(t, 0, t.vals[0]))", p, m.ret, m.V), "("+pv(0)+")")})
	if m.pkg == "try" {
		// try.FuncN / UnitN / PureN: wrappers that turn (value, error) into a Try
		for n := 1; n <= 9; n++ {
			add(siteD{key: fmt.Sprintf("try.Func%d", n), family: "try.FuncN", n: n, m: m, steps: []stepD{{bit: 0, cb: sup(0), cbArgs: pvIdx(n)}}, wantVal: 0, fn: true,
				exec: applied(m, fmt.Sprintf("try.Func%d(fp%d(t, %s, retPair(t, 0)))", n, n, sup(0)), "("+pvs(n)+")")})
			add(siteD{key: fmt.Sprintf("try.Unit%d", n), family: "try.UnitN", n: n, m: m, steps: []stepD{{bit: 0, cb: sup(0), cbArgs: pvIdx(n)}}, wantVal: -1, fn: true,
				exec: applied(m, fmt.Sprintf("try.Unit%d(fn%d(t, %s, retError(t, 0)))", n, n, sup(0)), "("+pvs(n)+")")})
			add(siteD{key: fmt.Sprintf("try.Pure%d", n), family: "try.PureN", n: n, m: m, final: &finalD{pvIdx(n), -1}, wantVal: -1, fn: true,
				exec: applied(m, fmt.Sprintf("try.Pure%d(fn%d(t, idF, retInt))", n, n), "("+pvs(n)+")")})
		}
	}
	for _, s := range sites {
		s.emit(&b)
	}
	// sequence-shaped families: positions are elements, length is a run-time parameter (0..8 exhaustively)
	x := map[string]string{"try": "Try", "option": "Opt", "either": "Eit", "statet": "St"}[m.pkg]
	trav := func(name, flags, res, body string) {
		chunk(&b)
		fmt.Fprintf(&b, "\tregTrav(%q, %s, %s, %s, func(t *T, L int) { %s })\n", p+"."+name, m.mconst, flags, res, body)
	}
	call := func(expr string) string { return fmt.Sprintf("%s(t, %s.%s)", m.res, p, expr) }
	fnCall := func(builder, arg string) string { return applied(m, p+"."+builder, "("+arg+")") }
	trav("Traverse", "tvCb", "resPlus7", call(fmt.Sprintf("Traverse(t.iter(0, L), trav%s(t))", x)))
	trav("TraverseSeq", "tvCb", "resPlus7", call(fmt.Sprintf("TraverseSeq(fp.Seq[int](t.elems(0, L)), trav%s(t))", x)))
	trav("TraverseSlice", "tvCb", "resPlus7", call(fmt.Sprintf("TraverseSlice(t.elems(0, L), trav%s(t))", x)))
	trav("TraverseFunc", "tvCb|tvFn", "resPlus7", fnCall(fmt.Sprintf("TraverseFunc(trav%s(t))", x), "t.iter(0, L)"))
	trav("TraverseSeqFunc", "tvCb|tvFn", "resPlus7", fnCall(fmt.Sprintf("TraverseSeqFunc(trav%s(t))", x), "fp.Seq[int](t.elems(0, L))"))
	trav("TraverseSliceFunc", "tvCb|tvFn", "resPlus7", fnCall(fmt.Sprintf("TraverseSliceFunc(trav%s(t))", x), "t.elems(0, L)"))
	trav("FlatMapTraverseSeq", "tvOperand|tvCb", "resPlus7", call(fmt.Sprintf("FlatMapTraverseSeq(%s(t, 0, fp.Seq[int](t.elems(1, L))), trav%s(t))", m.V, x)))
	trav("FlatMapTraverseSlice", "tvOperand|tvCb", "resPlus7", call(fmt.Sprintf("FlatMapTraverseSlice(%s(t, 0, t.elems(1, L)), trav%s(t))", m.V, x)))
	trav("MapSeqLift", "tvOperand|tvCb|tvPure", "resPlus7", call(fmt.Sprintf("MapSeqLift(%s(t, 0, fp.Seq[int](t.elems(1, L))), travPure(t))", m.V)))
	trav("MapSliceLift", "tvOperand|tvCb|tvPure", "resPlus7", call(fmt.Sprintf("MapSliceLift(%s(t, 0, t.elems(1, L)), travPure(t))", m.V)))
	trav("Sequence", "0", "resVals", call(fmt.Sprintf("Sequence(seq%s(t, 0, L))", x)))
	trav("SequenceIterator", "0", "resVals", call(fmt.Sprintf("SequenceIterator(fp.IteratorOfSeq(seq%s(t, 0, L)))", x)))
	trav("FoldM", "tvCb", "resSum", call(fmt.Sprintf("FoldM(t.iter(0, L), 0, fold%s(t))", x)))
	b.WriteString("}\n")
	return b.Bytes()
}

// ---- builders (ApplicativeN / ChainN of try and option) ---------------------------------

func consType(k int) string {
	if k == 0 {
		return "hlist.Nil"
	}
	return "hlist.Cons[int, " + consType(k-1) + "]"
}

// stepCall renders method `kd` at position k (0-based) for builder package m and returns the step descriptor.
func stepCall(m monad, kd string, k int) (string, stepD) {
	isTry := m.pkg == "try"
	mt := fmt.Sprintf(m.typ, "int")
	switch kd {
	case "ApTry":
		return fmt.Sprintf(".ApTry(tryV(t, %d, t.vals[%d]))", k, k), stepD{bit: k}
	case "ApOption":
		return fmt.Sprintf(".ApOption(optV(t, %d, t.vals[%d]))", k, k), stepD{bit: k, optErr: isTry}
	case "Ap":
		return fmt.Sprintf(".Ap(t.vals[%d])", k), stepD{bit: -1}
	case "ApTryFunc":
		return fmt.Sprintf(".ApTryFunc(fn0(t, %s, retTryVal(t, %d)))", sup(k), k), stepD{bit: k, cb: sup(k)}
	case "ApOptionFunc":
		return fmt.Sprintf(".ApOptionFunc(fn0(t, %s, retOptVal(t, %d)))", sup(k), k), stepD{bit: k, cb: sup(k), optErr: isTry}
	case "ApFunc":
		return fmt.Sprintf(".ApFunc(fn0(t, %s, retVal(t, %d)))", sup(k), k), stepD{bit: -1, cb: sup(k)}
	case "FlatMap":
		if k == 0 {
			return fmt.Sprintf(".FlatMap(func(hlist.Nil) %s { return fn0(t, %s, %s(t, 0))() })", mt, sup(k), m.retV), stepD{bit: k, cb: sup(k)}
		}
		return fmt.Sprintf(".FlatMap(fn1(t, %s, %s(t, %d)))", sup(k), m.retV, k), stepD{bit: k, cb: sup(k), cbArgs: []int{k - 1}}
	case "Map":
		if k == 0 {
			return fmt.Sprintf(".Map(func(hlist.Nil) int { return fn0(t, %s, retVal(t, 0))() })", sup(k)), stepD{bit: -1, cb: sup(k)}
		}
		return fmt.Sprintf(".Map(fn1(t, %s, retVal(t, %d)))", sup(k), k), stepD{bit: -1, cb: sup(k), cbArgs: []int{k - 1}}
	case "HListFlatMap":
		if k == 0 {
			return fmt.Sprintf(".HListFlatMap(func(hlist.Nil) %s { return fn0(t, %s, %s(t, 0))() })", mt, sup(k), m.retV), stepD{bit: k, cb: sup(k)}
		}
		return fmt.Sprintf(".HListFlatMap(func(h %s) %s { return fn1(t, %s, %s(t, %d))(h.Head()) })", consType(k), mt, sup(k), m.retV, k), stepD{bit: k, cb: sup(k), cbArgs: []int{k - 1}}
	case "HListMap":
		if k == 0 {
			return fmt.Sprintf(".HListMap(func(hlist.Nil) int { return fn0(t, %s, retVal(t, 0))() })", sup(k)), stepD{bit: -1, cb: sup(k)}
		}
		return fmt.Sprintf(".HListMap(func(h %s) int { return fn1(t, %s, retVal(t, %d))(h.Head()) })", consType(k), sup(k), k), stepD{bit: -1, cb: sup(k), cbArgs: []int{k - 1}}
	}
	panic("unknown kind " + kd)
}

func genBuilders(m monad) []byte {
	var b bytes.Buffer
	b.WriteString(header("call sites of the ApplicativeN / ChainN builders of package " + m.pkg))
	fmt.Fprintf(&b, "import (\n\t\"github.com/csgura/fp\"\n\t\"github.com/csgura/fp/hlist\"\n\t\"github.com/csgura/fp/%s\"\n)\n\nvar _ fp.Unit\nvar _ hlist.Nil\n\nfunc init() {\n", m.pkg)
	var apKinds, chKinds []string
	if m.pkg == "try" {
		apKinds = []string{"ApTry", "ApTryFunc", "ApOption", "ApFunc", "ApOptionFunc", "Ap"}
		chKinds = []string{"ApTry", "FlatMap", "ApTryFunc", "Map", "ApOption", "HListFlatMap", "ApFunc", "ApOptionFunc", "HListMap", "Ap"}
	} else {
		apKinds = []string{"ApOption", "ApOptionFunc", "ApFunc", "Ap"}
		chKinds = []string{"ApOption", "FlatMap", "ApOptionFunc", "Map", "HListFlatMap", "ApFunc", "HListMap", "Ap"}
	}
	for _, bl := range []struct {
		ctor  string
		kinds []string
	}{{"Applicative", apKinds}, {"Chain", chKinds}} {
		K := len(bl.kinds)
		type scheme struct {
			name string
			pick func(k int) string
		}
		// uniform chains of every method kind whose position can fail (all 2^N masks each), and all K
		// rotations of the kind list (every kind at every position, every adjacent pair of kinds)
		var schemes []scheme
		for _, kd := range bl.kinds {
			kd := kd
			if _, sd := stepCall(m, kd, 1); sd.bit < 0 {
				continue
			}
			schemes = append(schemes, scheme{"all-" + kd, func(int) string { return kd }})
		}
		for r := 0; r < K; r++ {
			r := r
			schemes = append(schemes, scheme{fmt.Sprintf("rot-%d", r), func(k int) string { return bl.kinds[(k+r)%K] }})
		}
		seen := map[string]bool{}
		for n := 1; n <= 9; n++ {
			for _, sc := range schemes {
				var st []stepD
				var names []string
				chain := fmt.Sprintf("%s.%s%d(fn%d(t, idF, retInt))", m.pkg, bl.ctor, n, n)
				for k := 0; k < n; k++ {
					kd := sc.pick(k)
					txt, sd := stepCall(m, kd, k)
					chain += txt
					st = append(st, sd)
					names = append(names, kd)
				}
				key := fmt.Sprintf("%s.%s%d[%s]", m.pkg, bl.ctor, n, strings.Join(names, "."))
				if strings.HasPrefix(sc.name, "all-") && n > 1 {
					key = fmt.Sprintf("%s.%s%d[%dx%s]", m.pkg, bl.ctor, n, n, names[0])
				}
				if seen[key] {
					continue // e.g. arity 1: several rotations coincide
				}
				seen[key] = true
				siteD{key: key, family: fmt.Sprintf("%s.%sN/%s", m.pkg, bl.ctor, sc.name), n: n, m: m, steps: st, final: &finalD{seqIdx(n), -1}, wantVal: -1,
					exec: fmt.Sprintf("%s(t, %s)", m.res, chain)}.emit(&b)
			}
		}
	}
	b.WriteString("}\n")
	return b.Bytes()
}

// ---- future.FuncN / UnitN ---------------------------------------------------------------

func genFuture() []byte {
	var b bytes.Buffer
	b.WriteString(header("call sites of future.FuncN / future.UnitN (panic-capture family, executed on the inline executor)"))
	b.WriteString("import \"github.com/csgura/fp/future\"\n\nfunc init() {\n")
	for n := 1; n <= 9; n++ {
		chunk(&b)
		fmt.Fprintf(&b, "\tregPanicSite(\"future.Func%d\", \"future.FuncN\", %d, flagVal|flagErr|flagFut, func(t *T) { f := future.Func%d(fp%d(t, idF, t.behavePair), t.exec); t.run(func() { resFut(t, f(%s)) }) })\n", n, n, n, n, pvs(n))
		fmt.Fprintf(&b, "\tregPanicSite(\"future.Unit%d\", \"future.UnitN\", %d, flagErr|flagFut, func(t *T) { f := future.Unit%d(fn%d(t, idF, t.behaveErr), t.exec); t.run(func() { resFut(t, f(%s)) }) })\n", n, n, n, n, pvs(n))
	}
	b.WriteString("}\n")
	return b.Bytes()
}

func main() {
	out := flag.String("out", ".", "directory of package c02")
	flag.Parse()
	files := map[string][]byte{
		"gen_helpers.go":         genHelpers(),
		"gen_future.go":          genFuture(),
		"gen_builders_try.go":    genBuilders(monads[0]),
		"gen_builders_option.go": genBuilders(monads[1]),
	}
	for _, m := range monads {
		files["gen_monad_"+m.pkg+".go"] = genMonad(m)
	}
	for name, src := range files {
		f, err := format.Source(src)
		if err != nil {
			fmt.Fprintf(os.Stderr, "%s: %v\n", name, err)
			f = src
		}
		if err := os.WriteFile(filepath.Join(*out, name), f, 0o644); err != nil {
			fmt.Fprintln(os.Stderr, err)
			os.Exit(1)
		}
		fmt.Printf("wrote %s (%d bytes)\n", name, len(f))
	}
}
