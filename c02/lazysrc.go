// C02 — LAZY instrumented sources for the sequence-shaped families that take an fp.Iterator (added
// after seeded C02-s3-3).
//
// The element-wise families are fed, in the other sites, from sources whose elements exist before
// the call. Here the source PRODUCES each element by running user code when it is pulled (a parser
// mapped over records, a generator, a range-over-func sequence), so "no user function positioned
// after the failure is invoked" also covers the production of later elements: a call that drains
// its source before it looks at the first element runs that user code for every element after the
// failing one, and never returns on an unbounded source.
//
// Source kinds: fp.MakeIterator (production inside Next), iterator.Map(base, produce),
// iterator.Generate(produce) (+ Take(n) when bounded), iterator.Pull(iter.Seq). Cases: kind x
// (length n, failing element p) incl. no failure, first, middle, last, and UNBOUNDED sources with
// a failing element (must terminate: production ticks a logical budget of p + 66 pulls).
// Checked after the call, per case:
//   - elements produced == consumed + look-ahead, consumed = p+1 (n without failure); the look-ahead
//     of the unchanged library is 0 for MakeIterator / Map / Generate and exactly 1 for
//     iterator.Pull (fp.MakePullIterator reads one element ahead), capped by n;
//   - the per-element user function ran exactly for the elements 0..p, in order;
//   - the result is the failure of element p (identical error / None / that Left), or a success;
//   - the caller, who still holds the source, can RESUME it: HasNext is true iff elements are left
//     and Next yields element p+1 (then p+2).
//
// Keys: <site>/source-element-produced-after-failure, /source-elements-not-all-consumed,
// /source-not-resumable-after-failure, /callback-after-failure, /callback-not-invoked,
// /wrong-failure, /failure-lost, /nontermination.
package main

import (
	"fmt"
	"iter"

	"verif/vrt"

	"github.com/csgura/fp"
	"github.com/csgura/fp/either"
	"github.com/csgura/fp/iterator"
	"github.com/csgura/fp/option"
	"github.com/csgura/fp/try"
)

const (
	lzMake = iota
	lzMap
	lzGenerate
	lzPull
	nLzKinds
)

var lzKindNames = []string{"fp.MakeIterator", "iterator.Map(base, produce)", "iterator.Generate(produce)[.Take(n)]", "iterator.Pull(iter.Seq)"}

type lzCfg struct{ kind, n, p int } // n < 0: unbounded; p < 0: no failing element

func (c lzCfg) String() string {
	n := fmt.Sprint(c.n)
	if c.n < 0 {
		n = "unbounded"
	}
	p := "none"
	if c.p >= 0 {
		p = fmt.Sprint(c.p)
	}
	return fmt.Sprintf("source=%s elements=%s failing element=%s", lzKindNames[c.kind], n, p)
}

var lzCfgs = func() []lzCfg {
	var out []lzCfg
	for k := 0; k < nLzKinds; k++ {
		for _, np := range [][2]int{{0, -1}, {1, -1}, {1, 0}, {3, -1}, {3, 0}, {3, 1}, {3, 2}, {9, 4}, {9, 7}, {9, 8}, {40, 0}, {40, 20}, {40, -1},
			{-1, 0}, {-1, 1}, {-1, 7}, {-1, 33}} {
			out = append(out, lzCfg{k, np[0], np[1]})
		}
	}
	return out
}()

type lzState struct {
	cfg      lzCfg
	produced int   // elements produced by the source's user code
	order    bool  // produced in order 0,1,2,…
	calls    []int // element indices the per-element user function was called with
	bud      *vrt.Budget
}

func lzVal(k int) int { return (k+1)<<20 | 4242 }

func (st *lzState) produce(k int) {
	st.bud.Tick()
	if k != st.produced {
		st.order = false
	}
	st.produced++
}

// lzSource builds the lazy source; elem(k) is the k-th element (user code run at production time).
func lzSource[E any](st *lzState, elem func(k int) E) fp.Iterator[E] {
	cfg := st.cfg
	more := func(i int) bool { return cfg.n < 0 || i < cfg.n }
	i := 0
	switch cfg.kind {
	case lzMake:
		return fp.MakeIterator(func() bool { return more(i) }, func() E {
			k := i
			i++
			st.produce(k)
			return elem(k)
		})
	case lzMap:
		base := fp.MakeIterator(func() bool { return more(i) }, func() int { k := i; i++; return k })
		return iterator.Map(base, func(k int) E { st.produce(k); return elem(k) })
	case lzGenerate:
		g := iterator.Generate(func() E {
			k := i
			i++
			st.produce(k)
			return elem(k)
		})
		if cfg.n >= 0 {
			g = g.Take(cfg.n)
		}
		return g
	}
	var seq iter.Seq[E] = func(yield func(E) bool) {
		for k := 0; more(k); k++ {
			st.produce(k)
			if !yield(elem(k)) {
				return
			}
		}
	}
	return iterator.Pull(seq)
}

type lzOut struct {
	failed bool
	err    error // the failure's error where the carrier has one
	hasErr bool
}

type lzFamily struct {
	key string
	cb  bool // the family calls a per-element user function
	// run performs the library call on a fresh lazy source and returns the outcome and a function that
	// pulls the next element's value from the source the caller still holds
	run func(t *T, st *lzState) (lzOut, func() (bool, int))
}

func lzResume[E any](src fp.Iterator[E], val func(E) int) func() (bool, int) {
	return func() (bool, int) {
		if !src.HasNext() {
			return false, 0
		}
		return true, val(src.Next())
	}
}

func idInt(x int) int { return x }

func lzFamilies() []lzFamily {
	fail := func(t *T, st *lzState, k int) bool { return k == st.cfg.p }
	fTry := func(t *T, st *lzState) func(int) fp.Try[int] {
		return func(a int) fp.Try[int] {
			k := posOf(a)
			st.calls = append(st.calls, k)
			if fail(t, st, k) {
				return fp.Failure[int](t.errs[0])
			}
			return fp.Success(a + 7)
		}
	}
	fOpt := func(t *T, st *lzState) func(int) fp.Option[int] {
		return func(a int) fp.Option[int] {
			k := posOf(a)
			st.calls = append(st.calls, k)
			if fail(t, st, k) {
				return fp.None[int]()
			}
			return fp.Some(a + 7)
		}
	}
	fEit := func(t *T, st *lzState) func(int) fp.Either[error, int] {
		return func(a int) fp.Either[error, int] {
			k := posOf(a)
			st.calls = append(st.calls, k)
			if fail(t, st, k) {
				return fp.Left[error, int](t.errs[0])
			}
			return fp.Right[error](a + 7)
		}
	}
	oTry := func(r interface {
		IsSuccess() bool
		Failed() fp.Try[error]
	}) lzOut {
		if r.IsSuccess() {
			return lzOut{}
		}
		return lzOut{failed: true, err: r.Failed().Get(), hasErr: true}
	}
	ints := func(st *lzState) fp.Iterator[int] { return lzSource(st, lzVal) }
	return []lzFamily{
		{"try.Traverse", true, func(t *T, st *lzState) (lzOut, func() (bool, int)) {
			src := ints(st)
			return oTry(try.Traverse(src, fTry(t, st))), lzResume(src, idInt)
		}},
		{"try.TraverseFunc", true, func(t *T, st *lzState) (lzOut, func() (bool, int)) {
			src := ints(st)
			return oTry(try.TraverseFunc(fTry(t, st))(src)), lzResume(src, idInt)
		}},
		{"try.Traverse_", true, func(t *T, st *lzState) (lzOut, func() (bool, int)) {
			src := ints(st)
			err := try.Traverse_(src, fTry(t, st))
			return lzOut{failed: err != nil, err: err, hasErr: true}, lzResume(src, idInt)
		}},
		{"try.FoldM", true, func(t *T, st *lzState) (lzOut, func() (bool, int)) {
			src := ints(st)
			f := fTry(t, st)
			return oTry(try.FoldM(src, 0, func(acc, a int) fp.Try[int] { return f(a) })), lzResume(src, idInt)
		}},
		{"try.SequenceIterator", false, func(t *T, st *lzState) (lzOut, func() (bool, int)) {
			src := lzSource(st, func(k int) fp.Try[int] {
				if fail(t, st, k) {
					return fp.Failure[int](t.errs[0])
				}
				return fp.Success(lzVal(k))
			})
			return oTry(try.SequenceIterator(src)), lzResume(src, func(e fp.Try[int]) int { return e.Get() })
		}},
		{"option.Traverse", true, func(t *T, st *lzState) (lzOut, func() (bool, int)) {
			src := ints(st)
			return lzOut{failed: !option.Traverse(src, fOpt(t, st)).IsDefined()}, lzResume(src, idInt)
		}},
		{"option.TraverseFunc", true, func(t *T, st *lzState) (lzOut, func() (bool, int)) {
			src := ints(st)
			return lzOut{failed: !option.TraverseFunc(fOpt(t, st))(src).IsDefined()}, lzResume(src, idInt)
		}},
		{"option.FoldM", true, func(t *T, st *lzState) (lzOut, func() (bool, int)) {
			src := ints(st)
			f := fOpt(t, st)
			return lzOut{failed: !option.FoldM(src, 0, func(acc, a int) fp.Option[int] { return f(a) }).IsDefined()}, lzResume(src, idInt)
		}},
		{"option.SequenceIterator", false, func(t *T, st *lzState) (lzOut, func() (bool, int)) {
			src := lzSource(st, func(k int) fp.Option[int] {
				if fail(t, st, k) {
					return fp.None[int]()
				}
				return fp.Some(lzVal(k))
			})
			return lzOut{failed: !option.SequenceIterator(src).IsDefined()}, lzResume(src, func(e fp.Option[int]) int { return e.Get() })
		}},
		{"either.Traverse", true, func(t *T, st *lzState) (lzOut, func() (bool, int)) {
			src := ints(st)
			r := either.Traverse(src, fEit(t, st))
			if r.IsRight() {
				return lzOut{}, lzResume(src, idInt)
			}
			return lzOut{failed: true, err: r.Left(), hasErr: true}, lzResume(src, idInt)
		}},
		{"either.FoldM", true, func(t *T, st *lzState) (lzOut, func() (bool, int)) {
			src := ints(st)
			f := fEit(t, st)
			r := either.FoldM(src, 0, func(acc, a int) fp.Either[error, int] { return f(a) })
			if r.IsRight() {
				return lzOut{}, lzResume(src, idInt)
			}
			return lzOut{failed: true, err: r.Left(), hasErr: true}, lzResume(src, idInt)
		}},
		{"either.SequenceIterator", false, func(t *T, st *lzState) (lzOut, func() (bool, int)) {
			src := lzSource(st, func(k int) fp.Either[error, int] {
				if fail(t, st, k) {
					return fp.Left[error, int](t.errs[0])
				}
				return fp.Right[error](lzVal(k))
			})
			r := either.SequenceIterator(src)
			res := lzResume(src, func(e fp.Either[error, int]) int { return e.Get() })
			if r.IsRight() {
				return lzOut{}, res
			}
			return lzOut{failed: true, err: r.Left(), hasErr: true}, res
		}},
		{"iterator.FoldTry", true, func(t *T, st *lzState) (lzOut, func() (bool, int)) {
			src := ints(st)
			f := fTry(t, st)
			return oTry(iterator.FoldTry(src, 0, func(acc, a int) fp.Try[int] { return f(a) })), lzResume(src, idInt)
		}},
		{"iterator.FoldOption", true, func(t *T, st *lzState) (lzOut, func() (bool, int)) {
			src := ints(st)
			f := fOpt(t, st)
			return lzOut{failed: !iterator.FoldOption(src, 0, func(acc, a int) fp.Option[int] { return f(a) }).IsDefined()}, lzResume(src, idInt)
		}},
		{"iterator.FoldError", true, func(t *T, st *lzState) (lzOut, func() (bool, int)) {
			src := ints(st)
			err := iterator.FoldError(src, func(a int) error {
				k := posOf(a)
				st.calls = append(st.calls, k)
				if fail(t, st, k) {
					return t.errs[0]
				}
				return nil
			})
			return lzOut{failed: err != nil, err: err, hasErr: true}, lzResume(src, idInt)
		}},
	}
}

func registerLazySources() {
	for _, fam := range lzFamilies() {
		fam := fam
		s := &site{Key: fam.key, Family: "~lazy-source:" + fam.key, N: 1, Monad: mTry, WantVal: -1, NCustom: len(lzCfgs)}
		s.Custom = func(t *T, c int) {
			cfg := lzCfgs[c]
			t.mask0 = uint64(c) + 1<<33
			t.nonTrivial = cfg.p >= 0
			t.custNote = cfg.String()
			consumed := cfg.n
			if cfg.p >= 0 {
				consumed = cfg.p + 1
			}
			st := &lzState{cfg: cfg, order: true,
				bud: vrt.NewBudget(int64(consumed+66), fmt.Sprintf("%s pulled more than %d elements from a lazy source whose element %d fails (%s)", fam.key, consumed+65, cfg.p, cfg))}
			out, resume := fam.run(t, st)
			t.nlog0 = len(st.calls)
			a := t.acc
			a["lazy.cases"]++
			a["lazy.source."+lzKindNames[cfg.kind]]++
			if cfg.n < 0 {
				a["lazy.unbounded-sources-with-failing-element"]++
			}
			// 1. production bound
			look := 0
			if cfg.kind == lzPull {
				look = 1
			}
			want := consumed + look
			if cfg.n >= 0 && want > cfg.n {
				want = cfg.n
			}
			if st.produced > want {
				t.violate("source-element-produced-after-failure", fmt.Sprintf("%s: the source produced %d elements (its per-element user code ran %d times); element %d is the first failing one, so the call needs %d elements and the unchanged library reads %d ahead: at most %d", cfg, st.produced, st.produced, cfg.p, consumed, look, want))
			} else if st.produced < want {
				t.violate("source-elements-not-all-consumed", fmt.Sprintf("%s: the source produced only %d elements, the call needs %d (+%d look-ahead)", cfg, st.produced, consumed, look))
			}
			if !st.order {
				t.violate("source-pulled-out-of-order", cfg.String())
			}
			// 2. the per-element user function
			if fam.cb {
				okCalls := len(st.calls) == consumed
				for i, k := range st.calls {
					if i < consumed && k != i {
						okCalls = false
					}
				}
				if len(st.calls) > consumed {
					t.violate("callback-after-failure", fmt.Sprintf("%s: the user function was called for the elements %v; expected exactly 0..%d", cfg, st.calls, consumed-1))
				} else if !okCalls {
					t.violate("callback-not-invoked", fmt.Sprintf("%s: the user function was called for the elements %v; expected exactly 0..%d in order", cfg, st.calls, consumed-1))
				}
				if cfg.p >= 0 {
					a["lazy.user-functions-correctly-not-invoked"]++
				}
			}
			// 3. the outcome
			switch {
			case cfg.p >= 0 && !out.failed:
				t.violate("failure-lost", fmt.Sprintf("%s: the result is a success", cfg))
			case cfg.p < 0 && out.failed:
				t.violate("wrong-failure", fmt.Sprintf("%s: no element fails, the result is a failure %s", cfg, errName(out.err)))
			case cfg.p >= 0 && out.hasErr && out.err != error(t.errs[0]):
				t.violate("wrong-failure", fmt.Sprintf("%s: the result carries %s, not the error of the failing element", cfg, errName(out.err)))
			}
			if t.fail {
				return
			}
			// 4. the caller resumes the source right after the consumed elements
			for j := 0; j < 2; j++ {
				next := consumed + j
				has, v := resume()
				left := cfg.n < 0 || next < cfg.n
				if has != left {
					t.violate("source-not-resumable-after-failure", fmt.Sprintf("%s: after the call the caller's source reports HasNext=%v at element %d (elements left: %v)", cfg, has, next, left))
					return
				}
				if !left {
					break
				}
				if v != lzVal(next) {
					t.violate("source-not-resumable-after-failure", fmt.Sprintf("%s: after the call the caller's source continues with element %d, expected element %d", cfg, posOf(v), next))
					return
				}
				a["lazy.sources-resumed-after-the-call"]++
			}
		}
		reg(s)
	}
}
