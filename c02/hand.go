// Hand-written families of C02: sequence-shaped combinators (helpers used by the generated
// Traverse*/Sequence*/FoldM sites plus the non-generated ones), Recover*/OrElse*/Or*, and
// panic capture (try.Of/Call/CallUnit, future.Apply/Apply2/Func0; future.FuncN/UnitN are generated).
package main

import (
	"errors"
	"fmt"
	"math/rand/v2"
	"reflect"
	"runtime"
	"strings"

	"verif/vrt"

	"github.com/csgura/fp"
	"github.com/csgura/fp/either"
	"github.com/csgura/fp/future"
	"github.com/csgura/fp/iterator"
	"github.com/csgura/fp/list"
	"github.com/csgura/fp/option"
	"github.com/csgura/fp/seq"
	"github.com/csgura/fp/statet"
	"github.com/csgura/fp/try"
)

// ---- registration -----------------------------------------------------------------------

var staticSites []*site

func reg(s *site) { staticSites = append(staticSites, s) }

// dynSite is a family whose number of positions is a run-time length (sequences, variadics).
type dynSite struct {
	Key, Family string
	Monad       int
	MinL, MaxL  int
	Flags, Res  int
	Steps       func(L int) []step
	Exec        func(t *T, L int)
}

var dynSites []dynSite

// flags of a sequence-shaped site: positions = elements.
const (
	tvOperand = 1 << iota // an additional monadic operand (position 0) precedes the elements
	tvCb                  // every element owns a user function (traverse / fold function); otherwise the elements are monadic values themselves
	tvFn                  // the library call returns a function value which the site applies (t.run)
	tvPure                // the elements' user function is pure: an element cannot fail (MapSeqLift)
	tvFixed               // the operand is a plain value handed over when the function value is built
)

// what a success of the site must carry (nil ≡ empty)
const (
	resNone  = iota
	resPlus7 // the traverse function's results, in order (travX returns a+7)
	resVals  // the elements' own values, in order (Sequence*)
	resSum   // the fold of the elements (foldX returns acc+a)
)

func regTrav(key string, monad, flags, res int, exec func(t *T, L int)) {
	regTravL(key, monad, flags, res, 0, 8, exec)
}

func regTravL(key string, monad, flags, res, minL, maxL int, exec func(t *T, L int)) {
	dynSites = append(dynSites, dynSite{Key: key, Family: key, Monad: monad, MinL: minL, MaxL: maxL, Exec: exec, Flags: flags, Res: res,
		Steps: func(L int) []step {
			var st []step
			base := 0
			if flags&tvOperand != 0 {
				st = append(st, step{Bit: 0, Fixed: flags&tvFixed != 0})
				base = 1
			}
			for k := base; k < base+L; k++ {
				s := step{Bit: k}
				if flags&tvPure != 0 {
					s.Bit = -1
				}
				if flags&tvCb != 0 {
					s.Cb, s.CbArgs = idSup+k, []int{k}
				}
				st = append(st, s)
			}
			return st
		}})
}

func (d *dynSite) want() func(t *T, s *site) any {
	if d.Res == resNone {
		return nil
	}
	base := 0
	if d.Flags&tvOperand != 0 {
		base = 1
	}
	res := d.Res
	return func(t *T, s *site) any {
		out := make([]int, 0, s.N)
		sum := 0
		for k := base; k < base+s.N; k++ {
			switch res {
			case resPlus7:
				out = append(out, t.vals[k]+7)
			case resVals:
				out = append(out, t.vals[k])
			}
			sum += t.vals[k]
		}
		if res == resSum {
			return sum
		}
		return out
	}
}

const longMin, longMax = 9, 40

// sizedLengths: lengths around the thresholds an implementation might plausibly switch strategy at
// (chunking, divide and conquer, small-array fast paths). Run in BOTH tiers.
var sizedLengths = []int{15, 16, 17, 31, 32, 33, 34, 63, 64, 65, 100, 128, 129, 257}

// failing-position patterns of a sized case (element indices 0..L-1)
const (
	spNone = iota
	spFirst
	spMiddle       // (L-1)/2
	spLastOfLeft   // L/2-1
	spFirstOfRight // L/2
	spLast
	spQuarter       // L/4
	spThreeQuarter  // 3L/4
	spSecond        // 1
	spPairQuarters  // L/4 and 3L/4
	spPairAroundMid // L/2-1 and L/2
	spPairEnds      // 0 and L-1
	spRandomOne
	spRandomPairHalves // one random position in each half
	spOperandAndRandom // the operand (if any) and one random element
	nSizedPatterns
)

var sizedPatternNames = []string{"none", "first", "middle", "last-of-left-half", "first-of-right-half", "last", "quarter", "three-quarters", "second",
	"quarter+three-quarters", "last-of-left+first-of-right", "first+last", "random-one", "random-pair-in-different-halves", "operand+random"}

// sizedMask: the failing positions of pattern p for L elements starting at position base.
func sizedMask(p, L, base int, r *rand.Rand) fmask {
	var m fmask
	el := func(e int) {
		if e >= 0 && e < L {
			m.set(base + e)
		}
	}
	switch p {
	case spFirst:
		el(0)
	case spMiddle:
		el((L - 1) / 2)
	case spLastOfLeft:
		el(L/2 - 1)
	case spFirstOfRight:
		el(L / 2)
	case spLast:
		el(L - 1)
	case spQuarter:
		el(L / 4)
	case spThreeQuarter:
		el(3 * L / 4)
	case spSecond:
		el(1)
	case spPairQuarters:
		el(L / 4)
		el(3 * L / 4)
	case spPairAroundMid:
		el(L/2 - 1)
		el(L / 2)
	case spPairEnds:
		el(0)
		el(L - 1)
	case spRandomOne:
		el(r.IntN(L))
	case spRandomPairHalves:
		el(r.IntN(L / 2))
		el(L/2 + r.IntN(L-L/2))
	case spOperandAndRandom:
		if base > 0 {
			m.set(0)
		}
		el(r.IntN(L))
	}
	return m
}

// buildTable expands static and dynamic sites for a tier.
func buildTable(tier string) []*site {
	var out []*site
	for _, s := range staticSites {
		out = append(out, s)
	}
	for _, d := range dynSites {
		d := d
		fn := d.Flags&tvFn != 0
		for L := d.MinL; L <= d.MaxL; L++ {
			L := L
			out = append(out, &site{Key: d.Key, Family: d.Family, N: L, Monad: d.Monad, WantVal: -1, Steps: d.Steps(L), Fn: fn, Want: d.want(),
				Exec: func(t *T) { d.Exec(t, L) }})
		}
		if d.MaxL >= 8 {
			// lengths around plausible implementation thresholds x failing-position patterns
			out = append(out, &site{Key: d.Key, Family: d.Family + "/sized", N: -1, Monad: d.Monad, WantVal: -1, NSized: len(sizedLengths) * nSizedPatterns,
				DynSteps: d.Steps, Fn: fn, Want: d.want(), Exec: func(t *T) { d.Exec(t, t.s.N) }})
		}
		if tier == "thorough" && d.MaxL == 8 {
			// longer sequences with random multi-failure sets (mask and length from the case PRNG)
			out = append(out, &site{Key: d.Key, Family: d.Family + "/long", N: -1, Monad: d.Monad, WantVal: -1, NRandom: 300, DynSteps: d.Steps, Fn: fn, Want: d.want(),
				Exec: func(t *T) { d.Exec(t, t.s.N) }})
		}
	}
	for _, s := range out {
		s.init()
	}
	return out
}

func dynByKey(key string) *dynSite {
	for i := range dynSites {
		if dynSites[i].Key == key {
			return &dynSites[i]
		}
	}
	return nil
}

// ---- sequence helpers -------------------------------------------------------------------

// vals[k] encodes k in its high bits so that a callback can tell which position its argument
// came from without consulting the library.
func posOf(v int) int { return v>>20 - 1 }

func (t *T) elems(base, n int) []int {
	out := make([]int, n)
	copy(out, t.vals[base:base+n])
	return out
}

// iter is an instrumented source; pulls are only counted (the property is about user functions).
func (t *T) iter(base, n int) fp.Iterator[int] {
	i := 0
	return fp.MakeIterator(func() bool { return i < n }, func() int {
		t.bud.Tick()
		v := t.vals[base+i]
		i++
		t.pulled++
		return v
	})
}

func travTry(t *T) func(int) fp.Try[int] {
	return func(a int) fp.Try[int] { k := posOf(a); t.call(idSup+k, a); return tryV(t, k, a+7) }
}
func travOpt(t *T) func(int) fp.Option[int] {
	return func(a int) fp.Option[int] { k := posOf(a); t.call(idSup+k, a); return optV(t, k, a+7) }
}
func travEit(t *T) func(int) fp.Either[error, int] {
	return func(a int) fp.Either[error, int] { k := posOf(a); t.call(idSup+k, a); return eitV(t, k, a+7) }
}
func travSt(t *T) func(int) fp.StateT[int, int] {
	return func(a int) fp.StateT[int, int] { k := posOf(a); t.call(idSup+k, a); return stV(t, k, a+7) }
}
func travPure(t *T) func(int) int {
	return func(a int) int { k := posOf(a); t.call(idSup+k, a); return a + 7 }
}
func travErr(t *T) func(int) error {
	return func(a int) error {
		k := posOf(a)
		t.call(idSup+k, a)
		if t.bit(k) {
			return t.errs[k]
		}
		return nil
	}
}

func foldTry(t *T) func(int, int) fp.Try[int] {
	return func(acc, a int) fp.Try[int] { k := posOf(a); t.call(idSup+k, a); return tryV(t, k, acc+a) }
}
func foldOpt(t *T) func(int, int) fp.Option[int] {
	return func(acc, a int) fp.Option[int] { k := posOf(a); t.call(idSup+k, a); return optV(t, k, acc+a) }
}
func foldEit(t *T) func(int, int) fp.Either[error, int] {
	return func(acc, a int) fp.Either[error, int] { k := posOf(a); t.call(idSup+k, a); return eitV(t, k, acc+a) }
}
func foldSt(t *T) func(int, int) fp.StateT[int, int] {
	return func(acc, a int) fp.StateT[int, int] { k := posOf(a); t.call(idSup+k, a); return stV(t, k, acc+a) }
}

func seqTry(t *T, base, n int) []fp.Try[int] {
	out := make([]fp.Try[int], n)
	for i := range out {
		out[i] = tryV(t, base+i, t.vals[base+i])
	}
	return out
}
func seqOpt(t *T, base, n int) []fp.Option[int] {
	out := make([]fp.Option[int], n)
	for i := range out {
		out[i] = optV(t, base+i, t.vals[base+i])
	}
	return out
}
func seqEit(t *T, base, n int) []fp.Either[error, int] {
	out := make([]fp.Either[error, int], n)
	for i := range out {
		out[i] = eitV(t, base+i, t.vals[base+i])
	}
	return out
}
func seqSt(t *T, base, n int) []fp.StateT[int, int] {
	out := make([]fp.StateT[int, int], n)
	for i := range out {
		out[i] = stV(t, base+i, t.vals[base+i])
	}
	return out
}

func init() {
	// non-generated sequence-shaped combinators
	regTrav("try.Traverse_", mErr, tvCb, resNone, func(t *T, L int) { resErr(t, try.Traverse_(t.iter(0, L), travTry(t))) })
	regTravL("try.TraverseOption", mTry, tvCb, resNone, 0, 1, func(t *T, L int) {
		o := fp.None[int]()
		if L == 1 {
			o = fp.Some(t.vals[0])
		}
		resTry(t, try.TraverseOption(o, travTry(t)))
	})
	regTravL("try.TraverseOptionT", mTry, tvOperand|tvCb, resNone, 0, 1, func(t *T, L int) {
		o := fp.None[int]()
		if L == 1 {
			o = fp.Some(t.vals[1])
		}
		resTry(t, try.TraverseOptionT(tryV(t, 0, o), travTry(t)))
	})
	regTrav("try.TraverseSeqT", mTry, tvOperand|tvCb, resPlus7, func(t *T, L int) {
		resTry(t, try.TraverseSeqT(tryV(t, 0, fp.Seq[int](t.elems(1, L))), travTry(t)))
	})
	regTrav("try.FlatMapSeqT", mTry, tvOperand|tvCb, resNone, func(t *T, L int) {
		resTry(t, try.FlatMapSeqT(tryV(t, 0, fp.Seq[int](t.elems(1, L))), func(a int) fp.Try[fp.Seq[int]] {
			k := posOf(a)
			t.call(idSup+k, a)
			return tryV(t, k, fp.Seq[int]{a, a + 1})
		}))
	})
	regTrav("seq.FoldTry", mTry, tvCb, resSum, func(t *T, L int) { resTry(t, seq.FoldTry(fp.Seq[int](t.elems(0, L)), 0, foldTry(t))) })
	regTrav("seq.FoldOption", mOption, tvCb, resSum, func(t *T, L int) { resOpt(t, seq.FoldOption(fp.Seq[int](t.elems(0, L)), 0, foldOpt(t))) })
	regTrav("seq.FoldError", mErr, tvCb, resNone, func(t *T, L int) { resErr(t, seq.FoldError(fp.Seq[int](t.elems(0, L)), travErr(t))) })
	regTrav("iterator.FoldTry", mTry, tvCb, resSum, func(t *T, L int) { resTry(t, iterator.FoldTry(t.iter(0, L), 0, foldTry(t))) })
	regTrav("iterator.FoldOption", mOption, tvCb, resSum, func(t *T, L int) { resOpt(t, iterator.FoldOption(t.iter(0, L), 0, foldOpt(t))) })
	regTrav("iterator.FoldError", mErr, tvCb, resNone, func(t *T, L int) { resErr(t, iterator.FoldError(t.iter(0, L), travErr(t))) })
	regTrav("list.FoldTry", mTry, tvCb, resSum, func(t *T, L int) { resTry(t, list.FoldTry(list.Of(t.elems(0, L)...), 0, foldTry(t))) })
	regTrav("list.FoldOption", mOption, tvCb, resSum, func(t *T, L int) {
		resOpt(t, list.FoldOption(list.Of(t.elems(0, L)...), 0, foldOpt(t)))
	})
	regTrav("list.FoldError", mErr, tvCb, resNone, func(t *T, L int) { resErr(t, list.FoldError(list.Of(t.elems(0, L)...), travErr(t))) })
	// statet.Concat(start, tail...): variadic sequencing of state functions
	regTravL("statet.Concat", mState, 0, resNone, 1, 9, func(t *T, L int) {
		ops := seqSt(t, 0, L)
		resSt(t, statet.Concat(ops[0], ops[1:]...))
	})

	// single-operand forms not produced by the generator
	one := []step{{Bit: 0}}
	reg(&site{Key: "fp.Try.Map", Family: "fp.Try.methods", N: 1, Monad: mTry, WantVal: -1, Steps: one, Final: &final{Args: []int{0}, Bit: -1},
		Exec: func(t *T) { resTry(t, tryV(t, 0, t.vals[0]).Map(fn1(t, idF, retInt))) }})
	reg(&site{Key: "fp.Try.FlatMap", Family: "fp.Try.methods", N: 1, Monad: mTry, WantVal: -1, Steps: one, Final: &final{Args: []int{0}, Bit: 1},
		Exec: func(t *T) { resTry(t, tryV(t, 0, t.vals[0]).FlatMap(fn1(t, idF, retTry(t, 1)))) }})
	reg(&site{Key: "fp.Option.Map", Family: "fp.Option.methods", N: 1, Monad: mOption, WantVal: -1, Steps: one, Final: &final{Args: []int{0}, Bit: -1},
		Exec: func(t *T) { resOpt(t, optV(t, 0, t.vals[0]).Map(fn1(t, idF, retInt))) }})
	reg(&site{Key: "fp.Option.FlatMap", Family: "fp.Option.methods", N: 1, Monad: mOption, WantVal: -1, Steps: one, Final: &final{Args: []int{0}, Bit: 1},
		Exec: func(t *T) { resOpt(t, optV(t, 0, t.vals[0]).FlatMap(fn1(t, idF, retOpt(t, 1)))) }})
	reg(&site{Key: "try.ComposeOption", Family: "try.ComposeOption", N: 2, Monad: mTry, WantVal: 1,
		Steps: []step{{Bit: 0, Cb: idSup + 0, CbArgs: []int{16}, OptErr: true}, {Bit: 1, Cb: idSup + 1, CbArgs: []int{0}}},
		Fn:    true,
		Exec: func(t *T) {
			f := try.ComposeOption(fn1(t, idSup+0, retOptVal(t, 0)), fn1(t, idSup+1, retTryVal(t, 1)))
			t.run(func() { resTry(t, f(t.vals[16])) })
		}})
	reg(&site{Key: "try.FromOption", Family: "try.FromOption", N: 1, Monad: mTry, WantVal: 0, Steps: []step{{Bit: 0, OptErr: true}},
		Exec: func(t *T) { resTry(t, try.FromOption(optV(t, 0, t.vals[0]))) }})
	// statet forms that mix a state function with Try-valued pieces
	reg(&site{Key: "statet.MapT", Family: "statet.MapT", N: 1, Monad: mState, WantVal: -1, Steps: one, Final: &final{Args: []int{0}, Bit: -1},
		Exec: func(t *T) {
			resSt(t, statet.MapT(stV(t, 0, t.vals[0]), fn1(t, idF, func(r int) fp.Try[int] { return fp.Success(r) })))
		}})
	reg(&site{Key: "statet.MapT#failing-function", Family: "statet.MapT", N: 2, Monad: mTry, WantVal: -1, Prog: true,
		// the function's Try result is a plain value (not a state function): modelled with the Try carrier,
		// the operand's run is logged explicitly as a user function of position 0
		Steps: []step{{Bit: 0, Cb: idRun + 0}}, Final: &final{Args: []int{0}, Bit: 1},
		Exec: func(t *T) { resSt(t, statet.MapT(stV(t, 0, t.vals[0]), fn1(t, idF, retTry(t, 1)))) }})
	reg(&site{Key: "statet.MapWithState", Family: "statet.MapWithState", N: 1, Monad: mState, WantVal: -1, Steps: one, Final: &final{NoArgs: true, Bit: -1},
		Exec: func(t *T) { resSt(t, statet.MapWithState(stV(t, 0, t.vals[0]), fn2(t, idF, retInt))) }})
	reg(&site{Key: "statet.MapWithStateT", Family: "statet.MapWithStateT", N: 1, Monad: mTry, WantVal: -1, Prog: true,
		Steps: []step{{Bit: 0, Cb: idRun + 0}}, Final: &final{NoArgs: true, Bit: 1},
		Exec: func(t *T) { resSt(t, statet.MapWithStateT(stV(t, 0, t.vals[0]), fn2(t, idF, retTry(t, 1)))) }})
	reg(&site{Key: "statet.FlatMapConst", Family: "statet.FlatMapConst", N: 2, Monad: mState, WantVal: 1, Steps: []step{{Bit: 0}, {Bit: 1}},
		Exec: func(t *T) { resSt(t, statet.FlatMapConst(stV(t, 0, t.vals[0]), stV(t, 1, t.vals[1]))) }})
	reg(&site{Key: "statet.ApTry", Family: "statet.ApTry", N: 2, Monad: mTry, WantVal: -1, Prog: true,
		Steps: []step{{Bit: 0, Cb: idRun + 0}, {Bit: 1, Fixed: true}}, Final: &final{Args: []int{1}, Bit: -1},
		Exec: func(t *T) { resSt(t, statet.ApTry(stV(t, 0, cur1(t, idF)), tryV(t, 1, t.vals[1]))) }})
	reg(&site{Key: "statet.ApOption", Family: "statet.ApOption", N: 2, Monad: mTry, WantVal: -1, Prog: true,
		Steps: []step{{Bit: 0, Cb: idRun + 0}, {Bit: 1, OptErr: true, Fixed: true}}, Final: &final{Args: []int{1}, Bit: -1},
		Exec: func(t *T) { resSt(t, statet.ApOption(stV(t, 0, cur1(t, idF)), optV(t, 1, t.vals[1]))) }})
	reg(&site{Key: "statet.WithState", Family: "statet.WithState", N: 1, Monad: mState, WantVal: 0,
		Steps: []step{{Bit: 0, Cb: idSup + 0, NoArgs: true}},
		Exec:  func(t *T) { resSt(t, statet.WithState(fn1(t, idSup+0, retStVal(t, 0)))) }})
	reg(&site{Key: "statet.GetST", Family: "statet.GetST", N: 1, Monad: mTry, WantVal: 0, Prog: true,
		Steps: []step{{Bit: 0, Cb: idSup + 0, NoArgs: true}},
		Exec:  func(t *T) { resSt(t, statet.GetST(fn1(t, idSup+0, retTryVal(t, 0)))) }})
	reg(&site{Key: "statet.ModifyT", Family: "statet.ModifyT", N: 1, Monad: mTry, WantVal: -1, Prog: true,
		Steps: []step{{Bit: 0, Cb: idSup + 0, NoArgs: true}},
		Exec:  func(t *T) { resSt(t, statet.ModifyT(fn1(t, idSup+0, retTryVal(t, 0)))) }})

	registerRecover()
	registerPanic()
	registerLazySources()
}

// ---- Recover* / OrElse* / Or* -----------------------------------------------------------

const (
	recUntouched  = iota // result must be the receiver's own success value
	recNotJudged         // handler decided the result; the property says nothing about it
	recPropagated        // the receiver's failure must come out unchanged (transformer forms)
)

type recWant struct {
	log  []ev
	kind int
}

// recStd: the standard expectation. Receiver succeeded: no handler event, result untouched.
// Receiver failed: exactly the given handler events.
func recStd(t *T, state bool, onFail ...ev) recWant {
	var pre []ev
	if state {
		pre = append(pre, ev{ID: idRun + 0})
	}
	if !t.bit(0) {
		return recWant{log: pre, kind: recUntouched}
	}
	return recWant{log: append(pre, onFail...), kind: recNotJudged}
}

func (t *T) hErr(id int) ev   { return ev{ID: id, Err: t.errs[0]} }
func (t *T) hPlain(id int) ev { return ev{ID: id} }

// handlers (all log; results are irrelevant to the oracle but vary with cfg)
func (t *T) hVal(id int) func(error) int {
	return func(e error) int { t.callErr(id, e); return t.vals[30] }
}
func (t *T) hTry(id int, fail bool) func(error) fp.Try[int] {
	return func(e error) fp.Try[int] {
		t.callErr(id, e)
		if fail {
			return fp.Failure[int](t.errs[40])
		}
		return fp.Success(t.vals[30])
	}
}
func (t *T) hDef(def bool) func(error) bool {
	return func(e error) bool { t.callErr(idIsDef, e); return def }
}
func (t *T) h0Val(id int) func() int { return func() int { t.call(id); return t.vals[30] } }
func (t *T) altTry(fail bool) fp.Try[int] {
	if fail {
		return fp.Failure[int](t.errs[40])
	}
	return fp.Success(t.vals[30])
}
func (t *T) altOpt(none bool) fp.Option[int] {
	if none {
		return fp.None[int]()
	}
	return fp.Some(t.vals[30])
}

// quiet StateT returned by handlers: its execution is not a handler invocation and is not logged
func (t *T) quietSt(fail bool) fp.StateT[int, int] {
	return func(s int) (fp.Try[int], int) { return t.altTry(fail), s }
}

func resPlain(t *T, v int) { t.out = outcome{set: true, ok: true, val: v} }

type recSite struct {
	key     string
	monad   int
	ncfg    int
	handler bool // the form takes a user function (handler / supplier)
	run     func(t *T, cfg int) recWant
}

var recSites []recSite

func regRec(key string, monad, ncfg int, run func(t *T, cfg int) recWant) {
	recSites = append(recSites, recSite{key: key, monad: monad, ncfg: ncfg, run: run})
}

func thenEvents(t *T, def bool) []ev {
	if def {
		return []ev{t.hErr(idIsDef), t.hErr(idThen)}
	}
	return []ev{t.hErr(idIsDef)}
}

func registerRecover() {
	b := func(cfg, i int) bool { return cfg&(1<<uint(i)) != 0 }
	// fp.Try methods
	regRec("fp.Try.Recover", mTry, 1, func(t *T, cfg int) recWant {
		resTry(t, tryV(t, 0, t.vals[0]).Recover(t.hVal(idHandler)))
		return recStd(t, false, t.hErr(idHandler))
	})
	regRec("fp.Try.RecoverWith", mTry, 2, func(t *T, cfg int) recWant {
		resTry(t, tryV(t, 0, t.vals[0]).RecoverWith(t.hTry(idHandler, b(cfg, 0))))
		return recStd(t, false, t.hErr(idHandler))
	})
	regRec("fp.Try.RecoverCase", mTry, 2, func(t *T, cfg int) recWant {
		resTry(t, tryV(t, 0, t.vals[0]).RecoverCase(t.hDef(b(cfg, 0)), t.hVal(idThen)))
		return recStd(t, false, thenEvents(t, b(cfg, 0))...)
	})
	regRec("fp.Try.RecoverCaseWith", mTry, 4, func(t *T, cfg int) recWant {
		resTry(t, tryV(t, 0, t.vals[0]).RecoverCaseWith(t.hDef(b(cfg, 0)), t.hTry(idThen, b(cfg, 1))))
		return recStd(t, false, thenEvents(t, b(cfg, 0))...)
	})
	regRec("fp.Try.Or", mTry, 2, func(t *T, cfg int) recWant {
		resTry(t, tryV(t, 0, t.vals[0]).Or(func() fp.Try[int] { t.call(idHandler); return t.altTry(b(cfg, 0)) }))
		return recStd(t, false, t.hPlain(idHandler))
	})
	regRec("fp.Try.OrTry", mTry, 2, func(t *T, cfg int) recWant {
		resTry(t, tryV(t, 0, t.vals[0]).OrTry(t.altTry(b(cfg, 0))))
		return recStd(t, false)
	})
	regRec("fp.Try.OrElse", mTry, 1, func(t *T, cfg int) recWant {
		resPlain(t, tryV(t, 0, t.vals[0]).OrElse(t.vals[30]))
		return recStd(t, false)
	})
	regRec("fp.Try.OrElseGet", mTry, 1, func(t *T, cfg int) recWant {
		resPlain(t, tryV(t, 0, t.vals[0]).OrElseGet(t.h0Val(idHandler)))
		return recStd(t, false, t.hPlain(idHandler))
	})
	regRec("fp.Try.OrZero", mTry, 1, func(t *T, cfg int) recWant {
		resPlain(t, tryV(t, 0, t.vals[0]).OrZero())
		return recStd(t, false)
	})
	// fp.Option methods
	regRec("fp.Option.Or", mOption, 2, func(t *T, cfg int) recWant {
		resOpt(t, optV(t, 0, t.vals[0]).Or(func() fp.Option[int] { t.call(idHandler); return t.altOpt(b(cfg, 0)) }))
		return recStd(t, false, t.hPlain(idHandler))
	})
	regRec("fp.Option.OrOption", mOption, 2, func(t *T, cfg int) recWant {
		resOpt(t, optV(t, 0, t.vals[0]).OrOption(t.altOpt(b(cfg, 0))))
		return recStd(t, false)
	})
	regRec("fp.Option.OrPtr", mOption, 2, func(t *T, cfg int) recWant {
		var p *int
		if b(cfg, 0) {
			v := t.vals[30]
			p = &v
		}
		resOpt(t, optV(t, 0, t.vals[0]).OrPtr(p))
		return recStd(t, false)
	})
	regRec("fp.Option.Recover", mOption, 1, func(t *T, cfg int) recWant {
		resOpt(t, optV(t, 0, t.vals[0]).Recover(t.h0Val(idHandler)))
		return recStd(t, false, t.hPlain(idHandler))
	})
	regRec("fp.Option.OrElse", mOption, 1, func(t *T, cfg int) recWant {
		resPlain(t, optV(t, 0, t.vals[0]).OrElse(t.vals[30]))
		return recStd(t, false)
	})
	regRec("fp.Option.OrElseGet", mOption, 1, func(t *T, cfg int) recWant {
		resPlain(t, optV(t, 0, t.vals[0]).OrElseGet(t.h0Val(idHandler)))
		return recStd(t, false, t.hPlain(idHandler))
	})
	regRec("fp.Option.OrZero", mOption, 1, func(t *T, cfg int) recWant {
		resPlain(t, optV(t, 0, t.vals[0]).OrZero())
		return recStd(t, false)
	})
	// fp.Either
	regRec("fp.Either.Recover", mEither, 1, func(t *T, cfg int) recWant {
		resEit(t, eitV(t, 0, t.vals[0]).Recover(t.h0Val(idHandler)))
		return recStd(t, false, t.hPlain(idHandler))
	})
	regRec("either.OrElse", mEither, 1, func(t *T, cfg int) recWant {
		resPlain(t, either.OrElse(eitV(t, 0, t.vals[0]), t.vals[30]))
		return recStd(t, false)
	})
	regRec("either.OrElseGet", mEither, 1, func(t *T, cfg int) recWant {
		resPlain(t, either.OrElseGet(eitV(t, 0, t.vals[0]), t.h0Val(idHandler)))
		return recStd(t, false, t.hPlain(idHandler))
	})
	// fp.StateT methods
	regRec("fp.StateT.Recover", mState, 1, func(t *T, cfg int) recWant {
		resSt(t, stV(t, 0, t.vals[0]).Recover(t.hVal(idHandler)))
		return recStd(t, true, t.hErr(idHandler))
	})
	regRec("fp.StateT.RecoverT", mState, 2, func(t *T, cfg int) recWant {
		resSt(t, stV(t, 0, t.vals[0]).RecoverT(t.hTry(idHandler, b(cfg, 0))))
		return recStd(t, true, t.hErr(idHandler))
	})
	regRec("fp.StateT.RecoverWithState", mState, 1, func(t *T, cfg int) recWant {
		resSt(t, stV(t, 0, t.vals[0]).RecoverWithState(func(s int, e error) int { t.callErr(idHandler, e); return t.vals[30] }))
		return recStd(t, true, t.hErr(idHandler))
	})
	regRec("fp.StateT.RecoverWithStateT", mState, 2, func(t *T, cfg int) recWant {
		resSt(t, stV(t, 0, t.vals[0]).RecoverWithStateT(func(s int, e error) fp.Try[int] { t.callErr(idHandler, e); return t.altTry(b(cfg, 0)) }))
		return recStd(t, true, t.hErr(idHandler))
	})
	regRec("fp.StateT.RecoverWith", mState, 2, func(t *T, cfg int) recWant {
		resSt(t, stV(t, 0, t.vals[0]).RecoverWith(func(e error) fp.StateT[int, int] { t.callErr(idHandler, e); return t.quietSt(b(cfg, 0)) }))
		return recStd(t, true, t.hErr(idHandler))
	})
	regRec("fp.StateT.RecoverCase", mState, 2, func(t *T, cfg int) recWant {
		resSt(t, stV(t, 0, t.vals[0]).RecoverCase(t.hDef(b(cfg, 0)), t.hVal(idThen)))
		return recStd(t, true, thenEvents(t, b(cfg, 0))...)
	})
	regRec("fp.StateT.RecoverCaseT", mState, 4, func(t *T, cfg int) recWant {
		resSt(t, stV(t, 0, t.vals[0]).RecoverCaseT(t.hDef(b(cfg, 0)), t.hTry(idThen, b(cfg, 1))))
		return recStd(t, true, thenEvents(t, b(cfg, 0))...)
	})
	regRec("fp.StateT.RecoverCaseWith", mState, 4, func(t *T, cfg int) recWant {
		resSt(t, stV(t, 0, t.vals[0]).RecoverCaseWith(t.hDef(b(cfg, 0)), func(e error) fp.StateT[int, int] { t.callErr(idThen, e); return t.quietSt(b(cfg, 1)) }))
		return recStd(t, true, thenEvents(t, b(cfg, 0))...)
	})
	// try.*OptionT: receiver is Try[Option[int]]; cfg&1 = the inner Option is None.
	//   Failure(e): the failure comes out unchanged and no handler runs;
	//   Success(Some v): untouched, no handler; Success(None): the handler (if any) runs once.
	optT := func(t *T, cfg int) (fp.Try[fp.Option[int]], bool) {
		none := b(cfg, 0)
		o := fp.Some(t.vals[0])
		if none {
			o = fp.None[int]()
		}
		return tryV(t, 0, o), none
	}
	optTWant := func(t *T, none bool, onNone ...ev) recWant {
		if t.bit(0) {
			return recWant{kind: recPropagated}
		}
		if none {
			return recWant{log: onNone, kind: recNotJudged}
		}
		return recWant{kind: recUntouched}
	}
	unOpt := func(t *T, r fp.Try[fp.Option[int]]) {
		// Success(Some v) is normalised to Success(v); Success(None) to a success with a marker
		t.out = outcome{set: true, ok: r.IsSuccess()}
		if r.IsSuccess() {
			if r.Get().IsDefined() {
				t.out.val = r.Get().Get()
			} else {
				t.out.val = "None"
			}
		} else {
			t.out.err = r.Failed().Get()
		}
	}
	regRec("try.OrElseOptionT", mTry, 2, func(t *T, cfg int) recWant {
		r, none := optT(t, cfg)
		resTry(t, try.OrElseOptionT(r, t.vals[30]))
		return optTWant(t, none)
	})
	regRec("try.OrZeroOptionT", mTry, 2, func(t *T, cfg int) recWant {
		r, none := optT(t, cfg)
		resTry(t, try.OrZeroOptionT(r))
		return optTWant(t, none)
	})
	regRec("try.OrElseGetOptionT", mTry, 2, func(t *T, cfg int) recWant {
		r, none := optT(t, cfg)
		resTry(t, try.OrElseGetOptionT(r, t.h0Val(idHandler)))
		return optTWant(t, none, t.hPlain(idHandler))
	})
	regRec("try.OrOptionT", mTry, 4, func(t *T, cfg int) recWant {
		r, none := optT(t, cfg)
		unOpt(t, try.OrOptionT(r, func() fp.Option[int] { t.call(idHandler); return t.altOpt(b(cfg, 1)) }))
		return optTWant(t, none, t.hPlain(idHandler))
	})
	regRec("try.OrOptionOptionT", mTry, 4, func(t *T, cfg int) recWant {
		r, none := optT(t, cfg)
		unOpt(t, try.OrOptionOptionT(r, t.altOpt(b(cfg, 1))))
		return optTWant(t, none)
	})
	regRec("try.OrPtrOptionT", mTry, 4, func(t *T, cfg int) recWant {
		r, none := optT(t, cfg)
		var p *int
		if b(cfg, 1) {
			v := t.vals[30]
			p = &v
		}
		unOpt(t, try.OrPtrOptionT(r, p))
		return optTWant(t, none)
	})
	regRec("try.RecoverOptionT", mTry, 2, func(t *T, cfg int) recWant {
		r, none := optT(t, cfg)
		unOpt(t, try.RecoverOptionT(r, t.h0Val(idHandler)))
		return optTWant(t, none, t.hPlain(idHandler))
	})

	for i := range recSites {
		rs := recSites[i]
		rs.handler = !valueOnlyForms[rs.key]
		s := &site{Key: rs.key, Family: "recover:" + rs.key, N: 1, Monad: rs.monad, WantVal: -1, NCustom: 2 * rs.ncfg}
		s.Steps = []step{{Bit: 0}}
		check := func(t *T, want recWant) {
			t.compareLog(want.log)
			switch want.kind {
			case recUntouched:
				if !t.out.ok || !reflect.DeepEqual(t.out.val, t.vals[0]) {
					t.violate("success-modified", fmt.Sprintf("the receiver is a success(%d) but the result is %s", t.vals[0], t.outString()))
				}
			case recPropagated:
				if t.out.ok || t.out.err != error(t.errs[0]) {
					t.violate("failure-not-propagated", fmt.Sprintf("the receiver is Failure(E0); the result is %s", t.outString()))
				}
			}
		}
		s.Custom = func(t *T, c int) {
			t.mask = uint64(c & 1)
			t.mask0 = t.mask
			cfg := c >> 1
			note := func(t *T) { t.custNote = fmt.Sprintf("receiver fails=%v handler-config=%d", t.bit(0), cfg) }
			note(t)
			want := rs.run(t, cfg)
			t.nlog0 = len(t.log)
			t.nonTrivial = t.bit(0) || rs.handler
			if rs.handler && want.kind != recNotJudged {
				t.skipped = 1
			} else if rs.handler && len(want.log) > 0 && want.log[len(want.log)-1].ID == idIsDef {
				t.skipped = 1 // isDefinedAt said no: the then-branch is correctly not invoked
			}
			check(t, want)
			if t.prog == nil {
				return
			}
			// fp.StateT.Recover*: the recovering program OBJECT is run again: same receiver outcome, the other
			// outcome, back again, from other initial states. The expectation of an execution comes from the
			// same recStd rule (evaluated on a scratch trace whose own, freshly built program is the comparison
			// value for "is the deviation specific to running the value again").
			t.acc["traces.executed_more_than_once"]++
			p0 := t.prog
			for _, sp := range []struct {
				flip uint64
				init int
			}{{0, state0}, {1, state1}, {0, state1}, {1, state0}, {0, state2}} {
				t.rerunStep(fmask{lo: t.mask0 ^ sp.flip}, sp.init, true, func() { note(t); p0() },
					func(tt *T) {
						t3 := tt.scratch()
						check(tt, rs.run(t3, cfg))
					},
					func(t2 *T) { note(t2); check(t2, rs.run(t2, cfg)) })
			}
		}
		reg(s)
	}
}

// forms that take an alternative value, not a user function
var valueOnlyForms = map[string]bool{"fp.Try.OrTry": true, "fp.Try.OrElse": true, "fp.Try.OrZero": true, "fp.Option.OrOption": true,
	"fp.Option.OrPtr": true, "fp.Option.OrElse": true, "fp.Option.OrZero": true, "either.OrElse": true, "try.OrElseOptionT": true,
	"try.OrZeroOptionT": true, "try.OrOptionOptionT": true, "try.OrPtrOptionT": true}

func (t *T) outString() string {
	if t.out.ok {
		return "success(" + short(t.out.val) + ")"
	}
	return "failure(" + errName(t.out.err) + ")"
}

// ---- panic capture ----------------------------------------------------------------------

const (
	behValue = iota
	behError
	behPanicString
	behPanicErrorPtr
	behPanicInt
	behPanicStruct
	behPanicNilMap
	behPanicNil
	behPanicErrorValue
	behPanicSlice
	behPanicPointer
	behPanicNilDeref
	behPanicIndex
	behPanicCustomRuntimeError
	// panic values that look like the library's own captured-panic errors, or are produced by the library
	behPanicUserPanicPtr     // user error type with Panic() and Stack() (implements try.Panic), pointer
	behPanicUserPanicValue   // the same as a comparable struct value
	behPanicUserPanicNoError // Panic() and Stack() but no Error(): not an error at all
	behPanicGetFailedTry     // Get() of Failure(E1): the function panics with what Get() raises
	behPanicGetNestedOf      // Get() of the failure of an inner try.Of whose function panicked (nested capture)
	behPanicGetNestedCall    // the same through try.Call / try.CallUnit, two levels deep
	behPanicGetNestedFuture  // Get() of the value of a future whose task panicked (fp.PanicError)
	behPanicRepanicCaptured  // panic(err) with the error of a captured panic, explicitly
	behPanicWrappedCaptured  // panic(fmt.Errorf("…%w", error of a captured panic))
	// errors with structure
	behPanicWrapped      // fmt.Errorf("…%w", E1)
	behPanicJoined       // errors.Join(E1, E2)
	behPanicChameleon    // implements Unwrap, Is (always true) and As (claims every target it can)
	behPanicTypedNilErr  // error((*T)(nil)): non-nil interface, nil pointer
	behPanicTypedNilUser // error((*userPanic)(nil)): a typed nil that also has Panic()/Stack()
	// other shapes
	behPanicLargeArray  // 64 KiB array by value
	behPanicLargeString // 1 MiB string
	behPanicLargeSlice  // 2 MiB slice
	behPanicFunc        // func value
	behPanicMap         // map value
	behPanicChan        // channel
	nBeh
)

var behNames = []string{"return-value", "return-error", "panic(string)", "panic(error pointer)", "panic(int)", "panic(struct)",
	"nil-map write (runtime.Error)", "panic(nil) (*runtime.PanicNilError)", "panic(value implementing error)", "panic([]int)",
	"panic(*struct)", "nil dereference (runtime.Error)", "index out of range (runtime.Error)", "panic(user type implementing runtime.Error)",
	"panic(*user error with Panic() and Stack())", "panic(user error value with Panic() and Stack())", "panic(non-error value with Panic() and Stack())",
	"Get() of Failure(E1)", "Get() of the failure of an inner try.Of that captured a panic", "Get() of a twice-captured panic (try.Call in try.CallUnit)",
	"Get() of the value of a future whose task panicked", "panic(error of a captured panic)", "panic(fmt.Errorf(%w) around the error of a captured panic)",
	"panic(fmt.Errorf(%w))", "panic(errors.Join)", "panic(error implementing Unwrap, Is and As)", "panic(typed nil pointer in an error)",
	"panic(typed nil pointer of a type with Panic() and Stack())",
	"panic([8192]int64)", "panic(1 MiB string)", "panic(2 MiB slice)", "panic(func)", "panic(map)", "panic(chan)"}

// behaviours used by the panic SEQUENCES only (seqpanic.go); they are not part of the enumerated
// list (nBeh), so the case numbering of the enumerated sites stays what it was
const (
	behPanicStructWithSlice   = nBeh + iota // struct with a slice field: an uncomparable struct type
	behPanicIfaceHoldingSlice               // struct{X any} holding a slice: comparable type, == panics at run time
	behPanicArrayOfSlices                   // [2][]int
	nBehAll
)

var extraBehNames = []string{"panic(struct with a slice field)", "panic(struct{X any} holding a slice)", "panic([2][]int)"}

func behName(b int) string {
	if b >= nBeh {
		return extraBehNames[b-nBeh]
	}
	return behNames[b]
}

type sliceStruct struct {
	Tag string
	Xs  []int
}

type ifaceStruct struct{ X any }

type payload struct {
	A int
	B string
}

type errValue struct{ Code int }

func (e errValue) Error() string { return fmt.Sprintf("errValue %d", e.Code) }

type myRuntimeErr struct{ n int }

func (e *myRuntimeErr) Error() string { return "my runtime error" }
func (e *myRuntimeErr) RuntimeError() {}

// userPanic is a user error type that happens to have the method set of try.Panic.
type userPanic struct {
	inner any
	n     int
}

func (e *userPanic) Error() string {
	if e == nil {
		return "nil userPanic"
	}
	return fmt.Sprintf("userPanic %d", e.n)
}
func (e *userPanic) Panic() any {
	if e == nil {
		return nil
	}
	return e.inner
}
func (e *userPanic) Stack() []byte { return []byte("user stack") }

type userPanicVal struct {
	Inner string
	N     int
}

func (e userPanicVal) Error() string { return fmt.Sprintf("userPanicVal %d", e.N) }
func (e userPanicVal) Panic() any    { return e.Inner }
func (e userPanicVal) Stack() []byte { return nil }

type panicLookalike struct{ N int }

func (e panicLookalike) Panic() any    { return "lookalike-inner" }
func (e panicLookalike) Stack() []byte { return []byte("lookalike stack") }

// chameleon claims to be everything: Is is always true, As fills every target it can, Unwrap leads to E1.
type chameleon struct {
	inner error
	n     int
}

func (e *chameleon) Error() string { return fmt.Sprintf("chameleon %d", e.n) }
func (e *chameleon) Unwrap() error { return e.inner }
func (e *chameleon) Is(error) bool { return true }
func (e *chameleon) As(tg any) bool {
	switch p := tg.(type) {
	case **sentErr:
		*p = &sentErr{pos: 63, nonce: -1}
		return true
	case **userPanic:
		*p = &userPanic{inner: "from-As", n: -1}
		return true
	case *error:
		*p = errors.New("from-As")
		return true
	}
	// any interface that a userPanic satisfies (try.Panic, interface{ Panic() any }, …)
	if rv := reflect.ValueOf(tg); rv.Kind() == reflect.Pointer && !rv.IsNil() && rv.Elem().Kind() == reflect.Interface {
		if up := reflect.ValueOf(&userPanic{inner: "from-As", n: -1}); up.Type().Implements(rv.Elem().Type()) {
			rv.Elem().Set(up)
			return true
		}
	}
	return false
}

type nilErr struct{ n int }

func (e *nilErr) Error() string {
	if e == nil {
		return "nil nilErr"
	}
	return "nilErr"
}

// raiseRuntime provokes a genuine panic inside f (a runtime panic, or a library function that panics such
// as Try.Get on a failure), notes the very value that was raised and lets it continue: the capture site
// under test sees a panic with exactly that value.
func (t *T) raiseRuntime(f func()) {
	defer func() {
		p := recover()
		t.raised = p
		panic(p)
	}()
	f()
}

func (t *T) behave() (int, error) {
	switch t.beh {
	case behValue:
		return t.vals[0], nil
	case behError:
		return 0, t.errs[0]
	case behPanicString:
		t.raised = fmt.Sprintf("boom-%d", t.vals[1])
	case behPanicErrorPtr:
		t.raised = error(t.errs[1])
	case behPanicInt:
		t.raised = t.vals[1]
	case behPanicStruct:
		t.raised = payload{t.vals[1], "x"}
	case behPanicErrorValue:
		t.raised = errValue{t.vals[1]}
	case behPanicSlice:
		t.raised = []int{t.vals[1], 2, 3}
	case behPanicPointer:
		t.raised = &payload{t.vals[1], "p"}
	case behPanicCustomRuntimeError:
		t.raised = &myRuntimeErr{t.vals[1]}
	case behPanicNilMap:
		t.raiseRuntime(func() { var m map[int]int; m[t.vals[1]] = 1 })
	case behPanicNil:
		t.raiseRuntime(func() { panic(nil) })
	case behPanicNilDeref:
		t.raiseRuntime(func() { var p *payload; t.vals[2] = p.A })
	case behPanicIndex:
		t.raiseRuntime(func() { s := []int{1}; i := 5 + t.vals[1]&1; t.vals[2] = s[i] })
	case behPanicUserPanicPtr:
		t.raised = error(&userPanic{inner: fmt.Sprintf("inner-%d", t.vals[1]), n: t.vals[1]})
	case behPanicUserPanicValue:
		t.raised = error(userPanicVal{Inner: "inner-value", N: t.vals[1]})
	case behPanicUserPanicNoError:
		t.raised = panicLookalike{t.vals[1]}
	case behPanicGetFailedTry:
		t.raiseRuntime(func() { t.vals[2] = fp.Failure[int](t.errs[1]).Get() })
	case behPanicGetNestedOf:
		inner := try.Of(func() int { panic(fmt.Sprintf("inner-boom-%d", t.vals[1])) })
		t.raiseRuntime(func() { t.vals[2] = inner.Get() })
	case behPanicGetNestedCall:
		inner := try.Call(func() (int, error) { panic(payload{t.vals[1], "innermost"}) })
		mid := try.CallUnit(func() error { inner.Get(); return nil })
		t.raiseRuntime(func() { mid.Get() })
	case behPanicGetNestedFuture:
		f := future.Apply(func() int { panic(fmt.Sprintf("task-boom-%d", t.vals[1])) }, &inlineExec{})
		if !f.IsCompleted() {
			ch := make(chan struct{})
			f.OnComplete(func(fp.Try[int]) { close(ch) }, &inlineExec{})
			<-ch
		}
		t.raiseRuntime(func() { t.vals[2] = f.Value().Get() })
	case behPanicRepanicCaptured:
		inner := try.Of(func() int { panic(t.errs[2]) })
		t.raised = inner.Failed().Get()
	case behPanicWrappedCaptured:
		inner := try.Of(func() int { panic(fmt.Sprintf("wrapped-inner-%d", t.vals[1])) })
		t.raised = fmt.Errorf("context %d: %w", t.vals[1], inner.Failed().Get())
	case behPanicWrapped:
		t.raised = fmt.Errorf("context %d: %w", t.vals[1], t.errs[1])
	case behPanicJoined:
		t.raised = errors.Join(t.errs[1], t.errs[2])
	case behPanicChameleon:
		t.raised = error(&chameleon{inner: t.errs[1], n: t.vals[1]})
	case behPanicTypedNilErr:
		t.raised = error((*nilErr)(nil))
	case behPanicTypedNilUser:
		t.raised = error((*userPanic)(nil))
	case behPanicLargeArray:
		var a [8192]int64
		for i := range a {
			a[i] = int64(t.vals[1] + i)
		}
		t.raised = a
	case behPanicLargeString:
		t.raised = strings.Repeat(fmt.Sprintf("%07d!", t.vals[1]%10000000), 1<<17)
	case behPanicLargeSlice:
		sl := make([]int, 1<<18)
		sl[0], sl[len(sl)-1] = t.vals[1], t.vals[2]
		t.raised = sl
	case behPanicFunc:
		v := t.vals[1]
		t.raised = func() int { return v }
	case behPanicMap:
		t.raised = map[string]int{"k": t.vals[1]}
	case behPanicChan:
		t.raised = make(chan int, 1)
	case behPanicStructWithSlice:
		t.raised = sliceStruct{"s", []int{t.vals[1], 7}}
	case behPanicIfaceHoldingSlice:
		t.raised = ifaceStruct{[]int{t.vals[1], 8}}
	case behPanicArrayOfSlices:
		t.raised = [2][]int{{t.vals[1]}, {9}}
	}
	panic(t.raised)
}

func (t *T) behavePair(int) (int, error) { return t.behave() }
func (t *T) behaveVal(int) int           { v, _ := t.behave(); return v }
func (t *T) behaveErr(int) error         { _, e := t.behave(); return e }

type inlineExec struct{ n int }

func (e *inlineExec) ExecuteUnsafe(r fp.Runnable) {
	e.n++
	r.Run()
}

func resFut[X any](t *T, f fp.Future[X]) {
	if !f.IsCompleted() {
		// not run synchronously (no inline spawn hook in this build): wait for completion
		t.w.Add("future.waited_for_completion", 1)
		ch := make(chan struct{})
		f.OnComplete(func(fp.Try[X]) { close(ch) }, t.exec)
		<-ch
	}
	resTry(t, f.Value())
}

const (
	flagErr = 1 // the user function can return an error
	flagVal = 2 // the user function returns a value
	flagFut = 4 // executed through an fp.Executor argument
)

func samePanic(got, want any) bool {
	if got == nil || want == nil {
		return got == nil && want == nil
	}
	tg, tw := reflect.TypeOf(got), reflect.TypeOf(want)
	if tg != tw {
		return false
	}
	if tw.Comparable() {
		eq, panicked := false, true
		func() {
			defer func() { recover() }()
			eq = got == want
			panicked = false
		}()
		if panicked { // comparable static type holding an uncomparable dynamic value
			return reflect.DeepEqual(got, want)
		}
		return eq
	}
	vg, vw := reflect.ValueOf(got), reflect.ValueOf(want)
	switch tw.Kind() {
	case reflect.Slice:
		return vg.Len() == vw.Len() && vg.Pointer() == vw.Pointer()
	case reflect.Map, reflect.Func:
		return vg.Pointer() == vw.Pointer()
	}
	return reflect.DeepEqual(got, want)
}

type panicker interface{ Panic() any }

// describe renders a panic value for a report: type, a bounded rendering, and the address for pointers.
func describe(v any) string {
	if v == nil {
		return "nil"
	}
	s := ""
	func() {
		defer func() {
			if recover() != nil {
				s = "<unprintable>"
			}
		}()
		switch x := v.(type) {
		case string:
			s = x
		case [8192]int64:
			s = fmt.Sprintf("[%d %d … %d]", x[0], x[1], x[len(x)-1])
		case []int:
			if len(x) > 8 {
				s = fmt.Sprintf("[%d %d … %d] len=%d", x[0], x[1], x[len(x)-1], len(x))
			} else {
				s = fmt.Sprint(x)
			}
		case error:
			s = errName(x)
		default:
			s = fmt.Sprintf("%v", v)
		}
	}()
	if len(s) > 120 {
		s = s[:120] + fmt.Sprintf("… (%d bytes)", len(s))
	}
	rv := reflect.ValueOf(v)
	switch rv.Kind() {
	case reflect.Pointer, reflect.Map, reflect.Func, reflect.Chan, reflect.Slice:
		return fmt.Sprintf("%T(%s)@%#x", v, s, rv.Pointer())
	}
	return fmt.Sprintf("%T(%s)", v, s)
}

func regPanicSite(key, family string, n int, flags int, exec func(t *T)) {
	var behs []int
	for bh := 0; bh < nBeh; bh++ {
		if bh == behError && flags&flagErr == 0 {
			continue
		}
		behs = append(behs, bh)
	}
	s := &site{Key: key, Family: family, N: n, Monad: mTry, WantVal: -1, NCustom: len(behs)}
	// runOnce: one execution of the capture site (mech builds and calls, or applies the kept function value
	// again) with behaviour int(t.mask); a panic that reaches the caller is noted in t.escaped.
	runOnce := func(t *T, mech func()) {
		t.beh = int(t.mask)
		t.custNote = behName(t.beh)
		if t.exec == nil {
			t.exec = &inlineExec{}
		}
		t.exec.n = 0
		t.escaped = func() (p any) {
			defer func() {
				if r := recover(); r != nil {
					if _, isB := r.(vrt.BudgetExceeded); isB {
						panic(r)
					}
					p = r
				}
			}()
			mech()
			return nil
		}()
		t.w.Add("panic.kind."+behName(t.beh), 1)
		if flags&flagFut != 0 {
			if t.exec.n > 0 {
				t.w.Add("future.executor_argument_used."+family, 1)
			} else {
				t.w.Add("future.executor_argument_ignored."+family, 1)
			}
		}
	}
	check := func(t *T) {
		if t.escaped != nil {
			t.violate("panic-escaped", fmt.Sprintf("the user function did %s; the panic was not captured and reached the caller: %s", behName(t.beh), describe(t.escaped)))
			return
		}
		var args []int
		for j := 0; j < n; j++ {
			args = append(args, t.vals[16+j])
		}
		t.compareLog([]ev{{ID: idF, Args: args}})
		o := t.out
		switch t.beh {
		case behValue:
			if !o.ok {
				if _, isP := asPanicker(o.err); isP {
					t.violate("return-became-panic-failure", "the user function returned normally; the result is a panic-failure "+errName(o.err))
				} else {
					t.violate("return-became-failure", "the user function returned normally; the result is "+t.outString())
				}
				return
			}
			if flags&flagVal != 0 && !reflect.DeepEqual(o.val, t.vals[0]) {
				t.violate("return-value-changed", fmt.Sprintf("the user function returned %d; the result is %s", t.vals[0], t.outString()))
			}
		case behError:
			if o.ok {
				t.violate("returned-error-lost", "the user function returned an error; the result is "+t.outString())
				return
			}
			if o.err != error(t.errs[0]) {
				if _, isP := asPanicker(o.err); isP {
					t.violate("return-became-panic-failure", "the user function returned an error normally; the result is a panic-failure "+errName(o.err))
				} else {
					t.violate("error-identity-lost", "the user function returned E0; the result is "+t.outString())
				}
			}
		default:
			if o.ok {
				t.violate("panic-lost", fmt.Sprintf("the user function did %s; the result is %s", behName(t.beh), t.outString()))
				return
			}
			// the failure itself must expose the panic value: the error's OWN Panic() method (errors.As is
			// not consulted: a panic value that answers As/Unwrap must not be mistaken for the capture)
			p, isP := o.err.(panicker)
			if !isP {
				t.violate("panic-not-exposed", fmt.Sprintf("the user function did %s; the failure %s does not expose Panic()", behName(t.beh), errName(o.err)))
				return
			}
			if sameIface(o.err, t.raised) {
				// the failure IS the panic value (no capture wrapper around it): its Panic() is the value's own
				// method and reports the value's inner cause, not what the function panicked with
				t.violate("panic-value-lost", fmt.Sprintf("the user function did %s with value %s; the failure is that value itself, so Panic() returns its inner %s, not the value the function panicked with", behName(t.beh), describe(t.raised), describe(p.Panic())))
				return
			}
			got := p.Panic()
			if !samePanic(got, t.raised) {
				t.violate("panic-value-lost", fmt.Sprintf("the user function did %s with value %s; Panic() returns %s", behName(t.beh), describe(t.raised), describe(got)))
				return
			}
			switch t.beh {
			case behPanicNilMap, behPanicNilDeref, behPanicIndex:
				if _, ok := got.(runtime.Error); !ok {
					t.violate("panic-value-lost", fmt.Sprintf("expected a runtime.Error, Panic() returns %T", got))
				}
			case behPanicNil:
				if _, ok := got.(*runtime.PanicNilError); !ok {
					t.violate("panic-value-lost", fmt.Sprintf("expected *runtime.PanicNilError, Panic() returns %T", got))
				}
			}
		}
	}
	s.Custom = func(t *T, c int) {
		t.mask = uint64(behs[c])
		t.mask0 = t.mask
		t.nonTrivial = behs[c] != behValue
		runOnce(t, func() { exec(t) })
		t.nlog0 = len(t.log)
		check(t)
		if t.refn == nil {
			return
		}
		// future.FuncN/UnitN return a function value: it is applied again with the same, the returning, a PRNG
		// chosen and again the first behaviour
		t.acc["traces.executed_more_than_once"]++
		f0 := t.refn
		first := behs[c]
		for _, bh := range []int{first, behValue, behs[t.rng.IntN(len(behs))], first} {
			t.rerunStep(fmask{lo: uint64(bh)}, state0, false, func() { runOnce(t, f0) }, check, func(t2 *T) {
				runOnce(t2, func() { exec(t2) })
				check(t2)
			})
		}
	}
	reg(s)
	regPanicSequences(key, family, n, behs, runOnce, check, exec)
}

// sameIface: both interfaces hold the very same dynamic value (same type; same pointer / equal comparable value).
func sameIface(a, b any) bool {
	if a == nil || b == nil {
		return false
	}
	return samePanic(a, b)
}

func asPanicker(e error) (panicker, bool) {
	if e == nil {
		return nil, false
	}
	if p, ok := e.(panicker); ok {
		return p, true
	}
	var p panicker
	if errors.As(e, &p) {
		return p, true
	}
	return nil, false
}

func registerPanic() {
	if len(behNames) != nBeh {
		panic(fmt.Sprintf("c02: %d behaviour names for %d behaviours", len(behNames), nBeh))
	}
	regPanicSite("try.Of", "try.Of", 0, flagVal, func(t *T) { resTry(t, try.Of(fn0(t, idF, t.behaveVal))) })
	regPanicSite("try.Call", "try.Call", 0, flagVal|flagErr, func(t *T) { resTry(t, try.Call(fp0(t, idF, t.behavePair))) })
	regPanicSite("try.CallUnit", "try.CallUnit", 0, flagErr, func(t *T) { resTry(t, try.CallUnit(fn0(t, idF, t.behaveErr))) })
	regPanicSite("future.Apply", "future.Apply", 0, flagVal|flagFut, func(t *T) { resFut(t, future.Apply(fn0(t, idF, t.behaveVal), t.exec)) })
	regPanicSite("future.Apply2", "future.Apply2", 0, flagVal|flagErr|flagFut, func(t *T) { resFut(t, future.Apply2(fp0(t, idF, t.behavePair), t.exec)) })
	regPanicSite("future.Func0", "future.FuncN", 0, flagVal|flagErr|flagFut, func(t *T) {
		f := future.Func0(fp0(t, idF, t.behavePair), t.exec)
		t.run(func() { resFut(t, f(fp.Unit{})) })
	})
}

var _ = option.Some[int]
