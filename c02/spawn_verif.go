//go:build verif

package main

import "github.com/csgura/fp"

// installInlineSpawn makes the library's default executors run their task synchronously
// (hook fp.VerifSetSpawn): future.FuncN/UnitN do not forward their executor argument, so
// the inline executor passed by the sites never sees those tasks.
func installInlineSpawn() {
	fp.VerifSetSpawn(func(task func()) { task() })
}
