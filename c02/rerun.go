// Later executions of program-valued results.
//
// A StateT returned by a statet combinator is a program OBJECT (resSt keeps it in t.prog); LiftAN/LiftMN/
// FlapN/MethodN/Compose*/With/FlapMap/Traverse*Func/try.FuncN/future.FuncN… return a function VALUE (the
// site applies it through t.run, which keeps it in t.refn). The property has to hold for every execution
// of such a value, not only for the first one: the value is built ONCE (iterator arguments are consumed
// while it is built or first run) and then executed again
//
//   - with the same failing positions from the same initial state (after a failed run when the first run
//     failed, after a successful one otherwise),
//   - with the complementary situation (all positions succeed / one position fails) from another state,
//   - with the original failing positions again (now following the complementary outcome),
//   - with failing positions drawn from the case PRNG from a third state, and once more as at first.
//
// Every execution is judged by the same reference model and the same comparisons as the first one (call
// log, first failure, error identity, nothing after the failure, everything before it exactly once IN
// THAT EXECUTION). A deviation of a later execution is reported as "<site>/rerun-<kind>" only if a freshly
// built value shows no deviation of that kind under the same failing positions; otherwise it is not
// specific to re-execution and is reported under the plain key with the fresh value as witness.
package main

import (
	"fmt"
	"strings"

	"verif/vrt"
)

const (
	state1 = 5000
	state2 = 90000
)

type runRec struct {
	Execution int      `json:"execution"`
	How       string   `json:"how"`
	Failing   string   `json:"failing_positions"`
	Init      int      `json:"initial_state"`
	Calls     []string `json:"calls"`
	Result    string   `json:"result"`
}

type pendVio struct{ kind, detail string }

func (t *T) how() string {
	switch {
	case t.nrun == 0:
		return "value built and executed"
	case t.progRerun:
		return "the same StateT program object run again"
	}
	return "the same function value applied again"
}

func (t *T) snapshot() runRec {
	l := logStrings(t.log)
	if len(l) > 24 {
		l = append(append([]string{}, l[:12]...), fmt.Sprintf("… %d more …", len(l)-18), l[len(l)-6], l[len(l)-5], l[len(l)-4], l[len(l)-3], l[len(l)-2], l[len(l)-1])
	}
	r := runRec{Execution: t.nrun + 1, How: t.how(), Failing: t.maskString(), Init: t.init, Calls: l}
	if t.s.Custom != nil {
		r.Failing = t.custNote
	}
	if t.out.set {
		r.Result = t.outString()
	}
	return r
}

func (t *T) budget() *vrt.Budget {
	return vrt.NewBudget(int64(8*(len(t.s.Steps)+2)+64), "user functions of "+t.s.Key+" invoked far more often than the call has positions")
}

// scratch is a fresh trace over the same operand values and sentinel errors.
func (t *T) scratch() *T {
	t2 := &T{w: t.w, idx: t.idx, s: t.s, vals: t.vals, errs: t.errs, rng: t.rng, init: t.init, acc: t.acc}
	t2.setMask(t.getMask())
	t2.beh, t2.custNote = t.beh, t.custNote
	t2.bud = t2.budget()
	return t2
}

// rerunStep executes the kept value once more (mech) with failing positions m and initial state init and
// judges that execution with check; fresh builds a new value on a scratch trace, executes it and judges it.
func (t *T) rerunStep(m fmask, init int, viaProg bool, mech func(), check func(*T), fresh func(*T)) {
	prevOK := t.out.set && t.out.ok
	prevInit := t.init
	t.history = append(t.history, t.snapshot())
	t.log, t.out, t.pulled, t.raised, t.escaped = nil, outcome{}, 0, nil, nil
	t.setMask(m)
	t.init = init
	t.bud = t.budget()
	t.nrun++
	t.progRerun = viaProg
	mech()
	t.collect, t.pending = true, nil
	check(t)
	t.collect = false
	pend := t.pending
	t.pending = nil

	a := t.acc
	a["executions.later"]++
	if prevOK {
		a["executions.later.after_successful_run"]++
	} else {
		a["executions.later.after_failed_run"]++
	}
	if t.out.set && !t.out.ok {
		a["executions.later.ending_in_failure"]++
	}
	if viaProg {
		a["executions.later.same_program_object"]++
		if init != prevInit {
			a["executions.later.from_different_initial_state"]++
		} else {
			a["executions.later.from_same_initial_state"]++
		}
	} else {
		a["executions.later.same_function_value"]++
	}
	if len(pend) == 0 {
		return
	}
	// is the deviation specific to executing the value AGAIN? Build a fresh value for the same situation.
	t2 := t.scratch()
	t2.collect = true
	fresh(t2)
	t2.collect = false
	freshKinds := map[string]bool{}
	for _, p := range t2.pending {
		freshKinds[p.kind] = true
	}
	for _, p := range t2.pending {
		t2.violate(p.kind, p.detail)
	}
	for _, p := range pend {
		if freshKinds[p.kind] {
			continue
		}
		t.fail = true
		var hist []string
		for _, h := range t.history {
			hist = append(hist, fmt.Sprintf("  #%d %s; failing=%q initial state=%d -> %s; calls %v", h.Execution, h.How, h.Failing, h.Init, h.Result, h.Calls))
		}
		t.w.Violation(t.idx, t.s.Key+"/rerun-"+p.kind,
			fmt.Sprintf("execution #%d (%s) deviates although a freshly built value behaves correctly in the same situation: %s\nsite=%s arity=%d failing positions of this execution=%q initial state=%d\nobserved calls of this execution: %v\nresult of this execution: %s\nearlier executions of the same value:\n%s",
				t.nrun+1, t.how(), p.detail, t.s.Key, t.s.N, t.maskString(), t.init, logStrings(t.log), t.outString(), strings.Join(hist, "\n")), t.witness())
	}
}

// rerunAll drives the later executions of a descriptor-modelled site.
func (t *T) rerunAll(s *site) {
	if t.prog == nil && t.refn == nil {
		return
	}
	t.acc["traces.executed_more_than_once"]++
	r := t.rng
	build := t.getMask()
	var fixed fmask
	for _, st := range s.Steps {
		if st.Fixed && st.Bit >= 0 {
			fixed.set(st.Bit)
		}
	}
	var free []int
	for _, b := range s.failable {
		if !fixed.has(b) {
			free = append(free, b)
		}
	}
	var alt, rnd fmask
	freeFails := false
	for _, b := range free {
		freeFails = freeFails || build.has(b)
	}
	if !freeFails && len(free) > 0 {
		// the first execution had no switchable failure: the complementary situation is one failing position
		alt.set(free[r.IntN(len(free))])
	}
	if len(free) > 0 {
		for j, n := 0, 1+r.IntN(3); j < n; j++ {
			rnd.set(free[r.IntN(len(free))])
		}
	}
	type spec struct {
		m    fmask
		init int
	}
	specs := []spec{{build, state0}, {alt, state1}, {build, state1}, {rnd, state2}, {build, state0}}
	check := func(tt *T) {
		x := model(s, tt)
		tt.compareLog(x.log)
		tt.compareOutcome(x)
	}
	fresh := func(t2 *T) {
		s.Exec(t2)
		check(t2)
	}
	p0, f0 := t.prog, t.refn
	if p0 != nil {
		for _, sp := range specs {
			t.rerunStep(sp.m.merge(build, fixed), sp.init, true, p0, check, fresh)
		}
	}
	if f0 != nil {
		for _, sp := range specs[1:4] {
			t.rerunStep(sp.m.merge(build, fixed), sp.init, false, f0, check, fresh)
		}
		if p0 != nil && t.prog != nil {
			// the program produced by the last application, run once more from another state
			t.rerunStep(build, state1, true, t.prog, check, fresh)
		}
	}
}
