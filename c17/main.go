// C17 — StateT threads state lawfully, also across failure and recovery.
//
// A case is a PRNG program skeleton over the statet primitives/combinators and the fp.StateT
// Recover*/Exec/Eval methods. The skeleton has k "failure points"; it is executed with no
// failure, with exactly one failure injected at each of the k positions, and with two PRNG
// subsets. Every execution is compared — (Try result, final state) of Run, Exec, Eval and the
// log of run-time callbacks — with a reference interpreter func(s) (v, err, s') written
// directly from the meaning of each primitive. In addition every case runs the eight Recover
// variants over the same program with equivalent handlers, and one explicit law instance.
//
// State S = string: every state-changing step appends (or, for Put, installs) a token that
// names the step, so two different state histories never collide. Value A = int.
package main

import (
	"fmt"
	"math/rand/v2"
	"strconv"
	"strings"

	"verif/vrt"

	"github.com/csgura/fp"
	"github.com/csgura/fp/iterator"
	"github.com/csgura/fp/statet"
	"github.com/csgura/fp/try"
)

type S = string
type ST = fp.StateT[string, int]

// ---- kinds ----------------------------------------------------------------------------

const (
	// leaves
	kPure = iota
	kArg
	kFromTry // fallible
	kGetS
	kGetST // fallible
	kRun
	kMerge
	kModifyS
	kPut
	kPutWith
	kModify
	kModifyT // fallible
	kGet
	// unary
	kMap
	kMapT // fallible
	kMapWithState
	kMapWithStateT // fallible
	kPeekState
	kTransform // fallible
	kTransformWith
	kReplace
	kFlatten
	kApTry    // fallible
	kApOption // fallible (None)
	kWithState
	kRecover
	kRecoverT // handler fallible
	kRecoverWithState
	kRecoverWithStateT // handler fallible
	kRecoverWith
	kRecoverCase
	kRecoverCaseT // handler fallible
	kRecoverCaseWith
	// binary / n-ary
	kFlatMap
	kFlatMapConst
	kMap2
	kZip
	kAp
	kApFunc
	kFlatMap2
	kMap3
	kZip3
	kCompose
	kSequence
	kSequenceIterator
	kConcat
	kTraverse
	kTraverseSeq
	kTraverseSlice
	kTraverseFunc
	kTraverseSeqFunc
	kTraverseSliceFunc
	kFlatMapTraverseSeq
	kFlatMapTraverseSlice
	kFoldM
	nKinds
)

var kindName = [nKinds]string{
	"Pure", "Pure(arg)", "FromTry", "GetS", "GetST", "Run", "Merge", "ModifyS", "Put", "PutWith", "Modify", "ModifyT", "Get",
	"Map", "MapT", "MapWithState", "MapWithStateT", "PeekState", "Transform", "TransformWith", "Replace", "Flatten", "ApTry", "ApOption", "WithState",
	"StateT.Recover", "StateT.RecoverT", "StateT.RecoverWithState", "StateT.RecoverWithStateT", "StateT.RecoverWith", "StateT.RecoverCase", "StateT.RecoverCaseT", "StateT.RecoverCaseWith",
	"FlatMap", "FlatMapConst", "Map2", "Zip", "Ap", "ApFunc", "FlatMap2", "Map3", "Zip3", "Compose", "Sequence", "SequenceIterator", "Concat",
	"Traverse", "TraverseSeq", "TraverseSlice", "TraverseFunc", "TraverseSeqFunc", "TraverseSliceFunc", "FlatMapTraverseSeq", "FlatMapTraverseSlice", "FoldM",
}

func site(k int) string {
	if strings.HasPrefix(kindName[k], "StateT.") {
		return kindName[k]
	}
	if k == kArg {
		return "statet.Pure"
	}
	return "statet." + kindName[k]
}

func fallible(k int) bool {
	switch k {
	case kFromTry, kGetST, kModifyT, kMapT, kMapWithStateT, kTransform, kApTry, kApOption, kRecoverT, kRecoverWithStateT, kRecoverCaseT:
		return true
	}
	return false
}

func isRecover(k int) bool { return k >= kRecover && k <= kRecoverCaseWith }

type node struct {
	kind  int
	id    int
	k     int
	mode  int
	fpIdx int // failure point, -1 if none
	size  int // nodes in the subtree
	tok   string
	kids  []*node
	items []int
}

func (n *node) write(b *strings.Builder) {
	fmt.Fprintf(b, "%s#%d", kindName[n.kind], n.id)
	if n.fpIdx >= 0 {
		fmt.Fprintf(b, "!%d", n.fpIdx)
	}
	if n.mode != 0 {
		fmt.Fprintf(b, "/m%d", n.mode)
	}
	if n.items != nil {
		fmt.Fprintf(b, "%v", n.items)
	}
	if len(n.kids) > 0 {
		b.WriteString("(")
		for i, k := range n.kids {
			if i > 0 {
				b.WriteString(", ")
			}
			if k == nil {
				b.WriteString("-")
			} else {
				k.write(b)
			}
		}
		b.WriteString(")")
	}
}

func (n *node) String() string {
	var b strings.Builder
	n.write(&b)
	return b.String()
}

// ---- errors, events, run context --------------------------------------------------------

type progErr struct{ idx int }

func (e *progErr) Error() string { return "injected failure !" + strconv.Itoa(e.idx) }

func errIdx(e error) int {
	if pe, ok := e.(*progErr); ok {
		return pe.idx
	}
	return 0
}

func errStr(e error) string {
	if e == nil {
		return "<nil>"
	}
	return e.Error()
}

type event struct {
	id       int
	tag      byte
	s        string
	a, b     int
	err      error
	optional bool
}

func (e event) String() string {
	o := ""
	if e.optional {
		o = "?"
	}
	return fmt.Sprintf("#%d%c%s(s=%q a=%d b=%d err=%s)", e.id, e.tag, o, e.s, e.a, e.b, errStr(e.err))
}

type rctx struct {
	fails []bool
	errs  []error
	trace []event
	// reference-only observations
	hits        *[nKinds]int64
	failHits    *[nKinds]int64
	firstFail   bool
	firstFailS  string
	recOutcomes map[string]int64
	budget      *vrt.Budget
	record      bool
	visits      []visit
}

// visit: the reference entered node n with argument env in state s (used only to name the
// call site after a mismatch, see blame).
type visit struct {
	n   *node
	env int
	s   string
}

func (c *rctx) ev(e event) {
	if c.budget != nil {
		c.budget.Tick()
	}
	c.trace = append(c.trace, e)
}

func (c *rctx) failing(n *node) bool { return n.fpIdx >= 0 && c.fails[n.fpIdx] }

func hs(s string) int {
	h := uint32(2166136261)
	for i := 0; i < len(s); i++ {
		h = (h ^ uint32(s[i])) * 16777619
	}
	return int(h & 0xffff)
}

func hashList(l []int) int {
	h := 17
	for _, v := range l {
		h = h*31 + v
	}
	return h + len(l)
}

func shifted(items []int, v int) []int {
	out := make([]int, len(items))
	for i, x := range items {
		out[i] = x + v
	}
	return out
}

func defined(n *node, e error) bool { return n.mode == 0 || errIdx(e)%2 == 0 }

// ---- reference interpreter ---------------------------------------------------------------

func (c *rctx) origin(n *node, s string) error {
	// a failure originates here, with the state s current
	if !c.firstFail {
		c.firstFail, c.firstFailS = true, s
	}
	if c.failHits != nil {
		c.failHits[n.kind]++
	}
	return c.errs[n.fpIdx]
}

func (c *rctx) rec(n *node, what string) {
	if c.recOutcomes != nil {
		c.recOutcomes[kindName[n.kind]+"."+what]++
	}
}

// ref returns (value, error, state') of program n started in state s with bound argument env.
func (c *rctx) ref(n *node, env int, s string) (int, error, string) {
	if c.hits != nil {
		c.hits[n.kind]++
	}
	if c.record && len(c.visits) < 600 {
		c.visits = append(c.visits, visit{n, env, s})
	}
	switch n.kind {
	case kPure:
		return n.k, nil, s
	case kArg:
		return env*3 + n.k, nil, s
	case kFromTry:
		if c.failing(n) {
			return 0, c.origin(n, s), s
		}
		return n.k, nil, s
	case kGetS:
		c.ev(event{id: n.id, tag: 'g', s: s})
		return hs(s) + n.k, nil, s
	case kGetST:
		c.ev(event{id: n.id, tag: 'g', s: s})
		if c.failing(n) {
			return 0, c.origin(n, s), s
		}
		return hs(s) ^ n.k, nil, s
	case kRun:
		c.ev(event{id: n.id, tag: 'r', s: s})
		return hs(s) + n.k, nil, s + n.tok
	case kMerge, kModifyS:
		c.ev(event{id: n.id, tag: 'u', s: s})
		return hs(s)*3 + n.k, nil, s + n.tok
	case kPut:
		return n.k, nil, n.tok
	case kPutWith:
		c.ev(event{id: n.id, tag: 'u', s: s, a: n.k})
		return n.k, nil, s + n.tok + ":" + strconv.Itoa(n.k)
	case kModify:
		c.ev(event{id: n.id, tag: 'u', s: s})
		return n.k, nil, s + n.tok
	case kModifyT:
		c.ev(event{id: n.id, tag: 'u', s: s})
		if c.failing(n) {
			return 0, c.origin(n, s), s // the state is not committed
		}
		return n.k, nil, s + n.tok
	case kGet:
		return hs(s) + n.k, nil, s
	}
	// everything below starts by running kids[0] — except the few handled first
	switch n.kind {
	case kWithState:
		c.ev(event{id: n.id, tag: 'S', s: s})
		next := n.kids[0]
		if hs(s)&1 == 0 && n.kids[1] != nil {
			next = n.kids[1]
		}
		return c.ref(next, hs(s), s)
	case kCompose:
		b, e, s1 := c.ref(n.kids[0], n.k, s)
		if e != nil {
			return 0, e, s1
		}
		c.ev(event{id: n.id, tag: 'c', a: b})
		return c.ref(n.kids[1], b, s1)
	case kSequence, kSequenceIterator, kConcat:
		vals := []int{}
		cur := s
		for _, kid := range n.kids {
			v, e, s1 := c.ref(kid, env, cur)
			cur = s1
			if e != nil {
				return 0, e, cur
			}
			vals = append(vals, v)
		}
		if n.kind == kConcat {
			return vals[len(vals)-1], nil, cur
		}
		return hashList(vals) + n.k, nil, cur
	case kTraverse, kTraverseSeq, kTraverseSlice, kTraverseFunc, kTraverseSeqFunc, kTraverseSliceFunc, kFlatMapTraverseSeq, kFlatMapTraverseSlice:
		items := n.items
		cur := s
		if n.kind == kFlatMapTraverseSeq || n.kind == kFlatMapTraverseSlice {
			v, e, s1 := c.ref(n.kids[1], env, s)
			if e != nil {
				return 0, e, s1
			}
			items, cur = shifted(items, v), s1
		}
		vals := []int{}
		for _, a := range items {
			v, e, s1 := c.ref(n.kids[0], a, cur)
			cur = s1
			if e != nil {
				return 0, e, cur
			}
			vals = append(vals, v)
		}
		return hashList(vals) + n.k, nil, cur
	case kFoldM:
		b := n.k
		cur := s
		for _, a := range n.items {
			v, e, s1 := c.ref(n.kids[0], b*3+a, cur)
			cur = s1
			if e != nil {
				return 0, e, cur
			}
			b = v
		}
		return b, nil, cur
	}
	v, e, s1 := c.ref(n.kids[0], env, s)
	switch n.kind {
	case kMap:
		if e != nil {
			return 0, e, s1
		}
		c.ev(event{id: n.id, tag: 'm', a: v})
		return v*5 + n.k, nil, s1
	case kMapT:
		if e != nil {
			return 0, e, s1
		}
		c.ev(event{id: n.id, tag: 'm', a: v})
		if c.failing(n) {
			return 0, c.origin(n, s1), s1
		}
		return v*7 + n.k, nil, s1
	case kMapWithState, kMapWithStateT:
		if e != nil {
			return 0, e, s1
		}
		c.ev(event{id: n.id, tag: 'w', s: s1, a: v})
		if c.failing(n) {
			return 0, c.origin(n, s1), s1
		}
		return hs(s1) ^ (v + n.k), nil, s1
	case kPeekState:
		c.ev(event{id: n.id, tag: 'p', s: s1, optional: e != nil})
		return v, e, s1
	case kTransform:
		c.ev(event{id: n.id, tag: 'T', s: s1, a: v, err: e})
		ns := s1 + n.tok
		if c.failing(n) {
			return 0, c.origin(n, ns), ns
		}
		if e != nil {
			if n.mode == 0 {
				return 0, e, ns
			}
			return n.k, nil, ns
		}
		return v*3 + n.k, nil, ns
	case kTransformWith:
		c.ev(event{id: n.id, tag: 'W', a: v, err: e})
		if e == nil {
			return c.ref(n.kids[1], v, s1)
		}
		if n.kids[2] != nil {
			return c.ref(n.kids[2], n.k, s1)
		}
		return 0, e, s1
	case kReplace:
		if e != nil {
			return 0, e, s1
		}
		return n.k, nil, s1
	case kFlatten:
		if e != nil {
			return 0, e, s1
		}
		c.ev(event{id: n.id, tag: 'x', a: v})
		return c.ref(n.kids[1], v, s1)
	case kApTry, kApOption:
		if e != nil {
			return 0, e, s1
		}
		if c.failing(n) {
			return 0, c.origin(n, s1), s1
		}
		return v*31 + n.k, nil, s1
	case kRecover, kRecoverT, kRecoverWithState, kRecoverWithStateT, kRecoverWith, kRecoverCase, kRecoverCaseT, kRecoverCaseWith:
		if e == nil {
			c.rec(n, "success-untouched")
			return v, nil, s1
		}
		switch n.kind {
		case kRecoverCase, kRecoverCaseT, kRecoverCaseWith:
			if !defined(n, e) {
				c.rec(n, "not-defined-at")
				return 0, e, s1
			}
		}
		switch n.kind {
		case kRecoverWithState, kRecoverWithStateT:
			c.ev(event{id: n.id, tag: 'R', s: s1, err: e})
		default:
			c.ev(event{id: n.id, tag: 'R', err: e})
		}
		if c.failing(n) {
			c.rec(n, "handler-fails")
			return 0, c.origin(n, s1), s1
		}
		c.rec(n, "handled")
		switch n.kind {
		case kRecoverWithState, kRecoverWithStateT:
			return hs(s1) + n.k, nil, s1
		case kRecoverWith, kRecoverCaseWith:
			return c.ref(n.kids[1], n.k, s1)
		}
		return n.k, nil, s1
	case kFlatMap:
		if e != nil {
			return 0, e, s1
		}
		c.ev(event{id: n.id, tag: 'f', a: v})
		next := n.kids[1]
		if n.mode == 1 && v&1 == 0 {
			next = n.kids[2]
		}
		return c.ref(next, v, s1)
	case kFlatMapConst:
		if e != nil {
			return 0, e, s1
		}
		return c.ref(n.kids[1], env, s1)
	case kMap2, kZip, kAp, kApFunc, kFlatMap2:
		if e != nil {
			return 0, e, s1
		}
		b, e2, s2 := c.ref(n.kids[1], env, s1)
		if e2 != nil {
			return 0, e2, s2
		}
		switch n.kind {
		case kMap2:
			c.ev(event{id: n.id, tag: '2', a: v, b: b})
			return v*31 + b*17 + n.k, nil, s2
		case kZip:
			return v*31 + b*17 + n.k, nil, s2
		case kAp, kApFunc:
			return v*31 + b, nil, s2
		}
		c.ev(event{id: n.id, tag: 'F', a: v, b: b})
		return c.ref(n.kids[2], v*31+b, s2)
	case kMap3, kZip3:
		if e != nil {
			return 0, e, s1
		}
		b, e2, s2 := c.ref(n.kids[1], env, s1)
		if e2 != nil {
			return 0, e2, s2
		}
		d, e3, s3 := c.ref(n.kids[2], env, s2)
		if e3 != nil {
			return 0, e3, s3
		}
		if n.kind == kMap3 {
			c.ev(event{id: n.id, tag: '3', a: v, b: b*1000 + d})
		}
		return v*31 + b*17 + d*7 + n.k, nil, s3
	}
	panic("ref: bad kind " + strconv.Itoa(n.kind))
}

// ---- library program ----------------------------------------------------------------------

func mkFn(a int) fp.Func1[int, int] { return func(b int) int { return a*31 + b } }

func tryOf(c *rctx, n *node, ok int) fp.Try[int] {
	if c.failing(n) {
		return try.Failure[int](c.errs[n.fpIdx])
	}
	return try.Success(ok)
}

func unitAdapt(u fp.StateT[S, fp.Unit], n *node) ST {
	switch n.mode % 3 {
	case 0:
		return statet.Replace(u, n.k)
	case 1:
		return statet.Map(u, func(fp.Unit) int { return n.k })
	}
	return statet.FlatMapConst(u, statet.Pure[S](n.k))
}

func (c *rctx) build(n *node, env int) ST {
	switch n.kind {
	case kPure:
		return statet.Pure[S](n.k)
	case kArg:
		return statet.Pure[S](env*3 + n.k)
	case kFromTry:
		return statet.FromTry[S](tryOf(c, n, n.k))
	case kGetS:
		return statet.GetS(func(s S) int { c.ev(event{id: n.id, tag: 'g', s: s}); return hs(s) + n.k })
	case kGetST:
		return statet.GetST(func(s S) fp.Try[int] { c.ev(event{id: n.id, tag: 'g', s: s}); return tryOf(c, n, hs(s)^n.k) })
	case kRun:
		return statet.Run(func(s S) (int, S) { c.ev(event{id: n.id, tag: 'r', s: s}); return hs(s) + n.k, s + n.tok })
	case kMerge:
		return statet.Merge(func(s S) S { c.ev(event{id: n.id, tag: 'u', s: s}); return s + n.tok }, func(s S) int { return hs(s)*3 + n.k })
	case kModifyS:
		return statet.ModifyS(func(s S) S { c.ev(event{id: n.id, tag: 'u', s: s}); return s + n.tok }, func(s S) int { return hs(s)*3 + n.k })
	case kPut:
		return unitAdapt(statet.Put[S](n.tok), n)
	case kPutWith:
		return unitAdapt(statet.PutWith(func(s S, v int) S {
			c.ev(event{id: n.id, tag: 'u', s: s, a: v})
			return s + n.tok + ":" + strconv.Itoa(v)
		})(n.k), n)
	case kModify:
		return unitAdapt(statet.Modify(func(s S) S { c.ev(event{id: n.id, tag: 'u', s: s}); return s + n.tok }), n)
	case kModifyT:
		return unitAdapt(statet.ModifyT(func(s S) fp.Try[S] {
			c.ev(event{id: n.id, tag: 'u', s: s})
			if c.failing(n) {
				return try.Failure[S](c.errs[n.fpIdx])
			}
			return try.Success(s + n.tok)
		}), n)
	case kGet:
		return statet.Map(statet.Get[S](), func(s S) int { return hs(s) + n.k })
	case kWithState:
		return statet.WithState(func(s S) ST {
			c.ev(event{id: n.id, tag: 'S', s: s})
			next := n.kids[0]
			if hs(s)&1 == 0 && n.kids[1] != nil {
				next = n.kids[1]
			}
			return c.build(next, hs(s))
		})
	case kCompose:
		return statet.Compose(func(a int) ST { return c.build(n.kids[0], a) }, func(b int) ST {
			c.ev(event{id: n.id, tag: 'c', a: b})
			return c.build(n.kids[1], b)
		})(n.k)
	case kSequence:
		ps := make([]ST, len(n.kids))
		for i, kid := range n.kids {
			ps[i] = c.build(kid, env)
		}
		return statet.Map(statet.Sequence(ps), func(l []int) int { return hashList(l) + n.k })
	case kSequenceIterator:
		ps := make([]ST, len(n.kids))
		for i, kid := range n.kids {
			ps[i] = c.build(kid, env)
		}
		return statet.Map(statet.SequenceIterator(iterator.FromSeq(ps)), func(it fp.Iterator[int]) int { return hashList(it.ToSeq()) + n.k })
	case kConcat:
		ps := make([]ST, len(n.kids))
		for i, kid := range n.kids {
			ps[i] = c.build(kid, env)
		}
		return statet.Concat(ps[0], ps[1:]...)
	case kTraverse, kTraverseFunc:
		fn := func(a int) ST { return c.build(n.kids[0], a) }
		var r fp.StateT[S, fp.Iterator[int]]
		if n.kind == kTraverse {
			r = statet.Traverse(iterator.FromSeq(append([]int(nil), n.items...)), fn)
		} else {
			r = statet.TraverseFunc[S](fn)(iterator.FromSeq(append([]int(nil), n.items...)))
		}
		return statet.Map(r, func(it fp.Iterator[int]) int { return hashList(it.ToSeq()) + n.k })
	case kTraverseSeq, kTraverseSeqFunc:
		fn := func(a int) ST { return c.build(n.kids[0], a) }
		var r fp.StateT[S, fp.Seq[int]]
		if n.kind == kTraverseSeq {
			r = statet.TraverseSeq(fp.Seq[int](append([]int(nil), n.items...)), fn)
		} else {
			r = statet.TraverseSeqFunc[S](fn)(fp.Seq[int](append([]int(nil), n.items...)))
		}
		return statet.Map(r, func(l fp.Seq[int]) int { return hashList(l) + n.k })
	case kTraverseSlice, kTraverseSliceFunc:
		fn := func(a int) ST { return c.build(n.kids[0], a) }
		var r fp.StateT[S, []int]
		if n.kind == kTraverseSlice {
			r = statet.TraverseSlice(append([]int(nil), n.items...), fn)
		} else {
			r = statet.TraverseSliceFunc[S](fn)(append([]int(nil), n.items...))
		}
		return statet.Map(r, func(l []int) int { return hashList(l) + n.k })
	case kFlatMapTraverseSeq:
		ta := statet.Map(c.build(n.kids[1], env), func(v int) fp.Seq[int] { return fp.Seq[int](shifted(n.items, v)) })
		r := statet.FlatMapTraverseSeq(ta, func(a int) ST { return c.build(n.kids[0], a) })
		return statet.Map(r, func(l fp.Seq[int]) int { return hashList(l) + n.k })
	case kFlatMapTraverseSlice:
		ta := statet.Map(c.build(n.kids[1], env), func(v int) []int { return shifted(n.items, v) })
		r := statet.FlatMapTraverseSlice(ta, func(a int) ST { return c.build(n.kids[0], a) })
		return statet.Map(r, func(l []int) int { return hashList(l) + n.k })
	case kFoldM:
		return statet.FoldM(iterator.FromSeq(append([]int(nil), n.items...)), n.k, func(b, a int) ST { return c.build(n.kids[0], b*3+a) })
	}
	p := c.build(n.kids[0], env)
	switch n.kind {
	case kMap:
		return statet.Map(p, func(v int) int { c.ev(event{id: n.id, tag: 'm', a: v}); return v*5 + n.k })
	case kMapT:
		return statet.MapT(p, func(v int) fp.Try[int] { c.ev(event{id: n.id, tag: 'm', a: v}); return tryOf(c, n, v*7+n.k) })
	case kMapWithState:
		return statet.MapWithState(p, func(s S, v int) int { c.ev(event{id: n.id, tag: 'w', s: s, a: v}); return hs(s) ^ (v + n.k) })
	case kMapWithStateT:
		return statet.MapWithStateT(p, func(s S, v int) fp.Try[int] {
			c.ev(event{id: n.id, tag: 'w', s: s, a: v})
			return tryOf(c, n, hs(s)^(v+n.k))
		})
	case kPeekState:
		return statet.PeekState(p, func(s S) { c.ev(event{id: n.id, tag: 'p', s: s}) })
	case kTransform:
		return statet.Transform(p, func(s S, t fp.Try[int]) (S, fp.Try[int]) {
			ev := event{id: n.id, tag: 'T', s: s}
			if t.IsSuccess() {
				ev.a = t.Get()
			} else {
				ev.err = t.Failed().Get()
			}
			c.ev(ev)
			ns := s + n.tok
			if c.failing(n) {
				return ns, try.Failure[int](c.errs[n.fpIdx])
			}
			if t.IsFailure() {
				if n.mode == 0 {
					return ns, t
				}
				return ns, try.Success(n.k)
			}
			return ns, try.Success(t.Get()*3 + n.k)
		})
	case kTransformWith:
		return statet.TransformWith(p, func(t fp.Try[int]) ST {
			if t.IsSuccess() {
				c.ev(event{id: n.id, tag: 'W', a: t.Get()})
				return c.build(n.kids[1], t.Get())
			}
			c.ev(event{id: n.id, tag: 'W', err: t.Failed().Get()})
			if n.kids[2] != nil {
				return c.build(n.kids[2], n.k)
			}
			return statet.FromTry[S](t)
		})
	case kReplace:
		return statet.Replace(p, n.k)
	case kFlatten:
		return statet.Flatten(statet.Map(p, func(v int) ST {
			c.ev(event{id: n.id, tag: 'x', a: v})
			return c.build(n.kids[1], v)
		}))
	case kApTry:
		return statet.ApTry(statet.Map(p, mkFn), tryOf(c, n, n.k))
	case kApOption:
		o := fp.Some(n.k)
		if c.failing(n) {
			o = fp.None[int]()
		}
		return statet.ApOption(statet.Map(p, mkFn), o)
	case kRecover:
		return p.Recover(func(err error) int { c.ev(event{id: n.id, tag: 'R', err: err}); return n.k })
	case kRecoverT:
		return p.RecoverT(func(err error) fp.Try[int] { c.ev(event{id: n.id, tag: 'R', err: err}); return tryOf(c, n, n.k) })
	case kRecoverWithState:
		return p.RecoverWithState(func(s S, err error) int { c.ev(event{id: n.id, tag: 'R', s: s, err: err}); return hs(s) + n.k })
	case kRecoverWithStateT:
		return p.RecoverWithStateT(func(s S, err error) fp.Try[int] {
			c.ev(event{id: n.id, tag: 'R', s: s, err: err})
			return tryOf(c, n, hs(s)+n.k)
		})
	case kRecoverWith:
		return p.RecoverWith(func(err error) ST { c.ev(event{id: n.id, tag: 'R', err: err}); return c.build(n.kids[1], n.k) })
	case kRecoverCase:
		return p.RecoverCase(func(err error) bool { return defined(n, err) }, func(err error) int {
			c.ev(event{id: n.id, tag: 'R', err: err})
			return n.k
		})
	case kRecoverCaseT:
		return p.RecoverCaseT(func(err error) bool { return defined(n, err) }, func(err error) fp.Try[int] {
			c.ev(event{id: n.id, tag: 'R', err: err})
			return tryOf(c, n, n.k)
		})
	case kRecoverCaseWith:
		return p.RecoverCaseWith(func(err error) bool { return defined(n, err) }, func(err error) ST {
			c.ev(event{id: n.id, tag: 'R', err: err})
			return c.build(n.kids[1], n.k)
		})
	case kFlatMap:
		return statet.FlatMap(p, func(v int) ST {
			c.ev(event{id: n.id, tag: 'f', a: v})
			next := n.kids[1]
			if n.mode == 1 && v&1 == 0 {
				next = n.kids[2]
			}
			return c.build(next, v)
		})
	case kFlatMapConst:
		return statet.FlatMapConst(p, c.build(n.kids[1], env))
	case kMap2:
		return statet.Map2(p, c.build(n.kids[1], env), func(a, b int) int {
			c.ev(event{id: n.id, tag: '2', a: a, b: b})
			return a*31 + b*17 + n.k
		})
	case kZip:
		return statet.Map(statet.Zip(p, c.build(n.kids[1], env)), func(t fp.Tuple2[int, int]) int { return t.I1*31 + t.I2*17 + n.k })
	case kAp:
		return statet.Ap(statet.Map(p, mkFn), c.build(n.kids[1], env))
	case kApFunc:
		return statet.ApFunc(statet.Map(p, mkFn), func() ST { return c.build(n.kids[1], env) })
	case kFlatMap2:
		return statet.FlatMap2(p, c.build(n.kids[1], env), func(a, b int) ST {
			c.ev(event{id: n.id, tag: 'F', a: a, b: b})
			return c.build(n.kids[2], a*31+b)
		})
	case kMap3:
		return statet.Map3(p, c.build(n.kids[1], env), c.build(n.kids[2], env), func(a, b, d int) int {
			c.ev(event{id: n.id, tag: '3', a: a, b: b*1000 + d})
			return a*31 + b*17 + d*7 + n.k
		})
	case kZip3:
		return statet.Map(statet.Zip3(p, c.build(n.kids[1], env), c.build(n.kids[2], env)), func(t fp.Tuple3[int, int, int]) int {
			return t.I1*31 + t.I2*17 + t.I3*7 + n.k
		})
	}
	panic("build: bad kind " + strconv.Itoa(n.kind))
}

// ---- generator ----------------------------------------------------------------------------

type pgen struct {
	r      *rand.Rand
	budget int
	nextID int
	errs   []error
	fpKind []int
	maxDep int
}

var leafKinds = []int{kPure, kArg, kFromTry, kFromTry, kGetS, kGetST, kGetST, kRun, kRun, kMerge, kModifyS, kPut, kPut, kPutWith, kModify, kModify, kModifyT, kModifyT, kGet}

func (g *pgen) newNode(kind int) *node {
	n := &node{kind: kind, id: g.nextID, k: g.r.IntN(19) - 9, fpIdx: -1}
	g.nextID++
	g.budget--
	n.tok = "|" + strconv.Itoa(n.id)
	if kind == kPut {
		n.tok = "P" + strconv.Itoa(n.id)
	}
	if fallible(kind) {
		n.fpIdx = len(g.errs)
		g.fpKind = append(g.fpKind, kind)
		if kind == kApOption {
			g.errs = append(g.errs, fp.ErrOptionEmpty)
		} else {
			g.errs = append(g.errs, &progErr{idx: n.fpIdx})
		}
	}
	return n
}

func (g *pgen) items() []int {
	m := g.r.IntN(4)
	if g.r.IntN(6) == 0 {
		m = 4 + g.r.IntN(3)
	}
	out := make([]int, m)
	for i := range out {
		out[i] = g.r.IntN(9) - 4
	}
	return out
}

func (g *pgen) gen(depth int) *node {
	r := g.r
	if g.budget <= 1 || depth >= g.maxDep || r.IntN(6) == 0 {
		n := g.newNode(leafKinds[r.IntN(len(leafKinds))])
		n.mode = r.IntN(3)
		return n
	}
	kind := kMap + r.IntN(nKinds-kMap)
	n := g.newNode(kind)
	kid := func() *node { return g.gen(depth + 1) }
	optKid := func() *node {
		if r.IntN(3) == 0 {
			return nil
		}
		return g.gen(depth + 1)
	}
	switch kind {
	case kMap, kMapT, kMapWithState, kMapWithStateT, kPeekState, kReplace, kApTry, kApOption,
		kRecover, kRecoverT, kRecoverWithState, kRecoverWithStateT:
		n.kids = []*node{kid()}
	case kRecoverCase, kRecoverCaseT:
		n.mode = r.IntN(2)
		n.kids = []*node{kid()}
	case kTransform:
		n.mode = r.IntN(2)
		n.kids = []*node{kid()}
	case kTransformWith:
		n.kids = []*node{kid(), kid(), optKid()}
	case kFlatten, kRecoverWith, kFlatMapConst, kMap2, kZip, kAp, kApFunc, kCompose:
		n.kids = []*node{kid(), kid()}
	case kRecoverCaseWith:
		n.mode = r.IntN(2)
		n.kids = []*node{kid(), kid()}
	case kWithState:
		n.kids = []*node{kid(), optKid()}
	case kFlatMap:
		n.mode = r.IntN(2)
		n.kids = []*node{kid(), kid()}
		if n.mode == 1 {
			n.kids = append(n.kids, kid())
		}
	case kFlatMap2, kMap3, kZip3:
		n.kids = []*node{kid(), kid(), kid()}
	case kSequence, kSequenceIterator:
		m := r.IntN(4)
		for i := 0; i < m; i++ {
			n.kids = append(n.kids, kid())
		}
	case kConcat:
		m := 1 + r.IntN(4)
		for i := 0; i < m; i++ {
			n.kids = append(n.kids, kid())
		}
	case kTraverse, kTraverseSeq, kTraverseSlice, kTraverseFunc, kTraverseSeqFunc, kTraverseSliceFunc, kFoldM:
		n.items = g.items()
		n.kids = []*node{kid()}
	case kFlatMapTraverseSeq, kFlatMapTraverseSlice:
		n.items = g.items()
		n.kids = []*node{kid(), kid()}
	default:
		panic("gen: kind " + strconv.Itoa(kind))
	}
	return n
}

// ---- comparison ---------------------------------------------------------------------------

func sameTrace(got, want []event) (bool, string) {
	i, j := 0, 0
	for i < len(got) || j < len(want) {
		if i < len(got) && j < len(want) {
			g, w := got[i], want[j]
			if g.id == w.id && g.tag == w.tag && g.s == w.s && g.a == w.a && g.b == w.b && g.err == w.err {
				i++
				j++
				continue
			}
		}
		if j < len(want) && want[j].optional {
			j++
			continue
		}
		gs, ws := "<end>", "<end>"
		if i < len(got) {
			gs = got[i].String()
		}
		if j < len(want) {
			ws = want[j].String()
		}
		return false, fmt.Sprintf("callback #%d: library %s, reference %s", i, gs, ws)
	}
	return true, ""
}

func traceStr(t []event) string {
	var b strings.Builder
	for i, e := range t {
		if i > 0 {
			b.WriteString(" ")
		}
		if i > 40 {
			b.WriteString("…")
			break
		}
		b.WriteString(e.String())
	}
	return b.String()
}

func tryStr(t fp.Try[int]) string {
	if t.IsSuccess() {
		return "Success(" + strconv.Itoa(t.Get()) + ")"
	}
	return "Failure(" + errStr(t.Failed().Get()) + ")"
}

func refStr(v int, e error) string {
	if e == nil {
		return "Success(" + strconv.Itoa(v) + ")"
	}
	return "Failure(" + errStr(e) + ")"
}

func sameTry(t fp.Try[int], v int, e error) bool {
	if e == nil {
		return t.IsSuccess() && t.Get() == v
	}
	return t.IsFailure() && t.Failed().Get() == e
}

func setSizes(n *node) int {
	if n == nil {
		return 0
	}
	n.size = 1
	for _, k := range n.kids {
		n.size += setSizes(k)
	}
	return n.size
}

// compareOnce runs subtree n alone (argument env, state s) in the library and in the reference.
func compareOnce(n *node, env int, s string, fails []bool, errs []error) (ok bool, what, detail string) {
	rc := &rctx{fails: fails, errs: errs}
	wv, werr, ws := rc.ref(n, env, s)
	lc := &rctx{fails: fails, errs: errs, budget: vrt.NewBudget(int64(len(rc.trace)*4+64), "callbacks of one StateT run")}
	defer func() {
		if r := recover(); r != nil {
			ok, what, detail = false, "panic", fmt.Sprint(r)
		}
	}()
	lt, ls := lc.build(n, env).Run(s)
	if !sameTry(lt, wv, werr) {
		return false, "result", fmt.Sprintf("%s.Run(%q) result %s, reference %s (state %q / %q)", n, s, tryStr(lt), refStr(wv, werr), ls, ws)
	}
	if ls != ws {
		return false, "state", fmt.Sprintf("%s.Run(%q) = %s with final state %q, reference state %q", n, s, tryStr(lt), ls, ws)
	}
	if same, why := sameTrace(lc.trace, rc.trace); !same {
		return false, "callbacks", fmt.Sprintf("%s.Run(%q): %s", n, s, why)
	}
	return true, "", ""
}

// blame names the call site of a mismatch: among the (node, argument, state) visits the
// reference made, the smallest subtree that already disagrees when run on its own. The
// expected values always come from the reference; the library is only re-run.
func blame(visits []visit, fails []bool, errs []error) (site_ string, what, detail string, found bool) {
	best := -1
	for i, v := range visits {
		if best >= 0 && v.n.size >= visits[best].n.size {
			continue
		}
		if ok, _, _ := compareOnce(v.n, v.env, v.s, fails, errs); !ok {
			best = i
		}
	}
	if best < 0 {
		return "", "", "", false
	}
	v := visits[best]
	_, what, detail = compareOnce(v.n, v.env, v.s, fails, errs)
	return site(v.n.kind), what, "smallest disagreeing sub-program: " + detail, true
}

type checker struct {
	w    *vrt.W
	i    int
	root *node
	desc string
	bad  bool
}

func (k *checker) fail(key, detail string, wit map[string]any) {
	if k.bad {
		return
	}
	k.bad = true
	k.w.Violation(k.i, key, detail+"\nprogram: "+k.desc, wit)
}

// ---- one case -----------------------------------------------------------------------------

var (
	hits     [nKinds]int64
	failHits [nKinds]int64
	recOut   = map[string]int64{}
)

var statePool = []string{"", "s", "init", "Q7", "|0", "P1"}

func failStr(f []bool) string {
	var b strings.Builder
	for _, x := range f {
		if x {
			b.WriteByte('1')
		} else {
			b.WriteByte('0')
		}
	}
	return b.String()
}

func runProgramCase(w *vrt.W, i int) {
	r := w.Rand(i)
	maxSize := 8
	if w.Tier == "thorough" {
		maxSize = 16
	}
	var g *pgen
	var root *node
	for try := 0; ; try++ {
		g = &pgen{r: r, budget: 2 + r.IntN(maxSize-1), maxDep: 2 + r.IntN(4)}
		root = g.gen(0)
		if len(g.errs) > 0 || try > 20 {
			break
		}
	}
	setSizes(root)
	desc := root.String()
	s0 := statePool[r.IntN(len(statePool))]
	env0 := r.IntN(5) - 2
	nfp := len(g.errs)
	// variants: none, each single position, two PRNG subsets
	var variants [][]bool
	variants = append(variants, make([]bool, nfp))
	for j := 0; j < nfp; j++ {
		f := make([]bool, nfp)
		f[j] = true
		variants = append(variants, f)
	}
	// a failing Recover handler is only reached after another failure: pair it with each
	// other position (at most 8 pairs)
	pairs := 0
	for h := 0; h < nfp && pairs < 8; h++ {
		if !isRecover(g.fpKind[h]) {
			continue
		}
		for j := 0; j < nfp && pairs < 8; j++ {
			if j == h {
				continue
			}
			f := make([]bool, nfp)
			f[h], f[j] = true, true
			variants = append(variants, f)
			pairs++
		}
	}
	if nfp >= 2 {
		for x := 0; x < 2; x++ {
			f := make([]bool, nfp)
			for j := range f {
				f[j] = r.IntN(3) == 0
			}
			variants = append(variants, f)
		}
	}
	recK := r.IntN(19) - 9
	ck := &checker{w: w, i: i, root: root, desc: desc}
	rootSite := site(root.kind)
	w.Begin(i, rootSite)
	var noFailState string
	sampled := false
	for vi, fails := range variants {
		if ck.bad {
			break
		}
		wit := map[string]any{"program": desc, "initial_state": s0, "arg": env0, "failing_points": failStr(fails), "nodes": g.nextID}
		witf := func() any { return wit }
		w.Guard(i, witf, func() {
			rc := &rctx{fails: fails, errs: g.errs, hits: &hits, failHits: &failHits, recOutcomes: recOut, record: true}
			wv, werr, ws := rc.ref(root, env0, s0)
			mismatch := func(what, detail string) {
				if bs, bw, bd, ok := blame(rc.visits, fails, g.errs); ok {
					ck.fail(bs+"/"+bw, detail+"\n"+bd, wit)
					return
				}
				ck.fail(rootSite+"/"+what, detail, wit)
			}
			if vi == 0 {
				noFailState = ws
			}
			w.Add("runs", 1)
			if werr != nil {
				w.Add("runs.top_level_failure", 1)
			}
			if rc.firstFail {
				w.Add("runs.with_failure", 1)
				if werr == nil {
					w.Add("runs.failure_recovered", 1)
				}
			}
			budget := int64(len(rc.trace)*4 + 64)
			// Run
			lc := &rctx{fails: fails, errs: g.errs, budget: vrt.NewBudget(budget, "callbacks of one StateT run")}
			w.Site(rootSite)
			lt, ls := lc.build(root, env0).Run(s0)
			if !sameTry(lt, wv, werr) {
				mismatch("result", fmt.Sprintf("Run(%q) result %s, reference %s (state %q / %q)", s0, tryStr(lt), refStr(wv, werr), ls, ws))
				return
			}
			if ls != ws {
				mismatch("state", fmt.Sprintf("Run(%q) = %s with final state %q, reference state %q", s0, tryStr(lt), ls, ws))
				return
			}
			if ok, why := sameTrace(lc.trace, rc.trace); !ok {
				mismatch("callbacks", fmt.Sprintf("Run(%q): %s\nlibrary:   %s\nreference: %s", s0, why, traceStr(lc.trace), traceStr(rc.trace)))
				return
			}
			// Exec
			lc = &rctx{fails: fails, errs: g.errs, budget: vrt.NewBudget(budget, "callbacks of one StateT run")}
			et := lc.build(root, env0).Exec(s0)
			if werr == nil {
				if !et.IsSuccess() || et.Get() != ws {
					ck.fail("StateT.Exec/result", fmt.Sprintf("Exec(%q) = %v, reference Success(%q)", s0, et, ws), wit)
					return
				}
			} else if !et.IsFailure() || et.Failed().Get() != werr {
				ck.fail("StateT.Exec/result", fmt.Sprintf("Exec(%q) = %v, reference Failure(%s)", s0, et, errStr(werr)), wit)
				return
			}
			if ok, why := sameTrace(lc.trace, rc.trace); !ok {
				ck.fail("StateT.Exec/callbacks", "Exec: "+why, wit)
				return
			}
			// Eval
			lc = &rctx{fails: fails, errs: g.errs, budget: vrt.NewBudget(budget, "callbacks of one StateT run")}
			vt := lc.build(root, env0).Eval(s0)
			if !sameTry(vt, wv, werr) {
				ck.fail("StateT.Eval/result", fmt.Sprintf("Eval(%q) = %s, reference %s", s0, tryStr(vt), refStr(wv, werr)), wit)
				return
			}
			if ok, why := sameTrace(lc.trace, rc.trace); !ok {
				ck.fail("StateT.Eval/callbacks", "Eval: "+why, wit)
				return
			}
			w.Add("runs.exec_eval", 2)
			// the eight Recover variants over the same program, equivalent handlers
			recoverAll(ck, fails, g.errs, env0, s0, recK, wv, werr, ws, rc.trace, wit)
			// non-trivial: a failure happened when the state had already changed and it cut
			// off a later state change
			if rc.firstFail && rc.firstFailS != s0 && ws != noFailState {
				w.Distinct(desc + "@" + s0 + "@" + strconv.Itoa(env0) + "!" + failStr(fails))
				w.Add("runs.failure_after_state_change_cutting_later_change", 1)
				if !sampled && w.WantSample() && len(desc) < 260 && i%97 == 0 {
					sampled = true
					w.Sample(map[string]any{"program": desc, "initial_state": s0, "arg": env0, "failing_points": failStr(fails),
						"reference_result": refStr(wv, werr), "reference_state": ws, "state_at_first_failure": rc.firstFailS, "state_without_failure": noFailState})
				}
			}
		})
	}
	w.Done(i)
	w.Add("programs", 1)
	w.Add("program_nodes", int64(g.nextID))
	w.Max("max_program_nodes", int64(g.nextID))
	w.Add("failure_points", int64(nfp))
}

// recoverAll wraps the whole program into each Recover variant with handlers that all
// produce recK and checks every variant against the reference and hence against each other.
func recoverAll(ck *checker, fails []bool, errs []error, env0 int, s0 string, recK, wv int, werr error, ws string, want []event, wit map[string]any) {
	type call struct {
		s    string
		hasS bool
		err  error
	}
	names := []string{"Recover", "RecoverT", "RecoverWithState", "RecoverWithStateT", "RecoverWith", "RecoverCase", "RecoverCaseT", "RecoverCaseWith"}
	for vi, name := range names {
		if ck.bad {
			return
		}
		var calls []call
		lc := &rctx{fails: fails, errs: errs, budget: vrt.NewBudget(int64(len(want)*4+64), "callbacks of one StateT run")}
		p := lc.build(ck.root, env0)
		var q ST
		switch vi {
		case 0:
			q = p.Recover(func(err error) int { calls = append(calls, call{err: err}); return recK })
		case 1:
			q = p.RecoverT(func(err error) fp.Try[int] { calls = append(calls, call{err: err}); return try.Success(recK) })
		case 2:
			q = p.RecoverWithState(func(s S, err error) int { calls = append(calls, call{s, true, err}); return recK })
		case 3:
			q = p.RecoverWithStateT(func(s S, err error) fp.Try[int] { calls = append(calls, call{s, true, err}); return try.Success(recK) })
		case 4:
			q = p.RecoverWith(func(err error) ST { calls = append(calls, call{err: err}); return statet.Pure[S](recK) })
		case 5:
			q = p.RecoverCase(func(error) bool { return true }, func(err error) int { calls = append(calls, call{err: err}); return recK })
		case 6:
			q = p.RecoverCaseT(func(error) bool { return true }, func(err error) fp.Try[int] { calls = append(calls, call{err: err}); return try.Success(recK) })
		case 7:
			q = p.RecoverCaseWith(func(error) bool { return true }, func(err error) ST { calls = append(calls, call{err: err}); return statet.Pure[S](recK) })
		}
		key := "StateT." + name
		ck.w.Site(key)
		t, s := q.Run(s0)
		if werr == nil {
			ck.w.Add("recover."+name+".success", 1)
			if !sameTry(t, wv, nil) || s != ws {
				ck.fail(key+"/success-not-untouched", fmt.Sprintf("%s over a succeeding program: (%s, %q), the program itself gives (%s, %q)", name, tryStr(t), s, refStr(wv, nil), ws), wit)
				return
			}
			if len(calls) != 0 {
				ck.fail(key+"/handler-called-on-success", fmt.Sprintf("%s called its handler %d times although the program succeeded", name, len(calls)), wit)
				return
			}
			continue
		}
		ck.w.Add("recover."+name+".failure", 1)
		if len(calls) != 1 {
			ck.fail(key+"/handler-calls", fmt.Sprintf("%s called its handler %d times for one failure", name, len(calls)), wit)
			return
		}
		if calls[0].err != werr {
			ck.fail(key+"/handler-error", fmt.Sprintf("%s handed its handler %s, the program failed with %s", name, errStr(calls[0].err), errStr(werr)), wit)
			return
		}
		if calls[0].hasS && calls[0].s != ws {
			ck.fail(key+"/handler-state", fmt.Sprintf("%s handed its handler the state %q, the state at the failure is %q (initial state %q)", name, calls[0].s, ws, s0), wit)
			return
		}
		if !sameTry(t, recK, nil) {
			ck.fail(key+"/recovered-result", fmt.Sprintf("%s returned %s, its handler produced %d", name, tryStr(t), recK), wit)
			return
		}
		if s != ws {
			ck.fail(key+"/recovered-state", fmt.Sprintf("%s returned the state %q, the state at the failure is %q (initial state %q)", name, s, ws, s0), wit)
			return
		}
		if ok, why := sameTrace(lc.trace, want); !ok {
			ck.fail(key+"/callbacks", name+" changed what the wrapped program executed: "+why, wit)
			return
		}
	}
}

// ---- explicit law instances ---------------------------------------------------------------

var lawNames = []string{"put-then-get", "get-then-put", "modify-is-get-put", "left-to-right/FlatMap", "left-to-right/FlatMapConst", "left-to-right/Map2", "left-to-right/Sequence", "left-to-right/SequenceIterator",
	"left-to-right/Traverse", "left-to-right/TraverseSeq", "left-to-right/TraverseSlice", "left-to-right/FoldM", "left-to-right/Concat", "left-to-right/Map3", "left-to-right/Ap", "modifyT-failure-keeps-state", "recover-variants-agree"}

func randState(r *rand.Rand) string {
	if r.IntN(4) == 0 {
		return statePool[r.IntN(len(statePool))]
	}
	n := r.IntN(6)
	b := make([]byte, n)
	for i := range b {
		b[i] = byte('a' + r.IntN(26))
	}
	return string(b)
}

func unitOK(t fp.Try[fp.Unit]) bool { return t.IsSuccess() }

func runLawCase(w *vrt.W, i int) {
	r := w.Rand(i)
	law := lawNames[(i+w.Batch)%len(lawNames)]
	s0 := randState(r)
	x := randState(r)
	suffix := "+" + randState(r)
	nsteps := 1 + r.IntN(6)
	failAt := -1
	if r.IntN(4) != 0 {
		failAt = r.IntN(nsteps)
	}
	wit := map[string]any{"law": law, "initial_state": s0, "x": x, "suffix": suffix, "steps": nsteps, "failing_step": failAt}
	viol := func(key, detail string) { w.Violation(i, key, detail, wit) }
	w.Begin(i, "law/"+law)
	w.Guard(i, func() any { return wit }, func() {
		switch law {
		case "put-then-get":
			w.Site("statet.Put")
			for form := 0; form < 3; form++ {
				var p fp.StateT[S, S]
				switch form {
				case 0:
					p = statet.FlatMapConst(statet.Put(x), statet.Get[S]())
				case 1:
					p = statet.FlatMap(statet.Put(x), func(fp.Unit) fp.StateT[S, S] { return statet.Get[S]() })
				case 2:
					p = statet.Map2(statet.Put(x), statet.Get[S](), func(_ fp.Unit, s S) S { return s })
				}
				t, s := p.Run(s0)
				if !t.IsSuccess() || t.Get() != x || s != x {
					viol("statet.Put/put-then-get", fmt.Sprintf("Put(%q) then Get from state %q: result %v, final state %q; expected Success(%q) and state %q", x, s0, t, s, x, x))
					return
				}
			}
			if t, s := statet.Put(x).Run(s0); !unitOK(t) || s != x {
				viol("statet.Put/state", fmt.Sprintf("Put(%q).Run(%q) = (%v, %q)", x, s0, t, s))
			}
			if t := statet.Put(x).Exec(s0); !t.IsSuccess() || t.Get() != x {
				viol("statet.Put/state", fmt.Sprintf("Put(%q).Exec(%q) = %v", x, s0, t))
			}
		case "get-then-put":
			w.Site("statet.Get")
			t, s := statet.FlatMap(statet.Get[S](), statet.Put[S]).Run(s0)
			if !unitOK(t) || s != s0 {
				viol("statet.Get/get-then-put", fmt.Sprintf("Get >>= Put from state %q: (%v, %q); expected a no-op", s0, t, s))
				return
			}
			// embedded in a longer program: a change before and after
			p := statet.Concat(statet.Modify(func(s S) S { return s + "<a>" }), statet.FlatMap(statet.Get[S](), statet.Put[S]), statet.Modify(func(s S) S { return s + "<b>" }))
			if t, s := p.Run(s0); !unitOK(t) || s != s0+"<a><b>" {
				viol("statet.Get/get-then-put", fmt.Sprintf("Modify; Get >>= Put; Modify from %q: (%v, %q); expected state %q", s0, t, s, s0+"<a><b>"))
			}
		case "modify-is-get-put":
			w.Site("statet.Modify")
			calls := 0
			f := func(s S) S { calls++; return s + suffix }
			t1, s1 := statet.Modify(f).Run(s0)
			c1 := calls
			t2, s2 := statet.FlatMap(statet.Get[S](), func(s S) fp.StateT[S, fp.Unit] { return statet.Put(f(s)) }).Run(s0)
			if !unitOK(t1) || !unitOK(t2) || s1 != s2 || s1 != s0+suffix || c1 != 1 {
				viol("statet.Modify/modify-is-get-put", fmt.Sprintf("Modify(f).Run(%q) = (%v, %q) with f called %d times; Get >>= Put∘f = (%v, %q); f(s) = %q", s0, t1, s1, c1, t2, s2, s0+suffix))
				return
			}
			// ModifyS / Merge / Run / GetS agree with their definition through Get/Put
			t3, s3 := statet.ModifyS(f, func(s S) int { return len(s) }).Run(s0)
			t4, s4 := statet.Merge(f, func(s S) int { return len(s) }).Run(s0)
			if !t3.IsSuccess() || t3.Get() != len(s0) || s3 != s0+suffix || !t4.IsSuccess() || t4.Get() != len(s0) || s4 != s0+suffix {
				viol("statet.ModifyS/definition", fmt.Sprintf("ModifyS/Merge(f, len).Run(%q) = (%v, %q) / (%v, %q); expected (Success(%d), %q)", s0, t3, s3, t4, s4, len(s0), s0+suffix))
			}
		case "modifyT-failure-keeps-state":
			w.Site("statet.ModifyT")
			e := &progErr{idx: 99}
			p := statet.Concat(statet.Modify(func(s S) S { return s + "<a>" }),
				statet.ModifyT(func(s S) fp.Try[S] { return try.Failure[S](e) }),
				statet.Modify(func(s S) S { return s + "<never>" }))
			t, s := p.Run(s0)
			if !t.IsFailure() || t.Failed().Get() != e || s != s0+"<a>" {
				viol("statet.ModifyT/failure-state", fmt.Sprintf("Modify(+<a>); ModifyT(fail); Modify from %q: (%v, %q); expected Failure and state %q", s0, t, s, s0+"<a>"))
			}
		case "recover-variants-agree":
			lawRecover(w, i, r, s0, nsteps, failAt, wit)
		default:
			lawLeftToRight(w, i, strings.TrimPrefix(law, "left-to-right/"), s0, nsteps, failAt, wit)
		}
	})
	w.Done(i)
	w.Hit("law/" + law)
	w.Add("laws", 1)
	if failAt > 0 && failAt < nsteps-1 && strings.HasPrefix(law, "left-to-right/") {
		w.Distinct(fmt.Sprintf("law:%s:%q:%d:%d", law, s0, nsteps, failAt))
	}
}

// steps: step j appends <j> and yields j; the failing step appends <j> and then fails.
type stepper struct {
	called []int
	e      error
	failAt int
}

func (sp *stepper) step(j int) ST {
	run := statet.Run(func(s S) (int, S) { sp.called[j]++; return j, s + "<" + strconv.Itoa(j) + ">" })
	if j == sp.failAt {
		return statet.MapT(run, func(int) fp.Try[int] { return try.Failure[int](sp.e) })
	}
	return run
}

func lawLeftToRight(w *vrt.W, i int, comb string, s0 string, n, failAt int, wit map[string]any) {
	sp := &stepper{called: make([]int, n), e: &progErr{idx: 77}, failAt: failAt}
	idx := make([]int, n)
	for j := range idx {
		idx[j] = j
	}
	sum := func(a, b int) int { return a*10 + b }
	wantVal := 0 // decimal digits of the steps in order, for the value-carrying combinators
	for j := 0; j < n; j++ {
		wantVal = wantVal*10 + j
	}
	var p ST
	w.Site("statet." + comb)
	switch comb {
	case "FlatMap":
		var chain func(j, acc int) ST
		chain = func(j, acc int) ST {
			if j == n {
				return statet.Pure[S](acc)
			}
			return statet.FlatMap(sp.step(j), func(v int) ST { return chain(j+1, sum(acc, v)) })
		}
		p = chain(0, 0)
	case "FlatMapConst":
		p = statet.Pure[S](0)
		for j := 0; j < n; j++ {
			p = statet.FlatMapConst(p, sp.step(j))
		}
		wantVal = n - 1
	case "Map2":
		p = statet.Pure[S](0)
		for j := 0; j < n; j++ {
			p = statet.Map2(p, sp.step(j), sum)
		}
	case "Map3":
		p = statet.Pure[S](0)
		for j := 0; j < n; j++ {
			p = statet.Map3(p, sp.step(j), statet.Pure[S](0), func(a, b, _ int) int { return sum(a, b) })
		}
	case "Ap":
		p = statet.Pure[S](0)
		for j := 0; j < n; j++ {
			p = statet.Ap(statet.Map(p, func(a int) fp.Func1[int, int] { return func(b int) int { return sum(a, b) } }), sp.step(j))
		}
	case "Sequence", "SequenceIterator":
		ps := make([]ST, n)
		for j := range ps {
			ps[j] = sp.step(j)
		}
		fold := func(l []int) int {
			v := 0
			for _, x := range l {
				v = sum(v, x)
			}
			return v
		}
		if comb == "Sequence" {
			p = statet.Map(statet.Sequence(ps), fold)
		} else {
			p = statet.Map(statet.SequenceIterator(iterator.FromSeq(ps)), func(it fp.Iterator[int]) int { return fold(it.ToSeq()) })
		}
	case "Traverse":
		p = statet.Map(statet.Traverse(iterator.FromSeq(idx), sp.step), func(it fp.Iterator[int]) int {
			v := 0
			for _, x := range it.ToSeq() {
				v = sum(v, x)
			}
			return v
		})
	case "TraverseSeq":
		p = statet.Map(statet.TraverseSeq(fp.Seq[int](idx), sp.step), func(l fp.Seq[int]) int {
			v := 0
			for _, x := range l {
				v = sum(v, x)
			}
			return v
		})
	case "TraverseSlice":
		p = statet.Map(statet.TraverseSlice(idx, sp.step), func(l []int) int {
			v := 0
			for _, x := range l {
				v = sum(v, x)
			}
			return v
		})
	case "FoldM":
		p = statet.FoldM(iterator.FromSeq(idx), 0, func(acc, j int) ST { return statet.Map(sp.step(j), func(v int) int { return sum(acc, v) }) })
	case "Concat":
		ps := make([]ST, n)
		for j := range ps {
			ps[j] = sp.step(j)
		}
		p = statet.Concat(ps[0], ps[1:]...)
		wantVal = n - 1
	default:
		panic("unknown combinator " + comb)
	}
	t, s := p.Run(s0)
	wantS := s0
	last := n - 1
	if failAt >= 0 {
		last = failAt
	}
	for j := 0; j <= last; j++ {
		wantS += "<" + strconv.Itoa(j) + ">"
	}
	key := "statet." + comb
	if failAt < 0 {
		if !t.IsSuccess() || t.Get() != wantVal {
			w.Violation(i, key+"/left-to-right-value", fmt.Sprintf("%d steps through %s from %q: result %s, expected Success(%d)", n, comb, s0, tryStr(t), wantVal), wit)
			return
		}
	} else if !t.IsFailure() || t.Failed().Get() != sp.e {
		w.Violation(i, key+"/failure-not-reported", fmt.Sprintf("%d steps through %s, step %d fails: result %s", n, comb, failAt, tryStr(t)), wit)
		return
	}
	if s != wantS {
		w.Violation(i, key+"/state-at-failure", fmt.Sprintf("%d steps through %s from %q, failing step %d: final state %q, expected %q", n, comb, s0, failAt, s, wantS), wit)
		return
	}
	for j, c := range sp.called {
		want := 1
		if j > last {
			want = 0
		}
		if c != want {
			w.Violation(i, key+"/step-after-failure-ran", fmt.Sprintf("%d steps through %s, failing step %d: step %d ran %d times, expected %d", n, comb, failAt, j, c, want), wit)
			return
		}
	}
	if failAt >= 0 {
		w.Add("laws.left_to_right_with_failure", 1)
	}
}

func lawRecover(w *vrt.W, i int, r *rand.Rand, s0 string, n, failAt int, wit map[string]any) {
	type obs struct {
		t      fp.Try[int]
		s      string
		hs     string
		hasHS  bool
		herr   error
		hcalls int
	}
	e := error(&progErr{idx: 55})
	mk := func() (ST, *stepper) {
		sp := &stepper{called: make([]int, n), e: e, failAt: failAt}
		ps := make([]ST, n)
		for j := range ps {
			ps[j] = sp.step(j)
		}
		return statet.Concat(ps[0], ps[1:]...), sp
	}
	wantS := s0
	last := n - 1
	if failAt >= 0 {
		last = failAt
	}
	for j := 0; j <= last; j++ {
		wantS += "<" + strconv.Itoa(j) + ">"
	}
	names := []string{"Recover", "RecoverT", "RecoverWithState", "RecoverWithStateT", "RecoverWith", "RecoverCase", "RecoverCaseT", "RecoverCaseWith"}
	all := make([]obs, len(names))
	for vi := range names {
		p, _ := mk()
		o := &all[vi]
		h := func(err error) { o.hcalls++; o.herr = err }
		hs := func(s S, err error) { o.hcalls++; o.herr = err; o.hs, o.hasHS = s, true }
		var q ST
		switch vi {
		case 0:
			q = p.Recover(func(err error) int { h(err); return -1 })
		case 1:
			q = p.RecoverT(func(err error) fp.Try[int] { h(err); return try.Success(-1) })
		case 2:
			q = p.RecoverWithState(func(s S, err error) int { hs(s, err); return -1 })
		case 3:
			q = p.RecoverWithStateT(func(s S, err error) fp.Try[int] { hs(s, err); return try.Success(-1) })
		case 4:
			q = p.RecoverWith(func(err error) ST { h(err); return statet.Pure[S](-1) })
		case 5:
			q = p.RecoverCase(func(err error) bool { return err == e }, func(err error) int { h(err); return -1 })
		case 6:
			q = p.RecoverCaseT(func(err error) bool { return err == e }, func(err error) fp.Try[int] { h(err); return try.Success(-1) })
		case 7:
			q = p.RecoverCaseWith(func(err error) bool { return err == e }, func(err error) ST { h(err); return statet.Pure[S](-1) })
		}
		w.Site("StateT." + names[vi])
		o.t, o.s = q.Run(s0)
	}
	for vi, o := range all {
		key := "StateT." + names[vi]
		if failAt < 0 {
			if !o.t.IsSuccess() || o.t.Get() != n-1 || o.s != wantS || o.hcalls != 0 {
				w.Violation(i, key+"/success-not-untouched", fmt.Sprintf("%s over %d succeeding steps from %q: (%s, %q), handler calls %d; expected (Success(%d), %q), 0", names[vi], n, s0, tryStr(o.t), o.s, o.hcalls, n-1, wantS), wit)
				return
			}
			continue
		}
		if o.hcalls != 1 || o.herr != e {
			w.Violation(i, key+"/handler-error", fmt.Sprintf("%s: handler called %d times with %s", names[vi], o.hcalls, errStr(o.herr)), wit)
			return
		}
		if o.hasHS && o.hs != wantS {
			w.Violation(i, key+"/handler-state", fmt.Sprintf("%s over %d steps from %q failing at step %d: handler received state %q, the state at the failure is %q", names[vi], n, s0, failAt, o.hs, wantS), wit)
			return
		}
		if !o.t.IsSuccess() || o.t.Get() != -1 {
			w.Violation(i, key+"/recovered-result", fmt.Sprintf("%s returned %s, handler produced -1", names[vi], tryStr(o.t)), wit)
			return
		}
		if o.s != wantS {
			w.Violation(i, key+"/recovered-state", fmt.Sprintf("%s over %d steps from %q failing at step %d: returned state %q, the state at the failure is %q", names[vi], n, s0, failAt, o.s, wantS), wit)
			return
		}
	}
	// handlers that change the state / fail / are not defined
	if failAt >= 0 {
		p, _ := mk()
		t, s := p.RecoverWith(func(error) ST { return statet.Run(func(s S) (int, S) { return 5, s + "<h>" }) }).Run(s0)
		if !t.IsSuccess() || t.Get() != 5 || s != wantS+"<h>" {
			w.Violation(i, "StateT.RecoverWith/handler-program-state", fmt.Sprintf("RecoverWith handler program appending <h>: (%s, %q), expected (Success(5), %q)", tryStr(t), s, wantS+"<h>"), wit)
			return
		}
		p, _ = mk()
		e2 := error(&progErr{idx: 56})
		t, s = p.RecoverT(func(error) fp.Try[int] { return try.Failure[int](e2) }).Run(s0)
		if !t.IsFailure() || t.Failed().Get() != e2 || s != wantS {
			w.Violation(i, "StateT.RecoverT/handler-failure", fmt.Sprintf("RecoverT whose handler fails: (%s, %q), expected (Failure(e2), %q)", tryStr(t), s, wantS), wit)
			return
		}
		p, _ = mk()
		called := false
		t, s = p.RecoverCase(func(error) bool { return false }, func(error) int { called = true; return 0 }).Run(s0)
		if !t.IsFailure() || t.Failed().Get() != e || s != wantS || called {
			w.Violation(i, "StateT.RecoverCase/not-defined", fmt.Sprintf("RecoverCase not defined at the error: (%s, %q) handler called %v, expected the failure untouched and state %q", tryStr(t), s, called, wantS), wit)
			return
		}
		w.Add("laws.recover_with_failure", 1)
	}
}

// ---- main -----------------------------------------------------------------------------------

const lawBatches = 2

func main() {
	vrt.Main(vrt.Config{
		Property: "C17",
		Batches: func(tier string) int {
			if tier == "thorough" {
				return 96 + lawBatches
			}
			return 16 + lawBatches
		},
		Cases: func(tier string, b int) int {
			if b < lawBatches {
				if tier == "thorough" {
					return 20000
				}
				return 2500
			}
			if tier == "thorough" {
				return 6250
			}
			return 4000
		},
		Run: func(w *vrt.W) {
			for i := w.From; i < w.To; i++ {
				if w.Batch < lawBatches {
					runLawCase(w, i)
				} else {
					runProgramCase(w, i)
				}
			}
			for k := 0; k < nKinds; k++ {
				if hits[k] > 0 {
					w.Add("hit."+site(k)+kindSuffix(k), hits[k])
				}
				if failHits[k] > 0 {
					w.Add("hit.fail@"+site(k), failHits[k])
				}
			}
			for k, v := range recOut {
				w.Add("hit.outcome/"+k, v)
			}
		},
		Rule: "case = PRNG StateT[string,int] program skeleton (node budget 8 quick / 16 thorough; the leaves that complete the last combinators may exceed it, see max_program_nodes) over 13 primitives (Pure, FromTry, Get, GetS, GetST, Put, PutWith, Modify, ModifyS, ModifyT, Run, Merge, WithState) and 41 combinators/methods (FlatMap, FlatMapConst, Map, MapT, MapWithState(T), PeekState, Transform, TransformWith, Replace, Flatten, Ap, ApFunc, ApTry, ApOption, Map2, Zip, Map3, Zip3, FlatMap2, Compose, Sequence, SequenceIterator, Concat, 8 Traverse variants, FoldM, 8 Recover* methods), executed from a PRNG initial state with no failure, with exactly one failure at each of its failure points (FromTry, GetST, ModifyT, MapT, MapWithStateT, Transform, ApTry, ApOption=None, failing handlers of RecoverT/RecoverWithStateT/RecoverCaseT) with every pair (failing Recover handler, other failure point; at most 8) and with two PRNG subsets; each execution compares Run, Exec, Eval (result, final state, log of run-time callbacks with their arguments) with a reference interpreter, then wraps the program in each of the 8 Recover variants with equivalent handlers. State = string; every state-changing step appends a token naming the step. Law batches run the explicit instances (Put;Get / Get>>=Put / Modify = Get>>=Put.f / k steps through each sequencing combinator with a failing step / ModifyT failure / the 8 Recover variants on one program). distinct_nontrivial = distinct (program, initial state, failure set) executions in which a failure originated when the state already differed from the initial state AND the final state differs from the failure-free execution of the same skeleton (the failure cut off a later state change), plus left-to-right law instances whose failing step is neither first nor last.",
		Assumptions: []string{
			"user callbacks are deterministic and touch nothing but the run's own log",
			"programs are PRNG samples up to the size bound, not all programs; failure positions of a sampled skeleton are enumerated exhaustively one at a time",
			"S = string and A = int only; StateT code is parametric in both",
			"PeekState's callback on a failed program is accepted either way (called with the post-failure state, or not called)",
			"callbacks that only construct a program from arguments known before the run (Traverse fn, FoldM f, ApFunc thunk, Compose f1) are not part of the compared callback log",
		},
		Floors: func(tier string) map[string]int64 {
			f := map[string]int64{"programs": 60000, "runs": 200000, "runs.top_level_failure": 20000, "runs.failure_recovered": 8000, "distinct": 10000,
				"laws.left_to_right_with_failure": 1000, "laws.recover_with_failure": 100}
			for k := 0; k < nKinds; k++ {
				f["hit."+site(k)+kindSuffix(k)] = 300
				if fallible(k) {
					f["hit.fail@"+site(k)] = 100
				}
				if isRecover(k) {
					f["hit.outcome/"+kindName[k]+".success-untouched"] = 50
					f["hit.outcome/"+kindName[k]+".handled"] = 50
				}
			}
			for _, k := range []int{kRecoverT, kRecoverWithStateT, kRecoverCaseT} {
				f["hit.outcome/"+kindName[k]+".handler-fails"] = 20
			}
			for _, k := range []int{kRecoverCase, kRecoverCaseT, kRecoverCaseWith} {
				f["hit.outcome/"+kindName[k]+".not-defined-at"] = 20
			}
			for _, n := range []string{"Recover", "RecoverT", "RecoverWithState", "RecoverWithStateT", "RecoverWith", "RecoverCase", "RecoverCaseT", "RecoverCaseWith"} {
				f["recover."+n+".failure"] = 5000
				f["recover."+n+".success"] = 5000
			}
			for _, l := range lawNames {
				f["hit.law/"+l] = 100
			}
			return f
		},
	})
}

func kindSuffix(k int) string {
	if k == kArg {
		return "(arg)"
	}
	return ""
}
