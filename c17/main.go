// C17 — StateT threads state lawfully, also across failure and recovery.
//
// A case is a PRNG program skeleton over the statet primitives/combinators and the fp.StateT
// Recover*/Exec/Eval methods. The skeleton has k "failure points"; it is executed with no
// failure, with exactly one failure injected at each of the k positions, and with two PRNG
// subsets. Every execution is compared — (Try result, final state) of Run, Exec, Eval and the
// log of run-time callbacks — with a reference interpreter func(s) (v, err, s') written
// directly from the meaning of each primitive. In addition every case runs the eight Recover
// variants over the same program with equivalent handlers, and one explicit law instance.
//
// Discipline: every program VALUE is used at least twice. One value is built per (skeleton,
// failure set) and executed six times (Run/Exec/Eval, three initial states, PRNG order), then
// wrapped by each Recover variant (wrappers executed twice); skeletons use one value at several
// positions (kShared); rerun batches do the same for the raw collection-valued programs built
// from one-shot iterators; kept results are looked at again after the later executions.
//
// State S = string: every state-changing step appends (or, for Put, installs) a token that
// names the step, so two different state histories never collide. Value A = int.
package main

import (
	"fmt"
	"math/rand/v2"
	"strconv"
	"strings"

	"verif/vrt"

	"github.com/csgura/fp"
	"github.com/csgura/fp/iterator"
	"github.com/csgura/fp/statet"
	"github.com/csgura/fp/try"
)

type S = string
type ST = fp.StateT[string, int]

// ---- kinds ----------------------------------------------------------------------------

const (
	// leaves
	kPure = iota
	kArg
	kFromTry // fallible
	kGetS
	kGetST // fallible
	kRun
	kMerge
	kModifyS
	kPut
	kPutWith
	kModify
	kModifyT // fallible
	kGet
	// unary
	kMap
	kMapT // fallible
	kMapWithState
	kMapWithStateT // fallible
	kPeekState
	kTransform // fallible
	kTransformWith
	kReplace
	kFlatten
	kApTry    // fallible
	kApOption // fallible (None)
	kWithState
	kRecover
	kRecoverT // handler fallible
	kRecoverWithState
	kRecoverWithStateT // handler fallible
	kRecoverWith
	kRecoverCase
	kRecoverCaseT // handler fallible
	kRecoverCaseWith
	// binary / n-ary
	kFlatMap
	kFlatMapConst
	kMap2
	kZip
	kAp
	kApFunc
	kFlatMap2
	kMap3
	kZip3
	kCompose
	kSequence
	kSequenceIterator
	kConcat
	kTraverse
	kTraverseSeq
	kTraverseSlice
	kTraverseFunc
	kTraverseSeqFunc
	kTraverseSliceFunc
	kFlatMapTraverseSeq
	kFlatMapTraverseSlice
	kFoldM
	// a program VALUE bound once and used at several positions (see pgen.pool): build returns
	// the very same fp.StateT for every occurrence of the node
	kShared
	nKinds
)

var kindName = [nKinds]string{
	"Pure", "Pure(arg)", "FromTry", "GetS", "GetST", "Run", "Merge", "ModifyS", "Put", "PutWith", "Modify", "ModifyT", "Get",
	"Map", "MapT", "MapWithState", "MapWithStateT", "PeekState", "Transform", "TransformWith", "Replace", "Flatten", "ApTry", "ApOption", "WithState",
	"StateT.Recover", "StateT.RecoverT", "StateT.RecoverWithState", "StateT.RecoverWithStateT", "StateT.RecoverWith", "StateT.RecoverCase", "StateT.RecoverCaseT", "StateT.RecoverCaseWith",
	"FlatMap", "FlatMapConst", "Map2", "Zip", "Ap", "ApFunc", "FlatMap2", "Map3", "Zip3", "Compose", "Sequence", "SequenceIterator", "Concat",
	"Traverse", "TraverseSeq", "TraverseSlice", "TraverseFunc", "TraverseSeqFunc", "TraverseSliceFunc", "FlatMapTraverseSeq", "FlatMapTraverseSlice", "FoldM",
	"shared-value",
}

func site(k int) string {
	if strings.HasPrefix(kindName[k], "StateT.") {
		return kindName[k]
	}
	if k == kArg {
		return "statet.Pure"
	}
	if k == kShared {
		return "StateT/shared-value"
	}
	return "statet." + kindName[k]
}

func fallible(k int) bool {
	switch k {
	case kFromTry, kGetST, kModifyT, kMapT, kMapWithStateT, kTransform, kApTry, kApOption, kRecoverT, kRecoverWithStateT, kRecoverCaseT:
		return true
	}
	return false
}

func isRecover(k int) bool { return k >= kRecover && k <= kRecoverCaseWith }

type node struct {
	kind  int
	id    int
	k     int
	mode  int
	fpIdx int // failure point, -1 if none
	size  int // nodes in the subtree
	tok   string
	kids  []*node
	items []int
}

func (n *node) write(b *strings.Builder) {
	fmt.Fprintf(b, "%s#%d", kindName[n.kind], n.id)
	if n.fpIdx >= 0 {
		fmt.Fprintf(b, "!%d", n.fpIdx)
	}
	if n.mode != 0 {
		fmt.Fprintf(b, "/m%d", n.mode)
	}
	if n.items != nil {
		fmt.Fprintf(b, "%v", n.items)
	}
	if len(n.kids) > 0 {
		b.WriteString("(")
		for i, k := range n.kids {
			if i > 0 {
				b.WriteString(", ")
			}
			if k == nil {
				b.WriteString("-")
			} else {
				k.write(b)
			}
		}
		b.WriteString(")")
	}
}

func (n *node) String() string {
	var b strings.Builder
	n.write(&b)
	return b.String()
}

// ---- errors, events, run context --------------------------------------------------------

type progErr struct{ idx int }

func (e *progErr) Error() string { return "injected failure !" + strconv.Itoa(e.idx) }

func errIdx(e error) int {
	if pe, ok := e.(*progErr); ok {
		return pe.idx
	}
	return 0
}

func errStr(e error) string {
	if e == nil {
		return "<nil>"
	}
	return e.Error()
}

type event struct {
	id       int
	tag      byte
	s        string
	a, b     int
	err      error
	optional bool
}

func (e event) String() string {
	o := ""
	if e.optional {
		o = "?"
	}
	return fmt.Sprintf("#%d%c%s(s=%q a=%d b=%d err=%s)", e.id, e.tag, o, e.s, e.a, e.b, errStr(e.err))
}

type rctx struct {
	fails []bool
	errs  []error
	trace []event
	// reference-only observations
	hits        *[nKinds]int64
	failHits    *[nKinds]int64
	firstFail   bool
	firstFailS  string
	recOutcomes map[string]int64
	budget      *vrt.Budget
	record      bool
	visits      []visit
	// library side: the program value built for every kShared node (built once per rctx)
	shared map[*node]ST
	// reference side: how often each shared value was executed in this run
	sharedRuns map[*node]int
	// library side: when false (the normal mode) every caller-owned slice handed to a combinator
	// (Sequence, SequenceIterator's / Traverse's / FoldM's backing slice, the slice spread into
	// Concat's variadic parameter) is overwritten as soon as the call has returned: the program
	// is a value built from the inputs as they were at the call. true = control run.
	keepInputs bool
}

// overwriteST / overwriteInts: the caller re-uses its buffer after the combinator returned.
func (c *rctx) overwriteST(ps []ST) {
	if c.keepInputs {
		return
	}
	for j := range ps {
		j := j
		ps[j] = statet.Run(func(s S) (int, S) {
			c.ev(event{id: -1000 - j, tag: '!', s: s})
			return -7777 - j, s + "<INPUT-SLICE-OVERWRITTEN-AFTER-BUILD>"
		})
	}
}

func (c *rctx) overwriteInts(xs []int) {
	if c.keepInputs {
		return
	}
	for j := range xs {
		xs[j] += 100003
	}
}

// visit: the reference entered node n with argument env in state s (used only to name the
// call site after a mismatch, see blame).
type visit struct {
	n   *node
	env int
	s   string
}

func (c *rctx) ev(e event) {
	if c.budget != nil {
		c.budget.Tick()
	}
	c.trace = append(c.trace, e)
}

func (c *rctx) failing(n *node) bool { return n.fpIdx >= 0 && c.fails[n.fpIdx] }

func hs(s string) int {
	h := uint32(2166136261)
	for i := 0; i < len(s); i++ {
		h = (h ^ uint32(s[i])) * 16777619
	}
	return int(h & 0xffff)
}

func hashList(l []int) int {
	h := 17
	for _, v := range l {
		h = h*31 + v
	}
	return h + len(l)
}

func shifted(items []int, v int) []int {
	out := make([]int, len(items))
	for i, x := range items {
		out[i] = x + v
	}
	return out
}

func defined(n *node, e error) bool { return n.mode == 0 || errIdx(e)%2 == 0 }

// ---- reference interpreter ---------------------------------------------------------------

func (c *rctx) origin(n *node, s string) error {
	// a failure originates here, with the state s current
	if !c.firstFail {
		c.firstFail, c.firstFailS = true, s
	}
	if c.failHits != nil {
		c.failHits[n.kind]++
	}
	return c.errs[n.fpIdx]
}

func (c *rctx) rec(n *node, what string) {
	if c.recOutcomes != nil {
		c.recOutcomes[kindName[n.kind]+"."+what]++
	}
}

// ref returns (value, error, state') of program n started in state s with bound argument env.
func (c *rctx) ref(n *node, env int, s string) (int, error, string) {
	if c.hits != nil {
		c.hits[n.kind]++
	}
	if c.record && len(c.visits) < 600 {
		c.visits = append(c.visits, visit{n, env, s})
	}
	switch n.kind {
	case kPure:
		return n.k, nil, s
	case kArg:
		return env*3 + n.k, nil, s
	case kFromTry:
		if c.failing(n) {
			return 0, c.origin(n, s), s
		}
		return n.k, nil, s
	case kGetS:
		c.ev(event{id: n.id, tag: 'g', s: s})
		return hs(s) + n.k, nil, s
	case kGetST:
		c.ev(event{id: n.id, tag: 'g', s: s})
		if c.failing(n) {
			return 0, c.origin(n, s), s
		}
		return hs(s) ^ n.k, nil, s
	case kRun:
		c.ev(event{id: n.id, tag: 'r', s: s})
		return hs(s) + n.k, nil, s + n.tok
	case kMerge, kModifyS:
		c.ev(event{id: n.id, tag: 'u', s: s})
		return hs(s)*3 + n.k, nil, s + n.tok
	case kPut:
		return n.k, nil, n.tok
	case kPutWith:
		c.ev(event{id: n.id, tag: 'u', s: s, a: n.k})
		return n.k, nil, s + n.tok + ":" + strconv.Itoa(n.k)
	case kModify:
		c.ev(event{id: n.id, tag: 'u', s: s})
		return n.k, nil, s + n.tok
	case kModifyT:
		c.ev(event{id: n.id, tag: 'u', s: s})
		if c.failing(n) {
			return 0, c.origin(n, s), s // the state is not committed
		}
		return n.k, nil, s + n.tok
	case kGet:
		return hs(s) + n.k, nil, s
	case kShared:
		if c.sharedRuns == nil {
			c.sharedRuns = map[*node]int{}
		}
		c.sharedRuns[n]++
		return c.ref(n.kids[0], n.k, s)
	}
	// everything below starts by running kids[0] — except the few handled first
	switch n.kind {
	case kWithState:
		c.ev(event{id: n.id, tag: 'S', s: s})
		next := n.kids[0]
		if hs(s)&1 == 0 && n.kids[1] != nil {
			next = n.kids[1]
		}
		return c.ref(next, hs(s), s)
	case kCompose:
		b, e, s1 := c.ref(n.kids[0], n.k, s)
		if e != nil {
			return 0, e, s1
		}
		c.ev(event{id: n.id, tag: 'c', a: b})
		return c.ref(n.kids[1], b, s1)
	case kConcat:
		vals, e, cur := c.refList(n, env, s)
		if e != nil {
			return 0, e, cur
		}
		return vals[len(vals)-1], nil, cur
	case kSequence, kSequenceIterator, kTraverse, kTraverseSeq, kTraverseSlice, kTraverseFunc, kTraverseSeqFunc, kTraverseSliceFunc, kFlatMapTraverseSeq, kFlatMapTraverseSlice:
		vals, e, cur := c.refList(n, env, s)
		if e != nil {
			return 0, e, cur
		}
		return hashList(vals) + n.k, nil, cur
	case kFoldM:
		vals, e, cur := c.refList(n, env, s)
		if e != nil {
			return 0, e, cur
		}
		return vals[0], nil, cur
	}
	v, e, s1 := c.ref(n.kids[0], env, s)
	switch n.kind {
	case kMap:
		if e != nil {
			return 0, e, s1
		}
		c.ev(event{id: n.id, tag: 'm', a: v})
		return v*5 + n.k, nil, s1
	case kMapT:
		if e != nil {
			return 0, e, s1
		}
		c.ev(event{id: n.id, tag: 'm', a: v})
		if c.failing(n) {
			return 0, c.origin(n, s1), s1
		}
		return v*7 + n.k, nil, s1
	case kMapWithState, kMapWithStateT:
		if e != nil {
			return 0, e, s1
		}
		c.ev(event{id: n.id, tag: 'w', s: s1, a: v})
		if c.failing(n) {
			return 0, c.origin(n, s1), s1
		}
		return hs(s1) ^ (v + n.k), nil, s1
	case kPeekState:
		c.ev(event{id: n.id, tag: 'p', s: s1, optional: e != nil})
		return v, e, s1
	case kTransform:
		c.ev(event{id: n.id, tag: 'T', s: s1, a: v, err: e})
		ns := s1 + n.tok
		if c.failing(n) {
			return 0, c.origin(n, ns), ns
		}
		if e != nil {
			if n.mode == 0 {
				return 0, e, ns
			}
			return n.k, nil, ns
		}
		return v*3 + n.k, nil, ns
	case kTransformWith:
		c.ev(event{id: n.id, tag: 'W', a: v, err: e})
		if e == nil {
			return c.ref(n.kids[1], v, s1)
		}
		if n.kids[2] != nil {
			return c.ref(n.kids[2], n.k, s1)
		}
		return 0, e, s1
	case kReplace:
		if e != nil {
			return 0, e, s1
		}
		return n.k, nil, s1
	case kFlatten:
		if e != nil {
			return 0, e, s1
		}
		c.ev(event{id: n.id, tag: 'x', a: v})
		return c.ref(n.kids[1], v, s1)
	case kApTry, kApOption:
		if e != nil {
			return 0, e, s1
		}
		if c.failing(n) {
			return 0, c.origin(n, s1), s1
		}
		return v*31 + n.k, nil, s1
	case kRecover, kRecoverT, kRecoverWithState, kRecoverWithStateT, kRecoverWith, kRecoverCase, kRecoverCaseT, kRecoverCaseWith:
		if e == nil {
			c.rec(n, "success-untouched")
			return v, nil, s1
		}
		switch n.kind {
		case kRecoverCase, kRecoverCaseT, kRecoverCaseWith:
			if !defined(n, e) {
				c.rec(n, "not-defined-at")
				return 0, e, s1
			}
		}
		switch n.kind {
		case kRecoverWithState, kRecoverWithStateT:
			c.ev(event{id: n.id, tag: 'R', s: s1, err: e})
		default:
			c.ev(event{id: n.id, tag: 'R', err: e})
		}
		if c.failing(n) {
			c.rec(n, "handler-fails")
			return 0, c.origin(n, s1), s1
		}
		c.rec(n, "handled")
		switch n.kind {
		case kRecoverWithState, kRecoverWithStateT:
			return hs(s1) + n.k, nil, s1
		case kRecoverWith, kRecoverCaseWith:
			return c.ref(n.kids[1], n.k, s1)
		}
		return n.k, nil, s1
	case kFlatMap:
		if e != nil {
			return 0, e, s1
		}
		c.ev(event{id: n.id, tag: 'f', a: v})
		next := n.kids[1]
		if n.mode == 1 && v&1 == 0 {
			next = n.kids[2]
		}
		return c.ref(next, v, s1)
	case kFlatMapConst:
		if e != nil {
			return 0, e, s1
		}
		return c.ref(n.kids[1], env, s1)
	case kMap2, kZip, kAp, kApFunc, kFlatMap2:
		if e != nil {
			return 0, e, s1
		}
		b, e2, s2 := c.ref(n.kids[1], env, s1)
		if e2 != nil {
			return 0, e2, s2
		}
		switch n.kind {
		case kMap2:
			c.ev(event{id: n.id, tag: '2', a: v, b: b})
			return v*31 + b*17 + n.k, nil, s2
		case kZip:
			return v*31 + b*17 + n.k, nil, s2
		case kAp, kApFunc:
			return v*31 + b, nil, s2
		}
		c.ev(event{id: n.id, tag: 'F', a: v, b: b})
		return c.ref(n.kids[2], v*31+b, s2)
	case kMap3, kZip3:
		if e != nil {
			return 0, e, s1
		}
		b, e2, s2 := c.ref(n.kids[1], env, s1)
		if e2 != nil {
			return 0, e2, s2
		}
		d, e3, s3 := c.ref(n.kids[2], env, s2)
		if e3 != nil {
			return 0, e3, s3
		}
		if n.kind == kMap3 {
			c.ev(event{id: n.id, tag: '3', a: v, b: b*1000 + d})
		}
		return v*31 + b*17 + d*7 + n.k, nil, s3
	}
	panic("ref: bad kind " + strconv.Itoa(n.kind))
}

// refList is the meaning of the collection-valued combinators before their result is folded
// into an int: the list of element results (FoldM: the one-element list of the accumulator).
func (c *rctx) refList(n *node, env int, s string) ([]int, error, string) {
	switch n.kind {
	case kSequence, kSequenceIterator, kConcat:
		vals := []int{}
		cur := s
		for _, kid := range n.kids {
			v, e, s1 := c.ref(kid, env, cur)
			cur = s1
			if e != nil {
				return nil, e, cur
			}
			vals = append(vals, v)
		}
		return vals, nil, cur
	case kTraverse, kTraverseSeq, kTraverseSlice, kTraverseFunc, kTraverseSeqFunc, kTraverseSliceFunc, kFlatMapTraverseSeq, kFlatMapTraverseSlice:
		items := n.items
		cur := s
		if n.kind == kFlatMapTraverseSeq || n.kind == kFlatMapTraverseSlice {
			v, e, s1 := c.ref(n.kids[1], env, s)
			if e != nil {
				return nil, e, s1
			}
			items, cur = shifted(items, v), s1
		}
		vals := []int{}
		for _, a := range items {
			v, e, s1 := c.ref(n.kids[0], a, cur)
			cur = s1
			if e != nil {
				return nil, e, cur
			}
			vals = append(vals, v)
		}
		return vals, nil, cur
	case kFoldM:
		b := n.k
		cur := s
		for _, a := range n.items {
			v, e, s1 := c.ref(n.kids[0], b*3+a, cur)
			cur = s1
			if e != nil {
				return nil, e, cur
			}
			b = v
		}
		return []int{b}, nil, cur
	}
	panic("refList: bad kind " + strconv.Itoa(n.kind))
}

// ---- library program ----------------------------------------------------------------------

func mkFn(a int) fp.Func1[int, int] { return func(b int) int { return a*31 + b } }

func tryOf(c *rctx, n *node, ok int) fp.Try[int] {
	if c.failing(n) {
		return try.Failure[int](c.errs[n.fpIdx])
	}
	return try.Success(ok)
}

func unitAdapt(u fp.StateT[S, fp.Unit], n *node) ST {
	switch n.mode % 3 {
	case 0:
		return statet.Replace(u, n.k)
	case 1:
		return statet.Map(u, func(fp.Unit) int { return n.k })
	}
	return statet.FlatMapConst(u, statet.Pure[S](n.k))
}

func (c *rctx) build(n *node, env int) ST {
	switch n.kind {
	case kPure:
		return statet.Pure[S](n.k)
	case kArg:
		return statet.Pure[S](env*3 + n.k)
	case kFromTry:
		return statet.FromTry[S](tryOf(c, n, n.k))
	case kGetS:
		return statet.GetS(func(s S) int { c.ev(event{id: n.id, tag: 'g', s: s}); return hs(s) + n.k })
	case kGetST:
		return statet.GetST(func(s S) fp.Try[int] { c.ev(event{id: n.id, tag: 'g', s: s}); return tryOf(c, n, hs(s)^n.k) })
	case kRun:
		return statet.Run(func(s S) (int, S) { c.ev(event{id: n.id, tag: 'r', s: s}); return hs(s) + n.k, s + n.tok })
	case kMerge:
		return statet.Merge(func(s S) S { c.ev(event{id: n.id, tag: 'u', s: s}); return s + n.tok }, func(s S) int { return hs(s)*3 + n.k })
	case kModifyS:
		return statet.ModifyS(func(s S) S { c.ev(event{id: n.id, tag: 'u', s: s}); return s + n.tok }, func(s S) int { return hs(s)*3 + n.k })
	case kPut:
		return unitAdapt(statet.Put[S](n.tok), n)
	case kPutWith:
		return unitAdapt(statet.PutWith(func(s S, v int) S {
			c.ev(event{id: n.id, tag: 'u', s: s, a: v})
			return s + n.tok + ":" + strconv.Itoa(v)
		})(n.k), n)
	case kModify:
		return unitAdapt(statet.Modify(func(s S) S { c.ev(event{id: n.id, tag: 'u', s: s}); return s + n.tok }), n)
	case kModifyT:
		return unitAdapt(statet.ModifyT(func(s S) fp.Try[S] {
			c.ev(event{id: n.id, tag: 'u', s: s})
			if c.failing(n) {
				return try.Failure[S](c.errs[n.fpIdx])
			}
			return try.Success(s + n.tok)
		}), n)
	case kGet:
		return statet.Map(statet.Get[S](), func(s S) int { return hs(s) + n.k })
	case kShared:
		// the program value is built once (argument n.k) and the same value is returned for
		// every position it is used at — also from continuations that run later
		if p, ok := c.shared[n]; ok {
			return p
		}
		p := c.build(n.kids[0], n.k)
		if c.shared == nil {
			c.shared = map[*node]ST{}
		}
		c.shared[n] = p
		return p
	case kWithState:
		return statet.WithState(func(s S) ST {
			c.ev(event{id: n.id, tag: 'S', s: s})
			next := n.kids[0]
			if hs(s)&1 == 0 && n.kids[1] != nil {
				next = n.kids[1]
			}
			return c.build(next, hs(s))
		})
	case kCompose:
		return statet.Compose(func(a int) ST { return c.build(n.kids[0], a) }, func(b int) ST {
			c.ev(event{id: n.id, tag: 'c', a: b})
			return c.build(n.kids[1], b)
		})(n.k)
	case kSequence:
		ps := make([]ST, len(n.kids))
		for i, kid := range n.kids {
			ps[i] = c.build(kid, env)
		}
		q := statet.Sequence(ps)
		c.overwriteST(ps)
		return statet.Map(q, func(l []int) int { return hashList(l) + n.k })
	case kSequenceIterator:
		ps := make([]ST, len(n.kids))
		for i, kid := range n.kids {
			ps[i] = c.build(kid, env)
		}
		q := statet.SequenceIterator(iterator.FromSeq(ps))
		c.overwriteST(ps)
		return statet.Map(q, func(it fp.Iterator[int]) int { return hashList(it.ToSeq()) + n.k })
	case kConcat:
		ps := make([]ST, len(n.kids))
		for i, kid := range n.kids {
			ps[i] = c.build(kid, env)
		}
		q := statet.Concat(ps[0], ps[1:]...) // the variadic parameter IS ps[1:]
		c.overwriteST(ps)
		return q
	case kTraverse, kTraverseFunc:
		fn := func(a int) ST { return c.build(n.kids[0], a) }
		var r fp.StateT[S, fp.Iterator[int]]
		its := append([]int(nil), n.items...)
		if n.kind == kTraverse {
			r = statet.Traverse(iterator.FromSeq(its), fn)
		} else {
			r = statet.TraverseFunc[S](fn)(iterator.FromSeq(its))
		}
		c.overwriteInts(its)
		return statet.Map(r, func(it fp.Iterator[int]) int { return hashList(it.ToSeq()) + n.k })
	case kTraverseSeq, kTraverseSeqFunc:
		fn := func(a int) ST { return c.build(n.kids[0], a) }
		var r fp.StateT[S, fp.Seq[int]]
		its := append([]int(nil), n.items...)
		if n.kind == kTraverseSeq {
			r = statet.TraverseSeq(fp.Seq[int](its), fn)
		} else {
			r = statet.TraverseSeqFunc[S](fn)(fp.Seq[int](its))
		}
		c.overwriteInts(its)
		return statet.Map(r, func(l fp.Seq[int]) int { return hashList(l) + n.k })
	case kTraverseSlice, kTraverseSliceFunc:
		fn := func(a int) ST { return c.build(n.kids[0], a) }
		var r fp.StateT[S, []int]
		its := append([]int(nil), n.items...)
		if n.kind == kTraverseSlice {
			r = statet.TraverseSlice(its, fn)
		} else {
			r = statet.TraverseSliceFunc[S](fn)(its)
		}
		c.overwriteInts(its)
		return statet.Map(r, func(l []int) int { return hashList(l) + n.k })
	case kFlatMapTraverseSeq:
		ta := statet.Map(c.build(n.kids[1], env), func(v int) fp.Seq[int] { return fp.Seq[int](shifted(n.items, v)) })
		r := statet.FlatMapTraverseSeq(ta, func(a int) ST { return c.build(n.kids[0], a) })
		return statet.Map(r, func(l fp.Seq[int]) int { return hashList(l) + n.k })
	case kFlatMapTraverseSlice:
		ta := statet.Map(c.build(n.kids[1], env), func(v int) []int { return shifted(n.items, v) })
		r := statet.FlatMapTraverseSlice(ta, func(a int) ST { return c.build(n.kids[0], a) })
		return statet.Map(r, func(l []int) int { return hashList(l) + n.k })
	case kFoldM:
		its := append([]int(nil), n.items...)
		q := statet.FoldM(iterator.FromSeq(its), n.k, func(b, a int) ST { return c.build(n.kids[0], b*3+a) })
		c.overwriteInts(its)
		return q
	}
	p := c.build(n.kids[0], env)
	switch n.kind {
	case kMap:
		return statet.Map(p, func(v int) int { c.ev(event{id: n.id, tag: 'm', a: v}); return v*5 + n.k })
	case kMapT:
		return statet.MapT(p, func(v int) fp.Try[int] { c.ev(event{id: n.id, tag: 'm', a: v}); return tryOf(c, n, v*7+n.k) })
	case kMapWithState:
		return statet.MapWithState(p, func(s S, v int) int { c.ev(event{id: n.id, tag: 'w', s: s, a: v}); return hs(s) ^ (v + n.k) })
	case kMapWithStateT:
		return statet.MapWithStateT(p, func(s S, v int) fp.Try[int] {
			c.ev(event{id: n.id, tag: 'w', s: s, a: v})
			return tryOf(c, n, hs(s)^(v+n.k))
		})
	case kPeekState:
		return statet.PeekState(p, func(s S) { c.ev(event{id: n.id, tag: 'p', s: s}) })
	case kTransform:
		return statet.Transform(p, func(s S, t fp.Try[int]) (S, fp.Try[int]) {
			ev := event{id: n.id, tag: 'T', s: s}
			if t.IsSuccess() {
				ev.a = t.Get()
			} else {
				ev.err = t.Failed().Get()
			}
			c.ev(ev)
			ns := s + n.tok
			if c.failing(n) {
				return ns, try.Failure[int](c.errs[n.fpIdx])
			}
			if t.IsFailure() {
				if n.mode == 0 {
					return ns, t
				}
				return ns, try.Success(n.k)
			}
			return ns, try.Success(t.Get()*3 + n.k)
		})
	case kTransformWith:
		return statet.TransformWith(p, func(t fp.Try[int]) ST {
			if t.IsSuccess() {
				c.ev(event{id: n.id, tag: 'W', a: t.Get()})
				return c.build(n.kids[1], t.Get())
			}
			c.ev(event{id: n.id, tag: 'W', err: t.Failed().Get()})
			if n.kids[2] != nil {
				return c.build(n.kids[2], n.k)
			}
			return statet.FromTry[S](t)
		})
	case kReplace:
		return statet.Replace(p, n.k)
	case kFlatten:
		return statet.Flatten(statet.Map(p, func(v int) ST {
			c.ev(event{id: n.id, tag: 'x', a: v})
			return c.build(n.kids[1], v)
		}))
	case kApTry:
		return statet.ApTry(statet.Map(p, mkFn), tryOf(c, n, n.k))
	case kApOption:
		o := fp.Some(n.k)
		if c.failing(n) {
			o = fp.None[int]()
		}
		return statet.ApOption(statet.Map(p, mkFn), o)
	case kRecover:
		return p.Recover(func(err error) int { c.ev(event{id: n.id, tag: 'R', err: err}); return n.k })
	case kRecoverT:
		return p.RecoverT(func(err error) fp.Try[int] { c.ev(event{id: n.id, tag: 'R', err: err}); return tryOf(c, n, n.k) })
	case kRecoverWithState:
		return p.RecoverWithState(func(s S, err error) int { c.ev(event{id: n.id, tag: 'R', s: s, err: err}); return hs(s) + n.k })
	case kRecoverWithStateT:
		return p.RecoverWithStateT(func(s S, err error) fp.Try[int] {
			c.ev(event{id: n.id, tag: 'R', s: s, err: err})
			return tryOf(c, n, hs(s)+n.k)
		})
	case kRecoverWith:
		return p.RecoverWith(func(err error) ST { c.ev(event{id: n.id, tag: 'R', err: err}); return c.build(n.kids[1], n.k) })
	case kRecoverCase:
		return p.RecoverCase(func(err error) bool { return defined(n, err) }, func(err error) int {
			c.ev(event{id: n.id, tag: 'R', err: err})
			return n.k
		})
	case kRecoverCaseT:
		return p.RecoverCaseT(func(err error) bool { return defined(n, err) }, func(err error) fp.Try[int] {
			c.ev(event{id: n.id, tag: 'R', err: err})
			return tryOf(c, n, n.k)
		})
	case kRecoverCaseWith:
		return p.RecoverCaseWith(func(err error) bool { return defined(n, err) }, func(err error) ST {
			c.ev(event{id: n.id, tag: 'R', err: err})
			return c.build(n.kids[1], n.k)
		})
	case kFlatMap:
		return statet.FlatMap(p, func(v int) ST {
			c.ev(event{id: n.id, tag: 'f', a: v})
			next := n.kids[1]
			if n.mode == 1 && v&1 == 0 {
				next = n.kids[2]
			}
			return c.build(next, v)
		})
	case kFlatMapConst:
		return statet.FlatMapConst(p, c.build(n.kids[1], env))
	case kMap2:
		return statet.Map2(p, c.build(n.kids[1], env), func(a, b int) int {
			c.ev(event{id: n.id, tag: '2', a: a, b: b})
			return a*31 + b*17 + n.k
		})
	case kZip:
		return statet.Map(statet.Zip(p, c.build(n.kids[1], env)), func(t fp.Tuple2[int, int]) int { return t.I1*31 + t.I2*17 + n.k })
	case kAp:
		return statet.Ap(statet.Map(p, mkFn), c.build(n.kids[1], env))
	case kApFunc:
		return statet.ApFunc(statet.Map(p, mkFn), func() ST { return c.build(n.kids[1], env) })
	case kFlatMap2:
		return statet.FlatMap2(p, c.build(n.kids[1], env), func(a, b int) ST {
			c.ev(event{id: n.id, tag: 'F', a: a, b: b})
			return c.build(n.kids[2], a*31+b)
		})
	case kMap3:
		return statet.Map3(p, c.build(n.kids[1], env), c.build(n.kids[2], env), func(a, b, d int) int {
			c.ev(event{id: n.id, tag: '3', a: a, b: b*1000 + d})
			return a*31 + b*17 + d*7 + n.k
		})
	case kZip3:
		return statet.Map(statet.Zip3(p, c.build(n.kids[1], env), c.build(n.kids[2], env)), func(t fp.Tuple3[int, int, int]) int {
			return t.I1*31 + t.I2*17 + t.I3*7 + n.k
		})
	}
	panic("build: bad kind " + strconv.Itoa(n.kind))
}

// ---- generator ----------------------------------------------------------------------------

type pgen struct {
	r      *rand.Rand
	budget int
	nextID int
	errs   []error
	fpKind []int
	maxDep int
	// sharing of program values
	share      bool
	pool       []*node
	sharedUses int   // positions filled with an already bound value
	dups       []int // kinds whose operands are one and the same value
}

var leafKinds = []int{kPure, kArg, kFromTry, kFromTry, kGetS, kGetST, kGetST, kRun, kRun, kMerge, kModifyS, kPut, kPut, kPutWith, kModify, kModify, kModifyT, kModifyT, kGet}

func (g *pgen) newNode(kind int) *node {
	n := &node{kind: kind, id: g.nextID, k: g.r.IntN(19) - 9, fpIdx: -1}
	g.nextID++
	g.budget--
	n.tok = "|" + strconv.Itoa(n.id)
	if kind == kPut {
		n.tok = "P" + strconv.Itoa(n.id)
	}
	if fallible(kind) {
		n.fpIdx = len(g.errs)
		g.fpKind = append(g.fpKind, kind)
		if kind == kApOption {
			g.errs = append(g.errs, fp.ErrOptionEmpty)
		} else {
			g.errs = append(g.errs, &progErr{idx: n.fpIdx})
		}
	}
	return n
}

func (g *pgen) items() []int {
	m := g.r.IntN(4)
	if g.r.IntN(6) == 0 {
		m = 4 + g.r.IntN(3)
	}
	out := make([]int, m)
	for i := range out {
		out[i] = g.r.IntN(9) - 4
	}
	return out
}

// gen returns the program for one position. With sharing switched on (g.share) a position
// may be filled with a program VALUE that was bound earlier (kShared, the same node and — on
// the library side — the same fp.StateT), and a freshly generated program may be bound for
// later use. Only completed subtrees enter the pool, so the structure stays acyclic.
func (g *pgen) gen(depth int) *node {
	r := g.r
	if g.share && len(g.pool) > 0 && r.IntN(5) == 0 {
		g.sharedUses++
		return g.pool[r.IntN(len(g.pool))]
	}
	n := g.gen1(depth)
	if g.share && r.IntN(5) == 0 {
		return g.bind(n)
	}
	return n
}

// bind turns n into a shared program value (built once with the fixed argument sh.k).
func (g *pgen) bind(n *node) *node {
	if n.kind == kShared {
		return n
	}
	sh := g.newNode(kShared)
	g.budget++ // binding is not a step of the program
	sh.k = g.r.IntN(5) - 2
	sh.kids = []*node{n}
	g.pool = append(g.pool, sh)
	return sh
}

func (g *pgen) gen1(depth int) *node {
	r := g.r
	if g.budget <= 1 || depth >= g.maxDep || r.IntN(6) == 0 {
		n := g.newNode(leafKinds[r.IntN(len(leafKinds))])
		n.mode = r.IntN(3)
		return n
	}
	kind := kMap + r.IntN(kShared-kMap)
	n := g.newNode(kind)
	g.fill(n, depth)
	return n
}

// fill generates the operands of a combinator node.
func (g *pgen) fill(n *node, depth int) {
	r := g.r
	kind := n.kind
	kid := func() *node { return g.gen(depth + 1) }
	optKid := func() *node {
		if r.IntN(3) == 0 {
			return nil
		}
		return g.gen(depth + 1)
	}
	// dup: the SAME program value at two (or more) positions of this combinator
	dup := g.share && r.IntN(4) == 0
	same := func(times int) []*node {
		sh := g.bind(g.gen(depth + 1))
		out := make([]*node, times)
		for i := range out {
			out[i] = sh
		}
		g.sharedUses += times - 1
		g.dups = append(g.dups, kind)
		return out
	}
	switch kind {
	case kMap, kMapT, kMapWithState, kMapWithStateT, kPeekState, kReplace, kApTry, kApOption,
		kRecover, kRecoverT, kRecoverWithState, kRecoverWithStateT:
		n.kids = []*node{kid()}
	case kRecoverCase, kRecoverCaseT:
		n.mode = r.IntN(2)
		n.kids = []*node{kid()}
	case kTransform:
		n.mode = r.IntN(2)
		n.kids = []*node{kid()}
	case kTransformWith:
		if dup { // the failure branch retries the program itself
			k := same(2)
			n.kids = []*node{k[0], kid(), k[1]}
		} else {
			n.kids = []*node{kid(), kid(), optKid()}
		}
	case kFlatten, kRecoverWith, kFlatMapConst, kMap2, kZip, kAp, kApFunc, kCompose:
		if dup && kind != kCompose { // both operands / the program as its own recovery
			n.kids = same(2)
		} else {
			n.kids = []*node{kid(), kid()}
		}
	case kRecoverCaseWith:
		n.mode = r.IntN(2)
		if dup {
			n.kids = same(2)
		} else {
			n.kids = []*node{kid(), kid()}
		}
	case kWithState:
		n.kids = []*node{kid(), optKid()}
	case kFlatMap:
		n.mode = r.IntN(2)
		if dup {
			n.kids = same(2 + n.mode)
		} else {
			n.kids = []*node{kid(), kid()}
			if n.mode == 1 {
				n.kids = append(n.kids, kid())
			}
		}
	case kFlatMap2, kMap3, kZip3:
		if dup {
			n.kids = same(3)
		} else {
			n.kids = []*node{kid(), kid(), kid()}
		}
	case kSequence, kSequenceIterator:
		m := r.IntN(4)
		if dup {
			n.kids = same(2 + r.IntN(2))
		} else {
			for i := 0; i < m; i++ {
				n.kids = append(n.kids, kid())
			}
		}
	case kConcat:
		m := 1 + r.IntN(4)
		if dup {
			n.kids = same(2 + r.IntN(2))
		} else {
			for i := 0; i < m; i++ {
				n.kids = append(n.kids, kid())
			}
		}
	case kTraverse, kTraverseSeq, kTraverseSlice, kTraverseFunc, kTraverseSeqFunc, kTraverseSliceFunc, kFoldM:
		n.items = g.items()
		n.kids = []*node{kid()}
	case kFlatMapTraverseSeq, kFlatMapTraverseSlice:
		n.items = g.items()
		n.kids = []*node{kid(), kid()}
	default:
		panic("gen: kind " + strconv.Itoa(kind))
	}
}

// ---- comparison ---------------------------------------------------------------------------

func sameTrace(got, want []event) (bool, string) {
	i, j := 0, 0
	for i < len(got) || j < len(want) {
		if i < len(got) && j < len(want) {
			g, w := got[i], want[j]
			if g.id == w.id && g.tag == w.tag && g.s == w.s && g.a == w.a && g.b == w.b && g.err == w.err {
				i++
				j++
				continue
			}
		}
		if j < len(want) && want[j].optional {
			j++
			continue
		}
		gs, ws := "<end>", "<end>"
		if i < len(got) {
			gs = got[i].String()
		}
		if j < len(want) {
			ws = want[j].String()
		}
		return false, fmt.Sprintf("callback #%d: library %s, reference %s", i, gs, ws)
	}
	return true, ""
}

func traceStr(t []event) string {
	var b strings.Builder
	for i, e := range t {
		if i > 0 {
			b.WriteString(" ")
		}
		if i > 40 {
			b.WriteString("…")
			break
		}
		b.WriteString(e.String())
	}
	return b.String()
}

func tryStr(t fp.Try[int]) string {
	if t.IsSuccess() {
		return "Success(" + strconv.Itoa(t.Get()) + ")"
	}
	return "Failure(" + errStr(t.Failed().Get()) + ")"
}

func refStr(v int, e error) string {
	if e == nil {
		return "Success(" + strconv.Itoa(v) + ")"
	}
	return "Failure(" + errStr(e) + ")"
}

func sameTry(t fp.Try[int], v int, e error) bool {
	if e == nil {
		return t.IsSuccess() && t.Get() == v
	}
	return t.IsFailure() && t.Failed().Get() == e
}

func setSizes(n *node) int {
	if n == nil {
		return 0
	}
	n.size = 1
	for _, k := range n.kids {
		n.size += setSizes(k)
	}
	return n.size
}

// compareOnce builds subtree n alone (argument env) ONCE and executes that program value
// `runs` times from state s, in the library and in the reference. A disagreement of a later
// execution is reported as what == "rerun-differs".
func compareOnce(n *node, env int, s string, fails []bool, errs []error, runs int, keepInputs bool) (ok bool, what, detail string) {
	defer func() {
		if r := recover(); r != nil {
			ok, what, detail = false, "panic", fmt.Sprint(r)
		}
	}()
	lc := &rctx{fails: fails, errs: errs, keepInputs: keepInputs}
	p := lc.build(n, env)
	for x := 0; x < runs; x++ {
		rc := &rctx{fails: fails, errs: errs}
		wv, werr, ws := rc.ref(n, env, s)
		lc.trace = nil
		lc.budget = vrt.NewBudget(int64(len(rc.trace)*4+64), "callbacks of one StateT run")
		lt, ls := p.Run(s)
		nth := ""
		if x > 0 {
			nth = fmt.Sprintf(" (execution #%d of the same program value)", x+1)
		}
		mis := func(w string) string {
			if x > 0 {
				return "rerun-differs"
			}
			return w
		}
		if !sameTry(lt, wv, werr) {
			return false, mis("result"), fmt.Sprintf("%s.Run(%q)%s result %s, reference %s (state %q / %q)", n, s, nth, tryStr(lt), refStr(wv, werr), ls, ws)
		}
		if ls != ws {
			return false, mis("state"), fmt.Sprintf("%s.Run(%q)%s = %s with final state %q, reference state %q", n, s, nth, tryStr(lt), ls, ws)
		}
		if same, why := sameTrace(lc.trace, rc.trace); !same {
			return false, mis("callbacks"), fmt.Sprintf("%s.Run(%q)%s: %s", n, s, nth, why)
		}
	}
	return true, "", ""
}

// blame names the call site of a mismatch: among the (node, argument, state) visits the
// reference made, the smallest subtree that already disagrees when built on its own and
// executed `runs` times. The expected values always come from the reference; the library is
// only re-run.
func blame(visits []visit, fails []bool, errs []error, runs int) (site_ string, what, detail string, found bool) {
	best := -1
	for i, v := range visits {
		if best >= 0 && v.n.size >= visits[best].n.size {
			continue
		}
		if ok, _, _ := compareOnce(v.n, v.env, v.s, fails, errs, runs, false); !ok {
			best = i
		}
	}
	if best < 0 {
		return "", "", "", false
	}
	v := visits[best]
	_, what, detail = compareOnce(v.n, v.env, v.s, fails, errs, runs, false)
	// control: the same sub-program with the caller's input slices left alone after the build.
	// If that agrees, the program read its input slice after it was built; if not, the
	// control's verdict names the defect (it does not depend on what the harness wrote).
	if cok, cwhat, cdetail := compareOnce(v.n, v.env, v.s, fails, errs, runs, true); cok {
		what = "reads-input-after-build"
		detail += "\n(the slice handed to the combinator was overwritten by its owner when the call had returned; with the slice left alone the same program agrees with the reference on every execution)"
	} else {
		what, detail = cwhat, cdetail
	}
	return siteOfNode(v.n), what, "smallest disagreeing sub-program: " + detail, true
}

// siteOfNode: the call site that produced the program value n (a shared value is the value
// of the program it binds).
func siteOfNode(n *node) string {
	for n.kind == kShared {
		n = n.kids[0]
	}
	return site(n.kind)
}

type checker struct {
	w    *vrt.W
	i    int
	root *node
	desc string
	bad  bool
}

func (k *checker) fail(key, detail string, wit map[string]any) {
	if k.bad {
		return
	}
	k.bad = true
	k.w.Violation(k.i, key, detail+"\nprogram: "+k.desc, wit)
}

// ---- one case -----------------------------------------------------------------------------

var (
	hits     [nKinds]int64
	failHits [nKinds]int64
	recOut   = map[string]int64{}
)

var statePool = []string{"", "s", "init", "Q7", "|0", "P1"}

func failStr(f []bool) string {
	var b strings.Builder
	for _, x := range f {
		if x {
			b.WriteByte('1')
		} else {
			b.WriteByte('0')
		}
	}
	return b.String()
}

// refRun: what the reference says about the program started in one initial state.
type refRun struct {
	s   string // initial state
	v   int
	err error
	fs  string // final state
	rc  *rctx
}

// execOp: one execution of a program value — method Run / Exec ('X') / Eval ('V') from
// initial state number st.
type execOp struct {
	m  byte
	st int
}

type keptRes struct {
	t  fp.Try[int]
	s  string
	et fp.Try[string]
}

var methodName = map[byte]string{'R': "Run", 'X': "Exec", 'V': "Eval"}

// execAgrees executes p once as op says and reports whether result, state and callback log
// agree with the reference run rr (used only to tell apart "wrong" from "wrong when executed
// again").
func execAgrees(p ST, lc *rctx, op execOp, rr refRun) (ok bool) {
	defer func() {
		if r := recover(); r != nil {
			ok = false
		}
	}()
	lc.trace = nil
	lc.budget = vrt.NewBudget(int64(len(rr.rc.trace)*4+64), "callbacks of one StateT run")
	switch op.m {
	case 'R':
		lt, ls := p.Run(rr.s)
		if !sameTry(lt, rr.v, rr.err) || ls != rr.fs {
			return false
		}
	case 'X':
		et := p.Exec(rr.s)
		if rr.err == nil {
			if !et.IsSuccess() || et.Get() != rr.fs {
				return false
			}
		} else if !et.IsFailure() || et.Failed().Get() != rr.err {
			return false
		}
	case 'V':
		if !sameTry(p.Eval(rr.s), rr.v, rr.err) {
			return false
		}
	}
	same, _ := sameTrace(lc.trace, rr.rc.trace)
	return same
}

func runProgramCase(w *vrt.W, i int) {
	r := w.Rand(i)
	maxSize := 8
	if w.Tier == "thorough" {
		maxSize = 16
	}
	var g *pgen
	var root *node
	for try := 0; ; try++ {
		g = &pgen{r: r, budget: 2 + r.IntN(maxSize-1), maxDep: 2 + r.IntN(4), share: true}
		root = g.gen(0)
		if len(g.errs) > 0 || try > 20 {
			break
		}
	}
	setSizes(root)
	desc := root.String()
	s0 := statePool[r.IntN(len(statePool))]
	states := []string{s0, randState(r), randState(r)}
	env0 := r.IntN(5) - 2
	nfp := len(g.errs)
	// variants: none, each single position, two PRNG subsets
	var variants [][]bool
	variants = append(variants, make([]bool, nfp))
	for j := 0; j < nfp; j++ {
		f := make([]bool, nfp)
		f[j] = true
		variants = append(variants, f)
	}
	// a failing Recover handler is only reached after another failure: pair it with each
	// other position (at most 8 pairs)
	pairs := 0
	for h := 0; h < nfp && pairs < 8; h++ {
		if !isRecover(g.fpKind[h]) {
			continue
		}
		for j := 0; j < nfp && pairs < 8; j++ {
			if j == h {
				continue
			}
			f := make([]bool, nfp)
			f[h], f[j] = true, true
			variants = append(variants, f)
			pairs++
		}
	}
	if nfp >= 2 {
		for x := 0; x < 2; x++ {
			f := make([]bool, nfp)
			for j := range f {
				f[j] = r.IntN(3) == 0
			}
			variants = append(variants, f)
		}
	}
	recK := r.IntN(19) - 9
	ck := &checker{w: w, i: i, root: root, desc: desc}
	rootSite := siteOfNode(root)
	w.Begin(i, rootSite)
	var noFailState string
	sampled := false
	sharedTwice := false
	for vi, fails := range variants {
		if ck.bad {
			break
		}
		// the executions of this variant's program value: Run, Exec, Eval from the first
		// initial state, Run from the second, two more PRNG ones — in PRNG order
		ops := []execOp{{'R', 0}, {'X', 0}, {'V', 0}, {'R', 1}, {"RXV"[r.IntN(3)], 2}, {"RXV"[r.IntN(3)], r.IntN(3)}}
		r.Shuffle(len(ops), func(a, b int) { ops[a], ops[b] = ops[b], ops[a] })
		flip := r.IntN(2) == 1
		var sched strings.Builder
		for _, op := range ops {
			fmt.Fprintf(&sched, "%s(%q) ", methodName[op.m], states[op.st])
		}
		wit := map[string]any{"program": desc, "initial_states": states, "arg": env0, "failing_points": failStr(fails), "nodes": g.nextID,
			"executions_of_the_one_program_value": strings.TrimSpace(sched.String())}
		witf := func() any { return wit }
		w.Guard(i, witf, func() {
			refs := make([]refRun, len(states))
			for k, st := range states {
				c := &rctx{fails: fails, errs: g.errs, record: true}
				if k == 0 {
					c.hits, c.failHits, c.recOutcomes = &hits, &failHits, recOut
				}
				v, e, fs := c.ref(root, env0, st)
				refs[k] = refRun{st, v, e, fs, c}
			}
			rc := refs[0].rc
			wv, werr, ws := refs[0].v, refs[0].err, refs[0].fs
			if vi == 0 {
				noFailState = ws
			}
			w.Add("runs", 1)
			if werr != nil {
				w.Add("runs.top_level_failure", 1)
			}
			if rc.firstFail {
				w.Add("runs.with_failure", 1)
				if werr == nil {
					w.Add("runs.failure_recovered", 1)
				}
			}
			for _, c := range rc.sharedRuns {
				if c >= 2 {
					w.Add("runs.shared_value_executed_twice_or_more_in_one_run", 1)
					sharedTwice = true
					break
				}
			}
			// ONE program value per failure set; everything below executes this value
			lc := &rctx{fails: fails, errs: g.errs}
			w.Site(rootSite)
			p := lc.build(root, env0)
			w.Add("program_values", 1)
			kept := make([]keptRes, len(ops))
			for x, op := range ops {
				rr := refs[op.st]
				lc.trace = nil
				lc.budget = vrt.NewBudget(int64(len(rr.rc.trace)*4+64), "callbacks of one StateT run")
				nth := fmt.Sprintf("execution #%d of the program value: ", x+1)
				// attribute: the smallest sub-program that disagrees when freshly built and run
				// once; for a later execution, the smallest one that disagrees when built once
				// and run twice; otherwise the key of the method / the root
				attribute := func(what, plainKey, detail string) {
					// x+1 executions of every sub-program value built on its own: finds what
					// disagrees at once and what disagrees only when executed again
					runs := x + 1
					if runs < 2 {
						runs = 2
					}
					if bs, bw, bd, ok := blame(rr.rc.visits, fails, g.errs, runs); ok {
						ck.fail(bs+"/"+bw, nth+detail+"\n"+bd, wit)
						return
					}
					if x > 0 {
						// not a matter of re-execution when a freshly built value disagrees
						// on this very execution too
						fc := &rctx{fails: fails, errs: g.errs}
						if execAgrees(fc.build(root, env0), fc, op, rr) {
							ck.fail(rootSite+"/rerun-differs", nth+detail+"\n(a freshly built value of the same program agrees with the reference on this execution, and so does every sub-program built on its own)", wit)
							return
						}
					}
					ck.fail(plainKey, nth+detail, wit)
				}
				w.Add("executions", 1)
				if x > 0 {
					w.Add("executions.of_an_already_executed_value", 1)
				}
				if op.st != 0 {
					w.Add("executions.from_another_initial_state", 1)
				}
				switch op.m {
				case 'R':
					w.Site(rootSite)
					lt, ls := p.Run(rr.s)
					kept[x] = keptRes{t: lt, s: ls}
					if !sameTry(lt, rr.v, rr.err) {
						attribute("result", rootSite+"/result", fmt.Sprintf("Run(%q) result %s, reference %s (state %q / %q)", rr.s, tryStr(lt), refStr(rr.v, rr.err), ls, rr.fs))
						return
					}
					if ls != rr.fs {
						attribute("state", rootSite+"/state", fmt.Sprintf("Run(%q) = %s with final state %q, reference state %q", rr.s, tryStr(lt), ls, rr.fs))
						return
					}
					if ok, why := sameTrace(lc.trace, rr.rc.trace); !ok {
						attribute("callbacks", rootSite+"/callbacks", fmt.Sprintf("Run(%q): %s\nlibrary:   %s\nreference: %s", rr.s, why, traceStr(lc.trace), traceStr(rr.rc.trace)))
						return
					}
				case 'X':
					w.Site("StateT.Exec")
					et := p.Exec(rr.s)
					kept[x] = keptRes{et: et}
					if rr.err == nil {
						if !et.IsSuccess() || et.Get() != rr.fs {
							attribute("state", "StateT.Exec/result", fmt.Sprintf("Exec(%q) = %v, reference Success(%q)", rr.s, et, rr.fs))
							return
						}
					} else if !et.IsFailure() || et.Failed().Get() != rr.err {
						attribute("result", "StateT.Exec/result", fmt.Sprintf("Exec(%q) = %v, reference Failure(%s)", rr.s, et, errStr(rr.err)))
						return
					}
					if ok, why := sameTrace(lc.trace, rr.rc.trace); !ok {
						attribute("callbacks", "StateT.Exec/callbacks", "Exec: "+why)
						return
					}
				case 'V':
					w.Site("StateT.Eval")
					vt := p.Eval(rr.s)
					kept[x] = keptRes{t: vt}
					if !sameTry(vt, rr.v, rr.err) {
						attribute("result", "StateT.Eval/result", fmt.Sprintf("Eval(%q) = %s, reference %s", rr.s, tryStr(vt), refStr(rr.v, rr.err)))
						return
					}
					if ok, why := sameTrace(lc.trace, rr.rc.trace); !ok {
						attribute("callbacks", "StateT.Eval/callbacks", "Eval: "+why)
						return
					}
				}
			}
			// earlier results once more, after all later executions
			for x, op := range ops {
				rr := refs[op.st]
				okk := true
				switch op.m {
				case 'R':
					okk = sameTry(kept[x].t, rr.v, rr.err) && kept[x].s == rr.fs
				case 'V':
					okk = sameTry(kept[x].t, rr.v, rr.err)
				case 'X':
					if rr.err == nil {
						okk = kept[x].et.IsSuccess() && kept[x].et.Get() == rr.fs
					} else {
						okk = kept[x].et.IsFailure() && kept[x].et.Failed().Get() == rr.err
					}
				}
				if !okk {
					ck.fail(rootSite+"/earlier-result-changed", fmt.Sprintf("the result of execution #%d (%s from %q) agreed with the reference when it was returned and no longer does after the later executions", x+1, methodName[op.m], rr.s), wit)
					return
				}
			}
			w.Add("runs.exec_eval", 2)
			// the eight Recover variants over the same program VALUE, equivalent handlers
			two := []refRun{refs[0], refs[1]}
			if flip {
				two[0], two[1] = two[1], two[0]
			}
			fresh := func() (ST, *rctx) {
				fc := &rctx{fails: fails, errs: g.errs}
				return fc.build(root, env0), fc
			}
			recoverAll(ck, p, lc, two, recK, wit, fresh, func(rr refRun, key, detail string) {
				// a wrapper can only be as good as the value it wraps: if a sub-program value,
				// built on its own and executed as often as p has been by now, disagrees with
				// the reference, that is the site
				if bs, bw, bd, ok := blame(rr.rc.visits, fails, g.errs, len(ops)+17); ok {
					ck.fail(bs+"/"+bw, detail+"\n"+bd, wit)
					return
				}
				ck.fail(key, detail, wit)
			})
			// non-trivial: a failure happened when the state had already changed and it cut
			// off a later state change
			if rc.firstFail && rc.firstFailS != s0 && ws != noFailState {
				w.Distinct(desc + "@" + s0 + "@" + strconv.Itoa(env0) + "!" + failStr(fails))
				w.Add("runs.failure_after_state_change_cutting_later_change", 1)
				if !sampled && w.WantSample() && len(desc) < 260 && i%97 == 0 {
					sampled = true
					w.Sample(map[string]any{"program": desc, "initial_state": s0, "arg": env0, "failing_points": failStr(fails),
						"reference_result": refStr(wv, werr), "reference_state": ws, "state_at_first_failure": rc.firstFailS, "state_without_failure": noFailState,
						"executions_of_the_one_program_value": strings.TrimSpace(sched.String())})
				}
			}
		})
	}
	w.Done(i)
	w.Add("programs", 1)
	w.Add("program_nodes", int64(g.nextID))
	w.Max("max_program_nodes", int64(g.nextID))
	w.Add("failure_points", int64(nfp))
	w.Add("shared.values_bound", int64(len(g.pool)))
	w.Add("shared.extra_positions", int64(g.sharedUses))
	if g.sharedUses > 0 {
		w.Add("programs.with_a_value_at_several_positions", 1)
	}
	if sharedTwice {
		w.Add("programs.shared_value_executed_twice_in_one_run", 1)
	}
	for _, k := range g.dups {
		w.Hit("same-value-operands@" + site(k))
	}
}

// recoverAll wraps the program VALUE p (built once by the caller, already executed several
// times) into each Recover variant with handlers that all produce recK, executes every
// wrapper from two initial states and checks each execution against the reference and hence
// the variants against each other. fresh builds another value of the same program (used only
// to tell "wrong" from "wrong when executed again").
func recoverAll(ck *checker, p ST, lc *rctx, runs []refRun, recK int, wit map[string]any, fresh func() (ST, *rctx), fail func(rr refRun, key, detail string)) {
	type call struct {
		s    string
		hasS bool
		err  error
	}
	names := []string{"Recover", "RecoverT", "RecoverWithState", "RecoverWithStateT", "RecoverWith", "RecoverCase", "RecoverCaseT", "RecoverCaseWith"}
	wrap := func(vi int, p ST, calls *[]call) ST {
		add := func(c call) { *calls = append(*calls, c) }
		switch vi {
		case 0:
			return p.Recover(func(err error) int { add(call{err: err}); return recK })
		case 1:
			return p.RecoverT(func(err error) fp.Try[int] { add(call{err: err}); return try.Success(recK) })
		case 2:
			return p.RecoverWithState(func(s S, err error) int { add(call{s, true, err}); return recK })
		case 3:
			return p.RecoverWithStateT(func(s S, err error) fp.Try[int] { add(call{s, true, err}); return try.Success(recK) })
		case 4:
			return p.RecoverWith(func(err error) ST { add(call{err: err}); return statet.Pure[S](recK) })
		case 5:
			return p.RecoverCase(func(error) bool { return true }, func(err error) int { add(call{err: err}); return recK })
		case 6:
			return p.RecoverCaseT(func(error) bool { return true }, func(err error) fp.Try[int] { add(call{err: err}); return try.Success(recK) })
		}
		return p.RecoverCaseWith(func(error) bool { return true }, func(err error) ST { add(call{err: err}); return statet.Pure[S](recK) })
	}
	// judge: first disagreement of one execution of a wrapper with the reference run rr
	judge := func(name string, t fp.Try[int], s string, calls []call, trace []event, rr refRun) (what, detail string) {
		if rr.err == nil {
			if !sameTry(t, rr.v, nil) || s != rr.fs {
				return "success-not-untouched", fmt.Sprintf("%s over a succeeding program: (%s, %q), the program itself gives (%s, %q)", name, tryStr(t), s, refStr(rr.v, nil), rr.fs)
			}
			if len(calls) != 0 {
				return "handler-called-on-success", fmt.Sprintf("%s called its handler %d times although the program succeeded", name, len(calls))
			}
			return "", ""
		}
		if len(calls) != 1 {
			return "handler-calls", fmt.Sprintf("%s called its handler %d times for one failure", name, len(calls))
		}
		if calls[0].err != rr.err {
			return "handler-error", fmt.Sprintf("%s handed its handler %s, the program failed with %s", name, errStr(calls[0].err), errStr(rr.err))
		}
		if calls[0].hasS && calls[0].s != rr.fs {
			return "handler-state", fmt.Sprintf("%s handed its handler the state %q, the state at the failure is %q (initial state %q)", name, calls[0].s, rr.fs, rr.s)
		}
		if !sameTry(t, recK, nil) {
			return "recovered-result", fmt.Sprintf("%s returned %s, its handler produced %d", name, tryStr(t), recK)
		}
		if s != rr.fs {
			return "recovered-state", fmt.Sprintf("%s returned the state %q, the state at the failure is %q (initial state %q)", name, s, rr.fs, rr.s)
		}
		if ok, why := sameTrace(trace, rr.rc.trace); !ok {
			return "callbacks", name + " changed what the wrapped program executed: " + why
		}
		return "", ""
	}
	for vi, name := range names {
		if ck.bad {
			return
		}
		var calls []call
		q := wrap(vi, p, &calls)
		base := "StateT." + name
		ck.w.Site(base)
		for x, rr := range runs {
			// the wrapper is a program value too: it is executed from both initial states
			calls = nil
			lc.trace = nil
			lc.budget = vrt.NewBudget(int64(len(rr.rc.trace)*4+64), "callbacks of one StateT run")
			t, s := q.Run(rr.s)
			ck.w.Add("executions", 1)
			if rr.err == nil {
				ck.w.Add("recover."+name+".success", 1)
			} else {
				ck.w.Add("recover."+name+".failure", 1)
			}
			what, detail := judge(name, t, s, calls, lc.trace, rr)
			if what == "" {
				continue
			}
			if x > 0 {
				// wrong only when executed again? a fresh program value in a fresh wrapper,
				// executed once from this state, decides
				fp0, fc := fresh()
				var fcalls []call
				fq := wrap(vi, fp0, &fcalls)
				fc.budget = vrt.NewBudget(int64(len(rr.rc.trace)*4+64), "callbacks of one StateT run")
				ft, fs := fq.Run(rr.s)
				if fw, _ := judge(name, ft, fs, fcalls, fc.trace, rr); fw == "" {
					fail(rr, base+"/rerun-differs", fmt.Sprintf("execution #%d of the same %s value, from %q: %s\n(a freshly built value agrees with the reference on this execution)", x+1, name, rr.s, detail))
					return
				}
			}
			fail(rr, base+"/"+what, detail)
			return
		}
	}
}

// ---- program values with collection results: executed again, used at two positions ---------

// The collection combinators take one-shot iterators / slices and return a program whose
// result is an Iterator, a Seq or a slice. The program cases above fold that result into an
// int inside the program; here the raw program value is built ONCE (from the iterator) and
//   - executed 3..5 times by Run / Exec / Eval from PRNG initial states, every execution
//     compared with the reference; Seq / slice results are kept exactly as returned and
//     compared again after all later executions, Iterator results (readable once) are read
//     only then;
//   - used at two positions of a larger program (Concat, Map2, Zip, Sequence, FlatMap,
//     FlatMapConst, its own RecoverWith handler), which is executed twice as well.
// Keys: <site>/raw-result|raw-state|raw-callbacks for the first execution, <site>/rerun-differs
// for a later one, <site>/earlier-result-changed, <site>/reused-value-differs.

var rerunKinds = []int{kFoldM, kTraverse, kTraverseFunc, kTraverseSeq, kTraverseSeqFunc, kTraverseSlice, kTraverseSliceFunc, kFlatMapTraverseSeq, kFlatMapTraverseSlice, kSequence, kSequenceIterator}

var reuseNames = []string{"Concat(p, p)", "Map2(p, p)", "Zip(p, p)", "p.RecoverWith(_ => p)", "Sequence([p, p])", "FlatMap(p, _ => p)", "FlatMapConst(p, p)"}

type rerunner struct {
	w      *vrt.W
	i      int
	r      *rand.Rand
	site   string
	n      *node
	env    int
	fails  []bool
	errs   []error
	lc     *rctx
	states []string
	wit    map[string]any
	bad    bool
}

func (k *rerunner) fail(key, detail string) {
	if k.bad {
		return
	}
	k.bad = true
	k.w.Violation(k.i, key, detail+"\nprogram value: "+k.n.String(), k.wit)
}

func eqInts(a, b []int) bool {
	if len(a) != len(b) {
		return false
	}
	for i := range a {
		if a[i] != b[i] {
			return false
		}
	}
	return true
}

// exec1 executes p once (method and state from op) and compares with the reference. what is
// "" when they agree. A successful Run/Eval result is returned un-read when deferView is set
// (Iterator results of the value under test are read only after the later executions).
func exec1[T any](k *rerunner, p fp.StateT[S, T], lc *rctx, op execOp, view func(T) []int, deferView bool) (what, detail string, t fp.Try[T], want []int, keep bool) {
	st := k.states[op.st]
	rc := &rctx{fails: k.fails, errs: k.errs}
	want, werr, ws := rc.refList(k.n, k.env, st)
	lc.trace = nil
	lc.budget = vrt.NewBudget(int64(len(rc.trace)*4+64), "callbacks of one StateT run")
	var s string
	hasT, hasS := false, false
	switch op.m {
	case 'R':
		t, s = p.Run(st)
		hasT, hasS = true, true
	case 'V':
		t = p.Eval(st)
		hasT = true
	case 'X':
		et := p.Exec(st)
		if werr == nil {
			if !et.IsSuccess() || et.Get() != ws {
				return "state", fmt.Sprintf("%v, reference Success(%q)", et, ws), t, want, false
			}
		} else if !et.IsFailure() || et.Failed().Get() != werr {
			return "result", fmt.Sprintf("%v, reference Failure(%s)", et, errStr(werr)), t, want, false
		}
	}
	if hasT {
		if werr != nil {
			if !t.IsFailure() || t.Failed().Get() != werr {
				return "result", fmt.Sprintf("result %v, reference Failure(%s)", t, errStr(werr)), t, want, false
			}
		} else {
			if !t.IsSuccess() {
				return "result", fmt.Sprintf("result %v, reference Success(%v)", t, want), t, want, false
			}
			if !deferView {
				if got := view(t.Get()); !eqInts(got, want) {
					return "result", fmt.Sprintf("result %v, reference %v", got, want), t, want, false
				}
			}
			keep = true
		}
	}
	if hasS && s != ws {
		return "state", fmt.Sprintf("final state %q, reference %q", s, ws), t, want, false
	}
	if ok, why := sameTrace(lc.trace, rc.trace); !ok {
		return "callbacks", why, t, want, false
	}
	return "", "", t, want, keep
}

// rerunCheck: mk builds the raw program value (from its one-shot iterator); ONE value is
// executed 3..5 times. A disagreement of a later execution is keyed rerun-differs only if a
// freshly built value agrees with the reference on that same execution.
func rerunCheck[T any](k *rerunner, mk func(c *rctx) fp.StateT[S, T], p fp.StateT[S, T], view func(T) []int, oneShot bool) {
	r := k.r
	type keptT struct {
		x    int
		op   execOp
		t    fp.Try[T]
		want []int
	}
	freshAgrees := func(op execOp) bool {
		fc := &rctx{fails: k.fails, errs: k.errs}
		what, _, _, _, _ := exec1(k, mk(fc), fc, op, view, false)
		return what == ""
	}
	var kept []keptT
	nexec := 3 + r.IntN(3)
	for x := 0; x < nexec && !k.bad; x++ {
		op := execOp{"RRXV"[r.IntN(4)], r.IntN(len(k.states))}
		st := k.states[op.st]
		nth := fmt.Sprintf("execution #%d of the one program value, %s(%q): ", x+1, methodName[op.m], st)
		k.w.Site(k.site)
		k.w.Add("rerun.executions", 1)
		if x > 0 {
			k.w.Add("rerun.executions_after_the_first", 1)
		}
		what, detail, t, want, keep := exec1(k, p, k.lc, op, view, oneShot)
		if what != "" {
			if x > 0 && freshAgrees(op) {
				k.fail(k.site+"/rerun-differs", nth+detail+"\n(a freshly built value agrees with the reference on this execution)")
			} else {
				k.fail(k.site+"/raw-"+what, nth+detail)
			}
			return
		}
		if keep {
			kept = append(kept, keptT{x, op, t, want})
		}
	}
	// every successful result again (Iterator results: for the first time), after all the
	// later executions; the values are the ones returned, not copies
	for _, kp := range kept {
		k.w.Add("rerun.results_inspected_after_later_executions", 1)
		got := view(kp.t.Get())
		if eqInts(got, kp.want) {
			continue
		}
		st := k.states[kp.op.st]
		switch {
		case !oneShot:
			k.fail(k.site+"/earlier-result-changed", fmt.Sprintf("the result of execution #%d (%s(%q)) was %v when it was returned and reads %v after the later executions of the same program value", kp.x+1, methodName[kp.op.m], st, kp.want, got))
		case kp.x > 0 && freshAgrees(kp.op):
			k.fail(k.site+"/rerun-differs", fmt.Sprintf("execution #%d (%s(%q)) of the one program value: the returned iterator yields %v, reference %v", kp.x+1, methodName[kp.op.m], st, got, kp.want))
		default:
			k.fail(k.site+"/raw-result", fmt.Sprintf("execution #%d (%s(%q)): the returned iterator yields %v, reference %v", kp.x+1, methodName[kp.op.m], st, got, kp.want))
		}
		return
	}
}

func reuseCheck[T any](k *rerunner, mk func(c *rctx) fp.StateT[S, T], p fp.StateT[S, T], view func(T) []int) {
	if k.bad {
		return
	}
	r := k.r
	pos := r.IntN(len(reuseNames))
	two := func(a, b T) []int { return append(append([]int{}, view(a)...), view(b)...) }
	var q fp.StateT[S, []int]
	switch pos {
	case 0:
		q = statet.Map(statet.Concat(p, p), view)
	case 1:
		q = statet.Map2(p, p, two)
	case 2:
		q = statet.Map(statet.Zip(p, p), func(t fp.Tuple2[T, T]) []int { return two(t.I1, t.I2) })
	case 3:
		q = statet.Map(p.RecoverWith(func(error) fp.StateT[S, T] { return p }), view)
	case 4:
		q = statet.Map(statet.Sequence([]fp.StateT[S, T]{p, p}), func(l []T) []int {
			if len(l) != 2 { // wrong, and reported as a value difference rather than a panic of this function
				return []int{-1 << 40, len(l)}
			}
			return two(l[0], l[1])
		})
	case 5:
		q = statet.Map(statet.FlatMap(p, func(T) fp.StateT[S, T] { return p }), view)
	default:
		q = statet.Map(statet.FlatMapConst(p, p), view)
	}
	k.w.Hit("reuse/" + reuseNames[pos])
	for x := 0; x < 2 && !k.bad; x++ {
		st := k.states[r.IntN(len(k.states))]
		rc := &rctx{fails: k.fails, errs: k.errs}
		// reference: the program twice in sequence (RecoverWith: again only after a failure)
		var want []int
		v1, e1, s1 := rc.refList(k.n, k.env, st)
		werr, ws := e1, s1
		second := false
		if pos == 3 {
			want = v1
			if e1 != nil {
				second = true
				want, werr, ws = rc.refList(k.n, k.env, s1)
			}
		} else if e1 == nil {
			second = true
			v2, e2, s2 := rc.refList(k.n, k.env, s1)
			werr, ws = e2, s2
			switch pos {
			case 1, 2, 4:
				want = append(append([]int{}, v1...), v2...)
			default:
				want = v2
			}
		}
		k.lc.trace = nil
		k.lc.budget = vrt.NewBudget(int64(len(rc.trace)*4+64), "callbacks of one StateT run")
		k.w.Add("rerun.executions", 1)
		k.w.Site(k.site)
		t, s := q.Run(st)
		what := fmt.Sprintf("%s with p the one program value, execution #%d, Run(%q): ", reuseNames[pos], x+1, st)
		bad := ""
		switch {
		case werr != nil && (!t.IsFailure() || t.Failed().Get() != werr):
			bad = fmt.Sprintf("result %v, reference Failure(%s)", t, errStr(werr))
		case werr == nil && (!t.IsSuccess() || !eqInts(t.Get(), want)):
			bad = fmt.Sprintf("result %v, reference Success(%v)", t, want)
		case s != ws:
			bad = fmt.Sprintf("final state %q, reference %q", s, ws)
		default:
			if ok, why := sameTrace(k.lc.trace, rc.trace); !ok {
				bad = why
			}
		}
		if bad == "" {
			continue
		}
		// the sharing is to blame only if two freshly built values, each run once from the
		// states the two positions start in, agree with the reference
		saved := k.states
		k.states = []string{st, s1}
		fresh := func(stIdx int) string {
			fc := &rctx{fails: k.fails, errs: k.errs}
			w1, _, _, _, _ := exec1(k, mk(fc), fc, execOp{'R', stIdx}, view, false)
			return w1
		}
		w1 := fresh(0)
		if w1 == "" && second {
			w1 = fresh(1)
		}
		k.states = saved
		if w1 != "" {
			k.fail(k.site+"/raw-"+w1, what+bad+"\n(a freshly built value run once disagrees with the reference as well)")
		} else {
			k.fail(k.site+"/reused-value-differs", what+bad)
		}
		return
	}
}

func viewIter(it fp.Iterator[int]) []int { return it.ToSeq() }
func viewSeq(l fp.Seq[int]) []int        { return l }
func viewSlice(l []int) []int            { return l }
func viewInt(v int) []int                { return []int{v} }

func runRerunCase(w *vrt.W, i int) {
	r := w.Rand(i)
	kind := rerunKinds[(i+w.Batch)%len(rerunKinds)]
	g := &pgen{r: r, budget: 2 + r.IntN(5), maxDep: 1 + r.IntN(3), share: true}
	n := g.newNode(kind)
	g.fill(n, 0)
	if n.items != nil && r.IntN(2) == 0 {
		n.items = make([]int, r.IntN(9))
		for j := range n.items {
			n.items[j] = r.IntN(9) - 4
		}
	}
	setSizes(n)
	desc := n.String()
	env := r.IntN(5) - 2
	states := []string{statePool[r.IntN(len(statePool))], randState(r), randState(r)}
	nfp := len(g.errs)
	variants := [][]bool{make([]bool, nfp)}
	for x := 0; x < 3 && nfp > 0; x++ {
		f := make([]bool, nfp)
		if x < 2 {
			f[r.IntN(nfp)] = true
		} else {
			for j := range f {
				f[j] = r.IntN(3) == 0
			}
		}
		variants = append(variants, f)
	}
	st := site(kind)
	w.Begin(i, st)
	elems := len(n.items)
	if kind == kSequence || kind == kSequenceIterator {
		elems = len(n.kids)
	}
	for _, fails := range variants {
		wit := map[string]any{"site": st, "program": desc, "arg": env, "initial_states": states, "failing_points": failStr(fails)}
		lc := &rctx{fails: fails, errs: g.errs}
		k := &rerunner{w: w, i: i, r: r, site: st, n: n, env: env, fails: fails, errs: g.errs, lc: lc, states: states, wit: wit}
		ok := w.Guard(i, func() any { return wit }, func() {
			items := func() []int { return append([]int(nil), n.items...) }
			fnOf := func(c *rctx) func(a int) ST { return func(a int) ST { return c.build(n.kids[0], a) } }
			w.Site(st)
			switch kind {
			case kFoldM:
				mk := func(c *rctx) ST {
					return statet.FoldM(iterator.FromSeq(items()), n.k, func(b, a int) ST { return c.build(n.kids[0], b*3+a) })
				}
				p := mk(lc)
				rerunCheck(k, mk, p, viewInt, false)
				reuseCheck(k, mk, p, viewInt)
			case kTraverse, kTraverseFunc:
				mk := func(c *rctx) fp.StateT[S, fp.Iterator[int]] {
					if kind == kTraverse {
						return statet.Traverse(iterator.FromSeq(items()), fnOf(c))
					}
					return statet.TraverseFunc[S](fnOf(c))(iterator.FromSeq(items()))
				}
				p := mk(lc)
				rerunCheck(k, mk, p, viewIter, true)
				reuseCheck(k, mk, p, viewIter)
			case kTraverseSeq, kTraverseSeqFunc, kFlatMapTraverseSeq:
				mk := func(c *rctx) fp.StateT[S, fp.Seq[int]] {
					switch kind {
					case kTraverseSeq:
						return statet.TraverseSeq(fp.Seq[int](items()), fnOf(c))
					case kTraverseSeqFunc:
						return statet.TraverseSeqFunc[S](fnOf(c))(fp.Seq[int](items()))
					}
					ta := statet.Map(c.build(n.kids[1], env), func(v int) fp.Seq[int] { return fp.Seq[int](shifted(n.items, v)) })
					return statet.FlatMapTraverseSeq(ta, fnOf(c))
				}
				p := mk(lc)
				rerunCheck(k, mk, p, viewSeq, false)
				reuseCheck(k, mk, p, viewSeq)
			case kTraverseSlice, kTraverseSliceFunc, kFlatMapTraverseSlice, kSequence:
				mk := func(c *rctx) fp.StateT[S, []int] {
					switch kind {
					case kTraverseSlice:
						return statet.TraverseSlice(items(), fnOf(c))
					case kTraverseSliceFunc:
						return statet.TraverseSliceFunc[S](fnOf(c))(items())
					case kFlatMapTraverseSlice:
						ta := statet.Map(c.build(n.kids[1], env), func(v int) []int { return shifted(n.items, v) })
						return statet.FlatMapTraverseSlice(ta, fnOf(c))
					}
					ps := make([]ST, len(n.kids))
					for j, kid := range n.kids {
						ps[j] = c.build(kid, env)
					}
					return statet.Sequence(ps)
				}
				p := mk(lc)
				rerunCheck(k, mk, p, viewSlice, false)
				reuseCheck(k, mk, p, viewSlice)
			case kSequenceIterator:
				mk := func(c *rctx) fp.StateT[S, fp.Iterator[int]] {
					ps := make([]ST, len(n.kids))
					for j, kid := range n.kids {
						ps[j] = c.build(kid, env)
					}
					return statet.SequenceIterator(iterator.FromSeq(ps))
				}
				p := mk(lc)
				rerunCheck(k, mk, p, viewIter, true)
				reuseCheck(k, mk, p, viewIter)
			}
		})
		w.Add("rerun.program_values", 1)
		if !ok || k.bad {
			break
		}
		if elems >= 2 {
			w.Distinct("rerun:" + desc + "@" + strings.Join(states, ",") + "!" + failStr(fails))
		}
	}
	w.Done(i)
	w.Hit("rerun/" + st)
	w.Add("rerun.cases", 1)
	if w.WantSample() && i%211 == 0 && len(desc) < 260 {
		w.Sample(map[string]any{"kind": "program value executed again and used twice", "site": st, "program": desc, "initial_states": states})
	}
}

// ---- explicit law instances ---------------------------------------------------------------

var lawNames = []string{"put-then-get", "get-then-put", "modify-is-get-put", "left-to-right/FlatMap", "left-to-right/FlatMapConst", "left-to-right/Map2", "left-to-right/Sequence", "left-to-right/SequenceIterator",
	"left-to-right/Traverse", "left-to-right/TraverseSeq", "left-to-right/TraverseSlice", "left-to-right/FoldM", "left-to-right/Concat", "left-to-right/Map3", "left-to-right/Ap", "modifyT-failure-keeps-state", "recover-variants-agree"}

func randState(r *rand.Rand) string {
	if r.IntN(4) == 0 {
		return statePool[r.IntN(len(statePool))]
	}
	n := r.IntN(6)
	b := make([]byte, n)
	for i := range b {
		b[i] = byte('a' + r.IntN(26))
	}
	return string(b)
}

func unitOK(t fp.Try[fp.Unit]) bool { return t.IsSuccess() }

func runLawCase(w *vrt.W, i int) {
	r := w.Rand(i)
	law := lawNames[(i+w.Batch)%len(lawNames)]
	s0 := randState(r)
	x := randState(r)
	suffix := "+" + randState(r)
	nsteps := 1 + r.IntN(6)
	failAt := -1
	if r.IntN(4) != 0 {
		failAt = r.IntN(nsteps)
	}
	// every program value a law builds is executed from two initial states, the second
	// execution is keyed <site>/rerun-differs
	s1 := randState(r)
	both := []string{s0, s1}
	wit := map[string]any{"law": law, "initial_states": both, "x": x, "suffix": suffix, "steps": nsteps, "failing_step": failAt}
	bad := false
	viol := func(key, detail string) {
		if !bad {
			bad = true
			w.Violation(i, key, detail, wit)
		}
	}
	rk := func(pass int, site, key string) string {
		if pass > 0 {
			return site + "/rerun-differs"
		}
		return site + "/" + key
	}
	w.Begin(i, "law/"+law)
	w.Guard(i, func() any { return wit }, func() {
		switch law {
		case "put-then-get":
			w.Site("statet.Put")
			forms := []fp.StateT[S, S]{
				statet.FlatMapConst(statet.Put(x), statet.Get[S]()),
				statet.FlatMap(statet.Put(x), func(fp.Unit) fp.StateT[S, S] { return statet.Get[S]() }),
				statet.Map2(statet.Put(x), statet.Get[S](), func(_ fp.Unit, s S) S { return s }),
			}
			put := statet.Put(x)
			for pass, st := range both {
				for _, p := range forms {
					t, s := p.Run(st)
					if !t.IsSuccess() || t.Get() != x || s != x {
						viol(rk(pass, "statet.Put", "put-then-get"), fmt.Sprintf("Put(%q) then Get from state %q: result %v, final state %q; expected Success(%q) and state %q", x, st, t, s, x, x))
						return
					}
				}
				if t, s := put.Run(st); !unitOK(t) || s != x {
					viol(rk(pass, "statet.Put", "state"), fmt.Sprintf("Put(%q).Run(%q) = (%v, %q)", x, st, t, s))
				}
				if t := put.Exec(st); !t.IsSuccess() || t.Get() != x {
					viol(rk(pass, "statet.Put", "state"), fmt.Sprintf("Put(%q).Exec(%q) = %v", x, st, t))
				}
			}
		case "get-then-put":
			w.Site("statet.Get")
			gp := statet.FlatMap(statet.Get[S](), statet.Put[S])
			// embedded in a longer program: a change before and after; the same Get >>= Put
			// value is used at two positions
			p := statet.Concat(statet.Modify(func(s S) S { return s + "<a>" }), gp, statet.Modify(func(s S) S { return s + "<b>" }), gp)
			for pass, st := range both {
				t, s := gp.Run(st)
				if !unitOK(t) || s != st {
					viol(rk(pass, "statet.Get", "get-then-put"), fmt.Sprintf("Get >>= Put from state %q: (%v, %q); expected a no-op", st, t, s))
					return
				}
				if t, s := p.Run(st); !unitOK(t) || s != st+"<a><b>" {
					viol(rk(pass, "statet.Get", "get-then-put"), fmt.Sprintf("Modify; Get >>= Put; Modify; Get >>= Put from %q: (%v, %q); expected state %q", st, t, s, st+"<a><b>"))
					return
				}
			}
		case "modify-is-get-put":
			w.Site("statet.Modify")
			calls := 0
			f := func(s S) S { calls++; return s + suffix }
			mod := statet.Modify(f)
			getPut := statet.FlatMap(statet.Get[S](), func(s S) fp.StateT[S, fp.Unit] { return statet.Put(f(s)) })
			modS := statet.ModifyS(f, func(s S) int { return len(s) })
			mrg := statet.Merge(f, func(s S) int { return len(s) })
			for pass, st := range both {
				calls = 0
				t1, s1 := mod.Run(st)
				c1 := calls
				t2, s2 := getPut.Run(st)
				if !unitOK(t1) || !unitOK(t2) || s1 != s2 || s1 != st+suffix || c1 != 1 {
					viol(rk(pass, "statet.Modify", "modify-is-get-put"), fmt.Sprintf("Modify(f).Run(%q) = (%v, %q) with f called %d times; Get >>= Put∘f = (%v, %q); f(s) = %q", st, t1, s1, c1, t2, s2, st+suffix))
					return
				}
				// ModifyS / Merge / Run / GetS agree with their definition through Get/Put
				t3, s3 := modS.Run(st)
				t4, s4 := mrg.Run(st)
				if !t3.IsSuccess() || t3.Get() != len(st) || s3 != st+suffix || !t4.IsSuccess() || t4.Get() != len(st) || s4 != st+suffix {
					viol(rk(pass, "statet.ModifyS", "definition"), fmt.Sprintf("ModifyS/Merge(f, len).Run(%q) = (%v, %q) / (%v, %q); expected (Success(%d), %q)", st, t3, s3, t4, s4, len(st), st+suffix))
					return
				}
			}
		case "modifyT-failure-keeps-state":
			w.Site("statet.ModifyT")
			e := &progErr{idx: 99}
			p := statet.Concat(statet.Modify(func(s S) S { return s + "<a>" }),
				statet.ModifyT(func(s S) fp.Try[S] { return try.Failure[S](e) }),
				statet.Modify(func(s S) S { return s + "<never>" }))
			for pass, st := range both {
				t, s := p.Run(st)
				if !t.IsFailure() || t.Failed().Get() != e || s != st+"<a>" {
					viol(rk(pass, "statet.ModifyT", "failure-state"), fmt.Sprintf("Modify(+<a>); ModifyT(fail); Modify from %q: (%v, %q); expected Failure and state %q", st, t, s, st+"<a>"))
					return
				}
			}
		case "recover-variants-agree":
			lawRecover(w, i, r, both, nsteps, failAt, wit)
		default:
			lawLeftToRight(w, i, strings.TrimPrefix(law, "left-to-right/"), both, nsteps, failAt, wit)
		}
	})
	w.Done(i)
	w.Hit("law/" + law)
	w.Add("laws", 1)
	if failAt > 0 && failAt < nsteps-1 && strings.HasPrefix(law, "left-to-right/") {
		w.Distinct(fmt.Sprintf("law:%s:%q:%d:%d", law, s0, nsteps, failAt))
	}
}

// steps: step j appends <j> and yields j; the failing step appends <j> and then fails.
type stepper struct {
	called []int
	e      error
	failAt int
}

func (sp *stepper) step(j int) ST {
	run := statet.Run(func(s S) (int, S) { sp.called[j]++; return j, s + "<" + strconv.Itoa(j) + ">" })
	if j == sp.failAt {
		return statet.MapT(run, func(int) fp.Try[int] { return try.Failure[int](sp.e) })
	}
	return run
}

// lawLeftToRight reports through w.Violation. The slices handed to Sequence / SequenceIterator /
// Traverse* / FoldM / Concat are overwritten by their owner as soon as the combinator has
// returned; a violation is re-examined by a control run that leaves them alone and is keyed
// statet.<comb>/reads-input-after-build when the control is clean.
func lawLeftToRight(w *vrt.W, i int, comb string, both []string, n, failAt int, wit map[string]any) {
	key, detail := lawLeftToRight1(w, comb, both, n, failAt, false)
	if key == "" {
		return
	}
	if ckey, cdetail := lawLeftToRight1(w, comb, both, n, failAt, true); ckey == "" {
		key = "statet." + comb + "/reads-input-after-build"
		detail += "\n(the slice handed to " + comb + " was overwritten by its owner when the call had returned; with the slice left alone the law holds)"
	} else {
		key, detail = ckey, cdetail
	}
	w.Violation(i, key, detail, wit)
}

func lawLeftToRight1(w *vrt.W, comb string, both []string, n, failAt int, keepInputs bool) (vkey, vdetail string) {
	overwriteST := func(ps []ST) {
		for j := range ps {
			if !keepInputs {
				ps[j] = statet.Run(func(s S) (int, S) { return -7777, s + "<INPUT-SLICE-OVERWRITTEN-AFTER-BUILD>" })
			}
		}
	}
	overwriteInts := func(xs []int) {
		for j := range xs {
			if !keepInputs {
				xs[j] = (xs[j] + 1) % len(xs)
			}
		}
	}
	sp := &stepper{called: make([]int, n), e: &progErr{idx: 77}, failAt: failAt}
	idx := make([]int, n)
	for j := range idx {
		idx[j] = j
	}
	sum := func(a, b int) int { return a*10 + b }
	wantVal := 0 // decimal digits of the steps in order, for the value-carrying combinators
	for j := 0; j < n; j++ {
		wantVal = wantVal*10 + j
	}
	var p ST
	w.Site("statet." + comb)
	switch comb {
	case "FlatMap":
		var chain func(j, acc int) ST
		chain = func(j, acc int) ST {
			if j == n {
				return statet.Pure[S](acc)
			}
			return statet.FlatMap(sp.step(j), func(v int) ST { return chain(j+1, sum(acc, v)) })
		}
		p = chain(0, 0)
	case "FlatMapConst":
		p = statet.Pure[S](0)
		for j := 0; j < n; j++ {
			p = statet.FlatMapConst(p, sp.step(j))
		}
		wantVal = n - 1
	case "Map2":
		p = statet.Pure[S](0)
		for j := 0; j < n; j++ {
			p = statet.Map2(p, sp.step(j), sum)
		}
	case "Map3":
		p = statet.Pure[S](0)
		for j := 0; j < n; j++ {
			p = statet.Map3(p, sp.step(j), statet.Pure[S](0), func(a, b, _ int) int { return sum(a, b) })
		}
	case "Ap":
		p = statet.Pure[S](0)
		for j := 0; j < n; j++ {
			p = statet.Ap(statet.Map(p, func(a int) fp.Func1[int, int] { return func(b int) int { return sum(a, b) } }), sp.step(j))
		}
	case "Sequence", "SequenceIterator":
		ps := make([]ST, n)
		for j := range ps {
			ps[j] = sp.step(j)
		}
		fold := func(l []int) int {
			v := 0
			for _, x := range l {
				v = sum(v, x)
			}
			return v
		}
		if comb == "Sequence" {
			p = statet.Map(statet.Sequence(ps), fold)
		} else {
			p = statet.Map(statet.SequenceIterator(iterator.FromSeq(ps)), func(it fp.Iterator[int]) int { return fold(it.ToSeq()) })
		}
		overwriteST(ps)
	case "Traverse":
		p = statet.Map(statet.Traverse(iterator.FromSeq(idx), sp.step), func(it fp.Iterator[int]) int {
			v := 0
			for _, x := range it.ToSeq() {
				v = sum(v, x)
			}
			return v
		})
		overwriteInts(idx)
	case "TraverseSeq":
		p = statet.Map(statet.TraverseSeq(fp.Seq[int](idx), sp.step), func(l fp.Seq[int]) int {
			v := 0
			for _, x := range l {
				v = sum(v, x)
			}
			return v
		})
		overwriteInts(idx)
	case "TraverseSlice":
		p = statet.Map(statet.TraverseSlice(idx, sp.step), func(l []int) int {
			v := 0
			for _, x := range l {
				v = sum(v, x)
			}
			return v
		})
		overwriteInts(idx)
	case "FoldM":
		p = statet.FoldM(iterator.FromSeq(idx), 0, func(acc, j int) ST { return statet.Map(sp.step(j), func(v int) int { return sum(acc, v) }) })
		overwriteInts(idx)
	case "Concat":
		ps := make([]ST, n)
		for j := range ps {
			ps[j] = sp.step(j)
		}
		p = statet.Concat(ps[0], ps[1:]...)
		overwriteST(ps)
		wantVal = n - 1
	default:
		panic("unknown combinator " + comb)
	}
	// the program value is built once (Traverse/FoldM/SequenceIterator from a one-shot
	// iterator) and executed from both initial states
	key := "statet." + comb
	last := n - 1
	if failAt >= 0 {
		last = failAt
	}
	for pass, s0 := range both {
		for j := range sp.called {
			sp.called[j] = 0
		}
		k := func(what string) string {
			if pass > 0 {
				return key + "/rerun-differs"
			}
			return key + "/" + what
		}
		nth := ""
		if pass > 0 {
			nth = "second execution of the same program value: "
		}
		t, s := p.Run(s0)
		wantS := s0
		for j := 0; j <= last; j++ {
			wantS += "<" + strconv.Itoa(j) + ">"
		}
		if failAt < 0 {
			if !t.IsSuccess() || t.Get() != wantVal {
				return k("left-to-right-value"), nth+fmt.Sprintf("%d steps through %s from %q: result %s, expected Success(%d)", n, comb, s0, tryStr(t), wantVal)
			}
		} else if !t.IsFailure() || t.Failed().Get() != sp.e {
			return k("failure-not-reported"), nth+fmt.Sprintf("%d steps through %s, step %d fails: result %s", n, comb, failAt, tryStr(t))
		}
		if s != wantS {
			return k("state-at-failure"), nth+fmt.Sprintf("%d steps through %s from %q, failing step %d: final state %q, expected %q", n, comb, s0, failAt, s, wantS)
		}
		for j, c := range sp.called {
			want := 1
			if j > last {
				want = 0
			}
			if c != want {
				return k("step-after-failure-ran"), nth+fmt.Sprintf("%d steps through %s, failing step %d: step %d ran %d times, expected %d", n, comb, failAt, j, c, want)
			}
		}
		if failAt >= 0 && !keepInputs {
			w.Add("laws.left_to_right_with_failure", 1)
		}
	}
	return "", ""
}

func lawRecover(w *vrt.W, i int, r *rand.Rand, both []string, n, failAt int, wit map[string]any) {
	type obs struct {
		hs     string
		hasHS  bool
		herr   error
		hcalls int
	}
	e := error(&progErr{idx: 55})
	e2 := error(&progErr{idx: 56})
	// ONE program value; every Recover variant wraps this same value, and every wrapper is
	// executed from both initial states
	sp := &stepper{called: make([]int, n), e: e, failAt: failAt}
	ps := make([]ST, n)
	for j := range ps {
		ps[j] = sp.step(j)
	}
	p := statet.Concat(ps[0], ps[1:]...)
	last := n - 1
	if failAt >= 0 {
		last = failAt
	}
	names := []string{"Recover", "RecoverT", "RecoverWithState", "RecoverWithStateT", "RecoverWith", "RecoverCase", "RecoverCaseT", "RecoverCaseWith"}
	all := make([]obs, len(names))
	qs := make([]ST, len(names))
	for vi := range names {
		o := &all[vi]
		h := func(err error) { o.hcalls++; o.herr = err }
		hs := func(s S, err error) { o.hcalls++; o.herr = err; o.hs, o.hasHS = s, true }
		switch vi {
		case 0:
			qs[vi] = p.Recover(func(err error) int { h(err); return -1 })
		case 1:
			qs[vi] = p.RecoverT(func(err error) fp.Try[int] { h(err); return try.Success(-1) })
		case 2:
			qs[vi] = p.RecoverWithState(func(s S, err error) int { hs(s, err); return -1 })
		case 3:
			qs[vi] = p.RecoverWithStateT(func(s S, err error) fp.Try[int] { hs(s, err); return try.Success(-1) })
		case 4:
			qs[vi] = p.RecoverWith(func(err error) ST { h(err); return statet.Pure[S](-1) })
		case 5:
			qs[vi] = p.RecoverCase(func(err error) bool { return err == e }, func(err error) int { h(err); return -1 })
		case 6:
			qs[vi] = p.RecoverCaseT(func(err error) bool { return err == e }, func(err error) fp.Try[int] { h(err); return try.Success(-1) })
		case 7:
			qs[vi] = p.RecoverCaseWith(func(err error) bool { return err == e }, func(err error) ST { h(err); return statet.Pure[S](-1) })
		}
	}
	// handlers that change the state / fail / are not defined
	qState := p.RecoverWith(func(error) ST { return statet.Run(func(s S) (int, S) { return 5, s + "<h>" }) })
	qFail := p.RecoverT(func(error) fp.Try[int] { return try.Failure[int](e2) })
	called := false
	qUndef := p.RecoverCase(func(error) bool { return false }, func(error) int { called = true; return 0 })
	// the program as its own recovery: it fails again at the same step, from the state at the failure
	qRetry := p.RecoverWith(func(error) ST { return p })
	for pass, s0 := range both {
		wantS := s0
		for j := 0; j <= last; j++ {
			wantS += "<" + strconv.Itoa(j) + ">"
		}
		for vi := range names {
			key := "StateT." + names[vi]
			k := func(what string) string {
				if pass > 0 {
					return key + "/rerun-differs"
				}
				return key + "/" + what
			}
			all[vi] = obs{}
			o := &all[vi]
			w.Site(key)
			t, s := qs[vi].Run(s0)
			if failAt < 0 {
				if !t.IsSuccess() || t.Get() != n-1 || s != wantS || o.hcalls != 0 {
					w.Violation(i, k("success-not-untouched"), fmt.Sprintf("%s over %d succeeding steps from %q: (%s, %q), handler calls %d; expected (Success(%d), %q), 0", names[vi], n, s0, tryStr(t), s, o.hcalls, n-1, wantS), wit)
					return
				}
				continue
			}
			if o.hcalls != 1 || o.herr != e {
				w.Violation(i, k("handler-error"), fmt.Sprintf("%s: handler called %d times with %s", names[vi], o.hcalls, errStr(o.herr)), wit)
				return
			}
			if o.hasHS && o.hs != wantS {
				w.Violation(i, k("handler-state"), fmt.Sprintf("%s over %d steps from %q failing at step %d: handler received state %q, the state at the failure is %q", names[vi], n, s0, failAt, o.hs, wantS), wit)
				return
			}
			if !t.IsSuccess() || t.Get() != -1 {
				w.Violation(i, k("recovered-result"), fmt.Sprintf("%s returned %s, handler produced -1", names[vi], tryStr(t)), wit)
				return
			}
			if s != wantS {
				w.Violation(i, k("recovered-state"), fmt.Sprintf("%s over %d steps from %q failing at step %d: returned state %q, the state at the failure is %q", names[vi], n, s0, failAt, s, wantS), wit)
				return
			}
		}
		if failAt >= 0 {
			k := func(key string) string {
				if pass > 0 {
					return key[:strings.Index(key, "/")] + "/rerun-differs"
				}
				return key
			}
			t, s := qState.Run(s0)
			if !t.IsSuccess() || t.Get() != 5 || s != wantS+"<h>" {
				w.Violation(i, k("StateT.RecoverWith/handler-program-state"), fmt.Sprintf("RecoverWith handler program appending <h> from %q: (%s, %q), expected (Success(5), %q)", s0, tryStr(t), s, wantS+"<h>"), wit)
				return
			}
			t, s = qFail.Run(s0)
			if !t.IsFailure() || t.Failed().Get() != e2 || s != wantS {
				w.Violation(i, k("StateT.RecoverT/handler-failure"), fmt.Sprintf("RecoverT whose handler fails, from %q: (%s, %q), expected (Failure(e2), %q)", s0, tryStr(t), s, wantS), wit)
				return
			}
			called = false
			t, s = qUndef.Run(s0)
			if !t.IsFailure() || t.Failed().Get() != e || s != wantS || called {
				w.Violation(i, k("StateT.RecoverCase/not-defined"), fmt.Sprintf("RecoverCase not defined at the error, from %q: (%s, %q) handler called %v, expected the failure untouched and state %q", s0, tryStr(t), s, called, wantS), wit)
				return
			}
			retryS := wantS
			for j := 0; j <= last; j++ {
				retryS += "<" + strconv.Itoa(j) + ">"
			}
			t, s = qRetry.Run(s0)
			if !t.IsFailure() || t.Failed().Get() != e || s != retryS {
				w.Violation(i, k("StateT.RecoverWith/program-as-its-own-recovery"), fmt.Sprintf("p.RecoverWith(_ => p) from %q, step %d of %d fails both times: (%s, %q), expected the failure and state %q", s0, failAt, n, tryStr(t), s, retryS), wit)
				return
			}
			w.Add("laws.recover_with_failure", 1)
		}
	}
}

// ---- main -----------------------------------------------------------------------------------

const lawBatches = 2

func rerunBatches(tier string) int {
	if tier == "thorough" {
		return 8
	}
	return 2
}

// programBatches + the batches before them; the capture batches come last so that the PRNG
// streams of the older batches stay where they were.
func classicBatches(tier string) int {
	if tier == "thorough" {
		return 96 + lawBatches + rerunBatches(tier)
	}
	return 16 + lawBatches + rerunBatches(tier)
}

func captureBatches(tier string) int {
	if tier == "thorough" {
		return 8
	}
	return 2
}

func main() {
	vrt.Main(vrt.Config{
		Property: "C17",
		Batches:  func(tier string) int { return classicBatches(tier) + captureBatches(tier) },
		Cases: func(tier string, b int) int {
			if b >= classicBatches(tier) {
				if tier == "thorough" {
					return 6000
				}
				return 3000
			}
			if b < lawBatches {
				if tier == "thorough" {
					return 20000
				}
				return 2500
			}
			if b < lawBatches+rerunBatches(tier) {
				if tier == "thorough" {
					return 10000
				}
				return 3000
			}
			if tier == "thorough" {
				return 6250
			}
			return 4000
		},
		Run: func(w *vrt.W) {
			for i := w.From; i < w.To; i++ {
				switch {
				case w.Batch >= classicBatches(w.Tier):
					runCaptureCase(w, i)
				case w.Batch < lawBatches:
					runLawCase(w, i)
				case w.Batch < lawBatches+rerunBatches(w.Tier):
					runRerunCase(w, i)
				default:
					runProgramCase(w, i)
				}
			}
			for k := 0; k < nKinds; k++ {
				if hits[k] > 0 {
					w.Add("hit."+site(k)+kindSuffix(k), hits[k])
				}
				if failHits[k] > 0 {
					w.Add("hit.fail@"+site(k), failHits[k])
				}
			}
			for k, v := range recOut {
				w.Add("hit.outcome/"+k, v)
			}
		},
		Rule: "case = PRNG StateT[string,int] program skeleton (node budget 8 quick / 16 thorough; the leaves that complete the last combinators may exceed it, see max_program_nodes) over 13 primitives (Pure, FromTry, Get, GetS, GetST, Put, PutWith, Modify, ModifyS, ModifyT, Run, Merge, WithState) and 41 combinators/methods (FlatMap, FlatMapConst, Map, MapT, MapWithState(T), PeekState, Transform, TransformWith, Replace, Flatten, Ap, ApFunc, ApTry, ApOption, Map2, Zip, Map3, Zip3, FlatMap2, Compose, Sequence, SequenceIterator, Concat, 8 Traverse variants, FoldM, 8 Recover* methods), executed from a PRNG initial state with no failure, with exactly one failure at each of its failure points (FromTry, GetST, ModifyT, MapT, MapWithStateT, Transform, ApTry, ApOption=None, failing handlers of RecoverT/RecoverWithStateT/RecoverCaseT) with every pair (failing Recover handler, other failure point; at most 8) and with two PRNG subsets; for each failure set ONE program value is built and executed six times in PRNG order (Run, Exec, Eval from the first initial state, Run from a second, two PRNG method/state choices out of three states), each execution compared (result, final state, log of run-time callbacks with their arguments) with a reference interpreter started in the same state, all kept results compared again after the last execution; the same value is then wrapped in each of the 8 Recover variants with equivalent handlers and every wrapper is executed from two initial states. Program VALUES are shared inside a skeleton too: a position is filled with an already bound value with probability 1/5, a new subtree is bound with probability 1/5, and with probability 1/4 the operands of Map2/Zip/Ap/ApFunc/Flatten/FlatMapConst/FlatMap/FlatMap2/Map3/Zip3/Concat/Sequence/SequenceIterator are one and the same value, as are a program and the program its RecoverWith/RecoverCaseWith handler or TransformWith failure branch returns (build returns the identical fp.StateT for every occurrence; the reference just runs the sub-program again). A mismatch is keyed by the smallest sub-program that disagrees when built on its own and executed as often (<site>/result|state|callbacks for its first execution, <site>/rerun-differs for a later one). Rerun batches: the raw Iterator/Seq/slice/accumulator-valued program of FoldM, the 6 Traverse forms, FlatMapTraverseSeq/Slice, Sequence, SequenceIterator is built once from its (one-shot) iterator, executed 3..5 times by Run/Exec/Eval from PRNG states (Seq/slice results kept as returned and read again after the later executions, Iterator results read only then) and used at two positions of Concat/Map2/Zip/Sequence/FlatMap/FlatMapConst/its own RecoverWith handler (executed twice). State = string; every state-changing step appends a token naming the step. Law batches run the explicit instances, each program value executed from two initial states (Put;Get / Get>>=Put / Modify = Get>>=Put.f / k steps through each sequencing combinator with a failing step / ModifyT failure / the 8 Recover variants on one program). distinct_nontrivial = distinct (program, initial state, failure set) executions in which a failure originated when the state already differed from the initial state AND the final state differs from the failure-free execution of the same skeleton (the failure cut off a later state change), plus left-to-right law instances whose failing step is neither first nor last, plus rerun cases (program, states, failure set) over at least two elements, plus capture cases over a caller slice of at least two elements. INPUT CAPTURE: a program is a value built from its inputs as they were at the call. In every batch the slice handed to Sequence / SequenceIterator (behind iterator.FromSeq) / Concat (the slice spread into the variadic parameter) / the six Traverse forms / FoldM is overwritten by its owner as soon as the combinator has returned (other steps that change state and log, other items); a disagreement is re-examined with the slice left alone and keyed <site>/reads-input-after-build when that control agrees. Capture batches (appended last) call each of the ten sites with a caller-owned buffer of 0,1,2,3,..9,12,16,17,33 elements with 0..3 spare capacity and execute the program 2..4 times by Run/Exec/Eval from PRNG states; before every execution the caller re-uses its buffer by a PRNG script (overwrite one / all positions with decoy steps or a failing step, reverse, rotate, clear the tail to nil, truncate and re-append, append into the spare capacity); every execution must equal the reference interpretation of the program as written; control = the identical schedule with the writes going to a clone of the buffer.",
		Assumptions: []string{
			"user callbacks are deterministic and touch nothing but the run's own log",
			"programs are PRNG samples up to the size bound, not all programs; failure positions of a sampled skeleton are enumerated exhaustively one at a time",
			"S = string and A = int only; StateT code is parametric in both",
			"PeekState's callback on a failed program is accepted either way (called with the post-failure state, or not called)",
			"callbacks that only construct a program from arguments known before the run (Traverse fn, FoldM f, ApFunc thunk, Compose f1) are not part of the compared callback log",
			"a StateT value is a re-runnable description: executing it again, from any state and at any position of a larger program, means the same as executing a freshly built one; an fp.Iterator ARGUMENT is single-use, so a program is built from it once and that program value is what gets executed repeatedly",
			"failure sets are fixed per built program value (FromTry/ApTry/ApOption bake the outcome in at construction); executions of one value differ in method and initial state only",
			"slice, variadic and iterator ARGUMENTS are read while the program is built (what the unchanged library does at all ten sites: FoldM drains its iterator into FlatMap closures, Concat folds its variadic slice into FlatMapConst): the caller may re-use its buffer as soon as the call has returned. The Seq / slice a FlatMapTraverse* program produces at run time is not a build-time input and is not tampered with",
		},
		Floors: func(tier string) map[string]int64 {
			f := map[string]int64{"programs": 60000, "runs": 200000, "runs.top_level_failure": 20000, "runs.failure_recovered": 8000, "distinct": 10000,
				"laws.left_to_right_with_failure": 1000, "laws.recover_with_failure": 100,
				"program_values": 150000, "executions": 2000000, "executions.of_an_already_executed_value": 500000, "executions.from_another_initial_state": 300000,
				"programs.with_a_value_at_several_positions": 8000, "programs.shared_value_executed_twice_in_one_run": 8000,
				"rerun.cases": 5000, "rerun.executions_after_the_first": 20000, "rerun.results_inspected_after_later_executions": 10000}
			for _, k := range rerunKinds {
				f["hit.rerun/"+site(k)] = 300
			}
			for _, n := range reuseNames {
				f["hit.reuse/"+n] = 500
			}
			for _, k := range []int{kRecoverWith, kRecoverCaseWith, kTransformWith, kFlatten, kFlatMapConst, kMap2, kZip, kAp, kApFunc, kFlatMap, kFlatMap2, kMap3, kZip3, kSequence, kSequenceIterator, kConcat} {
				f["hit.same-value-operands@"+site(k)] = 200
			}
			for k := 0; k < nKinds; k++ {
				f["hit."+site(k)+kindSuffix(k)] = 300
				if fallible(k) {
					f["hit.fail@"+site(k)] = 100
				}
				if isRecover(k) {
					f["hit.outcome/"+kindName[k]+".success-untouched"] = 50
					f["hit.outcome/"+kindName[k]+".handled"] = 50
				}
			}
			for _, k := range []int{kRecoverT, kRecoverWithStateT, kRecoverCaseT} {
				f["hit.outcome/"+kindName[k]+".handler-fails"] = 20
			}
			for _, k := range []int{kRecoverCase, kRecoverCaseT, kRecoverCaseWith} {
				f["hit.outcome/"+kindName[k]+".not-defined-at"] = 20
			}
			for _, n := range []string{"Recover", "RecoverT", "RecoverWithState", "RecoverWithStateT", "RecoverWith", "RecoverCase", "RecoverCaseT", "RecoverCaseWith"} {
				f["recover."+n+".failure"] = 5000
				f["recover."+n+".success"] = 5000
			}
			for _, l := range lawNames {
				f["hit.law/"+l] = 100
			}
			// input capture: every slice / variadic / iterator site, every length, every script step
			for _, k := range captureKinds {
				f["hit.capture/"+site(k)] = 400
			}
			for _, n := range captureSizes {
				f["capture.slice_len."+strconv.Itoa(n)] = 200
			}
			for _, t := range tamperName {
				f["capture.tamper."+t] = 1000
			}
			f["capture.cases"] = 5000
			f["capture.executions_after_the_caller_reused_its_slice"] = 20000
			f["capture.concat_with_two_or_more_variadic_steps"] = 300
			return f
		},
	})
}

func kindSuffix(k int) string {
	if k == kArg {
		return "(arg)"
	}
	return ""
}
