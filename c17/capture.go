// Input capture: a StateT program is a value built from its inputs as they were at the call.
//
// Every combinator that takes a slice, a variadic parameter or an iterator (statet.Concat,
// Sequence, SequenceIterator, the six Traverse forms, FoldM) is called with a buffer the CALLER
// owns (for Concat the slice that is spread into the variadic parameter, for the iterator forms
// the slice behind iterator.FromSeq). When the call has returned the caller re-uses its buffer
// between the executions of the program: it overwrites one or all positions (with other steps,
// with a failing step), reverses / rotates it, clears the tail (nil steps), truncates and
// re-appends (append(buf[:0], …)), appends into the spare capacity. Every execution must equal
// the reference interpretation of the program as it was WRITTEN, i.e. of the inputs at the call.
//
// What the unchanged library does (established by reading and by the control runs below): all
// ten sites consume their input while the program is built (FoldM drains its iterator into a
// chain of FlatMap closures, Concat folds its variadic slice into nested FlatMapConst), so no
// later write to the buffer can be seen. That is also what the property implies: the state flows
// left to right through the steps of the program as written, and an fp.Iterator argument is
// single-use, so a re-runnable program cannot keep reading it.
//
// A mismatch is decided by a control run: the identical schedule, but the scripts are applied
// to a CLONE of the buffer. Control clean => <site>/reads-input-after-build; otherwise the
// control's own verdict (<site>/raw-result|raw-state|raw-callbacks|panic) is reported.
package main

import (
	"fmt"
	"math/rand/v2"
	"strconv"
	"strings"

	"verif/vrt"

	"github.com/csgura/fp"
	"github.com/csgura/fp/iterator"
	"github.com/csgura/fp/statet"
	"github.com/csgura/fp/try"
)

var captureKinds = []int{kConcat, kSequence, kSequenceIterator, kTraverse, kTraverseFunc, kTraverseSeq, kTraverseSeqFunc, kTraverseSlice, kTraverseSliceFunc, kFoldM}

// lengths of the caller's slice (Concat: start + tail, so 3 is the first length with two tail steps)
var captureSizes = []int{0, 1, 2, 3, 3, 4, 5, 6, 7, 8, 9, 12, 16, 17, 33}

const (
	tOverwriteOne = iota
	tOverwriteAll
	tReverse
	tRotate
	tClearTail
	tReappend
	tAppendSpare
	nTamper
)

var tamperName = [nTamper]string{"overwrite-one", "overwrite-all", "reverse", "rotate", "clear-tail", "truncate-and-reappend", "append-into-spare-capacity"}

type tamperOp struct{ kind, a, b int }

type capRound struct {
	ops  []tamperOp
	exec execOp
}

// tamper applies one script step to the caller's buffer (which may be re-sliced by it: the
// caller's own slice header changes, the callee's copy of it cannot).
func tamper[E any](buf []E, alts []E, op tamperOp) []E {
	n := len(buf)
	var zero E
	switch op.kind {
	case tOverwriteOne:
		if n > 0 {
			buf[op.a%n] = alts[op.b%len(alts)]
		}
	case tOverwriteAll:
		for j := range buf {
			buf[j] = alts[(j+op.b)%len(alts)]
		}
	case tReverse:
		for a, b := 0, n-1; a < b; a, b = a+1, b-1 {
			buf[a], buf[b] = buf[b], buf[a]
		}
	case tRotate:
		if n > 1 {
			first := buf[0]
			copy(buf, buf[1:])
			buf[n-1] = first
		}
	case tClearTail:
		if n > 0 {
			for j := op.a % n; j < n; j++ {
				buf[j] = zero
			}
		}
	case tReappend:
		m := op.a % (cap(buf) + 1)
		buf = buf[:0]
		for j := 0; j < m; j++ {
			buf = append(buf, alts[(j+op.b)%len(alts)])
		}
	case tAppendSpare:
		if n < cap(buf) {
			_ = append(buf, alts[op.b%len(alts)])
		}
	}
	return buf
}

// capJudge executes p once and compares with the reference interpretation of the node as
// written. pick maps the reference's element results to what the program returns.
func capJudge[T any](n *node, env int, fails []bool, errs []error, p fp.StateT[S, T], lc *rctx, op execOp, st string, view func(T) []int, pick func([]int) []int) (what, detail string) {
	defer func() {
		if r := recover(); r != nil {
			if _, isBudget := r.(vrt.BudgetExceeded); isBudget {
				panic(r)
			}
			what, detail = "panic", fmt.Sprintf("%s(%q) panicked: %v", methodName[op.m], st, r)
		}
	}()
	rc := &rctx{fails: fails, errs: errs}
	vals, werr, ws := rc.refList(n, env, st)
	var want []int
	if werr == nil {
		want = pick(vals)
	}
	lc.trace = nil
	lc.budget = vrt.NewBudget(int64(len(rc.trace)*4+256), "callbacks of one StateT run")
	var t fp.Try[T]
	var s string
	hasT, hasS := false, false
	switch op.m {
	case 'R':
		t, s = p.Run(st)
		hasT, hasS = true, true
	case 'V':
		t = p.Eval(st)
		hasT = true
	case 'X':
		et := p.Exec(st)
		if werr == nil {
			if !et.IsSuccess() || et.Get() != ws {
				return "state", fmt.Sprintf("Exec(%q) = %v, reference Success(%q)", st, et, ws)
			}
		} else if !et.IsFailure() || et.Failed().Get() != werr {
			return "result", fmt.Sprintf("Exec(%q) = %v, reference Failure(%s)", st, et, errStr(werr))
		}
	}
	if hasT {
		if werr != nil {
			if !t.IsFailure() || t.Failed().Get() != werr {
				return "result", fmt.Sprintf("%s(%q) result %v, reference Failure(%s)", methodName[op.m], st, t, errStr(werr))
			}
		} else {
			if !t.IsSuccess() {
				return "result", fmt.Sprintf("%s(%q) result %v, reference Success(%v)", methodName[op.m], st, t, want)
			}
			if got := view(t.Get()); !eqInts(got, want) {
				return "result", fmt.Sprintf("%s(%q) result %v, reference %v", methodName[op.m], st, got, want)
			}
		}
	}
	if hasS && s != ws {
		return "state", fmt.Sprintf("%s(%q) final state %q, reference %q", methodName[op.m], st, s, ws)
	}
	if ok, why := sameTrace(lc.trace, rc.trace); !ok {
		return "callbacks", fmt.Sprintf("%s(%q): %s", methodName[op.m], st, why)
	}
	return "", ""
}

type capCase struct {
	kind   int
	n      *node
	env    int
	fails  []bool
	errs   []error
	states []string
	rounds []capRound
	spare  int
}

func identInts(l []int) []int { return l }
func lastInt(l []int) []int   { return l[len(l)-1:] }

// capRun builds the program from a caller-owned buffer and plays the rounds. control = the
// scripts hit a clone of the buffer. round is the 0-based round of the first disagreement.
func (cc *capCase) run(control bool, count func(string)) (what, detail string, round int) {
	n, kind := cc.n, cc.kind
	// the steps themselves are built with their own inputs left alone in both runs: the only
	// difference between a run and its control is who gets the writes, the buffer or its clone
	lc := &rctx{fails: cc.fails, errs: cc.errs, keepInputs: true}
	play := func(judge func(op execOp, st string) (string, string), tamperAll func(ops []tamperOp)) (string, string, int) {
		for x, rd := range cc.rounds {
			tamperAll(rd.ops)
			if !control && count != nil {
				for _, op := range rd.ops {
					count("capture.tamper." + tamperName[op.kind])
				}
				count("capture.executions_after_the_caller_reused_its_slice")
			}
			if w, d := judge(rd.exec, cc.states[rd.exec.st]); w != "" {
				return w, fmt.Sprintf("execution #%d, after the caller %s: %s", x+1, scriptStr(cc.rounds[:x+1]), d), x
			}
		}
		return "", "", -1
	}
	switch kind {
	case kConcat, kSequence, kSequenceIterator:
		size := len(n.kids)
		buf := make([]ST, size, size+cc.spare)
		for j, kid := range n.kids {
			buf[j] = lc.build(kid, cc.env)
		}
		// what the caller later writes into its buffer: other steps (they change the state and
		// the callback log) and a failing step
		decoyErr := error(&progErr{idx: 900})
		alts := make([]ST, 4)
		for j := 0; j < 3; j++ {
			j := j
			alts[j] = statet.Run(func(s S) (int, S) {
				lc.ev(event{id: -2000 - j, tag: '!', s: s})
				return -500 - j, s + "<decoy" + strconv.Itoa(j) + ">"
			})
		}
		alts[3] = statet.FromTry[S](try.Failure[int](decoyErr))
		target := buf
		mkTarget := func() {
			if control {
				target = append(make([]ST, 0, cap(buf)), buf...)
			}
		}
		tam := func(ops []tamperOp) {
			for _, op := range ops {
				target = tamper(target, alts, op)
			}
		}
		switch kind {
		case kConcat:
			p := statet.Concat(buf[0], buf[1:]...) // the variadic parameter is the caller's buf[1:]
			mkTarget()
			return play(func(op execOp, st string) (string, string) {
				return capJudge(n, cc.env, cc.fails, cc.errs, p, lc, op, st, viewInt, lastInt)
			}, tam)
		case kSequence:
			p := statet.Sequence(buf)
			mkTarget()
			return play(func(op execOp, st string) (string, string) {
				return capJudge(n, cc.env, cc.fails, cc.errs, p, lc, op, st, viewSlice, identInts)
			}, tam)
		default:
			p := statet.SequenceIterator(iterator.FromSeq(buf))
			mkTarget()
			return play(func(op execOp, st string) (string, string) {
				return capJudge(n, cc.env, cc.fails, cc.errs, p, lc, op, st, viewIter, identInts)
			}, tam)
		}
	}
	// item-driven sites: the caller's buffer is a slice of ints
	size := len(n.items)
	buf := make([]int, size, size+cc.spare)
	copy(buf, n.items)
	alts := []int{1001, -1002, 1003, 7}
	target := buf
	mkTarget := func() {
		if control {
			target = append(make([]int, 0, cap(buf)), buf...)
		}
	}
	tam := func(ops []tamperOp) {
		for _, op := range ops {
			target = tamper(target, alts, op)
		}
	}
	fn := func(a int) ST { return lc.build(n.kids[0], a) }
	switch kind {
	case kFoldM:
		p := statet.FoldM(iterator.FromSeq(buf), n.k, func(b, a int) ST { return lc.build(n.kids[0], b*3+a) })
		mkTarget()
		return play(func(op execOp, st string) (string, string) {
			return capJudge(n, cc.env, cc.fails, cc.errs, p, lc, op, st, viewInt, identInts)
		}, tam)
	case kTraverse, kTraverseFunc:
		var p fp.StateT[S, fp.Iterator[int]]
		if kind == kTraverse {
			p = statet.Traverse(iterator.FromSeq(buf), fn)
		} else {
			p = statet.TraverseFunc[S](fn)(iterator.FromSeq(buf))
		}
		mkTarget()
		return play(func(op execOp, st string) (string, string) {
			return capJudge(n, cc.env, cc.fails, cc.errs, p, lc, op, st, viewIter, identInts)
		}, tam)
	case kTraverseSeq, kTraverseSeqFunc:
		var p fp.StateT[S, fp.Seq[int]]
		if kind == kTraverseSeq {
			p = statet.TraverseSeq(fp.Seq[int](buf), fn)
		} else {
			p = statet.TraverseSeqFunc[S](fn)(fp.Seq[int](buf))
		}
		mkTarget()
		return play(func(op execOp, st string) (string, string) {
			return capJudge(n, cc.env, cc.fails, cc.errs, p, lc, op, st, viewSeq, identInts)
		}, tam)
	default:
		var p fp.StateT[S, []int]
		if kind == kTraverseSlice {
			p = statet.TraverseSlice(buf, fn)
		} else {
			p = statet.TraverseSliceFunc[S](fn)(buf)
		}
		mkTarget()
		return play(func(op execOp, st string) (string, string) {
			return capJudge(n, cc.env, cc.fails, cc.errs, p, lc, op, st, viewSlice, identInts)
		}, tam)
	}
}

func scriptStr(rounds []capRound) string {
	var b strings.Builder
	for x, rd := range rounds {
		if x > 0 {
			b.WriteString("; then ")
		}
		for y, op := range rd.ops {
			if y > 0 {
				b.WriteString(" + ")
			}
			fmt.Fprintf(&b, "%s(%d,%d)", tamperName[op.kind], op.a, op.b)
		}
		fmt.Fprintf(&b, " -> %s from state #%d", methodName[rd.exec.m], rd.exec.st)
	}
	return b.String()
}

func genRounds(r *rand.Rand) []capRound {
	rounds := make([]capRound, 2+r.IntN(3))
	for x := range rounds {
		nops := 1 + r.IntN(2)
		if x > 0 && r.IntN(4) == 0 {
			nops = 0 // an execution without another write in between
		}
		for y := 0; y < nops; y++ {
			rounds[x].ops = append(rounds[x].ops, tamperOp{kind: r.IntN(nTamper), a: r.IntN(64), b: r.IntN(64)})
		}
		rounds[x].exec = execOp{"RRXV"[r.IntN(4)], r.IntN(3)}
	}
	return rounds
}

func runCaptureCase(w *vrt.W, i int) {
	r := w.Rand(i)
	kind := captureKinds[(i+w.Batch)%len(captureKinds)]
	size := captureSizes[(i/len(captureKinds)+w.Batch)%len(captureSizes)]
	if kind == kConcat && size == 0 {
		size = 3
	}
	g := &pgen{r: r, budget: 1, maxDep: 1 + r.IntN(2), share: false}
	n := g.newNode(kind)
	switch kind {
	case kConcat, kSequence, kSequenceIterator:
		for j := 0; j < size; j++ {
			g.budget = 1 + r.IntN(3)
			n.kids = append(n.kids, g.gen(1))
		}
	default:
		n.items = make([]int, size)
		for j := range n.items {
			n.items[j] = r.IntN(9) - 4
		}
		g.budget = 2 + r.IntN(4)
		n.kids = []*node{g.gen(1)}
	}
	setSizes(n)
	desc := n.String()
	env := r.IntN(5) - 2
	states := []string{statePool[r.IntN(len(statePool))], randState(r), randState(r)}
	nfp := len(g.errs)
	variants := [][]bool{make([]bool, nfp)}
	if nfp > 0 {
		f := make([]bool, nfp)
		f[r.IntN(nfp)] = true
		variants = append(variants, f)
		if r.IntN(2) == 0 {
			f := make([]bool, nfp)
			for j := range f {
				f[j] = r.IntN(3) == 0
			}
			variants = append(variants, f)
		}
	}
	st := site(kind)
	w.Begin(i, st)
	for _, fails := range variants {
		cc := &capCase{kind: kind, n: n, env: env, fails: fails, errs: g.errs, states: states, rounds: genRounds(r), spare: r.IntN(4)}
		wit := map[string]any{"site": st, "program_as_written": desc, "arg": env, "initial_states": states, "failing_points": failStr(fails),
			"caller_slice_len": size, "caller_slice_spare_capacity": cc.spare, "what_the_caller_did_with_its_slice_between_executions": scriptStr(cc.rounds)}
		bad := false
		ok := w.Guard(i, func() any { return wit }, func() {
			w.Site(st)
			what, detail, _ := cc.run(false, func(c string) { w.Add(c, 1) })
			w.Add("capture.program_values", 1)
			if what == "" {
				return
			}
			bad = true
			cwhat, cdetail, _ := cc.run(true, nil)
			if cwhat == "" {
				w.Violation(i, st+"/reads-input-after-build", detail+"\nprogram as written: "+desc+
					"\n(control: the same program and schedule with the writes going to a copy of the slice agrees with the reference on every execution)", wit)
				return
			}
			if cwhat != "panic" {
				cwhat = "raw-" + cwhat
			}
			w.Violation(i, st+"/"+cwhat, cdetail+"\nprogram as written: "+desc, wit)
		})
		if !ok || bad {
			break
		}
		if size >= 2 {
			w.Distinct("capture:" + desc + "@" + strings.Join(states, ",") + "!" + failStr(fails) + "~" + scriptStr(cc.rounds))
		}
	}
	w.Done(i)
	w.Hit("capture/" + st)
	w.Add("capture.cases", 1)
	w.Add("capture.slice_len."+strconv.Itoa(size), 1)
	if kind == kConcat && size >= 3 {
		w.Add("capture.concat_with_two_or_more_variadic_steps", 1)
	}
	if w.WantSample() && i%173 == 0 && len(desc) < 260 {
		w.Sample(map[string]any{"kind": "caller re-uses the slice it built the program from", "site": st, "program": desc, "slice_len": size})
	}
}
