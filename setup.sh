#!/bin/bash
# Offline setup: warm the Go build cache for every worker (normal and race builds).
cd "$(dirname "$(readlink -f "$0")")" || exit 1
export GOFLAGS=-mod=mod GOPROXY=off GOSUMDB=off GOTOOLCHAIN=local
cp /repo/go.sum go.sum 2>/dev/null
mkdir -p bin evidence replay
rc=0
for d in c[0-9][0-9]; do
  [ -f "$d/main.go" ] || continue
  go build -tags verif -o "bin/$d" "./$d" || rc=1
  if [ -f "$d/.race" ]; then go build -race -tags verif -o "bin/$d.race" "./$d" || rc=1; fi
done
exit $rc
