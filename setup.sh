#!/bin/bash
# Offline setup: warm the Go build cache for the worker of every claimed check
# (normal and race builds). Downloads nothing.
cd "$(dirname "$(readlink -f "$0")")" || exit 1
export GOFLAGS=-mod=mod GOPROXY=off GOSUMDB=off GOTOOLCHAIN=local
cp /repo/go.sum go.sum 2>/dev/null
mkdir -p bin evidence replay
rc=0
for id in $(jq -r '.checks[].property_id' MANIFEST.json); do
  d=$(echo "$id" | tr 'C' 'c')
  [ -f "$d/main.go" ] || continue
  go build -tags verif -o "bin/$d" "./$d" || rc=1
  if [ -f "$d/.race" ]; then go build -race -tags verif -o "bin/$d.race" "./$d" || rc=1; fi
done
exit $rc
