// Package sched is a seeded cooperative (token-passing) scheduler. Every logical task is a
// goroutine parked on its own channel; exactly one task holds the token at any time. The
// code under test calls Yield (through the verif hooks before every atomic step), where the
// scheduler picks the next task from the seeded PRNG. The schedule (sequence of chosen
// task ids) is a pure function of the seed; it is hashed for distinct-interleaving counts.
package sched

import (
	"errors"
	"math/rand/v2"
	"sync"
	"time"
)

type Mode int

const (
	Uniform Mode = iota // uniform choice among runnable tasks at every yield
	PCT                 // priority-based with d random priority change points
)

type task struct {
	id     int
	wake   chan struct{}
	fn     func()
	done   bool
	prio   int
	name   string
	lastOp string
}

// S is one scheduler instance (one schedule). Not reusable across seeds.
type S struct {
	r        *rand.Rand
	mode     Mode
	tasks    []*task
	cur      *task
	idle     chan struct{}
	Steps    int
	StepCap  int
	Switches int
	hash     uint64
	trace    []uint16
	KeepTrace bool
	changeAt map[int]bool
	lowPrio  int
	freeRun  bool
	wg       sync.WaitGroup
	OnOp     func(taskID int, op string) // observation callback, runs under the token
	Aborted  bool
	abortCh  chan struct{}
	mu       sync.Mutex
}

// New creates a scheduler. For PCT, depth change points are placed in [0, horizon).
func New(r *rand.Rand, mode Mode, depth, horizon int) *S {
	s := &S{r: r, mode: mode, idle: make(chan struct{}, 1), abortCh: make(chan struct{}), StepCap: 20000, hash: 1469598103934665603, changeAt: map[int]bool{}}
	if mode == PCT {
		if horizon < 1 {
			horizon = 1
		}
		for i := 0; i < depth; i++ {
			s.changeAt[r.IntN(horizon)] = true
		}
	}
	return s
}

// Spawn registers a new task. It may be called by the controller (between Run calls) or by
// the running task (e.g. from the executor hook).
func (s *S) Spawn(name string, fn func()) int {
	s.mu.Lock()
	free := s.freeRun
	t := &task{id: len(s.tasks), wake: make(chan struct{}, 1), fn: fn, name: name, prio: 1 + s.r.IntN(1<<20)}
	s.tasks = append(s.tasks, t)
	s.mu.Unlock()
	s.wg.Add(1)
	go func() {
		defer s.wg.Done()
		if !free {
			<-t.wake
		}
		fn()
		s.finish(t)
	}()
	return t.id
}

func (s *S) runnable() []*task {
	var out []*task
	for _, t := range s.tasks {
		if !t.done {
			out = append(out, t)
		}
	}
	return out
}

func (s *S) pick(rs []*task) *task {
	if len(rs) == 1 {
		return rs[0]
	}
	if s.mode == PCT {
		if s.changeAt[s.Steps] && s.cur != nil && !s.cur.done {
			s.lowPrio--
			s.cur.prio = s.lowPrio
		}
		best := rs[0]
		for _, t := range rs[1:] {
			if t.prio > best.prio {
				best = t
			}
		}
		return best
	}
	return rs[s.r.IntN(len(rs))]
}

func (s *S) record(t *task) {
	s.hash = (s.hash ^ uint64(t.id+1)) * 1099511628211
	if s.KeepTrace && len(s.trace) < 4096 {
		s.trace = append(s.trace, uint16(t.id))
	}
}

// Current returns the id of the task holding the token, or -1 in controller context.
func (s *S) Current() int {
	if s.cur == nil {
		return -1
	}
	return s.cur.id
}

// Yield is called by the running task before an atomic step. In controller context (no
// schedule in progress) it is a no-op.
func (s *S) Yield(op string) {
	s.mu.Lock()
	if s.freeRun || s.cur == nil {
		s.mu.Unlock()
		return
	}
	me := s.cur
	me.lastOp = op
	if s.OnOp != nil {
		s.OnOp(me.id, op)
	}
	s.Steps++
	if s.Steps > s.StepCap {
		// abort: let everything run freely to the end
		s.Aborted = true
		s.freeRun = true
		close(s.abortCh)
		for _, t := range s.tasks {
			if t != me && !t.done {
				select {
				case t.wake <- struct{}{}:
				default:
				}
			}
		}
		s.mu.Unlock()
		return
	}
	next := s.pick(s.runnable())
	s.record(next)
	if next == me {
		s.mu.Unlock()
		return
	}
	s.Switches++
	s.cur = next
	s.mu.Unlock()
	next.wake <- struct{}{}
	<-me.wake
}

func (s *S) finish(t *task) {
	s.mu.Lock()
	t.done = true
	if s.freeRun {
		s.mu.Unlock()
		return
	}
	rs := s.runnable()
	if len(rs) == 0 {
		s.cur = nil
		s.mu.Unlock()
		s.idle <- struct{}{}
		return
	}
	next := s.pick(rs)
	s.record(next)
	s.cur = next
	s.mu.Unlock()
	next.wake <- struct{}{}
}

var ErrStuck = errors.New("no scheduling step for 60 s: the task holding the token is blocked")

// Run executes all registered tasks to quiescence (no runnable task left). It may be called
// repeatedly; tasks spawned by the controller between calls join the next Run.
func (s *S) Run() error {
	s.mu.Lock()
	rs := s.runnable()
	if len(rs) == 0 {
		s.mu.Unlock()
		return nil
	}
	if s.freeRun {
		s.mu.Unlock()
		s.wg.Wait()
		return nil
	}
	first := s.pick(rs)
	s.record(first)
	s.cur = first
	s.mu.Unlock()
	first.wake <- struct{}{}
	last := -1
	for {
		select {
		case <-s.idle:
			return nil
		case <-s.abortCh:
			s.wg.Wait()
			return nil
		case <-time.After(60 * time.Second):
			s.mu.Lock()
			st := s.Steps
			fr := s.freeRun
			s.mu.Unlock()
			if fr {
				s.wg.Wait()
				return nil
			}
			if st == last {
				return ErrStuck
			}
			last = st
		}
	}
}

// Hash identifies the schedule (sequence of scheduling decisions).
func (s *S) Hash() uint64 { return s.hash }

// Trace returns the recorded decisions (task ids), if KeepTrace was set.
func (s *S) Trace() []uint16 { return s.trace }

// TaskName returns the name given at Spawn.
func (s *S) TaskName(id int) string {
	s.mu.Lock()
	defer s.mu.Unlock()
	if id < 0 || id >= len(s.tasks) {
		return "controller"
	}
	return s.tasks[id].name
}
