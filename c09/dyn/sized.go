package dyn

import (
	"math/rand/v2"
	"strconv"
)

// SizedLens are the container lengths around which implementations switch strategy (inline
// vs. table, insertion sort vs. quicksort, doubling capacities).
var SizedLens = []int{0, 1, 7, 8, 9, 15, 16, 17, 31, 32, 33, 63, 64, 65, 100, 128, 129, 257, 1000}

// SizedKinds are the containers a sized domain is built around.
var SizedKinds = []Kind{KSeq, KSlice, KBytes, KGoMap, KFpMap}

func isSizable(k Kind) bool {
	return k == KSeq || k == KSlice || k == KBytes || k == KGoMap || k == KFpMap
}

// KindName names a container kind for counters.
func KindName(k Kind) string {
	return map[Kind]string{KSeq: "seq", KSlice: "slice", KBytes: "bytes", KGoMap: "gomap", KFpMap: "fpmap"}[k]
}

// SizedShape draws a domain that contains exactly one container of the given kind, at the root
// or one / two levels below it (inside Option / Ptr / a small tuple / an hlist), with flat
// elements (a leaf, an Option of a leaf or a pair of leaves). leaves = element leaf kinds.
func SizedShape(r *rand.Rand, kind Kind, leaves []string, wrappers []Kind) *Shape {
	leaf := func() *Shape { return LeafShape(leaves[r.IntN(len(leaves))]) }
	var c *Shape
	switch kind {
	case KBytes:
		c = &Shape{Kind: KBytes}
	case KGoMap, KFpMap:
		c = &Shape{Kind: kind, Leaf: []string{"int", "string"}[r.IntN(2)]}
	default:
		c = &Shape{Kind: kind}
	}
	if kind != KBytes {
		var el *Shape
		switch r.IntN(6) {
		case 0:
			el = &Shape{Kind: KOption, Kids: []*Shape{leaf()}}
		case 1:
			el = &Shape{Kind: KTuple, Kids: []*Shape{leaf(), leaf()}}
		default:
			el = leaf()
		}
		c.Kids = []*Shape{el}
	}
	for lvl := 0; lvl < 2; lvl++ {
		if r.IntN(2) == 0 || len(wrappers) == 0 {
			break
		}
		switch w := wrappers[r.IntN(len(wrappers))]; w {
		case KOption, KPtr:
			c = &Shape{Kind: w, Kids: []*Shape{c}}
		case KTuple, KHList:
			n := 2 + r.IntN(2)
			at := r.IntN(n)
			t := &Shape{Kind: w}
			for i := 0; i < n; i++ {
				if i == at {
					t.Kids = append(t.Kids, c)
				} else {
					t.Kids = append(t.Kids, leaf())
				}
			}
			c = t
		}
	}
	return c
}

// sizedSite finds the container of a sized value (first in depth-first order); nil if the way
// to it is cut by a None / nil.
func sizedSite(s *Shape, m *M) (*Shape, *M) {
	if isSizable(s.Kind) {
		return s, m
	}
	switch s.Kind {
	case KOption, KPtr:
		if !m.Nil {
			return sizedSite(s.Kids[0], m.Kids[0])
		}
	case KTuple, KHList:
		for i, k := range s.Kids {
			if cs, cm := sizedSite(k, m.Kids[i]); cm != nil {
				return cs, cm
			}
		}
	}
	return nil, nil
}

// SizedLen is the length of the sized container inside m (-1: none).
func SizedLen(s *Shape, m *M) int {
	cs, cm := sizedSite(s, m)
	if cm == nil {
		return -1
	}
	if cs.Kind == KBytes {
		return len(cm.Str)
	}
	return len(cm.Kids)
}

func sizedKey(kind string, i int) any {
	if kind == "int" {
		return i*7 - 3 // spread, includes negatives
	}
	return "k" + strconv.Itoa(i)
}

// GenValueSized draws a value of shape s whose (first) container has exactly n elements /
// bytes / entries; nothing on the way to the container is None / nil.
func GenValueSized(r *rand.Rand, s *Shape, n int) *M {
	used := false
	return genSized(r, s, n, &used)
}

func genSized(r *rand.Rand, s *Shape, n int, used *bool) *M {
	if *used {
		return genValue(r, s, false, 2)
	}
	m := &M{Repr: r.IntN(ReprRange)}
	switch s.Kind {
	case KSeq, KSlice:
		*used = true
		m.Kids = make([]*M, n)
		for i := range m.Kids {
			m.Kids[i] = genValue(r, s.Kids[0], false, 2)
		}
	case KBytes:
		*used = true
		b := make([]byte, n)
		for i := range b {
			b[i] = "abAB\x00\xffz"[r.IntN(7)]
		}
		m.Str = string(b)
	case KGoMap, KFpMap:
		*used = true
		m.Kids = make([]*M, n)
		m.Keys = make([]any, n)
		for j, i := range r.Perm(n) {
			m.Keys[j] = sizedKey(s.Leaf, i)
			m.Kids[j] = genValue(r, s.Kids[0], false, 2)
		}
	case KOption, KPtr:
		m.Kids = []*M{genSized(r, s.Kids[0], n, used)}
	case KTuple, KHList:
		for _, k := range s.Kids {
			m.Kids = append(m.Kids, genSized(r, k, n, used))
		}
	default:
		return genValue(r, s, false, 2)
	}
	return m
}

// pathTo returns the chain of child indices from the root to the sized container.
func pathTo(s *Shape, m *M) ([]int, bool) {
	if isSizable(s.Kind) {
		return nil, true
	}
	switch s.Kind {
	case KOption, KPtr:
		if !m.Nil {
			if p, ok := pathTo(s.Kids[0], m.Kids[0]); ok {
				return append([]int{0}, p...), true
			}
		}
	case KTuple, KHList:
		for i, k := range s.Kids {
			if p, ok := pathTo(k, m.Kids[i]); ok {
				return append([]int{i}, p...), true
			}
		}
	}
	return nil, false
}

// withSized returns a copy of m (fresh, unpinned nodes on the way) whose sized container was
// replaced by f(container shape, a shallow copy of the container model).
func withSized(s *Shape, m *M, f func(cs *Shape, c *M)) *M {
	path, ok := pathTo(s, m)
	if !ok {
		return nil
	}
	root := *m
	root.unpin()
	cur, cs := &root, s
	for _, i := range path {
		cur.Kids = append([]*M(nil), cur.Kids...)
		kid := *cur.Kids[i]
		kid.unpin()
		cur.Kids[i] = &kid
		cur, cs = &kid, kidShape(cs, i)
	}
	cur.Kids = append([]*M(nil), cur.Kids...)
	cur.Keys = append([]any(nil), cur.Keys...)
	cur.kidx = nil
	f(cs, cur)
	return &root
}

// GenPoolSized builds a pool around one value whose container has n elements: the value, a copy
// in another representation, copies that differ in exactly the first / a middle / the last
// element, one element shorter and one longer, a second independent value of the same length,
// one that shares the first half; and - for slices and byte slices - a pinned twin with windows of
// its backing array (shorter prefix, the same content at another offset).
func GenPoolSized(r *rand.Rand, s *Shape, n int) []Entry {
	var pool []Entry
	add := func(m *M, parent int, rel string, pos int) int {
		if m == nil {
			return -1
		}
		pool = append(pool, Entry{M: m, Parent: parent, Rel: rel, Pos: pos})
		return len(pool) - 1
	}
	b0 := GenValueSized(r, s, n)
	add(b0, -1, "base", -1)
	add(Rerepr(r, s, b0), 0, "rerepr", -1)
	mutAt := func(i int) *M {
		return withSized(s, b0, func(cs *Shape, c *M) {
			if cs.Kind == KBytes {
				b := []byte(c.Str)
				b[i] ^= 0x20
				c.Str = string(b)
				return
			}
			e := c.Kids[i].clone()
			if !mutateIn(r, cs.Kids[0], e, -1) {
				e = GenValue(r, cs.Kids[0])
			}
			c.Kids[i] = e
		})
	}
	if n > 0 {
		for _, i := range []int{0, n / 2, n - 1} {
			if x := mutAt(i); x != nil && !NatEq(s, b0, x) {
				add(x, 0, "mutant", i)
			}
		}
		add(withSized(s, b0, func(cs *Shape, c *M) { // one element shorter
			if cs.Kind == KBytes {
				c.Str = c.Str[:n-1]
				return
			}
			c.Kids = c.Kids[:n-1]
			if c.Keys != nil {
				c.Keys = c.Keys[:n-1]
			}
		}), 0, "prefix", n-1)
	}
	add(withSized(s, b0, func(cs *Shape, c *M) { // one element longer
		switch cs.Kind {
		case KBytes:
			c.Str += "a"
		case KGoMap, KFpMap:
			c.Keys = append(c.Keys, sizedKey(cs.Leaf, n))
			c.Kids = append(c.Kids, GenValue(r, cs.Kids[0]))
		default:
			c.Kids = append(c.Kids, GenValue(r, cs.Kids[0]))
		}
	}), 0, "extend", n)
	add(GenValueSized(r, s, n), -1, "base", -1)
	if n >= 2 {
		other := GenValueSized(r, s, n)
		_, oc := sizedSite(s, other)
		add(withSized(s, b0, func(cs *Shape, c *M) { // the same first half, another second half
			if cs.Kind == KBytes {
				c.Str = c.Str[:n/2] + oc.Str[n/2:]
				return
			}
			for i := n / 2; i < n; i++ {
				c.Kids[i] = oc.Kids[i] // maps: the same keys, other values in the second half
			}
		}), 0, "mutant", -1)
	}
	if cs, _ := sizedSite(s, b0); n > 0 && (cs.Kind == KSeq || cs.Kind == KSlice || cs.Kind == KBytes) {
		twin := b0.clone()
		pin(r, s, twin)
		a := add(twin, 0, "rerepr", -1)
		for _, mode := range []string{"prefix", "shift"} {
			add(AliasVariant(r, s, twin, mode), a, "alias-"+mode, -1)
		}
	}
	for i := range pool {
		pool[i].Shared = HasPins(pool[i].M)
	}
	return pool
}
