package dyn

import (
	"math"
	"math/rand/v2"
	"strconv"
	"strings"

	"github.com/csgura/fp"
)

// Op is one node kind of an instance expression. The C09 monitor uses the natural ops and
// OpContra; C10 additionally the order-only ops.
type Op uint8

const (
	OpLeaf    Op = iota // Given[T] / Number[T] / String — Dom is a KLeaf
	OpBytes             // Bytes
	OpTime              // Time
	OpPtrLeaf           // PtrGiven[T]
	OpSeq
	OpSlice
	OpOption
	OpPtr
	OpGoMap
	OpFpMap
	OpTuple  // TupleN, N = len(Kids)
	OpHList  // HCons(k1, HCons(k2, ... HNil)); no kids = HNil
	OpContra // ContraMap(kid, Fn)
	// order only
	OpField       // ord.GivenField[S,T](Fn), T = Fn.Dst.Leaf
	OpNew         // ord.New(kid as Eq, kid.Less)
	OpFromCompare // ord.FromCompare(kid.Compare scaled)
	OpAsOrd       // as.Ord(kid.Less)
	OpReversed    // kid.Reversed()
	OpThen        // Kids[0].ThenComparing(Kids[1])
	NumOps
)

// Fn is a function applied by ContraMap / GivenField, given twice: on models (reference)
// and on library values (handed to the library).
type Fn struct {
	Name     string
	Src, Dst *Shape
	M        func(*M) *M
	V        func(V) V
}

// Expr is an instance expression over values of shape Dom.
type Expr struct {
	Op      Op
	Dom     *Shape
	Kids    []*Expr
	Fn      *Fn
	Variant int // free choice the instance builder may use (lazy.Done vs lazy.Call, scale of FromCompare, ...)
}

// Format renders the expression with the caller's naming of nodes.
func (e *Expr) Format(name func(*Expr) string) string {
	var b strings.Builder
	e.format(&b, name)
	return b.String()
}

func (e *Expr) format(b *strings.Builder, name func(*Expr) string) {
	b.WriteString(name(e))
	if e.Op == OpHList {
		// HCons(k1, HCons(k2, HNil)) is printed flat
		b.WriteString("{")
		for i, k := range e.Kids {
			if i > 0 {
				b.WriteString(", ")
			}
			k.format(b, name)
		}
		b.WriteString("}")
		return
	}
	if len(e.Kids) == 0 && e.Fn == nil {
		return
	}
	b.WriteString("(")
	for i, k := range e.Kids {
		if i > 0 {
			b.WriteString(", ")
		}
		k.format(b, name)
	}
	if e.Fn != nil {
		if len(e.Kids) > 0 {
			b.WriteString(", ")
		}
		b.WriteString(e.Fn.Name + ":" + e.Fn.Src.String())
	}
	b.WriteString(")")
}

// Walk visits every node.
func (e *Expr) Walk(f func(*Expr)) {
	f(e)
	for _, k := range e.Kids {
		k.Walk(f)
	}
}

// ---- functions for ContraMap / GivenField ---------------------------------------------

func leafM(v any) *M { return &M{Leaf: v} }

func fnID(s *Shape) *Fn {
	return &Fn{Name: "id", Src: s, Dst: s, M: func(m *M) *M { return m }, V: func(v V) V { return v }}
}

var intShape, strShape, f64Shape = LeafShape("int"), LeafShape("string"), LeafShape("float64")

func fnHalf() *Fn {
	return &Fn{Name: "half", Src: intShape, Dst: intShape,
		M: func(m *M) *M { return leafM(m.Leaf.(int) / 2) },
		V: func(v V) V { return v.(int) / 2 }}
}
func fnNeg() *Fn {
	return &Fn{Name: "neg", Src: intShape, Dst: intShape,
		M: func(m *M) *M { return leafM(-m.Leaf.(int)) },
		V: func(v V) V { return -v.(int) }}
}
func fnStrLen() *Fn {
	return &Fn{Name: "len", Src: strShape, Dst: intShape,
		M: func(m *M) *M { return leafM(len(m.Leaf.(string))) },
		V: func(v V) V { return len(v.(string)) }}
}
func fnLower() *Fn {
	return &Fn{Name: "lower", Src: strShape, Dst: strShape,
		M: func(m *M) *M { return leafM(strings.ToLower(m.Leaf.(string))) },
		V: func(v V) V { return strings.ToLower(v.(string)) }}
}
func fnFloor() *Fn {
	return &Fn{Name: "floor", Src: f64Shape, Dst: f64Shape,
		M: func(m *M) *M { return leafM(math.Floor(m.Leaf.(float64))) },
		V: func(v V) V { return math.Floor(v.(float64)) }}
}
func fnSeqLen(src *Shape) *Fn {
	f := &Fn{Name: "len", Src: src, Dst: intShape, M: func(m *M) *M { return leafM(len(m.Kids)) }}
	if src.Kind == KSeq {
		f.V = func(v V) V { return len(v.(fp.Seq[V])) }
	} else {
		f.V = func(v V) V { return len(v.([]V)) }
	}
	return f
}
func fnIsDef(src *Shape) *Fn {
	return &Fn{Name: "isDefined", Src: src, Dst: intShape,
		M: func(m *M) *M { return leafM(btoi(!m.Nil)) },
		V: func(v V) V { return btoi(v.(fp.Option[V]).IsDefined()) }}
}
func fnProj(src *Shape, k int) *Fn {
	n := len(src.Kids)
	return &Fn{Name: "I" + strconv.Itoa(k+1), Src: src, Dst: src.Kids[k],
		M: func(m *M) *M { return m.Kids[k] },
		V: func(v V) V { return UnTuple(n, v)[k] }}
}

// FnsFrom lists the functions applicable to values of shape src (identity first).
func FnsFrom(src *Shape) []*Fn {
	out := []*Fn{fnID(src)}
	switch src.Kind {
	case KLeaf:
		switch src.Leaf {
		case "int":
			out = append(out, fnHalf(), fnNeg())
		case "string":
			out = append(out, fnStrLen(), fnLower())
		case "float64":
			out = append(out, fnFloor())
		}
	case KSeq, KSlice:
		out = append(out, fnSeqLen(src))
	case KOption:
		out = append(out, fnIsDef(src))
	case KTuple:
		for k := range src.Kids {
			out = append(out, fnProj(src, k))
		}
	}
	return out
}

// ---- reference semantics --------------------------------------------------------------

// RefEq decides, on models only, whether the instance denoted by e must call a and b equal.
func RefEq(e *Expr, a, b *M) bool {
	switch e.Op {
	case OpLeaf, OpBytes, OpTime, OpPtrLeaf:
		return NatEq(e.Dom, a, b)
	case OpOption, OpPtr:
		if a.Nil || b.Nil {
			return a.Nil && b.Nil
		}
		return RefEq(e.Kids[0], a.Kids[0], b.Kids[0])
	case OpSeq, OpSlice:
		if len(a.Kids) != len(b.Kids) {
			return false
		}
		for i := range a.Kids {
			if !RefEq(e.Kids[0], a.Kids[i], b.Kids[i]) {
				return false
			}
		}
		return true
	case OpTuple, OpHList:
		for i := range e.Kids {
			if !RefEq(e.Kids[i], a.Kids[i], b.Kids[i]) {
				return false
			}
		}
		return true
	case OpGoMap, OpFpMap:
		if len(a.Kids) != len(b.Kids) {
			return false
		}
		for i, k := range a.Keys {
			j := b.keyIndex(k)
			if j < 0 || !RefEq(e.Kids[0], a.Kids[i], b.Kids[j]) {
				return false
			}
		}
		return true
	case OpContra:
		return RefEq(e.Kids[0], e.Fn.M(a), e.Fn.M(b))
	}
	return RefCmp(e, a, b) == 0
}

func leafCmp(kind string, a, b any) int {
	less := Leaves[kind].Less
	if less(a, b) {
		return -1
	}
	if less(b, a) {
		return 1
	}
	return 0
}

// RefCmp is the reference order (-1, 0, +1) of the Ord instance denoted by e.
func RefCmp(e *Expr, a, b *M) int {
	switch e.Op {
	case OpLeaf:
		return leafCmp(e.Dom.Leaf, a.Leaf, b.Leaf)
	case OpTime:
		switch {
		case a.Sec < b.Sec, a.Sec == b.Sec && a.Ns < b.Ns:
			return -1
		case a.Sec > b.Sec, a.Sec == b.Sec && a.Ns > b.Ns:
			return 1
		}
		return 0
	case OpOption, OpPtr: // None / nil first
		switch {
		case a.Nil && b.Nil:
			return 0
		case a.Nil:
			return -1
		case b.Nil:
			return 1
		}
		return RefCmp(e.Kids[0], a.Kids[0], b.Kids[0])
	case OpSeq, OpSlice: // lexicographic, the shorter prefix first
		for i := 0; i < len(a.Kids) && i < len(b.Kids); i++ {
			if c := RefCmp(e.Kids[0], a.Kids[i], b.Kids[i]); c != 0 {
				return c
			}
		}
		switch {
		case len(a.Kids) < len(b.Kids):
			return -1
		case len(a.Kids) > len(b.Kids):
			return 1
		}
		return 0
	case OpTuple, OpHList:
		for i := range e.Kids {
			if c := RefCmp(e.Kids[i], a.Kids[i], b.Kids[i]); c != 0 {
				return c
			}
		}
		return 0
	case OpContra:
		return RefCmp(e.Kids[0], e.Fn.M(a), e.Fn.M(b))
	case OpField:
		return leafCmp(e.Fn.Dst.Leaf, e.Fn.M(a).Leaf, e.Fn.M(b).Leaf)
	case OpNew, OpFromCompare, OpAsOrd:
		return RefCmp(e.Kids[0], a, b)
	case OpReversed:
		return -RefCmp(e.Kids[0], a, b)
	case OpThen:
		if c := RefCmp(e.Kids[0], a, b); c != 0 {
			return c
		}
		return RefCmp(e.Kids[1], a, b)
	}
	panic("dyn: RefCmp on an op without order")
}

// Aligned is a pair of sub-values compared by a sub-instance.
type Aligned struct {
	Kid  *Expr
	A, B *M
}

// Align lists the component comparisons the instance e performs on (a, b); used to find the
// innermost sub-instance that disagrees with the reference.
func Align(e *Expr, a, b *M) []Aligned {
	var out []Aligned
	switch e.Op {
	case OpOption, OpPtr:
		if !a.Nil && !b.Nil {
			out = append(out, Aligned{e.Kids[0], a.Kids[0], b.Kids[0]})
		}
	case OpSeq, OpSlice:
		for i := 0; i < len(a.Kids) && i < len(b.Kids); i++ {
			out = append(out, Aligned{e.Kids[0], a.Kids[i], b.Kids[i]})
		}
	case OpTuple, OpHList:
		for i := range e.Kids {
			out = append(out, Aligned{e.Kids[i], a.Kids[i], b.Kids[i]})
		}
	case OpGoMap, OpFpMap:
		for i, k := range a.Keys {
			if j := b.keyIndex(k); j >= 0 {
				out = append(out, Aligned{e.Kids[0], a.Kids[i], b.Kids[j]})
			}
		}
	case OpContra:
		out = append(out, Aligned{e.Kids[0], e.Fn.M(a), e.Fn.M(b)})
	case OpNew, OpFromCompare, OpAsOrd, OpReversed:
		out = append(out, Aligned{e.Kids[0], a, b})
	case OpThen:
		out = append(out, Aligned{e.Kids[0], a, b}, Aligned{e.Kids[1], a, b})
	}
	return out
}

// ---- random instance expressions ------------------------------------------------------

// Cfg bounds the expression generator.
type Cfg struct {
	Leaves      []string // leaf kinds for OpLeaf
	MainLeaves  []string // preferred leaf kinds (int/string/float64)
	Ops         []Op     // ops that may be chosen freely
	FieldLeaves []string // result kinds of OpField
	MaxDepth    int      // combinator nesting bound
	Budget      int      // node budget of one expression
}

// Force places one given op at nesting level At (0 = root) of the generated expression.
type Force struct {
	Op    Op
	Arity int    // OpTuple / OpHList
	Leaf  string // OpLeaf / OpPtrLeaf / OpField / map key kind
	At    int
	// LeafKids makes the components of a forced tuple plain leaves (keeps comparisons cheap).
	LeafKids bool
}

type gen struct {
	r        *rand.Rand
	cfg      *Cfg
	budget   int
	leafKids bool
}

func isLeafOp(op Op) bool {
	return op == OpLeaf || op == OpBytes || op == OpTime || op == OpPtrLeaf || op == OpField
}

// GenExpr draws a random instance expression.
func GenExpr(r *rand.Rand, cfg *Cfg, f *Force) *Expr {
	g := &gen{r: r, cfg: cfg, budget: cfg.Budget}
	return g.expr(0, f)
}

func (g *gen) pick(ops []Op) Op { return ops[g.r.IntN(len(ops))] }

func (g *gen) opsWhere(p func(Op) bool) []Op {
	var out []Op
	for _, o := range g.cfg.Ops {
		if p(o) {
			out = append(out, o)
		}
	}
	return out
}

func (g *gen) expr(level int, f *Force) *Expr {
	g.budget--
	if f != nil && f.At <= level {
		g.leafKids = f.LeafKids
		return g.make(f.Op, f.Arity, f.Leaf, level, nil)
	}
	if f != nil {
		// a container on the path to the forced node
		ops := g.opsWhere(func(o Op) bool { return !isLeafOp(o) })
		return g.make(g.pick(ops), -1, "", level, f)
	}
	leafOnly := level >= g.cfg.MaxDepth || g.budget <= 0
	if leafOnly || g.r.IntN(100) < 30+15*level {
		ops := g.opsWhere(isLeafOp)
		if g.r.IntN(4) != 0 { // mostly plain leaves
			return g.make(OpLeaf, -1, "", level, nil)
		}
		return g.make(g.pick(ops), -1, "", level, nil)
	}
	return g.make(g.pick(g.opsWhere(func(o Op) bool { return !isLeafOp(o) })), -1, "", level, nil)
}

func (g *gen) leafKind() string {
	if len(g.cfg.MainLeaves) > 0 && g.r.IntN(10) < 7 {
		return g.cfg.MainLeaves[g.r.IntN(len(g.cfg.MainLeaves))]
	}
	return g.cfg.Leaves[g.r.IntN(len(g.cfg.Leaves))]
}

func (g *gen) arity() int {
	if g.r.IntN(100) < 12 {
		return 1 + g.r.IntN(21)
	}
	return 1 + g.r.IntN(4)
}

func (g *gen) make(op Op, arity int, leaf string, level int, pass *Force) *Expr {
	r := g.r
	e := &Expr{Op: op, Variant: r.IntN(6)}
	leafKids := g.leafKids
	g.leafKids = false
	switch op {
	case OpLeaf:
		if leaf == "" {
			leaf = g.leafKind()
		}
		e.Dom = LeafShape(leaf)
	case OpBytes:
		e.Dom = &Shape{Kind: KBytes}
	case OpTime:
		e.Dom = &Shape{Kind: KTime}
	case OpPtrLeaf:
		if leaf == "" {
			leaf = []string{"int", "string", "float64"}[r.IntN(3)]
		}
		e.Dom = &Shape{Kind: KPtrLeaf, Leaf: leaf}
	case OpSeq, OpSlice, OpOption, OpPtr, OpGoMap, OpFpMap:
		k := g.expr(level+1, pass)
		e.Kids = []*Expr{k}
		kind := map[Op]Kind{OpSeq: KSeq, OpSlice: KSlice, OpOption: KOption, OpPtr: KPtr, OpGoMap: KGoMap, OpFpMap: KFpMap}[op]
		e.Dom = &Shape{Kind: kind, Kids: []*Shape{k.Dom}}
		if op == OpGoMap || op == OpFpMap {
			if leaf == "" {
				leaf = []string{"int", "string"}[r.IntN(2)]
			}
			e.Dom.Leaf = leaf
		}
	case OpTuple, OpHList:
		n := arity
		if n < 0 {
			n = g.arity()
			if op == OpHList {
				n = r.IntN(5)
			}
			if n > g.budget && n > 2 {
				n = 2
			}
		}
		path := -1
		if pass != nil {
			if n == 0 {
				n = 1
			}
			path = r.IntN(n)
		}
		kind := KTuple
		if op == OpHList {
			kind = KHList
		}
		e.Dom = &Shape{Kind: kind}
		for i := 0; i < n; i++ {
			var k *Expr
			switch {
			case leafKids:
				k = g.make(OpLeaf, -1, "", level+1, nil)
			case i == path:
				k = g.expr(level+1, pass)
			default:
				k = g.expr(level+1, nil)
			}
			e.Kids = append(e.Kids, k)
			e.Dom.Kids = append(e.Dom.Kids, k.Dom)
		}
	case OpContra:
		var k *Expr
		if pass == nil && r.IntN(3) == 0 {
			// an int / string / float64 target has the interesting non-injective functions
			k = g.make(OpLeaf, -1, []string{"int", "string", "float64"}[r.IntN(3)], level+1, nil)
			g.budget--
		} else {
			k = g.expr(level+1, pass)
		}
		e.Kids = []*Expr{k}
		e.Fn = g.fnInto(k.Dom)
		e.Dom = e.Fn.Src
	case OpField:
		if leaf == "" {
			leaf = g.cfg.FieldLeaves[r.IntN(len(g.cfg.FieldLeaves))]
		}
		for {
			e.Fn = g.fnInto(LeafShape(leaf))
			if e.Fn.Name != "id" || r.IntN(3) == 0 {
				break
			}
		}
		e.Dom = e.Fn.Src
	case OpNew, OpFromCompare, OpAsOrd, OpReversed:
		var k *Expr
		if op == OpReversed && pass == nil && level+1 < g.cfg.MaxDepth && r.IntN(3) == 0 {
			// Option and as.Ord are the LessFunc-backed instances: reach LessFunc.Reversed too
			g.budget--
			k = g.make([]Op{OpAsOrd, OpOption}[r.IntN(2)], -1, "", level+1, nil)
		} else {
			k = g.expr(level+1, pass)
		}
		e.Kids = []*Expr{k}
		e.Dom = k.Dom
	case OpThen:
		sec := g.expr(level+1, pass)
		prim := g.coarse(sec.Dom)
		if r.IntN(3) == 0 {
			prim = &Expr{Op: OpAsOrd, Dom: prim.Dom, Kids: []*Expr{prim}} // LessFunc.ThenComparing
		}
		e.Kids = []*Expr{prim, sec}
		e.Dom = sec.Dom
	default:
		panic("dyn: cannot make op")
	}
	return e
}

func (g *gen) smallShape() *Shape {
	if g.r.IntN(4) == 0 {
		return &Shape{Kind: KSeq, Kids: []*Shape{LeafShape(g.leafKind())}}
	}
	return LeafShape(g.leafKind())
}

// fnInto chooses a function whose result has shape dst (and with it the source shape).
func (g *gen) fnInto(dst *Shape) *Fn {
	r := g.r
	var cands []func() *Fn
	cands = append(cands, func() *Fn { return fnID(dst) })
	proj := func() *Fn {
		n := 2 + r.IntN(3)
		if r.IntN(8) == 0 {
			n = 1 + r.IntN(21)
		}
		k := r.IntN(n)
		src := &Shape{Kind: KTuple}
		for i := 0; i < n; i++ {
			if i == k {
				src.Kids = append(src.Kids, dst)
			} else {
				src.Kids = append(src.Kids, g.smallShape())
			}
		}
		return fnProj(src, k)
	}
	cands = append(cands, proj, proj)
	if dst.Kind == KLeaf {
		switch dst.Leaf {
		case "int":
			cands = append(cands, fnHalf, fnHalf, fnNeg, fnStrLen,
				func() *Fn { return fnSeqLen(&Shape{Kind: KSeq, Kids: []*Shape{g.smallShape()}}) },
				func() *Fn { return fnSeqLen(&Shape{Kind: KSlice, Kids: []*Shape{g.smallShape()}}) },
				func() *Fn { return fnIsDef(&Shape{Kind: KOption, Kids: []*Shape{g.smallShape()}}) })
		case "string":
			cands = append(cands, fnLower, fnLower, fnLower)
		case "float64":
			cands = append(cands, fnFloor, fnFloor, fnFloor)
		}
	}
	return cands[r.IntN(len(cands))]()
}

// Natural is the structural instance expression of a shape.
func Natural(s *Shape) *Expr {
	e := &Expr{Dom: s}
	switch s.Kind {
	case KLeaf:
		e.Op = OpLeaf
	case KBytes:
		e.Op = OpBytes
	case KTime:
		e.Op = OpTime
	case KPtrLeaf:
		e.Op = OpPtrLeaf
	case KSeq:
		e.Op = OpSeq
	case KSlice:
		e.Op = OpSlice
	case KOption:
		e.Op = OpOption
	case KPtr:
		e.Op = OpPtr
	case KGoMap:
		e.Op = OpGoMap
	case KFpMap:
		e.Op = OpFpMap
	case KTuple:
		e.Op = OpTuple
	case KHList:
		e.Op = OpHList
	}
	for _, k := range s.Kids {
		e.Kids = append(e.Kids, Natural(k))
	}
	return e
}

// coarse makes an order over src that has ties (where the shape allows one): a ContraMap or
// GivenField through a non-injective function. Used as the primary order of ThenComparing.
func (g *gen) coarse(src *Shape) *Expr {
	fns := FnsFrom(src)
	fn := fns[0]
	if len(fns) > 1 {
		fn = fns[1+g.r.IntN(len(fns)-1)]
	}
	if fn.Dst.Kind == KLeaf && g.r.IntN(2) == 0 {
		for _, l := range g.cfg.FieldLeaves {
			if l == fn.Dst.Leaf {
				return &Expr{Op: OpField, Dom: src, Fn: fn}
			}
		}
	}
	return &Expr{Op: OpContra, Dom: src, Fn: fn, Kids: []*Expr{Natural(fn.Dst)}}
}

// Depth is the nesting depth of the expression (a leaf instance has depth 1).
func (e *Expr) Depth() int {
	d := 0
	for _, k := range e.Kids {
		if kd := k.Depth(); kd > d {
			d = kd
		}
	}
	return d + 1
}
