// Package dyn is the value universe shared by the C09 (Eq/Hashable) and C10 (Ord) monitors.
//
// Library instances are generic; to nest them to a random depth at run time every component
// type is instantiated at V = any and a value is handed to the library as a boxed Go value
// (int, string, fp.Seq[V], fp.Option[V], *V, fp.TupleN[V,...], hlist.Cons[V,V], map[K]V, ...).
// Every value exists twice: as a *model* (type M, a plain tree the reference oracle works on)
// and as the library value that Build makes from the model (freshly allocated on every call).
// Nothing in this package calls eq, hash or ord: the reference is plain Go over the model.
package dyn

import (
	"fmt"
	"math"
	"math/rand/v2"
	"strconv"
	"strings"
	"time"

	"github.com/csgura/fp"
	"github.com/csgura/fp/hlist"
	"github.com/csgura/fp/immutable"
)

// V is the boxed library value.
type V = any

// ---- leaf kinds -----------------------------------------------------------------------

// Pt is a comparable struct leaf (eq.Given only).
type Pt struct {
	X int
	S string
}

// LeafKind describes one primitive leaf type.
type LeafKind struct {
	Name string
	Gen  func(r *rand.Rand) any
	Mut  func(r *rand.Rand, v any) any // a value that is != v
	Less func(a, b any) bool           // nil: the kind has no order
	Num  bool                          // fp.ImplicitNum (hash.Number applies)
	Bits func(v any) uint64            // representation bits; nil: == decides identity
}

type integer interface {
	~int | ~int8 | ~int16 | ~int32 | ~int64 | ~uint | ~uint8 | ~uint16 | ~uint32 | ~uint64 | ~uintptr
}

func intKind[T integer](name string, lo, hi T) *LeafKind {
	gen := func(r *rand.Rand) any {
		switch r.IntN(10) {
		case 0:
			return lo
		case 1:
			return hi
		case 2:
			return lo + 1
		case 3:
			return hi - 1
		case 4:
			return T(r.Uint64())
		}
		if lo < 0 {
			return T(r.IntN(7) - 3)
		}
		return T(r.IntN(6))
	}
	return &LeafKind{
		Name: name, Gen: gen, Num: true,
		Mut: func(r *rand.Rand, v any) any {
			x := v.(T)
			if r.IntN(2) == 0 {
				for k := 0; k < 8; k++ {
					if y := gen(r).(T); y != x {
						return y
					}
				}
			}
			if x == hi {
				return x - 1
			}
			return x + 1
		},
		Less: func(a, b any) bool { return a.(T) < b.(T) },
	}
}

func floatKind[T ~float32 | ~float64](name string, maxv, tiny T) *LeafKind {
	negZero := T(math.Copysign(0, -1))
	vals := []T{0, negZero, 0, negZero, 1, -1, 0.5, 1.5, 2, -2.5, T(math.Inf(1)), T(math.Inf(-1)), maxv, -maxv, tiny, 1e10, 3}
	gen := func(r *rand.Rand) any { return vals[r.IntN(len(vals))] }
	return &LeafKind{
		Name: name, Gen: gen, Num: true,
		Mut: func(r *rand.Rand, v any) any {
			x := v.(T)
			for {
				if y := gen(r).(T); y != x {
					return y
				}
			}
		},
		Less: func(a, b any) bool { return a.(T) < b.(T) },
		Bits: func(v any) uint64 { return math.Float64bits(float64(v.(T))) },
	}
}

var strVals = []string{"", "", "a", "a", "A", "ab", "aB", "Ab", "abc", "abd", "b", "B", "ä", "a\x00", "a\x00b", "ba", "zzzzzzzzzzzzzzzzzzzzzzzzzzzzzzzzzzzzzzzz", "zzzzzzzzzzzzzzzzzzzzzzzzzzzzzzzzzzzzzzzy"}

func genString(r *rand.Rand) string {
	if r.IntN(4) == 0 {
		n := 1 + r.IntN(3)
		b := make([]byte, n)
		for i := range b {
			b[i] = "abAB"[r.IntN(4)]
		}
		return string(b)
	}
	return strVals[r.IntN(len(strVals))]
}

func mutString(r *rand.Rand, s string) string {
	switch r.IntN(3) {
	case 0:
		if len(s) > 0 {
			return s[:len(s)-1]
		}
	case 1:
		if len(s) > 0 {
			b := []byte(s)
			b[len(b)-1] ^= 0x20 // flips the case of ASCII letters, always a different byte
			return string(b)
		}
	}
	return s + "a"
}

// Leaves is the registry of leaf kinds by name.
var Leaves = map[string]*LeafKind{}

// LeafNames in a fixed order.
var LeafNames []string

func reg(k *LeafKind) {
	Leaves[k.Name] = k
	LeafNames = append(LeafNames, k.Name)
}

func init() {
	reg(intKind[int]("int", math.MinInt, math.MaxInt))
	reg(intKind[int8]("int8", math.MinInt8, math.MaxInt8))
	reg(intKind[int16]("int16", math.MinInt16, math.MaxInt16))
	reg(intKind[int32]("int32", math.MinInt32, math.MaxInt32))
	reg(intKind[int64]("int64", math.MinInt64, math.MaxInt64))
	reg(intKind[uint]("uint", 0, math.MaxUint))
	reg(intKind[uint8]("uint8", 0, math.MaxUint8))
	reg(intKind[uint16]("uint16", 0, math.MaxUint16))
	reg(intKind[uint32]("uint32", 0, math.MaxUint32))
	reg(intKind[uint64]("uint64", 0, math.MaxUint64))
	reg(intKind[uintptr]("uintptr", 0, math.MaxUint))
	reg(floatKind[float32]("float32", math.MaxFloat32, math.SmallestNonzeroFloat32))
	reg(floatKind[float64]("float64", math.MaxFloat64, math.SmallestNonzeroFloat64))
	reg(&LeafKind{
		Name: "string",
		Gen:  func(r *rand.Rand) any { return genString(r) },
		Mut:  func(r *rand.Rand, v any) any { return mutString(r, v.(string)) },
		Less: func(a, b any) bool { return a.(string) < b.(string) },
	})
	reg(&LeafKind{
		Name: "bool",
		Gen:  func(r *rand.Rand) any { return r.IntN(2) == 0 },
		Mut:  func(r *rand.Rand, v any) any { return !v.(bool) },
	})
	reg(&LeafKind{
		Name: "Pt",
		Gen:  func(r *rand.Rand) any { return Pt{r.IntN(3), genString(r)} },
		Mut: func(r *rand.Rand, v any) any {
			p := v.(Pt)
			if r.IntN(2) == 0 {
				p.X++
			} else {
				p.S = mutString(r, p.S)
			}
			return p
		},
	})
}

// ---- shapes ---------------------------------------------------------------------------

type Kind uint8

const (
	KLeaf    Kind = iota // Leaf = kind name
	KBytes               // []byte
	KTime                // time.Time
	KSeq                 // fp.Seq[V]
	KSlice               // []V
	KOption              // fp.Option[V]
	KPtr                 // *V
	KPtrLeaf             // *int / *string / *float64 (Leaf = target kind)
	KTuple               // fp.TupleN[V,...,V], N = len(Kids)
	KHList               // hlist.Nil or hlist.Cons[V,V] chains, len(Kids) heads
	KGoMap               // map[int]V / map[string]V (Leaf = key kind)
	KFpMap               // fp.Map[int,V] / fp.Map[string,V]
)

// Shape is the (dynamic) type of a value.
type Shape struct {
	Kind Kind
	Leaf string
	Kids []*Shape
}

func LeafShape(name string) *Shape { return &Shape{Kind: KLeaf, Leaf: name} }

func (s *Shape) String() string {
	switch s.Kind {
	case KLeaf:
		return s.Leaf
	case KBytes:
		return "[]byte"
	case KTime:
		return "time.Time"
	case KSeq:
		return "Seq[" + s.Kids[0].String() + "]"
	case KSlice:
		return "[]" + s.Kids[0].String()
	case KOption:
		return "Option[" + s.Kids[0].String() + "]"
	case KPtr:
		return "*" + s.Kids[0].String()
	case KPtrLeaf:
		return "*" + s.Leaf
	case KTuple, KHList:
		p := make([]string, len(s.Kids))
		for i, k := range s.Kids {
			p[i] = k.String()
		}
		n := "Tuple" + strconv.Itoa(len(s.Kids))
		if s.Kind == KHList {
			n = "HList"
		}
		return n + "[" + strings.Join(p, ",") + "]"
	case KGoMap:
		return "map[" + s.Leaf + "]" + s.Kids[0].String()
	case KFpMap:
		return "fp.Map[" + s.Leaf + "," + s.Kids[0].String() + "]"
	}
	return "?"
}

// ---- models ---------------------------------------------------------------------------

// M is the model of one value. Which fields are used depends on the shape.
type M struct {
	Leaf any    // KLeaf value; KPtrLeaf target
	Str  string // KBytes content
	Ns   int64  // KTime instant
	Nil  bool   // KOption none, KPtr / KPtrLeaf nil
	Kids []*M   // elements / components / map values / option-ptr target
	Keys []any  // map keys, parallel to Kids
	Repr int    // representation variant (nil vs empty, spare capacity, zone, insertion order)
}

func (m *M) clone() *M {
	c := *m
	if m.Kids != nil {
		c.Kids = make([]*M, len(m.Kids))
		for i, k := range m.Kids {
			c.Kids[i] = k.clone()
		}
	}
	if m.Keys != nil {
		c.Keys = append([]any(nil), m.Keys...)
	}
	return &c
}

// Clone is a deep copy.
func (m *M) Clone() *M { return m.clone() }

var zones = []*time.Location{time.UTC, time.FixedZone("plus9", 9*3600), time.FixedZone("minus5", -5*3600), time.FixedZone("plus0530", 5*3600+1800)}

type keyHasher[K comparable] struct{ h func(K) uint32 }

func (k keyHasher[K]) Eqv(a, b K) bool { return a == b }
func (k keyHasher[K]) Hash(a K) uint32 { return k.h(a) }

var intKeyHasher fp.Hashable[int] = keyHasher[int]{func(k int) uint32 { return uint32(k) * 2654435761 }}
var strKeyHasher fp.Hashable[string] = keyHasher[string]{func(s string) uint32 {
	h := uint32(2166136261)
	for i := 0; i < len(s); i++ {
		h ^= uint32(s[i])
		h *= 16777619
	}
	return h
}}

func buildSlice(s *Shape, m *M) []V {
	n := len(m.Kids)
	var out []V
	switch {
	case n == 0 && m.Repr%3 == 0:
		return nil
	case n == 0 && m.Repr%3 == 1:
		return []V{}
	case n == 0:
		return make([]V, 0, 4)
	case m.Repr%2 == 0:
		out = make([]V, n)
	default:
		out = make([]V, n, n+3)
	}
	for i, k := range m.Kids {
		out[i] = Build(s.Kids[0], k)
	}
	return out
}

func buildFpMap[K comparable](h fp.Hashable[K], extra K, s *Shape, m *M) V {
	if len(m.Kids) == 0 && m.Repr%3 == 0 {
		return fp.Map[K, V]{} // zero value: an empty map without a hasher
	}
	items := make([]fp.Tuple2[K, V], len(m.Kids))
	for i := range m.Kids {
		j := i
		if m.Repr%2 == 1 {
			j = len(m.Kids) - 1 - i
		}
		items[i] = fp.Tuple2[K, V]{I1: m.Keys[j].(K), I2: Build(s.Kids[0], m.Kids[j])}
	}
	if m.Repr%4 >= 2 {
		// different history: an extra key is inserted first and removed at the end
		mp := immutable.Map[K, V](h, fp.Tuple2[K, V]{I1: extra, I2: V(0)})
		for _, it := range items {
			mp = mp.Updated(it.I1, it.I2)
		}
		return mp.Removed(extra)
	}
	return immutable.Map[K, V](h, items...)
}

func buildGoMap[K comparable](s *Shape, m *M) V {
	if len(m.Kids) == 0 && m.Repr%2 == 0 {
		return map[K]V(nil)
	}
	out := make(map[K]V, len(m.Kids))
	for i := range m.Kids {
		out[m.Keys[i].(K)] = Build(s.Kids[0], m.Kids[i])
	}
	return out
}

// ExtraIntKey / ExtraStrKey never occur as generated map keys.
const ExtraIntKey = 987654321
const ExtraStrKey = "\x01extra"

// Build makes a freshly allocated library value from the model.
func Build(s *Shape, m *M) V {
	switch s.Kind {
	case KLeaf:
		return m.Leaf
	case KBytes:
		n := len(m.Str)
		switch {
		case n == 0 && m.Repr%3 == 0:
			return []byte(nil)
		case n == 0 && m.Repr%3 == 1:
			return []byte{}
		case n == 0:
			return make([]byte, 0, 4)
		case m.Repr%2 == 0:
			return []byte(m.Str)
		}
		b := make([]byte, n, n+5)
		copy(b, m.Str)
		return b
	case KTime:
		sec, ns := m.Ns/1_000_000_000, m.Ns%1_000_000_000
		return time.Unix(sec, ns).In(zones[m.Repr%len(zones)])
	case KSeq:
		return fp.Seq[V](buildSlice(s, m))
	case KSlice:
		return buildSlice(s, m)
	case KOption:
		if m.Nil {
			return fp.None[V]()
		}
		return fp.Some[V](Build(s.Kids[0], m.Kids[0]))
	case KPtr:
		if m.Nil {
			return (*V)(nil)
		}
		p := new(V)
		*p = Build(s.Kids[0], m.Kids[0])
		return p
	case KPtrLeaf:
		switch s.Leaf {
		case "int":
			if m.Nil {
				return (*int)(nil)
			}
			x := m.Leaf.(int)
			return &x
		case "string":
			if m.Nil {
				return (*string)(nil)
			}
			x := m.Leaf.(string)
			return &x
		case "float64":
			if m.Nil {
				return (*float64)(nil)
			}
			x := m.Leaf.(float64)
			return &x
		}
		panic("dyn: bad KPtrLeaf " + s.Leaf)
	case KTuple:
		vs := make([]V, len(s.Kids))
		for i := range s.Kids {
			vs[i] = Build(s.Kids[i], m.Kids[i])
		}
		return MkTuple(vs)
	case KHList:
		var t V = hlist.Empty()
		for i := len(s.Kids) - 1; i >= 0; i-- {
			t = hlist.Concat[V, V](Build(s.Kids[i], m.Kids[i]), t)
		}
		return t
	case KGoMap:
		if s.Leaf == "int" {
			return buildGoMap[int](s, m)
		}
		return buildGoMap[string](s, m)
	case KFpMap:
		if s.Leaf == "int" {
			return buildFpMap[int](intKeyHasher, ExtraIntKey, s, m)
		}
		return buildFpMap[string](strKeyHasher, ExtraStrKey, s, m)
	}
	panic("dyn: bad shape")
}

// ---- generation -----------------------------------------------------------------------

var timeVals = []int64{0, 1, -1, 1_000_000_000, 1_700_000_000_123_456_789, 1_700_000_000_123_456_790, -62_000_000_000_000_000, 86_400_000_000_000}

func genKey(r *rand.Rand, kind string) any {
	if kind == "int" {
		return r.IntN(5) - 1
	}
	return []string{"", "a", "b", "A", "ab"}[r.IntN(5)]
}

// GenValue draws a random model of shape s.
func GenValue(r *rand.Rand, s *Shape) *M {
	m := &M{Repr: r.IntN(12)}
	switch s.Kind {
	case KLeaf:
		m.Leaf = Leaves[s.Leaf].Gen(r)
	case KBytes:
		m.Str = genString(r)
	case KTime:
		m.Ns = timeVals[r.IntN(len(timeVals))]
	case KSeq, KSlice:
		n := []int{0, 0, 1, 1, 2, 2, 3, 4, 6}[r.IntN(9)]
		for i := 0; i < n; i++ {
			m.Kids = append(m.Kids, GenValue(r, s.Kids[0]))
		}
	case KOption:
		if r.IntN(3) == 0 {
			m.Nil = true
		} else {
			m.Kids = []*M{GenValue(r, s.Kids[0])}
		}
	case KPtr:
		if r.IntN(4) == 0 {
			m.Nil = true
		} else {
			m.Kids = []*M{GenValue(r, s.Kids[0])}
		}
	case KPtrLeaf:
		if r.IntN(4) == 0 {
			m.Nil = true
		} else {
			m.Leaf = Leaves[s.Leaf].Gen(r)
		}
	case KTuple, KHList:
		for _, k := range s.Kids {
			m.Kids = append(m.Kids, GenValue(r, k))
		}
	case KGoMap, KFpMap:
		n := r.IntN(4)
		for i := 0; i < n; i++ {
			k := genKey(r, s.Leaf)
			if m.keyIndex(k) < 0 {
				m.Keys = append(m.Keys, k)
				m.Kids = append(m.Kids, GenValue(r, s.Kids[0]))
			}
		}
	}
	return m
}

func (m *M) keyIndex(k any) int {
	for i, x := range m.Keys {
		if x == k {
			return i
		}
	}
	return -1
}

// Rerepr returns a copy that denotes the same value in another representation: nil vs empty
// vs spare capacity, 0.0 vs -0.0, another time zone, another map insertion history; pointers
// are re-allocated by Build anyway.
func Rerepr(r *rand.Rand, s *Shape, m *M) *M {
	c := *m
	c.Repr = r.IntN(12)
	if c.Repr == m.Repr {
		c.Repr = (c.Repr + 1 + r.IntN(5)) % 12
	}
	if (s.Kind == KLeaf || s.Kind == KPtrLeaf) && c.Leaf != nil {
		switch x := c.Leaf.(type) {
		case float64:
			if x == 0 {
				c.Leaf = math.Copysign(0, float64(r.IntN(2))-0.5)
			}
		case float32:
			if x == 0 {
				c.Leaf = float32(math.Copysign(0, float64(r.IntN(2))-0.5))
			}
		}
	}
	if m.Keys != nil {
		c.Keys = append([]any(nil), m.Keys...)
	}
	if m.Kids != nil {
		c.Kids = make([]*M, len(m.Kids))
		for i, k := range m.Kids {
			ks := s
			switch s.Kind {
			case KTuple, KHList:
				ks = s.Kids[i]
			default:
				ks = s.Kids[0]
			}
			c.Kids[i] = Rerepr(r, ks, k)
		}
	}
	return &c
}

// Mutate returns a copy that differs from m in exactly one place (one leaf, one element
// appended/dropped, one nil-ness, one map entry), or nil if the shape has a single value.
// pos >= 0 forces the change to happen inside component pos of a tuple / hlist root or
// element pos of a sequence root.
func Mutate(r *rand.Rand, s *Shape, m *M, pos int) *M {
	c := m.clone()
	if mutateIn(r, s, c, pos) {
		return c
	}
	return nil
}

func mutateIn(r *rand.Rand, s *Shape, m *M, pos int) bool {
	switch s.Kind {
	case KLeaf:
		m.Leaf = Leaves[s.Leaf].Mut(r, m.Leaf)
		return true
	case KBytes:
		m.Str = mutString(r, m.Str)
		return true
	case KTime:
		if r.IntN(2) == 0 {
			m.Ns++
		} else {
			m.Ns -= 3_600_000_000_000
		}
		return true
	case KSeq, KSlice:
		if pos >= 0 && pos < len(m.Kids) {
			return mutateIn(r, s.Kids[0], m.Kids[pos], -1)
		}
		n := len(m.Kids)
		c := r.IntN(4)
		if n == 0 {
			c = 0
		}
		switch c {
		case 0:
			m.Kids = append(m.Kids, GenValue(r, s.Kids[0]))
			return true
		case 1:
			m.Kids = m.Kids[:n-1]
			return true
		}
		i := r.IntN(n)
		if mutateIn(r, s.Kids[0], m.Kids[i], -1) {
			return true
		}
		m.Kids = m.Kids[:n-1]
		return true
	case KOption, KPtr:
		if m.Nil {
			m.Nil = false
			m.Kids = []*M{GenValue(r, s.Kids[0])}
			return true
		}
		if r.IntN(3) != 0 && mutateIn(r, s.Kids[0], m.Kids[0], -1) {
			return true
		}
		m.Nil, m.Kids = true, nil
		return true
	case KPtrLeaf:
		if m.Nil {
			m.Nil = false
			m.Leaf = Leaves[s.Leaf].Gen(r)
			return true
		}
		if r.IntN(3) != 0 {
			m.Leaf = Leaves[s.Leaf].Mut(r, m.Leaf)
			return true
		}
		m.Nil, m.Leaf = true, nil
		return true
	case KTuple, KHList:
		n := len(s.Kids)
		if n == 0 {
			return false
		}
		if pos >= 0 && pos < n {
			return mutateIn(r, s.Kids[pos], m.Kids[pos], -1)
		}
		start := r.IntN(n)
		for d := 0; d < n; d++ {
			i := (start + d) % n
			if mutateIn(r, s.Kids[i], m.Kids[i], -1) {
				return true
			}
		}
		return false
	case KGoMap, KFpMap:
		n := len(m.Kids)
		c := r.IntN(3)
		if n == 0 {
			c = 0
		}
		switch c {
		case 0:
			for t := 0; t < 20; t++ {
				k := genKey(r, s.Leaf)
				if m.keyIndex(k) < 0 {
					m.Keys = append(m.Keys, k)
					m.Kids = append(m.Kids, GenValue(r, s.Kids[0]))
					return true
				}
			}
			fallthrough
		case 1:
			if n > 0 {
				i := r.IntN(n)
				m.Keys = append(append([]any(nil), m.Keys[:i]...), m.Keys[i+1:]...)
				m.Kids = append(append([]*M(nil), m.Kids[:i]...), m.Kids[i+1:]...)
				return true
			}
			return false
		}
		i := r.IntN(n)
		if mutateIn(r, s.Kids[0], m.Kids[i], -1) {
			return true
		}
		m.Keys = append(append([]any(nil), m.Keys[:i]...), m.Keys[i+1:]...)
		m.Kids = append(append([]*M(nil), m.Kids[:i]...), m.Kids[i+1:]...)
		return true
	}
	return false
}

// ---- natural (structural) equality on shapes ------------------------------------------

func kidShape(s *Shape, i int) *Shape {
	if s.Kind == KTuple || s.Kind == KHList {
		return s.Kids[i]
	}
	return s.Kids[0]
}

// NatEq is structural equality: Go == at the leaves, instants for times, nil == empty for
// slices / maps / byte slices, pointers by target.
func NatEq(s *Shape, a, b *M) bool {
	switch s.Kind {
	case KLeaf:
		return a.Leaf == b.Leaf
	case KBytes:
		return a.Str == b.Str
	case KTime:
		return a.Ns == b.Ns
	case KPtrLeaf:
		if a.Nil || b.Nil {
			return a.Nil && b.Nil
		}
		return a.Leaf == b.Leaf
	case KOption, KPtr:
		if a.Nil || b.Nil {
			return a.Nil && b.Nil
		}
		return NatEq(s.Kids[0], a.Kids[0], b.Kids[0])
	case KSeq, KSlice, KTuple, KHList:
		if len(a.Kids) != len(b.Kids) {
			return false
		}
		for i := range a.Kids {
			if !NatEq(kidShape(s, i), a.Kids[i], b.Kids[i]) {
				return false
			}
		}
		return true
	case KGoMap, KFpMap:
		if len(a.Kids) != len(b.Kids) {
			return false
		}
		for i, k := range a.Keys {
			j := b.keyIndex(k)
			if j < 0 || !NatEq(s.Kids[0], a.Kids[i], b.Kids[j]) {
				return false
			}
		}
		return true
	}
	panic("dyn: bad shape")
}

// ReprDiff reports whether two NatEq-equal models are represented differently (so that the
// two library values are equal but not identical): nil vs empty vs spare capacity, 0.0 vs
// -0.0, different zones, different map histories, or distinct pointers to equal targets.
func ReprDiff(s *Shape, a, b *M) bool {
	found := false
	ReprDiffs(s, a, b, func(string) { found = true })
	return found
}

// ReprDiffs calls visit with the class of every representation difference between two
// NatEq-equal models.
func ReprDiffs(s *Shape, a, b *M, visit func(class string)) {
	switch s.Kind {
	case KLeaf:
		if bits := Leaves[s.Leaf].Bits; bits != nil && bits(a.Leaf) != bits(b.Leaf) {
			visit("float_zero_sign")
		}
	case KBytes:
		if len(a.Str) == 0 {
			if a.Repr%3 != b.Repr%3 {
				visit("bytes_nil_vs_empty")
			}
		} else if a.Repr%2 != b.Repr%2 {
			visit("bytes_capacity")
		}
	case KTime:
		if a.Repr%len(zones) != b.Repr%len(zones) {
			visit("time_zone")
		}
	case KPtrLeaf:
		if !a.Nil && !b.Nil {
			visit("pointer")
			if bits := Leaves[s.Leaf].Bits; bits != nil && bits(a.Leaf) != bits(b.Leaf) {
				visit("float_zero_sign")
			}
		}
	case KPtr:
		if !a.Nil && !b.Nil {
			visit("pointer")
			ReprDiffs(s.Kids[0], a.Kids[0], b.Kids[0], visit)
		}
	case KOption:
		if !a.Nil && !b.Nil {
			ReprDiffs(s.Kids[0], a.Kids[0], b.Kids[0], visit)
		}
	case KSeq, KSlice, KTuple, KHList:
		if s.Kind == KSeq || s.Kind == KSlice {
			if len(a.Kids) == 0 {
				if a.Repr%3 != b.Repr%3 {
					visit("slice_nil_vs_empty")
				}
			} else if a.Repr%2 != b.Repr%2 {
				visit("slice_capacity")
			}
		}
		for i := range a.Kids {
			if i < len(b.Kids) {
				ReprDiffs(kidShape(s, i), a.Kids[i], b.Kids[i], visit)
			}
		}
	case KGoMap, KFpMap:
		if len(a.Kids) == 0 {
			if emptyMapClass(s, a) != emptyMapClass(s, b) {
				visit("map_nil_vs_empty")
			}
		} else if s.Kind == KFpMap && a.Repr%4 != b.Repr%4 {
			visit("fpmap_history")
		}
		for i, k := range a.Keys {
			if j := b.keyIndex(k); j >= 0 {
				ReprDiffs(s.Kids[0], a.Kids[i], b.Kids[j], visit)
			}
		}
	}
}

// ---- printing -------------------------------------------------------------------------

func showLeaf(v any) string {
	switch x := v.(type) {
	case string:
		return strconv.Quote(x)
	case float64:
		if x == 0 && math.Signbit(x) {
			return "-0.0"
		}
		return strconv.FormatFloat(x, 'g', -1, 64)
	case float32:
		if x == 0 && math.Signbit(float64(x)) {
			return "-0.0"
		}
		return strconv.FormatFloat(float64(x), 'g', -1, 32)
	}
	return fmt.Sprint(v)
}

// Show renders a model (with its representation choices) for witnesses and samples.
func Show(s *Shape, m *M) string {
	var b strings.Builder
	show(&b, s, m)
	return b.String()
}

func show(b *strings.Builder, s *Shape, m *M) {
	switch s.Kind {
	case KLeaf:
		b.WriteString(showLeaf(m.Leaf))
	case KBytes:
		if len(m.Str) == 0 {
			b.WriteString([]string{"[]byte(nil)", "[]byte{}", "[]byte{}cap4"}[m.Repr%3])
		} else {
			fmt.Fprintf(b, "[]byte(%q)", m.Str)
			if m.Repr%2 == 1 {
				b.WriteString("+cap")
			}
		}
	case KTime:
		fmt.Fprintf(b, "time(%dns in %s)", m.Ns, zones[m.Repr%len(zones)])
	case KPtrLeaf:
		if m.Nil {
			b.WriteString("nil")
		} else {
			b.WriteString("&" + showLeaf(m.Leaf))
		}
	case KOption:
		if m.Nil {
			b.WriteString("None")
		} else {
			b.WriteString("Some(")
			show(b, s.Kids[0], m.Kids[0])
			b.WriteString(")")
		}
	case KPtr:
		if m.Nil {
			b.WriteString("nil")
		} else {
			b.WriteString("&")
			show(b, s.Kids[0], m.Kids[0])
		}
	case KSeq, KSlice:
		if len(m.Kids) == 0 {
			b.WriteString([]string{"nil[]", "[]", "[]cap4"}[m.Repr%3])
			return
		}
		b.WriteString("[")
		for i, k := range m.Kids {
			if i > 0 {
				b.WriteString(" ")
			}
			show(b, s.Kids[0], k)
		}
		b.WriteString("]")
		if m.Repr%2 == 1 {
			b.WriteString("+cap")
		}
	case KTuple, KHList:
		if s.Kind == KHList {
			b.WriteString("H")
		}
		b.WriteString("(")
		for i, k := range m.Kids {
			if i > 0 {
				b.WriteString(", ")
			}
			show(b, s.Kids[i], k)
		}
		b.WriteString(")")
	case KGoMap, KFpMap:
		if len(m.Kids) == 0 {
			if s.Kind == KGoMap {
				b.WriteString([]string{"nilmap", "map{}"}[emptyMapClass(s, m)])
			} else {
				b.WriteString([]string{"fp.Map{}zero", "fp.Map()", "fp.Map()hist"}[emptyMapClass(s, m)])
			}
			return
		}
		b.WriteString("map{")
		for i, k := range m.Kids {
			if i > 0 {
				b.WriteString(", ")
			}
			b.WriteString(showLeaf(m.Keys[i]) + ":")
			show(b, s.Kids[0], k)
		}
		b.WriteString("}")
		if s.Kind == KFpMap {
			fmt.Fprintf(b, "order%d", m.Repr%4)
		}
	}
}

// emptyMapClass names the representation Build chooses for an empty map.
func emptyMapClass(s *Shape, m *M) int {
	if s.Kind == KGoMap {
		return m.Repr % 2
	}
	if m.Repr%3 == 0 {
		return 0
	}
	return 1 + btoi(m.Repr%4 >= 2)
}

func btoi(b bool) int {
	if b {
		return 1
	}
	return 0
}

// ---- pools ----------------------------------------------------------------------------

// Entry is one pool value with its provenance.
type Entry struct {
	M      *M
	Parent int    // index of the entry it was derived from, -1 for base values
	Rel    string // "base", "rerepr", "mutant", "prefix", "extend"
	Pos    int    // forced position of a "mutant" (-1: anywhere)
}

// GenPool builds a pool of at least n values of shape s: a few random base values, for each a
// copy in another representation, for the first base one single-position mutant per tuple
// component / sequence element, prefixes and extensions for sequence roots, then random
// mutants / re-representations / fresh values up to n.
func GenPool(r *rand.Rand, s *Shape, n int) []Entry {
	var pool []Entry
	add := func(m *M, parent int, rel string, pos int) int {
		if m == nil {
			return -1
		}
		pool = append(pool, Entry{m, parent, rel, pos})
		return len(pool) - 1
	}
	nb := 3 + r.IntN(2)
	for i := 0; i < nb; i++ {
		b := add(GenValue(r, s), -1, "base", -1)
		add(Rerepr(r, s, pool[b].M), b, "rerepr", -1)
	}
	b0 := pool[0].M
	switch s.Kind {
	case KTuple, KHList:
		for k := range s.Kids {
			add(Mutate(r, s, b0, k), 0, "mutant", k)
		}
	case KSeq, KSlice:
		// make sure the first base has some length so that prefixes exist
		if len(b0.Kids) < 3 {
			for len(b0.Kids) < 3 {
				b0.Kids = append(b0.Kids, GenValue(r, s.Kids[0]))
			}
			pool[1].M = Rerepr(r, s, b0)
		}
		for k := range b0.Kids {
			if k < 6 {
				add(Mutate(r, s, b0, k), 0, "mutant", k)
			}
			p := b0.clone()
			p.Kids = p.Kids[:k]
			p.Repr = r.IntN(12)
			add(p, 0, "prefix", k)
		}
		e := b0.clone()
		e.Kids = append(e.Kids, GenValue(r, s.Kids[0]))
		add(e, 0, "extend", len(b0.Kids))
	default:
		for k := 0; k < 3; k++ {
			add(Mutate(r, s, b0, -1), 0, "mutant", -1)
		}
	}
	for k := 0; k < 2; k++ {
		if i := add(Mutate(r, s, pool[2].M, -1), 2, "mutant", -1); i >= 0 && k == 0 {
			add(Rerepr(r, s, pool[i].M), i, "rerepr", -1)
		}
	}
	for guard := 0; len(pool) < n && guard < 4*n; guard++ {
		p := r.IntN(len(pool))
		switch r.IntN(5) {
		case 0:
			add(GenValue(r, s), -1, "base", -1)
		case 1:
			add(Rerepr(r, s, pool[p].M), p, "rerepr", -1)
		default:
			add(Mutate(r, s, pool[p].M, -1), p, "mutant", -1)
		}
	}
	return pool
}

// Size counts the nodes of a model.
func (m *M) Size() int {
	n := 1
	for _, k := range m.Kids {
		n += k.Size()
	}
	return n
}
