// Package dyn is the value universe shared by the C09 (Eq/Hashable) and C10 (Ord) monitors.
//
// Library instances are generic; to nest them to a random depth at run time every component
// type is instantiated at V = any and a value is handed to the library as a boxed Go value
// (int, string, fp.Seq[V], fp.Option[V], *V, fp.TupleN[V,...], hlist.Cons[V,V], map[K]V, ...).
// Every value exists twice: as a *model* (type M, a plain tree the reference oracle works on)
// and as the library value that Build makes from the model (freshly allocated on every call).
// Models can carry storage identities (M.Arena / M.Cell): library values built from such
// models by ONE Ctx share backing arrays / are the same pointer or map, which is how a pool
// gets values that are views of one another (AliasVariant, SameStorage, mutants of pinned
// values). The reference (NatEq, RefEq, RefCmp) never looks at storage: it compares by value.
// Nothing in this package calls eq, hash or ord: the reference is plain Go over the model.
package dyn

import (
	"fmt"
	"math"
	"math/rand/v2"
	"strconv"
	"strings"
	"time"
	"unsafe"

	"github.com/csgura/fp"
	"github.com/csgura/fp/hlist"
	"github.com/csgura/fp/immutable"
)

// V is the boxed library value.
type V = any

// ---- leaf kinds -----------------------------------------------------------------------

// Pt is a comparable struct leaf (eq.Given only).
type Pt struct {
	X int
	S string
}

// LeafKind describes one primitive leaf type.
type LeafKind struct {
	Name string
	Gen  func(r *rand.Rand) any
	Mut  func(r *rand.Rand, v any) any // a value that is != v
	Less func(a, b any) bool           // nil: the kind has no order
	Num  bool                          // fp.ImplicitNum (hash.Number applies)
	Bits func(v any) uint64            // representation bits; nil: == decides identity
}

type integer interface {
	~int | ~int8 | ~int16 | ~int32 | ~int64 | ~uint | ~uint8 | ~uint16 | ~uint32 | ~uint64 | ~uintptr
}

func intKind[T integer](name string, lo, hi T) *LeafKind {
	// edges: the values around the powers of two that bound the narrower widths, the float
	// mantissas (2^24, 2^53) and the sign bits, as far as they fit T (and their negations) -
	// an instance that compares through a narrower / floating / subtracting shortcut goes
	// wrong exactly there
	var edges []T
	for _, k := range []uint{7, 8, 15, 16, 24, 31, 32, 53, 63} {
		for _, d := range []uint64{^uint64(0), 0, 1} {
			u := uint64(1)<<k + d
			t := T(u)
			if t < 0 || uint64(t) != u {
				continue
			}
			edges = append(edges, t)
			if lo < 0 {
				edges = append(edges, -t, -t-1)
			}
		}
	}
	gen := func(r *rand.Rand) any {
		switch r.IntN(12) {
		case 0:
			return lo
		case 1:
			return hi
		case 2:
			return lo + 1
		case 3:
			return hi - 1
		case 4:
			return T(r.Uint64())
		case 5, 6:
			return edges[r.IntN(len(edges))]
		}
		if lo < 0 {
			return T(r.IntN(7) - 3)
		}
		return T(r.IntN(6))
	}
	return &LeafKind{
		Name: name, Gen: gen, Num: true,
		Mut: func(r *rand.Rand, v any) any {
			x := v.(T)
			if r.IntN(2) == 0 {
				for k := 0; k < 8; k++ {
					if y := gen(r).(T); y != x {
						return y
					}
				}
			}
			if x == hi {
				return x - 1
			}
			return x + 1
		},
		Less: func(a, b any) bool { return a.(T) < b.(T) },
	}
}

func floatKind[T ~float32 | ~float64](name string, maxv, tiny, minNormal, eps T) *LeafKind {
	negZero := T(math.Copysign(0, -1))
	pointOne, pointTwo := T(0.1), T(0.2)
	vals := []T{0, negZero, 0, negZero, 1, -1, 0.5, -0.5, 1.5, -1.5, 2, -2.5, 3,
		T(math.Inf(1)), T(math.Inf(-1)), maxv, -maxv,
		tiny, -tiny, 2 * tiny, minNormal, -minNormal, minNormal - tiny, // subnormals around the smallest normal number
		1 + eps, 1 - eps/2, // the neighbours of 1
		pointOne + pointTwo, 0.3, // differ in the last bit
		1e10, 1 << 24, 1<<24 + 2, 1 << 53, 1<<53 + 2, 1 << 63, -(1 << 63), 1 << 64, // beyond the integer ranges
	}
	gen := func(r *rand.Rand) any { return vals[r.IntN(len(vals))] }
	return &LeafKind{
		Name: name, Gen: gen, Num: true,
		Mut: func(r *rand.Rand, v any) any {
			x := v.(T)
			for {
				if y := gen(r).(T); y != x {
					return y
				}
			}
		},
		Less: func(a, b any) bool { return a.(T) < b.(T) },
		Bits: func(v any) uint64 { return math.Float64bits(float64(v.(T))) },
	}
}

// strRep is sliced below: Go substrings share the bytes of the string they are cut from, so
// strRep[0:3], strRep[3:6] (equal content at another offset) and strRep[0:6] (same start,
// longer) are the string counterpart of aliased slices.
const strRep = "abcabcabc\x00abc"

var strVals = []string{"", "", "a", "a", "A", "ab", "aB", "Ab", "abc", "abd", "b", "B", "ä", "a\x00", "a\x00b", "ba",
	"zzzzzzzzzzzzzzzzzzzzzzzzzzzzzzzzzzzzzzzz", "zzzzzzzzzzzzzzzzzzzzzzzzzzzzzzzzzzzzzzzy", "zzzzzzzzzzzzzzzzzzzzyzzzzzzzzzzzzzzzzzzz", "yzzzzzzzzzzzzzzzzzzzzzzzzzzzzzzzzzzzzzzz",
	"\x00", "\x00\x00", "\x00a", // NUL is an ordinary byte
	"\xff", "a\xff", "\xc3", "\xc3\x28", "\xed\xa0\x80", // invalid UTF-8: lone byte, truncated "ä", bad continuation, surrogate
	"e\u0301", "\u00e9", "\u00c4", // decomposed / precomposed é are different strings; Ä lowers to ä
	"aaaaaaaa", "aaaaaaab", "aaaaaaaaa", "aaaaaaaaaaaaaaaa", "aaaaaaaaaaaaaaab", "baaaaaaaaaaaaaaa", // word-sized and double-word-sized
	strRep[0:3], strRep[3:6], strRep[0:6], strRep[6:9], strRep[10:13], strRep[0:9], strRep[9:10],
}

func genString(r *rand.Rand) string {
	if r.IntN(4) == 0 {
		n := 1 + r.IntN(3)
		b := make([]byte, n)
		for i := range b {
			b[i] = "abAB"[r.IntN(4)]
		}
		return string(b)
	}
	return strVals[r.IntN(len(strVals))]
}

func mutString(r *rand.Rand, s string) string {
	switch r.IntN(3) {
	case 0:
		if len(s) > 0 {
			return s[:len(s)-1]
		}
	case 1:
		if len(s) > 0 {
			b := []byte(s)
			b[len(b)-1] ^= 0x20 // flips the case of ASCII letters, always a different byte
			return string(b)
		}
	}
	return s + "a"
}

// Leaves is the registry of leaf kinds by name.
var Leaves = map[string]*LeafKind{}

// LeafNames in a fixed order.
var LeafNames []string

func reg(k *LeafKind) {
	Leaves[k.Name] = k
	LeafNames = append(LeafNames, k.Name)
}

func init() {
	reg(intKind[int]("int", math.MinInt, math.MaxInt))
	reg(intKind[int8]("int8", math.MinInt8, math.MaxInt8))
	reg(intKind[int16]("int16", math.MinInt16, math.MaxInt16))
	reg(intKind[int32]("int32", math.MinInt32, math.MaxInt32))
	reg(intKind[int64]("int64", math.MinInt64, math.MaxInt64))
	reg(intKind[uint]("uint", 0, math.MaxUint))
	reg(intKind[uint8]("uint8", 0, math.MaxUint8))
	reg(intKind[uint16]("uint16", 0, math.MaxUint16))
	reg(intKind[uint32]("uint32", 0, math.MaxUint32))
	reg(intKind[uint64]("uint64", 0, math.MaxUint64))
	reg(intKind[uintptr]("uintptr", 0, math.MaxUint))
	reg(floatKind[float32]("float32", math.MaxFloat32, math.SmallestNonzeroFloat32, 0x1p-126, 0x1p-23))
	reg(floatKind[float64]("float64", math.MaxFloat64, math.SmallestNonzeroFloat64, 0x1p-1022, 0x1p-52))
	reg(&LeafKind{
		Name: "string",
		Gen:  func(r *rand.Rand) any { return genString(r) },
		Mut:  func(r *rand.Rand, v any) any { return mutString(r, v.(string)) },
		Less: func(a, b any) bool { return a.(string) < b.(string) },
	})
	reg(&LeafKind{
		Name: "bool",
		Gen:  func(r *rand.Rand) any { return r.IntN(2) == 0 },
		Mut:  func(r *rand.Rand, v any) any { return !v.(bool) },
	})
	reg(&LeafKind{
		Name: "Pt",
		Gen: func(r *rand.Rand) any {
			return Pt{[]int{0, 1, 2, 0, 1, -1, math.MaxInt, math.MinInt}[r.IntN(8)], genString(r)}
		},
		Mut: func(r *rand.Rand, v any) any {
			p := v.(Pt)
			if r.IntN(2) == 0 {
				p.X++
			} else {
				p.S = mutString(r, p.S)
			}
			return p
		},
	})
}

// ---- shapes ---------------------------------------------------------------------------

type Kind uint8

const (
	KLeaf    Kind = iota // Leaf = kind name
	KBytes               // []byte
	KTime                // time.Time
	KSeq                 // fp.Seq[V]
	KSlice               // []V
	KOption              // fp.Option[V]
	KPtr                 // *V
	KPtrLeaf             // *int / *string / *float64 (Leaf = target kind)
	KTuple               // fp.TupleN[V,...,V], N = len(Kids)
	KHList               // hlist.Nil or hlist.Cons[V,V] chains, len(Kids) heads
	KGoMap               // map[int]V / map[string]V (Leaf = key kind)
	KFpMap               // fp.Map[int,V] / fp.Map[string,V]
)

// Shape is the (dynamic) type of a value.
type Shape struct {
	Kind Kind
	Leaf string
	Kids []*Shape
}

func LeafShape(name string) *Shape { return &Shape{Kind: KLeaf, Leaf: name} }

func (s *Shape) String() string {
	switch s.Kind {
	case KLeaf:
		return s.Leaf
	case KBytes:
		return "[]byte"
	case KTime:
		return "time.Time"
	case KSeq:
		return "Seq[" + s.Kids[0].String() + "]"
	case KSlice:
		return "[]" + s.Kids[0].String()
	case KOption:
		return "Option[" + s.Kids[0].String() + "]"
	case KPtr:
		return "*" + s.Kids[0].String()
	case KPtrLeaf:
		return "*" + s.Leaf
	case KTuple, KHList:
		p := make([]string, len(s.Kids))
		for i, k := range s.Kids {
			p[i] = k.String()
		}
		n := "Tuple" + strconv.Itoa(len(s.Kids))
		if s.Kind == KHList {
			n = "HList"
		}
		return n + "[" + strings.Join(p, ",") + "]"
	case KGoMap:
		return "map[" + s.Leaf + "]" + s.Kids[0].String()
	case KFpMap:
		return "fp.Map[" + s.Leaf + "," + s.Kids[0].String() + "]"
	}
	return "?"
}

// ---- models ---------------------------------------------------------------------------

// M is the model of one value. Which fields are used depends on the shape.
//
// Models are immutable once they are in a pool; two pool entries may share sub-models.
type M struct {
	Leaf any    // KLeaf value; KPtrLeaf target
	Str  string // KBytes content
	Sec  int64  // KTime instant: seconds since the Unix epoch ...
	Ns   int64  // ... and nanoseconds within that second, 0 <= Ns < 1e9
	Nil  bool   // KOption none, KPtr / KPtrLeaf nil
	Kids []*M   // elements / components / map values / option-ptr target
	Keys []any  // map keys, parallel to Kids
	Repr int    // representation variant (nil vs empty, spare capacity, zone, monotonic reading, insertion order)

	// Storage identity ("pins"). They say nothing about the value the model denotes - the
	// reference never looks at them - only which library values share memory when several
	// models are built by one Ctx.
	//   Arena/Off (KSeq, KSlice, KBytes): the value is the window Off .. Off+len of the arena's
	//     backing array; invariant: Kids[i] is (a structural copy of) Arena.Elems[Off+i], Str is
	//     Arena.Str[Off:Off+len(Str)].
	//   Cell (non-nil KPtr / KPtrLeaf, KGoMap, KFpMap): all models with the same cell are
	//     structural copies of one another and are built as the very same pointer / map.
	// Whatever changes a model (mutateIn, Rerepr) drops the pins of every node it touches.
	Arena *Arena
	Off   int
	Cell  *Cell

	kidx *keyIdx // lookup cache of big maps, see keyIndex
}

// Arena is one backing array.
type Arena struct {
	ID    uint32 // label for witnesses (drawn from the case's PRNG)
	Elems []*M   // KSeq / KSlice
	Str   string // KBytes
}

// Cell is the identity of one pointer target / Go map / fp.Map value.
type Cell struct{ ID uint32 }

func (m *M) unpin() { m.Arena, m.Off, m.Cell = nil, 0, nil }

// clone is a deep copy that keeps the pins (the copy denotes the same value in the same storage).
func (m *M) clone() *M {
	c := *m
	if m.Kids != nil {
		c.Kids = make([]*M, len(m.Kids))
		for i, k := range m.Kids {
			c.Kids[i] = k.clone()
		}
	}
	if m.Keys != nil {
		c.Keys = append([]any(nil), m.Keys...)
	}
	return &c
}

// Clone is a deep copy.
func (m *M) Clone() *M { return m.clone() }

// sameModel: structurally identical (the self-check of the pin invariants).
func sameModel(a, b *M) bool {
	if a == b {
		return true
	}
	if a.Leaf != b.Leaf || a.Str != b.Str || a.Sec != b.Sec || a.Ns != b.Ns || a.Nil != b.Nil || len(a.Kids) != len(b.Kids) || len(a.Keys) != len(b.Keys) {
		return false
	}
	for i := range a.Keys {
		if a.Keys[i] != b.Keys[i] {
			return false
		}
	}
	for i := range a.Kids {
		if !sameModel(a.Kids[i], b.Kids[i]) {
			return false
		}
	}
	return true
}

var zones = []*time.Location{time.UTC, time.FixedZone("plus9", 9*3600), time.FixedZone("minus5", -5*3600), time.FixedZone("plus0530", 5*3600+1800), time.Local}

// ReprRange is the number of representation variants; divisible by 2, 3, 4 and 5 so that the
// residues used below are uniform, and Repr%5 (zone) is independent of (Repr/5)%2 (monotonic).
const ReprRange = 60

func timeZone(m *M) *time.Location { return zones[m.Repr%len(zones)] }

// A time.Time with a monotonic clock reading cannot be made without reading the clock, which a
// case must not do. The readings are therefore written into the (stable since Go 1.9) layout
//
//	wall = 1<<63 | seconds since 1885 (33 bits) | nanoseconds (30 bits); ext = monotonic ns
//
// directly; every forged value has the reading "instant - monoBase", i.e. they are the values
// t0.Add(d) of one process whose clock was read once at monoBase. init verifies the layout
// against the time package and switches the variant off if it does not hold.
type timeRepr struct {
	wall uint64
	ext  int64
	loc  *time.Location
}

const (
	secs1885to1970 = 2682288000
	monoBaseSec    = 1577836800 // 2020-01-01
)

var monoOK bool

func inMonoRange(sec int64) bool { return sec >= -secs1885to1970 && sec+secs1885to1970 < 1<<33 }

// TimeMono reports whether Build gives the time a monotonic clock reading.
func TimeMono(m *M) bool { return monoOK && (m.Repr/5)%2 == 1 && inMonoRange(m.Sec) }

func forgeMono(sec, ns int64, loc *time.Location) time.Time {
	t := time.Unix(sec, ns).In(loc)
	p := (*timeRepr)(unsafe.Pointer(&t))
	p.wall = 1<<63 | uint64(sec+secs1885to1970)<<30 | uint64(ns)
	p.ext = (sec-monoBaseSec)*1_000_000_000 + ns
	return t
}

func init() {
	if unsafe.Sizeof(time.Time{}) != unsafe.Sizeof(timeRepr{}) {
		return
	}
	ok := true
	for _, sec := range []int64{-secs1885to1970, -1, 0, 1_700_000_000, 1<<33 - secs1885to1970 - 1} {
		for _, ns := range []int64{0, 1, 999_999_998} {
			f, g, plain := forgeMono(sec, ns, time.UTC), forgeMono(sec, ns+1, zones[1]), time.Unix(sec, ns).UTC()
			ok = ok && f.Equal(plain) && plain.Equal(f) && f.Compare(plain) == 0 && f.Unix() == sec && int64(f.Nanosecond()) == ns &&
				f.Round(0) == plain && strings.Contains(f.String(), " m=") && !strings.Contains(plain.String(), " m=") &&
				f.Before(g) && g.After(f) && g.Sub(f) == 1 && g.Compare(f) == 1 && g.After(plain) && !g.Equal(f)
		}
	}
	monoOK = ok
}

func buildTime(m *M) time.Time {
	if TimeMono(m) {
		return forgeMono(m.Sec, m.Ns, timeZone(m))
	}
	return time.Unix(m.Sec, m.Ns).In(timeZone(m))
}

// MonoAvailable: the monotonic-reading variant passed its self-test.
func MonoAvailable() bool { return monoOK }

type keyHasher[K comparable] struct{ h func(K) uint32 }

func (k keyHasher[K]) Eqv(a, b K) bool { return a == b }
func (k keyHasher[K]) Hash(a K) uint32 { return k.h(a) }

var intKeyHasher fp.Hashable[int] = keyHasher[int]{func(k int) uint32 { return uint32(k) * 2654435761 }}
var strKeyHasher fp.Hashable[string] = keyHasher[string]{func(s string) uint32 {
	h := uint32(2166136261)
	for i := 0; i < len(s); i++ {
		h ^= uint32(s[i])
		h *= 16777619
	}
	return h
}}

// Ctx builds library values; models that share an Arena / Cell and are built by the same Ctx
// share the backing array / are the same pointer or map.
type Ctx struct {
	arenas map[*Arena][]V
	bytes  map[*Arena][]byte
	cells  map[*Cell]V
	from   map[*Cell]*M
}

func NewCtx() *Ctx { return &Ctx{} }

func harnessBug(what string, s *Shape, m *M) {
	panic("dyn: HARNESS BUG (not a library defect): " + what + ": " + s.String() + " " + Show(s, m))
}

func (c *Ctx) buildSlice(s *Shape, m *M) []V {
	n := len(m.Kids)
	if a := m.Arena; a != nil {
		arr, ok := c.arenas[a]
		if !ok {
			arr = make([]V, len(a.Elems))
			for p, e := range a.Elems {
				arr[p] = c.Build(s.Kids[0], e)
			}
			if c.arenas == nil {
				c.arenas = map[*Arena][]V{}
			}
			c.arenas[a] = arr
		}
		if m.Off < 0 || m.Off+n > len(a.Elems) {
			harnessBug("window outside its arena", s, m)
		}
		for i, k := range m.Kids {
			if !sameModel(k, a.Elems[m.Off+i]) {
				harnessBug("a pinned sequence differs from its arena", s, m)
			}
		}
		return arr[m.Off : m.Off+n]
	}
	var out []V
	switch {
	case n == 0 && m.Repr%3 == 0:
		return nil
	case n == 0 && m.Repr%3 == 1:
		return []V{}
	case n == 0:
		return make([]V, 0, 4)
	case m.Repr%2 == 0:
		out = make([]V, n)
	default:
		out = make([]V, n, n+3)
	}
	for i, k := range m.Kids {
		out[i] = c.Build(s.Kids[0], k)
	}
	return out
}

func buildFpMap[K comparable](c *Ctx, h fp.Hashable[K], extra K, s *Shape, m *M) V {
	if len(m.Kids) == 0 && m.Repr%3 == 0 {
		return fp.Map[K, V]{} // zero value: an empty map without a hasher
	}
	items := make([]fp.Tuple2[K, V], len(m.Kids))
	for i := range m.Kids {
		j := i
		if m.Repr%2 == 1 {
			j = len(m.Kids) - 1 - i
		}
		items[i] = fp.Tuple2[K, V]{I1: m.Keys[j].(K), I2: c.Build(s.Kids[0], m.Kids[j])}
	}
	if m.Repr%4 >= 2 {
		// different history: an extra key is inserted first and removed at the end
		mp := immutable.Map[K, V](h, fp.Tuple2[K, V]{I1: extra, I2: V(0)})
		for _, it := range items {
			mp = mp.Updated(it.I1, it.I2)
		}
		return mp.Removed(extra)
	}
	return immutable.Map[K, V](h, items...)
}

func buildGoMap[K comparable](c *Ctx, s *Shape, m *M) V {
	if len(m.Kids) == 0 && m.Repr%2 == 0 {
		return map[K]V(nil)
	}
	out := make(map[K]V, len(m.Kids))
	for i := range m.Kids {
		out[m.Keys[i].(K)] = c.Build(s.Kids[0], m.Kids[i])
	}
	return out
}

// ExtraIntKey / ExtraStrKey never occur as generated map keys.
const ExtraIntKey = 987654321
const ExtraStrKey = "\x01extra"

// Build makes a freshly allocated library value from the model (storage is shared only
// between the parts of this one value).
func Build(s *Shape, m *M) V { return NewCtx().Build(s, m) }

// Build makes a library value from the model; pinned parts are allocated once per Ctx.
func (c *Ctx) Build(s *Shape, m *M) V {
	if m.Cell != nil {
		if v, ok := c.cells[m.Cell]; ok {
			if !sameModel(m, c.from[m.Cell]) {
				harnessBug("two models of one cell differ", s, m)
			}
			return v
		}
	}
	v := c.build(s, m)
	if m.Cell != nil {
		if c.cells == nil {
			c.cells, c.from = map[*Cell]V{}, map[*Cell]*M{}
		}
		c.cells[m.Cell], c.from[m.Cell] = v, m
	}
	return v
}

func (c *Ctx) build(s *Shape, m *M) V {
	switch s.Kind {
	case KLeaf:
		return m.Leaf
	case KBytes:
		n := len(m.Str)
		if a := m.Arena; a != nil {
			b, ok := c.bytes[a]
			if !ok {
				b = []byte(a.Str)
				if c.bytes == nil {
					c.bytes = map[*Arena][]byte{}
				}
				c.bytes[a] = b
			}
			if m.Off < 0 || m.Off+n > len(a.Str) || a.Str[m.Off:m.Off+n] != m.Str {
				harnessBug("pinned bytes differ from their arena", s, m)
			}
			return b[m.Off : m.Off+n]
		}
		switch {
		case n == 0 && m.Repr%3 == 0:
			return []byte(nil)
		case n == 0 && m.Repr%3 == 1:
			return []byte{}
		case n == 0:
			return make([]byte, 0, 4)
		case m.Repr%2 == 0:
			return []byte(m.Str)
		}
		b := make([]byte, n, n+5)
		copy(b, m.Str)
		return b
	case KTime:
		return buildTime(m)
	case KSeq:
		return fp.Seq[V](c.buildSlice(s, m))
	case KSlice:
		return c.buildSlice(s, m)
	case KOption:
		if m.Nil {
			return fp.None[V]()
		}
		return fp.Some[V](c.Build(s.Kids[0], m.Kids[0]))
	case KPtr:
		if m.Nil {
			return (*V)(nil)
		}
		p := new(V)
		*p = c.Build(s.Kids[0], m.Kids[0])
		return p
	case KPtrLeaf:
		switch s.Leaf {
		case "int":
			if m.Nil {
				return (*int)(nil)
			}
			x := m.Leaf.(int)
			return &x
		case "string":
			if m.Nil {
				return (*string)(nil)
			}
			x := m.Leaf.(string)
			return &x
		case "float64":
			if m.Nil {
				return (*float64)(nil)
			}
			x := m.Leaf.(float64)
			return &x
		}
		panic("dyn: bad KPtrLeaf " + s.Leaf)
	case KTuple:
		vs := make([]V, len(s.Kids))
		for i := range s.Kids {
			vs[i] = c.Build(s.Kids[i], m.Kids[i])
		}
		return MkTuple(vs)
	case KHList:
		var t V = hlist.Empty()
		for i := len(s.Kids) - 1; i >= 0; i-- {
			t = hlist.Concat[V, V](c.Build(s.Kids[i], m.Kids[i]), t)
		}
		return t
	case KGoMap:
		if s.Leaf == "int" {
			return buildGoMap[int](c, s, m)
		}
		return buildGoMap[string](c, s, m)
	case KFpMap:
		if s.Leaf == "int" {
			return buildFpMap[int](c, intKeyHasher, ExtraIntKey, s, m)
		}
		return buildFpMap[string](c, strKeyHasher, ExtraStrKey, s, m)
	}
	panic("dyn: bad shape")
}

// ---- generation -----------------------------------------------------------------------

// Inst is an instant: seconds since the Unix epoch and nanoseconds within the second.
type Inst struct{ Sec, Ns int64 }

// unixDays: days from 1970-01-01 to the given proleptic Gregorian date (any year).
func unixDays(y int64, m, d int) int64 {
	if m <= 2 {
		y--
	}
	era := y / 400
	if y < 0 && y%400 != 0 {
		era--
	}
	yoe := y - era*400
	mp := int64((m + 9) % 12)
	doy := (153*mp+2)/5 + int64(d) - 1
	doe := yoe*365 + yoe/4 - yoe/100 + doy
	return era*146097 + doe - 719468
}

// Int64 nanoseconds since the epoch (time.Time.UnixNano, time.Duration) cover only
// 1677-09-21T00:12:43.145224192Z .. 2262-04-11T23:47:16.854775807Z.
var nanoMin, nanoMax = Inst{-9223372037, 145224192}, Inst{9223372036, 854775807}

// OutsideInt64Nanos: the instant has no int64 UnixNano.
func OutsideInt64Nanos(sec, ns int64) bool {
	return sec < nanoMin.Sec || (sec == nanoMin.Sec && ns < nanoMin.Ns) || sec > nanoMax.Sec || (sec == nanoMax.Sec && ns > nanoMax.Ns)
}

// timeVals spans what a time.Time can hold and eq.Time / ord.Time accept: negative and
// five-digit years, the zero Time, both ends of the int64-nanosecond window (and of the
// int32 / uint32 second counters, and of the 1885..2157 range of times with a monotonic
// reading) to the nanosecond, pre-1970 instants with a fraction, sub-second neighbours.
var timeVals = func() []Inst {
	var out []Inst
	at := func(y int64, mo, d, h, mi, sec int, ns int64) {
		in := Inst{unixDays(y, mo, d)*86400 + int64(h*3600+mi*60+sec), ns}
		if chk := time.Date(int(y), time.Month(mo), d, h, mi, sec, int(ns), time.UTC); chk.Unix() != in.Sec || int64(chk.Nanosecond()) != in.Ns {
			panic(fmt.Sprintf("dyn: HARNESS BUG: unixDays(%d-%d-%d) gives %d, time.Date %d", y, mo, d, in.Sec, chk.Unix()))
		}
		out = append(out, in)
	}
	at(-1000, 1, 1, 0, 0, 0, 0)
	at(0, 1, 1, 0, 0, 0, 0)
	at(0, 12, 31, 23, 59, 59, 999_999_999)
	at(1, 1, 1, 0, 0, 0, 0) // time.Time{}
	at(1, 1, 1, 0, 0, 0, 0)
	at(1, 1, 1, 0, 0, 0, 1)
	at(1066, 10, 14, 9, 0, 0, 0)
	at(1492, 10, 12, 2, 0, 0, 500_000_000)
	at(1600, 2, 29, 12, 0, 0, 0)
	at(1677, 9, 20, 0, 0, 0, 0)
	out = append(out, Inst{nanoMin.Sec, nanoMin.Ns - 1}, nanoMin, Inst{nanoMin.Sec, nanoMin.Ns + 1})
	at(1677, 9, 22, 0, 0, 0, 0)
	at(1678, 1, 1, 0, 0, 0, 0)
	at(1884, 12, 31, 23, 59, 59, 999_999_999)
	at(1885, 1, 1, 0, 0, 0, 0)
	at(1900, 1, 1, 0, 0, 0, 0)
	out = append(out, Inst{-62_000_000, 0}, Inst{-2, 999_999_999}, Inst{-1, 0}, Inst{-1, 1}, Inst{-1, 999_999_999}, // pre-1970 with fractions
		Inst{0, 0}, Inst{0, 0}, Inst{0, 1}, Inst{0, 999_999_999}, Inst{1, 0}, Inst{86_400, 0}, Inst{1_000_000_000, 0},
		Inst{1_700_000_000, 123_456_789}, Inst{1_700_000_000, 123_456_790}, Inst{1_700_000_000, 123_457_789}, Inst{1_700_000_001, 123_456_789},
		Inst{1<<31 - 1, 0}, Inst{1 << 31, 0}, Inst{1<<32 - 1, 999_999_999}, Inst{1 << 32, 0},
		Inst{1<<33 - secs1885to1970 - 1, 0}, Inst{1<<33 - secs1885to1970, 0},
		Inst{nanoMax.Sec, nanoMax.Ns - 1}, nanoMax, Inst{nanoMax.Sec, nanoMax.Ns + 1})
	at(2262, 4, 12, 0, 0, 0, 0)
	at(2263, 1, 1, 0, 0, 0, 0)
	at(2500, 6, 15, 12, 30, 0, 0)
	at(9999, 12, 31, 23, 59, 59, 999_999_999)
	at(10000, 1, 1, 0, 0, 0, 0)
	at(30000, 1, 1, 0, 0, 0, 0)
	return out
}()

var intKeys = []int{-1, 0, 1, 2, 3, math.MinInt, math.MaxInt}
var strKeys = []string{"", "a", "b", "A", "ab", "a\x00", "\xff"}

func genKey(r *rand.Rand, kind string) any {
	if kind == "int" {
		return intKeys[r.IntN(len(intKeys))]
	}
	return strKeys[r.IntN(len(strKeys))]
}

// GenValue draws a random model of shape s.
func GenValue(r *rand.Rand, s *Shape) *M { return genValue(r, s, false, 0) }

// genValue: rich = no None / nil / empty container anywhere, so that every component that can
// have storage has some.
func genValue(r *rand.Rand, s *Shape, rich bool, depth int) *M {
	m := &M{Repr: r.IntN(ReprRange)}
	switch s.Kind {
	case KLeaf:
		m.Leaf = Leaves[s.Leaf].Gen(r)
	case KBytes:
		m.Str = genString(r)
		for t := 0; rich && len(m.Str) < 2; t++ {
			if m.Str = genString(r); t > 20 {
				m.Str = "abc"
			}
		}
	case KTime:
		in := timeVals[r.IntN(len(timeVals))]
		m.Sec, m.Ns = in.Sec, in.Ns
		if r.IntN(6) == 0 {
			m.Sec += int64(r.IntN(3)) - 1
		}
	case KSeq, KSlice:
		n := []int{0, 0, 1, 1, 2, 2, 3, 4, 6, 0, 1, 2, 3, 9, 17}[r.IntN(15)]
		if n > 6 && (depth > 1 || len(s.Kids[0].Kids) > 0) {
			n = 5 // long sequences (past 8 and 16 elements) only of flat elements near the root
		}
		if rich {
			n = 2 + r.IntN(2)
			if depth == 0 {
				n += r.IntN(2)
			}
		}
		for i := 0; i < n; i++ {
			m.Kids = append(m.Kids, genValue(r, s.Kids[0], rich, depth+1))
		}
	case KOption:
		if !rich && r.IntN(3) == 0 {
			m.Nil = true
		} else {
			m.Kids = []*M{genValue(r, s.Kids[0], rich, depth+1)}
		}
	case KPtr:
		if !rich && r.IntN(4) == 0 {
			m.Nil = true
		} else {
			m.Kids = []*M{genValue(r, s.Kids[0], rich, depth+1)}
		}
	case KPtrLeaf:
		if !rich && r.IntN(4) == 0 {
			m.Nil = true
		} else {
			m.Leaf = Leaves[s.Leaf].Gen(r)
		}
	case KTuple, KHList:
		for _, k := range s.Kids {
			m.Kids = append(m.Kids, genValue(r, k, rich, depth+1))
		}
	case KGoMap, KFpMap:
		n := r.IntN(4)
		if rich {
			n = 1 + r.IntN(3)
		}
		for i := 0; i < n; i++ {
			k := genKey(r, s.Leaf)
			if m.keyIndex(k) < 0 {
				m.Keys = append(m.Keys, k)
				m.Kids = append(m.Kids, genValue(r, s.Kids[0], rich, depth+1))
			}
		}
	}
	return m
}

// ---- shared storage -------------------------------------------------------------------

// HasStorage: values of the shape contain slices, byte slices, pointers or maps.
func HasStorage(s *Shape) bool {
	switch s.Kind {
	case KBytes, KSeq, KSlice, KPtr, KPtrLeaf, KGoMap, KFpMap:
		return true
	}
	for _, k := range s.Kids {
		if HasStorage(k) {
			return true
		}
	}
	return false
}

// HasKind: the shape contains a node of the given kind.
func HasKind(s *Shape, kind Kind) bool {
	if s.Kind == kind {
		return true
	}
	for _, k := range s.Kids {
		if HasKind(k, kind) {
			return true
		}
	}
	return false
}

// pin gives every non-empty sequence / byte slice of m a backing array and every non-nil
// pointer and every map a cell (in place: the value m denotes does not change). The backing
// array of a sequence with the elements E is  E ++ E ++ [one more element]  so that there is
// room for longer windows and for the same content at another offset.
func pin(r *rand.Rand, s *Shape, m *M) {
	switch s.Kind {
	case KBytes:
		if m.Arena == nil && len(m.Str) > 0 {
			m.Arena, m.Off = &Arena{ID: r.Uint32() & 0xffff, Str: m.Str + m.Str + "q"}, 0
		}
	case KSeq, KSlice:
		if n := len(m.Kids); m.Arena == nil && n > 0 {
			el := make([]*M, 0, 2*n+1)
			el = append(append(el, m.Kids...), m.Kids...)
			el = append(el, GenValue(r, s.Kids[0]))
			m.Arena, m.Off = &Arena{ID: r.Uint32() & 0xffff, Elems: el}, 0
		}
	case KPtr, KPtrLeaf:
		if m.Cell == nil && !m.Nil {
			m.Cell = &Cell{r.Uint32() & 0xffff}
		}
	case KGoMap, KFpMap:
		if m.Cell == nil {
			m.Cell = &Cell{r.Uint32() & 0xffff}
		}
	}
	for i, k := range m.Kids {
		pin(r, kidShape(s, i), k)
	}
}

// HasPins: some part of m has a storage identity.
func HasPins(m *M) bool {
	if m.Arena != nil || m.Cell != nil {
		return true
	}
	for _, k := range m.Kids {
		if HasPins(k) {
			return true
		}
	}
	return false
}

type aliasSite struct {
	path []int
	s    *Shape
	m    *M
}

func aliasSites(s *Shape, m *M, path []int, out *[]aliasSite) {
	if m.Arena != nil {
		*out = append(*out, aliasSite{append([]int(nil), path...), s, m})
	}
	for i, k := range m.Kids {
		aliasSites(kidShape(s, i), k, append(path, i), out)
	}
}

// AliasModes are the windows AliasVariant can cut out of the backing array of one sequence:
//
//	prefix  same start, shorter (sometimes empty)
//	extend  same start, longer
//	shift   the same content at another offset of the array
//	window  another start inside the array, overlapping the original
var AliasModes = []string{"prefix", "extend", "shift", "window"}

// AliasVariant returns a value that shares all of its storage with the pinned value m - the
// same pointers, the same maps, the same backing arrays - except that one sequence / byte
// slice somewhere inside it is another window of the same backing array; the containers on
// the way to that sequence are freshly allocated. nil if m has no pinned sequence.
func AliasVariant(r *rand.Rand, s *Shape, m *M, mode string) *M {
	var sites []aliasSite
	aliasSites(s, m, nil, &sites)
	if len(sites) == 0 {
		return nil
	}
	st := sites[r.IntN(len(sites))]
	v := *st.m
	v.Cell = nil
	n, total := len(st.m.Kids), len(st.m.Arena.Elems)
	if st.s.Kind == KBytes {
		n, total = len(st.m.Str), len(st.m.Arena.Str)
	}
	off, ln := st.m.Off, n
	switch mode {
	case "prefix":
		ln = 0
		if n >= 2 && r.IntN(6) != 0 {
			ln = 1 + r.IntN(n-1)
		}
	case "extend":
		ln = n + 1 + r.IntN(n)
	case "shift":
		off += n
	case "window":
		off++
		if r.IntN(3) == 0 {
			ln = n - 1 + r.IntN(3)
		}
	}
	if off+ln > total {
		ln = total - off
	}
	v.Off = off
	if st.s.Kind == KBytes {
		v.Str = st.m.Arena.Str[off : off+ln]
	} else {
		v.Kids = st.m.Arena.Elems[off : off+ln : off+ln]
	}
	return replaceAt(m, st.path, &v)
}

// replaceAt copies the path to a node (fresh, unpinned containers) and shares everything else.
func replaceAt(m *M, path []int, nv *M) *M {
	if len(path) == 0 {
		return nv
	}
	c := *m
	c.unpin()
	c.Kids = append([]*M(nil), m.Kids...)
	c.Kids[path[0]] = replaceAt(m.Kids[path[0]], path[1:], nv)
	return &c
}

// SameStorage is another model of the very same library value (for a slice, pointer or map
// root: the identical object; for a tuple / option root: a copy whose parts are identical).
func SameStorage(m *M) *M {
	c := *m
	return &c
}

func (m *M) keyIndex(k any) int {
	if len(m.Keys) > 24 {
		// big maps (sized pools): an index, valid as long as the key slice is the one it was
		// built from (keys are never overwritten in place; every change re-slices or re-allocates)
		if ix := m.kidx; ix == nil || ix.n != len(m.Keys) || ix.first != &m.Keys[0] {
			ix = &keyIdx{n: len(m.Keys), first: &m.Keys[0], at: make(map[any]int, len(m.Keys))}
			for i, x := range m.Keys {
				if _, dup := ix.at[x]; !dup {
					ix.at[x] = i
				}
			}
			m.kidx = ix
		}
		if i, ok := m.kidx.at[k]; ok {
			return i
		}
		return -1
	}
	for i, x := range m.Keys {
		if x == k {
			return i
		}
	}
	return -1
}

type keyIdx struct {
	n     int
	first *any
	at    map[any]int
}

// Rerepr returns a copy that denotes the same value in another representation: nil vs empty
// vs spare capacity, 0.0 vs -0.0, another time zone, another map insertion history; pointers
// are re-allocated by Build anyway.
func Rerepr(r *rand.Rand, s *Shape, m *M) *M {
	c := *m
	c.unpin() // a copy in storage of its own
	c.Repr = r.IntN(ReprRange)
	if c.Repr == m.Repr {
		c.Repr = (c.Repr + 1 + r.IntN(5)) % ReprRange
	}
	if (s.Kind == KLeaf || s.Kind == KPtrLeaf) && c.Leaf != nil {
		switch x := c.Leaf.(type) {
		case float64:
			if x == 0 {
				c.Leaf = math.Copysign(0, float64(r.IntN(2))-0.5)
			}
		case float32:
			if x == 0 {
				c.Leaf = float32(math.Copysign(0, float64(r.IntN(2))-0.5))
			}
		}
	}
	if m.Keys != nil {
		c.Keys = append([]any(nil), m.Keys...)
	}
	if m.Kids != nil {
		c.Kids = make([]*M, len(m.Kids))
		for i, k := range m.Kids {
			ks := s
			switch s.Kind {
			case KTuple, KHList:
				ks = s.Kids[i]
			default:
				ks = s.Kids[0]
			}
			c.Kids[i] = Rerepr(r, ks, k)
		}
	}
	return &c
}

// Mutate returns a copy that differs from m in exactly one place (one leaf, one element
// appended/dropped, one nil-ness, one map entry), or nil if the shape has a single value.
// pos >= 0 forces the change to happen inside component pos of a tuple / hlist root or
// element pos of a sequence root.
func Mutate(r *rand.Rand, s *Shape, m *M, pos int) *M {
	c := m.clone()
	if mutateIn(r, s, c, pos) {
		return c
	}
	return nil
}

// mutateIn changes m in place; every node that was changed or contains a change loses its pins
// (it is built in fresh storage), everything off that path keeps them, so a mutant of a pinned
// value shares the untouched parts with it.
func mutateIn(r *rand.Rand, s *Shape, m *M, pos int) bool {
	if mutateNode(r, s, m, pos) {
		m.unpin()
		return true
	}
	return false
}

func mutateNode(r *rand.Rand, s *Shape, m *M, pos int) bool {
	switch s.Kind {
	case KLeaf:
		m.Leaf = Leaves[s.Leaf].Mut(r, m.Leaf)
		return true
	case KBytes:
		m.Str = mutString(r, m.Str)
		return true
	case KTime:
		switch r.IntN(3) {
		case 0:
			if m.Ns++; m.Ns == 1_000_000_000 {
				m.Sec, m.Ns = m.Sec+1, 0
			}
		case 1:
			m.Sec -= 3600
		default:
			m.Sec++
		}
		return true
	case KSeq, KSlice:
		if pos >= 0 && pos < len(m.Kids) {
			return mutateIn(r, s.Kids[0], m.Kids[pos], -1)
		}
		n := len(m.Kids)
		c := r.IntN(4)
		if n == 0 {
			c = 0
		}
		switch c {
		case 0:
			m.Kids = append(m.Kids, GenValue(r, s.Kids[0]))
			return true
		case 1:
			m.Kids = m.Kids[:n-1]
			return true
		}
		i := r.IntN(n)
		if mutateIn(r, s.Kids[0], m.Kids[i], -1) {
			return true
		}
		m.Kids = m.Kids[:n-1]
		return true
	case KOption, KPtr:
		if m.Nil {
			m.Nil = false
			m.Kids = []*M{GenValue(r, s.Kids[0])}
			return true
		}
		if r.IntN(3) != 0 && mutateIn(r, s.Kids[0], m.Kids[0], -1) {
			return true
		}
		m.Nil, m.Kids = true, nil
		return true
	case KPtrLeaf:
		if m.Nil {
			m.Nil = false
			m.Leaf = Leaves[s.Leaf].Gen(r)
			return true
		}
		if r.IntN(3) != 0 {
			m.Leaf = Leaves[s.Leaf].Mut(r, m.Leaf)
			return true
		}
		m.Nil, m.Leaf = true, nil
		return true
	case KTuple, KHList:
		n := len(s.Kids)
		if n == 0 {
			return false
		}
		if pos >= 0 && pos < n {
			return mutateIn(r, s.Kids[pos], m.Kids[pos], -1)
		}
		start := r.IntN(n)
		for d := 0; d < n; d++ {
			i := (start + d) % n
			if mutateIn(r, s.Kids[i], m.Kids[i], -1) {
				return true
			}
		}
		return false
	case KGoMap, KFpMap:
		n := len(m.Kids)
		c := r.IntN(3)
		if n == 0 {
			c = 0
		}
		switch c {
		case 0:
			for t := 0; t < 20; t++ {
				k := genKey(r, s.Leaf)
				if m.keyIndex(k) < 0 {
					m.Keys = append(m.Keys, k)
					m.Kids = append(m.Kids, GenValue(r, s.Kids[0]))
					return true
				}
			}
			fallthrough
		case 1:
			if n > 0 {
				i := r.IntN(n)
				m.Keys = append(append([]any(nil), m.Keys[:i]...), m.Keys[i+1:]...)
				m.Kids = append(append([]*M(nil), m.Kids[:i]...), m.Kids[i+1:]...)
				return true
			}
			return false
		}
		i := r.IntN(n)
		if mutateIn(r, s.Kids[0], m.Kids[i], -1) {
			return true
		}
		m.Keys = append(append([]any(nil), m.Keys[:i]...), m.Keys[i+1:]...)
		m.Kids = append(append([]*M(nil), m.Kids[:i]...), m.Kids[i+1:]...)
		return true
	}
	return false
}

// ---- natural (structural) equality on shapes ------------------------------------------

func kidShape(s *Shape, i int) *Shape {
	if s.Kind == KTuple || s.Kind == KHList {
		return s.Kids[i]
	}
	return s.Kids[0]
}

// NatEq is structural equality: Go == at the leaves, instants for times, nil == empty for
// slices / maps / byte slices, pointers by target.
func NatEq(s *Shape, a, b *M) bool {
	switch s.Kind {
	case KLeaf:
		return a.Leaf == b.Leaf
	case KBytes:
		return a.Str == b.Str
	case KTime:
		return a.Sec == b.Sec && a.Ns == b.Ns
	case KPtrLeaf:
		if a.Nil || b.Nil {
			return a.Nil && b.Nil
		}
		return a.Leaf == b.Leaf
	case KOption, KPtr:
		if a.Nil || b.Nil {
			return a.Nil && b.Nil
		}
		return NatEq(s.Kids[0], a.Kids[0], b.Kids[0])
	case KSeq, KSlice, KTuple, KHList:
		if len(a.Kids) != len(b.Kids) {
			return false
		}
		for i := range a.Kids {
			if !NatEq(kidShape(s, i), a.Kids[i], b.Kids[i]) {
				return false
			}
		}
		return true
	case KGoMap, KFpMap:
		if len(a.Kids) != len(b.Kids) {
			return false
		}
		for i, k := range a.Keys {
			j := b.keyIndex(k)
			if j < 0 || !NatEq(s.Kids[0], a.Kids[i], b.Kids[j]) {
				return false
			}
		}
		return true
	}
	panic("dyn: bad shape")
}

// ReprDiff reports whether two NatEq-equal models are represented differently (so that the
// two library values are equal but not identical): nil vs empty vs spare capacity, 0.0 vs
// -0.0, different zones, different map histories, or distinct pointers to equal targets.
func ReprDiff(s *Shape, a, b *M) bool {
	found := false
	ReprDiffs(s, a, b, func(string) { found = true })
	return found
}

// capClass names how Build allocates a sequence / byte slice.
func capClass(m *M, n int) int {
	switch {
	case m.Arena != nil:
		return 10 // a window of a longer array
	case n == 0:
		return m.Repr % 3
	}
	return 3 + m.Repr%2
}

// ReprDiffs calls visit with the class of every representation difference between two
// NatEq-equal models. Parts that are the same object (same cell, same window) have none.
func ReprDiffs(s *Shape, a, b *M, visit func(class string)) {
	switch s.Kind {
	case KLeaf:
		if bits := Leaves[s.Leaf].Bits; bits != nil && bits(a.Leaf) != bits(b.Leaf) {
			visit("float_zero_sign")
		}
	case KBytes:
		switch {
		case a.Arena != nil && a.Arena == b.Arena:
			if a.Off != b.Off {
				visit("bytes_same_array_other_offset")
			}
		case len(a.Str) == 0:
			if capClass(a, 0) != capClass(b, 0) {
				visit("bytes_nil_vs_empty")
			}
		case capClass(a, 1) != capClass(b, 1):
			visit("bytes_capacity")
		}
	case KTime:
		if a.Repr%len(zones) != b.Repr%len(zones) {
			visit("time_zone")
		}
		if ma, mb := TimeMono(a), TimeMono(b); ma != mb {
			visit("time_monotonic_vs_wall")
		} else if ma {
			visit("time_both_monotonic")
		}
	case KPtrLeaf:
		if !a.Nil && !b.Nil && (a.Cell == nil || a.Cell != b.Cell) {
			visit("pointer")
			if bits := Leaves[s.Leaf].Bits; bits != nil && bits(a.Leaf) != bits(b.Leaf) {
				visit("float_zero_sign")
			}
		}
	case KPtr:
		if !a.Nil && !b.Nil && (a.Cell == nil || a.Cell != b.Cell) {
			visit("pointer")
			ReprDiffs(s.Kids[0], a.Kids[0], b.Kids[0], visit)
		}
	case KOption:
		if !a.Nil && !b.Nil {
			ReprDiffs(s.Kids[0], a.Kids[0], b.Kids[0], visit)
		}
	case KSeq, KSlice, KTuple, KHList:
		if s.Kind == KSeq || s.Kind == KSlice {
			switch {
			case a.Arena != nil && a.Arena == b.Arena:
				if a.Off != b.Off {
					visit("slice_same_array_other_offset")
				}
				return // the same elements
			case len(a.Kids) == 0:
				if capClass(a, 0) != capClass(b, 0) {
					visit("slice_nil_vs_empty")
				}
			case capClass(a, 1) != capClass(b, 1):
				visit("slice_capacity")
			}
		}
		for i := range a.Kids {
			if i < len(b.Kids) {
				ReprDiffs(kidShape(s, i), a.Kids[i], b.Kids[i], visit)
			}
		}
	case KGoMap, KFpMap:
		if a.Cell != nil && a.Cell == b.Cell {
			return
		}
		if len(a.Kids) == 0 {
			if emptyMapClass(s, a) != emptyMapClass(s, b) {
				visit("map_nil_vs_empty")
			}
		} else if s.Kind == KFpMap && a.Repr%4 != b.Repr%4 {
			visit("fpmap_history")
		}
		for i, k := range a.Keys {
			if j := b.keyIndex(k); j >= 0 {
				ReprDiffs(s.Kids[0], a.Kids[i], b.Kids[j], visit)
			}
		}
	}
}

// AliasClasses visits, for two models built by one Ctx (equal or not), every pair of aligned
// parts that share storage:
//
//	<kind>.identical                        the same window of the same array / the same pointer / the same map
//	<kind>.same_start_different_length      both non-empty
//	<kind>.same_start_one_empty
//	<kind>.other_offset_equal_content
//	<kind>.other_offset_different_content   (overlapping or adjacent windows)
//
// with <kind> one of seq, slice, bytes, pointer, gomap, fpmap.
func AliasClasses(s *Shape, a, b *M, visit func(class string)) {
	switch s.Kind {
	case KBytes, KSeq, KSlice:
		if a.Arena != nil && a.Arena == b.Arena {
			kind := map[Kind]string{KBytes: "bytes", KSeq: "seq", KSlice: "slice"}[s.Kind]
			la, lb := len(a.Kids), len(b.Kids)
			if s.Kind == KBytes {
				la, lb = len(a.Str), len(b.Str)
			}
			switch {
			case a.Off == b.Off && la == lb:
				visit(kind + ".identical")
			case a.Off == b.Off && (la == 0 || lb == 0):
				visit(kind + ".same_start_one_empty")
			case a.Off == b.Off:
				visit(kind + ".same_start_different_length")
			case NatEq(s, a, b):
				visit(kind + ".other_offset_equal_content")
			default:
				visit(kind + ".other_offset_different_content")
			}
			return
		}
		if s.Kind == KBytes {
			return
		}
		for i := 0; i < len(a.Kids) && i < len(b.Kids); i++ {
			AliasClasses(s.Kids[0], a.Kids[i], b.Kids[i], visit)
		}
	case KPtr, KPtrLeaf:
		if a.Cell != nil && a.Cell == b.Cell {
			visit("pointer.identical")
			return
		}
		if s.Kind == KPtr && !a.Nil && !b.Nil {
			AliasClasses(s.Kids[0], a.Kids[0], b.Kids[0], visit)
		}
	case KOption:
		if !a.Nil && !b.Nil {
			AliasClasses(s.Kids[0], a.Kids[0], b.Kids[0], visit)
		}
	case KTuple, KHList:
		for i := range a.Kids {
			AliasClasses(s.Kids[i], a.Kids[i], b.Kids[i], visit)
		}
	case KGoMap, KFpMap:
		if a.Cell != nil && a.Cell == b.Cell {
			visit(map[Kind]string{KGoMap: "gomap", KFpMap: "fpmap"}[s.Kind] + ".identical")
			return
		}
		for i, k := range a.Keys {
			if j := b.keyIndex(k); j >= 0 {
				AliasClasses(s.Kids[0], a.Kids[i], b.Kids[j], visit)
			}
		}
	}
}

// TimeClasses visits the class of every time.Time inside m.
func TimeClasses(s *Shape, m *M, visit func(class string)) {
	if s.Kind == KTime {
		visit("values")
		switch {
		case OutsideInt64Nanos(m.Sec, m.Ns):
			visit("values_outside_int64_nanoseconds")
		case m.Sec < 0:
			visit("values_before_1970")
		}
		if m.Sec < 0 && m.Ns != 0 {
			visit("values_before_1970_with_fraction")
		}
		if m.Sec == timeVals[3].Sec && m.Ns == 0 && timeZone(m) == time.UTC {
			visit("values_zero_time")
		}
		if m.Sec < unixDays(1, 1, 1)*86400 || m.Sec >= unixDays(10000, 1, 1)*86400 {
			visit("values_year_below_1_or_above_9999")
		}
		if TimeMono(m) {
			visit("values_with_monotonic_reading")
		}
		return
	}
	for i, k := range m.Kids {
		TimeClasses(kidShape(s, i), k, visit)
	}
}

// ---- printing -------------------------------------------------------------------------

func showLeaf(v any) string {
	switch x := v.(type) {
	case string:
		return strconv.Quote(x)
	case float64:
		if x == 0 && math.Signbit(x) {
			return "-0.0"
		}
		return strconv.FormatFloat(x, 'g', -1, 64)
	case float32:
		if x == 0 && math.Signbit(float64(x)) {
			return "-0.0"
		}
		return strconv.FormatFloat(float64(x), 'g', -1, 32)
	}
	return fmt.Sprint(v)
}

// Show renders a model (with its representation choices) for witnesses and samples.
func Show(s *Shape, m *M) string {
	var b strings.Builder
	show(&b, s, m)
	return b.String()
}

func show(b *strings.Builder, s *Shape, m *M) {
	switch s.Kind {
	case KLeaf:
		b.WriteString(showLeaf(m.Leaf))
	case KBytes:
		if m.Arena != nil {
			fmt.Fprintf(b, "[]byte(%q)@array%s[%d:%d]", m.Str, arenaName(m.Arena), m.Off, m.Off+len(m.Str))
		} else if len(m.Str) == 0 {
			b.WriteString([]string{"[]byte(nil)", "[]byte{}", "[]byte{}cap4"}[m.Repr%3])
		} else {
			fmt.Fprintf(b, "[]byte(%q)", m.Str)
			if m.Repr%2 == 1 {
				b.WriteString("+cap")
			}
		}
	case KTime:
		fmt.Fprintf(b, "time(%s = unix %d.%09d in %s", time.Unix(m.Sec, m.Ns).UTC().Format("2006-01-02T15:04:05.999999999Z"), m.Sec, m.Ns, timeZone(m))
		if TimeMono(m) {
			b.WriteString(" +monotonic")
		}
		b.WriteString(")")
	case KPtrLeaf:
		if m.Nil {
			b.WriteString("nil")
		} else {
			b.WriteString("&" + cellName(m.Cell) + showLeaf(m.Leaf))
		}
	case KOption:
		if m.Nil {
			b.WriteString("None")
		} else {
			b.WriteString("Some(")
			show(b, s.Kids[0], m.Kids[0])
			b.WriteString(")")
		}
	case KPtr:
		if m.Nil {
			b.WriteString("nil")
		} else {
			b.WriteString("&" + cellName(m.Cell))
			show(b, s.Kids[0], m.Kids[0])
		}
	case KSeq, KSlice:
		if len(m.Kids) == 0 && m.Arena == nil {
			b.WriteString([]string{"nil[]", "[]", "[]cap4"}[m.Repr%3])
			return
		}
		b.WriteString("[")
		for i, k := range m.Kids {
			if i > 0 {
				b.WriteString(" ")
			}
			show(b, s.Kids[0], k)
		}
		b.WriteString("]")
		if m.Arena != nil {
			fmt.Fprintf(b, "@array%s[%d:%d]", arenaName(m.Arena), m.Off, m.Off+len(m.Kids))
		} else if m.Repr%2 == 1 {
			b.WriteString("+cap")
		}
	case KTuple, KHList:
		if s.Kind == KHList {
			b.WriteString("H")
		}
		b.WriteString("(")
		for i, k := range m.Kids {
			if i > 0 {
				b.WriteString(", ")
			}
			show(b, s.Kids[i], k)
		}
		b.WriteString(")")
	case KGoMap, KFpMap:
		b.WriteString(cellName(m.Cell))
		if len(m.Kids) == 0 {
			if s.Kind == KGoMap {
				b.WriteString([]string{"nilmap", "map{}"}[emptyMapClass(s, m)])
			} else {
				b.WriteString([]string{"fp.Map{}zero", "fp.Map()", "fp.Map()hist"}[emptyMapClass(s, m)])
			}
			return
		}
		b.WriteString("map{")
		for i, k := range m.Kids {
			if i > 0 {
				b.WriteString(", ")
			}
			b.WriteString(showLeaf(m.Keys[i]) + ":")
			show(b, s.Kids[0], k)
		}
		b.WriteString("}")
		if s.Kind == KFpMap {
			fmt.Fprintf(b, "order%d", m.Repr%4)
		}
	}
}

// arenaName / cellName: the label of a storage identity (equal labels in one witness = the
// same backing array / the same pointer or map).
func arenaName(a *Arena) string { return fmt.Sprintf("#%04x", a.ID) }

func cellName(c *Cell) string {
	if c == nil {
		return ""
	}
	return fmt.Sprintf("<shared#%04x>", c.ID)
}

// emptyMapClass names the representation Build chooses for an empty map.
func emptyMapClass(s *Shape, m *M) int {
	if s.Kind == KGoMap {
		return m.Repr % 2
	}
	if m.Repr%3 == 0 {
		return 0
	}
	return 1 + btoi(m.Repr%4 >= 2)
}

func btoi(b bool) int {
	if b {
		return 1
	}
	return 0
}

// ---- pools ----------------------------------------------------------------------------

// Entry is one pool value with its provenance.
type Entry struct {
	M      *M
	Parent int    // index of the entry it was derived from, -1 for base values
	Rel    string // "base", "rerepr", "mutant", "prefix", "extend", "alias-<mode>" (AliasModes, "same")
	Pos    int    // forced position of a "mutant" (-1: anywhere)
	Shared bool   // some part of the value has a storage identity (see M.Arena / M.Cell)
}

// GenPool builds a pool of at least n values of shape s: a few random base values, for each a
// copy in another representation, for the first base one single-position mutant per tuple
// component / sequence element, prefixes and extensions for sequence roots; if values of the
// shape have storage (slices, byte slices, pointers, maps): one value without empty parts
// whose storage is pinned, a copy of it in storage of its own, one AliasVariant per mode
// (twice "prefix") plus a fresh copy of the first prefix variant, the identical value once
// more, and a mutant that shares every untouched part; then random mutants /
// re-representations / fresh values up to n (+ the number of storage-sharing entries).
// The pool must be built by ONE Ctx for the sharing to become real.
func GenPool(r *rand.Rand, s *Shape, n int) []Entry {
	var pool []Entry
	add := func(m *M, parent int, rel string, pos int) int {
		if m == nil {
			return -1
		}
		pool = append(pool, Entry{M: m, Parent: parent, Rel: rel, Pos: pos})
		return len(pool) - 1
	}
	nb := 3 + r.IntN(2)
	for i := 0; i < nb; i++ {
		b := add(GenValue(r, s), -1, "base", -1)
		add(Rerepr(r, s, pool[b].M), b, "rerepr", -1)
	}
	b0 := pool[0].M
	switch s.Kind {
	case KTuple, KHList:
		for k := range s.Kids {
			add(Mutate(r, s, b0, k), 0, "mutant", k)
		}
	case KSeq, KSlice:
		// make sure the first base has some length so that prefixes exist
		if len(b0.Kids) < 3 {
			for len(b0.Kids) < 3 {
				b0.Kids = append(b0.Kids, GenValue(r, s.Kids[0]))
			}
			pool[1].M = Rerepr(r, s, b0)
		}
		for k := range b0.Kids {
			if k < 6 {
				add(Mutate(r, s, b0, k), 0, "mutant", k)
			}
			if k >= 6 && k < len(b0.Kids)-2 {
				continue // long sequences: the short prefixes and the longest ones
			}
			p := b0.clone()
			p.unpin()
			p.Kids = p.Kids[:k]
			p.Repr = r.IntN(ReprRange)
			add(p, 0, "prefix", k)
		}
		e := b0.clone()
		e.unpin()
		e.Kids = append(e.Kids, GenValue(r, s.Kids[0]))
		add(e, 0, "extend", len(b0.Kids))
	default:
		for k := 0; k < 3; k++ {
			add(Mutate(r, s, b0, -1), 0, "mutant", -1)
		}
	}
	for k := 0; k < 2; k++ {
		if i := add(Mutate(r, s, pool[2].M, -1), 2, "mutant", -1); i >= 0 && k == 0 {
			add(Rerepr(r, s, pool[i].M), i, "rerepr", -1)
		}
	}
	if HasStorage(s) {
		before := len(pool)
		rich := genValue(r, s, true, 0)
		pin(r, s, rich)
		a := add(rich, -1, "base", -1)
		add(Rerepr(r, s, rich), a, "rerepr", -1)
		for k, mode := range append([]string{"prefix"}, AliasModes...) {
			v := add(AliasVariant(r, s, rich, mode), a, "alias-"+mode, -1)
			if v >= 0 && k == 0 {
				add(Rerepr(r, s, pool[v].M), v, "rerepr", -1) // copy ~ window, window !~ array: transitivity
			}
		}
		add(SameStorage(rich), a, "alias-same", -1)
		add(Mutate(r, s, rich, -1), a, "mutant", -1)
		n += len(pool) - before
	}
	for guard := 0; len(pool) < n && guard < 4*n; guard++ {
		p := r.IntN(len(pool))
		switch r.IntN(5) {
		case 0:
			add(GenValue(r, s), -1, "base", -1)
		case 1:
			add(Rerepr(r, s, pool[p].M), p, "rerepr", -1)
		default:
			add(Mutate(r, s, pool[p].M, -1), p, "mutant", -1)
		}
	}
	for i := range pool {
		pool[i].Shared = HasPins(pool[i].M)
	}
	return pool
}

// Size counts the nodes of a model.
func (m *M) Size() int {
	n := 1
	for _, k := range m.Kids {
		n += k.Size()
	}
	return n
}
