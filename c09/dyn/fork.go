package dyn

import "math/rand/v2"

// Forks of instance values.
//
// An instance is a value; every combinator that derives a new instance from an existing one
// (ThenComparing, Reversed, ContraMap, the Option / Seq / Slice / Ptr / TupleN / HCons / GoMap /
// FpMap wrappers, New / FromCompare / as.Ord) may be applied to the SAME instance value any
// number of times, and none of the results may depend on what else was derived from it. A
// ForkPlan is a DAG of instance expressions over one base: a chain of 1..9 successive
// derivations base = b0 -> b1 -> … -> bk (so that whatever grows inside an instance passes the
// capacities 1, 2, 4, 8), and at every chain level 2..4 further derivations of that level's
// value (mostly one family with different arguments). Shared sub-expressions are shared *Expr
// nodes: a builder that memoises by *Expr hands the identical instance value to every use.

// Fork families.
const (
	FamThen        = "then"     // parent.ThenComparing(arg)
	FamThenArg     = "then-arg" // arg.ThenComparing(parent)
	FamReversed    = "reversed"
	FamContra      = "contramap"
	FamNew         = "new"
	FamFromCompare = "fromcompare"
	FamAsOrd       = "asord"
	FamOption      = "option"
	FamSeq         = "seq"
	FamSlice       = "slice"
	FamPtr         = "ptr"
	FamTuple       = "tuple"
	FamHCons       = "hcons"
	FamGoMap       = "gomap"
	FamFpMap       = "fpmap"
)

// ForkNode is one kept instance of a plan.
type ForkNode struct {
	Expr    *Expr
	Parent  int    // index of the node it was derived from, -1 for the base
	Family  string // "" for the base
	Level   int    // number of successive derivations between the base and this node
	OnChain bool
}

// ForkPlan lists the nodes in creation order (a parent comes before its children).
type ForkPlan struct {
	Nodes    []*ForkNode
	ChainLen int
	Pure     string // family of a chain made of one family only, "" for a mixed chain
}

// ForkCfg says which derivations exist on the side under test.
type ForkCfg struct {
	Cfg   *Cfg
	Chain []string // domain-preserving families (chain steps and forks)
	Wrap  []string // domain-changing families (forks; at most two of them on a chain)
	// Costly: chain families whose every level multiplies the cost of one call (ord.New,
	// as.Ord, ord.ContraMap ask their component up to three times): at most two of them on a
	// chain, never a chain of their own.
	Costly []string
}

func (fc *ForkCfg) costly(fam string) bool {
	for _, c := range fc.Costly {
		if c == fam {
			return true
		}
	}
	return false
}

func domPreserving(fam string) bool {
	switch fam {
	case FamThen, FamThenArg, FamReversed, FamNew, FamFromCompare, FamAsOrd:
		return true
	}
	return false
}

// ForkTupleDom draws a product domain of n leaves (n in 3..10) - the domain on which orders
// that look at one component only have many ties for ThenComparing to break.
func ForkTupleDom(r *rand.Rand, cfg *Cfg) *Shape {
	g := &gen{r: r, cfg: cfg}
	n := 3 + r.IntN(8)
	s := &Shape{Kind: KTuple}
	for i := 0; i < n; i++ {
		s.Kids = append(s.Kids, LeafShape(g.leafKind()))
	}
	return s
}

// Comparator draws an order over dom that looks at part of the value only (projection number
// variant mod n of a product, a non-injective function otherwise), sometimes reversed.
func Comparator(r *rand.Rand, cfg *Cfg, dom *Shape, variant int) *Expr {
	g := &gen{r: r, cfg: cfg, budget: 8}
	return g.comparator(dom, variant)
}

func (g *gen) comparator(dom *Shape, variant int) *Expr {
	r := g.r
	var e *Expr
	if dom.Kind == KTuple && len(dom.Kids) > 0 {
		fn := fnProj(dom, variant%len(dom.Kids))
		e = &Expr{Op: OpContra, Dom: dom, Fn: fn, Kids: []*Expr{Natural(fn.Dst)}}
		if fn.Dst.Kind == KLeaf && r.IntN(2) == 0 {
			for _, l := range g.cfg.FieldLeaves {
				if l == fn.Dst.Leaf {
					e = &Expr{Op: OpField, Dom: dom, Fn: fn}
				}
			}
		}
	} else if r.IntN(3) == 0 {
		e = Natural(dom)
	} else {
		e = g.coarse(dom)
	}
	if r.IntN(4) == 0 {
		e = &Expr{Op: OpReversed, Dom: dom, Kids: []*Expr{e}}
	}
	return e
}

// derive applies one derivation of the family to parent; variant makes siblings differ.
func (g *gen) derive(parent *Expr, fam string, variant int) *Expr {
	r := g.r
	dom := parent.Dom
	unary := func(op Op) *Expr { return &Expr{Op: op, Dom: dom, Kids: []*Expr{parent}, Variant: variant} }
	wrap := func(op Op, kind Kind) *Expr {
		return &Expr{Op: op, Dom: &Shape{Kind: kind, Kids: []*Shape{dom}}, Kids: []*Expr{parent}, Variant: variant}
	}
	leaf := func() *Expr { return g.make(OpLeaf, -1, "", 3, nil) }
	switch fam {
	case FamThen:
		return &Expr{Op: OpThen, Dom: dom, Kids: []*Expr{parent, g.comparator(dom, variant)}}
	case FamThenArg:
		return &Expr{Op: OpThen, Dom: dom, Kids: []*Expr{g.comparator(dom, variant), parent}}
	case FamReversed:
		return unary(OpReversed)
	case FamNew:
		return unary(OpNew)
	case FamFromCompare:
		return unary(OpFromCompare)
	case FamAsOrd:
		return unary(OpAsOrd)
	case FamContra:
		fn := fnID(dom)
		if variant > 0 {
			fn = g.fnInto(dom)
		}
		return &Expr{Op: OpContra, Dom: fn.Src, Fn: fn, Kids: []*Expr{parent}}
	case FamOption:
		return wrap(OpOption, KOption)
	case FamSeq:
		return wrap(OpSeq, KSeq)
	case FamSlice:
		return wrap(OpSlice, KSlice)
	case FamPtr:
		return wrap(OpPtr, KPtr)
	case FamGoMap, FamFpMap:
		op, kind := OpGoMap, KGoMap
		if fam == FamFpMap {
			op, kind = OpFpMap, KFpMap
		}
		e := wrap(op, kind)
		e.Dom.Leaf = []string{"int", "string"}[variant%2]
		return e
	case FamTuple:
		n := 1 + (variant+r.IntN(3))%5
		if r.IntN(10) == 0 {
			n = 6 + r.IntN(16)
		}
		at := (variant + r.IntN(n)) % n
		e := &Expr{Op: OpTuple, Dom: &Shape{Kind: KTuple}}
		for i := 0; i < n; i++ {
			k := parent
			if i != at {
				k = leaf()
			}
			e.Kids = append(e.Kids, k)
			e.Dom.Kids = append(e.Dom.Kids, k.Dom)
		}
		return e
	case FamHCons:
		kids := [][]*Expr{{parent}, {parent, leaf()}, {leaf(), parent}}[variant%3]
		e := &Expr{Op: OpHList, Dom: &Shape{Kind: KHList}, Kids: kids}
		for _, k := range kids {
			e.Dom.Kids = append(e.Dom.Kids, k.Dom)
		}
		return e
	}
	panic("dyn: unknown fork family " + fam)
}

// GenForks draws a fork plan over base.
func GenForks(r *rand.Rand, fc *ForkCfg, base *Expr) *ForkPlan {
	g := &gen{r: r, cfg: fc.Cfg, budget: 1 << 20}
	all := append(append([]string{}, fc.Chain...), fc.Wrap...)
	p := &ForkPlan{ChainLen: 1 + r.IntN(9)}
	if r.IntN(2) == 0 {
		if f := fc.Chain[r.IntN(len(fc.Chain))]; !fc.costly(f) {
			p.Pure = f
		}
	}
	add := func(e *Expr, parent int, fam string, level int, chain bool) int {
		p.Nodes = append(p.Nodes, &ForkNode{Expr: e, Parent: parent, Family: fam, Level: level, OnChain: chain})
		return len(p.Nodes) - 1
	}
	cur := add(base, -1, "", 0, true)
	wraps, costly := 0, 0
	for level := 0; ; level++ {
		parent := p.Nodes[cur].Expr
		// the forks of this level: one family, different arguments; sometimes one more of another
		fam := all[r.IntN(len(all))]
		if p.Pure != "" && r.IntN(2) == 0 {
			fam = p.Pure
		}
		nf := 2 + r.IntN(2)
		first := r.IntN(16)
		for f := 0; f < nf; f++ {
			add(g.derive(parent, fam, first+f), cur, fam, level+1, false)
		}
		if r.IntN(3) == 0 {
			other := all[r.IntN(len(all))]
			add(g.derive(parent, other, r.IntN(16)), cur, other, level+1, false)
		}
		if level == p.ChainLen {
			break
		}
		// the chain goes on from the same value (one more fork of it)
		cf := p.Pure
		if cf == "" {
			for {
				cf = fc.Chain[r.IntN(len(fc.Chain))]
				if !fc.costly(cf) || costly < 2 {
					break
				}
			}
			if wraps < 2 && len(fc.Wrap) > 0 && r.IntN(5) == 0 {
				cf = fc.Wrap[r.IntN(len(fc.Wrap))]
			}
			if fc.costly(cf) {
				costly++
			}
		}
		variant := first + nf + r.IntN(4)
		if cf == FamContra && (p.Pure != "" || wraps >= 2) {
			variant = 0 // identity: the domain stays
		}
		next := g.derive(parent, cf, variant)
		if next.Dom != parent.Dom {
			wraps++
		}
		cur = add(next, cur, cf, level+1, true)
	}
	return p
}
