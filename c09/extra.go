// Fork, sized and concurrent cases of C09 (appended batches; the classic batches keep their
// PRNG streams).
package main

import (
	"fmt"
	"math/rand/v2"
	"runtime"
	"sort"
	"strconv"
	"strings"
	"sync"

	"verif/c09/dyn"
	"verif/vrt"

	"github.com/csgura/fp"
)

// ---- forks of instance values -------------------------------------------------------------

var forkEqCfg = &dyn.Cfg{Leaves: eqLeaves, MainLeaves: mainLeaves, Ops: eqOps, MaxDepth: 2, Budget: 10}
var forkHashCfg = &dyn.Cfg{Leaves: hashLeaves, MainLeaves: mainLeaves, Ops: hashOps, MaxDepth: 2, Budget: 10}

var eqForkWraps = []string{dyn.FamOption, dyn.FamSeq, dyn.FamSlice, dyn.FamPtr, dyn.FamTuple, dyn.FamHCons, dyn.FamGoMap, dyn.FamFpMap}
var hashForkWraps = []string{dyn.FamOption, dyn.FamSeq, dyn.FamSlice, dyn.FamPtr, dyn.FamTuple, dyn.FamHCons}

// forkPool is the value pool of one domain of a fork plan (nodes of equal domain share it).
type forkPool struct {
	pool []dyn.Entry
	x, y []V
}

func (p *forkPool) show(dom *dyn.Shape, i int) string { return trunc(dyn.Show(dom, p.pool[i].M), 400) }

func trunc(s string, n int) string {
	if len(s) > n {
		return s[:n] + "…"
	}
	return s
}

func planStr(plan *dyn.ForkPlan, name func(*dyn.Expr) string) []string {
	out := make([]string, len(plan.Nodes))
	for k, nd := range plan.Nodes {
		out[k] = fmt.Sprintf("#%d (from #%d by %q, %d derivations from the base, on the chain: %v) %s", k, nd.Parent, nd.Family, nd.Level, nd.OnChain, trunc(nd.Expr.Format(name), 300))
	}
	return out
}

// forkSide runs one side (eq.* or hash.*) of a fork plan.
//
//	build    builds (memoised in reg) the instance of a node
//	fresh    builds the same expression from scratch, sharing nothing
func forkSide[I fp.Eq[V]](w *vrt.W, i int, r *rand.Rand, side string, plan *dyn.ForkPlan, pools map[*dyn.Shape]*forkPool,
	name func(*dyn.Expr) string, build func(e *dyn.Expr) I, fresh func(e *dyn.Expr) I, blameOf func(e *dyn.Expr, a, b *dyn.M, f I) string) {
	nodes := plan.Nodes
	insts := make([]I, len(nodes))
	hashAtBuild := make([][]uint32, len(nodes))
	asHash := func(in I) (fp.Hashable[V], bool) { h, ok := any(in).(fp.Hashable[V]); return h, ok }
	wit := func(k int, idx ...int) any {
		nd := nodes[k]
		p := pools[nd.Expr.Dom]
		vals := map[string]string{}
		for j, x := range idx {
			vals[string(rune('a'+j))] = p.show(nd.Expr.Dom, x)
		}
		return map[string]any{"side": side, "instance": "#" + strconv.Itoa(k), "values": vals, "domain": nd.Expr.Dom.String(),
			"instances_in_creation_order": planStr(plan, name), "chain_length": plan.ChainLen}
	}
	// disagreement of node k with its reference on pool pair (a, b); "" = agrees. The text
	// starts with the kind of the disagreement (the suffix of the key of a plain defect).
	disagrees := func(in I, k, a, b int) (out string) {
		defer func() { // a panic is a disagreement like any other: the reference does not panic
			if p := recover(); p != nil {
				if _, isBudget := p.(vrt.BudgetExceeded); isBudget {
					panic(p)
				}
				out = fmt.Sprintf("panic: the call panicked: %v", p)
			}
		}()
		nd := nodes[k]
		p := pools[nd.Expr.Dom]
		want := dyn.RefEq(nd.Expr, p.pool[a].M, p.pool[b].M)
		if got := in.Eqv(p.x[a], p.x[b]); got != want {
			kind := "separates-equal-values"
			if got {
				kind = "equates-different-values"
			}
			return kind + ": " + fmt.Sprintf("Eqv(a,b)=%v, the components are pairwise equal: %v", got, want)
		}
		if h, ok := asHash(in); ok && a == b {
			ha := h.Hash(p.x[a])
			if hashAtBuild[k] != nil && ha != hashAtBuild[k][a] {
				return "hash-not-deterministic: " + fmt.Sprintf("Hash(a)=%d, it was %d right after the instance was built", ha, hashAtBuild[k][a])
			}
			if hy := h.Hash(p.y[a]); hy != ha {
				return "hash-differs-on-identical-copy: " + fmt.Sprintf("Hash(a)=%d but Hash(a')=%d for a structurally identical copy a'", ha, hy)
			}
		}
		if h, ok := asHash(in); ok && want && a != b {
			if ha, hb := h.Hash(p.x[a]), h.Hash(p.x[b]); ha != hb {
				return "eqv-but-different-hash: " + fmt.Sprintf("Eqv(a,b) holds but Hash(a)=%d, Hash(b)=%d", ha, hb)
			}
		}
		return ""
	}
	// firstDisagreement of a whole node, pairs in index order
	// stride > 1: a sample of the pairs (every stride-th one, all diagonal ones)
	firstDisN := func(in I, k, stride int) (string, int, int, int) {
		n := len(pools[nodes[k].Expr.Dom].pool)
		cnt := 0
		for a := 0; a < n; a++ {
			for b := 0; b < n; b++ {
				if stride > 1 && a != b && (a*n+b)%stride != 0 {
					continue
				}
				cnt++
				if d := disagrees(in, k, a, b); d != "" {
					return d, a, b, cnt
				}
			}
		}
		return "", -1, -1, cnt
	}
	firstDis := func(in I, k int) (string, int, int) {
		d, a, b, _ := firstDisN(in, k, 1)
		return d, a, b
	}
	plain := func(k, a, b int, detail string, f I) {
		nd := nodes[k]
		p := pools[nd.Expr.Dom]
		kind := "/" + detail[:strings.Index(detail, ":")]
		site := blameOf(nd.Expr, p.pool[a].M, p.pool[b].M, f)
		if strings.Contains(kind, "hash") {
			site = name(nd.Expr)
			if kind == "/eqv-but-different-hash" || kind == "/hash-differs-on-identical-copy" {
				if h, ok := any(f).(fp.Hashable[V]); ok {
					reg := map[*dyn.Expr]fp.Hashable[V]{}
					buildHash(nd.Expr, reg)
					_ = h
					site = blameHash(nd.Expr, p.pool[a].M, p.pool[b].M, reg)
				}
			}
		}
		w.Violation(i, site+kind,
			detail+" (a freshly built instance of the same expression, sharing nothing, answers the same)\ninstance: "+trunc(nd.Expr.Format(name), 600)+
				"\na = "+p.show(nd.Expr.Dom, a)+"\nb = "+p.show(nd.Expr.Dom, b), wit(k, a, b))
	}
	// phase A: build in creation order, use every new instance at once
	for k, nd := range nodes {
		w.Site(name(nd.Expr))
		insts[k] = build(nd.Expr)
		p := pools[nd.Expr.Dom]
		if h, ok := asHash(insts[k]); ok {
			hashAtBuild[k] = make([]uint32, len(p.x))
			for j, v := range p.x {
				hashAtBuild[k][j] = h.Hash(v)
			}
		}
		for t := 0; t < 3; t++ {
			a, b := r.IntN(len(p.x)), r.IntN(len(p.x))
			if d := disagrees(insts[k], k, a, b); d != "" {
				// wrong before anything else was derived from it or from its parent afterwards:
				// decided by a fresh build like every other disagreement
				f := fresh(nd.Expr)
				if fd := disagrees(f, k, a, b); fd != "" {
					plain(k, a, b, d, f)
					return
				}
				w.Violation(i, name(nd.Expr)+"/forked-instance-disturbed", fmt.Sprintf("instance #%d, used right after it was built: %s; a freshly built instance of the same expression agrees with the reference\n%s", k, d, strings.Join(planStr(plan, name), "\n")), wit(k, a, b))
				return
			}
		}
		w.Add("fork."+side+".instances", 1)
		w.Add("fork."+side+".family."+nd.Family, 1)
	}
	// phase B: all instances exist and were used; now each against its own reference, in PRNG order
	for pass := 0; pass < 2; pass++ {
		for _, k := range r.Perm(len(nodes)) {
			w.Site(name(nodes[k].Expr))
			stride := 1
			if pass > 0 {
				stride = 7
			}
			d, a, b, cnt := firstDisN(insts[k], k, stride)
			w.Add("fork."+side+".pairs_after_all_were_built", int64(cnt))
			if d == "" {
				continue
			}
			f := fresh(nodes[k].Expr)
			if fd := disagrees(f, k, a, b); fd != "" {
				plain(k, a, b, d, f)
				return
			}
			// the innermost kept instance that is disturbed (parents come first in creation order)
			for q := 0; q <= k; q++ {
				qd, qa, qb := firstDis(insts[q], q)
				if qd == "" {
					continue
				}
				if disagrees(fresh(nodes[q].Expr), q, qa, qb) != "" {
					continue
				}
				nd := nodes[q]
				p := pools[nd.Expr.Dom]
				w.Violation(i, name(nd.Expr)+"/forked-instance-disturbed",
					fmt.Sprintf("instance #%d (derived from #%d by %q) no longer agrees with its own reference after the other instances were derived from the same values and used: %s\na = %s\nb = %s\n(a freshly built instance of the same expression, sharing nothing, agrees)\n%s",
						q, nd.Parent, nd.Family, qd, p.show(nd.Expr.Dom, qa), p.show(nd.Expr.Dom, qb), strings.Join(planStr(plan, name), "\n")), wit(q, qa, qb))
				return
			}
			return
		}
	}
}

func runForkCase(w *vrt.W, i int) {
	r := w.Rand(i)
	hashSide := r.IntN(2) == 0
	cfg, wraps := forkEqCfg, eqForkWraps
	if hashSide {
		cfg, wraps = forkHashCfg, hashForkWraps
	}
	base := dyn.GenExpr(r, cfg, nil)
	plan := dyn.GenForks(r, &dyn.ForkCfg{Cfg: cfg, Chain: []string{dyn.FamContra}, Wrap: wraps}, base)
	pools := map[*dyn.Shape]*forkPool{}
	for _, nd := range plan.Nodes {
		dom := nd.Expr.Dom
		if pools[dom] != nil {
			continue
		}
		p := &forkPool{pool: dyn.GenPool(r, dom, 8)}
		ctx := dyn.NewCtx()
		for _, en := range p.pool {
			p.x = append(p.x, ctx.Build(dom, en.M))
			p.y = append(p.y, dyn.Build(dom, en.M))
		}
		pools[dom] = p
	}
	w.Begin(i, "eq/forks")
	w.Guard(i, func() any { return map[string]any{"instances_in_creation_order": planStr(plan, nameEq)} }, func() {
		ereg := map[*dyn.Expr]fp.Eq[V]{}
		forkSide(w, i, r, "eq", plan, pools, nameEq,
			func(e *dyn.Expr) fp.Eq[V] { return buildEq(e, ereg) },
			func(e *dyn.Expr) fp.Eq[V] { return buildEq(e, map[*dyn.Expr]fp.Eq[V]{}) },
			func(e *dyn.Expr, a, b *dyn.M, f fp.Eq[V]) string {
				reg := map[*dyn.Expr]fp.Eq[V]{}
				buildEq(e, reg)
				return blame(e, a, b, reg, nameEq)
			})
		if hashSide {
			hreg := map[*dyn.Expr]fp.Hashable[V]{}
			forkSide(w, i, r, "hash", plan, pools, nameHash,
				func(e *dyn.Expr) fp.Hashable[V] { return buildHash(e, hreg) },
				func(e *dyn.Expr) fp.Hashable[V] { return buildHash(e, map[*dyn.Expr]fp.Hashable[V]{}) },
				func(e *dyn.Expr, a, b *dyn.M, f fp.Hashable[V]) string {
					reg := map[*dyn.Expr]fp.Hashable[V]{}
					buildHash(e, reg)
					return blame(e, a, b, reg, nameHash)
				})
		}
	})
	w.Done(i)
	w.Add("fork.cases", 1)
	w.Add("fork.chain_length."+strconv.Itoa(plan.ChainLen), 1)
	w.Max("fork.max_instances_kept", int64(len(plan.Nodes)))
	if len(plan.Nodes) >= 12 {
		w.Distinct("fork:" + strings.Join(planStr(plan, nameEq), "|"))
	}
	if w.WantSample() && i%97 == 0 {
		w.Sample(map[string]any{"kind": "forks of one instance value", "instances_in_creation_order": planStr(plan, nameEq)})
	}
}

// ---- sized pools ---------------------------------------------------------------------------

var sizedLeaves = []string{"int", "string", "float64", "uint8", "int64"}
var sizedWrappers = []dyn.Kind{dyn.KOption, dyn.KPtr, dyn.KTuple, dyn.KHList}

func sizedPerBatch() int { return len(dyn.SizedKinds) * len(dyn.SizedLens) * 2 }

func runSizedCase(w *vrt.W, i, sizedBatch int) {
	g := sizedBatch*sizedPerBatch() + i
	kind := dyn.SizedKinds[g%len(dyn.SizedKinds)]
	n := dyn.SizedLens[(g/len(dyn.SizedKinds))%len(dyn.SizedLens)]
	r := w.Rand(i)
	dom := dyn.SizedShape(r, kind, sizedLeaves, sizedWrappers)
	e := dyn.Natural(dom)
	pool := dyn.GenPoolSized(r, dom, n)
	if got := dyn.SizedLen(dom, pool[0].M); got != n {
		panic(fmt.Sprintf("c09: HARNESS BUG: sized value has %d elements, wanted %d", got, n))
	}
	w.Add("sized."+dyn.KindName(kind)+"."+strconv.Itoa(n), 1)
	w.Add("sized.cases", 1)
	checkPoolCase(w, i, e, pool)
}

// ---- one instance value used by many goroutines --------------------------------------------

// concRoots are the package-level instance VALUES of eq / hash (everything else is built by a
// function call per use): they are what unrelated goroutines of a program really share.
var concRoots = []forced{
	{true, dyn.OpBytes, -1, "", "hash.Bytes"},
	{true, dyn.OpLeaf, -1, "string", "hash.String"},
	{false, dyn.OpBytes, -1, "", "eq.Bytes"},
	{false, dyn.OpTime, -1, "", "eq.Time"},
	{false, dyn.OpLeaf, -1, "string", "eq.String"},
	{true, dyn.OpHList, 0, "", "hash.HNil"},
}

type concGo struct {
	pool   []dyn.Entry
	x      []V
	yield  []bool
	seqE   [][]bool // Eqv computed single-threaded beforehand
	seqH   []uint32 // Hash computed single-threaded beforehand
	gotE   [][]bool
	gotH   []uint32
	badE   int // first pair (a*n+b) whose concurrent Eqv differs, -1 none
	badH   int
	panicS string
}

// concRun releases G goroutines together; body(g) runs in goroutine g.
func concRun(G int, body func(g int)) {
	start := make(chan struct{})
	var wg sync.WaitGroup
	for g := 0; g < G; g++ {
		wg.Add(1)
		go func(g int) {
			defer wg.Done()
			<-start
			body(g)
		}(g)
	}
	close(start)
	wg.Wait()
}

// concExperiment: G goroutines use the one instance value (eq side and, if hin != nil, hash
// side) on goroutine-private pools of domain dom. It returns the goroutines with what they saw.
func concExperiment(r *rand.Rand, dom *dyn.Shape, ein fp.Eq[V], hin fp.Hashable[V], G, poolN, rounds int) []*concGo {
	gs := make([]*concGo, G)
	for g := range gs {
		cg := &concGo{pool: dyn.GenPool(r, dom, poolN), badE: -1, badH: -1}
		ctx := dyn.NewCtx()
		for _, en := range cg.pool {
			cg.x = append(cg.x, ctx.Build(dom, en.M))
		}
		n := len(cg.x)
		cg.yield = make([]bool, 64)
		for k := range cg.yield {
			cg.yield[k] = r.IntN(3) == 0
		}
		// the sequential reference: the very same instance, single-threaded, beforehand
		cg.seqE, cg.gotE = make([][]bool, n), make([][]bool, n)
		for a := 0; a < n; a++ {
			cg.seqE[a], cg.gotE[a] = make([]bool, n), make([]bool, n)
			for b := 0; b < n; b++ {
				cg.seqE[a][b] = ein.Eqv(cg.x[a], cg.x[b])
			}
		}
		if hin != nil {
			cg.seqH, cg.gotH = make([]uint32, n), make([]uint32, n)
			for a := 0; a < n; a++ {
				cg.seqH[a] = hin.Hash(cg.x[a])
			}
		}
		gs[g] = cg
	}
	concRun(G, func(g int) {
		cg := gs[g]
		defer func() {
			if p := recover(); p != nil {
				cg.panicS = fmt.Sprint(p)
			}
		}()
		n, step := len(cg.x), 0
		tick := func() {
			if cg.yield[step%len(cg.yield)] {
				runtime.Gosched()
			}
			step++
		}
		for round := 0; round < rounds; round++ {
			for a := 0; a < n; a++ {
				if hin != nil {
					tick()
					h := hin.Hash(cg.x[a])
					cg.gotH[a] = h
					if h != cg.seqH[a] && cg.badH < 0 {
						cg.badH = a
					}
				}
				for b := 0; b < n; b++ {
					if (a+b+round)%3 == 0 {
						tick()
					}
					q := ein.Eqv(cg.x[a], cg.x[b])
					cg.gotE[a][b] = q
					if q != cg.seqE[a][b] && cg.badE < 0 {
						cg.badE = a*n + b
					}
				}
			}
		}
	})
	return gs
}

func concBad(gs []*concGo) (g int, what string) {
	for g, cg := range gs {
		switch {
		case cg.panicS != "":
			return g, "panic"
		case cg.badH >= 0:
			return g, "hash"
		case cg.badE >= 0:
			return g, "eqv"
		}
	}
	return -1, ""
}

func runConcCase(w *vrt.W, i int) {
	r := w.Rand(i)
	var e *dyn.Expr
	cfg := hashCfg
	rootName := ""
	switch {
	case i%3 == 0:
		f := concRoots[(i/3+w.Batch)%len(concRoots)]
		if !f.hashSide {
			cfg = eqCfg
		}
		e = dyn.GenExpr(r, cfg, &dyn.Force{Op: f.op, Arity: f.arity, Leaf: f.leaf, At: r.IntN(3)})
		rootName = f.name
	default:
		if r.IntN(3) == 0 {
			cfg = eqCfg
		}
		e = dyn.GenExpr(r, &dyn.Cfg{Leaves: cfg.Leaves, MainLeaves: cfg.MainLeaves, Ops: cfg.Ops, MaxDepth: 2, Budget: 16}, nil)
	}
	G := 4 + r.IntN(29)
	exprStr := e.Format(nameEq)
	isHashable := hashable(e)
	w.Begin(i, nameEq(e))
	wit := map[string]any{"expr": exprStr, "goroutines": G, "domain": e.Dom.String(), "note": "pools are rebuilt from the case PRNG; the interleaving is the scheduler's"}
	w.Guard(i, func() any { return wit }, func() {
		ereg := map[*dyn.Expr]fp.Eq[V]{}
		ein := buildEq(e, ereg)
		hits(w, e, nameEq, "eq.HNil")
		var hin fp.Hashable[V]
		viaHash := false
		hreg := map[*dyn.Expr]fp.Hashable[V]{}
		if isHashable {
			hin = buildHash(e, hreg)
			hits(w, e, nameHash, "hash.HNil")
			// the hash.* instance is an Eq as well: half of the cases compare through it
			if r.IntN(2) == 0 {
				ein, viaHash = hin, true
			}
		}
		gs := concExperiment(r, e.Dom, ein, hin, G, 5, 2)
		calls := 0
		for _, cg := range gs {
			calls += 2 * (len(cg.x)*len(cg.x) + len(cg.x))
		}
		w.Add("conc.calls", int64(calls))
		g, what := concBad(gs)
		if g < 0 {
			return
		}
		cg := gs[g]
		// which instance? the smallest sub-instance (the very values inside this expression)
		// that shows a difference in a concurrent experiment of its own; else the root
		type sub struct {
			e    *dyn.Expr
			size int
		}
		var subs []sub
		seen := map[*dyn.Expr]bool{}
		e.Walk(func(x *dyn.Expr) {
			if x != e && !seen[x] {
				seen[x] = true
				n := 0
				x.Walk(func(*dyn.Expr) { n++ })
				subs = append(subs, sub{x, n})
			}
		})
		sort.SliceStable(subs, func(a, b int) bool { return subs[a].size < subs[b].size })
		blamed := nameEq(e)
		if what == "hash" || viaHash {
			blamed = nameHash(e)
		}
		for _, sb := range subs {
			var sh fp.Hashable[V]
			if isHashable {
				sh = hreg[sb.e]
			}
			se := ereg[sb.e]
			if se == nil {
				continue
			}
			bad := false
			for t := 0; t < 3 && !bad; t++ {
				sg, swhat := concBad(concExperiment(r, sb.e.Dom, se, sh, 8+r.IntN(9), 4, 6))
				if sg >= 0 {
					bad = true
					blamed = nameEq(sb.e)
					if swhat == "hash" {
						blamed = nameHash(sb.e)
					}
				}
				if sh != nil && !bad {
					if sg2, _ := concBad(concExperiment(r, sb.e.Dom, sh, sh, 8+r.IntN(9), 4, 6)); sg2 >= 0 {
						bad, blamed = true, nameHash(sb.e)
					}
				}
			}
			if bad {
				break
			}
		}
		detail := ""
		switch what {
		case "panic":
			detail = "a call panicked: " + cg.panicS
		case "hash":
			a := cg.badH
			detail = fmt.Sprintf("Hash(a) was %d single-threaded beforehand and came out differently while the other goroutines were hashing their own values (last value seen %d)\na = %s", cg.seqH[a], cg.gotH[a], trunc(dyn.Show(e.Dom, cg.pool[a].M), 400))
		default:
			n := len(cg.x)
			a, b := cg.badE/n, cg.badE%n
			detail = fmt.Sprintf("Eqv(a,b) was %v single-threaded beforehand and came out differently under concurrent use\na = %s\nb = %s", cg.seqE[a][b], trunc(dyn.Show(e.Dom, cg.pool[a].M), 400), trunc(dyn.Show(e.Dom, cg.pool[b].M), 400))
		}
		w.Violation(i, blamed+"/concurrent-use-differs", fmt.Sprintf("%d goroutines used ONE instance value on their own private values at the same time; goroutine %d: %s\ninstance: %s", G, g, detail, exprStr), wit)
	})
	w.Done(i)
	w.Add("conc.cases", 1)
	w.Add("conc.goroutines", int64(G))
	w.Max("conc.max_goroutines", int64(G))
	if G >= 16 {
		w.Add("conc.cases_with_16_or_more_goroutines", 1)
	}
	if rootName != "" {
		w.Add("conc.shared_package_level."+rootName, 1)
	}
}
