// C09 — every Eq instance / combinator of package eq is an equivalence that holds exactly when
// the components are pairwise equal; every Hashable of package hash is such an equivalence with
// a deterministic Hash that gives Eqv-equal values equal hashes.
//
// A case is one random instance expression (library combinators nested up to depth 3, every
// component type instantiated at V = any, see package dyn) together with a pool of values that
// contains distinct representations of equal values, single-position mutants and values that
// share storage (windows of one backing array, the same pointer / map inside different values;
// the pool is built by one dyn.Ctx). All ordered pairs and all triples of the pool are
// evaluated; the oracle is the structural reference dyn.RefEq over the models of the values,
// which never calls the library and compares by value only.
package main

import (
	"fmt"
	"sort"
	"strconv"
	"strings"
	"time"

	"verif/c09/dyn"
	"verif/vrt"

	"github.com/csgura/fp"
	"github.com/csgura/fp/eq"
	"github.com/csgura/fp/hash"
	"github.com/csgura/fp/hlist"
	"github.com/csgura/fp/lazy"
)

type V = dyn.V

// ---- type erasure: fp.Eq[T] / fp.Hashable[T] seen as instances over boxed values --------

type eqAd[T any] struct{ in fp.Eq[T] }

func (e eqAd[T]) Eqv(a, b V) bool { return e.in.Eqv(a.(T), b.(T)) }

func eraseEq[T any](in fp.Eq[T]) fp.Eq[V] { return eqAd[T]{in} }

type hashAd[T any] struct{ in fp.Hashable[T] }

func (e hashAd[T]) Eqv(a, b V) bool { return e.in.Eqv(a.(T), b.(T)) }
func (e hashAd[T]) Hash(a V) uint32 { return e.in.Hash(a.(T)) }

func eraseHashable[T any](in fp.Hashable[T]) fp.Hashable[V] { return hashAd[T]{in} }

func givenEq[T comparable]() fp.Eq[V]              { return eraseEq[T](eq.Given[T]()) }
func numberHash[T fp.ImplicitNum]() fp.Hashable[V] { return eraseHashable[T](hash.Number[T]()) }

var eqLeaf = map[string]func() fp.Eq[V]{
	"int": givenEq[int], "int8": givenEq[int8], "int16": givenEq[int16], "int32": givenEq[int32], "int64": givenEq[int64],
	"uint": givenEq[uint], "uint8": givenEq[uint8], "uint16": givenEq[uint16], "uint32": givenEq[uint32], "uint64": givenEq[uint64],
	"uintptr": givenEq[uintptr], "float32": givenEq[float32], "float64": givenEq[float64],
	"string": givenEq[string], "bool": givenEq[bool], "Pt": givenEq[dyn.Pt],
}

var hashLeaf = map[string]func() fp.Hashable[V]{
	"int": numberHash[int], "int8": numberHash[int8], "int16": numberHash[int16], "int32": numberHash[int32], "int64": numberHash[int64],
	"uint": numberHash[uint], "uint8": numberHash[uint8], "uint16": numberHash[uint16], "uint32": numberHash[uint32], "uint64": numberHash[uint64],
	"uintptr": numberHash[uintptr], "float32": numberHash[float32], "float64": numberHash[float64],
	"string": func() fp.Hashable[V] { return eraseHashable[string](hash.String) },
}

var numLeaves = []string{"int", "int8", "int16", "int32", "int64", "uint", "uint8", "uint16", "uint32", "uint64", "uintptr", "float32", "float64"}
var eqLeaves = append(append([]string{}, numLeaves...), "string", "bool", "Pt")
var hashLeaves = append(append([]string{}, numLeaves...), "string")

// ---- names ----------------------------------------------------------------------------

func eqStringVar(e *dyn.Expr) bool { return e.Dom.Leaf == "string" && e.Variant%2 == 0 }

func nameEq(e *dyn.Expr) string {
	switch e.Op {
	case dyn.OpLeaf:
		if eqStringVar(e) {
			return "eq.String"
		}
		return "eq.Given[" + e.Dom.Leaf + "]"
	case dyn.OpBytes:
		return "eq.Bytes"
	case dyn.OpTime:
		return "eq.Time"
	case dyn.OpPtrLeaf:
		return "eq.PtrGiven[" + e.Dom.Leaf + "]"
	case dyn.OpSeq:
		return "eq.Seq"
	case dyn.OpSlice:
		return "eq.Slice"
	case dyn.OpOption:
		return "eq.Option"
	case dyn.OpPtr:
		return "eq.Ptr"
	case dyn.OpGoMap:
		return "eq.GoMap[" + e.Dom.Leaf + "]"
	case dyn.OpFpMap:
		return "eq.FpMap[" + e.Dom.Leaf + "]"
	case dyn.OpTuple:
		return "eq.Tuple" + strconv.Itoa(len(e.Kids))
	case dyn.OpHList:
		if len(e.Kids) == 0 {
			return "eq.HNil"
		}
		return "eq.HCons"
	case dyn.OpContra:
		return "eq.ContraMap"
	}
	return "?"
}

func nameHash(e *dyn.Expr) string {
	switch e.Op {
	case dyn.OpLeaf:
		if e.Dom.Leaf == "string" {
			return "hash.String"
		}
		return "hash.Number[" + e.Dom.Leaf + "]"
	case dyn.OpBytes:
		return "hash.Bytes"
	case dyn.OpSeq:
		return "hash.Seq"
	case dyn.OpSlice:
		return "hash.Slice"
	case dyn.OpOption:
		return "hash.Option"
	case dyn.OpPtr:
		return "hash.Ptr"
	case dyn.OpTuple:
		return "hash.Tuple" + strconv.Itoa(len(e.Kids))
	case dyn.OpHList:
		if len(e.Kids) == 0 {
			return "hash.HNil"
		}
		return "hash.HCons"
	case dyn.OpContra:
		return "hash.ContraMap"
	}
	return "?"
}

// hits records every library instance / combinator the expression is built from.
func hits(w *vrt.W, e *dyn.Expr, name func(*dyn.Expr) string, hnil string) {
	e.Walk(func(x *dyn.Expr) {
		if x.Op == dyn.OpHList {
			for range x.Kids {
				w.Hit(name(x))
			}
			w.Hit(hnil)
			return
		}
		w.Hit(name(x))
	})
}

// ---- building library instances -------------------------------------------------------

// buildEq / buildHash memoise by expression node: a node that occurs at several places of an
// expression DAG (fork cases) is built once and the identical instance VALUE is used everywhere.
func buildEq(e *dyn.Expr, reg map[*dyn.Expr]fp.Eq[V]) fp.Eq[V] {
	if out, ok := reg[e]; ok {
		return out
	}
	kids := make([]fp.Eq[V], len(e.Kids))
	for i, k := range e.Kids {
		kids[i] = buildEq(k, reg)
	}
	var out fp.Eq[V]
	switch e.Op {
	case dyn.OpLeaf:
		if eqStringVar(e) {
			out = eraseEq[string](eq.String)
		} else {
			out = eqLeaf[e.Dom.Leaf]()
		}
	case dyn.OpBytes:
		out = eraseEq[[]byte](eq.Bytes)
	case dyn.OpTime:
		out = eraseEq[time.Time](eq.Time)
	case dyn.OpPtrLeaf:
		switch e.Dom.Leaf {
		case "int":
			out = eraseEq[*int](eq.PtrGiven[int]())
		case "string":
			out = eraseEq[*string](eq.PtrGiven[string]())
		default:
			out = eraseEq[*float64](eq.PtrGiven[float64]())
		}
	case dyn.OpSeq:
		out = eraseEq[fp.Seq[V]](eq.Seq(kids[0]))
	case dyn.OpSlice:
		out = eraseEq[[]V](eq.Slice(kids[0]))
	case dyn.OpOption:
		out = eraseEq[fp.Option[V]](eq.Option(kids[0]))
	case dyn.OpPtr:
		k := kids[0]
		lz := lazy.Done(k)
		if e.Variant%2 == 1 {
			lz = lazy.Call(func() fp.Eq[V] { return k })
		}
		out = eraseEq[*V](eq.Ptr(lz))
	case dyn.OpGoMap:
		if e.Dom.Leaf == "int" {
			out = eraseEq[map[int]V](eq.GoMap[int, V](kids[0]))
		} else {
			out = eraseEq[map[string]V](eq.GoMap[string, V](kids[0]))
		}
	case dyn.OpFpMap:
		if e.Dom.Leaf == "int" {
			out = eraseEq[fp.Map[int, V]](eq.FpMap[int, V](kids[0]))
		} else {
			out = eraseEq[fp.Map[string, V]](eq.FpMap[string, V](kids[0]))
		}
	case dyn.OpTuple:
		out = eqTuple(kids)
	case dyn.OpHList:
		out = eraseEq[hlist.Nil](eq.HNil)
		for i := len(kids) - 1; i >= 0; i-- {
			out = eraseEq[hlist.Cons[V, V]](eq.HCons[V, V](kids[i], out))
		}
	case dyn.OpContra:
		out = eq.ContraMap[V, V](kids[0], e.Fn.V)
	default:
		panic("c09: op without Eq instance")
	}
	reg[e] = out
	return out
}

func buildHash(e *dyn.Expr, reg map[*dyn.Expr]fp.Hashable[V]) fp.Hashable[V] {
	if out, ok := reg[e]; ok {
		return out
	}
	kids := make([]fp.Hashable[V], len(e.Kids))
	for i, k := range e.Kids {
		kids[i] = buildHash(k, reg)
	}
	var out fp.Hashable[V]
	switch e.Op {
	case dyn.OpLeaf:
		out = hashLeaf[e.Dom.Leaf]()
	case dyn.OpBytes:
		out = eraseHashable[[]byte](hash.Bytes)
	case dyn.OpSeq:
		out = eraseHashable[fp.Seq[V]](hash.Seq(kids[0]))
	case dyn.OpSlice:
		out = eraseHashable[[]V](hash.Slice(kids[0]))
	case dyn.OpOption:
		out = eraseHashable[fp.Option[V]](hash.Option(kids[0]))
	case dyn.OpPtr:
		k := kids[0]
		lz := lazy.Done(k)
		if e.Variant%2 == 1 {
			lz = lazy.Call(func() fp.Hashable[V] { return k })
		}
		out = eraseHashable[*V](hash.Ptr(lz))
	case dyn.OpTuple:
		out = hashTuple(kids)
	case dyn.OpHList:
		out = eraseHashable[hlist.Nil](hash.HNil)
		for i := len(kids) - 1; i >= 0; i-- {
			out = eraseHashable[hlist.Cons[V, V]](hash.HCons[V, V](kids[i], out))
		}
	case dyn.OpContra:
		out = hash.ContraMap[V, V](kids[0], e.Fn.V)
	default:
		panic("c09: op without Hashable instance")
	}
	reg[e] = out
	return out
}

func hashable(e *dyn.Expr) bool {
	ok := true
	e.Walk(func(x *dyn.Expr) {
		switch x.Op {
		case dyn.OpTime, dyn.OpPtrLeaf, dyn.OpGoMap, dyn.OpFpMap:
			ok = false
		case dyn.OpLeaf:
			if _, has := hashLeaf[x.Dom.Leaf]; !has {
				ok = false
			}
		}
	})
	return ok
}

// ---- forced-op catalogue: every exported instance / combinator gets its own cases --------

type forced struct {
	hashSide bool
	op       dyn.Op
	arity    int
	leaf     string // "*": cycle through the leaf kinds
	name     string
}

var catalogue []forced

func init() {
	add := func(h bool, op dyn.Op, arity int, leaf, name string) {
		catalogue = append(catalogue, forced{h, op, arity, leaf, name})
	}
	add(false, dyn.OpLeaf, -1, "*", "eq.Given")
	add(false, dyn.OpLeaf, -1, "string", "eq.String")
	add(false, dyn.OpBytes, -1, "", "eq.Bytes")
	add(false, dyn.OpTime, -1, "", "eq.Time")
	add(false, dyn.OpOption, -1, "", "eq.Option")
	add(false, dyn.OpSeq, -1, "", "eq.Seq")
	add(false, dyn.OpSlice, -1, "", "eq.Slice")
	add(false, dyn.OpPtr, -1, "", "eq.Ptr")
	add(false, dyn.OpPtrLeaf, -1, "", "eq.PtrGiven")
	add(false, dyn.OpGoMap, -1, "", "eq.GoMap")
	add(false, dyn.OpFpMap, -1, "", "eq.FpMap")
	add(false, dyn.OpHList, 0, "", "eq.HNil")
	add(false, dyn.OpHList, -1, "", "eq.HCons")
	add(false, dyn.OpContra, -1, "", "eq.ContraMap")
	add(true, dyn.OpLeaf, -1, "*", "hash.Number")
	add(true, dyn.OpLeaf, -1, "string", "hash.String")
	add(true, dyn.OpBytes, -1, "", "hash.Bytes")
	add(true, dyn.OpOption, -1, "", "hash.Option")
	add(true, dyn.OpSeq, -1, "", "hash.Seq")
	add(true, dyn.OpSlice, -1, "", "hash.Slice")
	add(true, dyn.OpPtr, -1, "", "hash.Ptr")
	add(true, dyn.OpHList, 0, "", "hash.HNil")
	add(true, dyn.OpHList, -1, "", "hash.HCons")
	add(true, dyn.OpContra, -1, "", "hash.ContraMap")
	for n := 1; n <= dyn.MaxArity; n++ {
		add(false, dyn.OpTuple, n, "", "eq.Tuple"+strconv.Itoa(n))
		add(true, dyn.OpTuple, n, "", "hash.Tuple"+strconv.Itoa(n))
	}
}

var eqOps = []dyn.Op{dyn.OpLeaf, dyn.OpBytes, dyn.OpTime, dyn.OpPtrLeaf, dyn.OpSeq, dyn.OpSlice, dyn.OpOption, dyn.OpPtr, dyn.OpGoMap, dyn.OpFpMap, dyn.OpTuple, dyn.OpHList, dyn.OpContra}
var hashOps = []dyn.Op{dyn.OpLeaf, dyn.OpBytes, dyn.OpSeq, dyn.OpSlice, dyn.OpOption, dyn.OpPtr, dyn.OpTuple, dyn.OpHList, dyn.OpContra}

var mainLeaves = []string{"int", "string", "float64"}
var eqCfg = &dyn.Cfg{Leaves: eqLeaves, MainLeaves: mainLeaves, Ops: eqOps, MaxDepth: 3, Budget: 70}
var hashCfg = &dyn.Cfg{Leaves: hashLeaves, MainLeaves: mainLeaves, Ops: hashOps, MaxDepth: 3, Budget: 70}

// ---- one case -------------------------------------------------------------------------

type caseT struct {
	w       *vrt.W
	idx     int
	e       *dyn.Expr
	exprStr string
	pool    []dyn.Entry
	x, y    []V // two independent builds of every pool value
}

func (c *caseT) show(i int) string { return dyn.Show(c.e.Dom, c.pool[i].M) }

func (c *caseT) witness(side, exprStr string, idx ...int) any {
	vals := map[string]string{}
	for k, i := range idx {
		vals[string(rune('a'+k))] = c.show(i)
	}
	return map[string]any{"side": side, "expr": exprStr, "values": vals, "domain": c.e.Dom.String()}
}

// blame descends to the innermost sub-instance whose verdict on aligned components differs
// from the reference, so that the violation key names the combinator at fault.
func blame[I fp.Eq[V]](e *dyn.Expr, a, b *dyn.M, reg map[*dyn.Expr]I, name func(*dyn.Expr) string) string {
	for _, al := range dyn.Align(e, a, b) {
		inst := reg[al.Kid]
		ctx := dyn.NewCtx() // one context: the two components share storage exactly as they do inside the pool values
		got := inst.Eqv(ctx.Build(al.Kid.Dom, al.A), ctx.Build(al.Kid.Dom, al.B))
		if got != dyn.RefEq(al.Kid, al.A, al.B) {
			return blame(al.Kid, al.A, al.B, reg, name)
		}
	}
	return name(e)
}

// blameHash: the instance calls a and b Eqv-equal but hashes them differently; find the
// innermost sub-instance for which that is still true.
func blameHash(e *dyn.Expr, a, b *dyn.M, reg map[*dyn.Expr]fp.Hashable[V]) string {
	for _, al := range dyn.Align(e, a, b) {
		inst := reg[al.Kid]
		ctx := dyn.NewCtx()
		va, vb := ctx.Build(al.Kid.Dom, al.A), ctx.Build(al.Kid.Dom, al.B)
		if inst.Eqv(va, vb) && inst.Hash(va) != inst.Hash(vb) {
			return blameHash(al.Kid, al.A, al.B, reg)
		}
	}
	return nameHash(e)
}

type sideStats struct {
	equalNotIdentical, onePos int
}

// checkSide evaluates one instance (the eq.* or the hash.* expression) on the whole pool.
func checkSide[I fp.Eq[V]](c *caseT, side string, inst I, reg map[*dyn.Expr]I, name func(*dyn.Expr) string, hreg map[*dyn.Expr]fp.Hashable[V]) sideStats {
	w, e, n := c.w, c.e, len(c.pool)
	exprStr := e.Format(name)
	var st sideStats
	viol := func(key, detail string, idx ...int) {
		w.Violation(c.idx, key, detail+"\ninstance: "+exprStr, c.witness(side, exprStr, idx...))
	}
	blameOf := func(i, j int) string { return blame(e, c.pool[i].M, c.pool[j].M, reg, name) }

	w.Site(name(e))
	mat := make([][]bool, n)
	for i := range mat {
		mat[i] = make([]bool, n)
		for j := range mat[i] {
			mat[i][j] = inst.Eqv(c.x[i], c.x[j])
		}
	}
	w.Add("pairs", int64(n*n))
	// reflexivity, also against a structurally identical, freshly allocated copy
	for i := 0; i < n; i++ {
		if !mat[i][i] {
			viol(blameOf(i, i)+"/not-reflexive", fmt.Sprintf("Eqv(a,a) is false for a = %s", c.show(i)), i)
		}
		if !inst.Eqv(c.x[i], c.y[i]) || !inst.Eqv(c.y[i], c.x[i]) {
			viol(blameOf(i, i)+"/fresh-copy-not-equal", fmt.Sprintf("Eqv(a,a') is false for a freshly allocated, structurally identical copy a' of a = %s", c.show(i)), i)
		}
	}
	// exactly the reference
	for i := 0; i < n; i++ {
		for j := 0; j < n; j++ {
			want := dyn.RefEq(e, c.pool[i].M, c.pool[j].M)
			if mat[i][j] != want {
				kind := "/separates-equal-values"
				if mat[i][j] {
					kind = "/equates-different-values"
				}
				viol(blameOf(i, j)+kind, fmt.Sprintf("Eqv(a,b)=%v but the components are pairwise equal: %v\na = %s\nb = %s", mat[i][j], want, c.show(i), c.show(j)), i, j)
			}
			if i == j || !want {
				continue
			}
			if i < j {
				w.Add("pairs.equal", 1)
				differ := false
				if !dyn.NatEq(e.Dom, c.pool[i].M, c.pool[j].M) {
					differ = true
					w.Add("repr.contramap_collapsed", 1)
				} else {
					dyn.ReprDiffs(e.Dom, c.pool[i].M, c.pool[j].M, func(class string) {
						differ = true
						w.Add("repr."+class, 1)
					})
				}
				if differ {
					st.equalNotIdentical++
				}
			}
		}
	}
	// symmetry and transitivity on the library's own answers
	for i := 0; i < n; i++ {
		for j := i + 1; j < n; j++ {
			if mat[i][j] != mat[j][i] {
				b := blameOf(i, j)
				if mat[j][i] != dyn.RefEq(e, c.pool[j].M, c.pool[i].M) {
					b = blameOf(j, i)
				}
				viol(b+"/not-symmetric", fmt.Sprintf("Eqv(a,b)=%v, Eqv(b,a)=%v\na = %s\nb = %s", mat[i][j], mat[j][i], c.show(i), c.show(j)), i, j)
			}
		}
	}
	triples := 0
	for i := 0; i < n; i++ {
		for j := 0; j < n; j++ {
			if !mat[i][j] {
				triples += n
				continue
			}
			for k := 0; k < n; k++ {
				triples++
				if mat[j][k] && !mat[i][k] {
					b := name(e)
					for _, pr := range [][2]int{{i, j}, {j, k}, {i, k}} {
						if mat[pr[0]][pr[1]] != dyn.RefEq(e, c.pool[pr[0]].M, c.pool[pr[1]].M) {
							b = blameOf(pr[0], pr[1])
							break
						}
					}
					viol(b+"/not-transitive", fmt.Sprintf("Eqv(a,b) and Eqv(b,c) but not Eqv(a,c)\na = %s\nb = %s\nc = %s", c.show(i), c.show(j), c.show(k)), i, j, k)
				}
			}
		}
	}
	w.Add("triples", int64(triples))
	// Eqv is a function: a second evaluation gives the same answer
	for i := 0; i < n; i++ {
		j := (i*7 + 3) % n
		if inst.Eqv(c.x[i], c.x[j]) != mat[i][j] {
			viol(name(e)+"/eqv-not-deterministic", fmt.Sprintf("Eqv(a,b) changed between two calls\na = %s\nb = %s", c.show(i), c.show(j)), i, j)
		}
	}
	// single-position differences (derived values next to the value they were derived from)
	allPos := map[int]bool{}
	for j, en := range c.pool {
		if en.Rel != "mutant" || en.Parent < 0 {
			continue
		}
		if !dyn.RefEq(e, c.pool[en.Parent].M, en.M) && !mat[en.Parent][j] {
			st.onePos++
			if en.Parent == 0 && en.Pos >= 0 {
				allPos[en.Pos] = true
			}
		}
	}
	w.Add("pairs.one_position_apart", int64(st.onePos))
	if e.Op == dyn.OpTuple && len(allPos) == len(e.Kids) {
		w.Add("allpos."+name(e), 1)
	}
	// Hashable
	if hreg != nil {
		h := any(inst).(fp.Hashable[V])
		hs := make([]uint32, n)
		for i := range hs {
			hs[i] = h.Hash(c.x[i])
			if h.Hash(c.x[i]) != hs[i] {
				viol(name(e)+"/hash-not-deterministic", fmt.Sprintf("Hash(a) changed between two calls, a = %s", c.show(i)), i)
			}
			if h.Hash(c.y[i]) != hs[i] {
				viol(blameHash(e, c.pool[i].M, c.pool[i].M, hreg)+"/hash-differs-on-identical-copy", fmt.Sprintf("Hash(a) != Hash(a') for a freshly allocated, structurally identical copy a' of a = %s", c.show(i)), i)
			}
		}
		w.Add("hashes", int64(3*n))
		for i := 0; i < n; i++ {
			for j := i + 1; j < n; j++ {
				switch {
				case mat[i][j] && hs[i] != hs[j]:
					viol(blameHash(e, c.pool[i].M, c.pool[j].M, hreg)+"/eqv-but-different-hash", fmt.Sprintf("Eqv(a,b) holds but Hash(a)=%d, Hash(b)=%d\na = %s\nb = %s", hs[i], hs[j], c.show(i), c.show(j)), i, j)
				case mat[i][j]:
					w.Add("hash.equal_pairs_with_equal_hash", 1)
				case hs[i] == hs[j]:
					w.Add("hash.collisions_of_unequal_values", 1)
				default:
					w.Add("hash.unequal_pairs_with_different_hash", 1)
				}
			}
		}
	}
	return st
}

func runCase(w *vrt.W, i int) {
	r := w.Rand(i)
	g := w.Batch*casesPerBatch(w.Tier) + i // global case number: the catalogue position differs between batches
	f := catalogue[g%len(catalogue)]
	round := g / len(catalogue)
	force := &dyn.Force{Op: f.op, Arity: f.arity, Leaf: f.leaf}
	cfg := eqCfg
	if f.hashSide || r.IntN(2) == 0 {
		cfg = hashCfg
	}
	if f.leaf == "*" {
		force.Leaf = cfg.Leaves[round%len(cfg.Leaves)]
	}
	levels := 3
	if f.op == dyn.OpLeaf || f.op == dyn.OpBytes || f.op == dyn.OpTime || f.op == dyn.OpPtrLeaf || (f.op == dyn.OpHList && f.arity == 0) {
		levels = 4
	}
	force.At = (round / 2) % levels
	if round%2 == 1 && round/2 >= levels {
		force = nil // every second round past the systematic ones is unconstrained
	}
	e := dyn.GenExpr(r, cfg, force)
	n := 24
	if w.Tier == "thorough" {
		n = 40
	}
	checkPoolCase(w, i, e, dyn.GenPool(r, e.Dom, n))
}

// checkPoolCase: the instance(s) denoted by e on all pairs and triples of the pool.
func checkPoolCase(w *vrt.W, i int, e *dyn.Expr, pool []dyn.Entry) {
	c := &caseT{w: w, idx: i, e: e, pool: pool}
	c.exprStr = e.Format(nameEq)
	ctx := dyn.NewCtx() // one context for the whole pool: pinned parts of different values share their storage
	for _, en := range c.pool {
		c.x = append(c.x, ctx.Build(e.Dom, en.M))
		c.y = append(c.y, dyn.Build(e.Dom, en.M)) // a copy in storage of its own
	}
	observePool(w, e, c.pool)
	depth := 0
	var walk func(x *dyn.Expr, d int)
	walk = func(x *dyn.Expr, d int) {
		if d > depth {
			depth = d
		}
		for _, k := range x.Kids {
			walk(k, d+1)
		}
	}
	walk(e, 0)
	w.Max("expr.depth", int64(depth))
	w.Max("pool.size", int64(len(c.pool)))

	isHashable := hashable(e)
	var st, sth sideStats
	w.Begin(i, nameEq(e))
	w.Guard(i, func() any { return c.witness("build", c.exprStr) }, func() {
		ereg := map[*dyn.Expr]fp.Eq[V]{}
		inst := buildEq(e, ereg)
		hits(w, e, nameEq, "eq.HNil")
		st = checkSide(c, "eq", inst, ereg, nameEq, nil)
		if isHashable {
			w.Site(nameHash(e))
			hreg := map[*dyn.Expr]fp.Hashable[V]{}
			hinst := buildHash(e, hreg)
			hits(w, e, nameHash, "hash.HNil")
			sth = checkSide(c, "hash", hinst, hreg, nameHash, hreg)
		}
	})
	w.Done(i)
	w.Add("exprs", 1)
	if isHashable {
		w.Add("exprs.hashable", 1)
	}
	w.Add("pairs.equal_not_identical", int64(st.equalNotIdentical+sth.equalNotIdentical))
	if st.equalNotIdentical > 0 && st.onePos > 0 {
		var b strings.Builder
		b.WriteString(c.exprStr)
		for k := range c.pool {
			b.WriteString("|" + c.show(k))
		}
		w.Distinct(b.String())
		if w.WantSample() && len(c.exprStr) < 400 {
			vals := []string{}
			for k := 0; k < len(c.pool) && k < 8; k++ {
				vals = append(vals, fmt.Sprintf("#%d %s of #%d: %s", k, c.pool[k].Rel, c.pool[k].Parent, c.show(k)))
			}
			w.Sample(map[string]any{"expr": c.exprStr, "hash_expr": map[bool]string{true: e.Format(nameHash), false: ""}[isHashable],
				"pool_size": len(c.pool), "first_values": vals, "equal_but_not_identical_pairs": st.equalNotIdentical, "one_position_pairs": st.onePos})
		}
	}
}

// observePool counts the storage sharing and the kinds of time values the pool contains.
func observePool(w *vrt.W, e *dyn.Expr, pool []dyn.Entry) {
	for j, en := range pool {
		if strings.HasPrefix(en.Rel, "alias-") {
			w.Add("alias.variant_vs_origin."+en.Rel[len("alias-"):], 1)
		}
		if !en.Shared {
			continue
		}
		w.Add("alias.values_with_shared_storage", 1)
		for i := 0; i < j; i++ {
			if pool[i].Shared {
				dyn.AliasClasses(e.Dom, pool[i].M, en.M, func(class string) { w.Add("alias."+class, 1) })
			}
		}
	}
	if dyn.HasKind(e.Dom, dyn.KTime) {
		for _, en := range pool {
			dyn.TimeClasses(e.Dom, en.M, func(class string) { w.Add("time."+class, 1) })
		}
	}
	if e.Op == dyn.OpTime {
		for j := range pool {
			for i := 0; i < j; i++ {
				a, b := pool[i].M, pool[j].M
				if fa, fb := dyn.OutsideInt64Nanos(a.Sec, a.Ns), dyn.OutsideInt64Nanos(b.Sec, b.Ns); fa || fb {
					w.Add("time.root_pairs_with_an_instant_outside_int64_nanoseconds", 1)
					if fa && fb && (a.Sec < 0) != (b.Sec < 0) {
						w.Add("time.root_pairs_far_past_vs_far_future", 1)
					}
				}
			}
		}
	}
}

func casesPerBatch(tier string) int {
	if tier == "thorough" {
		return 4000
	}
	return 1500
}

// batch layout: [classic | fork | sized | conc (first half in the -race build)]; the new
// families are appended so that the PRNG streams of the classic batches stay where they were
func classicBatches(tier string) int {
	if tier == "thorough" {
		return 64
	}
	return 16
}

func forkBatches(tier string) int {
	if tier == "thorough" {
		return 8
	}
	return 2
}

func sizedBatches(tier string) int {
	if tier == "thorough" {
		return 8
	}
	return 2
}

func concBatches(tier string) int {
	if tier == "thorough" {
		return 8
	}
	return 4
}

// family of batch b and its index inside the family
func batchFamily(tier string, b int) (string, int) {
	if b < classicBatches(tier) {
		return "classic", b
	}
	b -= classicBatches(tier)
	if b < forkBatches(tier) {
		return "fork", b
	}
	b -= forkBatches(tier)
	if b < sizedBatches(tier) {
		return "sized", b
	}
	return "conc", b - sizedBatches(tier)
}

func main() {
	vrt.Main(vrt.Config{
		Property:    "C09",
		WorkerProcs: 8,
		Batches: func(tier string) int {
			return classicBatches(tier) + forkBatches(tier) + sizedBatches(tier) + concBatches(tier)
		},
		Cases: func(tier string, b int) int {
			switch fam, k := batchFamily(tier, b); fam {
			case "fork":
				return 300
			case "sized":
				return sizedPerBatch()
			case "conc":
				if k < concBatches(tier)/2 {
					return 150 // -race build
				}
				return 500
			}
			return casesPerBatch(tier)
		},
		RaceBatch: func(tier string, b int) bool {
			fam, k := batchFamily(tier, b)
			return fam == "conc" && k < concBatches(tier)/2
		},
		Run: func(w *vrt.W) {
			fam, k := batchFamily(w.Tier, w.Batch)
			for i := w.From; i < w.To; i++ {
				switch fam {
				case "fork":
					runForkCase(w, i)
				case "sized":
					runSizedCase(w, i, k)
				case "conc":
					runConcCase(w, i)
				default:
					runCase(w, i)
				}
			}
		},
		Rule: "case = one instance expression + one value pool. The expression is drawn by a PRNG over the exported instances/combinators of eq (Given over 16 comparable kinds, String, Bytes, Time, Option, Seq, Slice, Ptr via lazy.Done|lazy.Call, PtrGiven, GoMap, FpMap, Tuple1..21, HCons/HNil, ContraMap through id/half/neg/len/lower/floor/isDefined/tuple projection), nested up to 3 combinators deep with every component type instantiated at any; global case number g forces catalogue entry g mod 66 (each eq/hash instance and every tuple arity) at nesting level 0,1,2(,3), so every instance occurs at every level. When all nodes have a hash counterpart (Number over 13 numeric kinds, String, Bytes, Option, Seq, Slice, Ptr, Tuple1..21, HCons/HNil, ContraMap) the hash.* expression of the same shape is checked as well. The pool (>=24 quick / >=40 thorough values, + up to 10 storage-sharing ones) holds random base values, copies in another representation (nil vs empty vs spare capacity, 0.0 vs -0.0, other time zone / with a monotonic clock reading, other pointer, other map history / the zero fp.Map), one single-position mutant per tuple component / sequence element of the first base value, prefixes/extensions, and random further mutants. If values of the domain have storage (fp.Seq, []T, []byte, pointers, Go maps, fp.Map at any depth), the pool also holds one value without empty parts whose every slice is a window of a longer backing array, a copy of it in storage of its own, and values that share ALL their storage with it (the same pointers, maps, arrays - the whole pool is built in one allocation context) except that one sequence / byte slice somewhere inside is another window of the same array: same start and shorter (twice; sometimes empty), same start and longer, the same content at another offset, an overlapping window at another start; plus the identical object once more, a fresh copy of the shorter window, and mutants that share every part they did not change. Leaf values: every integer kind at both extremes, around +-2^7..2^63 and random; floats +-0, +-Inf, +-max, subnormals around the smallest normal, neighbours of 1, 0.1+0.2 vs 0.3, 2^24/2^53/2^63/2^64; strings with shared prefixes up to 40 bytes, embedded and lone NULs, invalid UTF-8, decomposed vs precomposed, 8/16-byte strings, substrings cut from one string; time.Time from year -1000 to 30000 incl. the zero Time, both ends of the int64-nanosecond window (1677-09-21 / 2262-04-11) to the nanosecond, the int32/uint32 second limits, pre-1970 instants with fractions, in 5 locations and with forged, mutually consistent monotonic readings. All ordered pairs and all triples are evaluated: reflexive (also against a fresh structurally identical build), symmetric, transitive, Eqv == structural reference on the models (Go == at leaves, instants for time, nil == empty, pointers by target, maps by key; by value only - storage is invisible to it), Eqv repeatable; Hash repeatable, equal on the fresh build, equal for Eqv-equal values. NaN never generated. distinct_nontrivial counts distinct (expression, pool) fingerprints of cases whose pool contained at least one pair of equal values in different representations (or distinct values collapsed by a ContraMap function) AND at least one pair exactly one position apart that is unequal. Three more batch families follow the classic ones. FORK batches: one base instance VALUE, a chain of 1..9 successive derivations of it and 2..4 further derivations of every chain member (eq/hash.ContraMap through different functions, Option, Seq, Slice, Ptr via lazy.Done|lazy.Call, TupleN at different positions with different companions, HCons as head or tail neighbour, eq.GoMap / eq.FpMap over int and string keys), all instances kept (up to ~45), each used on its pool right after it was built and checked on all pairs of its pool (Eqv == reference, Hash unchanged since it was built / equal on fresh copies / equal for Eqv-equal values) only after ALL of them exist, in PRNG order, twice; a disagreement that a freshly built instance of the same expression does not show is keyed <combinator>/forked-instance-disturbed. SIZED batches: domains with one fp.Seq / []T / []byte / Go map / fp.Map holding exactly 0,1,7,8,9,15,16,17,31,32,33,63,64,65,100,128,129,257,1000 elements (at the root or below Option / Ptr / a tuple / an hlist), pool = the value, another representation, copies differing in the first / a middle / the last element only, one element shorter / longer, an independent value of the same length, one sharing the first half, and windows of one backing array; the same pair / triple oracle. CONC batches (half of them in the -race build, DATA RACEs with a frame inside csgura/fp are violations race/<location>): ONE instance value (every third case has a package-level instance eq.Bytes / eq.Time / eq.String / hash.Bytes / hash.String / hash.HNil inside) is used by 4..32 goroutines released together, each on its own private pool with PRNG runtime.Gosched() yields; every Eqv / Hash must equal what the same instance answered single-threaded beforehand (key <instance>/concurrent-use-differs, the instance being the smallest sub-instance that shows a difference in a concurrent experiment of its own).",
		Assumptions: []string{
			"component types are instantiated at any (boxed values); the generic library code is the same for every type argument",
			"functions given to ContraMap are pure",
			"values are PRNG-sampled, NaN excluded as stated by the property",
			"fp.Map values are built with a lawful key hasher of the harness",
			"an instance is a value: it may be used by any number of goroutines at once (each on its own values) and any number of further instances may be derived from it; neither may change what it or another instance answers (instances are package-level variables in the library and in derived code)",
		},
		Floors: func(tier string) map[string]int64 {
			min := int64(3)
			if tier == "thorough" {
				min = 20
			}
			fl := map[string]int64{
				"pairs.equal_not_identical": 5000, "pairs.one_position_apart": 5000, "distinct": 500,
				"repr.float_zero_sign": 20, "repr.slice_nil_vs_empty": 20, "repr.slice_capacity": 20, "repr.pointer": 20, "repr.time_zone": 20,
				"repr.bytes_nil_vs_empty": 5, "repr.map_nil_vs_empty": 5, "repr.fpmap_history": 5, "repr.contramap_collapsed": 20,
				"hash.equal_pairs_with_equal_hash": 1000,
				// storage sharing: every slice-like kind in every window relation, identical pointers / maps
				"alias.values_with_shared_storage": 5000,
				"alias.variant_vs_origin.prefix":   1000, "alias.variant_vs_origin.extend": 500, "alias.variant_vs_origin.shift": 500,
				"alias.variant_vs_origin.window": 500, "alias.variant_vs_origin.same": 500,
				"alias.pointer.identical": 200, "alias.gomap.identical": 50, "alias.fpmap.identical": 50,
				"repr.slice_same_array_other_offset": 100, "repr.bytes_same_array_other_offset": 5,
				// time.Time over its whole range
				"time.values_outside_int64_nanoseconds": 500, "time.values_before_1970_with_fraction": 100, "time.values_zero_time": 20,
				"time.values_year_below_1_or_above_9999": 100, "time.root_pairs_with_an_instant_outside_int64_nanoseconds": 500,
				"time.root_pairs_far_past_vs_far_future": 50,
			}
			for _, kind := range []string{"seq", "slice", "bytes"} {
				floor := int64(200)
				if kind == "bytes" {
					floor = 20
				}
				for _, class := range []string{"identical", "same_start_different_length", "same_start_one_empty", "other_offset_equal_content", "other_offset_different_content"} {
					fl["alias."+kind+"."+class] = floor
				}
				fl["alias."+kind+".same_start_one_empty"] = floor / 10
			}
			if dyn.MonoAvailable() {
				fl["time.values_with_monotonic_reading"] = 100
				fl["repr.time_monotonic_vs_wall"] = 20
				fl["repr.time_both_monotonic"] = 5
			}
			for _, n := range allNames() {
				fl["hit."+n] = min
			}
			for n := 1; n <= dyn.MaxArity; n++ {
				fl["allpos.eq.Tuple"+strconv.Itoa(n)] = 1
				fl["allpos.hash.Tuple"+strconv.Itoa(n)] = 1
			}
			// forks of one instance value: every chain length, every derivation family on both sides
			fl["fork.cases"] = 500
			for k := 1; k <= 9; k++ {
				fl["fork.chain_length."+strconv.Itoa(k)] = 30
			}
			for _, f := range append([]string{dyn.FamContra}, eqForkWraps...) {
				fl["fork.eq.family."+f] = 200
			}
			for _, f := range append([]string{dyn.FamContra}, hashForkWraps...) {
				fl["fork.hash.family."+f] = 100
			}
			fl["fork.eq.pairs_after_all_were_built"] = 1_000_000
			fl["fork.hash.pairs_after_all_were_built"] = 500_000
			// sized pools: every container kind at every length
			for _, k := range dyn.SizedKinds {
				for _, n := range dyn.SizedLens {
					fl["sized."+dyn.KindName(k)+"."+strconv.Itoa(n)] = 3
				}
			}
			// one instance value used by 4..32 goroutines at once
			fl["conc.cases"] = 1000
			fl["conc.cases_with_16_or_more_goroutines"] = 300
			fl["conc.calls"] = 5_000_000
			for _, f := range concRoots {
				fl["conc.shared_package_level."+f.name] = 30
			}
			return fl
		},
		Finish: func(tier string, m *vrt.Merged, cov map[string]any) {
			missing := []string{}
			for _, n := range allNames() {
				if m.Counters["hit."+n] == 0 {
					missing = append(missing, n)
				}
			}
			sort.Strings(missing)
			cov["instances_required"] = len(allNames())
			cov["instances_never_exercised"] = missing
			cov["instance_expressions"] = m.Counters["exprs"]
			cov["equal_but_not_identical_pairs"] = m.Counters["pairs.equal_not_identical"]
			cov["values_sharing_storage_with_another_pool_value"] = m.Counters["alias.values_with_shared_storage"]
			cov["time_values_outside_int64_nanoseconds"] = m.Counters["time.values_outside_int64_nanoseconds"]
			cov["time_monotonic_variant_available"] = dyn.MonoAvailable()
			cov["sized_container_lengths"] = dyn.SizedLens
			if cs, ok := cov["counters"].(map[string]int64); ok {
				least := map[string]int64{}
				for _, k := range dyn.SizedKinds {
					kn := dyn.KindName(k)
					least[kn] = -1
					for _, n := range dyn.SizedLens {
						key := "sized." + kn + "." + strconv.Itoa(n)
						if v := m.Counters[key]; least[kn] < 0 || v < least[kn] {
							least[kn] = v
						}
						delete(cs, key) // 95 counters: summarised
					}
				}
				cov["sized_pools_per_length_at_least"] = least
			}
		},
	})
}

// allNames lists every instance / combinator name that must be exercised.
func allNames() []string {
	var out []string
	for _, l := range eqLeaves {
		out = append(out, "eq.Given["+l+"]")
	}
	for _, l := range numLeaves {
		out = append(out, "hash.Number["+l+"]")
	}
	out = append(out, "eq.String", "eq.Bytes", "eq.Time", "eq.Option", "eq.Seq", "eq.Slice", "eq.Ptr",
		"eq.PtrGiven[int]", "eq.PtrGiven[string]", "eq.PtrGiven[float64]", "eq.GoMap[int]", "eq.GoMap[string]", "eq.FpMap[int]", "eq.FpMap[string]",
		"eq.HCons", "eq.HNil", "eq.ContraMap",
		"hash.String", "hash.Bytes", "hash.Option", "hash.Seq", "hash.Slice", "hash.Ptr", "hash.HCons", "hash.HNil", "hash.ContraMap")
	for n := 1; n <= dyn.MaxArity; n++ {
		out = append(out, "eq.Tuple"+strconv.Itoa(n), "hash.Tuple"+strconv.Itoa(n))
	}
	return out
}
