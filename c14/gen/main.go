// Generator of the C14 call sites (text/template). Run from /verif:
//
//	go run ./c14/gen            (writes /verif/c14/zz_imports.go, rt/zz_support.go, sites/<group>/zz_<group>.go)
//
// For every (family, arity) member of the arity-indexed families of csgura/fp it emits one
// generic call-site function `s_<member>[A1..An any](c *Cx)` holding the library call and,
// next to it, the expected result written out position by position (never computed through
// an arity-indexed library function), and one registration line that instantiates the site
// with pairwise distinct types (T1..Tn) and with one common type (S..S).
//
// Values are created with rt.Mk / rt.MkY / rt.MkS and read back with rt.Rd, never by a
// conversion, so that a site can be instantiated with any types: every site of a family whose
// defining equation does not inspect the argument values gets a second registration line
// (RegNil) that instantiates it with nil-able types spread over the positions (site.nilInst;
// "nilable-types" instantiation, see ../rt/nilable.go and runNilCase in ../main.go) and, up to
// four type parameters, a third one with zero-able types (site.zeroInst; "zero-types"). The type-class sites (tc_*) keep the string-kinded constraint rt.Val. The
// registrations of the heaviest packages (arity-9 Chain builders) go to a sibling package
// <group>_nil holding a copy of the site functions, so that both compile in parallel.
//
// Sites are two-phase: the construction (curried function, lifted function, builder, type-class
// instance) is made when the site function is called, the observations are registered with
// c.Obs and run after BOTH generations of the case have been constructed (see ../main.go).
// Observations of members whose result can be applied more than once end with forks: the
// generic helpers rt.Fork<N> (curried results, every level), builderForks (builder chains,
// every stage) and reuse (one constructed function, two argument vectors; y<k> = c.Y[k]).
//
// The arity ranges mirror genfp.MaxFunc (10, exclusive), genfp.MaxProduct (22, exclusive)
// and genfp.MaxCompose (6, exclusive) plus the hand-written low-arity members next to the
// templates (Tuple1, curried.Flip, fp.Compose, option.Method1/2, ...). The harness does not
// compile if a listed member does not exist, and the self-test `-list` prints the members
// so that they can be diffed against `grep '^func' /repo/**/*_gen.go`.
package main

import (
	"bytes"
	"flag"
	"fmt"
	"go/format"
	"os"
	"path/filepath"
	"sort"
	"strings"
	"text/template"
)

const (
	maxFunc    = 9  // genfp.MaxFunc - 1
	maxProduct = 21 // genfp.MaxProduct - 1
	maxCompose = 5  // genfp.MaxCompose - 1
)

type monad struct {
	Pkg, Ty, Pure, Show, Wrap string
}

var (
	mOption = &monad{"option", "fp.Option", "fp.Some", "OptS", "Some("}
	mTry    = &monad{"try", "fp.Try", "fp.Success", "TryS", "Success("}
	mFuture = &monad{"future", "fp.Future", "future.Successful", "c.FutS", "Success("}
)

type step struct {
	K      int
	Method string
}

type site struct {
	File   string // output file (without zz_ prefix / .go)
	Family string
	Member string // exact Go name of the member, e.g. curried.Flip7, fp.Func7.ApplyFirst6
	Sub    string // sub-variant (builder method); part of the function name only
	Tmpl   string
	N      int // the arity number used in the body (usually the number in the name)
	M2     int // auxiliary arity (total number of curried arguments, arity of f, ...)
	TP     int // number of type parameters A1..A<TP>
	NV     int // values a1..a<NV> declared from c.v
	NU     int // values b1..b<NU> declared from c.u (second operand)
	NY     int // values y1..y<NY> declared from c.Y (alternative arguments of forked applications)
	Pos    int // number of argument positions (n of the evidence pair)
	Call   string
	Ctor   string
	Obs    string
	Mk     string
	Sfx    string
	M      *monad
	Kind   string
	Steps  []step
	// ForkLevels: the stages at which a builder chain is forked (nil = every stage)
	ForkLevels []int
	// NoNil: no "nilable-types" registration (type-class families: their defining equation
	// inspects the values through the component instances; Chain builders below arity 9: see buildSites)
	NoNil bool
	// NilOnly: the site exists for the nilable-types instantiation only (no Reg line: the site
	// table of the two older instantiations, and with it their PRNG streams, stays as it was)
	NilOnly bool
}

// TC: a type-class site (eq/ord/hash/monoid/clone TupleN): string-kinded arguments (rt.Val),
// values converted directly. Every other site is generic over any (Labelled families:
// rt.Named) and creates / reads its values through rt.Mk / rt.Rd.
func (s *site) TC() bool { return strings.HasPrefix(s.Tmpl, "tc_") }

// Con is the constraint of the type parameters of the site.
func (s *site) Con() string {
	switch {
	case s.TC():
		return "Val"
	case s.Mk == "MkLab" || s.Obs == "Lab":
		return "Named"
	}
	return "any"
}

func (s *site) TPS() string { return tpsC(s.TP, s.Con()) }

// The palettes of the two nil / zero instantiations: kind letter (rt.KindName) and Go type.
//
// nilable-types (every site with a RegNil line): nil-able kinds only, interface kinds at every
// other slot. A nil interface is the strongest probe (it is nil for `any(v) == nil`, for
// reflection-based nil checks such as option.Of and for zero-value checks alike), the other
// nil-able kinds are nil for the reflection-based checks only.
//
// zero-types (sites with at most zeroMaxTP type parameters, where an instantiation is cheap; not the builders):
// the kinds whose zero value is not nil.
var (
	palIface      = [][2]string{{"e", "error"}, {"a", "any"}, {"i", "PIface"}}
	palIfaceNamed = [][2]string{{"i", "PIface"}}
	palOther      = [][2]string{{"s", "PSlice"}, {"m", "PMap"}, {"p", "*PBox"}, {"f", "PFunc"}}
	palZero       = [][2]string{{"t", "PStruct"}, {"g", "PStr"}, {"n", "PInt"}, {"b", "PBool"}}
)

const zeroMaxTP = 3

// hasZeroInst: the builders are left out (every arity is a tower of ApplicativeFunctor /
// MonadChain instantiations; their plain-value method Ap only wraps the value with the monad's
// unit, which the LiftA/Flap/Method families exercise with the zero-able kinds).
func (s *site) hasZeroInst() bool { return s.TP <= zeroMaxTP && s.Tmpl != "m_builder" }

func (s *site) fileOffset() int {
	off := 0
	for _, ch := range []byte(s.File + s.Family) {
		off += int(ch)
	}
	return off
}

// nilInst: the type arguments and the kind letters of the nilable-types instantiation of s.
// Slot of position k of n: 22-n+k (right-aligned like instT, so that the families that recurse
// on the tail share instantiations across arities) + a per-package/family offset, + 1 from
// arity 6 on. Counted from the front a position changes its slot with every arity; the shift
// makes a position counted from the END change its kind too (arities 1..5 against 6 and more,
// which share tails among themselves): interface and non-interface kinds reach every position
// either way.
func (s *site) nilInst() (types, kinds string) {
	ifc := palIface
	if s.Con() == "Named" {
		ifc = palIfaceNamed
	}
	var ts []string
	for k := 1; k <= s.TP; k++ {
		slot := 22 - s.TP + k + s.fileOffset()
		if s.TP >= 6 {
			slot++
		}
		e := palOther[(slot/2)%len(palOther)]
		if slot%2 == 0 {
			e = ifc[(slot/2)%len(ifc)]
		}
		ts = append(ts, e[1])
		kinds += e[0]
	}
	return "[" + strings.Join(ts, ", ") + "]", kinds
}

// zeroInst: the zero-types instantiation (struct, string, int, bool rotating over the positions).
func (s *site) zeroInst() (types, kinds string) {
	var ts []string
	for k := 1; k <= s.TP; k++ {
		e := palZero[(k+s.TP+s.fileOffset())%len(palZero)]
		ts = append(ts, e[1])
		kinds += e[0]
	}
	return "[" + strings.Join(ts, ", ") + "]", kinds
}

func (s *site) Fn() string {
	r := strings.NewReplacer(".", "_")
	n := "s_" + r.Replace(s.Member)
	if s.Sub != "" {
		n += "_" + s.Sub
	}
	return n
}

// ---- template helper functions ------------------------------------------------------------

func seq(a, b int) []int {
	var out []int
	for i := a; i <= b; i++ {
		out = append(out, i)
	}
	return out
}

func rseq(b, a int) []int {
	var out []int
	for i := b; i >= a; i-- {
		out = append(out, i)
	}
	return out
}

func mapJoin(is []int, sep string, f func(int) string) string {
	out := make([]string, len(is))
	for i, k := range is {
		out[i] = f(k)
	}
	return strings.Join(out, sep)
}

func pfx(p string) func(int) string { return func(k int) string { return fmt.Sprintf("%s%d", p, k) } }
func strOf(p string) func(int) string {
	return func(k int) string { return fmt.Sprintf("Rd(%s%d)", p, k) }
}
func convOf(p string) func(int) string {
	return func(k int) string { return fmt.Sprintf("string(%s%d)", p, k) }
}

func TA(a, b int) string   { return mapJoin(seq(a, b), ", ", pfx("A")) }
func TAr(b, a int) string  { return mapJoin(rseq(b, a), ", ", pfx("A")) }
func args(a, b int) string { return mapJoin(seq(a, b), ", ", pfx("a")) }
func argsr(b, a int) string {
	return mapJoin(rseq(b, a), ", ", pfx("a"))
}
func pargs(p string, a, b int) string { return mapJoin(seq(a, b), ", ", pfx(p)) }
func strs(a, b int) string            { return mapJoin(seq(a, b), ", ", strOf("a")) }
func strsr(b, a int) string           { return mapJoin(rseq(b, a), ", ", strOf("a")) }
func pstrs(p string, a, b int) string { return mapJoin(seq(a, b), ", ", strOf(p)) }
func decl(a, b int) string {
	return mapJoin(seq(a, b), ", ", func(k int) string { return fmt.Sprintf("x%d A%d", k, k) })
}
func adecl(a, b int) string {
	return mapJoin(seq(a, b), ", ", func(k int) string { return fmt.Sprintf("a%d A%d", k, k) })
}
func ccall(a, b int) string {
	return mapJoin(seq(a, b), "", func(k int) string { return fmt.Sprintf("(a%d)", k) })
}
func tpsC(n int, con string) string {
	if n == 0 {
		return ""
	}
	return "[" + TA(1, n) + " " + con + "]"
}
func tps(n int) string  { return tpsC(n, "any") }
func tpsN(n int) string { return tpsC(n, "Named") }
func inst(n int) string {
	if n == 0 {
		return ""
	}
	return "[" + TA(1, n) + "]"
}
func rep(s string, n int) string {
	out := make([]string, n)
	for i := range out {
		out[i] = s
	}
	return strings.Join(out, ", ")
}
func instT(n int) string {
	if n == 0 {
		return ""
	}
	// right-aligned (T<23-n>..T22): the families that recurse on the tail (TupleN -> Tuple(N-1) of
	// positions 2..N) then reuse the instantiation of the arity below instead of creating O(N^2)
	// distinct concrete types, which is what dominated the compile time of the harness
	return "[" + mapJoin(seq(23-n, 22), ", ", pfx("T")) + "]"
}
func instS(n int) string {
	if n == 0 {
		return ""
	}
	return "[" + rep("S", n) + "]"
}

// cons builds hlist.Cons[A<i1>, hlist.Cons[A<i2>, ... tail]] for the given index order.
func cons(is []int, tail string) string {
	out := tail
	for i := len(is) - 1; i >= 0; i-- {
		out = fmt.Sprintf("hlist.Cons[A%d, %s]", is[i], out)
	}
	return out
}
func consF(a, b int) string { return cons(seq(a, b), "hlist.Nil") }
func consR(b, a int) string { return cons(rseq(b, a), "hlist.Nil") }

func curB(a, b int) string {
	out := "R"
	for k := b; k >= a; k-- {
		out = fmt.Sprintf("fp.Func1[B%d, %s]", k, out)
	}
	return out
}

func pccall(p string, a, b int) string {
	return mapJoin(seq(a, b), "", func(k int) string { return fmt.Sprintf("(%s%d)", p, k) })
}

func cur(a, b int, r string) string {
	out := r
	for k := b; k >= a; k-- {
		out = fmt.Sprintf("fp.Func1[A%d, %s]", k, out)
	}
	return out
}

func nest(a, b int) string { // fp.Tuple2[A1, fp.Tuple2[A2, ... fp.Tuple2[A(b-1), Ab]]]
	out := fmt.Sprintf("A%d", b)
	for k := b - 1; k >= a; k-- {
		out = fmt.Sprintf("fp.Tuple2[A%d, %s]", k, out)
	}
	return out
}

func joinPlus(a, b int) string {
	return mapJoin(seq(a, b), ` + "," + `, func(k int) string { return fmt.Sprintf("Sv(a%d)", k) })
}

func pures(m *monad, a, b int) string {
	return mapJoin(seq(a, b), ", ", func(k int) string { return fmt.Sprintf("%s(a%d)", m.Pure, k) })
}

func insts(ctor string, brace bool, n int) string {
	return mapJoin(seq(1, n), ", ", func(k int) string {
		if brace {
			return fmt.Sprintf("%s[A%d]{C: c, K: %d}", ctor, k, k)
		}
		return fmt.Sprintf("%s[A%d](c, %d)", ctor, k, k)
	})
}

func posCalls(fn string, n int) string {
	return mapJoin(seq(1, n), ", ", func(k int) string { return fmt.Sprintf("c.%s(%d)", fn, k) })
}

func funcConv(n int) string {
	return fmt.Sprintf("fp.Func%d[%s, Res](f)", n, TA(1, n))
}

func composeArgs(call string, n int) string {
	plain := call == "fp.Compose" || call == "fp.Compose2"
	return mapJoin(seq(1, n), ", ", func(k int) string {
		if plain {
			return fmt.Sprintf("f%d", k)
		}
		return fmt.Sprintf("fp.Func1[A%d, A%d](f%d)", k, k+1, k)
	})
}

// stepCall renders one builder method call ".M(...)" of step st; name(k) is the variable that
// holds the argument of position k on this line of applications (a<k> or, on a forked
// continuation, y<k>).
func stepCall(s *site, st step, name func(int) string) string {
	m := s.M
	var b strings.Builder
	k := st.K
	a := name(k)
	A := fmt.Sprintf("A%d", k)
	nstrsr := func(hi, lo int) string {
		return mapJoin(rseq(hi, lo), ", ", func(i int) string { return "Rd(" + name(i) + ")" })
	}
	switch st.Method {
	case "Ap":
		fmt.Fprintf(&b, "Ap(%s)", a)
	case "ApOption":
		fmt.Fprintf(&b, "ApOption(fp.Some(%s))", a)
	case "ApTry":
		fmt.Fprintf(&b, "ApTry(fp.Success(%s))", a)
	case "ApFuture":
		fmt.Fprintf(&b, "ApFuture(future.Successful(%s))", a)
	case "ApFunc":
		fmt.Fprintf(&b, "ApFunc(func() %s { return %s })", A, a)
	case "ApOptionFunc":
		fmt.Fprintf(&b, "ApOptionFunc(func() fp.Option[%s] { return fp.Some(%s) })", A, a)
	case "ApTryFunc":
		fmt.Fprintf(&b, "ApTryFunc(func() fp.Try[%s] { return fp.Success(%s) })", A, a)
	case "ApFutureFunc":
		fmt.Fprintf(&b, "ApFutureFunc(func() fp.Future[%s] { return future.Successful(%s) })", A, a)
	case "Map", "FlatMap":
		ret, val := A, a
		if st.Method == "FlatMap" {
			ret, val = fmt.Sprintf("%s[%s]", m.Ty, A), fmt.Sprintf("%s(%s)", m.Pure, a)
		}
		if k == 1 {
			fmt.Fprintf(&b, "%s(func(_ hlist.Nil) %s { return %s })", st.Method, ret, val)
		} else {
			fmt.Fprintf(&b, "%s(func(h A%d) %s { c.Prev(%d, Rd(h), Rd(%s)); return %s })", st.Method, k-1, ret, k, name(k-1), val)
		}
	case "HListMap", "HListFlatMap":
		ret, val := A, a
		if st.Method == "HListFlatMap" {
			ret, val = fmt.Sprintf("%s[%s]", m.Ty, A), fmt.Sprintf("%s(%s)", m.Pure, a)
		}
		if k == 1 {
			fmt.Fprintf(&b, "%s(func(_ hlist.Nil) %s { return %s })", st.Method, ret, val)
		} else {
			fmt.Fprintf(&b, "%s(func(h %s) %s { c.Vec(\"callback-hlist\", Hl%d[%s](h), %s); return %s })",
				st.Method, consR(k-1, 1), ret, k-1, TAr(k-1, 1), nstrsr(k-1, 1), val)
		}
	default:
		panic("unknown builder method " + st.Method)
	}
	return "." + b.String()
}

func aName(k int) string { return fmt.Sprintf("a%d", k) }

// chain renders the whole builder method chain of a site (straight-line application).
func chain(s *site) string {
	var b strings.Builder
	for _, st := range s.Steps {
		b.WriteString(".\n\t\t\t")
		b.WriteString(stepCall(s, st, aName)[1:])
	}
	return b.String()
}

func wrapOf(m *monad) string {
	if m == mOption {
		return "WrapSome"
	}
	return "WrapSuccess"
}

// builderForks renders the forks of a builder chain: at every stage L the builder reached by
// the applications a1..a(L-1) is applied twice, to a<L> and to y<L>; both continuations are
// completed (a.. / y..) by the same methods, in both orders (rt.Fork).
func builderForks(s *site) string {
	n := s.N
	var b strings.Builder
	for k := 1; k < n; k++ {
		fmt.Fprintf(&b, "\t\tb%d := b%d%s\n", k, k-1, stepCall(s, s.Steps[k-1], aName))
	}
	for L := 1; L <= n; L++ {
		if !s.forkAt(L) {
			continue
		}
		yn := func(k int) string {
			if k >= L {
				return fmt.Sprintf("y%d", k)
			}
			return fmt.Sprintf("a%d", k)
		}
		fin1, fin2 := "q1", "q2"
		for k := L + 1; k <= n; k++ {
			fin1 += stepCall(s, s.Steps[k-1], aName)
			fin2 += stepCall(s, s.Steps[k-1], yn)
		}
		fmt.Fprintf(&b, "\t\t{\n\t\t\tn0 := c.Mark()\n\t\t\tq1 := b%d%s\n\t\t\tq2 := b%d%s\n", L-1, stepCall(s, s.Steps[L-1], aName), L-1, stepCall(s, s.Steps[L-1], yn))
		fmt.Fprintf(&b, "\t\t\tc.Fork(n0, %d, func() string { return %s(%s) }, func() string { return %s(%s) }, c.ForkVec(Pos(%d), 0), c.ForkVec(Pos(%d), %d), %s)\n\t\t}\n",
			L, s.M.Show, fin1, s.M.Show, fin2, n, n, L, wrapOf(s.M))
	}
	return b.String()
}

// forkAt: is the builder chain of s forked at stage L? (all stages; see ForkLevels)
func (s *site) forkAt(L int) bool {
	if s.ForkLevels == nil {
		return true
	}
	for _, l := range s.ForkLevels {
		if l == L {
			return true
		}
	}
	return false
}

// reuse renders one rt.Fork of "one constructed function used twice": expr is a Go
// expression of type string in which $ALL / $REV / $TAIL / $PURES stand for the argument
// lists a1..aN / aN..a1 / a2..aN / pure(a1)..pure(aN); it is rendered once over a.. and once over y...
func reuse(s *site, expr, wrap string) string {
	n := s.N
	render := func(p string) string {
		r := strings.NewReplacer(
			"$ALL", pargs(p, 1, n),
			"$REV", mapJoin(rseq(n, 1), ", ", pfx(p)),
			"$TAIL", pargs(p, 2, n),
			"$PURES", func() string {
				if s.M == nil {
					return ""
				}
				return mapJoin(seq(1, n), ", ", func(k int) string { return fmt.Sprintf("%s(%s%d)", s.M.Pure, p, k) })
			}(),
		)
		return r.Replace(expr)
	}
	return fmt.Sprintf("c.Fork(c.Mark(), 0, func() string { return %s }, func() string { return %s }, c.ForkVec(Pos(%d), 0), c.ForkVec(Pos(%d), 1), %s)",
		render("a"), render("y"), n, n, wrap)
}

var funcs = template.FuncMap{
	"seq": seq, "rseq": rseq, "TA": TA, "TAr": TAr, "args": args, "argsr": argsr, "pargs": pargs,
	"strs": strs, "strsr": strsr, "pstrs": pstrs, "decl": decl, "adecl": adecl, "ccall": ccall, "tps": tps, "tpsN": tpsN, "inst": inst,
	"sstrs":  func(a, b int) string { return mapJoin(seq(a, b), ", ", convOf("a")) },
	"sbstrs": func(a, b int) string { return mapJoin(seq(a, b), ", ", convOf("b")) },
	"consF":  consF, "consR": consR, "cur": cur, "nest": nest, "joinPlus": joinPlus,
	"pures": pures, "insts": insts, "posCalls": posCalls, "funcConv": funcConv, "composeArgs": composeArgs, "chain": chain, "builderForks": builderForks, "curB": curB, "pccall": pccall, "reuse": reuse, "wrapOf": wrapOf,
	"inc": func(i int) int { return i + 1 }, "dec": func(i int) int { return i - 1 },
	"xstrs": func(a, b int) string { return pstrs("x", a, b) },
	"bargs": func(a, b int) string { return pargs("b", a, b) },
	"bstrs": func(a, b int) string { return pstrs("b", a, b) },
	"instT": instT, "instS": instS,
}

// ---- templates ----------------------------------------------------------------------------

const bodies = `
{{define "site"}}
// {{.Member}}{{if .Sub}} ({{.Sub}}){{end}}
func {{.Fn}}{{.TPS}}(c *Cx) {
	c.Enter({{printf "%q" .Family}}, {{printf "%q" .Member}}, {{.Pos}})
{{- if .TC}}
{{- range $k := seq 1 .NV}}
	a{{$k}} := A{{$k}}(c.V[{{$k}}])
{{- end}}
{{- range $k := seq 1 .NU}}
	b{{$k}} := A{{$k}}(c.U[{{$k}}])
{{- end}}
{{- else}}
{{- range $k := seq 1 .NV}}
	a{{$k}} := Mk[A{{$k}}](c, {{$k}})
{{- end}}
{{- range $k := seq 1 .NY}}
	y{{$k}} := MkY[A{{$k}}](c, {{$k}})
{{- end}}
{{- end}}
{{- end}}

{{define "recf"}}
	f := Rec{{.N}}{{inst .N}}(c)
	want := c.Want({{strs 1 .N}})
{{- end}}

{{define "recfm"}}
	fm := func({{decl 1 .N}}) {{.M.Ty}}[Res] { return {{.M.Pure}}(c.Call({{xstrs 1 .N}})) }
	want := c.Want({{strs 1 .N}})
{{- end}}

{{define "recft"}}
	ft := func({{decl 1 .N}}) (Res, error) { return c.Call({{xstrs 1 .N}}), nil }
	want := c.Want({{strs 1 .N}})
{{- end}}

{{define "tuple_acc"}}{{template "site" .}}
	t := {{.Mk}}{{.N}}({{args 1 .N}})
	Eqv(c, "Head", t.Head(), a1)
{{- if eq .N 1}}
	var _ fp.Unit = t.Tail()
{{- else}}
	Eqv(c, "Last", t.Last(), a{{.N}})
	{{pargs "i" 1 (dec .N)}} := t.Init()
{{- range $k := seq 1 (dec .N)}}
	Eqv(c, "Init", i{{$k}}, a{{$k}})
{{- end}}
	{{pargs "l" 2 .N}} := t.Tail()
{{- range $k := seq 2 .N}}
	Eqv(c, "Tail", l{{$k}}, a{{$k}})
{{- end}}
	{{pargs "u" 1 .N}} := t.Unapply()
{{- range $k := seq 1 .N}}
	Eqv(c, "Unapply", u{{$k}}, a{{$k}})
{{- end}}
	c.Eqs("String", t.String(), "(" + {{joinPlus 1 .N}} + ")")
{{- end}}
}
{{end}}

{{define "ctor"}}{{template "site" .}}
	got := {{.Call}}({{args 1 .N}})
	c.Vec("fields", {{.Obs}}{{.N}}{{inst .N}}(got), {{strs 1 .N}})
}
{{end}}

{{define "to_hlist"}}{{template "site" .}}
	got := {{.Call}}({{.Mk}}{{.N}}({{args 1 .N}}))
	c.Vec("elements", Hl{{.N}}{{inst .N}}(got), {{strs 1 .N}})
}
{{end}}

{{define "as_curried"}}{{template "site" .}}{{template "recf" .}}
	cf := as.Curried{{.N}}(f)
	c.Obs(func() {
		var got Res = cf{{ccall 1 .N}}
		c.Result(string(got), want)
		Fork{{.N}}(c, cf, Pos({{.N}}), ShowRes, nil)
	})
}
{{end}}

{{define "as_untupled"}}{{template "site" .}}
	f := func(t fp.Tuple{{.N}}{{inst .N}}) Res { return c.Call(Tup{{.N}}{{inst .N}}(t)...) }
	want := c.Want({{strs 1 .N}})
	uf := as.UnTupled{{.N}}(f)
	c.Obs(func() {
		var got Res = uf({{args 1 .N}})
		c.Result(string(got), want)
		{{reuse . "string(uf($ALL))" "nil"}}
	})
}
{{end}}

{{define "as_tupled2"}}{{template "site" .}}{{template "recf" .}}
	tf := as.Tupled2(fp.Func2[A1, A2, Res](f))
	c.Obs(func() {
		var got Res = tf(MkTup2(a1, a2))
		c.Result(string(got), want)
		{{reuse . "string(tf(MkTup2($ALL)))" "nil"}}
	})
}
{{end}}

{{define "as_func"}}{{template "site" .}}
{{- if eq .N 0}}
	f := func() Res { return c.Call() }
	want := c.Want()
	ff := as.Func0(f)
	c.Obs(func() {
		var got Res = ff(fp.Unit{})
		c.Result(string(got), want)
	})
{{- else}}{{template "recf" .}}
	ff := as.Func{{.N}}(f)
	c.Obs(func() {
		var got Res = ff({{args 1 .N}})
		c.Result(string(got), want)
		{{reuse . "string(ff($ALL))" "nil"}}
	})
{{- end}}
}
{{end}}

{{define "as_supplier"}}{{template "site" .}}{{template "recf" .}}
	s := as.Supplier{{.N}}(f, {{args 1 .N}})
	sy := as.Supplier{{.N}}(f, {{pargs "y" 1 .N}})
	c.Obs(func() {
		var got Res = s()
		c.Result(string(got), want)
		c.Fork(c.Mark(), 0, func() string { return string(s()) }, func() string { return string(sy()) }, c.ForkVec(Pos({{.N}}), 0), c.ForkVec(Pos({{.N}}), 1), nil)
	})
}
{{end}}

{{define "curried_func"}}{{template "site" .}}{{template "recf" .}}
	cf := curried.Func{{.N}}(f)
	c.Obs(func() {
		var got Res = cf{{ccall 1 .N}}
		c.Result(string(got), want)
		Fork{{.N}}(c, cf, Pos({{.N}}), ShowRes, nil)
	})
}
{{end}}

{{define "curried_revert"}}{{template "site" .}}{{template "recf" .}}
	rf := curried.Revert{{.N}}(Cur{{.N}}(f))
	c.Obs(func() {
		var got Res = rf({{args 1 .N}})
		c.Result(string(got), want)
		{{reuse . "string(rf($ALL))" "nil"}}
	})
}
{{end}}

{{define "curried_flip"}}{{template "site" .}}{{template "recf" .}}
	ff := {{.Call}}(Cur{{.N}}(f))
	c.Obs(func() {
		var got Res = ff{{ccall 2 .N}}(a1)
		c.Result(string(got), want)
		Fork{{.N}}(c, ff, PosFlip({{.N}}), ShowRes, nil)
	})
}
{{end}}

{{define "curried_flipapply"}}{{template "site" .}}{{template "recf" .}}
	cf := Cur{{.N}}(f)
	p := {{.Call}}(cf, {{args 2 .N}})
	py := {{.Call}}(cf, {{pargs "y" 2 .N}})
	c.Obs(func() {
		var got Res = p(a1)
		c.Result(string(got), want)
		c.Fork(c.Mark(), 1, func() string { return string(p(a1)) }, func() string { return string(py(y1)) }, c.ForkVec(Pos({{.N}}), 0), c.ForkVec(Pos({{.N}}), 1), nil)
		c.Fork(c.Mark(), 2, func() string { return string(p(y1)) }, func() string { return string(py(a1)) }, c.Mix({{.N}}, 1), c.Mix({{.N}}{{range $k := seq 2 .N}}, {{$k}}{{end}}), nil)
	})
}
{{end}}

{{define "curried_slipl"}}{{template "site" .}}{{template "recf" .}}
	sf := curried.SlipL{{.N}}(Cur{{.N}}(f))
	c.Obs(func() {
		var got Res = sf(a{{.N}}){{ccall 1 (dec .N)}}
		c.Result(string(got), want)
		Fork{{.N}}(c, sf, PosSlip({{.N}}), ShowRes, nil)
	})
}
{{end}}

{{define "curried_compose"}}{{template "site" .}}{{template "recf" .}}
	h := func(r Res) Res2 { return Res2("h(" + string(r) + ")") }
	cc := curried.Compose{{.N}}(Cur{{.N}}(f), fp.Func1[Res, Res2](h))
	c.Obs(func() {
		var got Res2 = cc{{ccall 1 .N}}
		c.Result(string(got), "h(" + want + ")")
		Fork{{.N}}(c, cc, Pos({{.N}}), ShowRes2, WrapH)
	})
}
{{end}}

{{define "hlist_case"}}{{template "site" .}}{{template "recf" .}}
	c.Obs(func() {
		var got Res = hlist.Case{{.N}}(MkHl{{.N}}({{args 1 .N}}), f)
		c.Result(string(got), want)
	})
}
{{end}}

{{define "hlist_lift"}}{{template "site" .}}{{template "recf" .}}
	lf := hlist.Lift{{.N}}(f)
	c.Obs(func() {
		var got Res = lf(MkHl{{.N}}({{args 1 .N}}))
		c.Result(string(got), want)
		{{reuse . (printf "string(lf(MkHl%d($ALL)))" .N) "nil"}}
	})
}
{{end}}

{{define "hlist_rift"}}{{template "site" .}}{{template "recf" .}}
	lf := hlist.Rift{{.N}}(f)
	c.Obs(func() {
		var got Res = lf(MkHl{{.N}}({{argsr .N 1}}))
		c.Result(string(got), want)
		{{reuse . (printf "string(lf(MkHl%d($REV)))" .N) "nil"}}
	})
}
{{end}}

{{define "hlist_reverse"}}{{template "site" .}}
	got := hlist.Reverse{{.N}}(MkHl{{.N}}({{args 1 .N}}))
	c.Vec("elements", Hl{{.N}}[{{TAr .N 1}}](got), {{strsr .N 1}})
}
{{end}}

{{define "from_hlist"}}{{template "site" .}}
	got := {{.Call}}(MkHl{{.N}}({{args 1 .N}}))
	c.Vec("fields", {{.Obs}}{{.N}}{{inst .N}}(got), {{strs 1 .N}})
}
{{end}}

{{define "product_flatten"}}{{template "site" .}}
	got := product.Flatten{{.N}}(MkNest{{.N}}({{args 1 .N}}))
	c.Vec("fields", Tup{{.N}}{{inst .N}}(got), {{strs 1 .N}})
}
{{end}}

{{define "product_lift"}}{{template "site" .}}{{template "recf" .}}
	lf := product.Lift{{.N}}(f)
	c.Obs(func() {
		var got Res = lf(MkTup{{.N}}({{args 1 .N}}))
		c.Result(string(got), want)
		{{reuse . (printf "string(lf(MkTup%d($ALL)))" .N) "nil"}}
	})
}
{{end}}

{{define "fp_compose"}}{{template "site" .}}
{{- range $k := seq 1 .N}}
	f{{$k}} := func(x A{{$k}}) A{{inc $k}} { return MkS[A{{inc $k}}](c, {{inc $k}}, c.Step({{$k}}, Rd(x))) }
{{- end}}
	cf := {{.Call}}({{composeArgs .Call .N}})
	c.Obs(func() {
		var got A{{inc .N}} = cf(a1)
		c.Eqs("result", Rd(got), c.Nested({{.N}}, Rd(a1)))
		c.Eqs("result-on-reuse", Rd(cf(y1)), c.Nested({{.N}}, Rd(y1)))
		c.Eqs("result-on-reuse", Rd(cf(a1)), c.Nested({{.N}}, Rd(a1)))
	})
}
{{end}}

{{define "fp_applyfirst"}}{{template "site" .}}{{template "recf" .}}
	ff := fp.Func{{.N}}[{{TA 1 .N}}, Res](f)
	p := ff.ApplyFirst{{.Sfx}}({{args 1 (dec .N)}})
	py := ff.ApplyFirst{{.Sfx}}({{pargs "y" 1 (dec .N)}})
	c.Obs(func() {
		var got Res = p(a{{.N}})
		c.Result(string(got), want)
		c.Fork(c.Mark(), 1, func() string { return string(p(a{{.N}})) }, func() string { return string(py(y{{.N}})) }, c.ForkVec(Pos({{.N}}), 0), c.ForkVec(Pos({{.N}}), 1), nil)
		c.Fork(c.Mark(), 2, func() string { return string(p(y{{.N}})) }, func() string { return string(py(a{{.N}})) }, c.Mix({{.N}}, {{.N}}), c.Mix({{.N}}{{range $k := seq 1 (dec .N)}}, {{$k}}{{end}}), nil)
	})
}
{{end}}

{{define "fp_applylast"}}{{template "site" .}}{{template "recf" .}}
	ff := fp.Func{{.N}}[{{TA 1 .N}}, Res](f)
	p := ff.ApplyLast{{.Sfx}}({{args 2 .N}})
	py := ff.ApplyLast{{.Sfx}}({{pargs "y" 2 .N}})
	c.Obs(func() {
		var got Res = p(a1)
		c.Result(string(got), want)
		c.Fork(c.Mark(), 1, func() string { return string(p(a1)) }, func() string { return string(py(y1)) }, c.ForkVec(Pos({{.N}}), 0), c.ForkVec(Pos({{.N}}), 1), nil)
		c.Fork(c.Mark(), 2, func() string { return string(p(y1)) }, func() string { return string(py(a1)) }, c.Mix({{.N}}, 1), c.Mix({{.N}}{{range $k := seq 2 .N}}, {{$k}}{{end}}), nil)
	})
}
{{end}}

{{define "fp_id"}}{{template "site" .}}
	got := {{.Call}}({{args 1 .N}})
	Eqv(c, "result", got, a{{.N}})
}
{{end}}

{{define "fn1_merge"}}{{template "site" .}}
	in := Mk[A{{inc .N}}](c, {{inc .N}})
	in2 := MkY[A{{inc .N}}](c, {{inc .N}})
{{- range $k := seq 1 .N}}
	f{{$k}} := func(x A{{inc $.N}}) A{{$k}} { return MkS[A{{$k}}](c, {{$k}}, c.Step({{$k}}, Rd(x))) }
{{- end}}
	mf := {{.Call}}({{pargs "f" 1 .N}})
	c.Obs(func() {
{{- if eq .Call "fn1.Merge"}}
		g1, g2 := mf(in)
		c.Eqs("results", Rd(g1), c.StepR(1, 1, Rd(in)))
		c.Eqs("results", Rd(g2), c.StepR(2, 2, Rd(in)))
		h1, h2 := mf(in2)
		c.Eqs("results-on-reuse", Rd(h1), c.StepR(1, 1, Rd(in2)))
		c.Eqs("results-on-reuse", Rd(h2), c.StepR(2, 2, Rd(in2)))
{{- else}}
		got := mf(in)
		c.Vec("fields", Tup{{.N}}[{{TA 1 .N}}](got){{range $k := seq 1 .N}}, c.StepR({{$k}}, {{$k}}, Rd(in)){{end}})
		got2 := mf(in2)
		c.Vec("fields-on-reuse", Tup{{.N}}[{{TA 1 .N}}](got2){{range $k := seq 1 .N}}, c.StepR({{$k}}, {{$k}}, Rd(in2)){{end}})
		c.Vec("fields-on-reuse", Tup{{.N}}[{{TA 1 .N}}](mf(in)){{range $k := seq 1 .N}}, c.StepR({{$k}}, {{$k}}, Rd(in)){{end}})
{{- end}}
	})
}
{{end}}

{{define "unit_func"}}{{template "site" .}}
{{- if eq .N 0}}
	f := func() { c.Call() }
	c.Want()
	uf := unit.Func0(f)
	c.Obs(func() {
		var _ fp.Unit = uf(fp.Unit{})
		c.Called()
	})
{{- else}}
	f := func({{decl 1 .N}}) { c.Call({{xstrs 1 .N}}) }
	c.Want({{strs 1 .N}})
	uf := unit.Func{{.N}}(f)
	c.Obs(func() {
		var _ fp.Unit = uf({{args 1 .N}})
		c.Called()
		{{reuse . "UnitS(uf($ALL))" "WrapUnit"}}
	})
{{- end}}
}
{{end}}

{{define "m_lifta"}}{{template "site" .}}{{template "recf" .}}
	lf := {{.Call}}(f)
	c.Obs(func() {
		var got {{.M.Ty}}[Res] = lf({{pures .M 1 .N}})
		c.Result({{.M.Show}}(got), "{{.M.Wrap}}" + want + ")")
		{{reuse . (printf "%s(lf($PURES))" .M.Show) (wrapOf .M)}}
	})
}
{{end}}

{{define "m_liftm"}}{{template "site" .}}{{template "recfm" .}}
	lf := {{.Call}}(fm)
	c.Obs(func() {
		var got {{.M.Ty}}[Res] = lf({{pures .M 1 .N}})
		c.Result({{.M.Show}}(got), "{{.M.Wrap}}" + want + ")")
		{{reuse . (printf "%s(lf($PURES))" .M.Show) (wrapOf .M)}}
	})
}
{{end}}

{{define "m_map"}}{{template "site" .}}{{template "recf" .}}
	c.Obs(func() {
		var got {{.M.Ty}}[Res] = {{.Call}}({{pures .M 1 .N}}, f)
		c.Result({{.M.Show}}(got), "{{.M.Wrap}}" + want + ")")
	})
}
{{end}}

{{define "m_flatmap"}}{{template "site" .}}{{template "recfm" .}}
	c.Obs(func() {
		var got {{.M.Ty}}[Res] = {{.Call}}({{pures .M 1 .N}}, fm)
		c.Result({{.M.Show}}(got), "{{.M.Wrap}}" + want + ")")
	})
}
{{end}}

{{define "m_flap"}}{{template "site" .}}{{template "recf" .}}
{{- if eq .N 1}}
	ff := fp.Func1[A1, {{.M.Ty}}[Res]]({{.Call}}({{.M.Pure}}(Cur{{.N}}(f))))
{{- else}}
	ff := {{.Call}}({{.M.Pure}}(Cur{{.N}}(f)))
{{- end}}
	c.Obs(func() {
		var got {{.M.Ty}}[Res] = ff{{ccall 1 .N}}
		c.Result({{.M.Show}}(got), "{{.M.Wrap}}" + want + ")")
		Fork{{.N}}(c, ff, Pos({{.N}}), {{.M.Show}}, {{wrapOf .M}})
	})
}
{{end}}

{{define "m_method"}}{{template "site" .}}{{template "recf" .}}
	mf := {{.Call}}({{.M.Pure}}(a1), f)
	my := {{.Call}}({{.M.Pure}}(y1), f)
	c.Obs(func() {
		var got {{.M.Ty}}[Res] = mf({{args 2 .N}})
		c.Result({{.M.Show}}(got), "{{.M.Wrap}}" + want + ")")
		c.Fork(c.Mark(), 1, func() string { return {{.M.Show}}(mf({{args 2 .N}})) }, func() string { return {{.M.Show}}(my({{pargs "y" 2 .N}})) }, c.ForkVec(Pos({{.N}}), 0), c.ForkVec(Pos({{.N}}), 1), {{wrapOf .M}})
		c.Fork(c.Mark(), 2, func() string { return {{.M.Show}}(mf({{pargs "y" 2 .N}})) }, func() string { return {{.M.Show}}(my({{args 2 .N}})) }, c.ForkVec(Pos({{.N}}), 2), c.Mix({{.N}}, 1), {{wrapOf .M}})
	})
}
{{end}}

{{define "m_flatmethod"}}{{template "site" .}}{{template "recfm" .}}
	mf := {{.Call}}({{.M.Pure}}(a1), fm)
	my := {{.Call}}({{.M.Pure}}(y1), fm)
	c.Obs(func() {
		var got {{.M.Ty}}[Res] = mf({{args 2 .N}})
		c.Result({{.M.Show}}(got), "{{.M.Wrap}}" + want + ")")
		c.Fork(c.Mark(), 1, func() string { return {{.M.Show}}(mf({{args 2 .N}})) }, func() string { return {{.M.Show}}(my({{pargs "y" 2 .N}})) }, c.ForkVec(Pos({{.N}}), 0), c.ForkVec(Pos({{.N}}), 1), {{wrapOf .M}})
		c.Fork(c.Mark(), 2, func() string { return {{.M.Show}}(mf({{pargs "y" 2 .N}})) }, func() string { return {{.M.Show}}(my({{args 2 .N}})) }, c.ForkVec(Pos({{.N}}), 2), c.Mix({{.N}}, 1), {{wrapOf .M}})
	})
}
{{end}}

{{define "m_func"}}{{template "site" .}}
{{- if eq .N 0}}
	ft := func() (Res, error) { return c.Call(), nil }
	want := c.Want()
	tf := {{.Call}}(ft)
	c.Obs(func() {
		var got {{.M.Ty}}[Res] = tf(fp.Unit{})
		c.Result({{.M.Show}}(got), "{{.M.Wrap}}" + want + ")")
	})
{{- else}}{{template "recft" .}}
	tf := {{.Call}}(ft)
	c.Obs(func() {
		var got {{.M.Ty}}[Res] = tf({{args 1 .N}})
		c.Result({{.M.Show}}(got), "{{.M.Wrap}}" + want + ")")
		{{reuse . (printf "%s(tf($ALL))" .M.Show) (wrapOf .M)}}
	})
{{- end}}
}
{{end}}

{{define "m_curried"}}{{template "site" .}}{{template "recft" .}}
	cf := {{.Call}}(ft)
	c.Obs(func() {
		var got {{.M.Ty}}[Res] = cf{{ccall 1 .N}}
		c.Result({{.M.Show}}(got), "{{.M.Wrap}}" + want + ")")
		Fork{{.N}}(c, cf, Pos({{.N}}), {{.M.Show}}, {{wrapOf .M}})
	})
}
{{end}}

{{define "m_builder"}}{{template "site" .}}{{template "recf" .}}
	b0 := {{.Call}}({{funcConv .N}})
	c.Obs(func() {
		var got {{.M.Ty}}[Res] = b0{{chain .}}
		c.Result({{.M.Show}}(got), "{{.M.Wrap}}" + want + ")")
{{builderForks .}}	})
}
{{end}}

{{define "operands"}}
	t1 := MkTup{{.N}}({{args 1 .N}})
	t2 := MkTup{{.N}}({{bargs 1 .N}})
	vs := []string{ {{sstrs 1 .N}} }
	us := []string{ {{sbstrs 1 .N}} }
{{- end}}

{{define "tc_eq"}}{{template "site" .}}{{template "operands" .}}
	e := eq.Tuple{{.N}}{{inst .N}}({{insts "RecEq" true .N}})
	c.Obs(func() {
		c.Eqb("Eqv", e.Eqv(t1, t2), c.AllEq(vs, us))
		c.Eqb("Eqv-flipped", e.Eqv(t2, t1), c.AllEq(us, vs))
		c.ResetComps()
		c.Eqb("Eqv-same", e.Eqv(t1, MkTup{{.N}}({{args 1 .N}})), true)
		c.SawAll("Eqv", {{.N}})
		c.Routed()
	})
}
{{end}}

{{define "tc_ord"}}{{template "site" .}}{{template "operands" .}}
	o := ord.Tuple{{.N}}{{inst .N}}({{insts "RecOrd" false .N}})
	c.Obs(func() {
		c.OrdObs(func() bool { return o.Less(t1, t2) }, func() bool { return o.Less(t2, t1) }, func() bool { return o.Eqv(t1, t2) },
			func() int { return o.Compare(t1, t2) }, func() bool { return o.LessEq(t1, t2) },
			func() int { return o.Compare(t1, MkTup{{.N}}({{args 1 .N}})) }, vs, us)
		c.Routed()
	})
}
{{end}}

{{define "tc_hash"}}{{template "site" .}}{{template "operands" .}}
	h := hash.Tuple{{.N}}{{inst .N}}({{insts "RecHash" true .N}})
	c.Obs(func() {
		c.Eqb("Eqv", h.Eqv(t1, t2), c.AllEq(vs, us))
		c.Routed()
		c.ResetComps()
		h1 := h.Hash(t1)
		c.Routed()
		c.SawAll("Hash", {{.N}})
		c.ResetComps()
		c.Eqb("Hash-deterministic", h1 == h.Hash(MkTup{{.N}}({{args 1 .N}})), true)
		if c.AllEq(vs, us) {
			c.Eqb("Hash-agrees-with-Eqv", h1 == h.Hash(t2), true)
		}
		c.Routed()
	})
}
{{end}}

{{define "tc_monoid"}}{{template "site" .}}{{template "operands" .}}
	_, _ = vs, us
	m := monoid.Tuple{{.N}}{{inst .N}}({{insts "RecMon" true .N}})
	c.Obs(func() {
		c.Vec("Empty", Tup{{.N}}{{inst .N}}(m.Empty()), {{posCalls "Emp" .N}})
		c.ResetComps()
		c.Vec("Combine", Tup{{.N}}{{inst .N}}(m.Combine(t1, t2)), {{posCalls "Cmb" .N}})
		c.SawAll("Combine", {{.N}})
		c.Routed()
	})
}
{{end}}

{{define "tc_clone"}}{{template "site" .}}
	t1 := MkTup{{.N}}({{args 1 .N}})
	cl := clone.Tuple{{.N}}{{inst .N}}({{insts "RecClone" true .N}})
	c.Obs(func() {
		c.ResetComps()
		c.Vec("Clone", Tup{{.N}}{{inst .N}}(cl.Clone(t1)), {{posCalls "Cln" .N}})
		c.SawAll("Clone", {{.N}})
		c.Routed()
	})
}
{{end}}
`

const supportTmpl = `
{{range $n := seq 1 22}}
type T{{$n}} string

func (T{{$n}}) Name() string           { return "T{{$n}}" }
func (t T{{$n}}) RdS() string          { return string(t) }
func (t *T{{$n}}) SetV(s string, _ bool) { *t = T{{$n}}(s) }
{{end}}

{{range $n := seq 1 21}}
func Tup{{$n}}{{tps $n}}(t fp.Tuple{{$n}}{{inst $n}}) []string {
	return []string{ {{pstrs "t.I" 1 $n}} }
}

func Lab{{$n}}{{tpsN $n}}(t fp.Labelled{{$n}}{{inst $n}}) []string {
	return []string{ {{pstrs "t.I" 1 $n}} }
}

func MkTup{{$n}}{{tps $n}}({{adecl 1 $n}}) fp.Tuple{{$n}}{{inst $n}} {
	return fp.Tuple{{$n}}{{inst $n}}{ {{range $k := seq 1 $n}}I{{$k}}: a{{$k}}, {{end}} }
}

func MkLab{{$n}}{{tpsN $n}}({{adecl 1 $n}}) fp.Labelled{{$n}}{{inst $n}} {
	return fp.Labelled{{$n}}{{inst $n}}{ {{range $k := seq 1 $n}}I{{$k}}: a{{$k}}, {{end}} }
}

func Hl{{$n}}{{tps $n}}(h {{consF 1 $n}}) []string {
	h1 := h
{{- range $k := seq 2 $n}}
	h{{$k}} := hlist.Tail(h{{dec $k}})
{{- end}}
	var _ hlist.Nil = hlist.Tail(h{{$n}})
	return []string{ {{range $k := seq 1 $n}}Rd(hlist.Head(h{{$k}})), {{end}} }
}

func MkHl{{$n}}{{tps $n}}({{adecl 1 $n}}) {{consF 1 $n}} {
	return {{range $k := seq 1 $n}}hlist.Concat(a{{$k}}, {{end}}hlist.Empty(){{range $k := seq 1 $n}}){{end}}
}
{{if ge $n 2}}
func MkNest{{$n}}{{tps $n}}({{adecl 1 $n}}) {{nest 1 $n}} {
	return {{range $k := seq 1 (dec $n)}}Pair(a{{$k}}, {{end}}a{{$n}}{{range $k := seq 1 (dec $n)}}){{end}}
}
{{end}}
func Rec{{$n}}{{tps $n}}(c *Cx) func({{TA 1 $n}}) Res {
	return func({{decl 1 $n}}) Res { return c.Call({{xstrs 1 $n}}) }
}
{{end}}

{{range $n := seq 1 9}}
// Fork{{$n}} forks a curried function of {{$n}} applications at every level: from the partial
// application reached by the arguments x1..x(L-1) two continuations are derived, p(xL) and
// p(yL), both before either is finished with its own remaining arguments (rt.Fork). pos[i-1]
// is the original position of the i-th application; x = c.V, y = c.Y at that position.
func Fork{{$n}}[{{pargs "B" 1 $n}} any, R any](c *Cx, cf {{curB 1 $n}}, pos []int, show func(R) string, wrap func(string) string) {
{{- range $k := seq 1 $n}}
	x{{$k}}, y{{$k}} := Mk[B{{$k}}](c, pos[{{dec $k}}]), MkY[B{{$k}}](c, pos[{{dec $k}}])
{{- end}}
	p0 := cf
{{- range $k := seq 1 (dec $n)}}
	p{{$k}} := p{{dec $k}}(x{{$k}})
{{- end}}
{{- range $l := seq 1 $n}}
	{
		n0 := c.Mark()
		q1, q2 := p{{dec $l}}(x{{$l}}), p{{dec $l}}(y{{$l}})
		c.Fork(n0, {{$l}}, func() string { return show(q1{{pccall "x" (inc $l) $n}}) }, func() string { return show(q2{{pccall "y" (inc $l) $n}}) }, c.ForkVec(pos, 0), c.ForkVec(pos, {{$l}}), wrap)
	}
{{- end}}
}
{{end}}

{{range $n := seq 1 10}}
func Cur{{$n}}[{{TA 1 $n}} any, R any](f func({{TA 1 $n}}) R) {{cur 1 $n "R"}} {
	return {{range $k := seq 1 $n}}func(x{{$k}} A{{$k}}) {{cur (inc $k) $n "R"}} { return {{end}}f({{pargs "x" 1 $n}}){{range $k := seq 1 $n}} }{{end}}
}
{{end}}
`

// ---- the index set ------------------------------------------------------------------------

func num(name string, n int) string { return fmt.Sprintf("%s%d", name, n) }

func buildSites() []*site {
	var out []*site
	add := func(s *site) {
		if s.Pos == 0 && s.TP > 0 {
			s.Pos = s.N
		}
		// the templates that apply a constructed function / a partial application a second time
		// declare the alternative arguments y1..yN
		switch s.Tmpl {
		case "as_untupled", "as_tupled2", "as_func", "as_supplier", "curried_revert", "curried_flipapply", "hlist_lift", "hlist_rift",
			"product_lift", "fp_applyfirst", "fp_applylast", "unit_func", "m_lifta", "m_liftm", "m_method", "m_flatmethod", "m_func", "m_builder":
			s.NY = s.N
		case "fp_compose":
			s.NY = 1
		}
		if s.TC() || s.TP == 0 {
			s.NoNil = true
		}
		out = append(out, s)
	}
	// fp.TupleN / fp.LabelledN accessors
	for n := 1; n <= maxProduct; n++ {
		add(&site{File: "fp", Family: "fp.Tuple(accessors)", Member: num("fp.Tuple", n), Tmpl: "tuple_acc", N: n, TP: n, NV: n, Mk: "MkTup"})
		add(&site{File: "fp", Family: "fp.Labelled(accessors)", Member: num("fp.Labelled", n), Tmpl: "tuple_acc", N: n, TP: n, NV: n, Mk: "MkLab"})
	}
	// as
	for n := 1; n <= maxProduct; n++ {
		add(&site{File: "as", Family: "as.Tuple", Member: num("as.Tuple", n), Tmpl: "ctor", N: n, TP: n, NV: n, Call: num("as.Tuple", n), Obs: "Tup"})
		add(&site{File: "as", Family: "as.Labelled", Member: num("as.Labelled", n), Tmpl: "ctor", N: n, TP: n, NV: n, Call: num("as.Labelled", n), Obs: "Lab"})
		add(&site{File: "as", Family: "as.HList", Member: num("as.HList", n), Tmpl: "to_hlist", N: n, TP: n, NV: n, Call: num("as.HList", n), Mk: "MkTup"})
		add(&site{File: "as", Family: "as.HListLabelled", Member: num("as.HList", n) + "Labelled", Tmpl: "to_hlist", N: n, TP: n, NV: n, Call: num("as.HList", n) + "Labelled", Mk: "MkLab"})
	}
	add(&site{File: "as", Family: "as.Func", Member: "as.Func0", Tmpl: "as_func", N: 0})
	add(&site{File: "as", Family: "as.Tupled", Member: "as.Tupled2", Tmpl: "as_tupled2", N: 2, TP: 2, NV: 2})
	for n := 1; n <= maxFunc; n++ {
		add(&site{File: "as", Family: "as.Func", Member: num("as.Func", n), Tmpl: "as_func", N: n, TP: n, NV: n})
		add(&site{File: "as", Family: "as.Supplier", Member: num("as.Supplier", n), Tmpl: "as_supplier", N: n, TP: n, NV: n})
		if n >= 2 {
			add(&site{File: "as", Family: "as.Curried", Member: num("as.Curried", n), Tmpl: "as_curried", N: n, TP: n, NV: n})
			add(&site{File: "as", Family: "as.UnTupled", Member: num("as.UnTupled", n), Tmpl: "as_untupled", N: n, TP: n, NV: n})
		}
	}
	// curried
	for n := 1; n <= maxFunc; n++ {
		add(&site{File: "curried", Family: "curried.Func", Member: num("curried.Func", n), Tmpl: "curried_func", N: n, TP: n, NV: n})
		if n >= 2 {
			add(&site{File: "curried", Family: "curried.Revert", Member: num("curried.Revert", n), Tmpl: "curried_revert", N: n, TP: n, NV: n})
			add(&site{File: "curried", Family: "curried.Compose", Member: num("curried.Compose", n), Tmpl: "curried_compose", N: n, TP: n, NV: n})
			// Flip<k> / FlipApply<k> take a curried function of k+1 arguments; k = n-1, bare name for k = 1
			k := n - 1
			flip, flipApply := num("curried.Flip", k), num("curried.FlipApply", k)
			if k == 1 {
				flip, flipApply = "curried.Flip", "curried.FlipApply"
			}
			add(&site{File: "curried", Family: "curried.Flip", Member: flip, Tmpl: "curried_flip", N: n, TP: n, NV: n, Call: flip})
			add(&site{File: "curried", Family: "curried.FlipApply", Member: flipApply, Tmpl: "curried_flipapply", N: n, TP: n, NV: n, Call: flipApply})
		}
		if n >= 3 {
			add(&site{File: "curried", Family: "curried.SlipL", Member: num("curried.SlipL", n), Tmpl: "curried_slipl", N: n, TP: n, NV: n})
		}
	}
	// hlist
	for n := 1; n <= maxProduct; n++ {
		add(&site{File: "hlist", Family: "hlist.Of", Member: num("hlist.Of", n), Tmpl: "ctor", N: n, TP: n, NV: n, Call: num("hlist.Of", n), Obs: "Hl"})
		add(&site{File: "hlist", Family: "hlist.Case", Member: num("hlist.Case", n), Tmpl: "hlist_case", N: n, TP: n, NV: n})
	}
	for n := 1; n <= maxFunc; n++ {
		add(&site{File: "hlist", Family: "hlist.Lift", Member: num("hlist.Lift", n), Tmpl: "hlist_lift", N: n, TP: n, NV: n})
		add(&site{File: "hlist", Family: "hlist.Rift", Member: num("hlist.Rift", n), Tmpl: "hlist_rift", N: n, TP: n, NV: n})
		if n >= 2 {
			add(&site{File: "hlist", Family: "hlist.Reverse", Member: num("hlist.Reverse", n), Tmpl: "hlist_reverse", N: n, TP: n, NV: n})
		}
	}
	// product
	for n := 1; n <= maxProduct; n++ {
		add(&site{File: "product", Family: "product.TupleFromHList", Member: num("product.TupleFromHList", n), Tmpl: "from_hlist", N: n, TP: n, NV: n, Call: num("product.TupleFromHList", n), Obs: "Tup"})
		add(&site{File: "product", Family: "product.LabelledFromHList", Member: num("product.LabelledFromHList", n), Tmpl: "from_hlist", N: n, TP: n, NV: n, Call: num("product.LabelledFromHList", n), Obs: "Lab"})
		if n >= 2 {
			add(&site{File: "product", Family: "product.Tuple", Member: num("product.Tuple", n), Tmpl: "ctor", N: n, TP: n, NV: n, Call: num("product.Tuple", n), Obs: "Tup"})
			add(&site{File: "product", Family: "product.Lift", Member: num("product.Lift", n), Tmpl: "product_lift", N: n, TP: n, NV: n})
		}
		if n >= 3 {
			add(&site{File: "product", Family: "product.Flatten", Member: num("product.Flatten", n), Tmpl: "product_flatten", N: n, TP: n, NV: n})
		}
	}
	// fp: Compose, ApplyFirst/ApplyLast, Id
	add(&site{File: "fp", Family: "fp.Compose", Member: "fp.Compose", Tmpl: "fp_compose", N: 2, TP: 3, NV: 1, Pos: 2, Call: "fp.Compose"})
	for n := 2; n <= maxCompose; n++ {
		add(&site{File: "fp", Family: "fp.Compose", Member: num("fp.Compose", n), Tmpl: "fp_compose", N: n, TP: n + 1, NV: 1, Pos: n, Call: num("fp.Compose", n)})
	}
	for n := 2; n <= maxFunc; n++ {
		sfx := fmt.Sprint(n - 1)
		if n == 2 {
			sfx = ""
		}
		add(&site{File: "fp", Family: "fp.Func.ApplyFirst", Member: fmt.Sprintf("fp.Func%d.ApplyFirst%s", n, sfx), Tmpl: "fp_applyfirst", N: n, TP: n, NV: n, Sfx: sfx})
		add(&site{File: "fp", Family: "fp.Func.ApplyLast", Member: fmt.Sprintf("fp.Func%d.ApplyLast%s", n, sfx), Tmpl: "fp_applylast", N: n, TP: n, NV: n, Sfx: sfx})
	}
	add(&site{File: "fp", Family: "fp.Id", Member: "fp.Id", Tmpl: "fp_id", N: 1, TP: 1, NV: 1, Call: "fp.Id"})
	for n := 2; n <= maxFunc; n++ {
		add(&site{File: "fp", Family: "fp.Id", Member: num("fp.Id", n), Tmpl: "fp_id", N: n, TP: n, NV: n, Call: num("fp.Id", n)})
	}
	// fn1.Merge, unit.Func
	add(&site{File: "misc", Family: "fn1.Merge", Member: "fn1.Merge", Tmpl: "fn1_merge", N: 2, TP: 3, Pos: 2, Call: "fn1.Merge"})
	for n := 2; n <= maxFunc; n++ {
		add(&site{File: "misc", Family: "fn1.Merge", Member: num("fn1.Merge", n), Tmpl: "fn1_merge", N: n, TP: n + 1, Pos: n, Call: num("fn1.Merge", n)})
	}
	for n := 0; n <= maxFunc; n++ {
		add(&site{File: "misc", Family: "unit.Func", Member: num("unit.Func", n), Tmpl: "unit_func", N: n, TP: n, NV: n})
	}
	// option / try / future
	for _, m := range []*monad{mOption, mTry, mFuture} {
		file := m.Pkg
		for n := 2; n <= maxFunc; n++ {
			add(&site{File: file, Family: m.Pkg + ".LiftA", Member: num(m.Pkg+".LiftA", n), Tmpl: "m_lifta", N: n, TP: n, NV: n, M: m, Call: num(m.Pkg+".LiftA", n)})
			add(&site{File: file, Family: m.Pkg + ".LiftM", Member: num(m.Pkg+".LiftM", n), Tmpl: "m_liftm", N: n, TP: n, NV: n, M: m, Call: num(m.Pkg+".LiftM", n)})
			if m != mFuture || n == 2 { // future only has Map2
				add(&site{File: file, Family: m.Pkg + ".Map", Member: num(m.Pkg+".Map", n), Tmpl: "m_map", N: n, TP: n, NV: n, M: m, Call: num(m.Pkg+".Map", n)})
			}
			if m != mFuture {
				add(&site{File: file, Family: m.Pkg + ".FlatMap", Member: num(m.Pkg+".FlatMap", n), Tmpl: "m_flatmap", N: n, TP: n, NV: n, M: m, Call: num(m.Pkg+".FlatMap", n)})
			}
		}
		for n := 1; n <= maxFunc; n++ {
			flap := num(m.Pkg+".Flap", n)
			if n == 1 {
				flap = m.Pkg + ".Flap"
			}
			add(&site{File: file, Family: m.Pkg + ".Flap", Member: flap, Tmpl: "m_flap", N: n, TP: n, NV: n, M: m, Call: flap})
			// Method<k>: f has k+1 arguments for the hand-written k = 1, 2 and k arguments for the generated k >= 3
			fa := n
			if n <= 2 {
				fa = n + 1
			}
			add(&site{File: file, Family: m.Pkg + ".Method", Member: num(m.Pkg+".Method", n), Tmpl: "m_method", N: fa, TP: fa, NV: fa, M: m, Call: num(m.Pkg+".Method", n)})
			add(&site{File: file, Family: m.Pkg + ".FlatMethod", Member: num(m.Pkg+".FlatMethod", n), Tmpl: "m_flatmethod", N: fa, TP: fa, NV: fa, M: m, Call: num(m.Pkg+".FlatMethod", n)})
		}
		if m != mOption {
			for n := 0; n <= maxFunc; n++ {
				add(&site{File: file, Family: m.Pkg + ".Func", Member: num(m.Pkg+".Func", n), Tmpl: "m_func", N: n, TP: n, NV: n, M: m, Call: num(m.Pkg+".Func", n)})
			}
		}
		if m == mTry {
			for n := 2; n <= maxFunc; n++ {
				add(&site{File: file, Family: "try.Curried", Member: num("try.Curried", n), Tmpl: "m_curried", N: n, TP: n, NV: n, M: m, Call: num("try.Curried", n)})
			}
		}
		// builders
		apM := map[*monad][]string{
			mOption: {"Ap", "ApOption", "ApFunc", "ApOptionFunc"},
			mTry:    {"Ap", "ApTry", "ApOption", "ApFunc", "ApTryFunc", "ApOptionFunc"},
			mFuture: {"Ap", "ApFuture", "ApTry", "ApOption", "ApFunc", "ApFutureFunc", "ApTryFunc", "ApOptionFunc"},
		}[m]
		chM := append(append([]string{}, apM...), "Map", "FlatMap", "HListMap", "HListFlatMap")
		for _, kind := range []string{"Applicative", "Chain"} {
			methods := apM
			if kind == "Chain" {
				methods = chM
			}
			for n := 1; n <= maxFunc; n++ {
				// every builder method of MonadChain<K>/ApplicativeFunctor<K>, K = 9..1, lies on the
				// chains that start at arity 9, so the per-method chains are only generated there;
				// each lower arity gets one chain (methods rotating) for its constructor Chain<N>/Applicative<N>.
				// (Each (K, depth of the HList type) pair is a separate instantiation of 12 methods, so
				// the full cross product costs minutes of compile time and adds no generated text.)
				variants := []string{"mixed"}
				if n == maxFunc {
					variants = append(append([]string{}, methods...), "mixed")
				}
				// the plain-value method Ap is the one builder method that hands the argument VALUE
				// itself to the library: below arity 9 an all-Ap chain is added for the nilable-types
				// instantiation, so that every member meets nil at every position through Ap
				nilOnly := ""
				if n >= 2 && n < maxFunc && (kind == "Applicative" || nilChainArity[n]) {
					variants = append(variants, "Ap")
					nilOnly = "Ap"
				}
				for vi, v := range variants {
					var steps []step
					for k := 1; k <= n; k++ {
						meth := v
						if v == "mixed" {
							meth = methods[(k+n)%len(methods)]
						}
						steps = append(steps, step{k, meth})
					}
					_ = vi
					// one package per (monad, kind, arity bucket): the Chain builders instantiate a
					// fresh family of MonadChain/Option/Try/Future types per (arity, step), which is
					// what the compile time of the harness is made of; separate packages compile in parallel
					file := m.Pkg + "_applicative"
					if kind == "Chain" {
						switch {
						case n == 9:
							file = m.Pkg + "_chain9"
						case n == 8:
							file = m.Pkg + "_chain8"
						case n >= 6:
							file = m.Pkg + "_chain67"
						default:
							file = m.Pkg + "_chain15"
						}
					}
					add(&site{File: file, Family: m.Pkg + "." + kind, Member: num(m.Pkg+"."+kind, n), Sub: v, Tmpl: "m_builder",
						N: n, TP: n, NV: n, M: m, Kind: kind, Call: num(m.Pkg+"."+kind, n), Steps: steps,
						// nilable-types instantiation of the Chain builders: the arity-9 chains only. Every
						// method of MonadChain<K>, K = 9..1, lies on them (one chain per method plus the mixed
						// one) and Chain<N>(f) itself takes no argument value, while each further arity is a
						// fresh tower of MonadChain instantiations (10..30 CPU-s of compile time each).
						NoNil: kind == "Chain" && n < maxFunc && !nilChainArity[n], NilOnly: v == nilOnly})
				}
			}
		}
	}
	// type-class instances of tuples
	for n := 1; n <= maxProduct; n++ {
		add(&site{File: "tc_eq", Family: "eq.Tuple", Member: num("eq.Tuple", n), Tmpl: "tc_eq", N: n, TP: n, NV: n, NU: n})
		add(&site{File: "tc_ord", Family: "ord.Tuple", Member: num("ord.Tuple", n), Tmpl: "tc_ord", N: n, TP: n, NV: n, NU: n})
		add(&site{File: "tc_hash", Family: "hash.Tuple", Member: num("hash.Tuple", n), Tmpl: "tc_hash", N: n, TP: n, NV: n, NU: n})
		if n >= 2 {
			add(&site{File: "tc_monoid_clone", Family: "monoid.Tuple", Member: num("monoid.Tuple", n), Tmpl: "tc_monoid", N: n, TP: n, NV: n, NU: n})
			add(&site{File: "tc_monoid_clone", Family: "clone.Tuple", Member: num("clone.Tuple", n), Tmpl: "tc_clone", N: n, TP: n, NV: n})
		}
	}
	return out
}

// nilChainArity: Chain arities below 9 that get a nilable-types instantiation all the same.
var nilChainArity = map[int]bool{1: true, 2: true, 3: true}

// nilSibling: packages whose nilable-types registrations live in a sibling package <file>_nil
// holding a copy of the site functions, so that the two instantiations compile in parallel
// (the arity-9 Chain towers are the heaviest packages of the harness).
func nilSibling(file string) bool { return strings.HasSuffix(file, "_chain9") }

var importsOf = map[string][]string{
	"fmt":     {"fmt."},
	"fp":      {"fp."},
	"as":      {"as."},
	"curried": {"curried."},
	"hlist":   {"hlist."},
	"product": {"product."},
	"fn1":     {"fn1."},
	"unit":    {"unit."},
	"option":  {"option."},
	"try":     {"try."},
	"future":  {"future."},
	"eq":      {"eq."},
	"ord":     {"ord."},
	"hash":    {"hash."},
	"monoid":  {"monoid."},
	"clone":   {"clone."},
}

func header(pkg string, dotRT bool, body string) string {
	var b strings.Builder
	fmt.Fprintf(&b, "// Code generated by verif/c14/gen; DO NOT EDIT.\n\npackage %s\n\nimport (\n", pkg)
	if dotRT {
		b.WriteString("\t. \"verif/c14/rt\"\n\n")
	}
	var names []string
	for n := range importsOf {
		names = append(names, n)
	}
	sort.Strings(names)
	for _, n := range names {
		used := false
		for _, tok := range importsOf[n] {
			// a package qualifier is preceded by a non-identifier character
			idx := 0
			for {
				j := strings.Index(body[idx:], tok)
				if j < 0 {
					break
				}
				j += idx
				if j == 0 || (!isIdent(body[j-1]) && body[j-1] != '"') {
					used = true
					break
				}
				idx = j + len(tok)
			}
		}
		if !used {
			continue
		}
		switch n {
		case "fmt":
			b.WriteString("\t\"fmt\"\n")
		case "fp":
			b.WriteString("\t\"github.com/csgura/fp\"\n")
		default:
			fmt.Fprintf(&b, "\t\"github.com/csgura/fp/%s\"\n", n)
		}
	}
	b.WriteString(")\n")
	return b.String()
}

func isIdent(c byte) bool {
	return c == '_' || c == '.' || (c >= 'a' && c <= 'z') || (c >= 'A' && c <= 'Z') || (c >= '0' && c <= '9')
}

func write(path, src string) {
	out, err := format.Source([]byte(src))
	if err != nil {
		os.WriteFile(path+".broken", []byte(src), 0o644)
		fmt.Fprintf(os.Stderr, "gofmt %s: %v (source kept as %s.broken)\n", path, err, path)
		os.Exit(1)
	}
	os.MkdirAll(filepath.Dir(path), 0o755)
	if err := os.WriteFile(path, out, 0o644); err != nil {
		fmt.Fprintln(os.Stderr, err)
		os.Exit(1)
	}
}

func main() {
	dir := flag.String("out", "c14", "output directory (the c14 package directory)")
	list := flag.Bool("list", false, "print the (family, member, positions) index set and exit")
	flag.Parse()
	sites := buildSites()
	if *list {
		seen := map[string]bool{}
		for _, s := range sites {
			if !seen[s.Member] && !s.NilOnly {
				seen[s.Member] = true
				fmt.Printf("%s\t%s\t%d\n", s.Family, s.Member, s.Pos)
			}
		}
		return
	}
	tm := template.Must(template.New("bodies").Funcs(funcs).Parse(bodies))
	sup := template.Must(template.New("support").Funcs(funcs).Parse(supportTmpl))
	os.RemoveAll(filepath.Join(*dir, "sites"))
	os.Remove(filepath.Join(*dir, "rt", "zz_support.go"))
	os.Remove(filepath.Join(*dir, "zz_imports.go"))
	var sb bytes.Buffer
	if err := sup.Execute(&sb, nil); err != nil {
		panic(err)
	}
	write(filepath.Join(*dir, "rt", "zz_support.go"), header("rt", false, sb.String())+sb.String())
	files := map[string]*bytes.Buffer{}
	regs := map[string]*bytes.Buffer{}
	var order []string
	buf := func(file string) *bytes.Buffer {
		b := files[file]
		if b == nil {
			b = &bytes.Buffer{}
			files[file] = b
			regs[file] = &bytes.Buffer{}
			order = append(order, file)
		}
		return b
	}
	nnil, nzero := 0, 0
	for _, s := range sites {
		if err := tm.ExecuteTemplate(buf(s.File), s.Tmpl, s); err != nil {
			panic(fmt.Sprintf("%s: %v", s.Member, err))
		}
		if !s.NilOnly {
			fmt.Fprintf(regs[s.File], "\tReg(%q, %q, %d, %s%s, %s%s)\n", s.Family, s.Member, s.Pos, s.Fn(), instT(s.TP), s.Fn(), instS(s.TP))
		}
		if s.NoNil {
			continue
		}
		// the nilable-types instantiation: nil-able / zero-able types spread over the positions
		nnil++
		nfile := s.File
		if nilSibling(s.File) {
			nfile = s.File + "_nil"
			if err := tm.ExecuteTemplate(buf(nfile), s.Tmpl, s); err != nil {
				panic(fmt.Sprintf("%s: %v", s.Member, err))
			}
		}
		types, kinds := s.nilInst()
		fmt.Fprintf(regs[nfile], "\tRegNil(%q, %q, %q, %q, %d, %q, %s%s)\n", "nilable-types", s.Family, s.Member, s.Sub, s.Pos, kinds, s.Fn(), types)
		if s.hasZeroInst() {
			types, kinds = s.zeroInst()
			fmt.Fprintf(regs[nfile], "\tRegNil(%q, %q, %q, %q, %d, %q, %s%s)\n", "zero-types", s.Family, s.Member, s.Sub, s.Pos, kinds, s.Fn(), types)
			nzero++
		}
	}
	sort.Strings(order)
	var imp strings.Builder
	imp.WriteString("// Code generated by verif/c14/gen; DO NOT EDIT.\n\npackage main\n\n// the generated call-site packages register themselves in rt.Sites\nimport (\n")
	for _, f := range order {
		body := files[f].String() + "\nfunc init() {\n" + regs[f].String() + "}\n"
		write(filepath.Join(*dir, "sites", f, "zz_"+f+".go"), header("sites_"+f, true, body)+body)
		fmt.Fprintf(&imp, "\t_ \"verif/c14/sites/%s\"\n", f)
	}
	imp.WriteString(")\n")
	write(filepath.Join(*dir, "zz_imports.go"), imp.String())
	fmt.Printf("generated %d call sites (%d with a nilable-types, %d with a zero-types instantiation) in %d packages\n", len(sites), nnil, nzero, len(order))
}
