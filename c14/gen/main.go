// Generator of the C14 call sites (text/template). Run from /verif:
//
//	go run ./c14/gen            (writes /verif/c14/zz_*.go)
//
// For every (family, arity) member of the arity-indexed families of csgura/fp it emits one
// generic call-site function `s_<member>[A1..An val](c *Cx)` holding the library call and,
// next to it, the expected result written out position by position (never computed through
// an arity-indexed library function), and one registration line that instantiates the site
// with pairwise distinct types (T1..Tn) and with one common type (S..S).
//
// The arity ranges mirror genfp.MaxFunc (10, exclusive), genfp.MaxProduct (22, exclusive)
// and genfp.MaxCompose (6, exclusive) plus the hand-written low-arity members next to the
// templates (Tuple1, curried.Flip, fp.Compose, option.Method1/2, ...). The harness does not
// compile if a listed member does not exist, and the self-test `-list` prints the members
// so that they can be diffed against `grep '^func' /repo/**/*_gen.go`.
package main

import (
	"bytes"
	"flag"
	"fmt"
	"go/format"
	"os"
	"path/filepath"
	"sort"
	"strings"
	"text/template"
)

const (
	maxFunc    = 9  // genfp.MaxFunc - 1
	maxProduct = 21 // genfp.MaxProduct - 1
	maxCompose = 5  // genfp.MaxCompose - 1
)

type monad struct {
	Pkg, Ty, Pure, Show, Wrap string
}

var (
	mOption = &monad{"option", "fp.Option", "fp.Some", "OptS", "Some("}
	mTry    = &monad{"try", "fp.Try", "fp.Success", "TryS", "Success("}
	mFuture = &monad{"future", "fp.Future", "future.Successful", "c.FutS", "Success("}
)

type step struct {
	K      int
	Method string
}

type site struct {
	File   string // output file (without zz_ prefix / .go)
	Family string
	Member string // exact Go name of the member, e.g. curried.Flip7, fp.Func7.ApplyFirst6
	Sub    string // sub-variant (builder method); part of the function name only
	Tmpl   string
	N      int // the arity number used in the body (usually the number in the name)
	M2     int // auxiliary arity (total number of curried arguments, arity of f, ...)
	TP     int // number of type parameters A1..A<TP>
	NV     int // values a1..a<NV> declared from c.v
	NU     int // values b1..b<NU> declared from c.u (second operand)
	Pos    int // number of argument positions (n of the evidence pair)
	Call   string
	Ctor   string
	Obs    string
	Mk     string
	Sfx    string
	M      *monad
	Kind   string
	Steps  []step
}

func (s *site) Fn() string {
	r := strings.NewReplacer(".", "_")
	n := "s_" + r.Replace(s.Member)
	if s.Sub != "" {
		n += "_" + s.Sub
	}
	return n
}

// ---- template helper functions ------------------------------------------------------------

func seq(a, b int) []int {
	var out []int
	for i := a; i <= b; i++ {
		out = append(out, i)
	}
	return out
}

func rseq(b, a int) []int {
	var out []int
	for i := b; i >= a; i-- {
		out = append(out, i)
	}
	return out
}

func mapJoin(is []int, sep string, f func(int) string) string {
	out := make([]string, len(is))
	for i, k := range is {
		out[i] = f(k)
	}
	return strings.Join(out, sep)
}

func pfx(p string) func(int) string { return func(k int) string { return fmt.Sprintf("%s%d", p, k) } }
func strOf(p string) func(int) string {
	return func(k int) string { return fmt.Sprintf("string(%s%d)", p, k) }
}

func TA(a, b int) string   { return mapJoin(seq(a, b), ", ", pfx("A")) }
func TAr(b, a int) string  { return mapJoin(rseq(b, a), ", ", pfx("A")) }
func args(a, b int) string { return mapJoin(seq(a, b), ", ", pfx("a")) }
func argsr(b, a int) string {
	return mapJoin(rseq(b, a), ", ", pfx("a"))
}
func pargs(p string, a, b int) string { return mapJoin(seq(a, b), ", ", pfx(p)) }
func strs(a, b int) string            { return mapJoin(seq(a, b), ", ", strOf("a")) }
func strsr(b, a int) string           { return mapJoin(rseq(b, a), ", ", strOf("a")) }
func pstrs(p string, a, b int) string { return mapJoin(seq(a, b), ", ", strOf(p)) }
func decl(a, b int) string {
	return mapJoin(seq(a, b), ", ", func(k int) string { return fmt.Sprintf("x%d A%d", k, k) })
}
func adecl(a, b int) string {
	return mapJoin(seq(a, b), ", ", func(k int) string { return fmt.Sprintf("a%d A%d", k, k) })
}
func ccall(a, b int) string {
	return mapJoin(seq(a, b), "", func(k int) string { return fmt.Sprintf("(a%d)", k) })
}
func tps(n int) string {
	if n == 0 {
		return ""
	}
	return "[" + TA(1, n) + " Val]"
}
func inst(n int) string {
	if n == 0 {
		return ""
	}
	return "[" + TA(1, n) + "]"
}
func rep(s string, n int) string {
	out := make([]string, n)
	for i := range out {
		out[i] = s
	}
	return strings.Join(out, ", ")
}
func instT(n int) string {
	if n == 0 {
		return ""
	}
	// right-aligned (T<23-n>..T22): the families that recurse on the tail (TupleN -> Tuple(N-1) of
	// positions 2..N) then reuse the instantiation of the arity below instead of creating O(N^2)
	// distinct concrete types, which is what dominated the compile time of the harness
	return "[" + mapJoin(seq(23-n, 22), ", ", pfx("T")) + "]"
}
func instS(n int) string {
	if n == 0 {
		return ""
	}
	return "[" + rep("S", n) + "]"
}

// cons builds hlist.Cons[A<i1>, hlist.Cons[A<i2>, ... tail]] for the given index order.
func cons(is []int, tail string) string {
	out := tail
	for i := len(is) - 1; i >= 0; i-- {
		out = fmt.Sprintf("hlist.Cons[A%d, %s]", is[i], out)
	}
	return out
}
func consF(a, b int) string { return cons(seq(a, b), "hlist.Nil") }
func consR(b, a int) string { return cons(rseq(b, a), "hlist.Nil") }

func cur(a, b int, r string) string {
	out := r
	for k := b; k >= a; k-- {
		out = fmt.Sprintf("fp.Func1[A%d, %s]", k, out)
	}
	return out
}

func nest(a, b int) string { // fp.Tuple2[A1, fp.Tuple2[A2, ... fp.Tuple2[A(b-1), Ab]]]
	out := fmt.Sprintf("A%d", b)
	for k := b - 1; k >= a; k-- {
		out = fmt.Sprintf("fp.Tuple2[A%d, %s]", k, out)
	}
	return out
}

func joinPlus(a, b int) string {
	return mapJoin(seq(a, b), ` + "," + `, strOf("a"))
}

func nestedSteps(n int) string {
	open := ""
	for k := n; k >= 1; k-- {
		open += fmt.Sprintf("f%d(", k)
	}
	return fmt.Sprintf("%q + string(a1) + %q", open, strings.Repeat(")", n))
}

func pures(m *monad, a, b int) string {
	return mapJoin(seq(a, b), ", ", func(k int) string { return fmt.Sprintf("%s(a%d)", m.Pure, k) })
}

func insts(ctor string, brace bool, n int) string {
	return mapJoin(seq(1, n), ", ", func(k int) string {
		if brace {
			return fmt.Sprintf("%s[A%d]{C: c, K: %d}", ctor, k, k)
		}
		return fmt.Sprintf("%s[A%d](c, %d)", ctor, k, k)
	})
}

func posCalls(fn string, n int) string {
	return mapJoin(seq(1, n), ", ", func(k int) string { return fmt.Sprintf("c.%s(%d)", fn, k) })
}

func funcConv(n int) string {
	return fmt.Sprintf("fp.Func%d[%s, Res](f)", n, TA(1, n))
}

func composeArgs(call string, n int) string {
	plain := call == "fp.Compose" || call == "fp.Compose2"
	return mapJoin(seq(1, n), ", ", func(k int) string {
		if plain {
			return fmt.Sprintf("f%d", k)
		}
		return fmt.Sprintf("fp.Func1[A%d, A%d](f%d)", k, k+1, k)
	})
}

// chain renders the builder method chain of a site.
func chain(s *site) string {
	m := s.M
	var b strings.Builder
	for _, st := range s.Steps {
		k := st.K
		a := fmt.Sprintf("a%d", k)
		A := fmt.Sprintf("A%d", k)
		b.WriteString(".\n\t\t")
		switch st.Method {
		case "Ap":
			fmt.Fprintf(&b, "Ap(%s)", a)
		case "ApOption":
			fmt.Fprintf(&b, "ApOption(fp.Some(%s))", a)
		case "ApTry":
			fmt.Fprintf(&b, "ApTry(fp.Success(%s))", a)
		case "ApFuture":
			fmt.Fprintf(&b, "ApFuture(future.Successful(%s))", a)
		case "ApFunc":
			fmt.Fprintf(&b, "ApFunc(func() %s { return %s })", A, a)
		case "ApOptionFunc":
			fmt.Fprintf(&b, "ApOptionFunc(func() fp.Option[%s] { return fp.Some(%s) })", A, a)
		case "ApTryFunc":
			fmt.Fprintf(&b, "ApTryFunc(func() fp.Try[%s] { return fp.Success(%s) })", A, a)
		case "ApFutureFunc":
			fmt.Fprintf(&b, "ApFutureFunc(func() fp.Future[%s] { return future.Successful(%s) })", A, a)
		case "Map", "FlatMap":
			ret, val := A, a
			if st.Method == "FlatMap" {
				ret, val = fmt.Sprintf("%s[%s]", m.Ty, A), fmt.Sprintf("%s(%s)", m.Pure, a)
			}
			if k == 1 {
				fmt.Fprintf(&b, "%s(func(_ hlist.Nil) %s { return %s })", st.Method, ret, val)
			} else {
				fmt.Fprintf(&b, "%s(func(h A%d) %s { c.Prev(%d, string(h), string(a%d)); return %s })", st.Method, k-1, ret, k, k-1, val)
			}
		case "HListMap", "HListFlatMap":
			ret, val := A, a
			if st.Method == "HListFlatMap" {
				ret, val = fmt.Sprintf("%s[%s]", m.Ty, A), fmt.Sprintf("%s(%s)", m.Pure, a)
			}
			if k == 1 {
				fmt.Fprintf(&b, "%s(func(_ hlist.Nil) %s { return %s })", st.Method, ret, val)
			} else {
				fmt.Fprintf(&b, "%s(func(h %s) %s { c.Vec(\"callback-hlist\", Hl%d[%s](h), %s); return %s })",
					st.Method, consR(k-1, 1), ret, k-1, TAr(k-1, 1), strsr(k-1, 1), val)
			}
		default:
			panic("unknown builder method " + st.Method)
		}
	}
	return b.String()
}

var funcs = template.FuncMap{
	"seq": seq, "rseq": rseq, "TA": TA, "TAr": TAr, "args": args, "argsr": argsr, "pargs": pargs,
	"strs": strs, "strsr": strsr, "pstrs": pstrs, "decl": decl, "adecl": adecl, "ccall": ccall, "tps": tps, "inst": inst,
	"consF": consF, "consR": consR, "cur": cur, "nest": nest, "joinPlus": joinPlus, "nestedSteps": nestedSteps,
	"pures": pures, "insts": insts, "posCalls": posCalls, "funcConv": funcConv, "composeArgs": composeArgs, "chain": chain,
	"inc": func(i int) int { return i + 1 }, "dec": func(i int) int { return i - 1 },
	"xstrs": func(a, b int) string { return pstrs("x", a, b) },
	"bargs": func(a, b int) string { return pargs("b", a, b) },
	"bstrs": func(a, b int) string { return pstrs("b", a, b) },
	"instT": instT, "instS": instS,
}

// ---- templates ----------------------------------------------------------------------------

const bodies = `
{{define "site"}}
// {{.Member}}{{if .Sub}} ({{.Sub}}){{end}}
func {{.Fn}}{{tps .TP}}(c *Cx) {
	c.Enter({{printf "%q" .Family}}, {{printf "%q" .Member}}, {{.Pos}})
{{- range $k := seq 1 .NV}}
	a{{$k}} := A{{$k}}(c.V[{{$k}}])
{{- end}}
{{- range $k := seq 1 .NU}}
	b{{$k}} := A{{$k}}(c.U[{{$k}}])
{{- end}}
{{- end}}

{{define "recf"}}
	f := Rec{{.N}}{{inst .N}}(c)
	want := c.Want({{strs 1 .N}})
{{- end}}

{{define "recfm"}}
	fm := func({{decl 1 .N}}) {{.M.Ty}}[Res] { return {{.M.Pure}}(c.Call({{xstrs 1 .N}})) }
	want := c.Want({{strs 1 .N}})
{{- end}}

{{define "recft"}}
	ft := func({{decl 1 .N}}) (Res, error) { return c.Call({{xstrs 1 .N}}), nil }
	want := c.Want({{strs 1 .N}})
{{- end}}

{{define "tuple_acc"}}{{template "site" .}}
	t := {{.Mk}}{{.N}}({{args 1 .N}})
	Eqv(c, "Head", t.Head(), a1)
{{- if eq .N 1}}
	var _ fp.Unit = t.Tail()
{{- else}}
	Eqv(c, "Last", t.Last(), a{{.N}})
	{{pargs "i" 1 (dec .N)}} := t.Init()
{{- range $k := seq 1 (dec .N)}}
	Eqv(c, "Init", i{{$k}}, a{{$k}})
{{- end}}
	{{pargs "l" 2 .N}} := t.Tail()
{{- range $k := seq 2 .N}}
	Eqv(c, "Tail", l{{$k}}, a{{$k}})
{{- end}}
	{{pargs "u" 1 .N}} := t.Unapply()
{{- range $k := seq 1 .N}}
	Eqv(c, "Unapply", u{{$k}}, a{{$k}})
{{- end}}
	c.Eqs("String", t.String(), "(" + {{joinPlus 1 .N}} + ")")
{{- end}}
}
{{end}}

{{define "ctor"}}{{template "site" .}}
	got := {{.Call}}({{args 1 .N}})
	c.Vec("fields", {{.Obs}}{{.N}}{{inst .N}}(got), {{strs 1 .N}})
}
{{end}}

{{define "to_hlist"}}{{template "site" .}}
	got := {{.Call}}({{.Mk}}{{.N}}({{args 1 .N}}))
	c.Vec("elements", Hl{{.N}}{{inst .N}}(got), {{strs 1 .N}})
}
{{end}}

{{define "as_curried"}}{{template "site" .}}{{template "recf" .}}
	var got Res = as.Curried{{.N}}(f){{ccall 1 .N}}
	c.Result(string(got), want)
}
{{end}}

{{define "as_untupled"}}{{template "site" .}}
	f := func(t fp.Tuple{{.N}}{{inst .N}}) Res { return c.Call(Tup{{.N}}{{inst .N}}(t)...) }
	want := c.Want({{strs 1 .N}})
	var got Res = as.UnTupled{{.N}}(f)({{args 1 .N}})
	c.Result(string(got), want)
}
{{end}}

{{define "as_tupled2"}}{{template "site" .}}{{template "recf" .}}
	var got Res = as.Tupled2(fp.Func2[A1, A2, Res](f))(MkTup2(a1, a2))
	c.Result(string(got), want)
}
{{end}}

{{define "as_func"}}{{template "site" .}}
{{- if eq .N 0}}
	f := func() Res { return c.Call() }
	want := c.Want()
	var got Res = as.Func0(f)(fp.Unit{})
{{- else}}{{template "recf" .}}
	var got Res = as.Func{{.N}}(f)({{args 1 .N}})
{{- end}}
	c.Result(string(got), want)
}
{{end}}

{{define "as_supplier"}}{{template "site" .}}{{template "recf" .}}
	var got Res = as.Supplier{{.N}}(f, {{args 1 .N}})()
	c.Result(string(got), want)
}
{{end}}

{{define "curried_func"}}{{template "site" .}}{{template "recf" .}}
	var got Res = curried.Func{{.N}}(f){{ccall 1 .N}}
	c.Result(string(got), want)
}
{{end}}

{{define "curried_revert"}}{{template "site" .}}{{template "recf" .}}
	var got Res = curried.Revert{{.N}}(Cur{{.N}}(f))({{args 1 .N}})
	c.Result(string(got), want)
}
{{end}}

{{define "curried_flip"}}{{template "site" .}}{{template "recf" .}}
	var got Res = {{.Call}}(Cur{{.N}}(f)){{ccall 2 .N}}(a1)
	c.Result(string(got), want)
}
{{end}}

{{define "curried_flipapply"}}{{template "site" .}}{{template "recf" .}}
	var got Res = {{.Call}}(Cur{{.N}}(f), {{args 2 .N}})(a1)
	c.Result(string(got), want)
}
{{end}}

{{define "curried_slipl"}}{{template "site" .}}{{template "recf" .}}
	var got Res = curried.SlipL{{.N}}(Cur{{.N}}(f))(a{{.N}}){{ccall 1 (dec .N)}}
	c.Result(string(got), want)
}
{{end}}

{{define "curried_compose"}}{{template "site" .}}{{template "recf" .}}
	h := func(r Res) Res2 { return Res2("h(" + string(r) + ")") }
	var got Res2 = curried.Compose{{.N}}(Cur{{.N}}(f), fp.Func1[Res, Res2](h)){{ccall 1 .N}}
	c.Result(string(got), "h(" + want + ")")
}
{{end}}

{{define "hlist_case"}}{{template "site" .}}{{template "recf" .}}
	var got Res = hlist.Case{{.N}}(MkHl{{.N}}({{args 1 .N}}), f)
	c.Result(string(got), want)
}
{{end}}

{{define "hlist_lift"}}{{template "site" .}}{{template "recf" .}}
	var got Res = hlist.Lift{{.N}}(f)(MkHl{{.N}}({{args 1 .N}}))
	c.Result(string(got), want)
}
{{end}}

{{define "hlist_rift"}}{{template "site" .}}{{template "recf" .}}
	var got Res = hlist.Rift{{.N}}(f)(MkHl{{.N}}({{argsr .N 1}}))
	c.Result(string(got), want)
}
{{end}}

{{define "hlist_reverse"}}{{template "site" .}}
	got := hlist.Reverse{{.N}}(MkHl{{.N}}({{args 1 .N}}))
	c.Vec("elements", Hl{{.N}}[{{TAr .N 1}}](got), {{strsr .N 1}})
}
{{end}}

{{define "from_hlist"}}{{template "site" .}}
	got := {{.Call}}(MkHl{{.N}}({{args 1 .N}}))
	c.Vec("fields", {{.Obs}}{{.N}}{{inst .N}}(got), {{strs 1 .N}})
}
{{end}}

{{define "product_flatten"}}{{template "site" .}}
	got := product.Flatten{{.N}}(MkNest{{.N}}({{args 1 .N}}))
	c.Vec("fields", Tup{{.N}}{{inst .N}}(got), {{strs 1 .N}})
}
{{end}}

{{define "product_lift"}}{{template "site" .}}{{template "recf" .}}
	var got Res = product.Lift{{.N}}(f)(MkTup{{.N}}({{args 1 .N}}))
	c.Result(string(got), want)
}
{{end}}

{{define "fp_compose"}}{{template "site" .}}
{{- range $k := seq 1 .N}}
	f{{$k}} := func(x A{{$k}}) A{{inc $k}} { return A{{inc $k}}(c.Step({{$k}}, string(x))) }
{{- end}}
	var got A{{inc .N}} = {{.Call}}({{composeArgs .Call .N}})(a1)
	c.Eqs("result", string(got), {{nestedSteps .N}})
}
{{end}}

{{define "fp_applyfirst"}}{{template "site" .}}{{template "recf" .}}
	var got Res = fp.Func{{.N}}[{{TA 1 .N}}, Res](f).ApplyFirst{{.Sfx}}({{args 1 (dec .N)}})(a{{.N}})
	c.Result(string(got), want)
}
{{end}}

{{define "fp_applylast"}}{{template "site" .}}{{template "recf" .}}
	var got Res = fp.Func{{.N}}[{{TA 1 .N}}, Res](f).ApplyLast{{.Sfx}}({{args 2 .N}})(a1)
	c.Result(string(got), want)
}
{{end}}

{{define "fp_id"}}{{template "site" .}}
	got := {{.Call}}({{args 1 .N}})
	Eqv(c, "result", got, a{{.N}})
}
{{end}}

{{define "fn1_merge"}}{{template "site" .}}
	in := A{{inc .N}}(c.V[{{inc .N}}])
{{- range $k := seq 1 .N}}
	f{{$k}} := func(x A{{inc $.N}}) A{{$k}} { return A{{$k}}(c.Step({{$k}}, string(x))) }
{{- end}}
{{- if eq .Call "fn1.Merge"}}
	g1, g2 := fn1.Merge({{pargs "f" 1 .N}})(in)
	Eqv(c, "results", g1, A1(c.Step(1, string(in))))
	Eqv(c, "results", g2, A2(c.Step(2, string(in))))
{{- else}}
	got := {{.Call}}({{pargs "f" 1 .N}})(in)
	c.Vec("fields", Tup{{.N}}[{{TA 1 .N}}](got){{range $k := seq 1 .N}}, c.Step({{$k}}, string(in)){{end}})
{{- end}}
}
{{end}}

{{define "unit_func"}}{{template "site" .}}
{{- if eq .N 0}}
	f := func() { c.Call() }
	c.Want()
	var _ fp.Unit = unit.Func0(f)(fp.Unit{})
{{- else}}
	f := func({{decl 1 .N}}) { c.Call({{xstrs 1 .N}}) }
	c.Want({{strs 1 .N}})
	var _ fp.Unit = unit.Func{{.N}}(f)({{args 1 .N}})
{{- end}}
	c.Called()
}
{{end}}

{{define "m_lifta"}}{{template "site" .}}{{template "recf" .}}
	var got {{.M.Ty}}[Res] = {{.Call}}(f)({{pures .M 1 .N}})
	c.Result({{.M.Show}}(got), "{{.M.Wrap}}" + want + ")")
}
{{end}}

{{define "m_liftm"}}{{template "site" .}}{{template "recfm" .}}
	var got {{.M.Ty}}[Res] = {{.Call}}(fm)({{pures .M 1 .N}})
	c.Result({{.M.Show}}(got), "{{.M.Wrap}}" + want + ")")
}
{{end}}

{{define "m_map"}}{{template "site" .}}{{template "recf" .}}
	var got {{.M.Ty}}[Res] = {{.Call}}({{pures .M 1 .N}}, f)
	c.Result({{.M.Show}}(got), "{{.M.Wrap}}" + want + ")")
}
{{end}}

{{define "m_flatmap"}}{{template "site" .}}{{template "recfm" .}}
	var got {{.M.Ty}}[Res] = {{.Call}}({{pures .M 1 .N}}, fm)
	c.Result({{.M.Show}}(got), "{{.M.Wrap}}" + want + ")")
}
{{end}}

{{define "m_flap"}}{{template "site" .}}{{template "recf" .}}
	var got {{.M.Ty}}[Res] = {{.Call}}({{.M.Pure}}(Cur{{.N}}(f))){{ccall 1 .N}}
	c.Result({{.M.Show}}(got), "{{.M.Wrap}}" + want + ")")
}
{{end}}

{{define "m_method"}}{{template "site" .}}{{template "recf" .}}
	var got {{.M.Ty}}[Res] = {{.Call}}({{.M.Pure}}(a1), f)({{args 2 .N}})
	c.Result({{.M.Show}}(got), "{{.M.Wrap}}" + want + ")")
}
{{end}}

{{define "m_flatmethod"}}{{template "site" .}}{{template "recfm" .}}
	var got {{.M.Ty}}[Res] = {{.Call}}({{.M.Pure}}(a1), fm)({{args 2 .N}})
	c.Result({{.M.Show}}(got), "{{.M.Wrap}}" + want + ")")
}
{{end}}

{{define "m_func"}}{{template "site" .}}
{{- if eq .N 0}}
	ft := func() (Res, error) { return c.Call(), nil }
	want := c.Want()
	var got {{.M.Ty}}[Res] = {{.Call}}(ft)(fp.Unit{})
{{- else}}{{template "recft" .}}
	var got {{.M.Ty}}[Res] = {{.Call}}(ft)({{args 1 .N}})
{{- end}}
	c.Result({{.M.Show}}(got), "{{.M.Wrap}}" + want + ")")
}
{{end}}

{{define "m_curried"}}{{template "site" .}}{{template "recft" .}}
	var got {{.M.Ty}}[Res] = {{.Call}}(ft){{ccall 1 .N}}
	c.Result({{.M.Show}}(got), "{{.M.Wrap}}" + want + ")")
}
{{end}}

{{define "m_builder"}}{{template "site" .}}{{template "recf" .}}
	var got {{.M.Ty}}[Res] = {{.Call}}({{funcConv .N}}){{chain .}}
	c.Result({{.M.Show}}(got), "{{.M.Wrap}}" + want + ")")
}
{{end}}

{{define "operands"}}
	t1 := MkTup{{.N}}({{args 1 .N}})
	t2 := MkTup{{.N}}({{bargs 1 .N}})
	vs := []string{ {{strs 1 .N}} }
	us := []string{ {{bstrs 1 .N}} }
{{- end}}

{{define "tc_eq"}}{{template "site" .}}{{template "operands" .}}
	e := eq.Tuple{{.N}}{{inst .N}}({{insts "RecEq" true .N}})
	c.Eqb("Eqv", e.Eqv(t1, t2), AllEq(vs, us))
	c.Eqb("Eqv-flipped", e.Eqv(t2, t1), AllEq(us, vs))
	c.Eqb("Eqv-same", e.Eqv(t1, MkTup{{.N}}({{args 1 .N}})), true)
	c.Routed()
}
{{end}}

{{define "tc_ord"}}{{template "site" .}}{{template "operands" .}}
	o := ord.Tuple{{.N}}{{inst .N}}({{insts "RecOrd" false .N}})
	c.OrdObs(func() bool { return o.Less(t1, t2) }, func() bool { return o.Less(t2, t1) }, func() bool { return o.Eqv(t1, t2) },
		func() int { return o.Compare(t1, t2) }, func() bool { return o.LessEq(t1, t2) }, vs, us)
	c.Routed()
}
{{end}}

{{define "tc_hash"}}{{template "site" .}}{{template "operands" .}}
	h := hash.Tuple{{.N}}{{inst .N}}({{insts "RecHash" true .N}})
	c.Eqb("Eqv", h.Eqv(t1, t2), AllEq(vs, us))
	c.Routed()
	c.ResetComps()
	h1 := h.Hash(t1)
	c.Routed()
	c.SawAll("Hash", {{.N}})
	c.ResetComps()
	c.Eqb("Hash-deterministic", h1 == h.Hash(MkTup{{.N}}({{args 1 .N}})), true)
	if AllEq(vs, us) {
		c.Eqb("Hash-agrees-with-Eqv", h1 == h.Hash(t2), true)
	}
	c.Routed()
}
{{end}}

{{define "tc_monoid"}}{{template "site" .}}{{template "operands" .}}
	_, _ = vs, us
	m := monoid.Tuple{{.N}}{{inst .N}}({{insts "RecMon" true .N}})
	c.Vec("Empty", Tup{{.N}}{{inst .N}}(m.Empty()), {{posCalls "Emp" .N}})
	c.Vec("Combine", Tup{{.N}}{{inst .N}}(m.Combine(t1, t2)), {{posCalls "Cmb" .N}})
}
{{end}}

{{define "tc_clone"}}{{template "site" .}}
	t1 := MkTup{{.N}}({{args 1 .N}})
	cl := clone.Tuple{{.N}}{{inst .N}}({{insts "RecClone" true .N}})
	c.Vec("Clone", Tup{{.N}}{{inst .N}}(cl.Clone(t1)), {{posCalls "Cln" .N}})
	c.Routed()
}
{{end}}
`

const supportTmpl = `
{{range $n := seq 1 22}}
type T{{$n}} string

func (T{{$n}}) Name() string { return "T{{$n}}" }
{{end}}

{{range $n := seq 1 21}}
func Tup{{$n}}{{tps $n}}(t fp.Tuple{{$n}}{{inst $n}}) []string {
	return []string{ {{pstrs "t.I" 1 $n}} }
}

func Lab{{$n}}{{tps $n}}(t fp.Labelled{{$n}}{{inst $n}}) []string {
	return []string{ {{pstrs "t.I" 1 $n}} }
}

func MkTup{{$n}}{{tps $n}}({{adecl 1 $n}}) fp.Tuple{{$n}}{{inst $n}} {
	return fp.Tuple{{$n}}{{inst $n}}{ {{range $k := seq 1 $n}}I{{$k}}: a{{$k}}, {{end}} }
}

func MkLab{{$n}}{{tps $n}}({{adecl 1 $n}}) fp.Labelled{{$n}}{{inst $n}} {
	return fp.Labelled{{$n}}{{inst $n}}{ {{range $k := seq 1 $n}}I{{$k}}: a{{$k}}, {{end}} }
}

func Hl{{$n}}{{tps $n}}(h {{consF 1 $n}}) []string {
	h1 := h
{{- range $k := seq 2 $n}}
	h{{$k}} := hlist.Tail(h{{dec $k}})
{{- end}}
	var _ hlist.Nil = hlist.Tail(h{{$n}})
	return []string{ {{range $k := seq 1 $n}}string(hlist.Head(h{{$k}})), {{end}} }
}

func MkHl{{$n}}{{tps $n}}({{adecl 1 $n}}) {{consF 1 $n}} {
	return {{range $k := seq 1 $n}}hlist.Concat(a{{$k}}, {{end}}hlist.Empty(){{range $k := seq 1 $n}}){{end}}
}
{{if ge $n 2}}
func MkNest{{$n}}{{tps $n}}({{adecl 1 $n}}) {{nest 1 $n}} {
	return {{range $k := seq 1 (dec $n)}}Pair(a{{$k}}, {{end}}a{{$n}}{{range $k := seq 1 (dec $n)}}){{end}}
}
{{end}}
func Rec{{$n}}{{tps $n}}(c *Cx) func({{TA 1 $n}}) Res {
	return func({{decl 1 $n}}) Res { return c.Call({{xstrs 1 $n}}) }
}
{{end}}

{{range $n := seq 1 10}}
func Cur{{$n}}[{{TA 1 $n}} Val, R any](f func({{TA 1 $n}}) R) {{cur 1 $n "R"}} {
	return {{range $k := seq 1 $n}}func(x{{$k}} A{{$k}}) {{cur (inc $k) $n "R"}} { return {{end}}f({{pargs "x" 1 $n}}){{range $k := seq 1 $n}} }{{end}}
}
{{end}}
`

// ---- the index set ------------------------------------------------------------------------

func num(name string, n int) string { return fmt.Sprintf("%s%d", name, n) }

func buildSites() []*site {
	var out []*site
	add := func(s *site) {
		if s.Pos == 0 && s.TP > 0 {
			s.Pos = s.N
		}
		out = append(out, s)
	}
	// fp.TupleN / fp.LabelledN accessors
	for n := 1; n <= maxProduct; n++ {
		add(&site{File: "fp", Family: "fp.Tuple(accessors)", Member: num("fp.Tuple", n), Tmpl: "tuple_acc", N: n, TP: n, NV: n, Mk: "MkTup"})
		add(&site{File: "fp", Family: "fp.Labelled(accessors)", Member: num("fp.Labelled", n), Tmpl: "tuple_acc", N: n, TP: n, NV: n, Mk: "MkLab"})
	}
	// as
	for n := 1; n <= maxProduct; n++ {
		add(&site{File: "as", Family: "as.Tuple", Member: num("as.Tuple", n), Tmpl: "ctor", N: n, TP: n, NV: n, Call: num("as.Tuple", n), Obs: "Tup"})
		add(&site{File: "as", Family: "as.Labelled", Member: num("as.Labelled", n), Tmpl: "ctor", N: n, TP: n, NV: n, Call: num("as.Labelled", n), Obs: "Lab"})
		add(&site{File: "as", Family: "as.HList", Member: num("as.HList", n), Tmpl: "to_hlist", N: n, TP: n, NV: n, Call: num("as.HList", n), Mk: "MkTup"})
		add(&site{File: "as", Family: "as.HListLabelled", Member: num("as.HList", n) + "Labelled", Tmpl: "to_hlist", N: n, TP: n, NV: n, Call: num("as.HList", n) + "Labelled", Mk: "MkLab"})
	}
	add(&site{File: "as", Family: "as.Func", Member: "as.Func0", Tmpl: "as_func", N: 0})
	add(&site{File: "as", Family: "as.Tupled", Member: "as.Tupled2", Tmpl: "as_tupled2", N: 2, TP: 2, NV: 2})
	for n := 1; n <= maxFunc; n++ {
		add(&site{File: "as", Family: "as.Func", Member: num("as.Func", n), Tmpl: "as_func", N: n, TP: n, NV: n})
		add(&site{File: "as", Family: "as.Supplier", Member: num("as.Supplier", n), Tmpl: "as_supplier", N: n, TP: n, NV: n})
		if n >= 2 {
			add(&site{File: "as", Family: "as.Curried", Member: num("as.Curried", n), Tmpl: "as_curried", N: n, TP: n, NV: n})
			add(&site{File: "as", Family: "as.UnTupled", Member: num("as.UnTupled", n), Tmpl: "as_untupled", N: n, TP: n, NV: n})
		}
	}
	// curried
	for n := 1; n <= maxFunc; n++ {
		add(&site{File: "curried", Family: "curried.Func", Member: num("curried.Func", n), Tmpl: "curried_func", N: n, TP: n, NV: n})
		if n >= 2 {
			add(&site{File: "curried", Family: "curried.Revert", Member: num("curried.Revert", n), Tmpl: "curried_revert", N: n, TP: n, NV: n})
			add(&site{File: "curried", Family: "curried.Compose", Member: num("curried.Compose", n), Tmpl: "curried_compose", N: n, TP: n, NV: n})
			// Flip<k> / FlipApply<k> take a curried function of k+1 arguments; k = n-1, bare name for k = 1
			k := n - 1
			flip, flipApply := num("curried.Flip", k), num("curried.FlipApply", k)
			if k == 1 {
				flip, flipApply = "curried.Flip", "curried.FlipApply"
			}
			add(&site{File: "curried", Family: "curried.Flip", Member: flip, Tmpl: "curried_flip", N: n, TP: n, NV: n, Call: flip})
			add(&site{File: "curried", Family: "curried.FlipApply", Member: flipApply, Tmpl: "curried_flipapply", N: n, TP: n, NV: n, Call: flipApply})
		}
		if n >= 3 {
			add(&site{File: "curried", Family: "curried.SlipL", Member: num("curried.SlipL", n), Tmpl: "curried_slipl", N: n, TP: n, NV: n})
		}
	}
	// hlist
	for n := 1; n <= maxProduct; n++ {
		add(&site{File: "hlist", Family: "hlist.Of", Member: num("hlist.Of", n), Tmpl: "ctor", N: n, TP: n, NV: n, Call: num("hlist.Of", n), Obs: "Hl"})
		add(&site{File: "hlist", Family: "hlist.Case", Member: num("hlist.Case", n), Tmpl: "hlist_case", N: n, TP: n, NV: n})
	}
	for n := 1; n <= maxFunc; n++ {
		add(&site{File: "hlist", Family: "hlist.Lift", Member: num("hlist.Lift", n), Tmpl: "hlist_lift", N: n, TP: n, NV: n})
		add(&site{File: "hlist", Family: "hlist.Rift", Member: num("hlist.Rift", n), Tmpl: "hlist_rift", N: n, TP: n, NV: n})
		if n >= 2 {
			add(&site{File: "hlist", Family: "hlist.Reverse", Member: num("hlist.Reverse", n), Tmpl: "hlist_reverse", N: n, TP: n, NV: n})
		}
	}
	// product
	for n := 1; n <= maxProduct; n++ {
		add(&site{File: "product", Family: "product.TupleFromHList", Member: num("product.TupleFromHList", n), Tmpl: "from_hlist", N: n, TP: n, NV: n, Call: num("product.TupleFromHList", n), Obs: "Tup"})
		add(&site{File: "product", Family: "product.LabelledFromHList", Member: num("product.LabelledFromHList", n), Tmpl: "from_hlist", N: n, TP: n, NV: n, Call: num("product.LabelledFromHList", n), Obs: "Lab"})
		if n >= 2 {
			add(&site{File: "product", Family: "product.Tuple", Member: num("product.Tuple", n), Tmpl: "ctor", N: n, TP: n, NV: n, Call: num("product.Tuple", n), Obs: "Tup"})
			add(&site{File: "product", Family: "product.Lift", Member: num("product.Lift", n), Tmpl: "product_lift", N: n, TP: n, NV: n})
		}
		if n >= 3 {
			add(&site{File: "product", Family: "product.Flatten", Member: num("product.Flatten", n), Tmpl: "product_flatten", N: n, TP: n, NV: n})
		}
	}
	// fp: Compose, ApplyFirst/ApplyLast, Id
	add(&site{File: "fp", Family: "fp.Compose", Member: "fp.Compose", Tmpl: "fp_compose", N: 2, TP: 3, NV: 1, Pos: 2, Call: "fp.Compose"})
	for n := 2; n <= maxCompose; n++ {
		add(&site{File: "fp", Family: "fp.Compose", Member: num("fp.Compose", n), Tmpl: "fp_compose", N: n, TP: n + 1, NV: 1, Pos: n, Call: num("fp.Compose", n)})
	}
	for n := 2; n <= maxFunc; n++ {
		sfx := fmt.Sprint(n - 1)
		if n == 2 {
			sfx = ""
		}
		add(&site{File: "fp", Family: "fp.Func.ApplyFirst", Member: fmt.Sprintf("fp.Func%d.ApplyFirst%s", n, sfx), Tmpl: "fp_applyfirst", N: n, TP: n, NV: n, Sfx: sfx})
		add(&site{File: "fp", Family: "fp.Func.ApplyLast", Member: fmt.Sprintf("fp.Func%d.ApplyLast%s", n, sfx), Tmpl: "fp_applylast", N: n, TP: n, NV: n, Sfx: sfx})
	}
	add(&site{File: "fp", Family: "fp.Id", Member: "fp.Id", Tmpl: "fp_id", N: 1, TP: 1, NV: 1, Call: "fp.Id"})
	for n := 2; n <= maxFunc; n++ {
		add(&site{File: "fp", Family: "fp.Id", Member: num("fp.Id", n), Tmpl: "fp_id", N: n, TP: n, NV: n, Call: num("fp.Id", n)})
	}
	// fn1.Merge, unit.Func
	add(&site{File: "misc", Family: "fn1.Merge", Member: "fn1.Merge", Tmpl: "fn1_merge", N: 2, TP: 3, Pos: 2, Call: "fn1.Merge"})
	for n := 2; n <= maxFunc; n++ {
		add(&site{File: "misc", Family: "fn1.Merge", Member: num("fn1.Merge", n), Tmpl: "fn1_merge", N: n, TP: n + 1, Pos: n, Call: num("fn1.Merge", n)})
	}
	for n := 0; n <= maxFunc; n++ {
		add(&site{File: "misc", Family: "unit.Func", Member: num("unit.Func", n), Tmpl: "unit_func", N: n, TP: n, NV: n})
	}
	// option / try / future
	for _, m := range []*monad{mOption, mTry, mFuture} {
		file := m.Pkg
		for n := 2; n <= maxFunc; n++ {
			add(&site{File: file, Family: m.Pkg + ".LiftA", Member: num(m.Pkg+".LiftA", n), Tmpl: "m_lifta", N: n, TP: n, NV: n, M: m, Call: num(m.Pkg+".LiftA", n)})
			add(&site{File: file, Family: m.Pkg + ".LiftM", Member: num(m.Pkg+".LiftM", n), Tmpl: "m_liftm", N: n, TP: n, NV: n, M: m, Call: num(m.Pkg+".LiftM", n)})
			if m != mFuture || n == 2 { // future only has Map2
				add(&site{File: file, Family: m.Pkg + ".Map", Member: num(m.Pkg+".Map", n), Tmpl: "m_map", N: n, TP: n, NV: n, M: m, Call: num(m.Pkg+".Map", n)})
			}
			if m != mFuture {
				add(&site{File: file, Family: m.Pkg + ".FlatMap", Member: num(m.Pkg+".FlatMap", n), Tmpl: "m_flatmap", N: n, TP: n, NV: n, M: m, Call: num(m.Pkg+".FlatMap", n)})
			}
		}
		for n := 1; n <= maxFunc; n++ {
			flap := num(m.Pkg+".Flap", n)
			if n == 1 {
				flap = m.Pkg + ".Flap"
			}
			add(&site{File: file, Family: m.Pkg + ".Flap", Member: flap, Tmpl: "m_flap", N: n, TP: n, NV: n, M: m, Call: flap})
			// Method<k>: f has k+1 arguments for the hand-written k = 1, 2 and k arguments for the generated k >= 3
			fa := n
			if n <= 2 {
				fa = n + 1
			}
			add(&site{File: file, Family: m.Pkg + ".Method", Member: num(m.Pkg+".Method", n), Tmpl: "m_method", N: fa, TP: fa, NV: fa, M: m, Call: num(m.Pkg+".Method", n)})
			add(&site{File: file, Family: m.Pkg + ".FlatMethod", Member: num(m.Pkg+".FlatMethod", n), Tmpl: "m_flatmethod", N: fa, TP: fa, NV: fa, M: m, Call: num(m.Pkg+".FlatMethod", n)})
		}
		if m != mOption {
			for n := 0; n <= maxFunc; n++ {
				add(&site{File: file, Family: m.Pkg + ".Func", Member: num(m.Pkg+".Func", n), Tmpl: "m_func", N: n, TP: n, NV: n, M: m, Call: num(m.Pkg+".Func", n)})
			}
		}
		if m == mTry {
			for n := 2; n <= maxFunc; n++ {
				add(&site{File: file, Family: "try.Curried", Member: num("try.Curried", n), Tmpl: "m_curried", N: n, TP: n, NV: n, M: m, Call: num("try.Curried", n)})
			}
		}
		// builders
		apM := map[*monad][]string{
			mOption: {"Ap", "ApOption", "ApFunc", "ApOptionFunc"},
			mTry:    {"Ap", "ApTry", "ApOption", "ApFunc", "ApTryFunc", "ApOptionFunc"},
			mFuture: {"Ap", "ApFuture", "ApTry", "ApOption", "ApFunc", "ApFutureFunc", "ApTryFunc", "ApOptionFunc"},
		}[m]
		chM := append(append([]string{}, apM...), "Map", "FlatMap", "HListMap", "HListFlatMap")
		for _, kind := range []string{"Applicative", "Chain"} {
			methods := apM
			if kind == "Chain" {
				methods = chM
			}
			for n := 1; n <= maxFunc; n++ {
				// every builder method of MonadChain<K>/ApplicativeFunctor<K>, K = 9..1, lies on the
				// chains that start at arity 9, so the per-method chains are only generated there;
				// each lower arity gets one chain (methods rotating) for its constructor Chain<N>/Applicative<N>.
				// (Each (K, depth of the HList type) pair is a separate instantiation of 12 methods, so
				// the full cross product costs minutes of compile time and adds no generated text.)
				variants := []string{"mixed"}
				if n == maxFunc {
					variants = append(append([]string{}, methods...), "mixed")
				}
				for vi, v := range variants {
					var steps []step
					for k := 1; k <= n; k++ {
						meth := v
						if v == "mixed" {
							meth = methods[(k+n)%len(methods)]
						}
						steps = append(steps, step{k, meth})
					}
					_ = vi
					// one package per (monad, kind, arity bucket): the Chain builders instantiate a
					// fresh family of MonadChain/Option/Try/Future types per (arity, step), which is
					// what the compile time of the harness is made of; separate packages compile in parallel
					file := m.Pkg + "_applicative"
					if kind == "Chain" {
						switch {
						case n == 9:
							file = m.Pkg + "_chain9"
						case n == 8:
							file = m.Pkg + "_chain8"
						case n >= 6:
							file = m.Pkg + "_chain67"
						default:
							file = m.Pkg + "_chain15"
						}
					}
					add(&site{File: file, Family: m.Pkg + "." + kind, Member: num(m.Pkg+"."+kind, n), Sub: v, Tmpl: "m_builder",
						N: n, TP: n, NV: n, M: m, Kind: kind, Call: num(m.Pkg+"."+kind, n), Steps: steps})
				}
			}
		}
	}
	// type-class instances of tuples
	for n := 1; n <= maxProduct; n++ {
		add(&site{File: "tc_eq", Family: "eq.Tuple", Member: num("eq.Tuple", n), Tmpl: "tc_eq", N: n, TP: n, NV: n, NU: n})
		add(&site{File: "tc_ord", Family: "ord.Tuple", Member: num("ord.Tuple", n), Tmpl: "tc_ord", N: n, TP: n, NV: n, NU: n})
		add(&site{File: "tc_hash", Family: "hash.Tuple", Member: num("hash.Tuple", n), Tmpl: "tc_hash", N: n, TP: n, NV: n, NU: n})
		if n >= 2 {
			add(&site{File: "tc_monoid_clone", Family: "monoid.Tuple", Member: num("monoid.Tuple", n), Tmpl: "tc_monoid", N: n, TP: n, NV: n, NU: n})
			add(&site{File: "tc_monoid_clone", Family: "clone.Tuple", Member: num("clone.Tuple", n), Tmpl: "tc_clone", N: n, TP: n, NV: n})
		}
	}
	return out
}

var importsOf = map[string][]string{
	"fmt":     {"fmt."},
	"fp":      {"fp."},
	"as":      {"as."},
	"curried": {"curried."},
	"hlist":   {"hlist."},
	"product": {"product."},
	"fn1":     {"fn1."},
	"unit":    {"unit."},
	"option":  {"option."},
	"try":     {"try."},
	"future":  {"future."},
	"eq":      {"eq."},
	"ord":     {"ord."},
	"hash":    {"hash."},
	"monoid":  {"monoid."},
	"clone":   {"clone."},
}

func header(pkg string, dotRT bool, body string) string {
	var b strings.Builder
	fmt.Fprintf(&b, "// Code generated by verif/c14/gen; DO NOT EDIT.\n\npackage %s\n\nimport (\n", pkg)
	if dotRT {
		b.WriteString("\t. \"verif/c14/rt\"\n\n")
	}
	var names []string
	for n := range importsOf {
		names = append(names, n)
	}
	sort.Strings(names)
	for _, n := range names {
		used := false
		for _, tok := range importsOf[n] {
			// a package qualifier is preceded by a non-identifier character
			idx := 0
			for {
				j := strings.Index(body[idx:], tok)
				if j < 0 {
					break
				}
				j += idx
				if j == 0 || (!isIdent(body[j-1]) && body[j-1] != '"') {
					used = true
					break
				}
				idx = j + len(tok)
			}
		}
		if !used {
			continue
		}
		switch n {
		case "fmt":
			b.WriteString("\t\"fmt\"\n")
		case "fp":
			b.WriteString("\t\"github.com/csgura/fp\"\n")
		default:
			fmt.Fprintf(&b, "\t\"github.com/csgura/fp/%s\"\n", n)
		}
	}
	b.WriteString(")\n")
	return b.String()
}

func isIdent(c byte) bool {
	return c == '_' || c == '.' || (c >= 'a' && c <= 'z') || (c >= 'A' && c <= 'Z') || (c >= '0' && c <= '9')
}

func write(path, src string) {
	out, err := format.Source([]byte(src))
	if err != nil {
		os.WriteFile(path+".broken", []byte(src), 0o644)
		fmt.Fprintf(os.Stderr, "gofmt %s: %v (source kept as %s.broken)\n", path, err, path)
		os.Exit(1)
	}
	os.MkdirAll(filepath.Dir(path), 0o755)
	if err := os.WriteFile(path, out, 0o644); err != nil {
		fmt.Fprintln(os.Stderr, err)
		os.Exit(1)
	}
}

func main() {
	dir := flag.String("out", "c14", "output directory (the c14 package directory)")
	list := flag.Bool("list", false, "print the (family, member, positions) index set and exit")
	flag.Parse()
	sites := buildSites()
	if *list {
		seen := map[string]bool{}
		for _, s := range sites {
			if !seen[s.Member] {
				seen[s.Member] = true
				fmt.Printf("%s\t%s\t%d\n", s.Family, s.Member, s.Pos)
			}
		}
		return
	}
	tm := template.Must(template.New("bodies").Funcs(funcs).Parse(bodies))
	sup := template.Must(template.New("support").Funcs(funcs).Parse(supportTmpl))
	os.RemoveAll(filepath.Join(*dir, "sites"))
	os.Remove(filepath.Join(*dir, "rt", "zz_support.go"))
	os.Remove(filepath.Join(*dir, "zz_imports.go"))
	var sb bytes.Buffer
	if err := sup.Execute(&sb, nil); err != nil {
		panic(err)
	}
	write(filepath.Join(*dir, "rt", "zz_support.go"), header("rt", false, sb.String())+sb.String())
	files := map[string]*bytes.Buffer{}
	regs := map[string]*bytes.Buffer{}
	var order []string
	for _, s := range sites {
		b := files[s.File]
		if b == nil {
			b = &bytes.Buffer{}
			files[s.File] = b
			regs[s.File] = &bytes.Buffer{}
			order = append(order, s.File)
		}
		if err := tm.ExecuteTemplate(b, s.Tmpl, s); err != nil {
			panic(fmt.Sprintf("%s: %v", s.Member, err))
		}
		fmt.Fprintf(regs[s.File], "\tReg(%q, %q, %d, %s%s, %s%s)\n", s.Family, s.Member, s.Pos, s.Fn(), instT(s.TP), s.Fn(), instS(s.TP))
	}
	sort.Strings(order)
	var imp strings.Builder
	imp.WriteString("// Code generated by verif/c14/gen; DO NOT EDIT.\n\npackage main\n\n// the generated call-site packages register themselves in rt.Sites\nimport (\n")
	for _, f := range order {
		body := files[f].String() + "\nfunc init() {\n" + regs[f].String() + "}\n"
		write(filepath.Join(*dir, "sites", f, "zz_"+f+".go"), header("sites_"+f, true, body)+body)
		fmt.Fprintf(&imp, "\t_ \"verif/c14/sites/%s\"\n", f)
	}
	imp.WriteString(")\n")
	write(filepath.Join(*dir, "zz_imports.go"), imp.String())
	fmt.Printf("generated %d call sites in %d packages\n", len(sites), len(order))
}
