// C14 — arity-indexed families compute their defining equation at every arity.
//
// The call sites live in the generated packages ./sites/<group>/ (generator: ./gen,
// text/template; run `go run ./c14/gen` from /verif to regenerate — the check itself never
// generates; the groups are separate packages only so that `go build` compiles them in
// parallel), the hand-written runtime in ./rt. Every site is a generic function over type
// parameters A1..An; its registration line instantiates it twice: with pairwise distinct
// types taken from T1..T22 ("must compile": every library
// member is instantiated at n distinct types, and the explicit instantiation of the
// observers forces each result position to have exactly the expected type) and with the
// single type S at every position, where only the position-tagged *values* tell the
// arguments apart (reordering / duplication / dropping become observable at run time).
// The expected result next to each call is written out by the generator (argument lists in
// source order); it never goes through an arity-indexed library function.
//
// Every site is two-phase: it constructs (the curried function, the lifted function, the
// builder, the type-class instance) and registers its observations with c.Obs. A case
// constructs TWO generations of the site for the same type arguments (other values, other
// recording function, other component instances) before observing either (instance identity:
// rt.Cur, <member>/instance-identity), and the observations fork every partial application at
// every level (rt.Fork, rt.Fork1..9: <member>/forked-partial-application).
//
// Nil / zero argument values: the sites never convert between strings and argument types
// themselves; values are created by rt.Mk / rt.MkY / rt.MkS and read back by rt.Rd (rt/nilable.go).
// Every site of a family whose defining equation does not inspect the argument values (all but
// eq/ord/hash/monoid/clone TupleN) is registered a third time (RegNil, "nilable-types"
// instantiation) with nil-able types spread over the positions (slice, map, pointer, func,
// error, any, a named interface) and, up to three type parameters, a fourth time ("zero-types":
// struct, string, int, bool). These registrations run in the batches nBatches..2*nBatches-1,
// appended after the batches of the two older instantiations; a per-case mask decides which
// positions carry nil / the zero value (runNilCase: <member>/nil-argument).
package main

import (
	"fmt"
	"runtime/debug"
	"sort"
	"strings"

	"verif/c14/rt"
	"verif/vrt"

	"github.com/csgura/fp"
)

var sites []rt.Site

// nilSites: the nilable-types registrations (batches nBatches..2*nBatches-1, appended after the
// batches of the two older instantiations, whose PRNG streams therefore do not move).
var nilSites []rt.NilSite

func init() {
	// the generated packages registered their sites in their init functions (package
	// initialisation order is fixed by the import paths); order them by family
	sites = append(sites, rt.Sites...)
	sort.SliceStable(sites, func(i, j int) bool { return sites[i].Family < sites[j].Family })
	nilSites = append(nilSites, rt.NilSites...)
	sort.SliceStable(nilSites, func(i, j int) bool {
		a, b := nilSites[i], nilSites[j]
		if a.Family != b.Family {
			return a.Family < b.Family
		}
		if a.Member != b.Member {
			return a.Member < b.Member
		}
		if a.Sub != b.Sub {
			return a.Sub < b.Sub
		}
		return a.Inst < b.Inst
	})
}

const nBatches = 16

func batchSites(b int) []int {
	var out []int
	for i := range sites {
		if i%nBatches == b {
			out = append(out, i)
		}
	}
	return out
}

func assignments(tier string) int {
	if tier == "thorough" {
		return 256
	}
	return 16
}

// genTwo derives generation 2 of a case from generation 1: other values at every position
// (so that an argument or component observation that crosses over is visible), the same
// equal / smaller / greater relation between the two operands.
func genTwo(c1 *rt.Cx) *rt.Cx {
	c2 := &rt.Cx{W: c1.W, Idx: c1.Idx, Variant: c1.Variant, Gen: 2, Bias: c1.Bias, ForkSeed: c1.ForkSeed + 1}
	for k := 1; k <= rt.MaxPos; k++ {
		c2.V[k] = c1.V[k] + "#2"
		c2.U[k] = c1.U[k] + "#2"
		c2.Y[k] = c2.V[k] + "'"
	}
	c2.TagV, c2.TagY = c2.V, c2.Y
	c1.Other, c2.Other = c2, c1
	return c2
}

// ---- nil / zero argument values (nilable-types instantiation) -------------------------------

func nilBatchSites(b int) []int {
	var out []int
	for i := range nilSites {
		if i%nBatches == b-nBatches {
			out = append(out, i)
		}
	}
	return out
}

// nilRandom: PRNG masks per call site after the enumerated ones.
func nilRandom(tier string) int {
	if tier == "thorough" {
		return 96
	}
	return 6
}

// nilCases: cases of one nilable call site with p value positions: no position nil, every
// position nil, exactly position 1..p nil, then PRNG subsets.
func nilCases(tier string, p int) int { return 2 + p + nilRandom(tier) }

// nilLocate maps case i of a nil batch to (call site, assignment j).
func nilLocate(tier string, mine []int, i int) (*rt.NilSite, int) {
	for _, si := range mine {
		st := &nilSites[si]
		n := nilCases(tier, len(st.Kinds))
		if i < n {
			return st, i
		}
		i -= n
	}
	panic("case index beyond the batch")
}

func shiftMask(z [rt.MaxPos + 1]bool, p int) (out [rt.MaxPos + 1]bool) {
	for k := 1; k <= p; k++ {
		if z[k] {
			out[k%p+1] = true
		}
	}
	return out
}

func countMask(z [rt.MaxPos + 1]bool) (n int) {
	for _, b := range z {
		if b {
			n++
		}
	}
	return n
}

// runNilCase: one case of the nilable-types instantiation. The site is instantiated with
// nil-able / zero-able types (st.Kinds); the mask of the case decides which positions carry
// nil / the zero value, every other position a value carrying its position tag. Two
// constructions interleaved exactly as in runCase; construction 2 carries the mask shifted by
// one position.
func runNilCase(w *vrt.W, mine []int, i int) {
	st, j := nilLocate(w.Tier, mine, i)
	r := w.Rand(i)
	p := len(st.Kinds)
	c := &rt.Cx{W: w, Idx: i, Variant: st.Inst, Gen: 1, ForkSeed: j, Nilable: true, Kinds: st.Kinds, Sub: st.Sub}
	what := ""
	switch {
	case j == 0:
		what = "no_position_nil"
	case j == 1:
		what = "every_position_nil"
		for k := 1; k <= p; k++ {
			c.ZV[k], c.ZY[k] = true, true
		}
	case j <= p+1:
		// exactly position j-1; the fork alternatives carry no nil (odd j) or nil at the next position
		what = "exactly_one_position_nil"
		c.ZV[j-1] = true
		if j%2 == 0 {
			c.ZY[(j-1)%p+1] = true
		}
	default:
		what = "random_positions_nil"
		den := 2 + r.IntN(3)
		for k := 1; k <= p; k++ {
			c.ZV[k] = r.IntN(den) == 0
			c.ZY[k] = r.IntN(den) == 0
		}
		if countMask(c.ZV) == 0 {
			c.ZV[1+r.IntN(p)] = true
		}
	}
	for k := 1; k <= rt.MaxPos; k++ {
		if j == 0 {
			c.TagV[k] = fmt.Sprintf("a%d", k)
		} else {
			c.TagV[k] = fmt.Sprintf("a%d_%04x", k, r.Uint32()&0xffff)
		}
		c.TagY[k] = c.TagV[k] + "'"
	}
	c2 := &rt.Cx{W: w, Idx: i, Variant: c.Variant, Gen: 2, ForkSeed: j + 1, Nilable: true, Kinds: st.Kinds, Sub: st.Sub}
	c2.ZV, c2.ZY = shiftMask(c.ZV, p), shiftMask(c.ZY, p)
	for k := 1; k <= rt.MaxPos; k++ {
		c2.TagV[k] = c.TagV[k] + "#2"
		c2.TagY[k] = c2.TagV[k] + "'"
	}
	c.Other, c2.Other = c2, c
	render := func(g *rt.Cx) {
		g.NNil, g.NNilY = countMask(g.ZV), countMask(g.ZY)
		for k := 1; k <= p; k++ {
			g.V[k] = rt.Render(st.Kinds[k-1], g.TagV[k], g.ZV[k])
			g.Y[k] = rt.Render(st.Kinds[k-1], g.TagY[k], g.ZY[k])
		}
	}
	render(c)
	render(c2)
	// a failed check of a case with a non-empty mask is held back until the control (below) ran
	hold := j != 0
	c.Hold, c2.Hold = hold, hold
	first, second := c, c2
	if j%2 == 1 {
		first, second = c2, c
	}
	o1, o2 := first, second
	if (j/2)%2 == 1 {
		o1, o2 = second, first
	}
	// both (construct first, second; observe o1, o2, o1); with catch, an unexpected panic is
	// returned instead of propagated (a logical-budget panic always propagates)
	both := func(first, second, o1, o2 *rt.Cx, catch bool) (pan any, stack string) {
		if catch {
			defer func() {
				if r := recover(); r != nil {
					if _, isB := r.(vrt.BudgetExceeded); isB {
						panic(r)
					}
					pan, stack = r, string(debug.Stack())
					if len(stack) > 3000 {
						stack = stack[:3000]
					}
				}
			}()
		}
		rt.ResetCase()
		first.Run(func() { st.Fn(first) })
		second.Run(func() { st.Fn(second) })
		o1.Run(o1.Observe)
		o2.Run(o2.Observe)
		o1.Run(o1.Observe)
		return nil, ""
	}
	// control: the same case (types, tags, orders) with a non-nil, non-zero value everywhere -
	// except at bool positions, which keep the value they had: a bool cannot carry a tag, so
	// true / false is the only way two bool arguments (value and fork alternative) can differ,
	// and a break that has nothing to do with nil must show in the control as well
	control := func() (fails map[string]bool, panicked bool) {
		k1 := &rt.Cx{W: w, Idx: i, Variant: c.Variant, Gen: 1, ForkSeed: c.ForkSeed, Nilable: true, Kinds: st.Kinds, Sub: st.Sub, Hold: true, TagV: c.TagV, TagY: c.TagY}
		k2 := &rt.Cx{W: w, Idx: i, Variant: c.Variant, Gen: 2, ForkSeed: c2.ForkSeed, Nilable: true, Kinds: st.Kinds, Sub: st.Sub, Hold: true, TagV: c2.TagV, TagY: c2.TagY}
		k1.Other, k2.Other = k2, k1
		for k := 1; k <= p; k++ {
			if st.Kinds[k-1] == 'b' {
				k1.ZV[k], k1.ZY[k], k2.ZV[k], k2.ZY[k] = c.ZV[k], c.ZY[k], c2.ZV[k], c2.ZY[k]
			}
		}
		render(k1)
		render(k2)
		of := map[*rt.Cx]*rt.Cx{c: k1, c2: k2}
		pan, _ := both(of[first], of[second], of[o1], of[o2], true)
		fails = map[string]bool{}
		for _, g := range []*rt.Cx{k1, k2} {
			for _, h := range g.Held {
				fails[h.What] = true
			}
		}
		w.Add("nil.control_cases_run", 1)
		return fails, pan != nil
	}
	witness := func() any {
		return map[string]any{"member": st.Member, "builder_methods": st.Sub, "instantiation": c.Variant, "mask": what,
			"constructed": []int{first.Gen, second.Gen}, "observed": []int{o1.Gen, o2.Gen, o1.Gen},
			"construction_1": c.Witness(), "construction_2": c2.Witness()}
	}
	w.Begin(i, st.Member)
	w.Guard(i, witness, func() {
		pan, stack := both(first, second, o1, o2, hold)
		if pan == nil && len(c.Held)+len(c2.Held) == 0 {
			return
		}
		// something failed while some argument was nil: is the nil needed?
		fails, cpan := control()
		if pan != nil {
			if cpan {
				panic(pan) // panics without nil as well: <member>/panic
			}
			rt.Cur = nil
			c.ReportNil("panic", fmt.Sprintf("unexpected panic: %v\n%s", pan, stack))
		}
		c.ReportHeld(fails)
		c2.ReportHeld(fails)
	})
	w.Done(i)
	w.Add("nil.cases", 1)
	w.Add("nil.instantiation_cases", 1)
	w.Add("nil.cases."+what, 1)
	w.Add("nil.sites."+st.Family, 1)
	if c.NNilY > 0 {
		w.Add("nil.cases.fork_alternative_nil", 1)
	}
	for _, g := range []*rt.Cx{c, c2} {
		if g.Member != st.Member {
			g.Member = st.Member
			g.Fail("site-table", "the generated site registered itself under another name: harness defect")
		}
	}
	if what == "exactly_one_position_nil" && j == 2+p/2 && w.WantSample() && p >= 3 && r.IntN(8) == 0 {
		w.Sample(map[string]any{"member": st.Member, "builder_methods": st.Sub, "positions": st.N, "instantiation": c.Variant, "values": c.V[1 : p+1],
			"f_received": c.Calls, "observed": c.Checks, "second_construction_values": c2.V[1 : p+1], "g_received": c2.Calls})
	}
}

func runCase(w *vrt.W, mine []int, i int) {
	J := assignments(w.Tier)
	st := &sites[mine[i/(2*J)]]
	variant := (i / J) % 2
	j := i % J
	r := w.Rand(i)
	c := &rt.Cx{W: w, Idx: i, Variant: "distinct-types", Gen: 1, ForkSeed: j}
	if variant == 1 {
		c.Variant = "same-type"
	}
	n := st.N
	if n < 1 {
		n = 1
	}
	// value assignment: position-tagged, so pairwise distinct by construction.
	// The positions whose component instance differs in generation 2 (Bias), and the position at
	// which the two operands first differ, are enumerated for j = 1..min(n,15): position j (and
	// j+15) carries the different instance, the operands differ exactly at / from that position
	// on (distinct-types: j, same-type: j+15 when it exists), so that for every position k of
	// every member the instance given at k decides an observed result. j = 0: plain tagging,
	// equal operands, every position different. Other j: PRNG.
	mode := 0
	p := 1 + r.IntN(n)
	switch {
	case j == 0:
		for k := 1; k <= n; k++ {
			c.Bias[k] = true
		}
	case j <= n && j <= 15:
		c.Bias[j] = true
		p = j
		if j+15 <= n {
			c.Bias[j+15] = true
			if variant == 1 {
				p = j + 15
			}
		}
		// exactly at p (Eq/Hash: the trivial instance at p then decides); from p on for the even
		// j of the distinct-types instantiation where same-type covers the same position
		mode = 1
		if j%2 == 0 && variant == 0 && j+15 > n {
			mode = 4
		}
	default:
		mode = r.IntN(5)
		c.Bias[1+r.IntN(n)] = true
		if r.IntN(3) == 0 {
			c.Bias[p] = true
		}
	}
	for k := 1; k <= rt.MaxPos; k++ {
		if j == 0 {
			c.V[k] = fmt.Sprintf("a%d", k)
		} else {
			c.V[k] = fmt.Sprintf("a%d_%04x", k, r.Uint32()&0xffff)
		}
		differ := false
		switch mode {
		case 1:
			differ = k == p
		case 2:
			differ = r.IntN(2) == 0
		case 3:
			differ = r.IntN(8) == 0
		case 4:
			differ = k >= p
		}
		c.U[k] = c.V[k]
		if differ {
			if r.IntN(2) == 0 {
				c.U[k] = c.V[k] + "+" // greater
			} else {
				c.U[k] = c.V[k][:len(c.V[k])-1] // a proper prefix: smaller
			}
		}
		c.Y[k] = c.V[k] + "'"
	}
	c.TagV, c.TagY = c.V, c.Y
	c2 := genTwo(c)
	// both constructions are made before either is observed; construction order and
	// observation order alternate, the construction observed first is observed again at the end
	first, second := c, c2
	if j%2 == 1 {
		first, second = c2, c
	}
	o1, o2 := first, second
	if (j/2)%2 == 1 {
		o1, o2 = second, first
	}
	site := st.Distinct
	if variant == 1 {
		site = st.Same
	}
	witness := func() any {
		return map[string]any{"member": st.Member, "instantiation": c.Variant,
			"constructed": []int{first.Gen, second.Gen}, "observed": []int{o1.Gen, o2.Gen, o1.Gen},
			"construction_1": c.Witness(), "construction_2": c2.Witness()}
	}
	w.Begin(i, st.Member)
	w.Guard(i, witness, func() {
		first.Run(func() { site(first) })
		second.Run(func() { site(second) })
		o1.Run(o1.Observe)
		o2.Run(o2.Observe)
		o1.Run(o1.Observe)
	})
	w.Done(i)
	w.Add("identity.cases_two_constructions_interleaved", 1)
	w.Add(fmt.Sprintf("identity.constructed_%d%d.observed_%d%d%d", first.Gen, second.Gen, o1.Gen, o2.Gen, o1.Gen), 1)
	w.Max("component_observations_max_per_case", c.NComp+c2.NComp)
	for _, g := range []*rt.Cx{c, c2} {
		if g.Member != st.Member {
			g.Member = st.Member
			g.Fail("site-table", "the generated site registered itself under another name: harness defect")
		}
	}
	if j == 0 && variant == 1 && w.WantSample() && st.N >= 3 && r.IntN(4) == 0 {
		w.Sample(map[string]any{"member": st.Member, "positions": st.N, "instantiation": c.Variant, "values": c.V[1 : st.N+1],
			"f_received": c.Calls, "observed": c.Checks, "second_construction_values": c2.V[1 : st.N+1], "g_received": c2.Calls})
	}
}

func familyNames() []string {
	seen := map[string]bool{}
	var out []string
	for _, s := range sites {
		if !seen[s.Family] {
			seen[s.Family] = true
			out = append(out, s.Family)
		}
	}
	sort.Strings(out)
	return out
}

func nontrivialMembers() int {
	seen := map[string]bool{}
	for _, s := range sites {
		if s.N >= 2 {
			seen[s.Member] = true
		}
	}
	return len(seen)
}

// nilFamilies: the families whose defining equation does not itself inspect the argument
// values; each must have a nilable-types instantiation — written out here independently of the
// generator.
func nilFamilies() []string {
	out := []string{"fp.Tuple(accessors)", "fp.Labelled(accessors)", "as.Tuple", "as.Labelled", "as.HList", "as.HListLabelled", "as.Func", "as.Tupled",
		"as.Supplier", "as.Curried", "as.UnTupled", "curried.Func", "curried.Revert", "curried.Compose", "curried.Flip", "curried.FlipApply", "curried.SlipL",
		"hlist.Of", "hlist.Case", "hlist.Lift", "hlist.Rift", "hlist.Reverse", "product.TupleFromHList", "product.LabelledFromHList", "product.Tuple",
		"product.Lift", "product.Flatten", "fp.Compose", "fp.Func.ApplyFirst", "fp.Func.ApplyLast", "fp.Id", "fn1.Merge", "unit.Func",
		"try.Func", "future.Func", "try.Curried", "future.Map"}
	for _, m := range []string{"option", "try", "future"} {
		for _, f := range []string{"LiftA", "LiftM", "Flap", "Method", "FlatMethod", "Applicative", "Chain"} {
			out = append(out, m+"."+f)
		}
	}
	for _, m := range []string{"option", "try"} {
		for _, f := range []string{"Map", "FlatMap"} {
			out = append(out, m+"."+f)
		}
	}
	return out
}

var nilKinds = []string{"slice", "map", "ptr", "func", "error", "any", "iface", "struct", "string", "int", "bool"}

// forkFamilies: the families whose members return something that can be applied more than
// once (curried functions, partial applications, lifted functions, builders); each must have
// been forked (rt.Fork) — written out here independently of the generator.
func forkFamilies() []string {
	out := []string{"curried.Func", "curried.Flip", "curried.FlipApply", "curried.SlipL", "curried.Compose", "curried.Revert",
		"as.Curried", "as.Func", "as.UnTupled", "as.Tupled", "as.Supplier", "fp.Func.ApplyFirst", "fp.Func.ApplyLast",
		"hlist.Lift", "hlist.Rift", "product.Lift", "unit.Func", "try.Curried", "try.Func", "future.Func"}
	for _, m := range []string{"option", "try", "future"} {
		for _, f := range []string{"LiftA", "LiftM", "Flap", "Method", "FlatMethod", "Applicative", "Chain"} {
			out = append(out, m+"."+f)
		}
	}
	return out
}

func main() {
	vrt.Main(vrt.Config{
		Property: "C14",
		Batches:  func(string) int { return 2 * nBatches },
		Cases: func(tier string, b int) int {
			if b >= nBatches {
				n := 0
				for _, si := range nilBatchSites(b) {
					n += nilCases(tier, len(nilSites[si].Kinds))
				}
				return n
			}
			return len(batchSites(b)) * 2 * assignments(tier)
		},
		Run: func(w *vrt.W) {
			fp.VerifSetSpawn(func(task func()) {
				if rt.Cur != nil {
					rt.Cur.Tasks = append(rt.Cur.Tasks, task)
				} else {
					task()
				}
			})
			// one Compare of ord.Tuple21 consults its component instances up to 7.3 million times
			// (about 3.5 * 2^p for operands that first differ at position p); 2^27 is far above
			// that, an observation beyond it would be abandoned and counted, not judged
			rt.ObsBudget = 1 << 27
			if w.Batch >= nBatches {
				mine := nilBatchSites(w.Batch)
				for i := w.From; i < w.To; i++ {
					runNilCase(w, mine, i)
				}
				return
			}
			mine := batchSites(w.Batch)
			for i := w.From; i < w.To; i++ {
				runCase(w, mine, i)
			}
		},
		Exhaustive:    func(string) bool { return true },
		CaseCPUBudget: 120,
		Rule:          "index set = every generated call site, i.e. every (family, arity) member the library exports for the families of C14 (list: coverage.pairs_executed; the generator ./c14/gen enumerates the arity ranges genfp.MaxFunc / MaxProduct / MaxCompose give: 0/1/2..9 function families, 1/2..21 product families, 2..5 fp.Compose). case = (call site, instantiation, value assignment): instantiation is 'distinct-types' (A1..An := the last n of the pairwise distinct named types T1..T22) or 'same-type' (every Ai := S); value assignment j=0 is the plain tagging a1..an, j>0 draws a PRNG suffix per position (values stay position-tagged, hence pairwise distinct) plus, for the Eq/Ord/Hash/Monoid families, a second operand that differs from the first at none / one / a random subset / a suffix of the positions. The expected value next to each call is written out by the generator; the function argument f records the argument vector it received (every call must carry exactly the wanted vector, at least one call). The arity dimension is enumerated completely (exhaustive refers to this finite index set, not to the values). distinct_nontrivial = number of distinct members with at least 2 argument positions whose call site ran (each site registers itself when it executes). INSTANCE IDENTITY: every case runs its site twice (constructions 1 and 2) for the same type arguments, with other values, another recording function (f(..) / g(..), f<k> / g<k> for compositions) and other component instances; both are constructed before either is observed, construction order and observation order alternate with j (all four combinations), the construction observed first is observed again at the end. A recording function or component instance consulted while ANOTHER construction is observed is a violation (<member>/instance-identity), as is an instance that answers for all-equal operands without consulting every component it was given. For eq/ord/hash/monoid/clone TupleN construction 2 carries at chosen positions an instance that BEHAVES differently (Ord reversed, Eq/Hashable trivial with constant hash, Monoid/Clone differently tagged and combining the other way round); the reference is computed from the instances given to that construction. j=0: every position different, equal operands; j=1..min(n,15): position j (and j+15) different and the operands differ exactly at position j (distinct-types; from position j on for even j when n < j+15) or exactly at j+15, else j (same-type), so that every position of every member decides an observed result (identity.member_positions_decided.<family> = sum of arities). FORKS: every member that returns something applicable more than once is forked: curried results (curried.FuncN/FlipN/SlipLN/ComposeN, as.CurriedN, try.CurriedN, option/try/future FlapN) at EVERY application level L = 1..N (from the partial application of x1..x(L-1) two continuations p(xL), p(yL) are derived, both before either is finished with its own remaining arguments), Applicative/Chain builders at every stage (b.M(a_L) and b.M(y_L) from one builder prefix, both completed with the same methods), FlipApplyN / ApplyFirstN / ApplyLastN / MethodN / FlatMethodN / SupplierN as two partial applications of one function crossed with two last arguments, and lifted / converted functions (as.FuncN, UnTupledN, Tupled2, RevertN, hlist.LiftN/RiftN, product.LiftN, LiftAN/LiftMN, try/future FuncN, unit.FuncN, fp.ComposeN, fn1.MergeN) as one constructed function applied to two argument vectors; the two continuations are finished in both orders (alternating), each must equal the defining equation for its own argument vector and f must have received exactly these two vectors (<member>/forked-partial-application). NIL / ZERO ARGUMENT VALUES: every call site of a family whose defining equation does not itself inspect the argument values (TupleN/LabelledN accessors; as.*, curried.*, hlist.*, product.*, fp.Compose/ApplyFirst/ApplyLast/Id, fn1.Merge, unit.Func; option/try/future LiftA/LiftM/Map/FlatMap/Flap/Method/FlatMethod/Func/Curried; the Applicative builders at every arity, the Chain builders at arity 9 (one chain per builder method plus the mixed one: every method of MonadChainK, K = 9..1) and 1..3; below arity 9 an additional all-Ap chain, Ap being the method that hands the plain VALUE to the library) has a further instantiation 'nilable-types' and, when it has at most three type parameters and is no builder, a 'zero-types' one (coverage.nil_instantiation_registrations; batches 16..31, appended so that the cases of the two older instantiations are unchanged). nilable-types: the type arguments are nil-able types, an interface type (error, any, a named interface; Labelled families: the named interface) at every other slot and []string / map[string]string / *struct / func() string between them - a nil interface is nil for `any(v) == nil`, for reflection-based nil checks (option.Of) and for zero-value checks alike, the other kinds for the reflection-based ones; slots are right-aligned per arity (tails shared), rotated per package and family and shifted by one from arity 6 on, so that interface and non-interface kinds reach a position both when it is counted from the front and from the end. zero-types: struct, string, int, bool rotating over the positions. coverage.nil_kinds_by_position lists the kinds that were nil / zero at each position (floors: every nil-able kind at 1..9, every zero-able kind at 1..3). case = (registration, mask): no position nil (control), every position nil, exactly position p nil for every value position p in turn (fork alternatives: none nil / the next position nil, alternating), then PRNG subsets (6 quick / 96 thorough) for values and, independently, fork alternatives; construction 2 carries the masks shifted by one position. A position in the mask carries nil (slice, map, pointer, func, interfaces) or the zero value (struct, string, int 0, false), any other position a value carrying the position tag ([]string{tag}, map{tag}, &box{tag, self pointer}, func returning tag, error / boxed any / interface value with the tag, struct{tag}, string tag, a fresh int registered with the tag; bool: true). Values are read back as '<kind>:<tag>' / 'nil:<kind>' / 'zero:<kind>' (a pointer that is not the one handed out reads 'ptr(another address)', accessors also compare pointer identity), so a nil that moved, vanished or appeared, and a neighbour that changed, show in the argument vector the recording function received and in every result. The expectation is the same defining expression as for the other instantiations (e.g. option.ApplicativeN(f).Ap(nil)... = Some(f(..nil..)); compositions / merges: a step whose result position is in the mask returns nil). A failed check (or panic) of a case with a non-empty mask is held back and the same case is run again with a non-nil, non-zero value at every position (same types, tags and orders; bool positions keep their value, a bool carries no tag): if that control fails the same check, the failure is no matter of nil and is reported under the general key (<member>/result, /f-arguments, /forked-partial-application, ...); if only the case with nil fails it is reported as <member>/nil-argument.",
		Assumptions: []string{
			"values are sampled (16 assignments per site and instantiation in quick, 256 in thorough); only the (family, arity) index set is exhaustive",
			"futures are observed after running every task the default executors scheduled (spawn hook fp.VerifSetSpawn, FIFO); inputs are already-completed futures",
			"hlist.Head/Tail/Concat/Empty, fp.Some/Success, future.Successful, Option/Try/Future accessors, fp.LessFunc and struct literals of fp.TupleN/LabelledN are trusted observers/constructors (none is arity-generated except the struct types themselves)",
			"Hash of a tuple is only required to consult every component instance with its own component and to agree with Eqv; the mixing formula is not fixed by the oracle",
			"ord.TupleN needs about 3.5*2^p component comparisons when the operands first differ at position p (a cost defect, not part of C14); observations are run under a logical budget of 2^27 component observations and would be abandoned and counted (ord.observations_abandoned_budget) beyond it",
			"by parametricity the distinct-types instantiation cannot reorder at run time; it is kept because it is the instantiation in which the generated library text must type-check position by position",
			"two constructions per case and type instantiation, interleaved in all four (construction, observation) orders; a member whose behaviour depends on a longer history (three or more constructions, or constructions for OTHER type arguments) is outside what is observed",
			"forks are binary (two continuations per level, finished in both orders, one level at a time); builder chains are forked at every stage with the chain's own methods; futures are completed ones and their tasks run FIFO per construction",
			"nil / zero argument values: fp.Some / fp.Success / future.Successful / struct literals / hlist.Concat are trusted to carry a nil payload unchanged (they are the constructors of the inputs); the type-class families eq/ord/hash/monoid/clone TupleN keep string-kinded arguments (their defining equation consults the component instances with the values); the Chain builders of arity 4..8 have no nilable-types instantiation (ChainN(f) takes no argument value and every method of MonadChain8..1 lies on the arity-9 chains; each further arity costs 10..30 CPU-s of compile time); TupleN/LabelledN.String() is compared with fmt %v of the same values (pointers and funcs print their address); a bool position cannot carry a tag (true / false only); the kind of a position is fixed per call site (types are compile-time): a break confined to one member AND one position AND one style of nil check is seen only if that position of that member carries a kind the check answers to (an interface kind answers to all of them: 1 of 2 positions, and every position of every family counted from either end over the arities); zero-able kinds (struct, string, int, bool) are instantiated up to three type parameters only, builders not at all",
		},
		Floors: func(tier string) map[string]int64 {
			fl := map[string]int64{"distinct": int64(nontrivialMembers()), "sites.distinct-types": int64(len(sites)), "sites.same-type": int64(len(sites))}
			perFamily := map[string]int64{}
			for _, s := range sites {
				perFamily[s.Family]++
			}
			for _, f := range familyNames() {
				fl["hit."+f] = 1
			}
			// instance identity: every case constructs its member twice for the same type arguments
			// before observing either; all four (construction order, observation order) combinations
			fl["identity.cases_two_constructions_interleaved"] = int64(2 * len(sites))
			for _, o := range []string{"constructed_12.observed_121", "constructed_21.observed_212", "constructed_12.observed_212", "constructed_21.observed_121"} {
				fl["identity."+o] = int64(len(sites))
			}
			// ... and for the type-class families the differently-behaving component instance decided
			// an observed result at every position of every member (sum of the arities)
			for _, f := range []string{"eq.Tuple", "ord.Tuple", "hash.Tuple", "monoid.Tuple", "clone.Tuple"} {
				var sum int64
				seen := map[string]bool{}
				for _, s := range sites {
					if s.Family == f && !seen[s.Member] {
						seen[s.Member] = true
						sum += int64(s.N)
					}
				}
				fl["identity.member_positions_decided."+f] = sum
			}
			// persistence of partial applications: every partially-applicable family forked
			for _, f := range forkFamilies() {
				if perFamily[f] == 0 {
					fl["fork."+f+"(family-not-generated)"] = 1
					continue
				}
				fl["fork."+f] = perFamily[f]
			}
			fl["fork.below_first_level"] = 1000
			fl["fork.order.first_finished_first"] = 1000
			fl["fork.order.second_finished_first"] = 1000
			// nil / zero argument values: every nilable call site ran every enumerated mask; per family
			// a case with nil at exactly position p was constructed for every value position p of
			// every call site; every kind was created nil and non-nil, and nil at each of the
			// positions 1..9; the recording functions received nil arguments; forks carried nil
			var nCases, nPos int64
			famPos, famCases := map[string]int64{}, map[string]int64{}
			for _, s := range nilSites {
				p := int64(len(s.Kinds))
				nCases += int64(nilCases(tier, len(s.Kinds)))
				nPos += p
				famPos[s.Family] += p
				famCases[s.Family] += int64(nilCases(tier, len(s.Kinds)))
			}
			fl["nil.instantiation_cases"] = nCases
			fl["nil.cases"] = nCases
			fl["nil.cases.no_position_nil"] = int64(len(nilSites))
			fl["nil.cases.every_position_nil"] = int64(len(nilSites))
			fl["nil.cases.exactly_one_position_nil"] = nPos
			fl["nil.cases.random_positions_nil"] = int64(len(nilSites) * nilRandom(tier))
			fl["nil.cases.fork_alternative_nil"] = int64(len(nilSites))
			for _, f := range nilFamilies() {
				if famPos[f] == 0 {
					fl["nil.member_positions."+f+"(family-has-no-nilable-instantiation)"] = 1
					continue
				}
				fl["nil.member_positions."+f] = famPos[f]
				fl["nil.sites."+f] = famCases[f]
			}
			for _, k := range nilKinds {
				// the nil-able kinds are nil at each of the positions 1..9, the zero-able kinds (only
				// instantiated up to three type parameters) zero at each of the positions 1..3
				top := 9
				fl["nil.kind."+k] = 3000
				fl["nil.kind_nonnil."+k] = 10000
				switch k {
				case "struct", "string", "int", "bool":
					top = 3
					fl["nil.kind."+k] = 500
					fl["nil.kind_nonnil."+k] = 500
				}
				for p := 1; p <= top; p++ {
					fl[fmt.Sprintf("nilkp.%02d.%s", p, k)] = 1
				}
			}
			fl["nil.f_calls_with_nil_argument"] = 10000
			fl["nil.f_calls_with_only_nil_arguments"] = 1000
			fl["nil.f_received_nil_arguments"] = 20000
			fl["nil.results_compared_with_nil_argument"] = 5000
			fl["nil.forks_with_nil"] = 10000
			return fl
		},
		Finish: func(tier string, m *vrt.Merged, cov map[string]any) {
			executed := map[string][]string{}
			nexec, ngen := 0, 0
			missing := []string{}
			seen := map[string]bool{}
			for _, s := range sites {
				if seen[s.Member] {
					continue
				}
				seen[s.Member] = true
				ngen++
				if m.Counters["pair."+s.Member] > 0 {
					executed[s.Family] = append(executed[s.Family], fmt.Sprintf("%s/%d", s.Member, s.N))
					nexec++
				} else {
					missing = append(missing, s.Member)
				}
			}
			kindsAt := map[string][]string{}
			if cs, ok := cov["counters"].(map[string]int64); ok {
				for k := range cs {
					if strings.HasPrefix(k, "pair.") {
						delete(cs, k)
					}
					if strings.HasPrefix(k, "nilkp.") {
						// nilkp.<position>.<kind> -> coverage.nil_kinds_by_position
						parts := strings.SplitN(k, ".", 3)
						kindsAt[parts[1]] = append(kindsAt[parts[1]], parts[2])
						delete(cs, k)
					}
				}
			}
			for _, v := range kindsAt {
				sort.Strings(v)
			}
			cov["nil_kinds_by_position"] = kindsAt
			byInst := map[string]int{}
			for _, s := range nilSites {
				byInst[s.Inst]++
			}
			cov["nil_instantiation_registrations"] = byInst
			cov["nilable_random_masks_per_call_site"] = nilRandom(tier)
			cov["pairs_executed"] = executed
			cov["pairs_executed_count"] = nexec
			cov["pairs_generated_count"] = ngen
			cov["call_sites_generated"] = len(sites)
			cov["pairs_missing"] = missing
			cov["families"] = familyNames()
			cov["assignments_per_site_and_instantiation"] = assignments(tier)
			if len(missing) > 0 {
				cov["exhaustive"] = false
			}
		},
	})
}
