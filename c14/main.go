// C14 — arity-indexed families compute their defining equation at every arity.
//
// The call sites live in the generated packages ./sites/<group>/ (generator: ./gen,
// text/template; run `go run ./c14/gen` from /verif to regenerate — the check itself never
// generates; the groups are separate packages only so that `go build` compiles them in
// parallel), the hand-written runtime in ./rt. Every site is a generic function over type
// parameters A1..An; its registration line instantiates it twice: with pairwise distinct
// types taken from T1..T22 ("must compile": every library
// member is instantiated at n distinct types, and the explicit instantiation of the
// observers forces each result position to have exactly the expected type) and with the
// single type S at every position, where only the position-tagged *values* tell the
// arguments apart (reordering / duplication / dropping become observable at run time).
// The expected result next to each call is written out by the generator (argument lists in
// source order); it never goes through an arity-indexed library function.
package main

import (
	"fmt"
	"sort"
	"strings"

	"verif/c14/rt"
	"verif/vrt"

	"github.com/csgura/fp"
)

var sites []rt.Site

func init() {
	// the generated packages registered their sites in their init functions (package
	// initialisation order is fixed by the import paths); order them by family
	sites = append(sites, rt.Sites...)
	sort.SliceStable(sites, func(i, j int) bool { return sites[i].Family < sites[j].Family })
}

const nBatches = 16

func batchSites(b int) []int {
	var out []int
	for i := range sites {
		if i%nBatches == b {
			out = append(out, i)
		}
	}
	return out
}

func assignments(tier string) int {
	if tier == "thorough" {
		return 256
	}
	return 16
}

func runCase(w *vrt.W, mine []int, i int) {
	J := assignments(w.Tier)
	st := &sites[mine[i/(2*J)]]
	variant := (i / J) % 2
	j := i % J
	r := w.Rand(i)
	c := &rt.Cx{W: w, Idx: i, Variant: "distinct-types"}
	if variant == 1 {
		c.Variant = "same-type"
	}
	n := st.N
	if n < 1 {
		n = 1
	}
	// value assignment: position-tagged, so pairwise distinct by construction
	mode := 0
	p := 1 + r.IntN(n)
	if j > 0 {
		mode = r.IntN(5)
	}
	for k := 1; k <= rt.MaxPos; k++ {
		if j == 0 {
			c.V[k] = fmt.Sprintf("a%d", k)
		} else {
			c.V[k] = fmt.Sprintf("a%d_%04x", k, r.Uint32()&0xffff)
		}
		differ := false
		switch mode {
		case 1:
			differ = k == p
		case 2:
			differ = r.IntN(2) == 0
		case 3:
			differ = r.IntN(8) == 0
		case 4:
			differ = k >= p
		}
		c.U[k] = c.V[k]
		if differ {
			if r.IntN(2) == 0 {
				c.U[k] = c.V[k] + "+" // greater
			} else {
				c.U[k] = c.V[k][:len(c.V[k])-1] // a proper prefix: smaller
			}
		}
	}
	rt.Cur = c
	w.Begin(i, st.Member)
	w.Guard(i, c.Witness, func() {
		if variant == 0 {
			st.Distinct(c)
		} else {
			st.Same(c)
		}
	})
	w.Done(i)
	rt.Cur = nil
	w.Max("component_observations_max_per_case", c.NComp)
	if c.Member != st.Member {
		c.Member = st.Member
		c.Fail("site-table", "the generated site registered itself under another name: harness defect")
	}
	if j == 0 && variant == 1 && w.WantSample() && st.N >= 3 && r.IntN(4) == 0 {
		w.Sample(map[string]any{"member": st.Member, "positions": st.N, "instantiation": c.Variant, "values": c.V[1 : st.N+1],
			"f_received": c.Calls, "observed": c.Checks})
	}
}

func familyNames() []string {
	seen := map[string]bool{}
	var out []string
	for _, s := range sites {
		if !seen[s.Family] {
			seen[s.Family] = true
			out = append(out, s.Family)
		}
	}
	sort.Strings(out)
	return out
}

func nontrivialMembers() int {
	seen := map[string]bool{}
	for _, s := range sites {
		if s.N >= 2 {
			seen[s.Member] = true
		}
	}
	return len(seen)
}

func main() {
	vrt.Main(vrt.Config{
		Property: "C14",
		Batches:  func(string) int { return nBatches },
		Cases: func(tier string, b int) int {
			return len(batchSites(b)) * 2 * assignments(tier)
		},
		Run: func(w *vrt.W) {
			fp.VerifSetSpawn(func(task func()) {
				if rt.Cur != nil {
					rt.Cur.Tasks = append(rt.Cur.Tasks, task)
				} else {
					task()
				}
			})
			// one Compare of ord.Tuple21 consults its component instances up to 7.3 million times
			// (about 3.5 * 2^p for operands that first differ at position p); 2^27 is far above
			// that, an observation beyond it would be abandoned and counted, not judged
			rt.ObsBudget = 1 << 27
			mine := batchSites(w.Batch)
			for i := w.From; i < w.To; i++ {
				runCase(w, mine, i)
			}
		},
		Exhaustive:    func(string) bool { return true },
		CaseCPUBudget: 120,
		Rule:          "index set = every generated call site, i.e. every (family, arity) member the library exports for the families of C14 (list: coverage.pairs_executed; the generator ./c14/gen enumerates the arity ranges genfp.MaxFunc / MaxProduct / MaxCompose give: 0/1/2..9 function families, 1/2..21 product families, 2..5 fp.Compose). case = (call site, instantiation, value assignment): instantiation is 'distinct-types' (A1..An := the last n of the pairwise distinct named types T1..T22) or 'same-type' (every Ai := S); value assignment j=0 is the plain tagging a1..an, j>0 draws a PRNG suffix per position (values stay position-tagged, hence pairwise distinct) plus, for the Eq/Ord/Hash/Monoid families, a second operand that differs from the first at none / one / a random subset / a suffix of the positions. The expected value next to each call is written out by the generator; the function argument f records the argument vector it received (every call must carry exactly the wanted vector, at least one call). The arity dimension is enumerated completely (exhaustive refers to this finite index set, not to the values). distinct_nontrivial = number of distinct members with at least 2 argument positions whose call site ran (each site registers itself when it executes).",
		Assumptions: []string{
			"values are sampled (16 assignments per site and instantiation in quick, 256 in thorough); only the (family, arity) index set is exhaustive",
			"futures are observed after running every task the default executors scheduled (spawn hook fp.VerifSetSpawn, FIFO); inputs are already-completed futures",
			"hlist.Head/Tail/Concat/Empty, fp.Some/Success, future.Successful, Option/Try/Future accessors, fp.LessFunc and struct literals of fp.TupleN/LabelledN are trusted observers/constructors (none is arity-generated except the struct types themselves)",
			"Hash of a tuple is only required to consult every component instance with its own component and to agree with Eqv; the mixing formula is not fixed by the oracle",
			"ord.TupleN needs about 3.5*2^p component comparisons when the operands first differ at position p (a cost defect, not part of C14); observations are run under a logical budget of 2^27 component observations and would be abandoned and counted (ord.observations_abandoned_budget) beyond it",
			"by parametricity the distinct-types instantiation cannot reorder at run time; it is kept because it is the instantiation in which the generated library text must type-check position by position",
		},
		Floors: func(tier string) map[string]int64 {
			fl := map[string]int64{"distinct": int64(nontrivialMembers()), "sites.distinct-types": int64(len(sites)), "sites.same-type": int64(len(sites))}
			for _, f := range familyNames() {
				fl["hit."+f] = 1
			}
			return fl
		},
		Finish: func(tier string, m *vrt.Merged, cov map[string]any) {
			executed := map[string][]string{}
			nexec, ngen := 0, 0
			missing := []string{}
			seen := map[string]bool{}
			for _, s := range sites {
				if seen[s.Member] {
					continue
				}
				seen[s.Member] = true
				ngen++
				if m.Counters["pair."+s.Member] > 0 {
					executed[s.Family] = append(executed[s.Family], fmt.Sprintf("%s/%d", s.Member, s.N))
					nexec++
				} else {
					missing = append(missing, s.Member)
				}
			}
			if cs, ok := cov["counters"].(map[string]int64); ok {
				for k := range cs {
					if strings.HasPrefix(k, "pair.") {
						delete(cs, k)
					}
				}
			}
			cov["pairs_executed"] = executed
			cov["pairs_executed_count"] = nexec
			cov["pairs_generated_count"] = ngen
			cov["call_sites_generated"] = len(sites)
			cov["pairs_missing"] = missing
			cov["families"] = familyNames()
			cov["assignments_per_site_and_instantiation"] = assignments(tier)
			if len(missing) > 0 {
				cov["exhaustive"] = false
			}
		},
	})
}
