// Package rt is the hand-written runtime of the C14 call sites (see ../main.go): the value
// types, the per-case context with its recorders and comparisons, the recording type-class
// instances, the observers of Option/Try/Future and the site table. The generated helper
// generics (TupN, HlN, MkTupN, RecN, CurN, ...) live in zz_support.go next to this file.
package rt

import (
	"fmt"
	"strings"

	"verif/vrt"

	"github.com/csgura/fp"
)

// ---- value types ------------------------------------------------------------------------

// Val is the constraint of every argument type: a string-kinded type (so that the harness
// can tag / read values) that also satisfies fp.Named (needed by the Labelled families).
type Val interface {
	~string
	Name() string
}

// S is the common type of the "one type, position-distinct values" instantiation.
type S string

func (S) Name() string { return "S" }

// Res / Res2 are result types, distinct from every argument type.
type Res string
type Res2 string

// ---- per-case context -------------------------------------------------------------------

const MaxPos = 22

type Cx struct {
	W       *vrt.W
	Idx     int
	Variant string
	V, U    [MaxPos + 1]string // V[k]: value at position k; U[k]: second operand (eq/ord/hash/monoid)

	Family, Member string
	N              int

	Calls    [][]string
	wantVec  []string
	haveWant bool
	seen     [MaxPos + 1]bool // component instance k was consulted by a unary observation (Hash / Clone)
	routeErr string           // first mis-routed component observation
	NComp    int64            // component observations so far
	obsLeft  int64            // logical budget of component observations left for the current observation
	Tasks    []func()
	Checks   []string
	Failed   bool
}

// Cur is the case being executed (single goroutine); used by the future spawn hook.
var Cur *Cx

// Enter is the first statement of every generated call site: the site registers itself.
func (c *Cx) Enter(family, member string, n int) {
	c.Family, c.Member, c.N = family, member, n
	c.obsLeft = ObsBudget
	c.W.Hit(family)
	c.W.Add("pair."+member, 1)
	c.W.Add("sites."+c.Variant, 1)
	if n >= 2 {
		c.W.Distinct(member)
	}
}

func (c *Cx) Witness() any {
	n := c.N
	if n < 1 {
		n = 1
	}
	if n > MaxPos {
		n = MaxPos
	}
	return map[string]any{"member": c.Member, "instantiation": c.Variant, "values": c.V[1 : n+1], "second_operand": c.U[1 : n+1]}
}

func (c *Cx) Fail(what, detail string) {
	c.Failed = true
	c.W.Violation(c.Idx, c.Member+"/"+what, fmt.Sprintf("%s [%s instantiation]: %s", c.Member, c.Variant, detail), c.Witness())
}

func (c *Cx) note(s string) {
	if len(c.Checks) < 12 {
		c.Checks = append(c.Checks, s)
	}
}

func fmtCall(args []string) string { return "f(" + strings.Join(args, "|") + ")" }

// Call is the body of every recording function argument f: it records the argument vector
// it received and returns an injective rendering of it.
func (c *Cx) Call(args ...string) Res {
	c.Calls = append(c.Calls, append([]string(nil), args...))
	return Res(fmtCall(args))
}

// Want declares the argument vector f must receive (written out by the generator in
// source order) and returns the rendering f produces for exactly that vector.
func (c *Cx) Want(args ...string) string {
	c.wantVec = append([]string(nil), args...)
	c.haveWant = true
	return fmtCall(args)
}

func sameVec(a, b []string) bool {
	if len(a) != len(b) {
		return false
	}
	for i := range a {
		if a[i] != b[i] {
			return false
		}
	}
	return true
}

// Called checks the recorded calls of f: at least one, each with exactly the wanted vector.
func (c *Cx) Called() {
	if !c.haveWant {
		return
	}
	if len(c.Calls) == 0 {
		c.Fail("f-not-called", fmt.Sprintf("the function argument was never invoked; expected a call with %v", c.wantVec))
		return
	}
	for _, cl := range c.Calls {
		if !sameVec(cl, c.wantVec) {
			c.Fail("f-arguments", fmt.Sprintf("the function argument received %v, defining equation passes %v", cl, c.wantVec))
			return
		}
	}
}

// Result compares the observed result with the expected one and then checks f's calls.
func (c *Cx) Result(got, want string) {
	c.note("result " + got)
	if got != want {
		c.Fail("result", fmt.Sprintf("result %q, defining equation gives %q", got, want))
	}
	c.Called()
}

func (c *Cx) Eqs(what, got, want string) {
	c.note(what + " " + got)
	if got != want {
		c.Fail(what, fmt.Sprintf("%s = %q, defining equation gives %q", what, got, want))
	}
}

func (c *Cx) Eqb(what string, got, want bool) {
	c.note(fmt.Sprintf("%s %v", what, got))
	if got != want {
		c.Fail(what, fmt.Sprintf("%s = %v, defining equation gives %v", what, got, want))
	}
}

func (c *Cx) Vec(what string, got []string, want ...string) {
	c.note(fmt.Sprintf("%s %v", what, got))
	if !sameVec(got, want) {
		c.Fail(what, fmt.Sprintf("%s = %v, defining equation gives %v", what, got, want))
	}
}

// Eqv compares an observed component with the expected one; both must have the same type
// (compile time) and the same value (run time).
func Eqv[A Val](c *Cx, what string, got, want A) {
	c.Eqs(what, string(got), string(want))
}

// Pair builds a pair by struct literal (input of product.FlattenN).
func Pair[A, B any](a A, b B) fp.Tuple2[A, B] { return fp.Tuple2[A, B]{I1: a, I2: b} }

// Step is the body of the k-th function of a composition / merge.
func (c *Cx) Step(k int, x string) string { return fmt.Sprintf("f%d(%s)", k, x) }

// Prev checks the value a Chain builder hands to the callback of step k (the previous argument).
func (c *Cx) Prev(k int, got, want string) {
	if got != want {
		c.Fail("callback-head", fmt.Sprintf("callback of step %d received %q, the previous argument is %q", k, got, want))
	}
}

// ---- type-class component instances (record where each component value is routed) ------

// ObsBudget bounds the component observations one observation of an Ord[TupleN] may make
// (set per tier by main). ord.TupleN consults its component instances about 2^p times when
// the first operand is the greater one and the operands first differ at position p, so for
// N around 20 a single Compare can take seconds; an observation that exceeds the budget is
// abandoned without a verdict and counted (ord.observations_abandoned_budget).
var ObsBudget int64 = 1 << 40

type obsAbort struct{}

// obs runs one observation under the budget; false = abandoned.
func (c *Cx) obs(f func()) (ok bool) {
	c.obsLeft = ObsBudget
	defer func() {
		c.obsLeft = ObsBudget
		if r := recover(); r != nil {
			if _, is := r.(obsAbort); !is {
				panic(r)
			}
			ok = false
			c.W.Add("ord.observations_abandoned_budget", 1)
		}
	}()
	f()
	c.W.Add("ord.observations", 1)
	return true
}

// comp2 / comp1 are called by the recording instances: instance k may only ever see the values
// of position k (of either operand). The check is done on the spot (O(1) per observation:
// ord.TupleN consults its components exponentially often for some operands).
func (c *Cx) comp2(k int, x, y string) {
	c.NComp++
	if c.obsLeft--; c.obsLeft < 0 {
		panic(obsAbort{})
	}
	if c.routeErr == "" && !((x == c.V[k] || x == c.U[k]) && (y == c.V[k] || y == c.U[k])) {
		c.routeErr = fmt.Sprintf("the instance passed at position %d was applied to (%q, %q); position %d holds %q / %q", k, x, y, k, c.V[k], c.U[k])
	}
}

func (c *Cx) comp1(k int, x string) {
	c.NComp++
	if k >= 1 && k <= MaxPos {
		c.seen[k] = true
	}
	if c.routeErr == "" && !(x == c.V[k] || x == c.U[k]) {
		c.routeErr = fmt.Sprintf("the instance passed at position %d was applied to %q; position %d holds %q / %q", k, x, k, c.V[k], c.U[k])
	}
}

type RecEq[A Val] struct {
	C *Cx
	K int
}

func (r RecEq[A]) Eqv(x, y A) bool {
	r.C.comp2(r.K, string(x), string(y))
	return string(x) == string(y)
}

func RecOrd[A Val](c *Cx, k int) fp.Ord[A] {
	return fp.LessFunc[A](func(x, y A) bool {
		c.comp2(k, string(x), string(y))
		return string(x) < string(y)
	})
}

type RecHash[A Val] struct {
	C *Cx
	K int
}

func (r RecHash[A]) Eqv(x, y A) bool {
	r.C.comp2(r.K, string(x), string(y))
	return string(x) == string(y)
}
func (r RecHash[A]) Hash(x A) uint32 {
	r.C.comp1(r.K, string(x))
	return uint32(vrt.Hash64(fmt.Sprintf("%d#%s", r.K, string(x))))
}

type RecMon[A Val] struct {
	C *Cx
	K int
}

func (r RecMon[A]) Empty() A { return A(fmt.Sprintf("e%d", r.K)) }
func (r RecMon[A]) Combine(x, y A) A {
	return A(fmt.Sprintf("c%d(%s,%s)", r.K, string(x), string(y)))
}

type RecClone[A Val] struct {
	C *Cx
	K int
}

func (r RecClone[A]) Clone(x A) A {
	r.C.comp1(r.K, string(x))
	return A(fmt.Sprintf("k%d(%s)", r.K, string(x)))
}

// expected component results, by position
func (c *Cx) Emp(k int) string { return fmt.Sprintf("e%d", k) }
func (c *Cx) Cmb(k int) string { return fmt.Sprintf("c%d(%s,%s)", k, c.V[k], c.U[k]) }
func (c *Cx) Cln(k int) string { return fmt.Sprintf("k%d(%s)", k, c.V[k]) }

// AllEq / LexLess: the reference for Eq / Ord of an n-tuple, written as plain loops.
func AllEq(a, b []string) bool {
	for i := range a {
		if a[i] != b[i] {
			return false
		}
	}
	return true
}

func LexLess(a, b []string) bool {
	for i := range a {
		if a[i] < b[i] {
			return true
		}
		if a[i] > b[i] {
			return false
		}
	}
	return false
}

func sign(i int) int {
	switch {
	case i < 0:
		return -1
	case i > 0:
		return 1
	}
	return 0
}

// OrdObs compares what an Ord[TupleN] answers with the lexicographic reference.
func (c *Cx) OrdObs(less12, less21, eqv12 func() bool, cmp12 func() int, lessEq12 func() bool, vs, us []string) {
	var b bool
	var i int
	if c.obs(func() { b = less12() }) {
		c.Eqb("Less", b, LexLess(vs, us))
	}
	if c.obs(func() { b = less21() }) {
		c.Eqb("Less-flipped", b, LexLess(us, vs))
	}
	if c.obs(func() { b = eqv12() }) {
		c.Eqb("Eqv", b, AllEq(vs, us))
	}
	if c.obs(func() { i = cmp12() }) {
		want := 0
		if LexLess(vs, us) {
			want = -1
		} else if LexLess(us, vs) {
			want = 1
		}
		c.Eqs("Compare", fmt.Sprint(sign(i)), fmt.Sprint(want))
	}
	if c.obs(func() { b = lessEq12() }) {
		c.Eqb("LessEq", b, !LexLess(us, vs))
	}
}

// Routed reports a mis-routed component observation, if any was seen.
func (c *Cx) Routed() {
	if c.routeErr != "" {
		c.Fail("component-routing", c.routeErr)
		c.routeErr = ""
	}
}

// SawAll checks that every one of the n component instances was consulted (nothing dropped).
func (c *Cx) SawAll(what string, n int) {
	for k := 1; k <= n; k++ {
		if !c.seen[k] {
			c.Fail(what+"-drops-component", fmt.Sprintf("%s never consulted the instance of position %d", what, k))
			return
		}
	}
}

func (c *Cx) ResetComps() { c.seen = [MaxPos + 1]bool{} }

// ---- observers of the monads ------------------------------------------------------------

func OptS(o fp.Option[Res]) string {
	if o.IsDefined() {
		return "Some(" + string(o.Get()) + ")"
	}
	return "None"
}

func TryS(t fp.Try[Res]) string {
	if t.IsSuccess() {
		return "Success(" + string(t.Get()) + ")"
	}
	return fmt.Sprintf("Failure(%v)", t.Failed().Get())
}

// Drain runs every task the default executors handed to the spawn hook, in FIFO order, until
// none is left (tasks may schedule further tasks).
func (c *Cx) Drain() {
	b := vrt.NewBudget(1_000_000, "future tasks scheduled by one call")
	for len(c.Tasks) > 0 {
		b.Tick()
		t := c.Tasks[0]
		c.Tasks = c.Tasks[1:]
		t()
	}
}

func (c *Cx) FutS(f fp.Future[Res]) string {
	c.Drain()
	if !f.IsCompleted() {
		return "NotCompleted"
	}
	return TryS(f.Value())
}

// ---- site table -------------------------------------------------------------------------

type Site struct {
	Family, Member string
	N              int // number of argument positions
	Distinct, Same func(*Cx)
}

var Sites []Site

// Reg is called from the init functions of the generated site packages.
func Reg(family, member string, n int, distinct, same func(*Cx)) {
	Sites = append(Sites, Site{family, member, n, distinct, same})
}
