// Package rt is the hand-written runtime of the C14 call sites (see ../main.go): the value
// types, the per-case context with its recorders and comparisons, the recording type-class
// instances, the observers of Option/Try/Future and the site table. The generated helper
// generics (TupN, HlN, MkTupN, RecN, CurN, ...) live in zz_support.go next to this file, the
// creation / reading of argument values (Mk, Rd) and the nil-able / zero-able palette types of
// the "nilable-types" instantiation in nilable.go.
package rt

import (
	"fmt"
	"strings"

	"verif/vrt"

	"github.com/csgura/fp"
)

// ---- value types ------------------------------------------------------------------------

// Val is the constraint of the argument types of the type-class call sites (eq/ord/hash/monoid/
// clone TupleN, whose recording component instances compare the values as strings): a
// string-kinded type that also satisfies fp.Named. Every other call site is generic over
// `any` (Labelled families: Named) and creates / reads its values through Mk / Rd (nilable.go).
type Val interface {
	~string
	Name() string
}

// S is the common type of the "one type, position-distinct values" instantiation.
type S string

func (S) Name() string { return "S" }

// Res / Res2 are result types, distinct from every argument type.
type Res string
type Res2 string

// ---- per-case context -------------------------------------------------------------------

const MaxPos = 22

type Cx struct {
	W       *vrt.W
	Idx     int
	Variant string
	V, U    [MaxPos + 1]string // V[k]: value at position k; U[k]: second operand (eq/ord/hash/monoid)

	// Every case runs its call site twice ("generations" 1 and 2, one Cx each), for the same
	// type arguments but with different values, different recording functions (rendering
	// f(..) / g(..)) and different component instances: the positions in Bias carry, in
	// generation 2, an instance that behaves differently (Ord reversed, Eq/Hash trivial,
	// Monoid/Clone differently tagged). Both are constructed before either is observed.
	Gen      int
	Y        [MaxPos + 1]string // Y[k]: the alternative argument of position k used by forked applications
	Bias     [MaxPos + 1]bool
	Other    *Cx
	ForkSeed int

	// Nil / zero argument values (nilable.go). TagV / TagY are the position tags the values are
	// created from (Mk / MkY), V / Y their renderings (what Rd gives for the created value); for
	// the string-kinded instantiations both are the same. Nilable: the "nilable-types"
	// instantiation; ZV / ZY: the positions that carry nil / the zero value (value / fork
	// alternative), NNil = number of positions in ZV, Sub = builder sub-variant of the call site.
	TagV, TagY  [MaxPos + 1]string
	ZV, ZY      [MaxPos + 1]bool
	Nilable     bool
	NNil, NNilY int
	Hold        bool       // failed checks are kept in Held instead of being reported
	Held        []HeldFail // (cases with a non-empty nil mask; see ReportHeld)
	Sub         string
	Kinds       string // kind letter of every value position (nilable-types instantiation)

	Family, Member string
	N              int

	Calls     [][]string
	wantVec   []string
	haveWant  bool
	seen      [MaxPos + 1]bool // component instance k was consulted by a unary observation (Hash / Clone)
	routeErr  string           // first mis-routed component observation
	NComp     int64            // component observations so far
	obsLeft   int64            // logical budget of component observations left for the current observation
	Tasks     []func()
	Checks    []string
	Failed    bool
	pending   []func() // observations registered by the site (Obs); run, possibly repeatedly, by Observe
	foreign   string   // a function / component instance that was NOT given to this construction was consulted
	forks     int
	lineStart int
}

// Cur is the generation whose construction or observation is being executed (single
// goroutine); used by the future spawn hook and by the recorders: a recording function or
// component instance that belongs to another Cx and is invoked while Cur runs was not given to
// the construction under observation (instance identity).
var Cur *Cx

// Run executes fn (the site's construction, or its observations) as generation c: tasks the
// default executors schedule meanwhile belong to c and are drained before Run returns.
func (c *Cx) Run(fn func()) {
	prev := Cur
	Cur = c
	defer func() { Cur = prev }()
	fn()
	c.Drain()
	c.flushForeign()
}

// Obs registers an observation of what the site has constructed; it runs after BOTH
// generations have been constructed, in an order chosen by the case, possibly more than once.
func (c *Cx) Obs(f func()) { c.pending = append(c.pending, f) }

// Observe runs the registered observations.
func (c *Cx) Observe() {
	for _, f := range c.pending {
		c.lineStart = len(c.Calls) // the straight-line application comes first in every observation
		f()
	}
}

func (c *Cx) who() string {
	if Cur != nil && Cur.Other == c {
		return fmt.Sprintf("the OTHER construction of this case (generation %d)", c.Gen)
	}
	return "a construction of an earlier case"
}

func (c *Cx) noteForeign(s string) {
	if c.foreign == "" {
		c.foreign = s
	}
}

func (c *Cx) flushForeign() {
	if c.foreign != "" {
		c.Fail("instance-identity", c.foreign)
		c.foreign = ""
	}
}

// Enter is the first statement of every generated call site: the site registers itself.
func (c *Cx) Enter(family, member string, n int) {
	c.Family, c.Member, c.N = family, member, n
	c.obsLeft = ObsBudget
	if c.Gen != 1 {
		return
	}
	c.W.Hit(family)
	c.W.Add("pair."+member, 1)
	c.W.Add("sites."+c.Variant, 1)
	if n >= 2 {
		c.W.Distinct(member)
	}
}

func (c *Cx) Witness() any {
	n := c.N
	if n < 1 {
		n = 1
	}
	if n > MaxPos {
		n = MaxPos
	}
	var bias []int
	for k := 1; k <= n; k++ {
		if c.Bias[k] {
			bias = append(bias, k)
		}
	}
	if c.Nilable {
		var zv, zy []int
		for k := 1; k <= MaxPos; k++ {
			if c.ZV[k] {
				zv = append(zv, k)
			}
			if c.ZY[k] {
				zy = append(zy, k)
			}
		}
		if k := len(c.Kinds); k >= 1 && k <= MaxPos {
			n = k
		}
		kinds := make([]string, 0, n)
		for i := 0; i < len(c.Kinds) && i < n; i++ {
			kinds = append(kinds, KindName(c.Kinds[i]))
		}
		return map[string]any{"member": c.Member, "builder_methods": c.Sub, "instantiation": c.Variant, "generation": c.Gen, "argument_kinds": kinds,
			"values": c.V[1 : n+1], "fork_alternatives": c.Y[1 : n+1], "positions_carrying_nil_or_zero": zv, "fork_alternative_positions_carrying_nil_or_zero": zy}
	}
	return map[string]any{"member": c.Member, "instantiation": c.Variant, "generation": c.Gen, "values": c.V[1 : n+1], "second_operand": c.U[1 : n+1],
		"fork_alternatives": c.Y[1 : n+1], "positions_with_a_different_component_instance": bias}
}

func (c *Cx) Fail(what, detail string) {
	c.Failed = true
	if c.Hold && what != "site-table" {
		// a case with nil / zero arguments: judged by the case once the control (the same case
		// without nil) has been run (ReportHeld)
		if len(c.Held) < 64 {
			c.Held = append(c.Held, HeldFail{what, detail})
		}
		return
	}
	c.W.Violation(c.Idx, c.Member+"/"+what, fmt.Sprintf("%s [%s instantiation, construction %d of 2]: %s", c.Member, c.Variant, c.Gen, detail), c.Witness())
}

func (c *Cx) note(s string) {
	if len(c.Checks) < 12 {
		c.Checks = append(c.Checks, s)
	}
}

// fmtCall renders a call of the recording function of generation gen: f(..) / g(..).
func fmtCall(gen int, args []string) string {
	if gen == 2 {
		return "g(" + strings.Join(args, "|") + ")"
	}
	return "f(" + strings.Join(args, "|") + ")"
}

// Call is the body of every recording function argument f: it records the argument vector
// it received and returns an injective rendering of it.
func (c *Cx) Call(args ...string) Res {
	if Cur != nil && Cur != c {
		Cur.noteForeign(fmt.Sprintf("while this construction was observed, the function argument given to %s was invoked (with %v)", c.who(), args))
	}
	c.Calls = append(c.Calls, append([]string(nil), args...))
	if c.Nilable {
		nn := 0
		for _, a := range args {
			if IsNilRendering(a) {
				nn++
			}
		}
		if nn > 0 {
			c.W.Add("nil.f_calls_with_nil_argument", 1)
			c.W.Add("nil.f_received_nil_arguments", int64(nn))
			if nn == len(args) {
				c.W.Add("nil.f_calls_with_only_nil_arguments", 1)
			}
		}
	}
	return Res(fmtCall(c.Gen, args))
}

// Want declares the argument vector f must receive (written out by the generator in
// source order) and returns the rendering f produces for exactly that vector.
func (c *Cx) Want(args ...string) string {
	c.wantVec = append([]string(nil), args...)
	c.haveWant = true
	return fmtCall(c.Gen, args)
}

func sameVec(a, b []string) bool {
	if len(a) != len(b) {
		return false
	}
	for i := range a {
		if a[i] != b[i] {
			return false
		}
	}
	return true
}

// Called checks the recorded calls of f: at least one, each with exactly the wanted vector.
func (c *Cx) Called() {
	if !c.haveWant {
		return
	}
	if len(c.Calls) <= c.lineStart {
		c.Fail("f-not-called", fmt.Sprintf("the function argument was never invoked; expected a call with %v", c.wantVec))
		return
	}
	for _, cl := range c.Calls[c.lineStart:] {
		if !sameVec(cl, c.wantVec) {
			c.Fail("f-arguments", fmt.Sprintf("the function argument received %v, defining equation passes %v", cl, c.wantVec))
			return
		}
	}
}

// Result compares the observed result with the expected one and then checks f's calls.
func (c *Cx) Result(got, want string) {
	c.note("result " + got)
	if c.Nilable && c.NNil > 0 {
		c.W.Add("nil.results_compared_with_nil_argument", 1)
	}
	if got != want {
		c.Fail("result", fmt.Sprintf("result %q, defining equation gives %q", got, want))
	}
	c.Called()
}

func (c *Cx) Eqs(what, got, want string) {
	c.note(what + " " + got)
	if got != want {
		c.Fail(what, fmt.Sprintf("%s = %q, defining equation gives %q", what, got, want))
	}
}

func (c *Cx) Eqb(what string, got, want bool) {
	c.note(fmt.Sprintf("%s %v", what, got))
	if got != want {
		c.Fail(what, fmt.Sprintf("%s = %v, defining equation gives %v", what, got, want))
	}
}

func (c *Cx) Vec(what string, got []string, want ...string) {
	c.note(fmt.Sprintf("%s %v", what, got))
	if !sameVec(got, want) {
		c.Fail(what, fmt.Sprintf("%s = %v, defining equation gives %v", what, got, want))
	}
}

// Eqv compares an observed component with the expected one; both must have the same type
// (compile time) and the same value (run time).
func Eqv[A any](c *Cx, what string, got, want A) {
	c.Eqs(what, Rd(got), Rd(want))
	if p, ok := any(got).(*PBox); ok {
		if q, _ := any(want).(*PBox); p != q {
			c.Fail(what+"-identity", fmt.Sprintf("%s is another pointer (%p) than the argument (%p)", what, p, q))
		}
	}
}

// Pair builds a pair by struct literal (input of product.FlattenN).
func Pair[A, B any](a A, b B) fp.Tuple2[A, B] { return fp.Tuple2[A, B]{I1: a, I2: b} }

// Step is the body of the k-th function of a composition / merge (f<k> in generation 1, g<k>
// in generation 2).
func (c *Cx) Step(k int, x string) string {
	if c.Gen == 2 {
		return fmt.Sprintf("g%d(%s)", k, x)
	}
	return fmt.Sprintf("f%d(%s)", k, x)
}

// StepR is the rendering of the value step k returns into value position pos when it is given
// a value rendered x: the step's tag, or nil / zero when pos is in the mask of the case.
func (c *Cx) StepR(k, pos int, x string) string {
	t := c.Step(k, x)
	if !c.Nilable {
		return t
	}
	return Render(c.Kinds[pos-1], t, c.ZV[pos])
}

// Nested is the defining expression of a composition of n steps: step n ( ... step 1 (x));
// step k returns into value position k+1.
func (c *Cx) Nested(n int, x string) string {
	for k := 1; k <= n; k++ {
		x = c.StepR(k, k+1, x)
	}
	return x
}

// ---- forked partial applications ----------------------------------------------------------

// Pos / PosFlip / PosSlip: the original argument position of the i-th application of a
// curried function: identity, a2..an a1 (curried.FlipN), an a1..a(n-1) (curried.SlipLN).
func Pos(n int) []int {
	out := make([]int, n)
	for i := range out {
		out[i] = i + 1
	}
	return out
}

func PosFlip(n int) []int {
	out := make([]int, 0, n)
	for k := 2; k <= n; k++ {
		out = append(out, k)
	}
	return append(out, 1)
}

func PosSlip(n int) []int {
	out := []int{n}
	for k := 1; k < n; k++ {
		out = append(out, k)
	}
	return out
}

// ForkVec is the argument vector (original order) of a continuation that was forked at
// application level `level` (1-based; 0 = not forked): the applications before that level
// carried V, those from that level on carry the alternatives Y.
func (c *Cx) ForkVec(pos []int, level int) []string {
	out := make([]string, len(pos))
	for k := range out {
		out[k] = c.V[k+1]
	}
	if level >= 1 {
		for i := level - 1; i < len(pos); i++ {
			out[pos[i]-1] = c.Y[pos[i]]
		}
	}
	return out
}

// Mix is the argument vector with the alternatives Y at the listed positions and V elsewhere.
func (c *Cx) Mix(n int, alt ...int) []string {
	out := append([]string(nil), c.V[1:n+1]...)
	for _, k := range alt {
		out[k-1] = c.Y[k]
	}
	return out
}

func (c *Cx) Mark() int { return len(c.Calls) }

func ShowRes(r Res) string   { return string(r) }
func ShowRes2(r Res2) string { return string(r) }

func WrapSome(s string) string    { return "Some(" + s + ")" }
func WrapSuccess(s string) string { return "Success(" + s + ")" }
func WrapH(s string) string       { return "h(" + s + ")" }

// WrapUnit is for members whose result carries nothing (unit.FuncN): only the calls count.
func WrapUnit(string) string { return "" }

// Fork judges two continuations that were derived from ONE partial application (or two
// uses of one constructed function): both exist before either is finished; fin1 / fin2 finish
// them and render the result; they are finished in one of the two orders (alternating). Each
// must equal the defining equation for ITS OWN argument vector, and the function argument
// must have received exactly these two vectors since the mark n0.
func (c *Cx) Fork(n0, level int, fin1, fin2 func() string, vec1, vec2 []string, wrap func(string) string) {
	c.forks++
	secondFirst := (c.ForkSeed+c.forks)%2 == 1
	var r1, r2 string
	order := "the first was finished before the second"
	if secondFirst {
		order = "the second was finished before the first"
		r2 = fin2()
		r1 = fin1()
		c.W.Add("fork.order.second_finished_first", 1)
	} else {
		r1 = fin1()
		r2 = fin2()
		c.W.Add("fork.order.first_finished_first", 1)
	}
	c.W.Add("fork."+c.Family, 1)
	if level >= 2 {
		c.W.Add("fork.below_first_level", 1)
	}
	c.W.Max("fork.max_level", int64(level))
	w1, w2 := fmtCall(c.Gen, vec1), fmtCall(c.Gen, vec2)
	if wrap != nil {
		w1, w2 = wrap(w1), wrap(w2)
	}
	where := fmt.Sprintf("two continuations were derived from one partial application at level %d (0 = one constructed function used twice) with the argument vectors %v and %v, both before either was finished; %s", level, vec1, vec2, order)
	if r1 != w1 {
		c.Fail("forked-partial-application", fmt.Sprintf("%s: the first gave %q, the defining equation for its own arguments gives %q", where, r1, w1))
		return
	}
	if r2 != w2 {
		c.Fail("forked-partial-application", fmt.Sprintf("%s: the second gave %q, the defining equation for its own arguments gives %q", where, r2, w2))
		return
	}
	saw1, saw2 := false, false
	if c.Nilable && (c.NNil > 0 || c.NNilY > 0) {
		c.W.Add("nil.forks_with_nil", 1)
	}
	for _, cl := range c.Calls[n0:] {
		switch {
		case sameVec(cl, vec1) && (!saw1 || !sameVec(vec1, vec2)):
			// (equal vectors, possible when both carry nil at the only position: two calls)
			saw1 = true
		case sameVec(cl, vec2):
			saw2 = true
		default:
			c.Fail("forked-partial-application", fmt.Sprintf("%s: the function argument received %v", where, cl))
			return
		}
	}
	if !saw1 || !saw2 {
		c.Fail("forked-partial-application", fmt.Sprintf("%s: the function argument was not invoked with both vectors (calls: %v)", where, c.Calls[n0:]))
	}
}

// Prev checks the value a Chain builder hands to the callback of step k (the previous argument).
func (c *Cx) Prev(k int, got, want string) {
	if got != want {
		c.Fail("callback-head", fmt.Sprintf("callback of step %d received %q, the previous argument is %q", k, got, want))
	}
}

// ---- type-class component instances (record where each component value is routed) ------

// ObsBudget bounds the component observations one observation of an Ord[TupleN] may make
// (set per tier by main). ord.TupleN consults its component instances about 2^p times when
// the first operand is the greater one and the operands first differ at position p, so for
// N around 20 a single Compare can take seconds; an observation that exceeds the budget is
// abandoned without a verdict and counted (ord.observations_abandoned_budget).
var ObsBudget int64 = 1 << 40

type obsAbort struct{}

// obs runs one observation under the budget; false = abandoned.
func (c *Cx) obs(f func()) (ok bool) {
	c.obsLeft = ObsBudget
	defer func() {
		c.obsLeft = ObsBudget
		if r := recover(); r != nil {
			if _, is := r.(obsAbort); !is {
				panic(r)
			}
			ok = false
			c.W.Add("ord.observations_abandoned_budget", 1)
		}
	}()
	f()
	c.W.Add("ord.observations", 1)
	return true
}

// comp2 / comp1 are called by the recording instances: instance k may only ever see the values
// of position k (of either operand). The check is done on the spot (O(1) per observation:
// ord.TupleN consults its components exponentially often for some operands).
func (c *Cx) comp2(k int, x, y string) {
	c.foreignComp(k)
	if k >= 1 && k <= MaxPos {
		c.seen[k] = true
	}
	c.NComp++
	if c.obsLeft--; c.obsLeft < 0 {
		panic(obsAbort{})
	}
	if c.routeErr == "" && !((x == c.V[k] || x == c.U[k]) && (y == c.V[k] || y == c.U[k])) {
		c.routeErr = fmt.Sprintf("the instance passed at position %d was applied to (%q, %q); position %d holds %q / %q", k, x, y, k, c.V[k], c.U[k])
	}
}

// foreignComp: a component instance of c is consulted while another construction is observed.
func (c *Cx) foreignComp(k int) {
	if Cur != nil && Cur != c {
		Cur.noteForeign(fmt.Sprintf("while the instance built by this construction was observed, the component instance given at position %d to %s was consulted: the instance does not consult the components it was given", k, c.who()))
	}
}

func (c *Cx) comp1(k int, x string) {
	c.foreignComp(k)
	c.NComp++
	if k >= 1 && k <= MaxPos {
		c.seen[k] = true
	}
	if c.routeErr == "" && !(x == c.V[k] || x == c.U[k]) {
		c.routeErr = fmt.Sprintf("the instance passed at position %d was applied to %q; position %d holds %q / %q", k, x, k, c.V[k], c.U[k])
	}
}

// biased: generation 2 carries, at the positions in Bias, a component instance that behaves
// differently from the one generation 1 has at that position.
func (c *Cx) biased(k int) bool { return c.Gen == 2 && k >= 1 && k <= MaxPos && c.Bias[k] }

type RecEq[A Val] struct {
	C *Cx
	K int
}

// Eqv: string equality; the biased instance is the trivial equivalence (everything equal).
func (r RecEq[A]) Eqv(x, y A) bool {
	r.C.comp2(r.K, string(x), string(y))
	return r.C.biased(r.K) || string(x) == string(y)
}

// RecOrd: string order; the biased instance is the reversed order.
func RecOrd[A Val](c *Cx, k int) fp.Ord[A] {
	return fp.LessFunc[A](func(x, y A) bool {
		c.comp2(k, string(x), string(y))
		if c.biased(k) {
			return string(x) > string(y)
		}
		return string(x) < string(y)
	})
}

type RecHash[A Val] struct {
	C *Cx
	K int
}

// the biased Hashable is the trivial one: everything equal, constant hash
func (r RecHash[A]) Eqv(x, y A) bool {
	r.C.comp2(r.K, string(x), string(y))
	return r.C.biased(r.K) || string(x) == string(y)
}
func (r RecHash[A]) Hash(x A) uint32 {
	r.C.comp1(r.K, string(x))
	if r.C.biased(r.K) {
		return uint32(7 * r.K)
	}
	return uint32(vrt.Hash64(fmt.Sprintf("%d#%s", r.K, string(x))))
}

type RecMon[A Val] struct {
	C *Cx
	K int
}

func (r RecMon[A]) Empty() A { return A(r.C.Emp(r.K)) }
func (r RecMon[A]) Combine(x, y A) A {
	r.C.comp2(r.K, string(x), string(y))
	return A(r.C.cmb(r.K, string(x), string(y)))
}

type RecClone[A Val] struct {
	C *Cx
	K int
}

func (r RecClone[A]) Clone(x A) A {
	r.C.comp1(r.K, string(x))
	return A(r.C.cln(r.K, string(x)))
}

// tag names the component instance of position k of this construction: e/c/k<k> in
// generation 1, E/C/K<k> in generation 2, with a ! when it is the differently-behaving one.
func (c *Cx) tag(lower, upper string, k int) string {
	t := lower
	if c.Gen == 2 {
		t = upper
	}
	if c.biased(k) {
		c.decided(k)
		return fmt.Sprintf("%s%d!", t, k)
	}
	return fmt.Sprintf("%s%d", t, k)
}

func (c *Cx) cmb(k int, x, y string) string {
	if c.biased(k) {
		return fmt.Sprintf("%s(%s;%s)", c.tag("c", "C", k), y, x) // the biased monoid combines the other way round
	}
	return fmt.Sprintf("%s(%s,%s)", c.tag("c", "C", k), x, y)
}
func (c *Cx) cln(k int, x string) string { return fmt.Sprintf("%s(%s)", c.tag("k", "K", k), x) }

// expected component results, by position
func (c *Cx) Emp(k int) string { return c.tag("e", "E", k) }
func (c *Cx) Cmb(k int) string { return c.cmb(k, c.V[k], c.U[k]) }
func (c *Cx) Cln(k int) string { return c.cln(k, c.V[k]) }

// decidedSeen: (member, position) pairs at which, in this process, the differently-behaving
// component instance of generation 2 decided an observed result. All cases of a member run
// in one worker process, so the per-family counter is a count of distinct pairs.
var decidedSeen = map[string]bool{}

func (c *Cx) decided(k int) {
	c.W.Add("identity.bias_decided."+c.Family, 1)
	key := fmt.Sprintf("%s/%s/%d", c.Variant, c.Member, k)
	if !decidedSeen[key] {
		decidedSeen[key] = true
		key = fmt.Sprintf("%s/%d", c.Member, k)
		if !decidedSeen[key] {
			decidedSeen[key] = true
			c.W.Add("identity.member_positions_decided."+c.Family, 1)
		}
	}
}

// AllEq / LexLess: the reference for Eq / Ord of an n-tuple built from THIS construction's
// component instances, written as plain loops (a biased position is trivially equal / is
// ordered the other way round).
func (c *Cx) AllEq(a, b []string) bool {
	for i := range a {
		if a[i] != b[i] {
			if c.biased(i + 1) {
				continue
			}
			return false
		}
	}
	if c.Gen == 2 {
		for i := range a {
			if a[i] != b[i] {
				c.decided(i + 1) // equal only because the trivial instances sit at the differing positions
				break
			}
		}
	}
	return true
}

func (c *Cx) LexLess(a, b []string) bool {
	for i := range a {
		if a[i] == b[i] {
			continue
		}
		if c.biased(i + 1) {
			c.decided(i + 1)
			return a[i] > b[i]
		}
		return a[i] < b[i]
	}
	return false
}

func sign(i int) int {
	switch {
	case i < 0:
		return -1
	case i > 0:
		return 1
	}
	return 0
}

// OrdObs compares what an Ord[TupleN] answers with the lexicographic reference.
func (c *Cx) OrdObs(less12, less21, eqv12 func() bool, cmp12 func() int, lessEq12 func() bool, cmpSame func() int, vs, us []string) {
	var b bool
	var i int
	if c.obs(func() { b = less12() }) {
		c.Eqb("Less", b, c.LexLess(vs, us))
	}
	if c.obs(func() { b = less21() }) {
		c.Eqb("Less-flipped", b, c.LexLess(us, vs))
	}
	if c.obs(func() { b = eqv12() }) {
		c.Eqb("Eqv", b, !c.LexLess(vs, us) && !c.LexLess(us, vs))
	}
	if c.obs(func() { i = cmp12() }) {
		want := 0
		if c.LexLess(vs, us) {
			want = -1
		} else if c.LexLess(us, vs) {
			want = 1
		}
		c.Eqs("Compare", fmt.Sprint(sign(i)), fmt.Sprint(want))
	}
	if c.obs(func() { b = lessEq12() }) {
		c.Eqb("LessEq", b, !c.LexLess(us, vs))
	}
	// equal operands: the answer needs every component instance of THIS construction
	c.ResetComps()
	if c.obs(func() { i = cmpSame() }) {
		c.Eqs("Compare-same", fmt.Sprint(sign(i)), "0")
		c.SawAll("Compare", len(vs))
	}
}

// Routed reports a mis-routed component observation, if any was seen.
func (c *Cx) Routed() {
	if c.routeErr != "" {
		c.Fail("component-routing", c.routeErr)
		c.routeErr = ""
	}
	c.flushForeign()
}

// SawAll checks that every one of the n component instances given to THIS construction was
// consulted since ResetComps (nothing dropped; none consulted at all = the instance is not
// built from the components it was given).
func (c *Cx) SawAll(what string, n int) {
	none := true
	for k := 1; k <= n; k++ {
		none = none && !c.seen[k]
	}
	if none && n >= 1 {
		c.flushForeign()
		c.Fail("instance-identity", fmt.Sprintf("%s consulted none of the %d component instances that were given to this construction", what, n))
		return
	}
	for k := 1; k <= n; k++ {
		if !c.seen[k] {
			c.Fail(what+"-drops-component", fmt.Sprintf("%s never consulted the instance of position %d", what, k))
			return
		}
	}
}

func (c *Cx) ResetComps() { c.seen = [MaxPos + 1]bool{} }

// ---- observers of the monads ------------------------------------------------------------

// UnitS renders the (empty) result of unit.FuncN.
func UnitS(fp.Unit) string { return "" }

func OptS(o fp.Option[Res]) string {
	if o.IsDefined() {
		return "Some(" + string(o.Get()) + ")"
	}
	return "None"
}

func TryS(t fp.Try[Res]) string {
	if t.IsSuccess() {
		return "Success(" + string(t.Get()) + ")"
	}
	return fmt.Sprintf("Failure(%v)", t.Failed().Get())
}

// Drain runs every task the default executors handed to the spawn hook, in FIFO order, until
// none is left (tasks may schedule further tasks).
func (c *Cx) Drain() {
	b := vrt.NewBudget(1_000_000, "future tasks scheduled by one call")
	for len(c.Tasks) > 0 {
		b.Tick()
		t := c.Tasks[0]
		c.Tasks = c.Tasks[1:]
		t()
	}
}

func (c *Cx) FutS(f fp.Future[Res]) string {
	c.Drain()
	if !f.IsCompleted() {
		return "NotCompleted"
	}
	return TryS(f.Value())
}

// ---- site table -------------------------------------------------------------------------

type Site struct {
	Family, Member string
	N              int // number of argument positions
	Distinct, Same func(*Cx)
}

var Sites []Site

// Reg is called from the init functions of the generated site packages.
func Reg(family, member string, n int, distinct, same func(*Cx)) {
	Sites = append(Sites, Site{family, member, n, distinct, same})
}
