package rt

// Nil / zero argument values (the "nilable-types" and "zero-types" instantiations of the call sites).
//
// The call sites never convert between strings and argument types themselves: a value is
// created by Mk / MkY / MkS (from the position tag and the nil mask of the case) and read back
// by Rd. For the string-kinded types T1..T22 / S the rendering is the tag itself, so the two
// older instantiations behave exactly as before. The palette types below are nil-able or
// zero-able: a position in the mask carries nil / the zero value (rendered "nil:<kind>" /
// "zero:<kind>"), any other position a value that carries the position tag.

import (
	"fmt"
	"strings"
)

// Named is the constraint of the call sites of the Labelled families.
type Named interface{ Name() string }

// ---- the palette ---------------------------------------------------------------------------

type PSlice []string
type PMap map[string]string
type PBox struct {
	Tag  string
	Self *PBox // the address this box was created at: a copy made behind the harness's back shows
}
type PFunc func() string
type PIface interface {
	Name() string
	RdS() string
}
type PStruct struct{ Tag string }
type PStr string
type PInt int
type PBool bool

func (PSlice) Name() string  { return "PSlice" }
func (PMap) Name() string    { return "PMap" }
func (*PBox) Name() string   { return "PBox" }
func (PFunc) Name() string   { return "PFunc" }
func (PStruct) Name() string { return "PStruct" }
func (PStr) Name() string    { return "PStr" }
func (PInt) Name() string    { return "PInt" }
func (PBool) Name() string   { return "PBool" }

// dynamic values of the interface-typed positions
type tagErr struct{ tag string }
type anyBox struct{ tag string }
type ifaceImpl struct{ tag string }

func (e *tagErr) Error() string    { return "tagErr(" + e.tag + ")" }
func (ifaceImpl) Name() string     { return "ifaceImpl" }
func (e *tagErr) RdS() string      { return "error:" + e.tag }
func (b anyBox) RdS() string       { return "any:" + b.tag }
func (i ifaceImpl) RdS() string    { return "iface:" + i.tag }
func (s S) RdS() string            { return string(s) }
func (r Res) RdS() string          { return string(r) }
func (r Res2) RdS() string         { return string(r) }
func (s *S) SetV(t string, z bool) { *s = S(t) }

// renderings of the palette values (methods are nil-safe: the receivers are concrete types)
func (s PSlice) RdS() string {
	switch {
	case s == nil:
		return "nil:slice"
	case len(s) != 1:
		return fmt.Sprintf("slice(len %d):%s", len(s), strings.Join(s, "+"))
	}
	return "slice:" + s[0]
}

func (m PMap) RdS() string {
	if m == nil {
		return "nil:map"
	}
	if v, ok := m["tag"]; ok && len(m) == 1 {
		return "map:" + v
	}
	return fmt.Sprintf("map(len %d):%v", len(m), map[string]string(m))
}

func (p *PBox) RdS() string {
	switch {
	case p == nil:
		return "nil:ptr"
	case p.Self != p:
		return "ptr(another address):" + p.Tag
	}
	return "ptr:" + p.Tag
}

func (f PFunc) RdS() string {
	if f == nil {
		return "nil:func"
	}
	return "func:" + f()
}

func (s PStruct) RdS() string {
	if s == (PStruct{}) {
		return "zero:struct"
	}
	return "struct:" + s.Tag
}

func (s PStr) RdS() string {
	if s == "" {
		return "zero:string"
	}
	return "string:" + string(s)
}

// ints cannot carry a tag: every non-zero PInt is a fresh number, registered with its tag for
// the duration of the case (the worker is sequential; ResetCase clears the registry).
var (
	intTags = map[PInt]string{}
	intNext PInt
)

func ResetCase() {
	clear(intTags)
	intNext = 0
}

func (i PInt) RdS() string {
	if i == 0 {
		return "zero:int"
	}
	if t, ok := intTags[i]; ok {
		return "int:" + t
	}
	return fmt.Sprintf("int(not handed out by the harness):%d", int(i))
}

// a bool carries no tag at all: true / the zero value false
func (b PBool) RdS() string {
	if !b {
		return "zero:bool"
	}
	return "bool:true"
}

func (s *PSlice) SetV(t string, z bool) {
	if !z {
		*s = PSlice{t}
	}
}
func (m *PMap) SetV(t string, z bool) {
	if !z {
		*m = PMap{"tag": t}
	}
}
func (f *PFunc) SetV(t string, z bool) {
	if !z {
		*f = func() string { return t }
	}
}
func (s *PStruct) SetV(t string, z bool) {
	if !z {
		*s = PStruct{t}
	}
}
func (s *PStr) SetV(t string, z bool) {
	if !z {
		*s = PStr(t)
	}
}
func (i *PInt) SetV(t string, z bool) {
	if !z {
		intNext++
		intTags[intNext] = t
		*i = intNext
	}
}
func (b *PBool) SetV(t string, z bool) {
	if !z {
		*b = true
	}
}

// Kinds: one letter per palette kind, as written by the generator into RegNil (the kind of
// every position of a nilable-types registration) — main computes the expected renderings
// from it before anything is constructed.
var kindNames = map[byte]string{'s': "slice", 'm': "map", 'p': "ptr", 'f': "func", 'e': "error", 'a': "any", 'i': "iface",
	't': "struct", 'g': "string", 'n': "int", 'b': "bool", 'v': "tagged-string"}

func KindName(k byte) string { return kindNames[k] }

// Render is the rendering Rd gives for the value Mk creates at a position of kind k from the
// tag (zero: the position is in the nil mask).
func Render(k byte, tag string, zero bool) string {
	name := kindNames[k]
	switch {
	case k == 'v':
		return tag
	case zero:
		switch k {
		case 't', 'g', 'n', 'b':
			return "zero:" + name
		}
		return "nil:" + name
	case k == 'b':
		return "bool:true"
	}
	return name + ":" + tag
}

// IsNilRendering: the rendering of a nil / zero value of a palette type.
func IsNilRendering(s string) bool {
	return strings.HasPrefix(s, "nil:") || strings.HasPrefix(s, "zero:")
}

type setter interface{ SetV(tag string, zero bool) }
type reader interface{ RdS() string }

// build creates the value of type A that carries tag (or nil / the zero value of A).
func build[A any](tag string, zero bool) A {
	var z A
	switch p := any(&z).(type) {
	case setter:
		p.SetV(tag, zero)
	case **PBox:
		if !zero {
			b := &PBox{Tag: tag}
			b.Self = b
			*p = b
		}
	case *error:
		if !zero {
			*p = &tagErr{tag}
		}
	case *any:
		if !zero {
			*p = anyBox{tag}
		}
	case *PIface:
		if !zero {
			*p = ifaceImpl{tag}
		}
	default:
		panic(fmt.Sprintf("c14/rt: no constructor for argument type %T: harness defect", z))
	}
	return z
}

// kindOf names the kind of the type A (used for the nil interfaces, which carry no type).
func kindOf[A any]() string {
	switch any((*A)(nil)).(type) {
	case *error:
		return "error"
	case *any:
		return "any"
	case *PIface:
		return "iface"
	}
	return fmt.Sprintf("%T", *new(A))
}

// Rd reads a value back: the tag for the string-kinded types, "<kind>:<tag>" for a non-nil
// palette value, "nil:<kind>" / "zero:<kind>" for nil / the zero value.
func Rd[A any](a A) string {
	if r, ok := any(a).(reader); ok {
		return r.RdS()
	}
	if any(a) == nil {
		return "nil:" + kindOf[A]()
	}
	return fmt.Sprintf("unreadable(%T):%v", a, any(a))
}

// Sv is the %v formatting of a value (defining expression of TupleN.String / LabelledN.String).
func Sv[A any](a A) string { return fmt.Sprintf("%v", a) }

// Mk / MkY create the value (alternative value of the forks) of position k of this case.
func Mk[A any](c *Cx, k int) A {
	v := build[A](c.TagV[k], c.ZV[k])
	c.made(k, Rd(v), c.V[k], c.ZV[k], "value")
	return v
}

func MkY[A any](c *Cx, k int) A {
	v := build[A](c.TagY[k], c.ZY[k])
	c.made(k, Rd(v), c.Y[k], c.ZY[k], "fork alternative")
	return v
}

// MkS creates the value a step function returns into position k (compositions, merges): it
// carries the given tag, or is nil / zero when position k is in the mask.
func MkS[A any](c *Cx, k int, tag string) A {
	v := build[A](tag, c.ZV[k])
	if c.Nilable {
		c.countNil(k, Rd(v), c.ZV[k], true)
	}
	return v
}

// nilSeen: (call site, position) pairs for which, in this process, a case with nil / zero at
// exactly that position was constructed. All cases of a call site run in one worker process.
var nilSeen = map[string]bool{}

func (c *Cx) made(k int, got, want string, zero bool, what string) {
	if got != want {
		c.Fail("site-table", fmt.Sprintf("%s of position %d renders %q, the case expects %q: harness defect (kinds of the registration)", what, k, got, want))
	}
	if c.Nilable {
		c.countNil(k, got, zero, what == "value")
	}
}

func (c *Cx) countNil(k int, rendering string, zero, value bool) {
	c.countKind(k, rendering, zero)
	if zero && value && c.Gen == 1 && c.NNil == 1 {
		key := fmt.Sprintf("%s/%s/%s/%d", c.Variant, c.Member, c.Sub, k)
		if !nilSeen[key] {
			nilSeen[key] = true
			c.W.Add("nil.member_positions."+c.Family, 1)
		}
	}
}

func (c *Cx) countKind(k int, rendering string, zero bool) {
	kind := rendering
	if i := strings.IndexByte(kind, ':'); i >= 0 {
		if zero {
			kind = kind[i+1:]
		} else {
			kind = kind[:i]
		}
	}
	if zero {
		c.W.Add("nil.kind."+kind, 1)
		c.W.Add(fmt.Sprintf("nilkp.%02d.%s", k, kind), 1)
	} else {
		c.W.Add("nil.kind_nonnil."+kind, 1)
	}
}

// NilSite is one nilable-types / zero-types registration of a generated call site.
type NilSite struct {
	Inst                string // "nilable-types" (nil-able kinds) or "zero-types" (struct, string, int, bool)
	Family, Member, Sub string
	N                   int    // argument positions of the evidence pair
	Kinds               string // kind letter of every value position (len = number of value positions)
	Fn                  func(*Cx)
}

var NilSites []NilSite

// RegNil is called from the init functions of the generated site packages.
func RegNil(inst, family, member, sub string, n int, kinds string, fn func(*Cx)) {
	NilSites = append(NilSites, NilSite{inst, family, member, sub, n, kinds, fn})
}

// HeldFail is a failed check of a case with a non-empty nil mask, kept until the control case
// (the same case with a non-nil, non-zero value at every position) has been run.
type HeldFail struct{ What, Detail string }

// ReportHeld reports the held failures of c. A check that also fails in the control case
// (controlFails[what]) is no matter of nil: it is reported under the general key
// <member>/<what>, exactly as the other instantiations report it. A check that fails only
// when some argument (or fork alternative) is nil / the zero value of its type is reported
// under <member>/nil-argument.
func (c *Cx) ReportHeld(controlFails map[string]bool) {
	held := c.Held
	c.Held, c.Hold = nil, false
	for _, h := range held {
		if controlFails[h.What] {
			c.Fail(h.What, h.Detail+" (the same case with non-nil values at every position fails this check too)")
			continue
		}
		c.ReportNil(h.What, h.Detail)
	}
}

// ReportNil reports a failure that needs a nil / zero argument: key <member>/nil-argument.
func (c *Cx) ReportNil(what, detail string) {
	p := len(c.Kinds)
	c.W.Violation(c.Idx, c.Member+"/nil-argument", fmt.Sprintf("%s [%s instantiation, construction %d of 2, arguments %v, fork alternatives %v]: %s: %s (the same case with non-nil, non-zero values at every position passes this check)",
		c.Member, c.Variant, c.Gen, c.V[1:p+1], c.Y[1:p+1], what, detail), c.Witness())
}
