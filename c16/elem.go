// C16 part (5): run-once and value fidelity for every RESULT VALUE and element type.
//
// The older families use Eval[int] with non-zero results only. A memo that tells "computed"
// from "not computed" by looking at the stored value (nil interface, zero value, nil pointer
// inside an interface, …) keeps every int program right and still re-runs a thunk whose result
// happens to be that value (seeded change C16-s2-3: atomic.Value, nil never stored). Here every
// memoising construct is instantiated at 11 element types and its thunk returns each class of
// value — nil / zero, a nil pointer or a zero inside an interface, and non-nil values with an
// identity (fresh pointer, backing array, map, closure) — and the ONE value built is demanded
// several times: repeated Get / Run, Map2(x, x), extensions built once and evaluated in PRNG
// order (DAG use), derived lists over the same cell; in the race batches by 2..32 goroutines.
//
//	elem     : sequential, 2..8 demands from the menu of the construct
//	concelem : the same cases shared by 2..32 goroutines released by a barrier (-race build)
//
// Case gi (numbered through all batches of the family) uses combination gi mod N of
// (construct, element kind, result value), so every combination is observed a known number of
// times; everything else about the case comes from the case PRNG.
package main

import (
	"errors"
	"fmt"
	"math/rand/v2"
	"reflect"
	"runtime"
	"strconv"
	"strings"
	"sync/atomic"

	"verif/vrt"

	"github.com/csgura/fp"
	"github.com/csgura/fp/fn1"
	"github.com/csgura/fp/lazy"
	"github.com/csgura/fp/list"
)

// ---- element kinds ----------------------------------------------------------------------

type elTok struct{ id int }

type elShape interface{ Area() int }

type elSq struct{ side int }

func (s *elSq) Area() int { return s.side * s.side }

type elRect struct{ w, h int }

func (r elRect) Area() int { return r.w * r.h }

type elCodeErr struct{ code int }

func (e elCodeErr) Error() string { return "code " + strconv.Itoa(e.code) }

type elRec struct {
	A int
	B string
	P *int
}

// elVal is one class of result value. zero: mk returns the zero value of T (nil for interface,
// pointer, slice, map and func types). nilish: zero, or an interface holding a nil pointer /
// a zero value — the results a value-inspecting memo may mistake for "nothing there".
type elVal[T any] struct {
	label  string
	zero   bool
	nilish bool
	mk     func(tok int) T
}

type elKind[T any] struct {
	name string
	vals []elVal[T]
	// same: is got the value the thunk returned — identity where the type has one (pointer,
	// backing array, map, dynamic pointer inside an interface), equality otherwise. nil and
	// empty are not told apart for slices and maps.
	same  func(got, want T) bool
	ident bool // same() compares identities of the non-nil values
	// override builds a kind-specific form of a construct (ok=false: use the generic one)
	override func(c int, body func() T) (elHandle[T], bool)
}

func elEq[T comparable](a, b T) bool { return a == b }

func elSameList(a, b fp.List[int]) bool {
	if a == nil || b == nil {
		return a == nil && b == nil
	}
	return eqInts(a.ToSeq(), b.ToSeq())
}

var elKindError = &elKind[error]{name: "error", ident: true, same: func(a, b error) bool { return a == b },
	vals: []elVal[error]{
		{"nil", true, true, func(int) error { return nil }},
		{"non-nil/pointer", false, false, func(tok int) error { return errors.New("e" + strconv.Itoa(tok)) }},
		{"non-nil/struct-value", false, false, func(tok int) error { return elCodeErr{tok} }},
	}}

var elKindAny = &elKind[any]{name: "any", ident: true, same: func(a, b any) bool { return a == b },
	vals: []elVal[any]{
		{"nil", true, true, func(int) any { return nil }},
		{"nil-pointer-inside", false, true, func(int) any { return (*int)(nil) }},
		{"zero-int-inside", false, true, func(int) any { return 0 }},
		{"non-nil/pointer", false, false, func(tok int) any { return &elTok{tok} }},
		{"non-nil/int", false, false, func(tok int) any { return tok + 1 }},
	}}

var elKindShape = &elKind[elShape]{name: "small-interface", ident: true, same: func(a, b elShape) bool { return a == b },
	vals: []elVal[elShape]{
		{"nil", true, true, func(int) elShape { return nil }},
		{"nil-pointer-inside", false, true, func(int) elShape { return (*elSq)(nil) }},
		{"non-nil/pointer", false, false, func(tok int) elShape { return &elSq{tok} }},
		{"non-nil/struct-value", false, false, func(tok int) elShape { return elRect{tok, 2} }},
	}}

var elKindList = &elKind[fp.List[int]]{name: "fp.List", same: elSameList,
	vals: []elVal[fp.List[int]]{
		{"nil", true, true, func(int) fp.List[int] { return nil }},
		{"empty-list-inside", false, true, func(int) fp.List[int] { return list.Empty[int]() }},
		{"non-nil/list", false, false, func(tok int) fp.List[int] { return list.Of(tok, tok+1) }},
	},
	// the tail thunk of a list cell IS a deferred fp.List: it returns the result itself
	override: func(c int, body func() fp.List[int]) (elHandle[fp.List[int]], bool) {
		if c != cMakeListTail {
			return elHandle[fp.List[int]]{}, false
		}
		l := fp.MakeList(func() fp.Option[int] { return fp.Some(0) }, body)
		return elHandle[fp.List[int]]{class: elClassGet, get: func() fp.List[int] { return l.Tail() }}, true
	}}

var elKindPtr = &elKind[*int]{name: "*int", ident: true, same: elEq[*int],
	vals: []elVal[*int]{
		{"nil", true, true, func(int) *int { return nil }},
		{"non-nil", false, false, func(tok int) *int { p := new(int); *p = tok; return p }},
	}}

var elKindSlice = &elKind[[]int]{name: "[]int", ident: true,
	same: func(a, b []int) bool { return len(a) == len(b) && (len(a) == 0 || &a[0] == &b[0]) },
	vals: []elVal[[]int]{
		{"nil", true, true, func(int) []int { return nil }},
		{"non-nil", false, false, func(tok int) []int { return []int{tok, tok + 1, tok + 2} }},
	}}

var elKindMap = &elKind[map[string]int]{name: "map[string]int", ident: true,
	same: func(a, b map[string]int) bool {
		return len(a) == len(b) && (len(a) == 0 || reflect.ValueOf(a).Pointer() == reflect.ValueOf(b).Pointer())
	},
	vals: []elVal[map[string]int]{
		{"nil", true, true, func(int) map[string]int { return nil }},
		{"non-nil", false, false, func(tok int) map[string]int { return map[string]int{"k": tok} }},
	}}

var elKindStruct = &elKind[elRec]{name: "struct", same: elEq[elRec],
	vals: []elVal[elRec]{
		{"zero", true, true, func(int) elRec { return elRec{} }},
		{"non-zero", false, false, func(tok int) elRec { p := new(int); return elRec{tok + 1, "r" + strconv.Itoa(tok), p} }},
	}}

var elKindFunc = &elKind[func() int]{name: "func", ident: true,
	same: func(a, b func() int) bool {
		if a == nil || b == nil {
			return a == nil && b == nil
		}
		return a() == b() // every closure built here returns its own token
	},
	vals: []elVal[func() int]{
		{"nil", true, true, func(int) func() int { return nil }},
		{"non-nil", false, false, func(tok int) func() int { return func() int { return tok*7 + 1 } }},
	}}

var elKindInt = &elKind[int]{name: "int", same: elEq[int],
	vals: []elVal[int]{
		{"zero", true, true, func(int) int { return 0 }},
		{"non-zero", false, false, func(tok int) int { return tok + 1 }},
	}}

var elKindString = &elKind[string]{name: "string", same: elEq[string],
	vals: []elVal[string]{
		{"zero", true, true, func(int) string { return "" }},
		{"non-zero", false, false, func(tok int) string { return "s" + strconv.Itoa(tok) }},
	}}

// ---- constructs -------------------------------------------------------------------------

const (
	cCall = iota
	cTailCall
	cTailCallCall
	cTailCall1 // .. cTailCall9
	cMemoize   = cTailCall1 + 9 + iota - 4
	cFpMemoize
	cFn1Memoize
	cFunc1
	cFunc2
	cFunc3
	cMakeListHead
	cMakeListHeadNone
	cMakeListTail
	cGenerate
	cListMap
	cListFlatMap
	cRecurrence1
	nConstructs
)

var elConstructNames = func() []string {
	n := make([]string, nConstructs)
	n[cCall], n[cTailCall], n[cTailCallCall] = "lazy.Call", "lazy.TailCall", "lazy.TailCall(lazy.Call)"
	for k := 1; k <= 9; k++ {
		n[cTailCall1+k-1] = "lazy.TailCall" + strconv.Itoa(k)
	}
	n[cMemoize], n[cFpMemoize], n[cFn1Memoize] = "lazy.Memoize", "fp.Memoize", "fn1.Memoize"
	n[cFunc1], n[cFunc2], n[cFunc3] = "lazy.Func1", "lazy.Func2", "lazy.Func3"
	n[cMakeListHead], n[cMakeListTail] = "fp.MakeList/head", "fp.MakeList/tail"
	n[cMakeListHeadNone] = "fp.MakeList/head-none"
	n[cGenerate], n[cListMap], n[cListFlatMap], n[cRecurrence1] = "list.Generate/cell", "list.Map/cell", "list.FlatMap/cell", "list.Recurrence1/cell"
	for k, s := range n {
		if s == "" {
			panic("construct " + strconv.Itoa(k) + " has no name")
		}
	}
	return n
}()

const (
	elClassEval  = iota // the construct is a lazy.Eval[T]
	elClassGet          // a memoised function
	elClassList         // a lazy list whose head cell holds the value
	elClassEmpty        // a lazy list whose head thunk answers None (the zero Option): the list is empty
)

type elHandle[T any] struct {
	class  int
	ev     lazy.Eval[T]
	get    func() T
	cellL  func() fp.List[T] // the list whose head is the cell under test
	finite bool              // the list may be traversed / its Tail demanded
}

// elCase is the type-erased case: the demands that can be made on the one value built.
type elCase struct {
	menu     []elDemand
	execs    atomic.Int32 // executions of the thunk under test
	outer    atomic.Int32 // executions of the enclosing TailCall thunk (lazy.TailCall(lazy.Call))
	badArgs  atomic.Int32 // a TailCallN / FuncN / fn1.Memoize thunk received other arguments
	zeroEval bool         // the TailCall thunk returned the zero Eval (value = zero of T)
	exts     []string     // DAG extensions built once before the first demand
	shown    string       // the value the thunk returns, for messages
}

type elDemand struct {
	name string
	// site: the library operation the demand goes through besides the construct under test
	// ("" = none). A wrong value is blamed on it when the plain demand (menu[0]) is right.
	site string
	do   func() string // "" = the value delivered is the value the thunk returned
}

func elShow(x any) string {
	s := fmt.Sprintf("%#v", x)
	if len(s) > 120 {
		s = s[:120] + "…"
	}
	return s
}

func elTailCallN[T any](n int, a []int, body func(a []int) lazy.Eval[T]) lazy.Eval[T] {
	switch n {
	case 1:
		return lazy.TailCall1(func(a1 int) lazy.Eval[T] { return body([]int{a1}) }, a[0])
	case 2:
		return lazy.TailCall2(func(a1, a2 int) lazy.Eval[T] { return body([]int{a1, a2}) }, a[0], a[1])
	case 3:
		return lazy.TailCall3(func(a1, a2, a3 int) lazy.Eval[T] { return body([]int{a1, a2, a3}) }, a[0], a[1], a[2])
	case 4:
		return lazy.TailCall4(func(a1, a2, a3, a4 int) lazy.Eval[T] { return body([]int{a1, a2, a3, a4}) }, a[0], a[1], a[2], a[3])
	case 5:
		return lazy.TailCall5(func(a1, a2, a3, a4, a5 int) lazy.Eval[T] { return body([]int{a1, a2, a3, a4, a5}) }, a[0], a[1], a[2], a[3], a[4])
	case 6:
		return lazy.TailCall6(func(a1, a2, a3, a4, a5, a6 int) lazy.Eval[T] { return body([]int{a1, a2, a3, a4, a5, a6}) }, a[0], a[1], a[2], a[3], a[4], a[5])
	case 7:
		return lazy.TailCall7(func(a1, a2, a3, a4, a5, a6, a7 int) lazy.Eval[T] { return body([]int{a1, a2, a3, a4, a5, a6, a7}) }, a[0], a[1], a[2], a[3], a[4], a[5], a[6])
	case 8:
		return lazy.TailCall8(func(a1, a2, a3, a4, a5, a6, a7, a8 int) lazy.Eval[T] {
			return body([]int{a1, a2, a3, a4, a5, a6, a7, a8})
		}, a[0], a[1], a[2], a[3], a[4], a[5], a[6], a[7])
	case 9:
		return lazy.TailCall9(func(a1, a2, a3, a4, a5, a6, a7, a8, a9 int) lazy.Eval[T] {
			return body([]int{a1, a2, a3, a4, a5, a6, a7, a8, a9})
		}, a[0], a[1], a[2], a[3], a[4], a[5], a[6], a[7], a[8])
	}
	panic("bad arity")
}

// elConstruct wraps body with construct c. The thunk handed to the library checks the
// arguments it receives and returns exactly what body returns.
func elConstruct[T any](c int, body func() T, zeroEval bool, tok int, ec *elCase) elHandle[T] {
	a := make([]int, 9)
	for j := range a {
		a[j] = tok*(j+2) + j
	}
	checkArgs := func(got ...int) {
		for j, x := range got {
			if x != a[j] {
				ec.badArgs.Add(1)
			}
		}
	}
	evalH := func(e lazy.Eval[T]) elHandle[T] { return elHandle[T]{class: elClassEval, ev: e} }
	switch {
	case c == cCall:
		return evalH(lazy.Call(body))
	case c == cTailCall:
		return evalH(lazy.TailCall(func() lazy.Eval[T] {
			v := body()
			if zeroEval { // v is the zero value of T: the zero Eval evaluates to it
				return lazy.Eval[T]{}
			}
			return lazy.Done(v)
		}))
	case c == cTailCallCall:
		return evalH(lazy.TailCall(func() lazy.Eval[T] { ec.outer.Add(1); return lazy.Call(body) }))
	case c >= cTailCall1 && c < cTailCall1+9:
		n := c - cTailCall1 + 1
		return evalH(elTailCallN(n, a[:n], func(got []int) lazy.Eval[T] {
			checkArgs(got...)
			return lazy.Done(body())
		}))
	case c == cMemoize:
		return elHandle[T]{class: elClassGet, get: lazy.Memoize(body)}
	case c == cFpMemoize:
		m := fp.Memoize(body)
		return elHandle[T]{class: elClassGet, get: func() T { return m.Apply() }}
	case c == cFn1Memoize:
		m := fn1.Memoize(func(x int) T { checkArgs(x); return body() })
		return elHandle[T]{class: elClassGet, get: func() T { return m(a[0]) }}
	case c == cFunc1:
		return evalH(lazy.Func1(func(x int) T { checkArgs(x); return body() })(a[0]))
	case c == cFunc2:
		return evalH(lazy.Func2(func(x, y int) T { checkArgs(x, y); return body() })(a[0], a[1]))
	case c == cFunc3:
		return evalH(lazy.Func3(func(x, y, z int) T { checkArgs(x, y, z); return body() })(a[0], a[1], a[2]))
	case c == cMakeListHead:
		l := fp.MakeList(func() fp.Option[T] { return fp.Some(body()) }, func() fp.List[T] { return list.Empty[T]() })
		return elHandle[T]{class: elClassList, cellL: func() fp.List[T] { return l }, finite: true}
	case c == cMakeListHeadNone:
		// the result of the head thunk is None = the zero value of fp.Option[T], whatever T is
		l := fp.MakeList(func() fp.Option[T] { body(); return fp.None[T]() }, func() fp.List[T] { return list.Empty[T]() })
		return elHandle[T]{class: elClassEmpty, cellL: func() fp.List[T] { return l }, finite: true}
	case c == cMakeListTail:
		var zero T
		l := fp.MakeList(func() fp.Option[T] { return fp.Some(zero) }, func() fp.List[T] { return list.Apply(body(), list.Empty[T]()) })
		return elHandle[T]{class: elClassList, cellL: func() fp.List[T] { return l.Tail() }, finite: true}
	case c == cGenerate:
		l := list.Generate(func(i int) fp.Option[T] {
			if i == 0 {
				return fp.Some(body())
			}
			return fp.None[T]()
		})
		return elHandle[T]{class: elClassList, cellL: func() fp.List[T] { return l }, finite: true}
	case c == cListMap:
		l := list.Map(list.Of(a[0]), func(x int) T { checkArgs(x); return body() })
		return elHandle[T]{class: elClassList, cellL: func() fp.List[T] { return l }, finite: true}
	case c == cListFlatMap:
		// head thunk and tail thunk of the cell both demand the one deferred fn(head)
		l := list.FlatMap(list.Of(a[0]), func(x int) fp.List[T] { checkArgs(x); return list.Of(body()) })
		return elHandle[T]{class: elClassList, cellL: func() fp.List[T] { return l }, finite: true}
	case c == cRecurrence1:
		// the second cell is relation(first); only that cell is demanded (every further Tail
		// is another deferred computation calling relation again)
		var zero T
		l := list.Recurrence1(zero, func(T) T { return body() })
		return elHandle[T]{class: elClassList, cellL: func() fp.List[T] { return l.Tail() }, finite: false}
	}
	panic("bad construct")
}

// elDemandSites: demand form -> the library operation it goes through (see elDemand.site).
var elDemandSites = map[string]string{
	"Map2(x,x)": "lazy.Map2", "x.Map(id)": "lazy.Eval.Map", "lazy.FlatMap(x,Done)": "lazy.FlatMap", "Map2(x.Map(id),x.FlatMap(Done))": "lazy.Map2",
	"dag-extension.Get": "lazy.Eval/extension-of-shared-value", "dag-extension.Run": "lazy.Eval/extension-of-shared-value",
	"lazy.Call(m).Get": "lazy.Call", "Map2(Call(m),Call(m))": "lazy.Map2(lazy.Call)",
	"list.Map(l,id).Head": "list.Map", "list.Zip(l,l).Head": "list.Zip", "list.Combine(l,l).ToSeq": "list.Combine",
	"list.Map(l,id).IsEmpty": "list.Map", "list.Combine(l,l).IsEmpty": "list.Combine",
}

// elBlame: the key site of a wrong value seen by demand dm.
func elBlame(ec *elCase, dm elDemand, construct string) string {
	if dm.site != "" && ec.menu[0].do() == "" {
		return dm.site
	}
	return construct
}

var elExtNames = []string{"x.Map(id)", "Map2(x,x)", "x.FlatMap(_=>x)", "prev.FlatMap(Done)", "Map2(prev,x)"}

// elPrepare builds the value, the construct around the thunk returning it and the menu of
// demands. Draws from r do not depend on T.
func elPrepare[T any](k *elKind[T], vi, c, tok int, r *rand.Rand, inThunk func()) *elCase {
	val := k.vals[vi]
	v := val.mk(tok) // built once: every demand must deliver this very value
	ec := &elCase{shown: elShow(v)}
	body := func() T {
		ec.execs.Add(1)
		if inThunk != nil {
			inThunk()
		}
		return v
	}
	chk := func(how string, got T) string {
		if k.same(got, v) {
			return ""
		}
		return how + " delivered " + elShow(got) + ", the thunk returned " + ec.shown
	}
	first := func(a, b string) string {
		if a != "" {
			return a
		}
		return b
	}
	zeroEval := r.IntN(2) == 0 && val.zero && c == cTailCall
	ec.zeroEval = zeroEval
	nExt := r.IntN(4)
	extPick := make([]int, nExt)
	for e := range extPick {
		extPick[e] = r.IntN(len(elExtNames))
	}
	var h elHandle[T]
	ok := false
	if k.override != nil {
		h, ok = k.override(c, body)
	}
	if !ok {
		h = elConstruct(c, body, zeroEval, tok, ec)
	}
	add := func(name string, do func() string) {
		ec.menu = append(ec.menu, elDemand{name, elDemandSites[name], do})
	}
	id := func(a T) T { return a }
	pure := func(a T) lazy.Eval[T] { return lazy.Done(a) }
	// pair(how): a Map2 callback that checks both operands and passes one of them on
	pair := func(how string, bad *string, second bool) func(a, b T) T {
		return func(a, b T) T {
			*bad = first(chk("first operand of "+how, a), chk("second operand of "+how, b))
			if second {
				return b
			}
			return a
		}
	}
	switch h.class {
	case elClassEval:
		x := h.ev
		add("Get", func() string { return chk("Get", x.Get()) })
		add("lazy.Run", func() string { return chk("lazy.Run", lazy.Run(x)) })
		add("Map2(x,x)", func() string {
			var bad string
			got := lazy.Map2(x, x, pair("Map2(x,x)", &bad, true)).Get()
			return first(bad, chk("Map2(x,x).Get", got))
		})
		add("x.Map(id)", func() string { return chk("x.Map(id).Get", x.Map(id).Get()) })
		add("lazy.FlatMap(x,Done)", func() string { return chk("lazy.FlatMap(x,Done)", lazy.Run(lazy.FlatMap(x, pure))) })
		add("Map2(x.Map(id),x.FlatMap(Done))", func() string {
			var bad string
			got := lazy.Map2(lazy.Map(x, id), x.FlatMap(pure), pair("Map2(x.Map(id),x.FlatMap(Done))", &bad, false)).Get()
			return first(bad, chk("Map2(x.Map(id),x.FlatMap(Done)).Get", got))
		})
		// DAG use: extensions of x built once, now; evaluated later in PRNG order
		prev := x
		for _, p := range extPick {
			var e lazy.Eval[T]
			switch p {
			case 0:
				e = x.Map(id)
			case 1:
				e = lazy.Map2(x, x, func(a, b T) T { return b })
			case 2:
				e = x.FlatMap(func(T) lazy.Eval[T] { return x })
			case 3:
				e = prev.FlatMap(pure)
			default:
				e = lazy.Map2(prev, x, func(a, b T) T { return a })
			}
			ec.exts = append(ec.exts, elExtNames[p])
			prev = e
			add("dag-extension.Get", func() string { return chk("Get of a pre-built extension of x", e.Get()) })
			add("dag-extension.Run", func() string { return chk("lazy.Run of a pre-built extension of x", lazy.Run(e)) })
		}
	case elClassGet:
		m := h.get
		add("call", func() string { return chk("the memoised function", m()) })
		add("call-twice", func() string {
			a, b := m(), m()
			return first(chk("the memoised function", a), chk("the memoised function (second call)", b))
		})
		add("lazy.Call(m).Get", func() string { return chk("lazy.Call(m).Get", lazy.Call(m).Get()) })
		add("Map2(Call(m),Call(m))", func() string {
			var bad string
			got := lazy.Map2(lazy.Call(m), lazy.Call(m), pair("Map2(Call(m),Call(m))", &bad, true)).Get()
			return first(bad, chk("Map2(Call(m),Call(m)).Get", got))
		})
	case elClassEmpty:
		cl := h.cellL
		empty := func(how string, isEmpty bool) string {
			if isEmpty {
				return ""
			}
			return how + " of a list whose head thunk answered None reports a non-empty list"
		}
		add("IsEmpty", func() string { return empty("IsEmpty", cl().IsEmpty()) })
		add("NonEmpty", func() string { return empty("NonEmpty", !cl().NonEmpty()) })
		add("ToSeq(empty)", func() string { return empty("ToSeq", len(cl().ToSeq()) == 0) })
		add("Foreach(empty)", func() string {
			n := 0
			cl().Foreach(func(T) { n++ })
			return empty("Foreach", n == 0)
		})
		add("list.Map(l,id).IsEmpty", func() string { return empty("list.Map(l,id).IsEmpty", list.Map(cl(), id).IsEmpty()) })
		add("list.Combine(l,l).IsEmpty", func() string { l := cl(); return empty("list.Combine(l,l).IsEmpty", list.Combine(l, l).IsEmpty()) })
	default:
		cl := h.cellL
		add("Head", func() string { return chk("Head", cl().Head()) })
		add("NonEmpty+Head", func() string {
			l := cl()
			if l.IsEmpty() || !l.NonEmpty() {
				return "the list holding the cell reports empty"
			}
			return chk("Head", l.Head())
		})
		add("list.Map(l,id).Head", func() string { return chk("list.Map(l,id).Head", list.Map(cl(), id).Head()) })
		add("list.Zip(l,l).Head", func() string {
			l := cl()
			t := list.Zip(l, l).Head()
			return first(chk("first component of list.Zip(l,l).Head", t.I1), chk("second component of list.Zip(l,l).Head", t.I2))
		})
		if h.finite {
			add("Unapply", func() string { hd, _ := cl().Unapply(); return chk("Unapply", hd) })
			add("ToSeq", func() string {
				s := cl().ToSeq()
				if len(s) != 1 {
					return "ToSeq of the one-cell list has " + strconv.Itoa(len(s)) + " elements"
				}
				return chk("ToSeq()[0]", s[0])
			})
			add("Foreach", func() string {
				bad, n := "", 0
				cl().Foreach(func(x T) { n++; bad = first(bad, chk("Foreach", x)) })
				if n != 1 {
					return "Foreach of the one-cell list visited " + strconv.Itoa(n) + " elements"
				}
				return bad
			})
			add("list.Combine(l,l).ToSeq", func() string {
				l := cl()
				s := list.Combine(l, l).ToSeq()
				if len(s) != 2 {
					return "list.Combine(l,l) of the one-cell list has " + strconv.Itoa(len(s)) + " elements"
				}
				return first(chk("list.Combine(l,l).ToSeq()[0]", s[0]), chk("list.Combine(l,l).ToSeq()[1]", s[1]))
			})
		}
	}
	return ec
}

// ---- registry and combinations --------------------------------------------------------------

type elKindE struct {
	name    string
	labels  []string
	nilish  []bool
	ident   bool
	prepare func(vi, c, tok int, r *rand.Rand, inThunk func()) *elCase
}

func elReg[T any](k *elKind[T]) elKindE {
	e := elKindE{name: k.name, ident: k.ident, prepare: func(vi, c, tok int, r *rand.Rand, inThunk func()) *elCase {
		return elPrepare(k, vi, c, tok, r, inThunk)
	}}
	for _, v := range k.vals {
		e.labels = append(e.labels, v.label)
		e.nilish = append(e.nilish, v.nilish)
	}
	return e
}

var elKinds = []elKindE{
	elReg(elKindError), elReg(elKindAny), elReg(elKindShape), elReg(elKindList),
	elReg(elKindPtr), elReg(elKindSlice), elReg(elKindMap), elReg(elKindStruct), elReg(elKindFunc),
	elReg(elKindInt), elReg(elKindString),
}

type elCombo struct{ c, kind, vi int }

var elCombos = func() []elCombo {
	var out []elCombo
	for vi := 0; vi < 8; vi++ { // value classes outermost: neighbours in the numbering differ in everything
		for c := 0; c < nConstructs; c++ {
			for k := range elKinds {
				if vi < len(elKinds[k].labels) {
					out = append(out, elCombo{c, k, vi})
				}
			}
		}
	}
	return out
}()

// elNilish: is the result of the thunk under test a nil / zero value (or an interface holding one).
func elNilish(cb elCombo) bool {
	return cb.c == cMakeListHeadNone || elKinds[cb.kind].nilish[cb.vi]
}

func elClassName(nilish bool) string {
	if nilish {
		return "nil"
	}
	return "non-nil"
}

// elCell is the counter name of a (construct, element kind, nil / non-nil result) cell.
func elCell(c, kind int, nilish bool) string {
	return elConstructNames[c] + "/" + elKinds[kind].name + "/" + elClassName(nilish)
}

func elKeySuffix(nilish bool) string {
	if nilish {
		return "/nil-result"
	}
	return ""
}

// elemCases: cases per batch of the two families.
func elemCases(tier, family string) int {
	th := tier == "thorough"
	if family == "elem" {
		if th {
			return 9100
		}
		return 2200
	}
	if th {
		return 1820
	}
	return 730
}

// elemPerCombo: how often every combination is observed at least (exact by construction).
func elemPerCombo(tier, family string) int64 {
	l := layout(tier)
	n := l.elem
	if family == "concelem" {
		n = l.concelem
	}
	return int64(n * elemCases(tier, family) / len(elCombos))
}

func elCheckCounts(w *vrt.W, i int, ec *elCase, name, elem string, nilish bool, conc bool, when string, wit func() any) bool {
	suffix := ""
	if conc {
		suffix = "-concurrently"
	}
	if n := ec.execs.Load(); n > 1 {
		w.Violation(i, name+"/executed-more-than-once"+suffix+elKeySuffix(nilish),
			fmt.Sprintf("the thunk wrapped by %s (element type %s) ran %d times %s; it returns %s", name, elem, n, when, ec.shown), wit())
		return false
	}
	if n := ec.outer.Load(); n > 1 {
		w.Violation(i, name+"/outer-thunk-executed-more-than-once"+suffix,
			fmt.Sprintf("the TailCall thunk of %s ran %d times %s", name, n, when), wit())
		return false
	}
	if ec.badArgs.Load() > 0 {
		w.Violation(i, name+"/thunk-arguments", fmt.Sprintf("the function wrapped by %s received other arguments than the ones given at construction", name), wit())
		return false
	}
	return true
}

// ---- sequential -------------------------------------------------------------------------------

func runElemSeqCase(w *vrt.W, i, k int) {
	r := w.Rand(i)
	gi := k*elemCases(w.Tier, "elem") + i
	cb := elCombos[gi%len(elCombos)]
	kind := elKinds[cb.kind]
	name := elConstructNames[cb.c]
	nilish := elNilish(cb)
	tok := 1 + r.IntN(1000)
	nd := 2 + r.IntN(7)
	picks := make([]int, nd)
	for d := range picks {
		picks[d] = r.IntN(1 << 20)
	}
	var script []string
	wit := func() any {
		return map[string]any{"construct": name, "element_type": kind.name, "result": kind.labels[cb.vi], "token": tok, "demands": script}
	}
	dagEvals, twoPos := 0, 0
	w.Begin(i, name)
	w.Guard(i, wit, func() {
		ec := kind.prepare(cb.vi, cb.c, tok, r, nil)
		for d, p := range picks {
			dm := ec.menu[p%len(ec.menu)]
			script = append(script, dm.name)
			bad := dm.do()
			when := fmt.Sprintf("during %d sequential demands (%s)", d+1, strings.Join(script, ", "))
			if !elCheckCounts(w, i, ec, name, kind.name, nilish, false, when, wit) {
				return
			}
			if bad != "" {
				w.Violation(i, elBlame(ec, dm, name)+"/wrong-result-value"+elKeySuffix(nilish), fmt.Sprintf("%s of element type %s, demand #%d (%s): %s", name, kind.name, d+1, dm.name, bad), wit())
				return
			}
			if strings.HasPrefix(dm.name, "dag-extension") {
				dagEvals++
			}
			if strings.Contains(dm.name, "Map2") || strings.Contains(dm.name, "(l,l)") || dm.name == "call-twice" || strings.Contains(dm.name, "Zip") {
				twoPos++
			}
		}
		if ec.execs.Load() == 1 {
			w.Add("elem.seq.executed_exactly_once", 1)
		}
		if ec.zeroEval {
			w.Add("elem.seq.tailcall_returning_zero_eval", 1)
		}
		w.Add("elem.seq.dag_extensions_built", int64(len(ec.exts)))
	})
	w.Done(i)
	w.Hit("elem.seq/" + elCell(cb.c, cb.kind, nilish))
	w.Hit("elem.value/" + kind.name + "/" + kind.labels[cb.vi])
	for _, s := range script {
		w.Hit("elem.seq.demand/" + s)
	}
	w.Add("elem.seq.cases", 1)
	w.Add("elem.seq.demands", int64(len(script)))
	w.Add("elem.seq.repeated_demands", int64(len(script)-1))
	w.Add("elem.seq.dag_extension_evaluations", int64(dagEvals))
	w.Add("elem.seq.same_value_at_two_positions", int64(twoPos))
	w.Add("elem.seq.value_checks", int64(len(script)))
	if nilish {
		w.Add("elem.seq.nil_result_cases", 1)
	} else if kind.ident {
		w.Add("elem.seq.identity_checks", int64(len(script)))
	}
	w.Distinct(fmt.Sprintf("elseq:%s:%s:%s:%v", name, kind.name, kind.labels[cb.vi], script))
	if w.WantSample() && gi%97 == 0 {
		w.Sample(map[string]any{"kind": "result-value/sequential", "case": wit()})
	}
}

// ---- concurrent ----------------------------------------------------------------------------------

func runElemConcCase(w *vrt.W, i, k int) {
	r := w.Rand(i)
	gi := k*elemCases(w.Tier, "concelem") + i
	cb := elCombos[gi%len(elCombos)]
	kind := elKinds[cb.kind]
	name := elConstructNames[cb.c]
	nilish := elNilish(cb)
	tok := 1 + r.IntN(1000)
	g := 2 + r.IntN(31)
	if r.IntN(3) == 0 {
		g = 2 + r.IntN(3)
	}
	pre := make([]int, g)
	for x := range pre {
		pre[x] = r.IntN(5)
	}
	if r.IntN(3) == 0 { // everybody at once
		for x := range pre {
			pre[x] = 0
		}
	}
	thunkYields := r.IntN(9)
	picks := make([][]int, g)
	for id := range picks {
		picks[id] = make([]int, 1+r.IntN(3))
		for d := range picks[id] {
			picks[id][d] = r.IntN(1 << 20)
		}
	}
	scripts := make([][]string, g)
	wit := func() any {
		return map[string]any{"construct": name, "element_type": kind.name, "result": kind.labels[cb.vi], "token": tok, "goroutines": g,
			"yields_before_demand": pre, "yields_in_thunk": thunkYields, "demands_per_goroutine": scripts}
	}
	overlapped := false
	demands := 0
	w.Begin(i, name)
	w.Guard(i, wit, func() {
		obs := &roundObs{}
		ec := kind.prepare(cb.vi, cb.c, tok, r, func() {
			for y := 0; y < thunkYields; y++ {
				runtime.Gosched()
			}
			atomicMax(&obs.inThunk, obs.inside.Load())
		})
		todo := make([][]elDemand, g)
		for id := range picks {
			for _, p := range picks[id] {
				dm := ec.menu[p%len(ec.menu)]
				todo[id] = append(todo[id], dm)
				scripts[id] = append(scripts[id], dm.name)
				demands++
			}
		}
		bad := make([]string, g)
		badAt := make([]int, g)
		panics := release(g, pre, obs, func(id int) {
			for d, dm := range todo[id] {
				if s := dm.do(); s != "" && bad[id] == "" {
					bad[id], badAt[id] = s, d
				}
				if d+1 < len(todo[id]) {
					runtime.Gosched()
				}
			}
		})
		if len(panics) > 0 {
			w.Violation(i, name+"/panic", "panic in a concurrent requester: "+panics[0], wit())
			return
		}
		// own counters: the floors of the older conc family must not be fed from here
		ov := int64(obs.maxOverlap.Load())
		overlapped = ov >= 2
		w.Max("elem.conc.max_goroutines_overlapped_in_demand", ov)
		w.Max("elem.conc.max_callers_in_demand_while_thunk_ran", int64(obs.inThunk.Load()))
		w.Max("elem.conc.max_goroutines", int64(g))
		w.Add("elem.conc.goroutines", int64(g))
		if obs.inThunk.Load() >= 2 {
			w.Add("elem.conc.rounds_with_waiters_during_thunk", 1)
		}
		when := fmt.Sprintf("under %d goroutines making %d demands", g, demands)
		if !elCheckCounts(w, i, ec, name, kind.name, nilish, true, when, wit) {
			return
		}
		for id, s := range bad {
			if s != "" {
				dm := todo[id][badAt[id]]
				// the operation the demand goes through is blamed only when the same demand is
				// wrong again after the round while the plain demand is right; a transient
				// wrong value is the construct's
				site := name
				if dm.site != "" && ec.menu[0].do() == "" && dm.do() != "" {
					site = dm.site
				}
				w.Violation(i, site+"/wrong-result-value"+elKeySuffix(nilish), fmt.Sprintf("%s of element type %s, goroutine %d of %d (%s): %s", name, kind.name, id, g, dm.name, s), wit())
				return
			}
		}
		// the value is still there after the round
		if s := ec.menu[0].do(); s != "" {
			w.Violation(i, name+"/wrong-result-value"+elKeySuffix(nilish), fmt.Sprintf("%s of element type %s, demand after the concurrent round: %s", name, kind.name, s), wit())
			return
		}
		if !elCheckCounts(w, i, ec, name, kind.name, nilish, true, when+" and one more afterwards", wit) {
			return
		}
		if ec.execs.Load() == 1 {
			w.Add("elem.conc.executed_exactly_once", 1)
		}
	})
	w.Done(i)
	w.Hit("elem.conc/" + elCell(cb.c, cb.kind, nilish))
	for id := range scripts {
		for _, s := range scripts[id] {
			w.Hit("elem.conc.demand/" + s)
		}
	}
	w.Add("elem.conc.rounds", 1)
	w.Add("elem.conc.demands", int64(demands))
	if nilish {
		w.Add("elem.conc.nil_result_rounds", 1)
	}
	if overlapped {
		w.Add("elem.conc.rounds_with_overlap", 1)
		if nilish {
			w.Add("elem.conc.nil_result_rounds_with_overlap", 1)
		}
		w.Distinct(fmt.Sprintf("elconc:%s:%s:%s:%d:%v:%d:%v", name, kind.name, kind.labels[cb.vi], g, pre, thunkYields, scripts))
		if w.WantSample() && gi%97 == 0 {
			w.Sample(map[string]any{"kind": "result-value/concurrent", "case": wit()})
		}
	}
}

// elemFloors: every (construct, element kind, nil / non-nil) cell observed, sequentially and
// concurrently; every demand form used; repeated demands, two-position uses, DAG evaluations.
func elemFloors(tier string, f map[string]int64) {
	seqMin, concMin := elemPerCombo(tier, "elem"), elemPerCombo(tier, "concelem")
	for _, cb := range elCombos {
		n := elNilish(cb)
		f["hit.elem.seq/"+elCell(cb.c, cb.kind, n)] = seqMin
		f["hit.elem.conc/"+elCell(cb.c, cb.kind, n)] = concMin
		f["hit.elem.value/"+elKinds[cb.kind].name+"/"+elKinds[cb.kind].labels[cb.vi]] = seqMin * nConstructs
	}
	for _, d := range []string{"Get", "lazy.Run", "Map2(x,x)", "x.Map(id)", "lazy.FlatMap(x,Done)", "Map2(x.Map(id),x.FlatMap(Done))", "dag-extension.Get", "dag-extension.Run",
		"call", "call-twice", "lazy.Call(m).Get", "Map2(Call(m),Call(m))",
		"Head", "NonEmpty+Head", "list.Map(l,id).Head", "list.Zip(l,l).Head", "Unapply", "ToSeq", "Foreach", "list.Combine(l,l).ToSeq",
		"IsEmpty", "NonEmpty", "ToSeq(empty)", "Foreach(empty)", "list.Map(l,id).IsEmpty", "list.Combine(l,l).IsEmpty"} {
		f["hit.elem.seq.demand/"+d] = 60 // rarest forms: ~147 expected in quick (sd ~12)
		f["hit.elem.conc.demand/"+d] = 100
	}
	l := layout(tier)
	seqCases := int64(l.elem * elemCases(tier, "elem"))
	rounds := int64(l.concelem * elemCases(tier, "concelem"))
	f["elem.seq.cases"] = seqCases
	f["elem.seq.executed_exactly_once"] = seqCases
	f["elem.seq.repeated_demands"] = 3 * seqCases
	f["elem.seq.nil_result_cases"] = seqCases / 3
	f["elem.seq.identity_checks"] = seqCases
	f["elem.seq.same_value_at_two_positions"] = seqCases / 2
	f["elem.seq.dag_extension_evaluations"] = seqCases / 4
	f["elem.seq.tailcall_returning_zero_eval"] = 10
	f["elem.conc.rounds"] = rounds
	f["elem.conc.executed_exactly_once"] = rounds
	f["elem.conc.nil_result_rounds"] = rounds / 3
	f["elem.conc.rounds_with_overlap"] = rounds / 3
	f["elem.conc.nil_result_rounds_with_overlap"] = rounds / 8
	f["elem.conc.rounds_with_waiters_during_thunk"] = rounds / 8
}
