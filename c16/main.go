// C16 — lazy.Eval: trampolined evaluation is faithful, stack-safe and run-once.
//
// Nine kinds of batches (see layout()):
//
//	tree  : PRNG expression trees over Done/Call/TailCall/TailCall1..9/Func1..3/Map/FlatMap/Map2
//	        (methods and package functions) are evaluated by the library and by a strict
//	        interpreter of the same tree; every Call/TailCall* wrapper created carries its own
//	        execution counter (at most once although the root value is requested 1..3 times).
//	depth : tail-recursive programs at n = 10^3 … 2·10^6 (quick) / 2·10^7 (thorough); the number of
//	        frames (runtime.Callers) seen inside the thunks, relative to the frame that called
//	        Get, must stay under a constant for every n.
//	seq   : run-once under repeated requests from one goroutine (memo wrappers, list cells,
//	        whole lazy lists traversed twice).
//	conc  : the same targets shared by 2..32 goroutines released by a barrier, PRNG-chosen
//	        runtime.Gosched() yields; these batches run in the -race build (Config.RaceBatch).
//	dag   : expression DAGs — Eval VALUES bound once and used as sub-expression / extended by
//	        Map, FlatMap, Map2 several times (shared base with 0..20 pending continuations),
//	        built and evaluated in PRNG order, every binding evaluated at least twice (Get and
//	        lazy.Run), earlier-built extensions again after later ones were built; the strict
//	        interpreter evaluates the same DAG. An Eval is an immutable description: extending
//	        or evaluating one value must never change what another one evaluates to.
//	concdag : one shared base extended / evaluated by 2..32 goroutines at once (-race build).
//	elem    : every memoising construct at 11 element types, the thunk returning nil / zero /
//	        nil-inside-an-interface / non-nil values; run-once and value identity under repeated
//	        demands, Map2(x,x), DAG extensions (elem.go).
//	concelem : the elem cases shared by 2..32 goroutines (-race build).
//	elemtree : trees and DAGs of the tree / dag generators over Eval[any|error|*int|[]int|func|struct],
//	        every multiple of 3 encoded as nil / zero (elemtree.go).
//
// Discipline for everything built here: every value is used at least twice and earlier
// results are looked at again after later uses.
package main

import (
	"fmt"
	"math/rand/v2"
	"runtime"
	"sort"
	"strconv"
	"strings"
	"sync"
	"sync/atomic"

	"verif/vrt"

	"github.com/csgura/fp"
	"github.com/csgura/fp/fn1"
	"github.com/csgura/fp/lazy"
	"github.com/csgura/fp/list"
)

// ======================================================================================
// (1) expression trees
// ======================================================================================

const (
	kDone = iota
	kArg
	kCall
	kFuncN // lazy.Func1..3(f)(args) — Call wrappers
	kTailCall
	kTailCallN // lazy.TailCall1..9
	kMapM      // Eval.Map
	kMapF      // lazy.Map
	kFlatMapM  // Eval.FlatMap
	kFlatMapF  // lazy.FlatMap
	kMap2      // lazy.Map2
	kRef       // DAG cases only: an Eval value bound earlier, used (again) as a sub-expression
	nKinds
)

var kindNames = [nKinds]string{"Done", "Done(arg)", "Call", "FuncN", "TailCall", "TailCallN", "Eval.Map", "lazy.Map", "Eval.FlatMap", "lazy.FlatMap", "lazy.Map2", "shared-ref"}

// siteOf names the library call site of the outermost operation of an expression.
func siteOf(kind int) string {
	switch kind {
	case kDone, kArg:
		return "lazy.Done"
	case kCall:
		return "lazy.Call"
	case kFuncN:
		return "lazy.FuncN"
	case kTailCall:
		return "lazy.TailCall"
	case kTailCallN:
		return "lazy.TailCallN"
	case kMapM:
		return "lazy.Eval.Map"
	case kFlatMapM:
		return "lazy.Eval.FlatMap"
	case kRef:
		return "lazy.Eval"
	}
	return kindNames[kind]
}

type enode struct {
	kind int
	k    int   // constant of the node
	n    int   // arity for TailCallN / FuncN
	args []int // arguments for TailCallN / FuncN
	mode int   // FlatMap: 0 = continuation builds kid1 with env=v, 1 = v odd ? kid1 : kid2
	ref  int   // kRef: index of the binding
	kids []*enode
}

func (n *enode) String() string {
	var b strings.Builder
	n.write(&b)
	return b.String()
}

func (n *enode) write(b *strings.Builder) {
	switch n.kind {
	case kDone:
		fmt.Fprintf(b, "Done(%d)", n.k)
	case kArg:
		fmt.Fprintf(b, "Done(arg+%d)", n.k)
	case kCall:
		fmt.Fprintf(b, "Call(arg*3+%d)", n.k)
	case kFuncN:
		fmt.Fprintf(b, "Func%d%v", n.n, n.args)
	case kRef:
		fmt.Fprintf(b, "v%d", n.ref)
	case kTailCallN:
		fmt.Fprintf(b, "TailCall%d%v(", n.n, n.args)
		n.kids[0].write(b)
		b.WriteString(")")
	default:
		b.WriteString(kindNames[n.kind])
		if n.kind == kFlatMapM || n.kind == kFlatMapF {
			fmt.Fprintf(b, "/m%d", n.mode)
		}
		b.WriteString("(")
		for i, k := range n.kids {
			if i > 0 {
				b.WriteString(", ")
			}
			k.write(b)
		}
		fmt.Fprintf(b, "; %d)", n.k)
	}
}

func mapFn(k, v int) int     { return v*5 + k }
func map2Fn(k, a, b int) int { return a*31 + b*17 + k }
func callFn(k, env int) int  { return env*3 + k }
func mixArgs(v int, a []int) int {
	r := v * 7
	for i, x := range a {
		r += x * (i + 2)
	}
	return r
}

// sctx is the reference: direct evaluation of the expression, no laziness. In DAG cases vals
// holds the values of the bindings evaluated so far (sharing is irrelevant for values), cost
// the number of node visits one evaluation of that binding performs with every shared
// sub-expression expanded (the bound for the logical clock of the library run).
type sctx struct {
	hits   *[nKinds]int64
	vals   []int
	cost   []int64
	visits int64
}

func strict(n *enode, env int, hits *[nKinds]int64) int {
	return (&sctx{hits: hits}).eval(n, env)
}

func (s *sctx) eval(n *enode, env int) int {
	s.hits[n.kind]++
	s.visits++
	switch n.kind {
	case kDone:
		return n.k
	case kArg:
		return env + n.k
	case kCall:
		return callFn(n.k, env)
	case kFuncN:
		return mixArgs(n.k, n.args)
	case kRef:
		s.visits += s.cost[n.ref]
		return s.vals[n.ref]
	case kTailCall:
		return s.eval(n.kids[0], env)
	case kTailCallN:
		return mixArgs(s.eval(n.kids[0], env), n.args)
	case kMapM, kMapF:
		return mapFn(n.k, s.eval(n.kids[0], env))
	case kFlatMapM, kFlatMapF:
		v := s.eval(n.kids[0], env)
		next := n.kids[1]
		if n.mode == 1 && v&1 == 0 {
			next = n.kids[2]
		}
		return s.eval(next, v)
	case kMap2:
		a := s.eval(n.kids[0], env)
		b := s.eval(n.kids[1], env)
		return map2Fn(n.k, a, b)
	}
	panic("bad kind")
}

type cell struct {
	name string
	n    int
}

type tctx struct {
	cells  []*cell
	bound  []lazy.Eval[int] // DAG cases: the Eval VALUE of every binding, built exactly once
	budget *vrt.Budget      // DAG cases: logical clock ticked by every user callback
}

func (c *tctx) tick() {
	if c.budget != nil {
		c.budget.Tick()
	}
}

func (c *tctx) cell(name string) *cell {
	x := &cell{name: name}
	c.cells = append(c.cells, x)
	return x
}

// tailCallN dispatches to lazy.TailCall1..9; body receives the arguments as the library
// passed them.
func tailCallN(n int, a []int, body func(a []int) lazy.Eval[int]) lazy.Eval[int] {
	switch n {
	case 1:
		return lazy.TailCall1(func(a1 int) lazy.Eval[int] { return body([]int{a1}) }, a[0])
	case 2:
		return lazy.TailCall2(func(a1, a2 int) lazy.Eval[int] { return body([]int{a1, a2}) }, a[0], a[1])
	case 3:
		return lazy.TailCall3(func(a1, a2, a3 int) lazy.Eval[int] { return body([]int{a1, a2, a3}) }, a[0], a[1], a[2])
	case 4:
		return lazy.TailCall4(func(a1, a2, a3, a4 int) lazy.Eval[int] { return body([]int{a1, a2, a3, a4}) }, a[0], a[1], a[2], a[3])
	case 5:
		return lazy.TailCall5(func(a1, a2, a3, a4, a5 int) lazy.Eval[int] { return body([]int{a1, a2, a3, a4, a5}) }, a[0], a[1], a[2], a[3], a[4])
	case 6:
		return lazy.TailCall6(func(a1, a2, a3, a4, a5, a6 int) lazy.Eval[int] { return body([]int{a1, a2, a3, a4, a5, a6}) }, a[0], a[1], a[2], a[3], a[4], a[5])
	case 7:
		return lazy.TailCall7(func(a1, a2, a3, a4, a5, a6, a7 int) lazy.Eval[int] { return body([]int{a1, a2, a3, a4, a5, a6, a7}) }, a[0], a[1], a[2], a[3], a[4], a[5], a[6])
	case 8:
		return lazy.TailCall8(func(a1, a2, a3, a4, a5, a6, a7, a8 int) lazy.Eval[int] {
			return body([]int{a1, a2, a3, a4, a5, a6, a7, a8})
		}, a[0], a[1], a[2], a[3], a[4], a[5], a[6], a[7])
	case 9:
		return lazy.TailCall9(func(a1, a2, a3, a4, a5, a6, a7, a8, a9 int) lazy.Eval[int] {
			return body([]int{a1, a2, a3, a4, a5, a6, a7, a8, a9})
		}, a[0], a[1], a[2], a[3], a[4], a[5], a[6], a[7], a[8])
	}
	panic("bad arity")
}

// build constructs the library Eval for the expression. A kRef node is the Eval value that
// was built for the binding — the same value at every use, never rebuilt.
func build(c *tctx, n *enode, env int) lazy.Eval[int] {
	switch n.kind {
	case kDone:
		return lazy.Done(n.k)
	case kArg:
		return lazy.Done(env + n.k)
	case kRef:
		return c.bound[n.ref]
	case kCall:
		x := c.cell("Call")
		return lazy.Call(func() int { c.tick(); x.n++; return callFn(n.k, env) })
	case kFuncN:
		x := c.cell("Func" + strconv.Itoa(n.n))
		switch n.n {
		case 1:
			return lazy.Func1(func(a int) int { c.tick(); x.n++; return mixArgs(n.k, []int{a}) })(n.args[0])
		case 2:
			return lazy.Func2(func(a, b int) int { c.tick(); x.n++; return mixArgs(n.k, []int{a, b}) })(n.args[0], n.args[1])
		default:
			return lazy.Func3(func(a, b, d int) int { c.tick(); x.n++; return mixArgs(n.k, []int{a, b, d}) })(n.args[0], n.args[1], n.args[2])
		}
	case kTailCall:
		x := c.cell("TailCall")
		return lazy.TailCall(func() lazy.Eval[int] { c.tick(); x.n++; return build(c, n.kids[0], env) })
	case kTailCallN:
		x := c.cell("TailCall" + strconv.Itoa(n.n))
		return tailCallN(n.n, n.args, func(a []int) lazy.Eval[int] {
			c.tick()
			x.n++
			return build(c, n.kids[0], env).Map(func(v int) int { return mixArgs(v, a) })
		})
	case kMapM:
		return build(c, n.kids[0], env).Map(func(v int) int { c.tick(); return mapFn(n.k, v) })
	case kMapF:
		return lazy.Map(build(c, n.kids[0], env), func(v int) int { c.tick(); return mapFn(n.k, v) })
	case kFlatMapM, kFlatMapF:
		cont := func(v int) lazy.Eval[int] {
			c.tick()
			next := n.kids[1]
			if n.mode == 1 && v&1 == 0 {
				next = n.kids[2]
			}
			return build(c, next, v)
		}
		if n.kind == kFlatMapM {
			return build(c, n.kids[0], env).FlatMap(cont)
		}
		return lazy.FlatMap(build(c, n.kids[0], env), cont)
	case kMap2:
		return lazy.Map2(build(c, n.kids[0], env), build(c, n.kids[1], env), func(a, b int) int { c.tick(); return map2Fn(n.k, a, b) })
	}
	panic("bad kind")
}

type tgen struct {
	r        *rand.Rand
	budget   int
	maxDepth int
	deferred bool // a Call/TailCall* node exists below a FlatMap/Map2
	depthMax int
	// DAG cases: bindings 0..nbound-1 may be used as sub-expressions (kRef leaves); hub is
	// the binding preferred for re-use. nbound == 0 (tree cases) draws nothing extra.
	nbound int
	hub    int
}

func (g *tgen) refNode() *enode {
	j := g.hub
	if j >= g.nbound || g.r.IntN(3) == 0 {
		j = g.r.IntN(g.nbound)
	}
	return &enode{kind: kRef, ref: j}
}

func (g *tgen) gen(depth int, underBind bool) *enode {
	r := g.r
	if depth > g.depthMax {
		g.depthMax = depth
	}
	g.budget--
	leaf := g.budget <= 0 || depth >= g.maxDepth || r.IntN(5) == 0
	n := &enode{k: r.IntN(19) - 9}
	if leaf {
		if g.nbound > 0 && r.IntN(3) == 0 {
			return g.refNode()
		}
		switch r.IntN(5) {
		case 0:
			n.kind = kDone
		case 1:
			n.kind = kArg
		case 2, 3:
			n.kind = kCall
			if underBind {
				g.deferred = true
			}
		case 4:
			n.kind = kFuncN
			n.n = 1 + r.IntN(3)
			n.args = make([]int, n.n)
			for i := range n.args {
				n.args[i] = r.IntN(11) - 5
			}
			if underBind {
				g.deferred = true
			}
		}
		return n
	}
	switch c := r.IntN(12); {
	case c < 2:
		n.kind = kTailCall
		n.kids = []*enode{g.gen(depth+1, underBind)}
		if underBind {
			g.deferred = true
		}
	case c < 4:
		n.kind = kTailCallN
		n.n = 1 + r.IntN(9)
		n.args = make([]int, n.n)
		for i := range n.args {
			n.args[i] = r.IntN(11) - 5
		}
		n.kids = []*enode{g.gen(depth+1, underBind)}
		if underBind {
			g.deferred = true
		}
	case c < 5:
		n.kind = kMapM
		n.kids = []*enode{g.gen(depth+1, underBind)}
	case c < 6:
		n.kind = kMapF
		n.kids = []*enode{g.gen(depth+1, underBind)}
	case c < 10:
		n.kind = kFlatMapM
		if r.IntN(3) == 0 {
			n.kind = kFlatMapF
		}
		n.mode = r.IntN(2)
		n.kids = []*enode{g.gen(depth+1, true), g.gen(depth+1, underBind)}
		if n.mode == 1 {
			n.kids = append(n.kids, g.gen(depth+1, underBind))
		}
	default:
		n.kind = kMap2
		n.kids = []*enode{g.gen(depth+1, true), g.gen(depth+1, true)}
	}
	return n
}

var treeHits [nKinds]int64

func runTreeCase(w *vrt.W, i int) {
	r := w.Rand(i)
	g := &tgen{r: r, budget: 3 + r.IntN(38), maxDepth: 2 + r.IntN(9)}
	root := g.gen(0, false)
	env0 := r.IntN(7) - 3
	reps := 1 + r.IntN(3)
	if reps == 1 { // every value is requested at least twice
		reps = 2
	}
	desc := root.String()
	wit := func() any { return map[string]any{"tree": desc, "env": env0, "gets": reps} }
	w.Begin(i, "lazy.Eval.Get/tree")
	w.Guard(i, wit, func() {
		var hits [nKinds]int64
		want := strict(root, env0, &hits)
		c := &tctx{}
		e := build(c, root, env0)
		for k := 0; k < reps; k++ {
			got := e.Get()
			if got != want {
				w.Violation(i, "lazy.Eval.Get/tree-value", fmt.Sprintf("Get #%d = %d, strict evaluation = %d\ntree: %s (arg=%d)", k+1, got, want, desc, env0), wit())
				return
			}
		}
		if r.IntN(2) == 0 { // lazy.Run on the same value is Get
			if got := lazy.Run(e); got != want {
				w.Violation(i, "lazy.Run/tree-value", fmt.Sprintf("Run = %d, strict evaluation = %d\ntree: %s", got, want, desc), wit())
				return
			}
			reps++
		}
		executed := int64(0)
		for _, x := range c.cells {
			if x.n > 1 {
				w.Violation(i, "lazy."+x.name+"/executed-more-than-once", fmt.Sprintf("a %s thunk ran %d times while the root value was requested %d times\ntree: %s", x.name, x.n, reps, desc), wit())
				return
			}
			executed += int64(x.n)
		}
		for k, h := range hits {
			treeHits[k] += h
		}
		w.Add("tree.thunks_created", int64(len(c.cells)))
		w.Add("tree.thunks_executed", executed)
		if reps > 1 {
			w.Add("tree.repeated_get", 1)
		}
	})
	w.Done(i)
	w.Add("trees", 1)
	if g.deferred && g.depthMax >= 2 {
		w.Distinct("tree:" + desc + "@" + strconv.Itoa(env0))
		if w.WantSample() && len(desc) < 300 {
			w.Sample(map[string]any{"kind": "tree", "tree": desc, "arg": env0, "gets": reps})
		}
	}
}

// ======================================================================================
// (1b) expression DAGs: Eval values bound once, used and extended several times
// ======================================================================================

// A DAG case is a list of bindings v0..v(m-1). The expression of vj may use earlier bindings
// as sub-expressions (kRef); the library side builds the Eval VALUE of each binding exactly
// once and every use is that same value. Most bindings are direct extensions of one "hub"
// binding (Map / FlatMap / first or second operand of Map2, method and package-function
// forms) followed by a chain of further pending continuations; the hub itself carries a chain
// of 0..20 pending continuations. Building and evaluating are interleaved by a PRNG schedule;
// every binding is evaluated at least twice, by Get or lazy.Run, and all of them again after
// the last one was built. An Eval is an immutable description: whatever was built from it
// later, every binding must keep evaluating to the value of strict evaluation.

type dagOp struct {
	op byte // 'b' build, 'g' Get, 'r' lazy.Run
	j  int
}

type dagCase struct {
	binds  []*enode
	ops    []dagOp
	spine  []int   // pending continuations on the outermost spine of binding j
	direct [][]int // bindings directly extended by binding j (at build time or inside a continuation)
	extBy  []int   // how many extension sites use binding j as their base
	refs   int
}

var extNames = []string{"Eval.Map(v)", "lazy.Map(v)", "Eval.FlatMap(v)", "lazy.FlatMap(v)", "lazy.Map2(v,x)", "lazy.Map2(x,v)", "lazy.Map2(v,v)", "alias-then-chain"}

func chainLen(r *rand.Rand) int {
	switch r.IntN(4) {
	case 0:
		return r.IntN(4)
	default:
		return r.IntN(21)
	}
}

// wrap puts one more pending continuation on top of e.
func (g *tgen) wrap(e *enode) *enode {
	r := g.r
	n := &enode{k: r.IntN(19) - 9}
	switch r.IntN(6) {
	case 0, 1:
		n.kind = kMapM
		n.kids = []*enode{e}
	case 2:
		n.kind = kMapF
		n.kids = []*enode{e}
	default:
		n.kind = kFlatMapM
		if r.IntN(3) == 0 {
			n.kind = kFlatMapF
		}
		n.kids = []*enode{e, g.small()}
	}
	return n
}

// small: a leaf or a tiny expression (possibly using shared bindings).
func (g *tgen) small() *enode {
	sub := &tgen{r: g.r, budget: 1 + g.r.IntN(4), maxDepth: 1 + g.r.IntN(2), nbound: g.nbound, hub: g.hub}
	return sub.gen(0, true)
}

func genDag(r *rand.Rand) *dagCase {
	m := 3 + r.IntN(6)
	d := &dagCase{}
	hub := 0
	for j := 0; j < m; j++ {
		g := &tgen{r: r, nbound: j, hub: hub}
		var e *enode
		L := chainLen(r)
		switch {
		case j == 0:
			g.budget, g.maxDepth = 1+r.IntN(5), 1+r.IntN(3)
			e = g.gen(0, false)
		case r.IntN(10) < 7:
			ref := g.refNode()
			k := r.IntN(19) - 9
			switch x := r.IntN(len(extNames)); x {
			case 0:
				e = &enode{kind: kMapM, k: k, kids: []*enode{ref}}
			case 1:
				e = &enode{kind: kMapF, k: k, kids: []*enode{ref}}
			case 2, 3:
				e = &enode{kind: kFlatMapM, k: k, kids: []*enode{ref, g.small()}}
				if x == 3 {
					e.kind = kFlatMapF
				}
			case 4:
				e = &enode{kind: kMap2, k: k, kids: []*enode{ref, g.small()}}
			case 5:
				e = &enode{kind: kMap2, k: k, kids: []*enode{g.small(), ref}}
			case 6:
				e = &enode{kind: kMap2, k: k, kids: []*enode{ref, &enode{kind: kRef, ref: ref.ref}}}
			default:
				e = ref
				if L == 0 {
					L = 1
				}
			}
			if r.IntN(3) != 0 { // most extensions stay short
				L = r.IntN(3)
				if e.kind == kRef {
					L++
				}
			}
		default:
			g.budget, g.maxDepth = 2+r.IntN(10), 1+r.IntN(4)
			e = g.gen(0, false)
		}
		for x := 0; x < L; x++ {
			e = g.wrap(e)
		}
		d.binds = append(d.binds, e)
		if j > 0 && r.IntN(6) == 0 { // sometimes move the hub to a later binding
			hub = j
		}
	}
	// schedule: builds in order, evaluations of already built bindings in between, then
	// every binding 2..3 more times in PRNG order
	for j := 0; j < m; j++ {
		d.ops = append(d.ops, dagOp{'b', j})
		if j >= 1 {
			for t := r.IntN(3); t > 0; t-- {
				d.ops = append(d.ops, dagOp{'g', r.IntN(j + 1)})
			}
		}
	}
	var tail []dagOp
	for j := 0; j < m; j++ {
		for t := 2 + r.IntN(2); t > 0; t-- {
			tail = append(tail, dagOp{'g', j})
		}
	}
	r.Shuffle(len(tail), func(a, b int) { tail[a], tail[b] = tail[b], tail[a] })
	d.ops = append(d.ops, tail...)
	for k := range d.ops {
		if d.ops[k].op == 'g' && r.IntN(3) == 0 {
			d.ops[k].op = 'r'
		}
	}
	// structure census
	d.spine = make([]int, m)
	d.direct = make([][]int, m)
	d.extBy = make([]int, m)
	for j, e := range d.binds {
		d.spine[j] = d.spineLen(e)
		d.census(j, e)
	}
	return d
}

func (d *dagCase) spineLen(n *enode) int {
	switch n.kind {
	case kMapM, kMapF, kFlatMapM, kFlatMapF, kMap2:
		return 1 + d.spineLen(n.kids[0])
	case kTailCall, kTailCallN:
		return 1
	case kRef:
		return d.spine[n.ref]
	}
	return 0
}

func (d *dagCase) census(j int, n *enode) {
	if n.kind == kRef {
		d.refs++
	}
	ext := func(k *enode) {
		if k.kind == kRef {
			d.extBy[k.ref]++
			d.direct[j] = append(d.direct[j], k.ref)
		}
	}
	switch n.kind {
	case kMapM, kMapF, kFlatMapM, kFlatMapF:
		ext(n.kids[0])
	case kMap2:
		ext(n.kids[0])
		ext(n.kids[1]) // extended by Map when the continuation of Map2 runs
	}
	for _, k := range n.kids {
		d.census(j, k)
	}
}

func (d *dagCase) String() string {
	var b strings.Builder
	for j, e := range d.binds {
		fmt.Fprintf(&b, "v%d = ", j)
		e.write(&b)
		b.WriteString("; ")
	}
	b.WriteString("schedule:")
	for _, o := range d.ops {
		fmt.Fprintf(&b, " %c%d", o.op, o.j)
	}
	return b.String()
}

func contains(l []int, v int) bool {
	for _, x := range l {
		if x == v {
			return true
		}
	}
	return false
}

var dagHits [nKinds]int64

func runDagCase(w *vrt.W, i int) {
	r := w.Rand(i)
	d := genDag(r)
	env0 := r.IntN(7) - 3
	m := len(d.binds)
	desc := d.String()
	wit := func() any { return map[string]any{"dag": desc, "env": env0} }
	// reference first: values and evaluation cost of every binding
	var hits [nKinds]int64
	sc := &sctx{hits: &hits, vals: make([]int, 0, m), cost: make([]int64, 0, m)}
	for _, e := range d.binds {
		sc.visits = 0
		v := sc.eval(e, env0)
		sc.vals = append(sc.vals, v)
		sc.cost = append(sc.cost, sc.visits)
	}
	evals, lateEvals, interleaved := 0, 0, 0
	nontrivial := false
	w.Begin(i, "lazy.Eval.Get/dag")
	w.Guard(i, wit, func() {
		c := &tctx{}
		built := 0
		evalCount := make([]int, m)
		for _, o := range d.ops {
			if o.op == 'b' {
				w.Site(siteOf(d.binds[o.j].kind) + "/dag")
				c.budget = nil
				c.bound = append(c.bound, build(c, d.binds[o.j], env0))
				built++
				continue
			}
			site := siteOf(d.binds[o.j].kind)
			w.Site(site + "/dag")
			c.budget = vrt.NewBudget(16*sc.cost[o.j]+256, "user callbacks during one evaluation of a shared Eval")
			var got int
			if o.op == 'g' {
				got = c.bound[o.j].Get()
			} else {
				got = lazy.Run(c.bound[o.j])
			}
			c.budget = nil
			evals++
			evalCount[o.j]++
			if built < m {
				interleaved++
			}
			late := false
			for _, h := range d.direct[o.j] {
				for y := o.j + 1; y < built; y++ {
					if contains(d.direct[y], h) {
						late = true
					}
				}
			}
			if late {
				lateEvals++
				if evalCount[o.j] >= 2 {
					nontrivial = true
				}
			}
			if got != sc.vals[o.j] {
				how := "Get"
				if o.op == 'r' {
					how = "lazy.Run"
				}
				w.Violation(i, site+"/shared-eval-value", fmt.Sprintf("%s of v%d (evaluation #%d of it, %d of %d bindings built) = %d, strict evaluation = %d\nv%d = %s\nprogram: %s (arg=%d)",
					how, o.j, evalCount[o.j], built, m, got, sc.vals[o.j], o.j, d.binds[o.j], desc, env0), wit())
				return
			}
		}
		executed := int64(0)
		for _, x := range c.cells {
			if x.n > 1 {
				w.Violation(i, "lazy."+x.name+"/executed-more-than-once", fmt.Sprintf("a %s thunk ran %d times in a program with shared Eval values (%d evaluations)\nprogram: %s", x.name, x.n, evals, desc), wit())
				return
			}
			executed += int64(x.n)
		}
		w.Add("dag.thunks_created", int64(len(c.cells)))
		w.Add("dag.thunks_executed", executed)
	})
	w.Done(i)
	for k, h := range hits {
		dagHits[k] += h
	}
	w.Add("dag.cases", 1)
	w.Add("dag.bindings", int64(m))
	w.Add("dag.shared_uses", int64(d.refs))
	w.Add("dag.evaluations", int64(evals))
	w.Add("dag.evaluations_before_all_built", int64(interleaved))
	w.Add("dag.earlier_extension_evaluated_after_later_one_built", int64(lateEvals))
	for j := 0; j < m; j++ {
		if d.extBy[j] >= 2 {
			w.Add("dag.bases_extended_twice_or_more", 1)
			w.Max("dag.max_extensions_of_one_base", int64(d.extBy[j]))
			w.Max("dag.max_pending_on_shared_base", int64(d.spine[j]))
			if d.spine[j] <= 20 {
				w.Hit("dag.pending_on_shared_base/" + strconv.Itoa(d.spine[j]))
			} else {
				w.Hit("dag.pending_on_shared_base/>20")
			}
		}
	}
	if nontrivial {
		w.Distinct("dag:" + desc + "@" + strconv.Itoa(env0))
		if w.WantSample() && len(desc) < 500 {
			w.Sample(map[string]any{"kind": "dag", "program": desc, "arg": env0, "values": sc.vals})
		}
	}
}

// ======================================================================================
// (2) tail-recursive programs: frames inside the thunks
// ======================================================================================

type sampler struct {
	total, base, max int
	samples          int64
	pcs              [600]uintptr
	// second evaluation of the same Eval value (small n only)
	again, first, second int
}

// twice evaluates e and, where the memoised chain of n steps fits in memory, evaluates the
// same value a second time: every value the check builds is used at least twice.
func twice(e lazy.Eval[int], n int, s *sampler, run bool) int {
	var got int
	if run {
		got = lazy.Run(e)
	} else {
		got = e.Get()
	}
	if n <= 100000 {
		s.again++
		s.first = got
		if run {
			s.second = e.Get()
		} else {
			s.second = lazy.Run(e)
		}
	}
	return got
}

func (s *sampler) sample(rem int) {
	if rem < 64 || s.total-rem < 1024 || rem&1023 == 0 {
		d := runtime.Callers(0, s.pcs[:]) - s.base
		if d > s.max {
			s.max = d
		}
		s.samples++
	}
}

type prog struct {
	name string
	site string
	run  func(n int, s *sampler) (got, want int)
}

func countDown(n int, s *sampler) lazy.Eval[int] {
	s.sample(n)
	if n == 0 {
		return lazy.Done(42)
	}
	return lazy.TailCall(func() lazy.Eval[int] { return countDown(n-1, s) })
}

type accSum struct{ s *sampler }

func (p accSum) sum(n, acc int) lazy.Eval[int] {
	p.s.sample(n)
	if n == 0 {
		return lazy.Done(acc)
	}
	return lazy.TailCall2(p.sum, n-1, acc+n)
}

type evenOdd struct{ s *sampler }

func (p evenOdd) even(n int) lazy.Eval[int] {
	p.s.sample(n)
	if n == 0 {
		return lazy.Done(1)
	}
	return lazy.TailCall1(p.odd, n-1)
}
func (p evenOdd) odd(n int) lazy.Eval[int] {
	p.s.sample(n)
	if n == 0 {
		return lazy.Done(0)
	}
	return lazy.TailCall1(p.even, n-1)
}

// bind in tail position: Done(n).FlatMap(v => v==0 ? Done : TailCall1(loop, v-1))
type bindLoop struct{ s *sampler }

func (p bindLoop) loop(n int) lazy.Eval[int] {
	return lazy.Done(n).FlatMap(func(v int) lazy.Eval[int] {
		p.s.sample(v)
		if v == 0 {
			return lazy.Done(-7)
		}
		return lazy.TailCall1(p.loop, v-1)
	})
}

func weighted(a []int) int {
	r := 0
	for i, x := range a {
		r = r*3 + x*(i+1)
	}
	return r
}

// rotate: (n, x2..xN) -> (n-1, x3..xN, x2+n); for N==1 only the counter.
func rotNext(a []int) []int {
	N := len(a)
	nx := make([]int, N)
	nx[0] = a[0] - 1
	if N >= 2 {
		copy(nx[1:], a[2:])
		nx[N-1] = a[1] + a[0]
	}
	return nx
}

func rotProg(N int) prog {
	return prog{name: "rotate-args/TailCall" + strconv.Itoa(N), site: "lazy.TailCall" + strconv.Itoa(N), run: func(n int, s *sampler) (int, int) {
		s.base = runtime.Callers(0, s.pcs[:])
		var step func(a []int) lazy.Eval[int]
		step = func(a []int) lazy.Eval[int] {
			s.sample(a[0])
			if a[0] == 0 {
				return lazy.Done(weighted(a))
			}
			return tailCallN(N, rotNext(a), step)
		}
		init := make([]int, N)
		init[0] = n
		for i := 1; i < N; i++ {
			init[i] = i * 3
		}
		// reference: plain loop
		ref := append([]int(nil), init...)
		for ref[0] != 0 {
			ref = rotNext(ref)
		}
		want := weighted(ref)
		e := tailCallN(N, init, step)
		return twice(e, n, s, false), want
	}}
}

func programs() []prog {
	ps := []prog{
		{name: "count-down/TailCall", site: "lazy.TailCall", run: func(n int, s *sampler) (int, int) {
			s.base = runtime.Callers(0, s.pcs[:])
			e := countDown(n, s)
			return twice(e, n, s, false), 42
		}},
		{name: "accumulator-sum/TailCall2", site: "lazy.TailCall2", run: func(n int, s *sampler) (int, int) {
			s.base = runtime.Callers(0, s.pcs[:])
			e := accSum{s}.sum(n, 0)
			return twice(e, n, s, false), n * (n + 1) / 2
		}},
		{name: "mutual-even-odd/TailCall1", site: "lazy.TailCall1", run: func(n int, s *sampler) (int, int) {
			s.base = runtime.Callers(0, s.pcs[:])
			e := evenOdd{s}.even(n)
			want := 1
			if n%2 == 1 {
				want = 0
			}
			return twice(e, n, s, false), want
		}},
		{name: "bind-in-tail-position/FlatMap+TailCall1", site: "lazy.Eval.FlatMap", run: func(n int, s *sampler) (int, int) {
			s.base = runtime.Callers(0, s.pcs[:])
			e := bindLoop{s}.loop(n)
			return twice(e, n, s, true), -7
		}},
	}
	for N := 1; N <= 9; N++ {
		ps = append(ps, rotProg(N))
	}
	return ps
}

func depths(tier string) []int {
	d := []int{1000, 10000, 100000, 1000000, 2000000}
	if tier == "thorough" {
		d = append(d, 10000000, 20000000)
	}
	return d
}

const frameBound = 64

// smallDepths: the first sizes run in their own batch, so that their verdicts survive when
// the large sizes kill the worker of a linear-stack implementation.
const smallDepths = 3

func runDepthCase(w *vrt.W, p prog, i int, large bool) {
	ds := depths(w.Tier)
	di := i
	if large {
		di = smallDepths + i
	}
	n := ds[di]
	if di > 0 && di < len(ds)-1 {
		// interior sizes are jittered by the case PRNG; the end points are exact
		n -= w.Rand(i).IntN(n / 10)
	}
	s := &sampler{total: n}
	wit := func() any { return map[string]any{"program": p.name, "n": n} }
	w.Begin(i, p.site+"/"+p.name)
	w.Guard(i, wit, func() {
		got, want := p.run(n, s)
		if got != want {
			w.Violation(i, p.site+"/tail-recursion-result", fmt.Sprintf("%s at n=%d evaluates to %d, the plain loop gives %d", p.name, n, got, want), wit())
		}
		if s.again > 0 && s.second != s.first {
			w.Violation(i, p.site+"/second-evaluation-differs", fmt.Sprintf("%s at n=%d: the first evaluation of the Eval gives %d, a second evaluation of the same value %d", p.name, n, s.first, s.second), wit())
		}
		if s.max > frameBound {
			w.Violation(i, p.site+"/stack-grows-with-depth", fmt.Sprintf("%s at n=%d: %d frames observed inside a thunk above the frame that called Get (bound %d, independent of n)", p.name, n, s.max, frameBound), wit())
		}
	})
	w.Done(i)
	w.Hit("depth/" + p.name)
	w.Add("depth.cases", 1)
	w.Add("depth.frame_samples", s.samples)
	w.Add("depth.steps", int64(n))
	w.Add("depth.evaluated_twice", int64(s.again))
	w.Max("frames.n<="+strconv.Itoa(ds[di]), int64(s.max))
	w.Max("frames.program."+p.name, int64(s.max))
	w.Distinct("depth:" + p.name + ":" + strconv.Itoa(n))
	if di == len(ds)-1 && w.WantSample() {
		w.Sample(map[string]any{"kind": "tail-recursion", "program": p.name, "n": n, "max_frames_inside_thunk": s.max, "frame_samples": s.samples})
	}
}

// ======================================================================================
// (3) run-once targets
// ======================================================================================

// A target wraps a thunk body with one of the memoising constructs and returns the getter
// shared by all requesters.
type target struct {
	name string
	mk   func(body func() int) func() int
}

func idInt(v int) int { return v }

var targets = []target{
	{"lazy.Call", func(body func() int) func() int { return lazy.Call(body).Get }},
	{"lazy.TailCall", func(body func() int) func() int {
		return lazy.TailCall(func() lazy.Eval[int] { return lazy.Done(body()) }).Get
	}},
	{"lazy.TailCallN", func(body func() int) func() int {
		return lazy.TailCall3(func(a, b, c int) lazy.Eval[int] { return lazy.Done(body() + a + b + c) }, 1, 2, -3).Get
	}},
	{"lazy.Memoize", func(body func() int) func() int { return lazy.Memoize(body) }},
	{"fp.Memoize", func(body func() int) func() int {
		m := fp.Memoize(body)
		return func() int { return m.Apply() }
	}},
	{"fn1.Memoize", func(body func() int) func() int {
		m := fn1.Memoize(func(a int) int { return body() + a })
		return func() int { return m(5) - 5 }
	}},
	{"lazy.Func1", func(body func() int) func() int {
		return lazy.Func1(func(a int) int { return body() + a })(0).Get
	}},
	{"lazy.Call+derived", func(body func() int) func() int {
		e := lazy.Call(body)
		return func() int {
			return lazy.Map2(e.Map(idInt), e.FlatMap(lazy.Done[int]), func(a, b int) int {
				if a != b {
					return -1
				}
				return a
			}).Get()
		}
	}},
	{"lazy.TailCall+derived", func(body func() int) func() int {
		e := lazy.TailCall(func() lazy.Eval[int] { return lazy.Call(body) })
		return func() int {
			return lazy.Map2(e, lazy.Map(e, idInt), func(a, b int) int {
				if a != b {
					return -1
				}
				return a
			}).Get()
		}
	}},
	{"fp.MakeList/head", func(body func() int) func() int {
		l := fp.MakeList(func() fp.Option[int] { return fp.Some(body()) }, func() fp.List[int] { return list.Empty[int]() })
		return func() int {
			if l.IsEmpty() || !l.NonEmpty() {
				return -1
			}
			h, _ := l.Unapply()
			if h != l.Head() {
				return -2
			}
			return h
		}
	}},
	{"fp.MakeList/tail", func(body func() int) func() int {
		l := fp.MakeList(func() fp.Option[int] { return fp.Some(0) }, func() fp.List[int] { return list.Of(body()) })
		return func() int { return l.Tail().Head() }
	}},
	{"list.Generate/cell", func(body func() int) func() int {
		l := list.Generate(func(i int) fp.Option[int] {
			if i == 0 {
				return fp.Some(body())
			}
			return fp.None[int]()
		})
		return func() int { return l.Head() }
	}},
	{"list.Map/cell", func(body func() int) func() int {
		l := list.Map(list.Of(1), func(int) int { return body() })
		return func() int { return l.Head() }
	}},
}

const execStride = 1000003

// lazy lists traversed as a whole: every source callback has a per-index counter
type listTarget struct {
	name string
	// mk builds the list; tick(i) must be called by the source callback for index i
	mk func(m int, tick func(i int)) (l fp.List[int], want []int)
}

func genOpt(m int, tick func(int), f func(int) int) func(int) fp.Option[int] {
	return func(i int) fp.Option[int] {
		tick(i)
		if i < m {
			return fp.Some(f(i))
		}
		return fp.None[int]()
	}
}

var listTargets = []listTarget{
	{"list.Generate", func(m int, tick func(int)) (fp.List[int], []int) {
		want := make([]int, m)
		for i := range want {
			want[i] = i*i + 1
		}
		return list.Generate(genOpt(m, tick, func(i int) int { return i*i + 1 })), want
	}},
	{"list.Map", func(m int, tick func(int)) (fp.List[int], []int) {
		src := make([]int, m)
		want := make([]int, m)
		for i := range src {
			src[i] = i
			want[i] = i*3 - 1
		}
		return list.Map(list.Of(src...), func(v int) int { tick(v); return v*3 - 1 }), want
	}},
	{"list.Map(list.Generate)", func(m int, tick func(int)) (fp.List[int], []int) {
		want := make([]int, m)
		for i := range want {
			want[i] = (i + 2) * 7
		}
		g := list.Generate(genOpt(m, tick, func(i int) int { return i + 2 }))
		return list.Map(g, func(v int) int { tick(m + 1 + v - 2); return v * 7 }), want
	}},
	{"list.Recurrence1", func(m int, tick func(int)) (fp.List[int], []int) {
		// infinite list cut by Zip with a finite one
		want := make([]int, m)
		for i := range want {
			want[i] = i + 10
		}
		rec := list.Recurrence1(10, func(v int) int { tick(v - 10); return v + 1 })
		fin := make([]int, m)
		z := list.Zip(rec, list.Of(fin...))
		return list.Map(z, func(t fp.Tuple2[int, int]) int { return t.I1 }), want
	}},
	{"list.Scan", func(m int, tick func(int)) (fp.List[int], []int) {
		src := make([]int, m)
		want := make([]int, m+1)
		acc := 100
		want[0] = acc
		for i := range src {
			src[i] = i + 1
			acc = acc*2 + src[i]
			want[i+1] = acc
		}
		return list.Scan(list.Of(src...), 100, func(b, a int) int { tick(a - 1); return b*2 + a }), want
	}},
	{"list.Collect", func(m int, tick func(int)) (fp.List[int], []int) {
		want := make([]int, m)
		for i := range want {
			want[i] = 50 - i
		}
		next := 0
		it := fp.MakeIterator(func() bool { return next < m }, func() int {
			tick(next)
			next++
			return 50 - (next - 1)
		})
		return list.Collect(it), want
	}},
	{"list.Combine", func(m int, tick func(int)) (fp.List[int], []int) {
		h := m / 2
		want := make([]int, 0, m)
		for i := 0; i < h; i++ {
			want = append(want, i)
		}
		for i := 0; i < m-h; i++ {
			want = append(want, 1000+i)
		}
		a := list.Generate(genOpt(h, tick, func(i int) int { return i }))
		b := list.Generate(genOpt(m-h, func(i int) { tick(h + 1 + i) }, func(i int) int { return 1000 + i }))
		return list.Combine(a, b), want
	}},
}

// walk traverses with the cursor protocol; limit guards against a runaway list.
func walk(l fp.List[int], limit int, mode int) []int {
	out := []int{}
	switch mode {
	case 0:
		for c := l; c.NonEmpty(); c = c.Tail() {
			out = append(out, c.Head())
			if len(out) > limit {
				break
			}
		}
	case 1:
		c := l
		for !c.IsEmpty() {
			h, t := c.Unapply()
			out = append(out, h)
			c = t
			if len(out) > limit {
				break
			}
		}
	default:
		out = l.ToSeq()
	}
	return out
}

func eqInts(a, b []int) bool {
	if len(a) != len(b) {
		return false
	}
	for i := range a {
		if a[i] != b[i] {
			return false
		}
	}
	return true
}

// ---- sequential -----------------------------------------------------------------------

func runSeqCase(w *vrt.W, i int) {
	r := w.Rand(i)
	if r.IntN(3) == 0 {
		runSeqList(w, i, r)
		return
	}
	t := targets[(i+w.Batch)%len(targets)]
	reps := 2 + r.IntN(6)
	base := r.IntN(1000)
	wit := func() any { return map[string]any{"target": t.name, "requests": reps, "base": base} }
	w.Begin(i, t.name)
	w.Guard(i, wit, func() {
		runs := 0
		get := t.mk(func() int { runs++; return base + runs*execStride })
		for k := 0; k < reps; k++ {
			v := get()
			if runs > 1 {
				w.Violation(i, t.name+"/executed-more-than-once", fmt.Sprintf("the thunk wrapped by %s ran %d times for %d sequential requests", t.name, runs, k+1), wit())
				return
			}
			if v != base+execStride {
				w.Violation(i, t.name+"/value-changes-between-requests", fmt.Sprintf("request #%d of %s returned %d, the only execution produced %d", k+1, t.name, v, base+execStride), wit())
				return
			}
		}
		if runs == 1 {
			w.Add("seq.executed_exactly_once", 1)
		}
	})
	w.Done(i)
	w.Hit("seq/" + t.name)
	w.Add("seq.cases", 1)
	w.Distinct(fmt.Sprintf("seq:%s:%d:%d", t.name, reps, base))
}

func runSeqList(w *vrt.W, i int, r *rand.Rand) {
	t := listTargets[(i+w.Batch)%len(listTargets)]
	m := r.IntN(40)
	passes := 2 + r.IntN(3)
	modes := make([]int, passes)
	for k := range modes {
		modes[k] = r.IntN(3)
	}
	wit := func() any { return map[string]any{"target": t.name, "elements": m, "traversals": modes} }
	w.Begin(i, t.name)
	w.Guard(i, wit, func() {
		counts := make([]int, 2*m+4)
		l, want := t.mk(m, func(ix int) {
			if ix >= 0 && ix < len(counts) {
				counts[ix]++
			}
		})
		for k := 0; k < passes; k++ {
			got := walk(l, len(want)+2, modes[k])
			if !eqInts(got, want) {
				w.Violation(i, t.name+"/traversal-value", fmt.Sprintf("traversal #%d of %s yields %v, expected %v", k+1, t.name, got, want), wit())
				return
			}
			for ix, c := range counts {
				if c > 1 {
					w.Violation(i, t.name+"/cell-executed-more-than-once", fmt.Sprintf("%s: source callback for index %d ran %d times after %d traversals from the same root", t.name, ix, c, k+1), wit())
					return
				}
			}
		}
	})
	w.Done(i)
	w.Hit("seq/" + t.name)
	w.Add("seq.list_cases", 1)
	if m >= 2 {
		w.Distinct(fmt.Sprintf("seqlist:%s:%d:%v", t.name, m, modes))
	}
}

// ---- concurrent -----------------------------------------------------------------------

type roundObs struct {
	inside     atomic.Int32
	maxOverlap atomic.Int32
	inThunk    atomic.Int32 // callers inside Get while a thunk was executing (max)
}

func atomicMax(a *atomic.Int32, v int32) {
	for {
		c := a.Load()
		if v <= c || a.CompareAndSwap(c, v) {
			return
		}
	}
}

// release starts g goroutines that wait on a barrier, yield pre[g] times and call f(g).
func release(g int, pre []int, obs *roundObs, f func(id int)) (panics []string) {
	var ready, done sync.WaitGroup
	start := make(chan struct{})
	pan := make([]atomic.Value, g)
	ready.Add(g)
	done.Add(g)
	for id := 0; id < g; id++ {
		go func(id int) {
			defer done.Done()
			defer func() {
				if r := recover(); r != nil {
					pan[id].Store(fmt.Sprint(r))
				}
			}()
			ready.Done()
			<-start
			for y := 0; y < pre[id]; y++ {
				runtime.Gosched()
			}
			c := obs.inside.Add(1)
			atomicMax(&obs.maxOverlap, c)
			defer obs.inside.Add(-1)
			f(id)
		}(id)
	}
	ready.Wait()
	close(start)
	done.Wait()
	for id := range pan {
		if s, ok := pan[id].Load().(string); ok {
			panics = append(panics, s)
		}
	}
	return
}

func recordOverlap(w *vrt.W, obs *roundObs, g int) bool {
	ov := int64(obs.maxOverlap.Load())
	w.Max("conc.max_goroutines_overlapped_in_get", ov)
	w.Max("conc.max_callers_in_get_while_thunk_ran", int64(obs.inThunk.Load()))
	w.Max("conc.max_goroutines", int64(g))
	w.Add("conc.goroutines", int64(g))
	if ov >= 2 {
		w.Add("conc.rounds_with_overlap", 1)
	}
	if obs.inThunk.Load() >= 2 {
		w.Add("conc.rounds_with_waiters_during_thunk", 1)
	}
	return ov >= 2
}

func runConcCase(w *vrt.W, i int) {
	r := w.Rand(i)
	g := 2 + r.IntN(31)
	if r.IntN(4) == 0 {
		g = 2 + r.IntN(3)
	}
	pre := make([]int, g)
	for k := range pre {
		pre[k] = r.IntN(5)
	}
	if r.IntN(3) == 0 { // everybody at once
		for k := range pre {
			pre[k] = 0
		}
	}
	thunkYields := r.IntN(9)
	reqs := 1 + r.IntN(3)
	if r.IntN(4) == 0 {
		runConcList(w, i, r, g, pre, thunkYields)
		return
	}
	t := targets[(i+w.Batch)%len(targets)]
	base := r.IntN(1000)
	wit := func() any {
		return map[string]any{"target": t.name, "goroutines": g, "yields_before_get": pre, "yields_in_thunk": thunkYields, "requests_per_goroutine": reqs}
	}
	overlapped := false
	w.Begin(i, t.name)
	w.Guard(i, wit, func() {
		var runs atomic.Int32
		obs := &roundObs{}
		get := t.mk(func() int {
			n := runs.Add(1)
			for y := 0; y < thunkYields; y++ {
				runtime.Gosched()
			}
			atomicMax(&obs.inThunk, obs.inside.Load())
			return base + int(n)*execStride
		})
		results := make([][]int, g)
		for k := range results {
			results[k] = make([]int, reqs)
		}
		panics := release(g, pre, obs, func(id int) {
			for q := 0; q < reqs; q++ {
				results[id][q] = get()
				if q+1 < reqs {
					runtime.Gosched()
				}
			}
		})
		if len(panics) > 0 {
			w.Violation(i, t.name+"/panic", "panic in a concurrent requester: "+panics[0], wit())
			return
		}
		overlapped = recordOverlap(w, obs, g)
		if n := runs.Load(); n > 1 {
			w.Violation(i, t.name+"/executed-more-than-once-concurrently", fmt.Sprintf("the thunk wrapped by %s ran %d times under %d concurrent requesters", t.name, n, g), wit())
			return
		}
		for id := range results {
			for q, v := range results[id] {
				if v != base+execStride {
					w.Violation(i, t.name+"/callers-see-different-values", fmt.Sprintf("goroutine %d request %d of %s received %d, the single execution produced %d", id, q, t.name, v, base+execStride), wit())
					return
				}
			}
		}
	})
	w.Done(i)
	w.Hit("conc/" + t.name)
	w.Add("conc.rounds", 1)
	if overlapped {
		w.Distinct(fmt.Sprintf("conc:%s:%d:%v:%d:%d", t.name, g, pre, thunkYields, reqs))
		if w.WantSample() {
			w.Sample(map[string]any{"kind": "concurrent-get", "case": wit()})
		}
	}
}

func runConcList(w *vrt.W, i int, r *rand.Rand, g int, pre []int, thunkYields int) {
	t := listTargets[(i+w.Batch)%len(listTargets)]
	m := 1 + r.IntN(24)
	modes := make([]int, g)
	for k := range modes {
		modes[k] = r.IntN(3)
	}
	yieldAt := r.IntN(m + 1)
	wit := func() any {
		return map[string]any{"target": t.name, "elements": m, "goroutines": g, "yields_before": pre, "yields_in_source": thunkYields, "yield_at_index": yieldAt}
	}
	overlapped := false
	w.Begin(i, t.name)
	w.Guard(i, wit, func() {
		counts := make([]atomic.Int32, 2*m+4)
		obs := &roundObs{}
		l, want := t.mk(m, func(ix int) {
			if ix >= 0 && ix < len(counts) {
				counts[ix].Add(1)
			}
			if ix == yieldAt || ix == 0 {
				for y := 0; y < thunkYields; y++ {
					runtime.Gosched()
				}
				atomicMax(&obs.inThunk, obs.inside.Load())
			}
		})
		results := make([][]int, g)
		panics := release(g, pre, obs, func(id int) {
			results[id] = walk(l, len(want)+2, modes[id])
		})
		if len(panics) > 0 {
			w.Violation(i, t.name+"/panic", "panic in a concurrent traversal: "+panics[0], wit())
			return
		}
		overlapped = recordOverlap(w, obs, g)
		for ix := range counts {
			if c := counts[ix].Load(); c > 1 {
				w.Violation(i, t.name+"/cell-executed-more-than-once-concurrently", fmt.Sprintf("%s: source callback for index %d ran %d times under %d concurrent traversals of the same root", t.name, ix, c, g), wit())
				return
			}
		}
		for id := range results {
			if !eqInts(results[id], want) {
				w.Violation(i, t.name+"/callers-see-different-values", fmt.Sprintf("goroutine %d traversing %s got %v, expected %v", id, t.name, results[id], want), wit())
				return
			}
		}
	})
	w.Done(i)
	w.Hit("conc/" + t.name)
	w.Add("conc.rounds", 1)
	w.Add("conc.list_rounds", 1)
	if overlapped {
		w.Distinct(fmt.Sprintf("conclist:%s:%d:%d:%v:%d", t.name, m, g, pre, thunkYields))
	}
}

// ---- concurrent: one shared Eval extended and evaluated by several goroutines -------------

type chainStep struct {
	kind int // kMapM, kMapF, kFlatMapM, kFlatMapF
	k    int
}

func applySteps(e lazy.Eval[int], steps []chainStep) lazy.Eval[int] {
	for _, st := range steps {
		k := st.k
		switch st.kind {
		case kMapM:
			e = e.Map(func(v int) int { return mapFn(k, v) })
		case kMapF:
			e = lazy.Map(e, func(v int) int { return mapFn(k, v) })
		case kFlatMapM:
			e = e.FlatMap(func(v int) lazy.Eval[int] { return lazy.Done(mapFn(k, v)) })
		default:
			e = lazy.FlatMap(e, func(v int) lazy.Eval[int] { return lazy.Call(func() int { return mapFn(k, v) }) })
		}
	}
	return e
}

func stepsValue(v int, steps []chainStep) int {
	for _, st := range steps {
		v = mapFn(st.k, v)
	}
	return v
}

func genSteps(r *rand.Rand, n int) []chainStep {
	out := make([]chainStep, n)
	for x := range out {
		out[x] = chainStep{kind: []int{kMapM, kMapF, kFlatMapM, kFlatMapF}[r.IntN(4)], k: r.IntN(19) - 9}
	}
	return out
}

var concExtNames = []string{"Eval.Map(base)", "lazy.Map(base)", "Eval.FlatMap(base)", "lazy.FlatMap(base)", "lazy.Map2(base,other)", "lazy.Map2(other,base)", "lazy.Map2(base,base)",
	"Get(base)", "Get(shared Map2(base,other))", "Get(shared extension)"}

// runConcDagCase: a base Eval (leaf + 0..20 pending continuations) and a second value are
// built before the barrier; every goroutine either extends the base itself and evaluates its
// own extension, or evaluates a value all of them share (the base, a Map2 over base and other,
// an extension built before the barrier). Values must equal plain arithmetic, the Call thunk
// under the base runs at most once, and the race detector must stay silent inside fp.
func runConcDagCase(w *vrt.W, i int) {
	r := w.Rand(i)
	g := 2 + r.IntN(7)
	if r.IntN(4) == 0 {
		g = 2 + r.IntN(31)
	}
	pre := make([]int, g)
	for k := range pre {
		pre[k] = r.IntN(4)
	}
	if r.IntN(3) == 0 {
		for k := range pre {
			pre[k] = 0
		}
	}
	L := r.IntN(21)
	steps := genSteps(r, L)
	otherSteps := genSteps(r, r.IntN(21))
	leaf := r.IntN(3)
	leafV := r.IntN(100)
	otherV := r.IntN(100)
	thunkYields := r.IntN(5)
	ext := make([]int, g)
	extK := make([]int, g)
	extMore := make([][]chainStep, g)
	reqs := make([]int, g)
	for id := 0; id < g; id++ {
		ext[id] = r.IntN(len(concExtNames))
		extK[id] = r.IntN(19) - 9
		extMore[id] = genSteps(r, r.IntN(3))
		reqs[id] = 1 + r.IntN(2)
	}
	leafNames := []string{"Done", "Call", "TailCall(Call)"}
	wit := func() any {
		names := make([]string, g)
		for id := range names {
			names[id] = concExtNames[ext[id]]
		}
		return map[string]any{"base_leaf": leafNames[leaf], "pending_on_base": L, "pending_on_other": len(otherSteps), "goroutines": g, "each_goroutine": names,
			"yields_before": pre, "yields_in_thunk": thunkYields, "requests": reqs}
	}
	overlapped := false
	w.Begin(i, "lazy.Eval/shared-base-concurrent")
	w.Guard(i, wit, func() {
		var runs atomic.Int32
		obs := &roundObs{}
		thunk := func() int {
			runs.Add(1)
			for y := 0; y < thunkYields; y++ {
				runtime.Gosched()
			}
			atomicMax(&obs.inThunk, obs.inside.Load())
			return leafV
		}
		var base lazy.Eval[int]
		switch leaf {
		case 0:
			base = lazy.Done(leafV)
		case 1:
			base = lazy.Call(thunk)
		default:
			base = lazy.TailCall(func() lazy.Eval[int] { return lazy.Call(thunk) })
		}
		base = applySteps(base, steps)
		baseV := stepsValue(leafV, steps)
		other := applySteps(lazy.Done(otherV), otherSteps)
		otherW := stepsValue(otherV, otherSteps)
		sharedK := 3
		shared2 := lazy.Map2(base, other, func(a, b int) int { return map2Fn(sharedK, a, b) })
		sharedExt := base.Map(func(v int) int { return mapFn(sharedK, v) })
		want := make([]int, g)
		results := make([][]int, g)
		for id := range results {
			results[id] = make([]int, reqs[id])
		}
		panics := release(g, pre, obs, func(id int) {
			k := extK[id]
			var e lazy.Eval[int]
			switch ext[id] {
			case 0:
				e = base.Map(func(v int) int { return mapFn(k, v) })
			case 1:
				e = lazy.Map(base, func(v int) int { return mapFn(k, v) })
			case 2:
				e = base.FlatMap(func(v int) lazy.Eval[int] { return lazy.Done(mapFn(k, v)) })
			case 3:
				e = lazy.FlatMap(base, func(v int) lazy.Eval[int] { return lazy.Done(mapFn(k, v)) })
			case 4:
				e = lazy.Map2(base, other, func(a, b int) int { return map2Fn(k, a, b) })
			case 5:
				e = lazy.Map2(other, base, func(a, b int) int { return map2Fn(k, a, b) })
			case 6:
				e = lazy.Map2(base, base, func(a, b int) int { return map2Fn(k, a, b) })
			case 7:
				e = base
			case 8:
				e = shared2
			default:
				e = sharedExt
			}
			e = applySteps(e, extMore[id])
			for q := range results[id] {
				if q&1 == 0 {
					results[id][q] = e.Get()
				} else {
					results[id][q] = lazy.Run(e)
				}
				if q+1 < len(results[id]) {
					runtime.Gosched()
				}
			}
		})
		for id := 0; id < g; id++ {
			k := extK[id]
			var v int
			switch ext[id] {
			case 0, 1, 2, 3:
				v = mapFn(k, baseV)
			case 4:
				v = map2Fn(k, baseV, otherW)
			case 5:
				v = map2Fn(k, otherW, baseV)
			case 6:
				v = map2Fn(k, baseV, baseV)
			case 7:
				v = baseV
			case 8:
				v = map2Fn(sharedK, baseV, otherW)
			default:
				v = mapFn(sharedK, baseV)
			}
			want[id] = stepsValue(v, extMore[id])
		}
		if len(panics) > 0 {
			w.Violation(i, "lazy.Eval/shared-base-concurrent/panic", "panic in a goroutine extending / evaluating a shared Eval: "+panics[0], wit())
			return
		}
		overlapped = recordOverlap(w, obs, g)
		if n := runs.Load(); n > 1 {
			w.Violation(i, "lazy.Call/executed-more-than-once-concurrently", fmt.Sprintf("the Call thunk under a shared base ran %d times while %d goroutines extended and evaluated the base", n, g), wit())
			return
		}
		for id := range results {
			for q, v := range results[id] {
				if v != want[id] {
					w.Violation(i, "lazy.Eval/shared-base-concurrent-value", fmt.Sprintf("goroutine %d (%s) evaluation #%d = %d, plain arithmetic gives %d (base has %d pending continuations, %d goroutines)",
						id, concExtNames[ext[id]], q+1, v, want[id], L, g), wit())
					return
				}
			}
		}
		// the values shared by everybody are still what they were
		if v := base.Get(); v != baseV {
			w.Violation(i, "lazy.Eval/shared-base-concurrent-value", fmt.Sprintf("the shared base evaluates to %d after the round, plain arithmetic gives %d", v, baseV), wit())
			return
		}
		if v := lazy.Run(sharedExt); v != mapFn(sharedK, baseV) {
			w.Violation(i, "lazy.Eval/shared-base-concurrent-value", fmt.Sprintf("the extension built before the round evaluates to %d afterwards, plain arithmetic gives %d", v, mapFn(sharedK, baseV)), wit())
			return
		}
	})
	w.Done(i)
	for id := 0; id < g; id++ {
		w.Hit("concdag/" + concExtNames[ext[id]])
	}
	w.Hit("concdag.pending_on_base/" + strconv.Itoa(L))
	w.Add("concdag.rounds", 1)
	if overlapped {
		w.Add("concdag.rounds_with_overlap", 1)
		w.Distinct(fmt.Sprintf("concdag:%d:%d:%v:%v:%v:%d", leaf, L, ext, pre, reqs, thunkYields))
		if w.WantSample() {
			w.Sample(map[string]any{"kind": "concurrent-shared-base", "case": wit()})
		}
	}
}

// ======================================================================================
// layout
// ======================================================================================

type layoutT struct{ tree, depth, seq, conc, dag, concdag, elem, concelem, elemtree int }

func layout(tier string) layoutT {
	np := len(programs())
	if tier == "thorough" {
		return layoutT{tree: 32, depth: np, seq: 4, conc: 16, dag: 16, concdag: 8, elem: 4, concelem: 8, elemtree: 8}
	}
	return layoutT{tree: 8, depth: np, seq: 2, conc: 8, dag: 8, concdag: 4, elem: 2, concelem: 4, elemtree: 2}
}

func batchKind(tier string, b int) (kind string, k int) {
	l := layout(tier)
	switch {
	case b < l.depth: // long-running batches first
		return "depth-large", b
	case b < 2*l.depth:
		return "depth-small", b - l.depth
	}
	b -= 2 * l.depth
	switch {
	case b < l.conc:
		return "conc", b
	case b < l.conc+l.tree:
		return "tree", b - l.conc
	case b < l.conc+l.tree+l.seq:
		return "seq", b - l.conc - l.tree
	}
	// the DAG families were added later: they come last so that the batch numbers (and with
	// them the PRNG streams) of the older families did not move
	b -= l.conc + l.tree + l.seq
	if b < l.dag {
		return "dag", b
	}
	b -= l.dag
	if b < l.concdag {
		return "concdag", b
	}
	// the result-value families (elem.go) were added after the DAG families: last again
	b -= l.concdag
	if b < l.elem {
		return "elem", b
	}
	b -= l.elem
	if b < l.concelem {
		return "concelem", b
	}
	return "elemtree", b - l.concelem
}

func main() {
	vrt.Main(vrt.Config{
		Property: "C16",
		Batches: func(tier string) int {
			l := layout(tier)
			return l.tree + 2*l.depth + l.seq + l.conc + l.dag + l.concdag + l.elem + l.concelem + l.elemtree
		},
		Cases: func(tier string, b int) int {
			kind, _ := batchKind(tier, b)
			th := tier == "thorough"
			switch kind {
			case "tree":
				if th {
					return 6250
				}
				return 2500
			case "depth-large":
				return len(depths(tier)) - smallDepths
			case "depth-small":
				return smallDepths
			case "seq":
				if th {
					return 6000
				}
				return 1500
			case "dag":
				if th {
					return 5000
				}
				return 1000
			case "concdag":
				if th {
					return 1500
				}
				return 300
			case "elem", "concelem":
				return elemCases(tier, kind)
			case "elemtree":
				return elemTreeCases(tier)
			}
			if th {
				return 1500
			}
			return 250
		},
		RaceBatch: func(tier string, b int) bool {
			kind, _ := batchKind(tier, b)
			return kind == "conc" || kind == "concdag" || kind == "concelem"
		},
		WorkerProcs: 8,
		// The CPU watchdog is only the backstop behind the logical budgets. A 2*10^7-step depth
		// case costs ~4 CPU-s on an idle machine but was measured at 27 CPU-s (and once beyond
		// the default 30) with the machine at load 100..300: CPU time is not load-independent
		// (SMT siblings, shared caches, GC workers on 8 Ps).
		CaseCPUBudget: 120,
		Run: func(w *vrt.W) {
			kind, k := batchKind(w.Tier, w.Batch)
			for i := w.From; i < w.To; i++ {
				switch kind {
				case "tree":
					runTreeCase(w, i)
				case "depth-large":
					runDepthCase(w, programs()[k], i, true)
				case "depth-small":
					runDepthCase(w, programs()[k], i, false)
				case "seq":
					runSeqCase(w, i)
				case "conc":
					runConcCase(w, i)
				case "dag":
					runDagCase(w, i)
				case "concdag":
					runConcDagCase(w, i)
				case "elem":
					runElemSeqCase(w, i, k)
				case "concelem":
					runElemConcCase(w, i, k)
				case "elemtree":
					runElemTreeCase(w, i)
				}
			}
			for k, h := range treeHits {
				if h > 0 {
					w.Add("hit.tree/"+kindNames[k], h)
				}
			}
			for k, h := range dagHits {
				if h > 0 {
					w.Add("hit.dag/"+kindNames[k], h)
				}
			}
		},
		Rule: "Nine case families. (a) tree: PRNG lazy.Eval[int] expression tree (3..40 nodes, depth <= 10) over Done, Call, Func1..3, TailCall, TailCall1..9, Eval.Map/lazy.Map, Eval.FlatMap/lazy.FlatMap (continuation builds a subtree from the bound value, optionally branching on its parity), lazy.Map2; Get (2..3 times, sometimes lazy.Run) is compared with a strict recursive interpreter and every Call/TailCall*/FuncN wrapper created has its own execution counter (<= 1). (b) depth: one of 13 tail-recursive programs (count-down via TailCall, accumulator sum via TailCall2, mutual even/odd via TailCall1, bind in tail position, argument rotation through each of TailCall1..9) at n in {10^3, ~10^4, ~10^5, ~10^6, 2*10^6 [, ~10^7, 2*10^7 thorough]} (for n <= 10^5 the same Eval value is evaluated a second time and must give the same result); runtime.Callers frame count is sampled inside the thunks (first 1024 steps, every 1024th, last 64) relative to the frame calling Get, bound 64 for every n. (c) seq: a counting thunk wrapped by lazy.Call/TailCall/TailCall3/Memoize/Func1, fp.Memoize, fn1.Memoize, derived Evals sharing one Call/TailCall, fp.MakeList head/tail, list.Generate/list.Map cells is requested 2..7 times; whole lazy lists (Generate, Map, Map over Generate, Recurrence1, Scan, Collect, Combine) are traversed 2..4 times from the same root with per-index source counters. (d) conc (race build, GOMAXPROCS 8): the same targets shared by 2..32 goroutines released by a barrier with PRNG-chosen Gosched yields before the request and inside the thunk. (e) dag: 3..8 bindings v0..vm; the expression of a binding may use earlier bindings as sub-expressions (the library side builds the Eval value of a binding once, every use is that same value); v0 carries a chain of 0..20 pending Map/FlatMap continuations, most later bindings are direct extensions of a preferred (hub) binding through Eval.Map, lazy.Map, Eval.FlatMap, lazy.FlatMap, lazy.Map2 (as first, second, or both operands) or an alias followed by a chain; a PRNG schedule interleaves building with Get / lazy.Run of already built bindings, then evaluates every binding 2..3 more times in PRNG order; every evaluation is compared with the strict interpreter of the same DAG, every Call/TailCall*/FuncN wrapper created runs at most once, a logical clock over all user callbacks bounds every evaluation. (f) concdag (race build): a base (Done / Call / TailCall(Call) + 0..20 pending continuations), an independent second value, a Map2 over both and one extension are built before the barrier; 2..32 goroutines each extend the base (the seven extension forms) and evaluate their own extension 1..2 times, or evaluate one of the shared values; values are compared with plain arithmetic, the Call thunk runs at most once, base and the pre-built extension are evaluated again after the round. (g) elem: case number gi (counted through the batches of the family) takes combination gi mod N of (construct, element type, result value): constructs lazy.Call, lazy.TailCall (thunk returns Done(v), or the zero Eval when v is the zero value), lazy.TailCall(lazy.Call), lazy.TailCall1..9, lazy.Memoize, fp.Memoize, fn1.Memoize, lazy.Func1..3, fp.MakeList head thunk / head thunk answering None / tail thunk, list.Generate, list.Map, list.FlatMap (head and tail thunk share one deferred fn(head)) and list.Recurrence1 cells; element types error, any, a one-method small interface, fp.List[int], *int, []int, map[string]int, a struct, func() int, int, string; result values nil / zero, an interface holding a nil pointer / zero int / empty list, and non-nil values with a fresh identity (pointer, backing array, map, closure token, pointer or struct value inside the interface). The value is built once, the thunk under test returns it and counts its executions with an atomic; 2..8 PRNG-chosen demands from the menu of the construct (Eval: Get, lazy.Run, Map2(x,x), x.Map(id), lazy.FlatMap(x,Done), Map2(x.Map(id),x.FlatMap(Done)), Get / Run of 0..3 extensions of x built once before the first demand: x.Map(id), Map2(x,x), x.FlatMap(_=>x), prev.FlatMap(Done), Map2(prev,x); memoised function: call, two calls, lazy.Call(m), Map2(Call(m),Call(m)); list cell: Head, NonEmpty+Head, Unapply, ToSeq, Foreach, list.Map(l,id), list.Zip(l,l), list.Combine(l,l)); after every demand the thunk has run at most once, every value delivered (also both operands seen by the Map2 callback) is the value built (== on pointers / interface values, same backing array / map, closure token; nil and empty are not told apart for slices and maps), the arguments of TailCallN / FuncN / fn1.Memoize / list.Map callbacks are the ones given. (h) concelem (race build): the same combinations, 2..32 goroutines released by a barrier make 1..3 demands each with PRNG yields before the demand and inside the thunk, one more demand after the round. (i) elemtree: the tree generator of (a) (two of three cases) and the DAG generator of (e) (every third case), built over Eval[T] for T in any, error, *int, []int, func() int, a struct (taken in turn) through an encoding of int in which every multiple of 3 is the nil / zero value of T (any: even values are pointers, odd ones boxed ints); the reference is the strict interpreter with the same normalisation applied to every value the program produces; Get 2..3 times (+ lazy.Run) resp. the DAG schedule; results are decoded and compared (a nil result must be nil), callbacks must receive well-formed encodings, every Call/FuncN/TailCall* wrapper runs at most once and the key says whether its result was nil. distinct_nontrivial counts distinct fingerprints of: trees that contain (elem) every sequential result-value case (construct, element type, value, demand script); concelem rounds with at least two goroutines overlapping; elemtree trees by the rule of (a) and DAGs with at least two uses of shared bindings, per element type; a deferred node (Call/FuncN/TailCall*) under a FlatMap/Map2 binder and have depth >= 2; (program, n) depth cases; seq cases (target, requests, base) and list traversals with >= 2 elements; concurrent rounds in which at least two goroutines were observed inside Get at the same time; DAG cases in which a binding that directly extends a shared base was evaluated at least twice after a later-built binding extending the same base existed; concdag rounds with at least two goroutines overlapping.",
		Assumptions: []string{
			"schedules explored are those produced by the Go scheduler with GOMAXPROCS=8 plus PRNG-chosen runtime.Gosched() yields; not all interleavings",
			"the race detector reports only races that occur on an executed schedule",
			"stack use is measured as the runtime.Callers frame count inside user thunks (sampled: first 1024 steps, every 1024th step, last 64 steps); library-internal recursion between two thunk invocations that unwinds before the next thunk is only caught by the 64 MB stack limit",
			"the tree, dag and depth families are over Eval[int]; the other element types (interfaces, pointers, slices, maps, structs, funcs, strings) and nil / zero results are covered by the elem / concelem families through one deferred value per case (elem, concelem) and by trees / DAGs over six of these types (elemtree); depth programs stay over int",
			"DAG cases bind Eval values at the top level of a case only (continuations use bound values but do not bind new shared ones); sharing is irrelevant for the value of strict evaluation, so the reference evaluates each binding once and re-uses the number",
		},
		Floors: func(tier string) map[string]int64 {
			f := map[string]int64{
				"trees": 10000, "tree.repeated_get": 1000, "tree.thunks_executed": 10000,
				"depth.cases": int64(len(programs()) * len(depths(tier))), "depth.frame_samples": 10000,
				"seq.cases": 1000, "seq.list_cases": 500, "seq.executed_exactly_once": 1000,
				"conc.rounds": 1500, "conc.list_rounds": 200, "conc.rounds_with_overlap": 500, "conc.rounds_with_waiters_during_thunk": 100,
				"distinct": 5000,
			}
			for k, n := range kindNames {
				if k != kRef {
					f["hit.tree/"+n] = 500
				}
				f["hit.dag/"+n] = 5000
			}
			for k, v := range map[string]int64{"dag.cases": 6000, "dag.bases_extended_twice_or_more": 5000, "dag.shared_uses": 40000, "dag.evaluations": 80000,
				"dag.evaluations_before_all_built": 10000, "dag.earlier_extension_evaluated_after_later_one_built": 20000, "dag.thunks_executed": 100000,
				"concdag.rounds": 1000, "concdag.rounds_with_overlap": 500, "depth.evaluated_twice": int64(3 * len(programs()))} {
				f[k] = v
			}
			for L := 0; L <= 20; L++ {
				f["hit.dag.pending_on_shared_base/"+strconv.Itoa(L)] = 100
				f["hit.concdag.pending_on_base/"+strconv.Itoa(L)] = 20
			}
			for _, n := range concExtNames {
				f["hit.concdag/"+n] = 200
			}
			for _, p := range programs() {
				f["hit.depth/"+p.name] = int64(len(depths(tier)))
			}
			for _, t := range targets {
				f["hit.seq/"+t.name] = 20
				f["hit.conc/"+t.name] = 20
			}
			for _, t := range listTargets {
				f["hit.seq/"+t.name] = 20
				f["hit.conc/"+t.name] = 5
			}
			elemFloors(tier, f)
			elemTreeFloors(tier, f)
			return f
		},
		Finish: func(tier string, m *vrt.Merged, cov map[string]any) {
			table := map[string]int64{}
			perProg := map[string]int64{}
			for k, v := range m.Maxes {
				if strings.HasPrefix(k, "frames.n<=") {
					table[strings.TrimPrefix(k, "frames.n<=")] = v
				}
				if strings.HasPrefix(k, "frames.program.") {
					perProg[strings.TrimPrefix(k, "frames.program.")] = v
				}
			}
			keys := make([]string, 0, len(table))
			for k := range table {
				keys = append(keys, k)
			}
			sort.Slice(keys, func(a, b int) bool {
				x, _ := strconv.Atoi(keys[a])
				y, _ := strconv.Atoi(keys[b])
				return x < y
			})
			rows := []map[string]any{}
			for _, k := range keys {
				n, _ := strconv.Atoi(k)
				rows = append(rows, map[string]any{"n_up_to": n, "max_frames_inside_thunk": table[k]})
			}
			cov["frames_by_recursion_depth"] = rows
			cov["frames_by_program"] = perProg
			cov["frame_bound"] = frameBound
			cov["max_goroutines_overlapped_in_get"] = m.Maxes["conc.max_goroutines_overlapped_in_get"]
			cov["max_callers_in_get_while_thunk_ran"] = m.Maxes["conc.max_callers_in_get_while_thunk_ran"]
			cov["concurrent_rounds"] = m.Counters["conc.rounds"]
			cov["dag_cases"] = m.Counters["dag.cases"]
			cov["dag_shared_bases_extended_twice_or_more"] = m.Counters["dag.bases_extended_twice_or_more"]
			cov["dag_max_pending_continuations_on_a_shared_base"] = m.Maxes["dag.max_pending_on_shared_base"]
			cov["concurrent_shared_base_rounds"] = m.Counters["concdag.rounds"]
			cov["result_value_cases_sequential"] = m.Counters["elem.seq.cases"]
			cov["result_value_rounds_concurrent"] = m.Counters["elem.conc.rounds"]
			cov["element_type_trees"] = m.Counters["elemtree.trees"]
			cov["element_type_dags"] = m.Counters["elemdag.cases"]
			cov["result_value_combinations"] = len(elCombos)
			cov["result_value_min_cases_per_combination"] = map[string]int64{"sequential": elemPerCombo(tier, "elem"), "concurrent": elemPerCombo(tier, "concelem")}
			cov["race_reports_inside_fp"] = m.Counters["race.reports_total"] - m.Counters["race.reports_outside_fp"]
		},
	})
}
