// C16 part (5b): whole expression trees and DAGs over element types other than int.
//
// The generators of the tree / dag families are reused; the program is built over Eval[T] for
// T in {any, error, *int, []int, func() int, struct} through a codec int <-> T in which every
// multiple of 3 is the nil / zero value of T, so about a third of all values flowing through
// Call / FuncN thunks, Map / FlatMap / Map2 callbacks and TailCallN wrappers are nil. The
// reference is the strict interpreter over int with the same normalisation (n%3 == 0 -> 0)
// applied wherever the program produces a value. Every Call / FuncN / TailCall* wrapper has its
// execution counter and remembers whether its result was nil.
package main

import (
	"fmt"
	"strconv"

	"verif/vrt"

	"github.com/csgura/fp/lazy"
)

func norm3(n int) int {
	if n%3 == 0 {
		return 0
	}
	return n
}

// nctx: strict interpreter with normalised values (see sctx for the DAG fields).
type nctx struct {
	vals   []int
	cost   []int64
	visits int64
	nils   int64 // values produced that are nil in the encoded program
}

func (s *nctx) out(v int) int {
	v = norm3(v)
	if v == 0 {
		s.nils++
	}
	return v
}

func (s *nctx) eval(n *enode, env int) int {
	s.visits++
	switch n.kind {
	case kDone:
		return s.out(n.k)
	case kArg:
		return s.out(env + n.k)
	case kCall:
		return s.out(callFn(n.k, env))
	case kFuncN:
		return s.out(mixArgs(n.k, n.args))
	case kRef:
		s.visits += s.cost[n.ref]
		return s.vals[n.ref]
	case kTailCall:
		return s.eval(n.kids[0], env)
	case kTailCallN:
		return s.out(mixArgs(s.eval(n.kids[0], env), n.args))
	case kMapM, kMapF:
		return s.out(mapFn(n.k, s.eval(n.kids[0], env)))
	case kFlatMapM, kFlatMapF:
		v := s.eval(n.kids[0], env)
		next := n.kids[1]
		if n.mode == 1 && v&1 == 0 {
			next = n.kids[2]
		}
		return s.eval(next, v)
	case kMap2:
		a := s.eval(n.kids[0], env)
		b := s.eval(n.kids[1], env)
		return s.out(map2Fn(n.k, a, b))
	}
	panic("bad kind")
}

type codec[T any] struct {
	name string
	enc  func(n int) T // n%3 == 0 -> the nil / zero value
	dec  func(v T) (n int, ok bool)
}

type gcell struct {
	name   string
	n      int
	nilres bool
}

type gctx[T any] struct {
	cd     *codec[T]
	cells  []*gcell
	bound  []lazy.Eval[T]
	budget *vrt.Budget
	bad    string // a callback received a value that is no encoding of an int
}

func (c *gctx[T]) tick() {
	if c.budget != nil {
		c.budget.Tick()
	}
}

func (c *gctx[T]) cell(name string) *gcell {
	x := &gcell{name: name}
	c.cells = append(c.cells, x)
	return x
}

func (c *gctx[T]) dec(where string, v T) int {
	n, ok := c.cd.dec(v)
	if !ok && c.bad == "" {
		c.bad = where + " received " + elShow(v)
	}
	return n
}

// thunk value: encode, remember whether the deferred computation produced nil
func (c *gctx[T]) produce(x *gcell, n int) T {
	x.n++
	if n%3 == 0 {
		x.nilres = true
	}
	return c.cd.enc(n)
}

func gbuild[T any](c *gctx[T], n *enode, env int) lazy.Eval[T] {
	enc := c.cd.enc
	switch n.kind {
	case kDone:
		return lazy.Done(enc(n.k))
	case kArg:
		return lazy.Done(enc(env + n.k))
	case kRef:
		return c.bound[n.ref]
	case kCall:
		x := c.cell("Call")
		return lazy.Call(func() T { c.tick(); return c.produce(x, callFn(n.k, env)) })
	case kFuncN:
		x := c.cell("Func" + strconv.Itoa(n.n))
		switch n.n {
		case 1:
			return lazy.Func1(func(a int) T { c.tick(); return c.produce(x, mixArgs(n.k, []int{a})) })(n.args[0])
		case 2:
			return lazy.Func2(func(a, b int) T { c.tick(); return c.produce(x, mixArgs(n.k, []int{a, b})) })(n.args[0], n.args[1])
		default:
			return lazy.Func3(func(a, b, d int) T { c.tick(); return c.produce(x, mixArgs(n.k, []int{a, b, d})) })(n.args[0], n.args[1], n.args[2])
		}
	case kTailCall:
		x := c.cell("TailCall")
		return lazy.TailCall(func() lazy.Eval[T] { c.tick(); x.n++; return gbuild(c, n.kids[0], env) })
	case kTailCallN:
		x := c.cell("TailCall" + strconv.Itoa(n.n))
		return elTailCallN(n.n, n.args, func(a []int) lazy.Eval[T] {
			c.tick()
			x.n++
			return gbuild(c, n.kids[0], env).Map(func(v T) T { return enc(mixArgs(c.dec("the Map callback inside TailCallN", v), a)) })
		})
	case kMapM:
		return gbuild(c, n.kids[0], env).Map(func(v T) T { c.tick(); return enc(mapFn(n.k, c.dec("Eval.Map callback", v))) })
	case kMapF:
		return lazy.Map(gbuild(c, n.kids[0], env), func(v T) T { c.tick(); return enc(mapFn(n.k, c.dec("lazy.Map callback", v))) })
	case kFlatMapM, kFlatMapF:
		cont := func(tv T) lazy.Eval[T] {
			c.tick()
			v := c.dec("FlatMap continuation", tv)
			next := n.kids[1]
			if n.mode == 1 && v&1 == 0 {
				next = n.kids[2]
			}
			return gbuild(c, next, v)
		}
		if n.kind == kFlatMapM {
			return gbuild(c, n.kids[0], env).FlatMap(cont)
		}
		return lazy.FlatMap(gbuild(c, n.kids[0], env), cont)
	case kMap2:
		return lazy.Map2(gbuild(c, n.kids[0], env), gbuild(c, n.kids[1], env), func(a, b T) T {
			c.tick()
			return enc(map2Fn(n.k, c.dec("first operand of the Map2 callback", a), c.dec("second operand of the Map2 callback", b)))
		})
	}
	panic("bad kind")
}

// ---- codecs ----------------------------------------------------------------------------------

var cdAny = &codec[any]{name: "any",
	enc: func(n int) any {
		switch {
		case n%3 == 0:
			return nil
		case n&1 == 0:
			return &elTok{n}
		}
		return n
	},
	dec: func(v any) (int, bool) {
		switch x := v.(type) {
		case nil:
			return 0, true
		case int:
			return x, x%3 != 0 && x&1 == 1
		case *elTok:
			if x == nil {
				return 0, false
			}
			return x.id, x.id%3 != 0 && x.id&1 == 0
		}
		return 0, false
	}}

var cdError = &codec[error]{name: "error",
	enc: func(n int) error {
		if n%3 == 0 {
			return nil
		}
		return elCodeErr{n}
	},
	dec: func(v error) (int, bool) {
		if v == nil {
			return 0, true
		}
		x, ok := v.(elCodeErr)
		return x.code, ok && x.code%3 != 0
	}}

var cdPtr = &codec[*int]{name: "*int",
	enc: func(n int) *int {
		if n%3 == 0 {
			return nil
		}
		p := new(int)
		*p = n
		return p
	},
	dec: func(v *int) (int, bool) {
		if v == nil {
			return 0, true
		}
		return *v, *v%3 != 0
	}}

var cdSlice = &codec[[]int]{name: "[]int",
	enc: func(n int) []int {
		if n%3 == 0 {
			return nil
		}
		return []int{n}
	},
	dec: func(v []int) (int, bool) {
		if len(v) == 0 { // nil and empty are not told apart
			return 0, true
		}
		return v[0], len(v) == 1 && v[0]%3 != 0
	}}

var cdFunc = &codec[func() int]{name: "func",
	enc: func(n int) func() int {
		if n%3 == 0 {
			return nil
		}
		return func() int { return n }
	},
	dec: func(v func() int) (int, bool) {
		if v == nil {
			return 0, true
		}
		n := v()
		return n, n%3 != 0
	}}

var cdStruct = &codec[elRec]{name: "struct",
	enc: func(n int) elRec {
		if n%3 == 0 {
			return elRec{}
		}
		return elRec{A: n, B: "r"}
	},
	dec: func(v elRec) (int, bool) {
		if v == (elRec{}) {
			return 0, true
		}
		return v.A, v.B == "r" && v.P == nil && v.A%3 != 0
	}}

type gRunner struct {
	name string
	tree func(w *vrt.W, i int)
	dag  func(w *vrt.W, i int)
}

func gReg[T any](cd *codec[T]) gRunner {
	return gRunner{cd.name, func(w *vrt.W, i int) { runElemTree(w, i, cd) }, func(w *vrt.W, i int) { runElemDag(w, i, cd) }}
}

var gRunners = []gRunner{gReg(cdAny), gReg(cdError), gReg(cdPtr), gReg(cdSlice), gReg(cdFunc), gReg(cdStruct)}

func runElemTreeCase(w *vrt.W, i int) {
	if i%3 == 2 {
		gRunners[(i/3)%len(gRunners)].dag(w, i)
		return
	}
	gRunners[(i-i/3)%len(gRunners)].tree(w, i)
}

func gCheckCells[T any](w *vrt.W, i int, c *gctx[T], what string, wit func() any) (executed, nilThunks int64, ok bool) {
	for _, x := range c.cells {
		if x.n > 1 {
			w.Violation(i, "lazy."+x.name+"/executed-more-than-once"+elKeySuffix(x.nilres),
				fmt.Sprintf("a %s thunk (element type %s, result nil/zero: %v) ran %d times %s", x.name, c.cd.name, x.nilres, x.n, what), wit())
			return 0, 0, false
		}
		executed += int64(x.n)
		if x.nilres {
			nilThunks++
		}
	}
	return executed, nilThunks, true
}

func runElemTree[T any](w *vrt.W, i int, cd *codec[T]) {
	r := w.Rand(i)
	g := &tgen{r: r, budget: 3 + r.IntN(38), maxDepth: 2 + r.IntN(9)}
	root := g.gen(0, false)
	env0 := r.IntN(7) - 3
	reps := 2 + r.IntN(2)
	run := r.IntN(2) == 0
	desc := root.String()
	wit := func() any {
		return map[string]any{"tree": desc, "env": env0, "gets": reps, "element_type": cd.name, "encoding": "n%3==0 -> nil/zero"}
	}
	w.Begin(i, "lazy.Eval.Get/elem-tree")
	w.Guard(i, wit, func() {
		sc := &nctx{}
		want := sc.eval(root, env0)
		c := &gctx[T]{cd: cd}
		e := gbuild(c, root, env0)
		for k := 0; k <= reps; k++ {
			how, key := "Get", "lazy.Eval.Get/elem-tree-value"
			var tv T
			if k == reps {
				if !run {
					break
				}
				how, key = "lazy.Run", "lazy.Run/elem-tree-value"
				tv = lazy.Run(e)
			} else {
				tv = e.Get()
			}
			got, ok := cd.dec(tv)
			if c.bad != "" {
				w.Violation(i, key, fmt.Sprintf("%s #%d over Eval[%s]: %s\ntree: %s (arg=%d)", how, k+1, cd.name, c.bad, desc, env0), wit())
				return
			}
			if !ok || got != want {
				w.Violation(i, key+elKeySuffix(want == 0), fmt.Sprintf("%s #%d over Eval[%s] = %s, strict evaluation = %d (0 is encoded as nil/zero)\ntree: %s (arg=%d)", how, k+1, cd.name, elShow(tv), want, desc, env0), wit())
				return
			}
		}
		executed, nilThunks, ok := gCheckCells(w, i, c, fmt.Sprintf("while the root value was requested %d times\ntree: %s", reps, desc), wit)
		if !ok {
			return
		}
		w.Add("elemtree.thunks_executed", executed)
		w.Add("elemtree.thunks_with_nil_result", nilThunks)
		w.Add("elemtree.nil_values_in_program", sc.nils)
		if want == 0 {
			w.Add("elemtree.nil_root_results", 1)
		}
	})
	w.Done(i)
	w.Add("elemtree.trees", 1)
	w.Hit("elemtree/" + cd.name)
	if g.deferred && g.depthMax >= 2 {
		w.Distinct("eltree:" + cd.name + ":" + desc + "@" + strconv.Itoa(env0))
		if w.WantSample() && i%53 == 0 && len(desc) < 300 {
			w.Sample(map[string]any{"kind": "tree/element-types", "case": wit()})
		}
	}
}

func runElemDag[T any](w *vrt.W, i int, cd *codec[T]) {
	r := w.Rand(i)
	d := genDag(r)
	env0 := r.IntN(7) - 3
	m := len(d.binds)
	desc := d.String()
	wit := func() any {
		return map[string]any{"dag": desc, "env": env0, "element_type": cd.name, "encoding": "n%3==0 -> nil/zero"}
	}
	sc := &nctx{vals: make([]int, 0, m), cost: make([]int64, 0, m)}
	for _, e := range d.binds {
		sc.visits = 0
		v := sc.eval(e, env0)
		sc.vals = append(sc.vals, v)
		sc.cost = append(sc.cost, sc.visits)
	}
	evals, nilEvals := 0, 0
	w.Begin(i, "lazy.Eval.Get/elem-dag")
	w.Guard(i, wit, func() {
		c := &gctx[T]{cd: cd}
		built := 0
		evalCount := make([]int, m)
		for _, o := range d.ops {
			site := siteOf(d.binds[o.j].kind)
			w.Site(site + "/elem-dag")
			if o.op == 'b' {
				c.budget = nil
				c.bound = append(c.bound, gbuild(c, d.binds[o.j], env0))
				built++
				continue
			}
			c.budget = vrt.NewBudget(16*sc.cost[o.j]+256, "user callbacks during one evaluation of a shared Eval")
			var tv T
			how := "Get"
			if o.op == 'g' {
				tv = c.bound[o.j].Get()
			} else {
				how = "lazy.Run"
				tv = lazy.Run(c.bound[o.j])
			}
			c.budget = nil
			evals++
			evalCount[o.j]++
			got, ok := cd.dec(tv)
			if c.bad != "" || !ok || got != sc.vals[o.j] {
				w.Violation(i, site+"/elem-shared-eval-value"+elKeySuffix(sc.vals[o.j] == 0),
					fmt.Sprintf("%s of v%d over Eval[%s] (evaluation #%d of it, %d of %d bindings built) = %s, strict evaluation = %d (0 is encoded as nil/zero) %s\nv%d = %s\nprogram: %s (arg=%d)",
						how, o.j, cd.name, evalCount[o.j], built, m, elShow(tv), sc.vals[o.j], c.bad, o.j, d.binds[o.j], desc, env0), wit())
				return
			}
			if got == 0 {
				nilEvals++
			}
		}
		executed, nilThunks, ok := gCheckCells(w, i, c, fmt.Sprintf("in a program with shared Eval values (%d evaluations)\nprogram: %s", evals, desc), wit)
		if !ok {
			return
		}
		w.Add("elemdag.thunks_executed", executed)
		w.Add("elemdag.thunks_with_nil_result", nilThunks)
	})
	w.Done(i)
	w.Add("elemdag.cases", 1)
	w.Add("elemdag.evaluations", int64(evals))
	w.Add("elemdag.evaluations_with_nil_result", int64(nilEvals))
	w.Add("elemdag.shared_uses", int64(d.refs))
	w.Hit("elemdag/" + cd.name)
	if d.refs >= 2 {
		w.Distinct("eldag:" + cd.name + ":" + desc + "@" + strconv.Itoa(env0))
		if w.WantSample() && i%53 == 2 && len(desc) < 500 {
			w.Sample(map[string]any{"kind": "dag/element-types", "case": wit(), "values": sc.vals})
		}
	}
}

func elemTreeCases(tier string) int {
	if tier == "thorough" {
		return 6000
	}
	return 1500
}

func elemTreeFloors(tier string, f map[string]int64) {
	n := int64(layout(tier).elemtree * elemTreeCases(tier))
	trees, dags := n*2/3-2, n/3-2
	f["elemtree.trees"] = trees
	f["elemtree.thunks_executed"] = trees
	f["elemtree.thunks_with_nil_result"] = trees / 4
	f["elemtree.nil_root_results"] = trees / 10
	f["elemtree.nil_values_in_program"] = trees
	f["elemdag.cases"] = dags
	f["elemdag.evaluations"] = 10 * dags
	f["elemdag.evaluations_with_nil_result"] = dags
	f["elemdag.thunks_with_nil_result"] = dags
	f["elemdag.shared_uses"] = 4 * dags
	for _, g := range gRunners {
		f["hit.elemtree/"+g.name] = trees / 8
		f["hit.elemdag/"+g.name] = dags / 8
	}
}
