package main

import (
	"bufio"
	"bytes"
	"crypto/sha256"
	"encoding/hex"
	"encoding/json"
	"fmt"
	"go/build"
	"go/parser"
	"go/token"
	"io"
	"io/fs"
	"os"
	"os/exec"
	"path/filepath"
	"regexp"
	"sort"
	"strings"
	"time"
)

// Directive is one //go:generate line of the repository.
type Directive struct {
	ID        int      `json:"id"`
	Dir       string   `json:"dir"`  // relative to the repository root, "." for the root
	File      string   `json:"file"` // base name of the file carrying the directive
	Line      int      `json:"line"`
	Package   string   `json:"package"`
	Cmd       string   `json:"cmd"`       // text after //go:generate
	Generator string   `json:"generator"` // gombok | template_gen | monad_gen | "" (skipped)
	Args      []string `json:"args,omitempty"`
}

func (d Directive) String() string {
	return fmt.Sprintf("%s/%s:%d //go:generate %s", d.Dir, d.File, d.Line, d.Cmd)
}

// Group: the directives of one directory, in go-generate order.
type Group struct {
	Dir        string `json:"dir"`
	Directives []int  `json:"directives"`
	// Sources: hand-written non-test .go files of the directory (no generated-code header). A
	// gombok directory with >= 2 of them is "order sensitive": go/packages parses the files of
	// a package concurrently, so anything the generator derives from cross-file positions or
	// from the order in which it meets declarations can differ between runs.
	Sources int  `json:"sources"`
	Gombok  bool `json:"gombok"`
}

// OrderSensitive: the unit gets the larger number of repeated process starts.
func (g Group) OrderSensitive() bool { return g.Gombok && g.Sources >= 2 }

// GenFile is a file of the snapshot carrying a generated-code header.
type GenFile struct {
	Path      string `json:"path"`
	Generator string `json:"generator"` // name found in the header ("" if the header has another shape)
}

type Plan struct {
	Repo         string      `json:"repo"`
	Module       string      `json:"module"`
	Directives   []Directive `json:"directives"`
	Skipped      []Directive `json:"skipped"`
	Groups       []Group     `json:"groups"`
	GenFiles     []GenFile   `json:"gen_files"`
	Files        int         `json:"files"`
	Bytes        int64       `json:"bytes"`
	SetupSeconds float64     `json:"setup_s"`
}

type shared struct {
	Dir  string
	Base string // pristine snapshot of the working tree
	Bin  string
	Plan *Plan
	base snapshot
}

var generatorPkgs = map[string]string{
	"cmd/gombok":                      "gombok",
	"internal/generator/template_gen": "template_gen",
	"internal/generator/monad_gen":    "monad_gen",
}

func goEnv(extra ...string) []string {
	drop := map[string]bool{"GOFLAGS": true, "GOPROXY": true, "GOSUMDB": true, "GOTOOLCHAIN": true, "GOWORK": true,
		"GOMAXPROCS": true, "GOPACKAGE": true, "GOFILE": true, "GOLINE": true, "PWD": true, "DOLLAR": true,
		envShared: true, envRepo: true}
	for _, e := range extra {
		if i := strings.IndexByte(e, '='); i > 0 {
			drop[e[:i]] = true
		}
	}
	var env []string
	for _, e := range os.Environ() {
		if i := strings.IndexByte(e, '='); i > 0 && drop[e[:i]] {
			continue
		}
		env = append(env, e)
	}
	env = append(env, "GOFLAGS=-mod=mod -trimpath", "GOPROXY=off", "GOSUMDB=off", "GOTOOLCHAIN=local", "GOWORK=off")
	return append(env, extra...)
}

// ---- tree copy / snapshot --------------------------------------------------------------

type fstate struct {
	Sum  string
	Size int64
	Link bool
}

type snapshot map[string]fstate

func hashFile(p string) (string, int64, error) {
	f, err := os.Open(p)
	if err != nil {
		return "", 0, err
	}
	defer f.Close()
	h := sha256.New()
	n, err := io.Copy(h, f)
	if err != nil {
		return "", 0, err
	}
	return hex.EncodeToString(h.Sum(nil)), n, nil
}

func sumBytes(b []byte) string {
	s := sha256.Sum256(b)
	return hex.EncodeToString(s[:])
}

// snap hashes every regular file and symlink below root (directories themselves are not
// part of a snapshot: git does not track them either).
func snap(root string) (snapshot, error) { return snapOpt(root, false) }

// snapOpt: skipGit leaves out the top-level .git entry (as copyTree does).
func snapOpt(root string, skipGit bool) (snapshot, error) {
	s := snapshot{}
	err := filepath.WalkDir(root, func(p string, d fs.DirEntry, err error) error {
		if err != nil {
			if os.IsNotExist(err) {
				return nil
			}
			return err
		}
		rel, _ := filepath.Rel(root, p)
		rel = filepath.ToSlash(rel)
		if skipGit && rel == ".git" {
			if d.IsDir() {
				return filepath.SkipDir
			}
			return nil
		}
		if d.IsDir() {
			return nil
		}
		if d.Type()&fs.ModeSymlink != 0 {
			t, _ := os.Readlink(p)
			s[rel] = fstate{Sum: "link:" + t, Size: int64(len(t)), Link: true}
			return nil
		}
		if !d.Type().IsRegular() {
			return nil
		}
		sum, n, err := hashFile(p)
		if err != nil {
			if os.IsNotExist(err) {
				return nil
			}
			return err
		}
		s[rel] = fstate{Sum: sum, Size: n}
		return nil
	})
	return s, err
}

func (s snapshot) bytes() (n int64) {
	for _, f := range s {
		n += f.Size
	}
	return
}

type delta struct {
	Path string `json:"path"`
	Kind string `json:"kind"` // differs | new | missing   (got relative to want)
}

// diffSnap lists the paths where got differs from want.
func diffSnap(got, want snapshot) []delta {
	var out []delta
	for p, g := range got {
		w, ok := want[p]
		if !ok {
			out = append(out, delta{p, "new"})
		} else if w.Sum != g.Sum {
			out = append(out, delta{p, "differs"})
		}
	}
	for p := range want {
		if _, ok := got[p]; !ok {
			out = append(out, delta{p, "missing"})
		}
	}
	sort.Slice(out, func(i, j int) bool { return out[i].Path < out[j].Path })
	return out
}

func copyFile(src, dst string, mode fs.FileMode) error {
	in, err := os.Open(src)
	if err != nil {
		return err
	}
	defer in.Close()
	os.MkdirAll(filepath.Dir(dst), 0o755)
	os.Remove(dst)
	out, err := os.OpenFile(dst, os.O_CREATE|os.O_WRONLY|os.O_TRUNC, mode.Perm()|0o600)
	if err != nil {
		return err
	}
	if _, err := io.Copy(out, in); err != nil {
		out.Close()
		return err
	}
	return out.Close()
}

// copyTree copies src to dst; the top-level .git entry is left out.
func copyTree(src, dst string) error {
	return filepath.WalkDir(src, func(p string, d fs.DirEntry, err error) error {
		if err != nil {
			return err
		}
		rel, _ := filepath.Rel(src, p)
		if rel == ".git" {
			if d.IsDir() {
				return filepath.SkipDir
			}
			return nil
		}
		t := filepath.Join(dst, rel)
		switch {
		case d.IsDir():
			return os.MkdirAll(t, 0o755)
		case d.Type()&fs.ModeSymlink != 0:
			l, err := os.Readlink(p)
			if err != nil {
				return err
			}
			return os.Symlink(l, t)
		case d.Type().IsRegular():
			fi, err := d.Info()
			if err != nil {
				return err
			}
			return copyFile(p, t, fi.Mode())
		}
		return nil
	})
}

// ---- generated-code header ------------------------------------------------------------

var (
	genHeaderRe = regexp.MustCompile(`^// Code generated .* DO NOT EDIT\.$`)
	genNameRe   = regexp.MustCompile(`^// Code generated by ([^\s,;:]+)`)
)

// generatedHeader reports whether the file carries the Go generated-code header (a line
// `// Code generated … DO NOT EDIT.` before the package clause; for files that are not Go
// source: within the first 10 lines) and the generator named in it.
func generatedHeader(content []byte, isGo bool) (bool, string) {
	sc := bufio.NewScanner(bytes.NewReader(content))
	sc.Buffer(make([]byte, 0, 64<<10), 4<<20)
	for n := 0; sc.Scan(); n++ {
		line := strings.TrimRight(sc.Text(), "\r")
		if isGo && (strings.HasPrefix(line, "package ") || line == "package") {
			return false, ""
		}
		if !isGo && n >= 10 {
			return false, ""
		}
		if genHeaderRe.MatchString(line) {
			name := ""
			if m := genNameRe.FindStringSubmatch(line); m != nil {
				name = m[1]
			}
			return true, name
		}
	}
	return false, ""
}

// ---- directives -----------------------------------------------------------------------

func moduleName(root string) string {
	b, err := os.ReadFile(filepath.Join(root, "go.mod"))
	if err != nil {
		return ""
	}
	for _, l := range strings.Split(string(b), "\n") {
		f := strings.Fields(l)
		if len(f) >= 2 && f[0] == "module" {
			return strings.Trim(f[1], `"`)
		}
	}
	return ""
}

// classify maps the words of a directive to one of the three generators.
func classify(words []string, module string) (gen string, args []string) {
	if len(words) == 0 {
		return "", nil
	}
	byName := map[string]bool{"gombok": true, "template_gen": true, "monad_gen": true}
	if words[0] == "go" && len(words) >= 3 && words[1] == "run" {
		for rel, name := range generatorPkgs {
			if words[2] == module+"/"+rel {
				return name, words[3:]
			}
		}
		return "", nil
	}
	if byName[filepath.Base(words[0])] && !strings.Contains(words[0], "=") {
		return filepath.Base(words[0]), words[1:]
	}
	return "", nil
}

func parseDirectives(root string) (ds, skipped []Directive, err error) {
	module := moduleName(root)
	var all []Directive
	err = filepath.WalkDir(root, func(p string, d fs.DirEntry, err error) error {
		if err != nil {
			return err
		}
		name := d.Name()
		if d.IsDir() {
			if p != root && (strings.HasPrefix(name, ".") || strings.HasPrefix(name, "_") || name == "testdata" || name == "vendor") {
				return filepath.SkipDir
			}
			return nil
		}
		if !strings.HasSuffix(name, ".go") || strings.HasPrefix(name, ".") || strings.HasPrefix(name, "_") {
			return nil
		}
		b, err := os.ReadFile(p)
		if err != nil {
			return err
		}
		if !bytes.Contains(b, []byte("//go:generate")) {
			return nil
		}
		pkg := ""
		if f, perr := parser.ParseFile(token.NewFileSet(), p, b, parser.PackageClauseOnly); perr == nil && f.Name != nil {
			pkg = f.Name.Name
		}
		rel, _ := filepath.Rel(root, filepath.Dir(p))
		rel = filepath.ToSlash(rel)
		for i, line := range strings.Split(string(b), "\n") {
			line = strings.TrimRight(line, "\r")
			if !strings.HasPrefix(line, "//go:generate ") && !strings.HasPrefix(line, "//go:generate\t") {
				continue
			}
			cmd := strings.TrimSpace(line[len("//go:generate"):])
			words := strings.Fields(cmd)
			if len(words) > 0 && words[0] == "-command" {
				// alias definitions are not commands; report them as skipped
				all = append(all, Directive{Dir: rel, File: name, Line: i + 1, Package: pkg, Cmd: cmd})
				continue
			}
			gen, args := classify(words, module)
			if ok, merr := build.Default.MatchFile(filepath.Dir(p), name); merr == nil && !ok {
				// `go generate ./...` does not look into files excluded by build constraints
				all = append(all, Directive{Dir: rel, File: name, Line: i + 1, Package: pkg, Cmd: cmd + "   [file excluded by build constraints]"})
				continue
			}
			all = append(all, Directive{Dir: rel, File: name, Line: i + 1, Package: pkg, Cmd: cmd, Generator: gen, Args: args})
		}
		return nil
	})
	if err != nil {
		return nil, nil, err
	}
	// go generate ./... order: packages by import path (root first), files by name with
	// _test.go files after the others, directives by line
	key := func(d Directive) string {
		dir := d.Dir
		if dir == "." {
			dir = ""
		}
		t := "0"
		if strings.HasSuffix(d.File, "_test.go") {
			t = "1"
		}
		return fmt.Sprintf("%s\x00%s%s\x00%09d", dir, t, d.File, d.Line)
	}
	sort.Slice(all, func(i, j int) bool { return key(all[i]) < key(all[j]) })
	for _, d := range all {
		if d.Generator == "" {
			skipped = append(skipped, d)
		} else {
			d.ID = len(ds)
			ds = append(ds, d)
		}
	}
	return ds, skipped, nil
}

// countSources counts the hand-written non-test Go files of a directory.
func countSources(dir string) int {
	es, err := os.ReadDir(dir)
	if err != nil {
		return 0
	}
	n := 0
	for _, e := range es {
		name := e.Name()
		if e.IsDir() || !strings.HasSuffix(name, ".go") || strings.HasSuffix(name, "_test.go") || strings.HasPrefix(name, ".") || strings.HasPrefix(name, "_") {
			continue
		}
		b, err := os.ReadFile(filepath.Join(dir, name))
		if err != nil {
			continue
		}
		if ok, _ := generatedHeader(b, true); ok {
			continue
		}
		n++
	}
	return n
}

// ---- setup (runs once, in the wrapper) ------------------------------------------------

func setup(repo, tmp string, start time.Time) error {
	if fi, err := os.Stat(filepath.Join(repo, "go.mod")); err != nil || fi.IsDir() {
		return fmt.Errorf("%s is not a module root", repo)
	}
	base := filepath.Join(tmp, "base")
	build := filepath.Join(tmp, "build")
	bin := filepath.Join(tmp, "bin")
	// the working tree may be edited while it is copied (other checks run mutants, the
	// maintainer commits): accept the copy only if it equals the tree hashed right after it
	consistent := false
	for try := 0; try < 6 && !consistent; try++ {
		os.RemoveAll(base)
		if err := copyTree(repo, base); err != nil {
			if try < 5 {
				time.Sleep(300 * time.Millisecond)
				continue
			}
			return fmt.Errorf("snapshot of %s: %v", repo, err)
		}
		a, err1 := snapOpt(repo, true)
		b, err2 := snap(base)
		consistent = err1 == nil && err2 == nil && len(diffSnap(a, b)) == 0
		if !consistent {
			time.Sleep(500 * time.Millisecond)
		}
	}
	if !consistent {
		return fmt.Errorf("snapshot of %s: the working tree kept changing while it was copied", repo)
	}
	// the generators are built from a second copy so that the pristine snapshot is never
	// touched by the go tool
	if err := copyTree(base, build); err != nil {
		return err
	}
	os.MkdirAll(bin, 0o755)
	var pkgs []string
	for rel := range generatorPkgs {
		if _, err := os.Stat(filepath.Join(build, rel)); err != nil {
			return fmt.Errorf("generator package %s missing", rel)
		}
		pkgs = append(pkgs, "./"+rel)
	}
	sort.Strings(pkgs)
	cmd := exec.Command("go", append([]string{"build", "-o", bin + string(filepath.Separator)}, pkgs...)...)
	cmd.Dir = build
	cmd.Env = goEnv("PWD=" + build)
	if out, err := cmd.CombinedOutput(); err != nil {
		return fmt.Errorf("go build of the generators failed: %v\n%s", err, out)
	}
	for _, name := range generatorPkgs {
		if _, err := os.Stat(filepath.Join(bin, name)); err != nil {
			return fmt.Errorf("generator binary %s was not produced", name)
		}
	}
	// warm the build cache once: go/packages makes `go list -export` compile the dependencies of
	// every package a generator loads; with -trimpath those compilations do not depend on the
	// scratch path, so doing it here keeps 16 workers from compiling the same packages at once.
	// Failures are not fatal here (a package that does not compile is the business of the run).
	warm := exec.Command("go", "build", "./...")
	warm.Dir = build
	warm.Env = goEnv("PWD=" + build)
	warm.Run()
	os.RemoveAll(build)
	ds, skipped, err := parseDirectives(base)
	if err != nil {
		return err
	}
	p := &Plan{Repo: repo, Module: moduleName(base), Directives: ds, Skipped: skipped}
	gi := map[string]int{}
	for _, d := range ds {
		i, ok := gi[d.Dir]
		if !ok {
			i = len(p.Groups)
			gi[d.Dir] = i
			p.Groups = append(p.Groups, Group{Dir: d.Dir})
		}
		p.Groups[i].Directives = append(p.Groups[i].Directives, d.ID)
		if d.Generator == "gombok" {
			p.Groups[i].Gombok = true
		}
	}
	for i := range p.Groups {
		p.Groups[i].Sources = countSources(filepath.Join(base, filepath.FromSlash(p.Groups[i].Dir)))
	}
	s, err := snap(base)
	if err != nil {
		return err
	}
	p.Files, p.Bytes = len(s), s.bytes()
	for _, rel := range sortedKeys(s) {
		if s[rel].Link {
			continue
		}
		b, err := os.ReadFile(filepath.Join(base, rel))
		if err != nil {
			return err
		}
		if ok, name := generatedHeader(b, strings.HasSuffix(rel, ".go")); ok {
			p.GenFiles = append(p.GenFiles, GenFile{Path: rel, Generator: name})
		}
	}
	p.SetupSeconds = float64(int(time.Since(start).Seconds()*10)) / 10
	b, _ := json.MarshalIndent(p, "", " ")
	return os.WriteFile(filepath.Join(tmp, "plan.json"), b, 0o644)
}

func loadShared(dir string) (*shared, error) {
	b, err := os.ReadFile(filepath.Join(dir, "plan.json"))
	if err != nil {
		return nil, err
	}
	p := &Plan{}
	if err := json.Unmarshal(b, p); err != nil {
		return nil, err
	}
	return &shared{Dir: dir, Base: filepath.Join(dir, "base"), Bin: filepath.Join(dir, "bin"), Plan: p}, nil
}

func (sh *shared) baseSnap() (snapshot, error) {
	if sh.base != nil {
		return sh.base, nil
	}
	s, err := snap(sh.Base)
	if err == nil {
		sh.base = s
	}
	return s, err
}

// firstDiff describes the first differing line of two files.
func firstDiff(want, got []byte, wantName, gotName string) string {
	wl := strings.Split(string(want), "\n")
	gl := strings.Split(string(got), "\n")
	i := 0
	for i < len(wl) && i < len(gl) && wl[i] == gl[i] {
		i++
	}
	if i == len(wl) && i == len(gl) {
		return "no line differs"
	}
	var b strings.Builder
	fmt.Fprintf(&b, "first difference at line %d (%s has %d lines / %d bytes, %s has %d lines / %d bytes)\n", i+1, wantName, len(wl), len(want), gotName, len(gl), len(got))
	show := func(name string, l []string) {
		for k := i; k < i+3 && k < len(l); k++ {
			s := l[k]
			if len(s) > 200 {
				s = s[:200] + "…"
			}
			fmt.Fprintf(&b, "  %s:%d: %s\n", name, k+1, s)
		}
		if i >= len(l) {
			fmt.Fprintf(&b, "  %s: <end of file>\n", name)
		}
	}
	show(wantName, wl)
	show(gotName, gl)
	return b.String()
}
