package main

import (
	"fmt"
	"math/rand/v2"
	"os"
	"path/filepath"
	"testing"
)

// TestDumpExtras writes the order-sensitive extra inputs below C13_DUMP (debugging aid):
// C13_DUMP=<dir> C13_DUMP_SEED=<n> go test -tags verif -run TestDumpExtras ./c13
func TestDumpExtras(t *testing.T) {
	dir := os.Getenv("C13_DUMP")
	if dir == "" {
		t.Skip()
	}
	var seed uint64 = 1
	fmt.Sscan(os.Getenv("C13_DUMP_SEED"), &seed)
	for _, sp := range extraSpecs("quick") {
		if sp.Kind != "given" && sp.Kind != "multi" && sp.Kind != "phase" && sp.Kind != "ambig" {
			continue
		}
		r := rand.New(rand.NewPCG(seed, 0xC13))
		unit := "github.com/csgura/fp/test/internal/c13x/" + sp.Name
		var files map[string]string
		var gen string
		switch sp.Kind {
		case "given":
			files, gen, _ = synthGiven(r, sp, unit)
		case "multi":
			files, gen = synthMulti(r, sp, unit)
		case "phase":
			files, gen = synthPhase(r, sp, unit)
		default:
			files, gen = synthAmbig(r, sp, unit)
		}
		for n, c := range files {
			p := filepath.Join(dir, sp.Name, filepath.FromSlash(n))
			os.MkdirAll(filepath.Dir(p), 0o755)
			if err := os.WriteFile(p, []byte(c), 0o644); err != nil {
				t.Fatal(err)
			}
		}
		os.WriteFile(filepath.Join(dir, sp.Name, ".genfile"), []byte(gen), 0o644)
	}
}
