package main

import (
	"fmt"
	"math/rand/v2"
	"os"
	"path/filepath"
	"regexp"
	"strings"
)

// extraSpec describes one extra gombok input package.
type extraSpec struct {
	Name     string
	Kind     string // wide | shop | given | multi
	External bool   // external module with a replace directive instead of a package inside the copy
	MinF     int
	MaxF     int
	Structs  int
	N        int  // given: competing instance packages; multi: source files
	SameName bool // given: the instance packages share one package name (import alias numbering)
	// OrderSensitive units get the larger number of repeated process starts (see repeats)
	OrderSensitive bool
	// Ambiguous units (one cheap gombok run each) get R >= 12 process starts in every tier
	Ambiguous bool
}

func extraSpecs(tier string) []extraSpec {
	all := []extraSpec{
		{Name: "c13wide1", Kind: "wide", MinF: 10, MaxF: 22, Structs: 1},
		{Name: "c13shop", Kind: "shop", External: true},
		{Name: "c13wide2", Kind: "wide", MinF: 23, MaxF: 40, Structs: 1},
		{Name: "c13wide3", Kind: "wide", MinF: 6, MaxF: 14, Structs: 4},
		{Name: "c13wide4", Kind: "wide", MinF: 12, MaxF: 30, Structs: 2},
		{Name: "c13given1", Kind: "given", N: 2, OrderSensitive: true},
		{Name: "c13given2", Kind: "given", N: 3, OrderSensitive: true},
		{Name: "c13given3", Kind: "given", N: 4, SameName: true, OrderSensitive: true},
		{Name: "c13given4", Kind: "given", N: 2, SameName: true, OrderSensitive: true},
		{Name: "c13multi1", Kind: "multi", N: 3, OrderSensitive: true},
		{Name: "c13multi2", Kind: "multi", N: 4, OrderSensitive: true},
		{Name: "c13multi3", Kind: "multi", N: 5, OrderSensitive: true},
		// phase dependencies inside one gombok run (extras3.go): first generation from scratch must be the fixpoint
		{Name: "c13phase1", Kind: "phase", N: 1},
		{Name: "c13phase2", Kind: "phase", N: 2},
		{Name: "c13phase3", Kind: "phase", N: 3},
		// choices the generator has to make the same way in every process (extras3.go)
		{Name: "c13ambig1", Kind: "ambig", N: 1, Ambiguous: true},
		{Name: "c13ambig2", Kind: "ambig", N: 2, Ambiguous: true},
		{Name: "c13ambig3", Kind: "ambig", N: 3, Ambiguous: true},
	}
	return all // same packages in both tiers; the tiers differ in the number of repeats
}

var fieldWords = []string{"alpha", "beta", "gamma", "delta", "epsilon", "zeta", "eta", "theta", "iota", "kappa", "lambda", "mu", "nu", "xi",
	"omicron", "pi", "rho", "sigma", "tau", "upsilon", "phi", "chi", "psi", "omega", "name", "count", "total", "left", "right", "first", "last",
	"id", "key", "value", "size", "width", "height", "depth", "state", "kind", "owner", "label", "title", "price", "flag", "index", "offset", "weight"}

// field types every derived instance used below can be summoned for
var wideTypes = []string{"string", "int", "bool", "float64", "[]int", "[]string", "fp.Option[string]", "fp.Option[int]", "map[string]int",
	"*int", "time.Time", "fp.Seq[int]", "int64", "uint32", "Inner", "fp.Option[Inner]", "[]Inner"}

var flatTypes = []string{"string", "int", "float64"}

func pickNames(r *rand.Rand, n int) []string {
	perm := r.Perm(len(fieldWords))
	var out []string
	for i := 0; i < n; i++ {
		w := fieldWords[perm[i%len(perm)]]
		if i >= len(perm) {
			w = fmt.Sprintf("%s%d", w, i/len(perm))
		}
		out = append(out, w)
	}
	return out
}

func tagFor(r *rand.Rand, name string) string {
	switch r.IntN(9) {
	case 0:
		return fmt.Sprintf(" `json:\"%s,omitempty\"`", name)
	case 1:
		return fmt.Sprintf(" `json:\"%s_x\" column:\"c_%s\"`", name, name)
	case 2:
		return fmt.Sprintf(" `bson:\"%s\" json:\"renamed_%s\"`", name, name)
	case 3:
		return fmt.Sprintf(" `column:\"%s\"`", strings.ToUpper(name))
	case 4:
		return fmt.Sprintf(" `yaml:\"%s\" xml:\"%s,attr\" json:\"%s\"`", name, name, name)
	}
	return ""
}

// synthWide writes a package with wide @fp.Value structs. Everything is drawn from r.
func synthWide(r *rand.Rand, sp extraSpec) string {
	var decls []string
	var derives []string
	derive := func(tc, typ string) {
		derives = append(derives, fmt.Sprintf("// @fp.Derive\nvar _ %s\n", fmt.Sprintf(tc, typ)))
	}
	// Inner: small struct used as a field type
	{
		names := pickNames(r, 3+r.IntN(3))
		var b strings.Builder
		b.WriteString("// @fp.Value\n// @fp.Json\n// @fp.GenLabelled\ntype Inner struct {\n")
		types := []string{"string", "int", "fp.Option[bool]", "float64", "[]string"}
		for i, n := range names {
			fmt.Fprintf(&b, "\t%s %s%s\n", n, types[(i+r.IntN(2))%len(types)], tagFor(r, n))
		}
		b.WriteString("}\n")
		decls = append(decls, b.String())
		derive("eq.Derives[fp.Eq[%s]]", "Inner")
		derive("show.Derives[fp.Show[%s]]", "Inner")
		derive("js.Derives[js.Encoder[%s]]", "Inner")
		derive("js.Derives[js.Decoder[%s]]", "Inner")
	}
	// Flat: read / hash derivable
	{
		names := pickNames(r, 2+r.IntN(7))
		var b strings.Builder
		b.WriteString("// @fp.Value\n// @fp.GenLabelled\n")
		if r.IntN(2) == 0 {
			b.WriteString("// @fp.Json\n")
		}
		b.WriteString("type Flat struct {\n")
		for _, n := range names {
			fmt.Fprintf(&b, "\t%s %s%s\n", n, flatTypes[r.IntN(len(flatTypes))], tagFor(r, n))
		}
		b.WriteString("}\n")
		decls = append(decls, b.String())
		derive("eq.Derives[fp.Eq[%s]]", "Flat")
		derive("hash.Derives[fp.Hashable[%s]]", "Flat")
		derive("show.Derives[fp.Show[%s]]", "Flat")
		derive("read.Derives[read.Read[%s]]", "Flat")
		derive("js.Derives[js.Encoder[%s]]", "Flat")
		derive("js.Derives[js.Decoder[%s]]", "Flat")
	}
	for s := 0; s < sp.Structs; s++ {
		tn := fmt.Sprintf("Wide%d", s)
		nf := sp.MinF + r.IntN(sp.MaxF-sp.MinF+1)
		names := pickNames(r, nf)
		var b strings.Builder
		fmt.Fprintf(&b, "// %s has %d fields.\n// @fp.Value\n// @fp.Json\n// @fp.GenLabelled\ntype %s struct {\n", tn, nf, tn)
		for i, n := range names {
			t := wideTypes[r.IntN(len(wideTypes))]
			if i == 1 {
				// one exported and one ignored field in every struct
				fmt.Fprintf(&b, "\tPub%s %s%s\n", strings.ToUpper(n[:1])+n[1:], t, tagFor(r, n))
				continue
			}
			if i == 2 {
				fmt.Fprintf(&b, "\t_%s string\n", n)
				continue
			}
			fmt.Fprintf(&b, "\t%s %s%s\n", n, t, tagFor(r, n))
		}
		b.WriteString("}\n")
		decls = append(decls, b.String())
		derive("eq.Derives[fp.Eq[%s]]", tn)
		derive("show.Derives[fp.Show[%s]]", tn)
		derive("js.Derives[js.Encoder[%s]]", tn)
		derive("js.Derives[js.Decoder[%s]]", tn)
	}
	r.Shuffle(len(decls), func(i, j int) { decls[i], decls[j] = decls[j], decls[i] })
	r.Shuffle(len(derives), func(i, j int) { derives[i], derives[j] = derives[j], derives[i] })
	var b strings.Builder
	fmt.Fprintf(&b, "package %s\n\n", sp.Name)
	b.WriteString(`import (
	"time"

	"github.com/csgura/fp"
	"github.com/csgura/fp/eq"
	"github.com/csgura/fp/hash"
	"github.com/csgura/fp/test/internal/js"
	"github.com/csgura/fp/test/internal/read"
	"github.com/csgura/fp/test/internal/show"
)

//lint:file-ignore U1000 generator input

//go:generate go run github.com/csgura/fp/cmd/gombok

var _ time.Time

`)
	// interleave declarations and derive requests
	for len(decls) > 0 || len(derives) > 0 {
		if len(decls) > 0 && (len(derives) == 0 || r.IntN(3) == 0) {
			b.WriteString(decls[0] + "\n")
			decls = decls[1:]
		} else {
			b.WriteString(derives[0] + "\n")
			derives = derives[1:]
		}
	}
	return b.String()
}

const shopSource = `package c13shop

import (
	"github.com/csgura/fp"
	"github.com/csgura/fp/clone"
	"github.com/csgura/fp/eq"
	"github.com/csgura/fp/genfp"
	"github.com/csgura/fp/hash"
	"github.com/csgura/fp/monoid"
	"github.com/csgura/fp/ord"
	"github.com/csgura/fp/show"
)

//go:generate go run github.com/csgura/fp/cmd/gombok

// @fp.Value
// @fp.Json
// @fp.GenLabelled
type Item struct {
	sku      string ` + "`json:\"sku\" column:\"item_sku\"`" + `
	title    string ` + "`json:\"title,omitempty\"`" + `
	qty      int
	price    float64 ` + "`json:\"price\"`" + `
	tags     []string
	discount fp.Option[float64]
	attrs    map[string]string
	dims     fp.Tuple2[int, int]
	vendor   string ` + "`bson:\"v\" json:\"vendor_name\"`" + `
	origin   string
	batch    int64
	grade    uint8
}

// @fp.Value
type Key struct {
	region string
	id     int
	shard  uint16
}

// @fp.Value
type Totals struct {
	count int
	sum   int
	label string
}

var MonoidInt = monoid.Sum[int]()
var MonoidString = monoid.String

// @fp.Value
// @fp.GenLabelled
type Order struct {
	key   Key
	items fp.Seq[Item]
	note  fp.Option[string]
	first Item
}

// @fp.Derive
var _ eq.Derives[fp.Eq[Item]]

// @fp.Derive
var _ show.Derives[fp.Show[Item]]

// @fp.Derive
var _ clone.Derives[fp.Clone[Item]]

// @fp.Derive
var _ eq.Derives[fp.Eq[Key]]

// @fp.Derive
var _ ord.Derives[fp.Ord[Key]]

// @fp.Derive
var _ hash.Derives[fp.Hashable[Key]]

// @fp.Derive
var _ show.Derives[fp.Show[Key]]

// @fp.Derive
var _ monoid.Derives[fp.Monoid[Totals]]

// @fp.Derive
var _ eq.Derives[fp.Eq[Order]]

// @fp.Derive
var _ show.Derives[fp.Show[Order]]

// @fp.Derive
var _ clone.Derives[fp.Clone[Order]]

type Pricer interface {
	Price(item Item) float64
	Describe(item Item, verbose bool) string
	Reset()
}

// @fp.Generate
var _ = genfp.GenerateAdaptor[Pricer]{
	File: "c13shop_adaptor.go",
	Self: true,
}

// @fp.Generate
var _ = genfp.GenerateFromUntil{
	File: "c13shop_tuples.go",
	Imports: []genfp.ImportPackage{
		{Package: "github.com/csgura/fp", Name: "fp"},
	},
	From:  2,
	Until: 7,
	Template: ` + "`" + `
func First{{.N}}[{{TypeArgs 1 .N}} any](t fp.{{TupleType .N}}) A1 {
	return t.I1
}
` + "`" + `,
}
`

// extra holds the state of one extra package inside a worker.
type extra struct {
	sp     extraSpec
	root   string // directory snapshots are relative to
	d      Directive
	inputs map[string][]byte // rel (to pkg dir) -> content
	o0     *passRes
	o0pkg  snapshot

	contests []contest
}

func (k *worker) pkgSnap(e *extra, s snapshot) snapshot {
	out := snapshot{}
	pre := e.d.Dir + "/"
	for p, st := range s {
		if strings.HasPrefix(p, pre) {
			out[p] = st
		}
	}
	return out
}

// setState puts the package directory into the clean state (inputs only) or the
// regenerated state (inputs + the files of pass 0).
func (k *worker) setState(e *extra, withGenerated bool) {
	dir := filepath.Join(e.root, filepath.FromSlash(e.d.Dir))
	os.RemoveAll(dir)
	os.MkdirAll(dir, 0o755)
	for n, b := range e.inputs {
		t := filepath.Join(dir, filepath.FromSlash(n))
		os.MkdirAll(filepath.Dir(t), 0o755)
		if err := os.WriteFile(t, b, 0o644); err != nil {
			panic(err)
		}
	}
	if withGenerated && e.o0 != nil {
		for p := range e.o0pkg {
			if b, ok := e.o0.Content[p]; ok {
				if err := os.WriteFile(filepath.Join(e.root, filepath.FromSlash(p)), b, 0o644); err != nil {
					panic(err)
				}
			}
		}
	}
}

func (k *worker) needO0(e *extra) {
	if e.o0 != nil {
		return
	}
	k.setState(e, false)
	e.o0 = k.pass(e.root, []Directive{e.d}, func(int) int { return k.procs(0) }, true)
	e.o0pkg = k.pkgSnap(e, e.o0.After)
}

func (k *worker) runExtra(sp extraSpec) {
	w := k.w
	r := rand.New(rand.NewPCG(w.CaseSeed(0), 0xC13))
	e := &extra{sp: sp, inputs: map[string][]byte{}}
	if sp.External {
		e.root = filepath.Join(k.dir, "ext")
		os.MkdirAll(e.root, 0o755)
		gomod := fmt.Sprintf("module c13ext\n\ngo 1.23\n\nrequire %s v0.0.0\n\nreplace %s => %s\n", k.sh.Plan.Module, k.sh.Plan.Module, k.tree)
		if err := os.WriteFile(filepath.Join(e.root, "go.mod"), []byte(gomod), 0o644); err != nil {
			panic(err)
		}
		if b, err := os.ReadFile(filepath.Join(k.sh.Base, "go.sum")); err == nil {
			os.WriteFile(filepath.Join(e.root, "go.sum"), b, 0o644)
		}
		e.d = Directive{Dir: sp.Name, File: sp.Name + ".go", Package: sp.Name, Generator: "gombok", Cmd: "go run " + k.sh.Plan.Module + "/cmd/gombok"}
		e.inputs[sp.Name+".go"] = []byte(shopSource)
	} else {
		e.root = k.tree
		e.d = Directive{Dir: "test/internal/c13x/" + sp.Name, File: sp.Name + ".go", Package: sp.Name, Generator: "gombok", Cmd: "go run " + k.sh.Plan.Module + "/cmd/gombok"}
		switch sp.Kind {
		case "given", "multi", "phase", "ambig":
			unitPath := k.sh.Plan.Module + "/" + e.d.Dir
			var files map[string]string
			var genFile string
			switch sp.Kind {
			case "given":
				files, genFile, e.contests = synthGiven(r, sp, unitPath)
			case "multi":
				files, genFile = synthMulti(r, sp, unitPath)
			case "phase":
				files, genFile = synthPhase(r, sp, unitPath)
			default:
				files, genFile = synthAmbig(r, sp, unitPath)
			}
			for n, c := range files {
				e.inputs[n] = []byte(c)
			}
			e.d.File = genFile
		default:
			e.inputs[sp.Name+".go"] = []byte(synthWide(r, sp))
		}
	}
	for i, l := range strings.Split(string(e.inputs[e.d.File]), "\n") {
		if strings.HasPrefix(l, "//go:generate ") {
			e.d.Line = i + 1
		}
	}
	unit := "extra/" + sp.Name
	for i := w.From; i < w.To; i++ {
		i := i
		w.Begin(i, "gombok/"+unit)
		var cur *passRes
		kind := "extra:determinism"
		witness := func() any {
			m := map[string]any{"extra_package": sp.Name, "kind": sp.Kind, "external_module": sp.External, "pass": i, "gomaxprocs": k.procs(i), "gomaxprocs_pass0": k.procs(0), "input": string(e.inputs[e.d.File])}
			if len(e.inputs) > 1 {
				all := map[string]string{}
				for n, c := range e.inputs {
					all[n] = string(c)
				}
				m["input_files"] = all
			}
			if cur != nil {
				m["record"] = sampleOf(cur, kind)
			}
			return m
		}
		w.Guard(i, witness, func() {
			if i == 0 {
				kind = "extra:first-generation"
				e.o0 = nil
				k.needO0(e)
				cur = e.o0
				w.Add("extra_first_generations", 1)
				nGen := 0
				for p := range e.o0pkg {
					if _, isInput := e.inputs[strings.TrimPrefix(p, e.d.Dir+"/")]; !isInput {
						nGen++
					}
				}
				w.Add("extra_generated_files", int64(nGen))
				if nGen > 0 {
					w.Add("extra_units_with_output."+sp.Kind, 1)
				}
				if nGen == 0 {
					w.Add("extras_without_output", 1)
					w.Note(fmt.Sprintf("extra package %s: gombok wrote no file: %s", sp.Name, tailStr(e.o0.Runs[0].Output, 300)))
				}
				if w.WantSample() {
					w.Sample(sampleOf(e.o0, kind))
				}
				k.observeContests(e)
				k.observeChoices(e)
				return
			}
			k.needO0(e)
			onTop := i%2 == 1
			k.setState(e, onTop)
			if onTop {
				kind = "extra:idempotence"
			}
			cur = k.pass(e.root, []Directive{e.d}, func(int) int { return k.procs(i) }, true)
			w.Add("repeated_runs", 1)
			if sp.OrderSensitive {
				w.Add("order_sensitive.repeated_runs", 1)
			}
			if sp.Ambiguous {
				w.Add("ambiguous.repeated_runs", 1)
			}
			if sp.Kind == "phase" {
				if onTop {
					w.Add("phase.second_run_on_top_of_first_generation", 1)
				} else {
					w.Add("phase.repeated_first_generations_from_scratch", 1)
				}
			}
			got := k.pkgSnap(e, cur.After)
			for _, d := range k.compare(got, e.o0pkg) {
				what := fmt.Sprintf("%s (%s)", d.Path, d.Kind)
				if d.Kind == "differs" {
					what += "\n" + firstDiff(e.o0.Content[d.Path], cur.Content[d.Path], "pass0", fmt.Sprintf("pass%d", i))
				}
				if onTop {
					w.Violation(i, "gombok/"+unit+"/not-idempotent",
						fmt.Sprintf("gombok run on top of its own output for extra package %s (GOMAXPROCS %d vs %d) differs from the first generation: %s", sp.Name, k.procs(0), k.procs(i), what), witness())
				} else {
					w.Violation(i, "gombok/"+unit+"/nondeterministic",
						fmt.Sprintf("two gombok runs over the identical clean input of extra package %s (GOMAXPROCS %d vs %d) differ: %s", sp.Name, k.procs(0), k.procs(i), what), witness())
				}
			}
			if onTop {
				w.Add("extra_idempotence_passes", 1)
			} else {
				w.Add("extra_determinism_passes", 1)
			}
		})
		w.Done(i)
	}
}

// observeContests records (evidence only, never a verdict) which of the competing imported
// packages the first generation resolved each contested instance to.
func (k *worker) observeContests(e *extra) {
	if len(e.contests) == 0 {
		return
	}
	w := k.w
	var gen []byte
	for p, b := range e.o0.Content {
		if strings.HasSuffix(p, "_derive_generated.go") {
			gen = b
		}
	}
	for _, c := range e.contests {
		if c.Offers < 2 {
			continue
		}
		w.Add("import_given.contested_instances", 1)
		re := regexp.MustCompile(`\b(\w+)\.` + c.Symbol + `\b`)
		users := map[string]bool{}
		for _, m := range re.FindAllSubmatch(gen, -1) {
			users[string(m[1])] = true
		}
		switch {
		case len(users) == 0:
			w.Add("import_given.contested_instance_not_used", 1)
		case len(users) > 1:
			w.Add("import_given.contested_instance_resolved_to_several_packages", 1)
			w.Note(fmt.Sprintf("extra %s: %s is taken from several packages in one output: %v", e.sp.Name, c.Symbol, sortedKeys(users)))
		case c.First == "":
			w.Add("import_given.contested_instance_resolved_to_one_package", 1)
		case users[c.First]:
			w.Add("import_given.contested_instance_resolved_to_one_package", 1)
			w.Add("import_given.first_directive_wins", 1)
		default:
			w.Add("import_given.contested_instance_resolved_to_one_package", 1)
			w.Add("import_given.other_than_first_directive_wins", 1)
			w.Note(fmt.Sprintf("extra %s: %s resolved to %v although the first @fp.ImportGiven directive that offers it names %s", e.sp.Name, c.Symbol, sortedKeys(users), c.First))
		}
	}
}

// observeChoices records (evidence only, never a verdict) which of the instances an AMBIG unit leaves
// to the generator the first generation used.
func (k *worker) observeChoices(e *extra) {
	if e.sp.Kind != "ambig" {
		return
	}
	var gen []byte
	for p, b := range e.o0.Content {
		if strings.HasSuffix(p, "_derive_generated.go") {
			gen = b
		}
	}
	for _, c := range ambigChoices[e.sp.N] {
		n := len(regexp.MustCompile(`\b`+regexp.QuoteMeta(c)+`\b`).FindAll(gen, -1))
		if n > 0 {
			k.w.Add("ambig.choice."+e.sp.Name+"."+c, int64(n))
			k.w.Add("ambig.choices_observed", 1)
		}
	}
}
