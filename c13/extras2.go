package main

import (
	"fmt"
	"math/rand/v2"
	"sort"
	"strings"
)

// Order-sensitive extra inputs. Everything gombok emits for them depends on an ORDER in which
// the generator collects things; the repository's own packages exercise almost none of these
// orders (one source file per package, no competing imported instances):
//
//   given: 2-4 instance packages that ALL offer an applicable instance for the same type class
//          and type (by name: EqDuration, EqMonth, ...; by type: an oddly named fp.Eq[time.Weekday]),
//          imported with @fp.ImportGiven directives that are permuted and spread over 2-3 source
//          files; in one variant the instance packages also share one package NAME, so that the
//          import aliases (inst, inst1, ...) depend on which is met first.
//          Rule of the unchanged generator (probed, 24 process starts per directive order, no
//          variation): the derive package named in the @fp.Derive directive is searched first,
//          then the imported packages in DIRECTIVE order = source files in file-name order,
//          declarations in source order; the first package that offers the instance wins.
//   multi: 3-5 source files of similar size with tagged structs (@fp.Value, @fp.Getter, @fp.With,
//          @fp.String, @fp.Builder, @fp.AllArgsConstructor, @fp.GenLabelled, @fp.Json) whose names
//          are NOT in the alphabetical order of the files, generic structs instantiated several
//          times, field types from two packages that share the name `shape` (and one called
//          `option` like fp's), many struct tags, several @fp.Derive directives per file and for
//          types declared in other files (one with recursive=true: on-demand derivations), and
//          @fp.Generate templates in different files that write into the SAME output file.

func pathJoin(a ...string) string { return strings.Join(a, "/") }

type srcFile struct {
	name string
	body strings.Builder
	imps map[string]string // import path -> alias ("" = none)
}

func (f *srcFile) use(path string) {
	if f.imps == nil {
		f.imps = map[string]string{}
	}
	if _, ok := f.imps[path]; !ok {
		f.imps[path] = ""
	}
}

func (f *srcFile) useAs(alias, path string) {
	f.use(path)
	f.imps[path] = alias
}

func (f *srcFile) render(pkg string, header string) string {
	var b strings.Builder
	fmt.Fprintf(&b, "package %s\n\n", pkg)
	if len(f.imps) > 0 {
		var ps []string
		for p := range f.imps {
			ps = append(ps, p)
		}
		sort.Strings(ps)
		b.WriteString("import (\n")
		for _, p := range ps {
			if a := f.imps[p]; a != "" {
				fmt.Fprintf(&b, "\t%s %q\n", a, p)
			} else {
				fmt.Fprintf(&b, "\t%q\n", p)
			}
		}
		b.WriteString(")\n\n")
	}
	b.WriteString(header)
	b.WriteString(f.body.String())
	return b.String()
}

const fpPath = "github.com/csgura/fp"

// ---- competing @fp.ImportGiven ----------------------------------------------------------------

type givenTC struct{ name, pkg string }

var givenTCs = []givenTC{{"Eq", "eq"}, {"Ord", "ord"}, {"Show", "show"}}

// instanceSource: one instance package. which[tc][typ] tells whether it offers that instance.
func instanceSource(pkgName string, mark int, offers map[string]bool) string {
	var b strings.Builder
	fmt.Fprintf(&b, "package %s\n\nimport (\n\t\"fmt\"\n\t\"time\"\n\n\t%q\n\t%q\n\t%q\n\t%q\n)\n\n", pkgName, fpPath, fpPath+"/eq", fpPath+"/ord", fpPath+"/show")
	b.WriteString("// Derives marks this package as a source of given instances.\ntype Derives[T any] interface{}\n\nvar _ = fmt.Sprint\nvar _ time.Duration\n\n")
	type tdef struct{ id, typ string }
	for _, t := range []tdef{{"Duration", "time.Duration"}, {"Month", "time.Month"}} {
		if offers["Eq/"+t.id] {
			// half of the instances are vars, half funcs
			if mark%2 == 0 {
				fmt.Fprintf(&b, "func Eq%s() fp.Eq[%s] {\n\treturn eq.New(func(a, b %s) bool { return a == b })\n}\n\n", t.id, t.typ, t.typ)
			} else {
				fmt.Fprintf(&b, "var Eq%s fp.Eq[%s] = eq.New(func(a, b %s) bool { return a == b })\n\n", t.id, t.typ, t.typ)
			}
		}
		if offers["Ord/"+t.id] {
			fmt.Fprintf(&b, "func Ord%s() fp.Ord[%s] {\n\treturn ord.New(eq.New(func(a, b %s) bool { return a == b }), fp.LessFunc[%s](func(a, b %s) bool { return a < b }))\n}\n\n", t.id, t.typ, t.typ, t.typ, t.typ)
		}
		if offers["Show/"+t.id] {
			fmt.Fprintf(&b, "var Show%s fp.Show[%s] = show.New(func(v %s) string { return fmt.Sprintf(\"%s%d(%%d)\", int64(v)) })\n\n", t.id, t.typ, t.typ, t.id, mark)
		}
	}
	// instances that can only be found BY TYPE (their names follow no rule of section 6.1)
	if offers["Eq/Weekday"] {
		fmt.Fprintf(&b, "var DayInstance%d fp.Eq[time.Weekday] = eq.New(func(a, b time.Weekday) bool { return a == b })\n\n", mark)
	}
	if offers["Show/Weekday"] {
		fmt.Fprintf(&b, "var DayText%d fp.Show[time.Weekday] = show.New(func(v time.Weekday) string { return fmt.Sprintf(\"day%d(%%d)\", int(v)) })\n\n", mark, mark)
	}
	return b.String()
}

// contest: an instance several imported packages offer; First is the package whose
// @fp.ImportGiven directive for that type class comes first (files by name, then source order).
type contest struct {
	Symbol string // EqDuration, ...
	First  string // package name, "" when the packages share one name
	Offers int
}

// synthGiven returns the files of the unit (relative to its directory) and the file that carries
// the //go:generate line.
func synthGiven(r *rand.Rand, sp extraSpec, unitPath string) (map[string]string, string, []contest) {
	files := map[string]string{}
	n := sp.N
	type ipkg struct{ dir, name, path string }
	var ips []ipkg
	for i := 0; i < n; i++ {
		l := string(rune('a' + i))
		if sp.SameName {
			d := "p" + l + "/inst"
			ips = append(ips, ipkg{d, "inst", pathJoin(unitPath, d)})
		} else {
			d := "inst" + l
			ips = append(ips, ipkg{d, d, pathJoin(unitPath, d)})
		}
	}
	keys := []string{"Eq/Duration", "Eq/Month", "Ord/Duration", "Ord/Month", "Show/Duration", "Show/Month", "Eq/Weekday", "Show/Weekday"}
	offers := make([]map[string]bool, n)
	for i := range offers {
		offers[i] = map[string]bool{}
	}
	for _, k := range keys {
		// every instance is offered by at least two packages; the first two (in a shuffled order) always
		perm := r.Perm(n)
		for j, i := range perm {
			if j < 2 || r.IntN(3) > 0 {
				offers[i][k] = true
			}
		}
	}
	for i, ip := range ips {
		files[ip.dir+"/inst.go"] = instanceSource(ip.name, i+1, offers[i])
	}
	// the demo package: 2-3 source files
	names := []string{"a_jobs.go", "m_given.go", "z_shifts.go"}
	nf := 2 + r.IntN(2)
	if nf == 2 {
		names = []string{names[r.IntN(2)], "z_shifts.go"}
	}
	fs := make([]*srcFile, nf)
	for i := range fs {
		fs[i] = &srcFile{name: names[i]}
	}
	pickFile := func() *srcFile { return fs[r.IntN(nf)] }
	// types
	typeDecls := []string{
		"type Job struct {\n\tName    string\n\tTimeout time.Duration\n\tWhen    time.Month\n\tDay     time.Weekday\n}\n\n",
		"type Shift struct {\n\tDay   time.Weekday\n\tLen   time.Duration\n\tOther fp.Option[time.Duration]\n\tAll   []time.Month\n}\n\n",
		"// @fp.Value\ntype Plan struct {\n\tlabel string\n\tevery time.Duration\n\tin    time.Month\n\tjobs  fp.Seq[Job]\n}\n\n",
	}
	for _, d := range typeDecls {
		f := pickFile()
		f.use("time")
		f.use(fpPath)
		f.body.WriteString(d)
	}
	// import directives: every (package, type class) pair, permuted, spread over the files
	type imp struct {
		ip ipkg
		tc givenTC
	}
	var imps []imp
	for _, ip := range ips {
		for _, tc := range givenTCs {
			imps = append(imps, imp{ip, tc})
		}
	}
	r.Shuffle(len(imps), func(i, j int) { imps[i], imps[j] = imps[j], imps[i] })
	aliasOf := func(f *srcFile, ip ipkg) string {
		if !sp.SameName {
			f.use(ip.path)
			return ip.name
		}
		a := "inst" + strings.TrimSuffix(strings.TrimPrefix(ip.dir, "p"), "/inst")
		f.useAs(a, ip.path)
		return a
	}
	order := map[string][]int{} // type class -> instance packages in directive order, per file
	perFile := make([]map[string][]int, nf)
	for i := range perFile {
		perFile[i] = map[string][]int{}
	}
	for k, im := range imps {
		fi := r.IntN(nf)
		if k < nf {
			fi = k // every file carries at least one import directive
		}
		f := fs[fi]
		f.use(fpPath)
		fmt.Fprintf(&f.body, "// @fp.ImportGiven\nvar _ %s.Derives[fp.%s[any]]\n\n", aliasOf(f, im.ip), im.tc.name)
		for pi, ip := range ips {
			if ip == im.ip {
				perFile[fi][im.tc.name] = append(perFile[fi][im.tc.name], pi)
			}
		}
	}
	// files are met in the order of their names (names[] is sorted)
	for fi := 0; fi < nf; fi++ {
		for tc, l := range perFile[fi] {
			order[tc] = append(order[tc], l...)
		}
	}
	var contests []contest
	for _, k := range keys {
		if strings.HasSuffix(k, "/Weekday") {
			continue // only reachable by type; the derive package's own Given comes first
		}
		tc, id, _ := strings.Cut(k, "/")
		c := contest{Symbol: tc + id}
		for _, pi := range order[tc] {
			if offers[pi][k] {
				if c.Offers == 0 && !sp.SameName {
					c.First = ips[pi].name
				}
				c.Offers++
			}
		}
		contests = append(contests, c)
	}
	// derive directives
	type drv struct {
		tc  givenTC
		typ string
	}
	var ds []drv
	for _, t := range []string{"Job", "Shift", "Plan"} {
		for _, tc := range givenTCs {
			if tc.name == "Ord" && t != "Job" {
				continue // Ord of time.Weekday / Option / Seq fields: not the subject here
			}
			ds = append(ds, drv{tc, t})
		}
	}
	r.Shuffle(len(ds), func(i, j int) { ds[i], ds[j] = ds[j], ds[i] })
	for _, d := range ds {
		f := pickFile()
		f.use(fpPath)
		f.use(fpPath + "/" + d.tc.pkg)
		fmt.Fprintf(&f.body, "// @fp.Derive\nvar _ %s.Derives[fp.%s[%s]]\n\n", d.tc.pkg, d.tc.name, d.typ)
	}
	gen := fs[r.IntN(nf)]
	for _, f := range fs {
		h := ""
		if f == gen {
			h = "//go:generate go run github.com/csgura/fp/cmd/gombok\n\n"
		}
		files[f.name] = f.render(sp.Name, h)
	}
	return files, gen.name, contests
}

// ---- tagged structs spread over several files ---------------------------------------------------

var multiFileNames = []string{"a_orders.go", "c_items.go", "k_users.go", "q_misc.go", "z_last.go"}

// struct names whose alphabetical order contradicts the order of the files they are put into
var multiStructNames = []string{"Zeta", "Tau", "Omega", "Mu", "Kappa", "Eta", "Delta", "Beta", "Alpha", "Sigma"}

var multiAnnots = [][]string{
	{"@fp.Value"},
	{"@fp.Value", "@fp.GenLabelled"},
	{"@fp.Value", "@fp.Json", "@fp.GenLabelled"},
	{"@fp.Getter", "@fp.With", "@fp.String"},
	{"@fp.Getter", "@fp.AllArgsConstructor"},
	{"@fp.Getter", "@fp.With", "@fp.String", "@fp.AllArgsConstructor", "@fp.Builder"},
	{"@fp.Value"},
}

func shapeSource(pkg string, types ...string) string {
	var b strings.Builder
	fmt.Fprintf(&b, "package %s\n\n", pkg)
	for _, t := range types {
		fmt.Fprintf(&b, "type %s struct {\n\tW int\n\tH int\n\tTag string\n}\n\n", t)
	}
	return b.String()
}

func synthMulti(r *rand.Rand, sp extraSpec, unitPath string) (map[string]string, string) {
	files := map[string]string{}
	// packages with colliding names
	files["left/shape/shape.go"] = shapeSource("shape", "Circle", "Box")
	files["right/shape/shape.go"] = shapeSource("shape", "Square", "Box")
	files["own/option/option.go"] = shapeSource("option", "Choice")
	lshape, rshape, ownopt := pathJoin(unitPath, "left/shape"), pathJoin(unitPath, "right/shape"), pathJoin(unitPath, "own/option")

	nf := sp.N
	fs := make([]*srcFile, nf)
	for i := range fs {
		fs[i] = &srcFile{name: multiFileNames[i*len(multiFileNames)/nf]}
	}
	names := append([]string{}, multiStructNames...)
	// keep the list mostly descending (contradicting the file order) but not the same in every package
	for k := 0; k < 3; k++ {
		i, j := r.IntN(len(names)), r.IntN(len(names))
		names[i], names[j] = names[j], names[i]
	}
	type sdecl struct {
		name   string
		file   int
		eqOK   bool // every field comparable by an instance the eq package has
		annots []string
	}
	var decls []sdecl
	// generic structs first (file chosen at random); they are instantiated by the others
	gfile := r.IntN(nf)
	{
		f := fs[gfile]
		f.use(fpPath)
		f.body.WriteString("// @fp.Value\n// @fp.GenLabelled\ntype Pair[A, B any] struct {\n\tleft  A `json:\"l\"`\n\tright B `json:\"r,omitempty\"`\n\tnote  string\n}\n\n")
		f2 := fs[(gfile+1+r.IntN(nf-1))%nf]
		f2.use(fpPath)
		f2.body.WriteString("// @fp.Value\ntype Cell[T any] struct {\n\tvalue T\n\tprev  fp.Option[T]\n\tcount int\n}\n\n")
	}
	perFile := 2
	type ftype struct {
		src   string
		imps  []string
		alias map[string]string
		eq    bool
	}
	basicTypes := []ftype{
		{src: "string", eq: true}, {src: "int", eq: true}, {src: "bool", eq: true}, {src: "float64", eq: true}, {src: "[]string", eq: true},
		{src: "fp.Option[int]", imps: []string{fpPath}, eq: true}, {src: "map[string]int", eq: true}, {src: "time.Duration", imps: []string{"time"}, eq: true},
		{src: "fp.Seq[string]", imps: []string{fpPath}, eq: true}, {src: "*int", eq: true},
		{src: "Pair[int, string]", eq: true}, {src: "Pair[string, int]", eq: true}, {src: "Pair[string, []int]", eq: true}, {src: "Cell[int]", eq: true}, {src: "Cell[string]", eq: true},
		{src: "Pair[Cell[int], string]", eq: true},
		{src: "shape.Circle", imps: []string{lshape}, eq: true},
		{src: "rshape.Square", imps: []string{rshape}, alias: map[string]string{rshape: "rshape"}, eq: true},
		{src: "shape.Box", imps: []string{lshape}, eq: true},
		{src: "rshape.Box", imps: []string{rshape}, alias: map[string]string{rshape: "rshape"}, eq: true},
		{src: "ownopt.Choice", imps: []string{ownopt}, alias: map[string]string{ownopt: "ownopt"}, eq: true},
		{src: "fp.Option[rshape.Box]", imps: []string{fpPath, rshape}, alias: map[string]string{rshape: "rshape"}, eq: true},
	}
	for i := 0; i < nf*perFile && i < len(names); i++ {
		fi := i / perFile
		f := fs[fi]
		name := names[i]
		annots := multiAnnots[r.IntN(len(multiAnnots))]
		nfield := 3 + r.IntN(5)
		fnames := pickNames(r, nfield)
		var b strings.Builder
		for _, a := range annots {
			fmt.Fprintf(&b, "// %s\n", a)
		}
		fmt.Fprintf(&b, "type %s struct {\n", name)
		for k, fn := range fnames {
			var t ftype
			if len(decls) > 0 && r.IntN(4) == 0 {
				// a struct declared earlier (possibly in another file)
				d := decls[r.IntN(len(decls))]
				t = ftype{src: d.name, eq: d.eqOK}
				if r.IntN(2) == 0 {
					t.src = "fp.Option[" + d.name + "]"
					t.imps = []string{fpPath}
				}
			} else {
				t = basicTypes[r.IntN(len(basicTypes))]
			}
			for _, p := range t.imps {
				if a, ok := t.alias[p]; ok {
					f.useAs(a, p)
				} else {
					f.use(p)
				}
			}
			if k == 1 {
				fn = "Pub" + strings.ToUpper(fn[:1]) + fn[1:]
			}
			fmt.Fprintf(&b, "\t%s %s%s\n", fn, t.src, tagFor(r, fn))
		}
		b.WriteString("}\n\n")
		f.body.WriteString(b.String())
		decls = append(decls, sdecl{name: name, file: fi, eqOK: true, annots: annots})
	}
	// derive directives: per file several, also for types of other files
	type drv struct{ pkg, tc, typ, opt string }
	var ds []drv
	for _, d := range decls {
		// every struct gets all three, so that a struct used as a field type always has its instance
		ds = append(ds, drv{"eq", "Eq", d.name, ""}, drv{"show", "Show", d.name, ""}, drv{"clone", "Clone", d.name, ""})
	}
	ds = append(ds, drv{"eq", "Eq", "Pair[any, any]", ""}, drv{"show", "Show", "Pair[any, any]", ""}, drv{"eq", "Eq", "Cell[any]", ""}, drv{"show", "Show", "Cell[any]", ""},
		drv{"clone", "Clone", "Pair[any, any]", ""}, drv{"clone", "Clone", "Cell[any]", ""})
	// on-demand derivations: two recursive=true directives that both need instances nobody declared
	f0 := fs[r.IntN(nf)]
	f0.use(lshape)
	f0.useAs("rshape", rshape)
	// (left/shape.Box and right/shape.Box never meet in one on-demand derivation: gombok names both
	// instances ShowShapeBox and the output would not compile - not the subject of this check)
	f0.body.WriteString("type Scene struct {\n\tTitle string\n\tFront shape.Circle\n\tBack  rshape.Square\n\tCrate shape.Box\n}\n\ntype Album struct {\n\tScenes []Scene\n\tCover  rshape.Square\n\tFirst  shape.Box\n}\n\n")
	ds = append(ds, drv{"show", "Show", "Scene", "(recursive=true)"}, drv{"show", "Show", "Album", "(recursive=true)"}, drv{"hash", "Hashable", "Scene", "(recursive=true)"})
	r.Shuffle(len(ds), func(i, j int) { ds[i], ds[j] = ds[j], ds[i] })
	for _, d := range ds {
		f := fs[r.IntN(nf)]
		f.use(fpPath)
		f.use(fpPath + "/" + d.pkg)
		fmt.Fprintf(&f.body, "// @fp.Derive%s\nvar _ %s.Derives[fp.%s[%s]]\n\n", d.opt, d.pkg, d.tc, d.typ)
	}
	// @fp.Generate templates: three directives in different files, two of them write into one file
	outs := []string{sp.Name + "_tpl_a.go", sp.Name + "_tpl_a.go", sp.Name + "_tpl_b.go"}
	for k, out := range outs {
		f := fs[(gfile+k)%nf]
		f.use(fpPath + "/genfp")
		fmt.Fprintf(&f.body, "// @fp.Generate\nvar _ = genfp.GenerateFromUntil{\n\tFile: %q,\n\tImports: []genfp.ImportPackage{\n\t\t{Package: %q, Name: \"fp\"},\n\t},\n\tFrom:  2,\n\tUntil: %d,\n\tTemplate: `\nfunc Pick%d_{{.N}}[{{TypeArgs 1 .N}} any](t fp.{{TupleType .N}}) A1 {\n\treturn t.I1\n}\n`,\n}\n\n", out, fpPath, 4+k, k)
	}
	gen := fs[r.IntN(nf)]
	for _, f := range fs {
		h := "//lint:file-ignore U1000 generator input\n\n"
		if f == gen {
			h += "//go:generate go run github.com/csgura/fp/cmd/gombok\n\n"
		}
		files[f.name] = f.render(sp.Name, h)
	}
	return files, gen.name
}
