package main

import (
	"fmt"
	"os"
	"os/exec"
	"path/filepath"
	"runtime"
	"sort"
	"strings"
	"time"

	"verif/vrt"
)

var epoch = time.Unix(0, 0)

var procsList = []int{1, 2, 4, 16}

// runRec is one execution of one generator binary.
type runRec struct {
	D       Directive
	Procs   int
	Exit    int
	Output  string
	Written []string          // files whose mtime left the epoch, or that are new
	Removed []string          // files that disappeared
	Sums    map[string]string // sha256 of the written files
	Sizes   map[string]int64
}

type passRes struct {
	Runs       []runRec
	After      snapshot
	LastWriter map[string]int    // path -> index into Runs of the last run that wrote / removed it
	Content    map[string][]byte // content of the written files (only when kept)
}

func (p *passRes) generatorOf(path, fallback string) string {
	if p != nil {
		if i, ok := p.LastWriter[path]; ok {
			return p.Runs[i].D.Generator
		}
	}
	return fallback
}

func (p *passRes) writtenSet() map[string]bool {
	m := map[string]bool{}
	for _, r := range p.Runs {
		for _, f := range r.Written {
			m[f] = true
		}
	}
	return m
}

type worker struct {
	w    *vrt.W
	sh   *shared
	dir  string // private scratch directory of this worker
	tree string // private copy of the snapshot
	base snapshot
	off  int // start of the GOMAXPROCS rotation

	p0        *passRes
	post0     bool // tree currently holds exactly the result of p0
	fixHeld   bool
	fallback  map[string]string // path -> generator, result of a full serial pass (lazy)
	fbDone    bool
}

func newWorker(w *vrt.W, sh *shared) *worker {
	k := &worker{w: w, sh: sh}
	os.MkdirAll(filepath.Join(sh.Dir, "w"), 0o755)
	d, err := os.MkdirTemp(filepath.Join(sh.Dir, "w"), fmt.Sprintf("b%d-", w.Batch))
	if err != nil {
		panic(err)
	}
	k.dir = d
	k.tree = filepath.Join(d, "tree")
	if err := copyTree(sh.Base, k.tree); err != nil {
		panic(err)
	}
	b, err := sh.baseSnap()
	if err != nil {
		panic(err)
	}
	k.base = b
	k.off = w.Rand(0).IntN(len(procsList))
	return k
}

func (k *worker) cleanup() {
	if k.dir != "" && os.Getenv(envKeep) == "" {
		os.RemoveAll(k.dir)
		k.dir = ""
	}
}

func (k *worker) procs(i int) int { return procsList[(k.off+i)%len(procsList)] }

// setEpoch gives every regular file below root the epoch mtime.
func setEpoch(root string) {
	filepath.Walk(root, func(p string, fi os.FileInfo, err error) error {
		if err == nil && fi.Mode().IsRegular() {
			os.Chtimes(p, epoch, epoch)
		}
		return nil
	})
}

func mtimes(root string) map[string]time.Time {
	m := map[string]time.Time{}
	filepath.Walk(root, func(p string, fi os.FileInfo, err error) error {
		if err == nil && fi.Mode().IsRegular() {
			rel, _ := filepath.Rel(root, p)
			m[filepath.ToSlash(rel)] = fi.ModTime()
		}
		return nil
	})
	return m
}

// restore makes root byte-identical to the snapshot `want` whose files live below src.
func restore(root string, want snapshot, src string) error {
	cur, err := snap(root)
	if err != nil {
		return err
	}
	for _, d := range diffSnap(cur, want) {
		t := filepath.Join(root, filepath.FromSlash(d.Path))
		switch d.Kind {
		case "new":
			os.Remove(t)
		default:
			if want[d.Path].Link {
				os.Remove(t)
				l, _ := os.Readlink(filepath.Join(src, filepath.FromSlash(d.Path)))
				os.Symlink(l, t)
				continue
			}
			if err := copyFile(filepath.Join(src, filepath.FromSlash(d.Path)), t, 0o644); err != nil {
				return err
			}
		}
	}
	return nil
}

// exec1 runs one directive in root (a copy of the repository, or the module holding an
// extra package) and records which files it wrote.
func (k *worker) exec1(root string, d Directive, procs int, before snapshot) (runRec, snapshot) {
	w := k.w
	rec := runRec{D: d, Procs: procs, Sums: map[string]string{}, Sizes: map[string]int64{}}
	dir := filepath.Join(root, filepath.FromSlash(d.Dir))
	setEpoch(root)
	w.Site(d.Generator + "/" + d.Dir)
	cmd := exec.Command(filepath.Join(k.sh.Bin, d.Generator), d.Args...)
	cmd.Dir = dir
	cmd.Env = goEnv(
		"PWD="+dir,
		fmt.Sprintf("GOMAXPROCS=%d", procs),
		"GOPACKAGE="+d.Package,
		"GOFILE="+d.File,
		fmt.Sprintf("GOLINE=%d", d.Line),
		"GOARCH="+runtime.GOARCH,
		"GOOS="+runtime.GOOS,
		"DOLLAR=$",
	)
	out, err := cmd.CombinedOutput()
	if err != nil {
		rec.Exit = -1
		if ee, ok := err.(*exec.ExitError); ok {
			rec.Exit = ee.ExitCode()
		}
	}
	rec.Output = string(out)
	if len(rec.Output) > 1500 {
		rec.Output = rec.Output[:700] + "\n…\n" + rec.Output[len(rec.Output)-700:]
	}
	w.Add("generator_runs", 1)
	w.Hit(d.Generator)
	w.Add(fmt.Sprintf("runs_gomaxprocs_%d", procs), 1)
	if rec.Exit != 0 {
		w.Add("generator_nonzero_exit", 1)
		w.Note(fmt.Sprintf("%s in %s exited with %d: %s", d.Generator, d.Dir, rec.Exit, strings.TrimSpace(tailStr(rec.Output, 300))))
	}
	after, serr := snap(root)
	if serr != nil {
		panic(serr)
	}
	mt := mtimes(root)
	for p, st := range after {
		_, had := before[p]
		if !had || (!st.Link && !mt[p].Equal(epoch)) {
			rec.Written = append(rec.Written, p)
			rec.Sums[p] = st.Sum
			rec.Sizes[p] = st.Size
		} else if before[p].Sum != st.Sum {
			// content changed although the mtime is still the epoch: count it as written
			rec.Written = append(rec.Written, p)
			rec.Sums[p] = st.Sum
			rec.Sizes[p] = st.Size
		}
	}
	for p := range before {
		if _, ok := after[p]; !ok {
			rec.Removed = append(rec.Removed, p)
		}
	}
	sort.Strings(rec.Written)
	sort.Strings(rec.Removed)
	w.Add("files_written", int64(len(rec.Written)))
	return rec, after
}

func tailStr(s string, n int) string {
	if len(s) <= n {
		return s
	}
	return "…" + s[len(s)-n:]
}

// pass runs the directives serially in root.
func (k *worker) pass(root string, ds []Directive, procs func(n int) int, keep bool) *passRes {
	cur, err := snap(root)
	if err != nil {
		panic(err)
	}
	p := &passRes{LastWriter: map[string]int{}}
	if keep {
		p.Content = map[string][]byte{}
	}
	for n, d := range ds {
		rec, after := k.exec1(root, d, procs(n), cur)
		p.Runs = append(p.Runs, rec)
		for _, f := range rec.Written {
			p.LastWriter[f] = n
			if keep {
				if b, err := os.ReadFile(filepath.Join(root, filepath.FromSlash(f))); err == nil {
					p.Content[f] = b
				}
			}
		}
		for _, f := range rec.Removed {
			p.LastWriter[f] = n
		}
		if len(rec.Written) > 0 {
			k.w.Distinct(fmt.Sprintf("directive %s/%s:%d", d.Dir, d.File, d.Line))
			k.w.Add("directives_with_output", 1)
		}
		cur = after
	}
	p.After = cur
	k.w.Add("passes", 1)
	return p
}

// compare counts a whole-tree comparison and returns the differences got vs want.
func (k *worker) compare(got, want snapshot) []delta {
	k.w.Add("files_compared", int64(len(want)))
	k.w.Add("bytes_compared", want.bytes())
	k.w.Add("tree_comparisons", 1)
	return diffSnap(got, want)
}

func (k *worker) directives(g Group) []Directive {
	var ds []Directive
	for _, id := range g.Directives {
		ds = append(ds, k.sh.Plan.Directives[id])
	}
	return ds
}

func (k *worker) readBase(rel string) []byte {
	b, _ := os.ReadFile(filepath.Join(k.sh.Base, filepath.FromSlash(rel)))
	return b
}

func sampleOf(p *passRes, kind string) any {
	var runs []any
	for _, r := range p.Runs {
		files := []any{}
		for _, f := range r.Written {
			files = append(files, map[string]any{"path": f, "sha256": r.Sums[f], "bytes": r.Sizes[f]})
		}
		runs = append(runs, map[string]any{
			"dir": r.D.Dir, "generator": r.D.Generator, "directive": fmt.Sprintf("%s:%d", r.D.File, r.D.Line),
			"package": r.D.Package, "gomaxprocs": r.Procs, "exit": r.Exit, "files_written": files, "files_removed": r.Removed,
		})
	}
	return map[string]any{"check": kind, "runs": runs}
}

// ---- unit (a): one directory of the repository -------------------------------------------

func (k *worker) needP0(ds []Directive) {
	if k.p0 != nil {
		return
	}
	if err := restore(k.tree, k.base, k.sh.Base); err != nil {
		panic(err)
	}
	k.p0 = k.pass(k.tree, ds, func(int) int { return k.procs(0) }, true)
	k.post0 = true
	k.fixHeld = len(diffSnap(k.p0.After, k.base)) == 0
}

func (k *worker) runGroup(g Group) {
	w := k.w
	ds := k.directives(g)
	site := ds[0].Generator + "/" + g.Dir
	for i := w.From; i < w.To; i++ {
		i := i
		w.Begin(i, site)
		var cur *passRes
		kind := "determinism"
		witness := func() any {
			m := map[string]any{"dir": g.Dir, "pass": i, "gomaxprocs": k.procs(i)}
			var dl []string
			for _, d := range ds {
				dl = append(dl, d.String())
			}
			m["directives"] = dl
			if cur != nil {
				m["record"] = sampleOf(cur, kind)
			}
			return m
		}
		w.Guard(i, witness, func() {
			switch {
			case i == 0:
				kind = "fixpoint+orphans"
				if g.OrderSensitive() {
					w.Add("order_sensitive.repository_directories", 1)
				}
				k.p0 = nil
				k.needP0(ds)
				cur = k.p0
				k.judgeFixpoint(i, g.Dir, ds, k.p0, witness)
				k.judgeOrphans(i, func(f GenFile) bool { return filepath.ToSlash(filepath.Dir(f.Path)) == g.Dir }, k.p0.writtenSet(), witness)
				w.Add("fixpoint_passes", 1)
				if w.WantSample() && len(k.p0.writtenSet()) > 0 {
					w.Sample(sampleOf(k.p0, kind))
				}
			case i == 1:
				kind = "idempotence"
				k.needP0(ds)
				if !k.post0 {
					k.p0 = nil
					k.needP0(ds)
				}
				cur = k.pass(k.tree, ds, func(int) int { return k.procs(i) }, true)
				k.post0 = false
				k.judgeRepeat(i, g.Dir, ds, cur, k.fixHeld, witness)
				w.Add("idempotence_passes", 1)
				w.Add("repeated_runs", int64(len(ds)))
				if g.OrderSensitive() {
					w.Add("order_sensitive.repeated_runs", 1)
				}
			case g.Gombok && i == repeats(w.Tier, g.OrderSensitive()):
				// FROM SCRATCH: every file the directives of this directory (re)write is deleted first, then ONE run
				// must reproduce the committed files (a first generation reaches the fixpoint)
				kind = "from-scratch"
				k.needP0(ds)
				if err := restore(k.tree, k.base, k.sh.Base); err != nil {
					panic(err)
				}
				k.post0 = false
				deleted := 0
				for f := range k.p0.writtenSet() {
					if os.Remove(filepath.Join(k.tree, filepath.FromSlash(f))) == nil {
						deleted++
					}
				}
				w.Add("from_scratch.generated_files_deleted", int64(deleted))
				cur = k.pass(k.tree, ds, func(int) int { return k.procs(i) }, true)
				k.judgeFromScratch(i, g.Dir, ds, cur, witness)
				w.Add("from_scratch.passes", 1)
			default:
				k.needP0(ds)
				if err := restore(k.tree, k.base, k.sh.Base); err != nil {
					panic(err)
				}
				k.post0 = false
				cur = k.pass(k.tree, ds, func(int) int { return k.procs(i) }, true)
				k.judgeRepeat(i, g.Dir, ds, cur, true, witness)
				w.Add("determinism_passes", 1)
				w.Add("repeated_runs", int64(len(ds)))
				if g.OrderSensitive() {
					w.Add("order_sensitive.repeated_runs", 1)
				}
			}
		})
		w.Done(i)
	}
}

// judgeFixpoint: the regenerated tree must equal the snapshot.
func (k *worker) judgeFixpoint(i int, dir string, ds []Directive, p *passRes, witness func() any) {
	// bookkeeping: the header of a rewritten file names the generator that wrote it (a
	// mismatch cannot survive the byte comparison below, so it is only counted)
	for _, r := range p.Runs {
		for _, f := range r.Written {
			if ok, name := generatedHeader(p.Content[f], strings.HasSuffix(f, ".go")); ok {
				if name == r.D.Generator {
					k.w.Add("header_names_writer", 1)
				} else {
					k.w.Add("header_names_other_generator", 1)
					k.w.Note(fmt.Sprintf("%s was written by %s but its header names %q", f, r.D.Generator, name))
				}
			} else {
				k.w.Add("written_without_generated_header", 1)
			}
		}
	}
	for _, d := range k.compare(p.After, k.base) {
		gen := p.generatorOf(d.Path, ds[0].Generator)
		if d.Path == "go.mod" || d.Path == "go.sum" {
			// rewritten by the go tool under the GOFLAGS=-mod=mod this environment forces on
			// `go list`, not generator output: reported, not judged
			k.w.Add("module_files_touched_by_go_tool", 1)
			k.w.Note(fmt.Sprintf("%s %s after running the directives of %s (go tool under -mod=mod; not generator output)", d.Path, d.Kind, dir))
			continue
		}
		detail := ""
		switch d.Kind {
		case "differs":
			detail = fmt.Sprintf("%s regenerates %s with different bytes than the committed file (sha256 %s, committed %s)\n%s",
				gen, d.Path, p.After[d.Path].Sum, k.base[d.Path].Sum, firstDiff(k.readBase(d.Path), p.Content[d.Path], "committed", "regenerated"))
		case "new":
			detail = fmt.Sprintf("%s writes %s (%d bytes), which is not in the working tree", gen, d.Path, p.After[d.Path].Size)
		case "missing":
			detail = fmt.Sprintf("%s removes %s and does not write it again", gen, d.Path)
		}
		detail += "\ndirectives run in " + dir + ":"
		for _, r := range p.Runs {
			detail += fmt.Sprintf("\n  %s (GOMAXPROCS=%d, exit %d) wrote %v removed %v", r.D.String(), r.Procs, r.Exit, r.Written, r.Removed)
			if r.Exit != 0 || len(r.Written) == 0 {
				detail += "\n" + indent(tailStr(r.Output, 600), "    | ")
			}
		}
		k.w.Violation(i, gen+"/"+d.Path+"/not-fixpoint", detail, witness())
	}
}

// judgeRepeat: a further pass must reproduce pass 0 byte for byte. sameInput tells whether
// this pass saw the same input as pass 0 (then a difference is nondeterminism), otherwise it
// ran on top of a regenerated tree that differs from the committed one (idempotence).
func (k *worker) judgeRepeat(i int, dir string, ds []Directive, p *passRes, sameInput bool, witness func() any) {
	for _, d := range k.compare(p.After, k.p0.After) {
		gen := p.generatorOf(d.Path, k.p0.generatorOf(d.Path, ds[0].Generator))
		what := fmt.Sprintf("%s (%s)", d.Path, d.Kind)
		if d.Kind == "differs" {
			what += "\n" + firstDiff(k.p0.Content[d.Path], p.Content[d.Path], "pass0", fmt.Sprintf("pass%d", i))
		}
		if sameInput {
			k.w.Violation(i, gen+"/"+dir+"/nondeterministic",
				fmt.Sprintf("two runs of %s over identical input in %s (GOMAXPROCS %d vs %d) produced different output: %s", gen, dir, k.procs(0), k.procs(i), what), witness())
		} else {
			k.w.Violation(i, gen+"/"+d.Path+"/not-idempotent",
				fmt.Sprintf("running %s in %s again on top of its own output changes it: %s", gen, dir, what), witness())
		}
	}
}

// fromScratchExceptions: gombok directories of the repository for which ONE run from scratch (all
// generated files deleted) does not reproduce the committed files on the unchanged tree, established
// by running this check on it (see Assumptions): hand-written code of the package uses members that
// only exist in the generated files, so the first load of the package is incomplete. They are run and
// recorded (from_scratch.exception_differs / _holds), not judged.
var fromScratchExceptions = map[string]string{}

// judgeFromScratch: one run over the directory without its generated files must reproduce the snapshot.
func (k *worker) judgeFromScratch(i int, dir string, ds []Directive, p *passRes, witness func() any) {
	diffs := k.compare(p.After, k.base)
	if why, ok := fromScratchExceptions[dir]; ok {
		if len(diffs) > 0 {
			k.w.Add("from_scratch.exception_differs", 1)
			k.w.Note(fmt.Sprintf("from scratch: %s is a listed exception (%s): one run leaves %d paths different, e.g. %s", dir, why, len(diffs), diffs[0].Path))
		} else {
			k.w.Add("from_scratch.exception_holds", 1)
		}
		return
	}
	if len(diffs) == 0 {
		k.w.Add("from_scratch.directories_reproduced_by_one_run", 1)
	}
	for _, d := range diffs {
		if d.Path == "go.mod" || d.Path == "go.sum" {
			continue
		}
		gen := p.generatorOf(d.Path, ds[0].Generator)
		what := ""
		switch d.Kind {
		case "differs":
			what = fmt.Sprintf("writes %s with different bytes than the committed file\n%s", d.Path, firstDiff(k.readBase(d.Path), p.Content[d.Path], "committed", "first generation"))
		case "new":
			what = fmt.Sprintf("writes %s, which is not in the working tree", d.Path)
		case "missing":
			what = fmt.Sprintf("does not write %s (a second run does)", d.Path)
		}
		detail := fmt.Sprintf("after deleting the generated files of %s, ONE run of its directives %s", dir, what)
		for _, r := range p.Runs {
			detail += fmt.Sprintf("\n  %s (GOMAXPROCS=%d, exit %d) wrote %v", r.D.String(), r.Procs, r.Exit, r.Written)
			if r.Exit != 0 || len(r.Written) == 0 {
				detail += "\n" + indent(tailStr(r.Output, 600), "    | ")
			}
		}
		k.w.Violation(i, gen+"/"+dir+"/first-generation-not-fixpoint", detail, witness())
	}
}

// fullPass runs every directive of the repository serially in go-generate order in a fresh
// copy and returns the pass.
func (k *worker) fullPass(name string, procs func(n int) int) (*passRes, string) {
	t := filepath.Join(k.dir, name)
	os.RemoveAll(t)
	if err := copyTree(k.sh.Base, t); err != nil {
		panic(err)
	}
	return k.pass(t, k.sh.Plan.Directives, procs, true), t
}

// judgeOrphans: every generated-header file selected by sel must have been written.
func (k *worker) judgeOrphans(i int, sel func(GenFile) bool, written map[string]bool, witness func() any) {
	for _, f := range k.sh.Plan.GenFiles {
		if !sel(f) {
			continue
		}
		k.w.Add("orphan_checks", 1)
		if written[f.Path] {
			k.w.Add("generated_files_rewritten", 1)
			continue
		}
		// not rewritten by the directives considered so far: look for any directive that writes it
		if !k.fbDone {
			k.fbDone = true
			k.fallback = map[string]string{}
			p, t := k.fullPass("fallback", func(n int) int { return k.procs(n) })
			for f2, n := range p.LastWriter {
				if _, exists := p.After[f2]; exists {
					k.fallback[f2] = p.Runs[n].D.Generator
				}
			}
			os.RemoveAll(t)
			k.w.Add("fallback_full_passes", 1)
		}
		if g, ok := k.fallback[f.Path]; ok {
			k.w.Add("generated_files_rewritten_by_other_directory", 1)
			k.w.Note(fmt.Sprintf("%s is written by a %s directive outside its directory", f.Path, g))
			continue
		}
		k.w.Violation(i, "orphan/"+f.Path,
			fmt.Sprintf("%s carries a generated-code header (generator named in it: %q) but no //go:generate directive of the repository (re)writes it", f.Path, f.Generator), witness())
	}
}

// ---- unit (b): global ---------------------------------------------------------------------

func (k *worker) runGlobal() {
	w := k.w
	plan := k.sh.Plan
	hasDir := map[string]bool{}
	for _, g := range plan.Groups {
		hasDir[g.Dir] = true
	}
	for i := w.From; i < w.To; i++ {
		i := i
		switch i {
		case 0:
			w.Begin(i, "global/orphans")
			witness := func() any { return map[string]any{"check": "orphans in directories without directive; skipped directives"} }
			w.Guard(i, witness, func() {
				for _, d := range plan.Skipped {
					w.Add("directives_skipped", 1)
					w.Note("skipped (not one of the three generators): " + d.String())
				}
				w.Add("directives_total", int64(len(plan.Directives)+len(plan.Skipped)))
				n := 0
				k.judgeOrphans(i, func(f GenFile) bool {
					if hasDir[filepath.ToSlash(filepath.Dir(f.Path))] {
						return false
					}
					n++
					return true
				}, map[string]bool{}, witness)
				w.Add("generated_files_outside_directive_dirs", int64(n))
				// is the working tree still what was snapshotted?
				if cur, err := snapOpt(plan.Repo, true); err == nil {
					if d := diffSnap(cur, k.base); len(d) > 0 {
						w.Add("working_tree_changed_since_snapshot", int64(len(d)))
						w.Note(fmt.Sprintf("working tree %s changed after the snapshot was taken (%d paths, e.g. %s); verdicts refer to the snapshot", plan.Repo, len(d), d[0].Path))
					}
				}
			})
			w.Done(i)
		case 1:
			// literal serial double pass over one tree
			w.Begin(i, "global/serial-pass")
			var a, b *passRes
			witness := func() any {
				m := map[string]any{"check": "serial go-generate-ordered double pass over one scratch tree"}
				return m
			}
			w.Guard(i, witness, func() {
				var t string
				a, t = k.fullPass("serial", func(n int) int { return k.procs(n) })
				w.Add("serial_full_passes", 1)
				ds := plan.Directives
				k.judgeFixpoint(i, "(serial pass)", ds, a, witness)
				k.judgeOrphans(i, func(GenFile) bool { return true }, a.writtenSet(), witness)
				held := len(diffSnap(a.After, k.base)) == 0
				b = k.pass(t, ds, func(n int) int { return k.procs(n + 1) }, true)
				w.Add("serial_full_passes", 1)
				w.Add("repeated_runs", int64(len(ds)))
				for _, d := range k.compare(b.After, a.After) {
					gen := b.generatorOf(d.Path, a.generatorOf(d.Path, "unknown"))
					what := fmt.Sprintf("%s (%s)", d.Path, d.Kind)
					if d.Kind == "differs" {
						what += "\n" + firstDiff(a.Content[d.Path], b.Content[d.Path], "pass A", "pass B")
					}
					dir := filepath.ToSlash(filepath.Dir(d.Path))
					if held {
						w.Violation(i, gen+"/"+dir+"/nondeterministic", "second serial pass over an unchanged tree produced different output: "+what, witness())
					} else {
						w.Violation(i, gen+"/"+d.Path+"/not-idempotent", "second serial pass over the regenerated tree changes it: "+what, witness())
					}
				}
				os.RemoveAll(t)
			})
			w.Done(i)
		}
	}
}
