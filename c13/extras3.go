package main

import (
	"fmt"
	"math/rand/v2"
	"strings"
)

// PHASE and AMBIG extra units (added after seeded changes C13-s2-1 / C13-s2-2).
//
// phase: gombok works in phases - value file, @fp.Generate files, derive file - and a later phase
//   has to see what an earlier phase of the SAME run wrote. The repository has no package in which
//   one directive consumes the output of another kind of directive, so these units do:
//     c13phase1  an @fp.Generate template (GenerateFromUntil) declares the structs Vec2..VecN in a
//                generated file; @fp.Derive directives (plain and recursive=true, Eq / Show / Clone /
//                Hashable) of the same package derive instances for them and for hand-written structs
//                that hold them directly and inside Option / slice / Seq / Tuple2
//     c13phase2  the value phase feeds the derive phase and the generate phase: @fp.Value structs
//                with only private fields derived on demand under recursive=true (derivable only
//                through the Unapply / Builder the value phase wrote), a hand-written instance whose
//                initialiser calls a DERIVED instance function and is itself used by another derive
//                directive, an @fp.Generate adaptor over an interface that mentions the value types
//     c13phase3  an @fp.Value struct whose field types are declared by the template (the value phase
//                runs BEFORE the generate phase; known finding, see known_findings.txt)
//   Every unit starts from the clean input (no generated file at all: pass 0 = first generation
//   from scratch), odd passes run on top of pass 0's files and must change nothing ("one run
//   reaches the fixpoint"), even passes start from scratch again and must reproduce pass 0.
//
// ambig: inputs that offer gombok a choice it has to make the same way in every process:
//     c13ambig1  Monoid derive over bool fields: the library declares two static instances of
//                fp.Monoid[bool] (monoid.All, monoid.Any) and neither is found by name - direct,
//                inside Option / Tuple2, in nested @fp.Value structs and in plain structs derived on
//                demand
//     c13ambig2  a complete derive package of the unit's own (dp) with two or three static instances
//                of fp.Eq[time.Duration], fp.Eq[time.Weekday], fp.Eq[time.Month] under names no lookup
//                rule produces: resolved by type only
//     c13ambig3  a package imported with @fp.ImportGiven that offers, for one type, an instance found
//                by name next to two found by type only (Month), and three found by type only (Span)
//   Which instance wins is recorded (ambig.choice.*), never judged; R >= 12 process starts in the
//   quick tier must agree byte for byte.

func shuffled(r *rand.Rand, xs []string) []string {
	out := append([]string(nil), xs...)
	r.Shuffle(len(out), func(i, j int) { out[i], out[j] = out[j], out[i] })
	return out
}

const genLine = "//go:generate go run github.com/csgura/fp/cmd/gombok\n\n"

func synthPhase(r *rand.Rand, sp extraSpec, unitPath string) (map[string]string, string) {
	name := sp.Name
	file := name + ".go"
	var decls []string
	var imports string
	switch sp.N {
	case 1:
		until := 5 + r.IntN(3)
		extra := []string{"Label string", "Tags  []string", "Score float64", "Flag  bool"}[:2+r.IntN(3)]
		imports = "\"github.com/csgura/fp\"\n\t\"github.com/csgura/fp/clone\"\n\t\"github.com/csgura/fp/eq\"\n\t\"github.com/csgura/fp/genfp\"\n\t\"github.com/csgura/fp/show\"\n"
		decls = append(decls, fmt.Sprintf("// @fp.Generate\nvar _ = genfp.GenerateFromUntil{\n\tFile:  %q,\n\tFrom:  2,\n\tUntil: %d,\n\tTemplate: `\n// Vec{{.N}} is declared by the template.\ntype Vec{{.N}} struct {\n{{- range $idx := Range 1 .N}}\n\tX{{$idx}} int\n{{- end}}\n\t%s\n}\n`,\n}\n",
			name+"_vec.go", until, strings.Join(extra, "\n\t")))
		hashable := !strings.Contains(strings.Join(extra, " "), "[]string")
		ds := []string{"eq.Derives[fp.Eq[Vec2]]", "show.Derives[fp.Show[Vec3]]", "clone.Derives[fp.Clone[Vec2]]", "eq.Derives[fp.Eq[Vec4]]", "show.Derives[fp.Show[Vec2]]"}
		if hashable {
			ds = append(ds, "hash.Derives[fp.Hashable[Vec3]]")
			imports = strings.Replace(imports, "\t\"github.com/csgura/fp/show\"", "\t\"github.com/csgura/fp/hash\"\n\t\"github.com/csgura/fp/show\"", 1)
		} else {
			ds = append(ds, "clone.Derives[fp.Clone[Vec4]]")
		}
		for _, d := range ds {
			decls = append(decls, "// @fp.Derive\nvar _ "+d+"\n")
		}
		decls = append(decls, "type Shape struct {\n\tName string\n\tA    Vec2\n\tB    fp.Option[Vec3]\n\tC    []Vec4\n\tD    fp.Tuple2[Vec2, int]\n\tE    fp.Seq[Vec3]\n}\n")
		for _, d := range []string{"eq.Derives[fp.Eq[Shape]]", "clone.Derives[fp.Clone[Shape]]", "show.Derives[fp.Show[Shape]]"} {
			decls = append(decls, "// @fp.Derive(recursive=true)\nvar _ "+d+"\n")
		}
	case 2:
		imports = "\"github.com/csgura/fp\"\n\t\"github.com/csgura/fp/eq\"\n\t\"github.com/csgura/fp/genfp\"\n\t\"github.com/csgura/fp/hash\"\n\t\"github.com/csgura/fp/show\"\n"
		decls = []string{
			"// @fp.Value\ntype Inner struct {\n\tid   int\n\tname string\n\ttags []string\n}\n",
			"// @fp.Derive\nvar _ eq.Derives[fp.Eq[Inner]]\n",
			"// Wrapped has a hand-written instance whose initialiser calls the DERIVED EqInner.\ntype Wrapped struct {\n\tin Inner\n\tn  int\n}\n",
			"var EqWrapped fp.Eq[Wrapped] = eq.ContraMap(EqInner(), func(w Wrapped) Inner { return w.in })\n",
			"type Outer struct {\n\tW  Wrapped\n\tWs []Wrapped\n\tI  Inner\n}\n",
			"// @fp.Derive\nvar _ eq.Derives[fp.Eq[Outer]]\n",
			"// Tree: recursive=true; the nested @fp.Value struct with only private fields is derivable on demand\n// through the Unapply / Builder the value phase gives it.\ntype Tree struct {\n\tRoot  Leaf\n\tKids  []Leaf\n\tLabel string\n}\n",
			"// @fp.Value\ntype Leaf struct {\n\tkey  string\n\tsize int\n}\n",
			"// @fp.Derive(recursive=true)\nvar _ eq.Derives[fp.Eq[Tree]]\n",
			"// @fp.Derive(recursive=true)\nvar _ hash.Derives[fp.Hashable[Tree]]\n",
			"// @fp.Derive(recursive=true)\nvar _ show.Derives[fp.Show[Tree]]\n",
			"type Store interface {\n\tPut(l Leaf) Inner\n\tGet(key string) fp.Option[Leaf]\n}\n",
			fmt.Sprintf("// @fp.Generate\nvar _ = genfp.GenerateAdaptor[Store]{\n\tFile: %q,\n\tSelf: true,\n}\n", name+"_adaptor.go"),
		}
	default:
		imports = "\"github.com/csgura/fp\"\n\t\"github.com/csgura/fp/eq\"\n\t\"github.com/csgura/fp/genfp\"\n"
		decls = []string{
			fmt.Sprintf("// @fp.Generate\nvar _ = genfp.GenerateFromUntil{\n\tFile:  %q,\n\tFrom:  2,\n\tUntil: 4,\n\tTemplate: `\ntype Vec{{.N}} struct {\n{{- range $idx := Range 1 .N}}\n\tX{{$idx}} int\n{{- end}}\n\tLabel string\n}\n`,\n}\n", name+"_vec.go"),
			"// Holder is an @fp.Value struct whose field types come from the template.\n// @fp.Value\ntype Holder struct {\n\tv Vec2\n\tn int\n\to fp.Option[Vec3]\n}\n",
			"// @fp.Derive\nvar _ eq.Derives[fp.Eq[Holder]]\n",
		}
	}
	var b strings.Builder
	fmt.Fprintf(&b, "package %s\n\nimport (\n\t%s)\n\n%s", name, imports, genLine)
	for _, d := range shuffled(r, decls) {
		b.WriteString(d + "\n")
	}
	return map[string]string{file: b.String()}, file
}

// ambigChoices: the instance names whose choice the unit leaves to the generator (evidence only).
var ambigChoices = map[int][]string{
	1: {"monoid.All", "monoid.Any"},
	2: {"dp.DurationExact", "dp.DurationSeconds", "dp.WeekdayA", "dp.WeekdayB", "dp.WeekdayC", "dp.MonthLoose", "dp.MonthExact"},
	3: {"inst.MonoidMonth", "inst.MonthFirst", "inst.MonthLast", "inst.SpanUnion", "inst.SpanIntersect", "inst.SpanLeft", "monoid.All", "monoid.Any"},
}

func synthAmbig(r *rand.Rand, sp extraSpec, unitPath string) (map[string]string, string) {
	name := sp.Name
	file := name + ".go"
	files := map[string]string{}
	var decls []string
	var imports string
	switch sp.N {
	case 1:
		imports = "\"github.com/csgura/fp\"\n\t\"github.com/csgura/fp/monoid\"\n"
		bools := shuffled(r, []string{"read", "write", "exec", "hidden", "dirty"})[:2+r.IntN(3)]
		var fl strings.Builder
		fl.WriteString("// @fp.Value\ntype Flags struct {\n")
		for _, n := range bools {
			fmt.Fprintf(&fl, "\t%s bool\n", n)
		}
		fl.WriteString("}\n")
		mixed := shuffled(r, []string{"on    bool", "n     int", "s     string", "flags Flags", "opt   fp.Option[bool]", "pair  fp.Tuple2[bool, int]", "both  fp.Tuple2[bool, bool]"})
		decls = []string{
			"var MonoidInt = monoid.Sum[int]()\n",
			fl.String(),
			"// @fp.Derive\nvar _ monoid.Derives[fp.Monoid[Flags]]\n",
			"// @fp.Value\ntype Mixed struct {\n\t" + strings.Join(mixed, "\n\t") + "\n}\n",
			"// @fp.Derive\nvar _ monoid.Derives[fp.Monoid[Mixed]]\n",
			"type PFlags struct {\n\tA, B bool\n\tN    int\n}\n",
			"type Deep struct {\n\tP  PFlags\n\tO  fp.Option[PFlags]\n\tOn bool\n}\n",
			"// @fp.Derive(recursive=true)\nvar _ monoid.Derives[fp.Monoid[Deep]]\n",
		}
	case 2:
		imports = "\"time\"\n\n\t\"github.com/csgura/fp\"\n\t\"" + unitPath + "/dp\"\n"
		statics := shuffled(r, []string{
			"var DurationExact fp.Eq[time.Duration] = eq.New(func(a, b time.Duration) bool { return a == b })\n",
			"var DurationSeconds fp.Eq[time.Duration] = eq.New(func(a, b time.Duration) bool { return a/time.Second == b/time.Second })\n",
			"var WeekdayA fp.Eq[time.Weekday] = eq.New(func(a, b time.Weekday) bool { return a == b })\n",
			"var WeekdayB fp.Eq[time.Weekday] = eq.New(func(a, b time.Weekday) bool { return a%7 == b%7 })\n",
			"var WeekdayC fp.Eq[time.Weekday] = eq.New(func(a, b time.Weekday) bool { return true })\n",
			"var MonthLoose fp.Eq[time.Month] = eq.New(func(a, b time.Month) bool { return (a-1)/3 == (b-1)/3 })\n",
			"var MonthExact fp.Eq[time.Month] = eq.New(func(a, b time.Month) bool { return a == b })\n",
		})
		files["dp/dp.go"] = `// Package dp is a complete derive package for fp.Eq with several static instances of one type.
package dp

import (
	"time"

	"github.com/csgura/fp"
	"github.com/csgura/fp/eq"
	"github.com/csgura/fp/hlist"
	"github.com/csgura/fp/lazy"
)

type Derives[T any] interface {
	Target() T
}

var String fp.Eq[string] = eq.String

var HNil fp.Eq[hlist.Nil] = eq.HNil

func Given[T comparable]() fp.Eq[T] { return eq.Given[T]() }

func ContraMap[T, U any](instance fp.Eq[T], fn func(U) T) fp.Eq[U] { return eq.ContraMap(instance, fn) }

func HCons[H any, T hlist.HList](heq fp.Eq[H], teq fp.Eq[T]) fp.Eq[hlist.Cons[H, T]] {
	return eq.HCons(heq, teq)
}

func Option[T any](e fp.Eq[T]) fp.Eq[fp.Option[T]] { return eq.Option(e) }

func Slice[T any](e fp.Eq[T]) fp.Eq[[]T] { return eq.Slice(e) }

func Ptr[T any](e lazy.Eval[fp.Eq[T]]) fp.Eq[*T] { return eq.Ptr(e) }

func Tuple2[A1, A2 any](ins1 fp.Eq[A1], ins2 fp.Eq[A2]) fp.Eq[fp.Tuple2[A1, A2]] {
	return eq.Tuple2(ins1, ins2)
}

// static instances that no lookup by name finds: the generator has to choose by type

` + strings.Join(statics, "\n")
		job := shuffled(r, []string{"name    string", "timeout time.Duration", "day     time.Weekday", "month   time.Month", "retries fp.Option[time.Duration]", "days    []time.Weekday", "window  fp.Tuple2[time.Month, time.Month]"})
		decls = []string{
			"// @fp.Value\ntype Job struct {\n\t" + strings.Join(job, "\n\t") + "\n}\n",
			"// @fp.Derive\nvar _ dp.Derives[fp.Eq[Job]]\n",
			"type Plain struct {\n\tD time.Duration\n\tW *time.Weekday\n}\n",
			"type Outer struct {\n\tP  Plain\n\tPs []Plain\n\tM  time.Month\n}\n",
			"// @fp.Derive(recursive=true)\nvar _ dp.Derives[fp.Eq[Outer]]\n",
		}
	default:
		imports = "\"time\"\n\n\t\"github.com/csgura/fp\"\n\t\"github.com/csgura/fp/monoid\"\n\t\"" + unitPath + "/inst\"\n"
		insts := shuffled(r, []string{
			"// found by name\nfunc MonoidMonth() fp.Monoid[time.Month] {\n\treturn monoid.New(func() time.Month { return 0 }, func(a, b time.Month) time.Month { return a + b })\n}\n",
			"var MonthFirst fp.Monoid[time.Month] = monoid.New(func() time.Month { return 0 }, func(a, b time.Month) time.Month { return a })\n",
			"var MonthLast fp.Monoid[time.Month] = monoid.New(func() time.Month { return 0 }, func(a, b time.Month) time.Month { return b })\n",
			"var SpanUnion fp.Monoid[Span] = monoid.New(func() Span { return Span{} }, func(a, b Span) Span { return Span{min(a.From, b.From), max(a.To, b.To)} })\n",
			"var SpanIntersect fp.Monoid[Span] = monoid.New(func() Span { return Span{} }, func(a, b Span) Span { return Span{max(a.From, b.From), min(a.To, b.To)} })\n",
			"var SpanLeft fp.Monoid[Span] = monoid.New(func() Span { return Span{} }, func(a, b Span) Span { return a })\n",
		})
		files["inst/inst.go"] = "package inst\n\nimport (\n\t\"time\"\n\n\t\"github.com/csgura/fp\"\n\t\"github.com/csgura/fp/monoid\"\n)\n\n// Derives marks this package as a source of given instances.\ntype Derives[T any] interface{}\n\ntype Span struct{ From, To int }\n\n" + strings.Join(insts, "\n")
		usage := shuffled(r, []string{"busy  time.Duration", "month time.Month", "n     int", "spare fp.Option[time.Month]", "on    bool", "span  inst.Span"})
		decls = []string{
			"// @fp.ImportGiven\nvar _ inst.Derives[fp.Monoid[any]]\n",
			"var MonoidInt = monoid.Sum[int]()\n",
			"// @fp.Value\ntype Usage struct {\n\t" + strings.Join(usage, "\n\t") + "\n}\n",
			"// @fp.Derive\nvar _ monoid.Derives[fp.Monoid[Usage]]\n",
			"type Part struct {\n\tM time.Month\n\tB bool\n\tS inst.Span\n}\n",
			"type Whole struct {\n\tP  Part\n\tQ  fp.Option[Part]\n\tOn bool\n}\n",
			"// @fp.Derive(recursive=true)\nvar _ monoid.Derives[fp.Monoid[Whole]]\n",
		}
	}
	var b strings.Builder
	fmt.Fprintf(&b, "package %s\n\nimport (\n\t%s)\n\n%s", name, imports, genLine)
	for _, d := range shuffled(r, decls) {
		b.WriteString(d + "\n")
	}
	files[file] = b.String()
	return files, file
}
