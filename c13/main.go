// C13 — generators are deterministic and the committed generated code is their fixpoint.
//
// The binary is a wrapper around the usual vrt parent/worker pair: the outermost process
// takes ONE snapshot of the working tree of the repository (default /repo, VERIF_REPO for
// mutant runs), builds gombok / template_gen / monad_gen from that snapshot, parses every
// //go:generate directive, and then re-executes itself (vrt parent) with C13_SHARED set.
// Workers execute directives with the prebuilt binaries in private copies of the snapshot
// and compare bytes. Everything lives below one os.MkdirTemp directory that the wrapper
// removes.
package main

import (
	"fmt"
	"os"
	"os/exec"
	"os/signal"
	"path/filepath"
	"sort"
	"strings"
	"syscall"
	"time"

	"verif/vrt"
)

const (
	envShared = "C13_SHARED"
	envRepo   = "VERIF_REPO"
	envKeep   = "C13_KEEP" // debugging only: keep the scratch directory
)

// repeats: number of passes over one unit. Units whose output can depend on an ORDER the
// generator collects things in (gombok packages with >= 2 source files: go/packages parses
// them concurrently; extra packages with competing @fp.ImportGiven packages or several
// source files) are cheap (one gombok run each) and get more process starts.
func repeatsOf(tier string, sp extraSpec) int {
	if sp.Ambiguous {
		// units that offer the generator a choice: one cheap gombok run each, so R >= 12 in every tier
		if tier == "thorough" {
			return 24
		}
		return 12
	}
	if sp.Kind == "phase" {
		// first generation, second run on top, and at least one more first generation from scratch
		return max(4, repeats(tier, false))
	}
	return repeats(tier, sp.OrderSensitive)
}

func repeats(tier string, orderSensitive bool) int {
	switch {
	case tier == "thorough" && orderSensitive:
		return 24
	case tier == "thorough":
		return 12
	case orderSensitive:
		return 8
	}
	return 2
}

func main() {
	if os.Getenv(envShared) == "" {
		os.Exit(wrapper())
	}
	sh, err := loadShared(os.Getenv(envShared))
	if err != nil {
		fmt.Println("C13: cannot load plan:", err)
		os.Exit(2)
	}
	nG := len(sh.Plan.Groups)
	vrt.Main(vrt.Config{
		Property: "C13",
		Level:    "translation_validation",
		Batches: func(tier string) int {
			return nG + 1 + len(extraSpecs(tier))
		},
		Cases: func(tier string, b int) int {
			switch {
			case b < nG:
				g := sh.Plan.Groups[b]
				if g.Gombok {
					return repeats(tier, g.OrderSensitive()) + 1 // + the from-scratch pass
				}
				return repeats(tier, g.OrderSensitive())
			case b == nG:
				if tier == "thorough" {
					return 2
				}
				return 1
			default:
				return repeatsOf(tier, extraSpecs(tier)[b-nG-1])
			}
		},
		Run: func(w *vrt.W) {
			k := newWorker(w, sh)
			defer k.cleanup()
			switch {
			case w.Batch < nG:
				k.runGroup(sh.Plan.Groups[w.Batch])
			case w.Batch == nG:
				k.runGlobal()
			default:
				k.runExtra(extraSpecs(w.Tier)[w.Batch-nG-1])
			}
			k.cleanup()
		},
		Parallel:    0,
		WorkerProcs: 4,
		WallLimit:   20 * time.Minute,
		Rule: "case = one pass of the prebuilt generators (gombok, template_gen, monad_gen, built with -trimpath from a snapshot of the working tree) over one unit, executed in a private copy of the snapshot with GOPACKAGE/GOFILE/GOLINE/PWD set as `go generate` does and GOMAXPROCS rotating over {1,2,4,16} (start of the rotation drawn from the case PRNG). Every pass after the first is compared with pass 0 (so all passes are pairwise equal when nothing is reported). " +
			"Units: (a) every directory of the repository that carries //go:generate directives (its directives run in go-generate order): pass 0 on the pristine copy with every file's mtime set to the epoch = FIXPOINT (whole scratch tree byte-identical to the snapshot afterwards) + ORPHANS (every file of that directory with a `// Code generated … DO NOT EDIT.` header before its package clause was rewritten; if not, all other directives are run before it is called an orphan); pass 1 on top of the regenerated tree = IDEMPOTENCE; passes 2..R-1 on a restored pristine copy = DETERMINISM (whole tree byte-identical to pass 0's result); " +
			"(b) one global unit: generated-header files in directories without directive (orphans), directives whose command is not one of the three generators (reported as skipped), and in the thorough tier a literal serial `go generate ./...`-ordered double pass over ONE scratch tree; " +
			"(c) extra gombok input packages synthesised from the case PRNG inside the repository copy: wide @fp.Value/@fp.Json/@fp.GenLabelled structs with 10-40 tagged fields and @fp.Derive of eq/show/js.Encoder/js.Decoder/read/hash; a fixed shop package (external module with a replace directive) with eq/ord/hash/show/clone/monoid derives, @fp.Generate template and adaptor; GIVEN units: 2-4 instance packages that all offer applicable instances for the same type class and type (EqDuration/EqMonth/OrdDuration/OrdMonth/ShowDuration/ShowMonth by name, fp.Eq/fp.Show[time.Weekday] only by type, vars and funcs), imported through permuted @fp.ImportGiven directives spread over 2-3 source files, two units with instance packages that share one package name (import alias numbering); MULTI units: 3-5 source files with 6-10 tagged structs (@fp.Value/@fp.Getter/@fp.With/@fp.String/@fp.Builder/@fp.AllArgsConstructor/@fp.GenLabelled/@fp.Json, struct names in an order contradicting the file names, many struct tags), generic structs instantiated several times, field types from two packages both called `shape` and one called `option`, 30-40 @fp.Derive directives spread over the files (also for types of other files, two recursive=true ones that derive the same instances on demand), three @fp.Generate templates in different files two of which write one output file. Pass 0 from the clean input, odd passes on top of the generated files, even passes from the clean input again, all byte-identical to pass 0. " +
			"PHASE units (c13phase1..3): one package in which a directive of one phase consumes the output of another phase of the SAME run - an @fp.Generate template declares structs that @fp.Derive directives (plain and recursive=true) derive instances for; @fp.Value output (Unapply / Builder / String) that on-demand derivations and show.Given need, a hand-written instance whose initialiser calls a derived instance function, an @fp.Generate adaptor over an interface that mentions value types; an @fp.Value struct whose field types come from the template (known finding) - pass 0 is a FIRST GENERATION FROM SCRATCH (no generated file exists), pass 1 runs on top of it and must change nothing (one run reaches the fixpoint), later passes alternate. The same from-scratch demand is made of every gombok directory of the repository: after the determinism passes one more pass deletes every file the directory's directives write and ONE run must reproduce the committed files (key <generator>/<dir>/first-generation-not-fixpoint). AMBIG units (c13ambig1..3): inputs that leave the generator a choice - Monoid over bool fields (monoid.All / monoid.Any, neither found by name), a derive package of the unit's own with 2-3 static instances of one type under names no lookup rule produces, an @fp.ImportGiven package with an instance found by name next to instances found by type only - which one is taken is recorded, not judged; all process starts must agree. " +
			"Repeats R: 2 (thorough 12) per unit (PHASE units at least 4; AMBIG units 12, thorough 24); 8 (thorough 24) for ORDER-SENSITIVE units = gombok directories of the repository with >= 2 hand-written source files (go/packages parses the files of a package concurrently) and the GIVEN/MULTI units. " +
			"distinct_nontrivial counts distinct directives (repository directives by dir/file/line, extra packages by name) that wrote at least one file in some pass.",
		Assumptions: []string{
			"the generators are run as prebuilt binaries (basename = generator name) instead of `go run`; go generate's $GOARCH/$GOOS/$GOFILE/$GOLINE/$GOPACKAGE/$DOLLAR/$PWD are reproduced, the `go` tool on PATH is the same",
			"GOFLAGS=-mod=mod -trimpath GOPROXY=off GOSUMDB=off GOTOOLCHAIN=local: -trimpath only makes the export data that go/packages obtains from `go list -export` independent of the scratch path (build cache reuse); the generators take positions only from the package they parse from source",
			"one snapshot of the working tree is taken at start; generators are built from it and all comparisons are against it (a concurrent edit of the working tree is reported as a note, not judged)",
			"running each directory's directives on its own pristine copy is equivalent to one serial pass for the fixpoint verdict (the first directive of a serial pass that changes a file has seen an unchanged tree); the thorough tier also runs the literal serial pass",
			"map-iteration order is re-randomised per process start; R runs sample it, they do not enumerate it",
			"first generation from scratch: established on the unchanged tree for each of the 15 gombok directories of the repository (clone, show, statet, test/internal/{adaptortest, clonetest, docexample, gendebug, js, read, recursive, showorder, showtest, testjson, testpk1, testpk2}): deleting every file their directives write and running the directives ONCE reproduces the committed files - no exception had to be listed (worker.go fromScratchExceptions is empty); a directory added later whose hand-written code cannot be loaded without its generated files would have to be listed there",
		},
		Floors: func(tier string) map[string]int64 {
			f := map[string]int64{"generator_runs": 1, "files_compared": 1, "orphan_checks": 1, "directives_with_output": 1,
				// the order-sensitive inputs really ran, produced output and were repeated
				"extra_units_with_output.given": 4, "extra_units_with_output.multi": 3, "extra_units_with_output.wide": 4, "extra_units_with_output.shop": 1,
				"import_given.contested_instance_resolved_to_one_package": 12,
				"order_sensitive.repeated_runs":                           7 * int64(repeats(tier, true)-1),
				"order_sensitive.repository_directories":                  1,
				"runs_gomaxprocs_1":                                       10, "runs_gomaxprocs_2": 10, "runs_gomaxprocs_4": 10, "runs_gomaxprocs_16": 10,
				// phase units: a second run on top of the first generation and a repeated first generation each; the
				// repository's gombok directories were regenerated from scratch; the ambiguous units were repeated >= 11 times
				"extra_units_with_output.phase": 3, "phase.second_run_on_top_of_first_generation": 3, "phase.repeated_first_generations_from_scratch": 3,
				"from_scratch.passes": 10, "from_scratch.generated_files_deleted": 15,
				"extra_units_with_output.ambig": 3, "ambig.choices_observed": 6, "ambiguous.repeated_runs": 3 * int64(repeatsOf(tier, extraSpec{Ambiguous: true})-1)}
			return f
		},
		Finish: func(tier string, m *vrt.Merged, cov map[string]any) {
			p := sh.Plan
			byGen := map[string]int{}
			for _, d := range p.Directives {
				byGen[d.Generator]++
			}
			sk := []string{}
			for _, d := range p.Skipped {
				sk = append(sk, fmt.Sprintf("%s/%s:%d: %s", d.Dir, d.File, d.Line, d.Cmd))
			}
			cov["repository"] = p.Repo
			cov["directives"] = len(p.Directives)
			cov["directives_by_generator"] = byGen
			cov["directive_directories"] = len(p.Groups)
			cov["skipped_directives"] = sk
			cov["generated_header_files"] = len(p.GenFiles)
			cov["snapshot_files"] = p.Files
			cov["snapshot_bytes"] = p.Bytes
			cov["setup_s"] = p.SetupSeconds
			cov["programs"] = len(m.Distinct)
			cov["disagreements_checked"] = m.Counters["files_compared"]
			cov["repeats_per_unit"] = repeats(tier, false)
			cov["repeats_per_order_sensitive_unit"] = repeats(tier, true)
			os8 := []string{}
			for _, g := range p.Groups {
				if g.OrderSensitive() {
					os8 = append(os8, fmt.Sprintf("%s (%d source files)", g.Dir, g.Sources))
				}
			}
			for _, e := range extraSpecs(tier) {
				if e.OrderSensitive {
					os8 = append(os8, "extra/"+e.Name)
				}
			}
			cov["order_sensitive_units"] = os8
			ex := []string{}
			for _, e := range extraSpecs(tier) {
				ex = append(ex, e.Name)
			}
			cov["extra_packages"] = ex
		},
	})
}

// wrapper: snapshot, build, plan, run the vrt parent as a child, clean up.
func wrapper() int {
	start := time.Now()
	repo := os.Getenv(envRepo)
	if repo == "" {
		repo = "/repo"
	}
	tmp, err := os.MkdirTemp("", "verif-C13-shared-")
	if err != nil {
		fmt.Println("C13: cannot create scratch directory:", err)
		return 2
	}
	if p, err := filepath.EvalSymlinks(tmp); err == nil {
		tmp = p
	}
	cleanup := func() {
		if os.Getenv(envKeep) != "" {
			fmt.Println("C13: keeping", tmp)
			return
		}
		// generated trees may contain read-only directories only by accident; be thorough
		filepath.Walk(tmp, func(p string, fi os.FileInfo, err error) error {
			if err == nil && fi.IsDir() {
				os.Chmod(p, 0o755)
			}
			return nil
		})
		os.RemoveAll(tmp)
	}
	if err := setup(repo, tmp, start); err != nil {
		fmt.Printf("BUILD-FAILED property=C13 (cannot snapshot %s / build its generators)\n%v\n", repo, err)
		cleanup()
		return 2
	}
	self, err := os.Executable()
	if err != nil {
		self = os.Args[0]
	}
	cmd := exec.Command(self, os.Args[1:]...)
	cmd.Env = append(os.Environ(), envShared+"="+tmp)
	cmd.Stdin, cmd.Stdout, cmd.Stderr = os.Stdin, os.Stdout, os.Stderr
	sigs := make(chan os.Signal, 2)
	signal.Notify(sigs, syscall.SIGINT, syscall.SIGTERM)
	if err := cmd.Start(); err != nil {
		fmt.Println("C13: cannot start:", err)
		cleanup()
		return 2
	}
	done := make(chan error, 1)
	go func() { done <- cmd.Wait() }()
	code := 0
	select {
	case err = <-done:
		if err != nil {
			code = 2
			if ee, ok := err.(*exec.ExitError); ok && ee.ExitCode() >= 0 {
				code = ee.ExitCode()
			}
		}
	case s := <-sigs:
		cmd.Process.Signal(s)
		select {
		case <-done:
		case <-time.After(5 * time.Second):
			cmd.Process.Kill()
			<-done
		}
		code = 2
	}
	cleanup()
	return code
}

func sortedKeys[V any](m map[string]V) []string {
	ks := make([]string, 0, len(m))
	for k := range m {
		ks = append(ks, k)
	}
	sort.Strings(ks)
	return ks
}

func indent(s, pre string) string {
	return pre + strings.ReplaceAll(strings.TrimRight(s, "\n"), "\n", "\n"+pre)
}
