// C01 — builders (descriptor -> library value through the package's own constructors) and
// observers (library value -> canonical string) for Option, Try, Either, StateT.
package main

import (
	"strconv"
	"strings"

	"github.com/csgura/fp"
	"github.com/csgura/fp/either"
	"github.com/csgura/fp/option"
	"github.com/csgura/fp/statet"
	"github.com/csgura/fp/try"
)

// ---- Option ---------------------------------------------------------------------------------

func buildOption[T any](d opd, conv func(int) T) fp.Option[T] {
	v, k, _ := d.at(0)
	if k != 0 {
		switch d.V % 3 {
		case 0:
			return option.None[T]()
		case 1:
			return fp.Option[T]{} // zero value
		}
		return fp.None[T]()
	}
	switch d.V % 3 {
	case 0:
		return option.Some(conv(v))
	case 1:
		return fp.Some(conv(v))
	}
	return option.Pure(conv(v))
}

func obsOption[T any](m fp.Option[T], show func(T) string) string {
	if m.IsDefined() {
		return "ok(" + show(m.Get()) + ")@0"
	}
	return "F1@0"
}

// ---- Try --------------------------------------------------------------------------------------

func buildTry[T any](d opd, conv func(int) T) fp.Try[T] {
	v, k, _ := d.at(0)
	if k != 0 {
		if d.V%2 == 0 {
			return try.Failure[T](errs[k])
		}
		return fp.Failure[T](errs[k])
	}
	switch d.V % 3 {
	case 0:
		return try.Success(conv(v))
	case 1:
		return fp.Success(conv(v))
	}
	return try.Pure(conv(v))
}

func obsTryRaw[T any](m fp.Try[T], show func(T) string) string {
	if m.IsSuccess() {
		return "ok(" + show(m.Get()) + ")"
	}
	return "F" + errIdx(m.Failed().Get())
}

func obsTry[T any](m fp.Try[T], show func(T) string) string { return obsTryRaw(m, show) + "@0" }

// ---- Either -----------------------------------------------------------------------------------

func buildEither[T any](d opd, conv func(int) T) fp.Either[lft, T] {
	v, k, _ := d.at(0)
	if k != 0 {
		switch d.V % 3 {
		case 0:
			return either.Left[lft, T](lft{k})
		case 1:
			return either.NotRight[T](lft{k})
		}
		return fp.Left[lft, T](lft{k})
	}
	switch d.V % 3 {
	case 0:
		return either.Right[lft](conv(v))
	case 1:
		return fp.Right[lft](conv(v))
	}
	return either.Pure[lft](conv(v))
}

func obsEither[T any](m fp.Either[lft, T], show func(T) string) string {
	if m.IsRight() {
		return "ok(" + show(m.Get()) + ")@0"
	}
	return "F" + strconv.Itoa(m.Left().K) + "@0"
}

// ---- StateT -------------------------------------------------------------------------------------

func buildStatet[T any](d opd, conv func(int) T) fp.StateT[int, T] {
	if d.M == 0 && d.C1 == 0 && d.D == 0 && d.V%3 == 0 {
		return statet.Pure[int](conv(md(d.C0)))
	}
	if d.M == 1 && d.D == 0 && d.V%3 == 0 {
		return statet.FromTry[int](try.Failure[T](errs[d.K]))
	}
	if d.M == 0 && d.V%3 == 1 {
		return statet.Run(func(s int) (T, int) {
			v, _, ns := d.at(s)
			return conv(v), ns
		})
	}
	return func(s int) (fp.Try[T], int) {
		v, k, ns := d.at(s)
		if k != 0 {
			return fp.Failure[T](errs[k]), ns
		}
		return fp.Success(conv(v)), ns
	}
}

func obsStatet[T any](m fp.StateT[int, T], show func(T) string) string {
	var b strings.Builder
	for i, s := range profStatet.probes {
		if i > 0 {
			b.WriteByte(';')
		}
		t, ns := m(s)
		b.WriteString(obsTryRaw(t, show))
		b.WriteString("@" + strconv.Itoa(ns))
	}
	return b.String()
}
