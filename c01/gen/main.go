// Generator for the arity-indexed call sites of check C01.
//
//	cd /verif/c01 && go run ./gen
//
// writes the zz_*.go files of the harness packages h<pkg>/ below /verif/c01 (one template per
// family, every arity 2..9) and helem/e<pkg>/zz_<pkg>_elem.go (the law / definition checks as one generic
// function over the element type, see elem_tmpl.go) and hstatet/zz_statet_fork.go (the arity-indexed
// combinators as arms of a fork, see fork_tmpl.go). The generated files are kept in the tree; the check itself needs
// no generation step. Regenerate after changing a template in gen/*_tmpl.go.
package main

import (
	"bytes"
	"fmt"
	"go/format"
	"os"
	"path/filepath"
	"strings"
	"text/template"
)

type pkgT struct {
	P        string // package name
	U        string // suffix of the harness helpers (buildOption, obsOption, ...)
	X        string // explicit leading type argument where it cannot be inferred
	Mfmt     string // type constructor, %s = element type
	Builders bool   // package has ApplicativeN / ChainN
	ApM      string // name of the builder method taking a monadic value (ApOption / ApTry)
	IsTry    bool
}

func (p pkgT) M(t string) string { return fmt.Sprintf(p.Mfmt, t) }

var pkgs = []pkgT{
	{P: "option", U: "Option", X: "", Mfmt: "fp.Option[%s]", Builders: true, ApM: "ApOption"},
	{P: "try", U: "Try", X: "", Mfmt: "fp.Try[%s]", Builders: true, ApM: "ApTry", IsTry: true},
	{P: "either", U: "Either", X: "[Lft]", Mfmt: "fp.Either[Lft, %s]"},
	{P: "statet", U: "Statet", X: "[int]", Mfmt: "fp.StateT[int, %s]"},
}

func seq(a, b int) []int {
	var out []int
	for i := a; i <= b; i++ {
		out = append(out, i)
	}
	return out
}

func list(prefix string, a, b int) string {
	var out []string
	for i := a; i <= b; i++ {
		out = append(out, fmt.Sprintf("%s%d", prefix, i))
	}
	return strings.Join(out, ", ")
}

func decl(prefix string, a, b int, typ string) string {
	var out []string
	for i := a; i <= b; i++ {
		out = append(out, fmt.Sprintf("%s%d %s", prefix, i, typ))
	}
	return strings.Join(out, ", ")
}

// curriedT: int -> int -> ... -> ret with n arguments, as nested fp.Func1.
func curriedT(n int, ret string) string {
	if n == 0 {
		return ret
	}
	return "fp.Func1[int, " + curriedT(n-1, ret) + "]"
}

// curriedLit: nested closures a1 => a2 => ... => body.
func curriedLit(from, n int, ret, body string) string {
	if from > n {
		return body
	}
	inner := curriedLit(from+1, n, ret, body)
	if from == n {
		return fmt.Sprintf("func(a%d int) %s { return %s }", from, curriedT(n-from, ret), inner)
	}
	return fmt.Sprintf("func(a%d int) %s { return %s }", from, curriedT(n-from, ret), inner)
}

// applied: (xs[0])(xs[1])...
func applied(prefix string, n int) string {
	var b strings.Builder
	for i := 0; i < n; i++ {
		fmt.Fprintf(&b, "(%s[%d])", prefix, i)
	}
	return b.String()
}

func idx(prefix string, a, b int) string {
	var out []string
	for i := a; i <= b; i++ {
		out = append(out, fmt.Sprintf("%s[%d]", prefix, i))
	}
	return strings.Join(out, ", ")
}

func add(a, b int) int { return a + b }

// hcons: type of the hlist after k applied int arguments.
func hcons(k int) string {
	if k == 0 {
		return "hlist.Nil"
	}
	return "hlist.Cons[int, " + hcons(k-1) + "]"
}

func ints(n int) string { return strings.TrimSuffix(strings.Repeat("int, ", n), ", ") }

// chainT: type of <pkg>.MonadChain<rem> after `applied` arguments out of n.
func chainT(pkg string, n, appliedN int) string {
	rem := n - appliedN
	ht := "hlist.Nil"
	if appliedN > 0 {
		ht = "int"
	}
	return fmt.Sprintf("%s.MonadChain%d[%s, %s, %s, int]", pkg, rem, hcons(appliedN), ht, ints(rem))
}

func applT(pkg string, n, appliedN int) string {
	rem := n - appliedN
	return fmt.Sprintf("%s.ApplicativeFunctor%d[%s, int]", pkg, rem, ints(rem))
}

var funcs = template.FuncMap{
	"seq": seq, "list": list, "decl": decl, "curriedT": curriedT, "curriedLit": curriedLit,
	"applied": applied, "remArity": func(n, j int) int { return n - j + 1 }, "idx": idx, "add": add, "hcons": hcons, "chainT": chainT, "applT": applT, "ints": ints,
}

func emit(name, tmpl string, data any) {
	t := template.Must(template.New(name).Funcs(funcs).Parse(tmpl))
	var buf bytes.Buffer
	if err := t.Execute(&buf, data); err != nil {
		fmt.Fprintln(os.Stderr, name, err)
		os.Exit(1)
	}
	src, err := format.Source(buf.Bytes())
	if err != nil {
		os.WriteFile(name+".broken", buf.Bytes(), 0o644)
		fmt.Fprintln(os.Stderr, name, "gofmt:", err)
		os.Exit(1)
	}
	if err := os.WriteFile(name, src, 0o644); err != nil {
		fmt.Fprintln(os.Stderr, err)
		os.Exit(1)
	}
	fmt.Println("wrote", name, len(src), "bytes")
}

func main() {
	dir := "."
	if len(os.Args) > 1 {
		dir = os.Args[1]
	}
	for _, p := range pkgs {
		emit(filepath.Join(dir, "h"+p.P, "zz_"+p.P+".go"), monadTmpl, p)
		emit(filepath.Join(dir, "helem", "e"+p.P, "zz_"+p.P+"_elem.go"), elemTmpl, p)
		if p.Builders {
			emit(filepath.Join(dir, "h"+p.P, "zz_"+p.P+"_builders.go"), builderTmpl, p)
		}
	}
	emit(filepath.Join(dir, "hstatet", "zz_statet_fork.go"), forkTmpl, nil)
	emit(filepath.Join(dir, "hcoll", "zz_iterator_arity.go"), iteratorTmpl, nil)
	emit(filepath.Join(dir, "htryx", "zz_try_misc.go"), tryMiscTmpl, nil)
	emit(filepath.Join(dir, "hsmall", "zz_lazy_arity.go"), lazyTmpl, nil)
}
