// C01 — the list monads: seq, list (lazy, persistent) and iterator (single use).
//
// Reference (a): the list monad on []int in plain Go. For Iterator the combinators whose
// definition re-uses one single-use operand for every element of the other (Ap, Map2, Flap*,
// FlapMap, Method1/2) are compared (b) with that very definition written with the package's
// own FlatMap and Of on fresh, identically built operands; their result differs from the
// list-monad product by design.
package main

import (
	"fmt"

	"verif/vrt"

	"github.com/csgura/fp"
	"github.com/csgura/fp/iterator"
	"github.com/csgura/fp/list"
	"github.com/csgura/fp/seq"
)

var (
	profSeq      = &profile{pkg: "seq"}
	profList     = &profile{pkg: "list"}
	profIterator = &profile{pkg: "iterator"}
)

// ---- reference: list monad on []int -----------------------------------------------------------

func lFlatMap(m []int, f func(int) []int) []int {
	out := []int{}
	for _, x := range m {
		out = append(out, f(x)...)
	}
	return out
}

func lMap(m []int, f func(int) int) []int {
	return lFlatMap(m, func(x int) []int { return []int{f(x)} })
}

func lMap2(a, b []int, f func(int, int) int) []int {
	return lFlatMap(a, func(x int) []int { return lMap(b, func(y int) int { return f(x, y) }) })
}

// lkd: x -> small list; empty for part of the domain.
type lkd struct{ A, B, N int }

func (k lkd) at(x int) []int {
	n := (x + k.N) % 4
	out := make([]int, n)
	for i := range out {
		out[i] = md(x*k.A + k.B + i*7)
	}
	return out
}

// okd: x -> option (v, ok); none for part of the domain (FilterMap).
type okd struct{ A, B, M int }

func (k okd) at(x int) (int, bool) {
	if k.M > 0 && x%k.M == 0 {
		return 0, false
	}
	return md(x*k.A + k.B), true
}
func (k okd) opt(x int) fp.Option[int] {
	v, ok := k.at(x)
	if !ok {
		return fp.None[int]()
	}
	return fp.Some(v)
}

// lopd: a list operand: elements plus the constructor variant used on the library side.
type lopd struct {
	S []int
	V int
}

func (c *cas) lopd() lopd {
	r := c.r
	var s []int
	switch r.IntN(6) {
	case 0:
		s = nil
	case 1:
		s = []int{}
	case 2:
		s = []int{r.IntN(1000)}
	default:
		s = make([]int, 2+r.IntN(3))
		for i := range s {
			s[i] = r.IntN(1000)
		}
	}
	d := lopd{s, r.IntN(5)}
	c.shape(seqShape(s) + "/v" + showInt(d.V))
	c.note("list %v nil=%v variant=%d", s, s == nil, d.V)
	return d
}

func (c *cas) lkl() lkd {
	k := lkd{1 + c.r.IntN(50), c.r.IntN(1000), c.r.IntN(4)}
	c.note("kleisli %+v", k)
	return k
}

func (c *cas) okl() okd {
	k := okd{1 + c.r.IntN(50), c.r.IntN(1000), c.r.IntN(4)}
	c.note("optfn %+v", k)
	return k
}

func (d lopd) seq() fp.Seq[int] {
	if d.S == nil {
		if d.V%2 == 0 {
			return nil
		}
		return seq.Empty[int]()
	}
	switch d.V % 3 {
	case 0:
		return fp.Seq[int](append([]int{}, d.S...))
	case 1:
		return seq.Of(append([]int{}, d.S...)...)
	}
	if len(d.S) == 1 {
		return seq.Pure(d.S[0])
	}
	return fp.Seq[int](append([]int{}, d.S...))
}

func (d lopd) list() fp.List[int] {
	if len(d.S) == 0 && d.V%2 == 0 {
		return list.Empty[int]()
	}
	switch d.V % 4 {
	case 0:
		return list.FromSeq(fp.Seq[int](d.S))
	case 1:
		return list.Of(d.S...)
	case 2: // cons cells
		var l fp.List[int] = list.Empty[int]()
		for i := len(d.S) - 1; i >= 0; i-- {
			l = list.Apply(d.S[i], l)
		}
		return l
	}
	return list.Collect(fp.IteratorOfSeq(append([]int{}, d.S...))) // lazy list
}

func (d lopd) iter() fp.Iterator[int] {
	if len(d.S) == 0 && d.V%2 == 0 {
		return iterator.Empty[int]()
	}
	switch d.V % 4 {
	case 0:
		return iterator.FromSeq(fp.Seq[int](d.S))
	case 1:
		return iterator.Of(d.S...)
	case 2:
		return iterator.FromList(list.Of(d.S...))
	}
	rev := make([]int, len(d.S))
	for i, v := range d.S {
		rev[len(d.S)-1-i] = v
	}
	return iterator.ReverseSeq(rev)
}

func listInts(l fp.List[int]) []int {
	out := []int{}
	n := 0
	for l.NonEmpty() {
		out = append(out, l.Head())
		l = l.Tail()
		if n++; n > 100000 {
			panic(vrt.BudgetExceeded{What: "list longer than 100000 elements"})
		}
	}
	return out
}

func iterInts(it fp.Iterator[int]) []int {
	out := []int{}
	n := 0
	for it.HasNext() {
		out = append(out, it.Next())
		if n++; n > 100000 {
			panic(vrt.BudgetExceeded{What: "iterator yields more than 100000 elements"})
		}
	}
	return out
}

func (c *cas) eqL(got, want []int) bool  { return c.eq(showInts(got), showInts(want)) }
func (c *cas) eqLD(got, def []int) bool { return c.eqDef(showInts(got), showInts(def)) }

func curry2(g fnd) func(int) fp.Func1[int, int] {
	return func(cv int) fp.Func1[int, int] { return func(a int) int { return g.call(cv, a) } }
}

func curry3(g fnd) func(int) fp.Func1[int, fp.Func1[int, int]] {
	return func(cv int) fp.Func1[int, fp.Func1[int, int]] {
		return func(a int) fp.Func1[int, int] { return func(b int) int { return g.call(cv, a, b) } }
	}
}

// ---- seq ----------------------------------------------------------------------------------------

func checksSeq() []check {
	type C = fp.Seq[int]
	return []check{
		{"seq.Map", func(c *cas) {
			d, f := c.lopd(), c.f1()
			c.site("seq.Map")
			got := seq.Map(d.seq(), f.call)
			c.eqL(got, lMap(d.S, f.call))
			c.site("seq.FlatMap")
			c.eqLD(got, seq.FlatMap(d.seq(), func(x int) C { return seq.Pure(f.call(x)) }))
		}},
		{"seq.FlatMap", func(c *cas) {
			d, k1, k2 := c.lopd(), c.lkl(), c.lkl()
			a := c.r.IntN(1000)
			c.note("a=%d", a)
			f := func(x int) C { return k1.at(x) }
			g := func(x int) C { return k2.at(x) }
			c.site("seq.FlatMap")
			li := seq.FlatMap(seq.Pure(a), f)
			c.law("left-identity", showInts(li), showInts(f(a)))
			c.law("left-identity-vs-reference", showInts(li), showInts(k1.at(a)))
			ri := seq.FlatMap(d.seq(), seq.Pure[int])
			c.law("right-identity", showInts(ri), showInts(d.seq()))
			c.law("right-identity-vs-reference", showInts(ri), showInts(d.S))
			as1 := seq.FlatMap(seq.FlatMap(d.seq(), f), g)
			as2 := seq.FlatMap(d.seq(), func(x int) C { return seq.FlatMap(f(x), g) })
			c.law("associativity", showInts(as1), showInts(as2))
			c.law("associativity-vs-reference", showInts(as1), showInts(lFlatMap(lFlatMap(d.S, k1.at), k2.at)))
		}},
		{"seq.Pure", func(c *cas) {
			a := c.r.IntN(1000)
			c.shape("pure")
			c.site("seq.Pure")
			c.eqL(seq.Pure(a), []int{a})
		}},
		{"seq.Flatten", func(c *cas) {
			d, k := c.lopd(), c.lkl()
			nested := make(fp.Seq[fp.Seq[int]], len(d.S))
			for i, x := range d.S {
				nested[i] = k.at(x)
				if len(nested[i]) == 0 && i%2 == 0 {
					nested[i] = nil
				}
			}
			c.site("seq.Flatten")
			c.eqL(seq.Flatten(nested), lFlatMap(d.S, k.at))
		}},
		{"seq.Ap", func(c *cas) {
			df, da, g := c.lopd(), c.lopd(), c.fn()
			fs := make(fp.Seq[fp.Func1[int, int]], len(df.S))
			for i, cv := range df.S {
				fs[i] = curry2(g)(cv)
			}
			c.site("seq.Ap")
			c.eqL(seq.Ap(fs, da.seq()), lMap2(df.S, da.S, g.call2))
		}},
		{"seq.Map2", func(c *cas) {
			da, db, g := c.lopd(), c.lopd(), c.fn()
			c.site("seq.Map2")
			c.eqL(seq.Map2(da.seq(), db.seq(), g.call2), lMap2(da.S, db.S, g.call2))
		}},
		{"seq.Lift", func(c *cas) {
			d, f := c.lopd(), c.f1()
			c.site("seq.Lift")
			c.eqL(seq.Lift(f.call)(d.seq()), lMap(d.S, f.call))
		}},
		{"seq.LiftM", func(c *cas) {
			d, k := c.lopd(), c.lkl()
			c.site("seq.LiftM")
			c.eqL(seq.LiftM(func(x int) C { return k.at(x) })(d.seq()), lFlatMap(d.S, k.at))
		}},
		{"seq.Compose", func(c *cas) {
			k1, k2 := c.lkl(), c.lkl()
			a := c.r.IntN(1000)
			c.note("a=%d", a)
			c.shape("k")
			c.site("seq.Compose")
			got := seq.Compose(func(x int) C { return k1.at(x) }, func(x int) C { return k2.at(x) })(a)
			c.eqL(got, lFlatMap(k1.at(a), k2.at))
		}},
		{"seq.ComposePure", func(c *cas) {
			f := c.f1()
			a := c.r.IntN(1000)
			c.note("a=%d", a)
			c.shape("pure")
			c.site("seq.ComposePure")
			c.eqL(seq.ComposePure(f.call)(a), []int{f.call(a)})
		}},
		{"seq.FilterMap", func(c *cas) {
			d, k := c.lopd(), c.okl()
			c.site("seq.FilterMap")
			c.eqL(seq.FilterMap(d.seq(), k.opt), lFlatMap(d.S, func(x int) []int {
				if v, ok := k.at(x); ok {
					return []int{v}
				}
				return nil
			}))
		}},
	}
}

// ---- list ---------------------------------------------------------------------------------------

func checksList() []check {
	type C = fp.List[int]
	kf := func(k lkd, v int) func(int) C {
		return func(x int) C { return lopd{k.at(x), v}.list() }
	}
	return []check{
		{"list.Map", func(c *cas) {
			d, f := c.lopd(), c.f1()
			c.site("list.Map")
			got := listInts(list.Map(d.list(), f.call))
			c.eqL(got, lMap(d.S, f.call))
			c.site("list.FlatMap")
			c.eqLD(got, listInts(list.FlatMap(d.list(), func(x int) C { return list.Of(f.call(x)) })))
		}},
		{"list.FlatMap", func(c *cas) {
			d, k1, k2 := c.lopd(), c.lkl(), c.lkl()
			a := c.r.IntN(1000)
			c.note("a=%d", a)
			f, g := kf(k1, c.r.IntN(4)), kf(k2, c.r.IntN(4))
			o := func(l C) string { return showInts(listInts(l)) }
			c.site("list.FlatMap")
			li := o(list.FlatMap(list.Of(a), f))
			c.law("left-identity", li, o(f(a)))
			c.law("left-identity-vs-reference", li, showInts(k1.at(a)))
			ri := o(list.FlatMap(d.list(), func(x int) C { return list.Of(x) }))
			c.law("right-identity", ri, o(d.list()))
			c.law("right-identity-vs-reference", ri, showInts(d.S))
			as1 := o(list.FlatMap(list.FlatMap(d.list(), f), g))
			as2 := o(list.FlatMap(d.list(), func(x int) C { return list.FlatMap(f(x), g) }))
			c.law("associativity", as1, as2)
			c.law("associativity-vs-reference", as1, showInts(lFlatMap(lFlatMap(d.S, k1.at), k2.at)))
		}},
		{"list.Of", func(c *cas) {
			a := c.r.IntN(1000)
			c.shape("pure")
			c.site("list.Of")
			c.eqL(listInts(list.Of(a)), []int{a})
		}},
		{"list.Flatten", func(c *cas) {
			d, k := c.lopd(), c.lkl()
			v := c.r.IntN(4)
			c.site("list.Map")
			nested := list.Map(d.list(), kf(k, v))
			c.site("list.Flatten")
			c.eqL(listInts(list.Flatten(nested)), lFlatMap(d.S, k.at))
		}},
		{"list.Ap", func(c *cas) {
			df, da, g := c.lopd(), c.lopd(), c.fn()
			fs := make([]fp.Func1[int, int], len(df.S))
			for i, cv := range df.S {
				fs[i] = curry2(g)(cv)
			}
			c.site("list.Ap")
			c.eqL(listInts(list.Ap(list.Of(fs...), da.list())), lMap2(df.S, da.S, g.call2))
		}},
		{"list.Map2", func(c *cas) {
			da, db, g := c.lopd(), c.lopd(), c.fn()
			c.site("list.Map2")
			c.eqL(listInts(list.Map2(da.list(), db.list(), g.call2)), lMap2(da.S, db.S, g.call2))
		}},
		{"list.Lift", func(c *cas) {
			d, f := c.lopd(), c.f1()
			c.site("list.Lift")
			c.eqL(listInts(list.Lift(f.call)(d.list())), lMap(d.S, f.call))
		}},
		{"list.Compose", func(c *cas) {
			k1, k2 := c.lkl(), c.lkl()
			a := c.r.IntN(1000)
			c.note("a=%d", a)
			c.shape("k")
			c.site("list.Compose")
			got := list.Compose(kf(k1, c.r.IntN(4)), kf(k2, c.r.IntN(4)))(a)
			c.eqL(listInts(got), lFlatMap(k1.at(a), k2.at))
		}},
		{"list.ComposePure", func(c *cas) {
			f := c.f1()
			a := c.r.IntN(1000)
			c.note("a=%d", a)
			c.shape("pure")
			c.site("list.ComposePure")
			c.eqL(listInts(list.ComposePure(f.call)(a)), []int{f.call(a)})
		}},
		{"list.FilterMap", func(c *cas) {
			d, k := c.lopd(), c.okl()
			c.site("list.FilterMap")
			c.eqL(listInts(list.FilterMap(d.list(), k.opt)), lFlatMap(d.S, func(x int) []int {
				if v, ok := k.at(x); ok {
					return []int{v}
				}
				return nil
			}))
		}},
		{"list.Flap", func(c *cas) {
			df, g := c.lopd(), c.fn()
			xs := c.ints(1)
			c.site("list.Map")
			tf := list.Map(df.list(), curry2(g))
			c.site("list.Flap")
			c.eqL(listInts(list.Flap(tf)(xs[0])), lMap(df.S, func(cv int) int { return g.call(cv, xs[0]) }))
		}},
		{"list.Flap2", func(c *cas) {
			df, g := c.lopd(), c.fn()
			xs := c.ints(2)
			c.site("list.Map")
			tf := list.Map(df.list(), curry3(g))
			c.site("list.Flap2")
			c.eqL(listInts(list.Flap2(tf)(xs[0])(xs[1])), lMap(df.S, func(cv int) int { return g.call(cv, xs[0], xs[1]) }))
		}},
		{"list.FlapMap", func(c *cas) {
			d, g := c.lopd(), c.fn()
			xs := c.ints(1)
			c.site("list.FlapMap")
			c.eqL(listInts(list.FlapMap(g.call2, d.list())(xs[0])), lMap(d.S, func(a int) int { return g.call(a, xs[0]) }))
		}},
		{"list.Method1", func(c *cas) {
			d, g := c.lopd(), c.fn()
			xs := c.ints(1)
			c.site("list.Method1")
			c.eqL(listInts(list.Method1(d.list(), g.call2)(xs[0])), lMap(d.S, func(a int) int { return g.call(a, xs[0]) }))
		}},
		{"list.Method2", func(c *cas) {
			d, g := c.lopd(), c.fn()
			xs := c.ints(2)
			c.site("list.Method2")
			got := list.Method2(d.list(), func(a, b, cc int) int { return g.call(a, b, cc) })(xs[0], xs[1])
			c.eqL(listInts(got), lMap(d.S, func(a int) int { return g.call(a, xs[0], xs[1]) }))
		}},
	}
}

// ---- iterator ------------------------------------------------------------------------------------

type IT = fp.Iterator[int]

// textbook definitions instantiated with iterator.FlatMap and iterator.Of only
func defIterMap[A, B any](m fp.Iterator[A], f func(A) B) fp.Iterator[B] {
	return iterator.FlatMap(m, func(x A) fp.Iterator[B] { return iterator.Of(f(x)) })
}

func defIterAp[A, B any](tf fp.Iterator[fp.Func1[A, B]], a fp.Iterator[A]) fp.Iterator[B] {
	return iterator.FlatMap(tf, func(f fp.Func1[A, B]) fp.Iterator[B] { return defIterMap(a, f) })
}

func defIterMap2[A, B, C any](a fp.Iterator[A], b fp.Iterator[B], f func(A, B) C) fp.Iterator[C] {
	return iterator.FlatMap(a, func(x A) fp.Iterator[C] {
		return defIterMap(b, func(y B) C { return f(x, y) })
	})
}

func defIterFlap[A, B any](tf fp.Iterator[fp.Func1[A, B]], a A) fp.Iterator[B] {
	return defIterAp(tf, iterator.Of(a))
}

func iterFuncs(d lopd, g fnd) fp.Iterator[fp.Func1[int, int]] {
	return iterator.Map(d.iter(), curry2(g))
}

func checksIterator() []check {
	kf := func(k lkd, v int) func(int) IT {
		return func(x int) IT { return lopd{k.at(x), v}.iter() }
	}
	cs := []check{
		{"iterator.Map", func(c *cas) {
			d, f := c.lopd(), c.f1()
			c.site("iterator.Map")
			got := iterInts(iterator.Map(d.iter(), f.call))
			c.eqL(got, lMap(d.S, f.call))
			c.site("iterator.FlatMap")
			c.eqLD(got, iterInts(defIterMap(d.iter(), f.call)))
		}},
		{"iterator.FlatMap", func(c *cas) {
			d, k1, k2 := c.lopd(), c.lkl(), c.lkl()
			a := c.r.IntN(1000)
			c.note("a=%d", a)
			f, g := kf(k1, c.r.IntN(4)), kf(k2, c.r.IntN(4))
			o := func(l IT) string { return showInts(iterInts(l)) }
			c.site("iterator.FlatMap")
			li := o(iterator.FlatMap(iterator.Of(a), f))
			c.law("left-identity", li, o(f(a)))
			c.law("left-identity-vs-reference", li, showInts(k1.at(a)))
			ri := o(iterator.FlatMap(d.iter(), func(x int) IT { return iterator.Of(x) }))
			c.law("right-identity", ri, o(d.iter()))
			c.law("right-identity-vs-reference", ri, showInts(d.S))
			as1 := o(iterator.FlatMap(iterator.FlatMap(d.iter(), f), g))
			as2 := o(iterator.FlatMap(d.iter(), func(x int) IT { return iterator.FlatMap(f(x), g) }))
			c.law("associativity", as1, as2)
			c.law("associativity-vs-reference", as1, showInts(lFlatMap(lFlatMap(d.S, k1.at), k2.at)))
		}},
		{"iterator.Of", func(c *cas) {
			a := c.r.IntN(1000)
			c.shape("pure")
			c.site("iterator.Of")
			c.eqL(iterInts(iterator.Of(a)), []int{a})
		}},
		{"iterator.Flatten", func(c *cas) {
			d, k := c.lopd(), c.lkl()
			v := c.r.IntN(4)
			c.site("iterator.Map")
			nested := iterator.Map(d.iter(), kf(k, v))
			c.site("iterator.Flatten")
			c.eqL(iterInts(iterator.Flatten(nested)), lFlatMap(d.S, k.at))
		}},
		{"iterator.Lift", func(c *cas) {
			d, f := c.lopd(), c.f1()
			c.site("iterator.Lift")
			c.eqL(iterInts(iterator.Lift(f.call)(d.iter())), lMap(d.S, f.call))
		}},
		{"iterator.Compose", func(c *cas) {
			k1, k2 := c.lkl(), c.lkl()
			a := c.r.IntN(1000)
			c.note("a=%d", a)
			c.shape("k")
			c.site("iterator.Compose")
			got := iterator.Compose(kf(k1, c.r.IntN(4)), kf(k2, c.r.IntN(4)))(a)
			c.eqL(iterInts(got), lFlatMap(k1.at(a), k2.at))
		}},
		{"iterator.ComposePure", func(c *cas) {
			f := c.f1()
			a := c.r.IntN(1000)
			c.note("a=%d", a)
			c.shape("pure")
			c.site("iterator.ComposePure")
			c.eqL(iterInts(iterator.ComposePure(f.call)(a)), []int{f.call(a)})
		}},
		{"iterator.FilterMap", func(c *cas) {
			d, k := c.lopd(), c.okl()
			c.site("iterator.FilterMap")
			c.eqL(iterInts(iterator.FilterMap(d.iter(), k.opt)), lFlatMap(d.S, func(x int) []int {
				if v, ok := k.at(x); ok {
					return []int{v}
				}
				return nil
			}))
		}},
		// --- single-use operand shared by design: compare with the FlatMap/Of definition (b)
		{"iterator.Ap", func(c *cas) {
			df, da, g := c.lopd(), c.lopd(), c.fn()
			c.site("iterator.Ap")
			got := iterInts(iterator.Ap(iterFuncs(df, g), da.iter()))
			c.site("iterator.FlatMap")
			c.eqLD(got, iterInts(defIterAp(iterFuncs(df, g), da.iter())))
			if len(df.S) <= 1 { // no sharing: the list-monad product applies
				c.eqL(got, lMap2(df.S, da.S, g.call2))
			}
		}},
		{"iterator.Map2", func(c *cas) {
			da, db, g := c.lopd(), c.lopd(), c.fn()
			c.site("iterator.Map2")
			got := iterInts(iterator.Map2(da.iter(), db.iter(), g.call2))
			c.site("iterator.FlatMap")
			c.eqLD(got, iterInts(defIterMap2(da.iter(), db.iter(), g.call2)))
			if len(da.S) <= 1 {
				c.eqL(got, lMap2(da.S, db.S, g.call2))
			}
		}},
		{"iterator.Flap", func(c *cas) {
			df, g := c.lopd(), c.fn()
			xs := c.ints(1)
			c.site("iterator.Flap")
			got := iterInts(iterator.Flap(iterFuncs(df, g))(xs[0]))
			c.site("iterator.FlatMap")
			c.eqLD(got, iterInts(defIterFlap(iterFuncs(df, g), xs[0])))
			if len(df.S) <= 1 {
				c.eqL(got, lMap(df.S, func(cv int) int { return g.call(cv, xs[0]) }))
			}
		}},
		{"iterator.Flap2", func(c *cas) {
			df, g := c.lopd(), c.fn()
			xs := c.ints(2)
			mk := func() fp.Iterator[fp.Func1[int, fp.Func1[int, int]]] { return iterator.Map(df.iter(), curry3(g)) }
			c.site("iterator.Flap2")
			got := iterInts(iterator.Flap2(mk())(xs[0])(xs[1]))
			c.site("iterator.FlatMap")
			c.eqLD(got, iterInts(defIterFlap(defIterAp(mk(), iterator.Of(xs[0])), xs[1])))
			if len(df.S) <= 1 {
				c.eqL(got, lMap(df.S, func(cv int) int { return g.call(cv, xs[0], xs[1]) }))
			}
		}},
		{"iterator.FlapMap", func(c *cas) {
			d, g := c.lopd(), c.fn()
			xs := c.ints(1)
			c.site("iterator.FlapMap")
			got := iterInts(iterator.FlapMap(g.call2, d.iter())(xs[0]))
			c.site("iterator.FlatMap")
			c.eqLD(got, iterInts(defIterFlap(defIterMap(d.iter(), curry2(g)), xs[0])))
			if len(d.S) <= 1 {
				c.eqL(got, lMap(d.S, func(a int) int { return g.call(a, xs[0]) }))
			}
		}},
		{"iterator.Method1", func(c *cas) {
			d, g := c.lopd(), c.fn()
			xs := c.ints(1)
			c.site("iterator.Method1")
			got := iterInts(iterator.Method1(d.iter(), g.call2)(xs[0]))
			c.site("iterator.FlatMap")
			c.eqLD(got, iterInts(defIterFlap(defIterMap(d.iter(), curry2(g)), xs[0])))
			if len(d.S) <= 1 {
				c.eqL(got, lMap(d.S, func(a int) int { return g.call(a, xs[0]) }))
			}
		}},
		{"iterator.Method2", func(c *cas) {
			d, g := c.lopd(), c.fn()
			xs := c.ints(2)
			c.site("iterator.Method2")
			got := iterInts(iterator.Method2(d.iter(), func(a, b, cc int) int { return g.call(a, b, cc) })(xs[0], xs[1]))
			c.site("iterator.FlatMap")
			c.eqLD(got, iterInts(defIterFlap(defIterAp(defIterMap(d.iter(), curry3(g)), iterator.Of(xs[0])), xs[1])))
			if len(d.S) <= 1 {
				c.eqL(got, lMap(d.S, func(a int) int { return g.call(a, xs[0], xs[1]) }))
			}
		}},
	}
	return append(cs, checksIteratorArity()...)
}

var _ = fmt.Sprint
