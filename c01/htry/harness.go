// C01 — try: generated monad functions and the ApplicativeN / ChainN builders (the transformer
// functions and try.Func/Pure/... live in package htryx so that both compile in parallel).
package htry

import (
	. "verif/c01/core"
)

func Parts() ([]Check, *Check, []string) {
	p := ProgramTry()
	return Concat(ChecksTry(), BuilderChecksTry(), Repeat(BuilderChecksTry(), "9", 3), Repeat(BuilderChecksTry(), "1", 3)), &p, BuilderHitsTry()
}
