// C01 — forks of StateT values (core/fork.go): one base program with k = 0..40 pending steps,
// several continuations bound to it through the binding combinators of statet, all kept, each run
// (from every probe state, twice) after the others were built, in PRNG order, more than once;
// plus the monad laws on such bases with both sides built from independent constructions.
package hstatet

import (
	"fmt"

	. "verif/c01/core"

	"github.com/csgura/fp"
	"github.com/csgura/fp/statet"
)

type smi = fp.StateT[int, int]

func ForkHarness() PkgHarness {
	seen := map[string]bool{}
	var extra []string
	for _, k := range stArmKinds {
		for _, h := range []string{ForkHit(k.Comb, ""), ForkHit(k.Comb, k.Pos)} {
			if !seen[h] {
				seen[h] = true
				extra = append(extra, h)
			}
		}
	}
	return PkgHarness{Prof: ProfStatet, Checks: []Check{{Name: "statet.fork", Run: forkStatet}}, Extra: extra}
}

func stmk(d Opd) smi { return BuildStatet(d, IdInt) }

func curryG(g Fnd) func(int) fp.Func1[int, int] {
	return func(cv int) fp.Func1[int, int] { return func(a int) int { return g.Call(cv, a) } }
}

// an operand that fails rarely (a base with up to 40 steps must not fail everywhere)
func forkOpd(c *Cas, pct int) Opd { return c.RawOpd(c.R.IntN(100) < pct) }

func forkKl(c *Cas) Kld { return Kld{1 + c.R.IntN(50), c.R.IntN(1000), forkOpd(c, 3)} }
func forkKn(c *Cas) Knd { return Knd{Fnd{c.R.IntN(1000)}, forkOpd(c, 3)} }

// stStep: one pending step of the base. Kind 0: FlatMap(m, K), 1: Map(m, F), 2: FlatMapConst(m, O),
// 3: Map2(m, O, G), 4: Map2(O, m, G), 5: MapWithState(m, G).
type stStep struct {
	Kind int
	F    F1d
	K    Kld
	G    Fnd
	O    Opd
}

type stBase struct {
	D     Opd
	Steps []stStep
}

func (b stBase) From(m smi) smi {
	for _, s := range b.Steps {
		switch s.Kind {
		case 0:
			m = statet.FlatMap(m, func(x int) smi { return stmk(s.K.At(x)) })
		case 1:
			m = statet.Map(m, s.F.Call)
		case 2:
			m = statet.FlatMapConst(m, stmk(s.O))
		case 3:
			m = statet.Map2(m, stmk(s.O), s.G.Call2)
		case 4:
			m = statet.Map2(stmk(s.O), m, s.G.Call2)
		default:
			m = statet.MapWithState(m, s.G.Call2)
		}
	}
	return m
}

func (b stBase) Build() smi { return b.From(stmk(b.D)) }

func withState(r Ref[int], g Fnd) Ref[int] {
	return func(s int) (int, int, int) {
		a, f, ns := r(s)
		if f != 0 {
			return 0, f, ns
		}
		return g.Call(ns, a), 0, ns
	}
}

func (b stBase) RefFrom(r Ref[int]) Ref[int] {
	for _, s := range b.Steps {
		switch s.Kind {
		case 0:
			r = RFlatMap(r, s.K.Ref)
		case 1:
			r = RMap(r, s.F.Call)
		case 2:
			o := s.O
			r = RFlatMap(r, func(int) Ref[int] { return RefInt(o) })
		case 3:
			r = RMap2(r, RefInt(s.O), s.G.Call2)
		case 4:
			r = RMap2(RefInt(s.O), r, s.G.Call2)
		default:
			r = withState(r, s.G)
		}
	}
	return r
}

func (b stBase) Ref() Ref[int] { return b.RefFrom(RefInt(b.D)) }

type stKind struct{ Comb, Pos string }

var stHandKinds = []stKind{
	{"statet.FlatMap", "operand"},                  // 0
	{"statet.Map", "operand"},                      // 1
	{"statet.Map2", "first-operand"},               // 2
	{"statet.Map2", "second-operand"},              // 3
	{"statet.Map2", "both-operands"},               // 4
	{"statet.Ap", "function-operand"},              // 5
	{"statet.Ap", "argument-operand"},              // 6
	{"statet.ApFunc", "returned-by-thunk"},         // 7
	{"statet.Flatten", "of-mapped-base"},           // 8
	{"statet.Zip", "first-operand"},                // 9
	{"statet.Zip", "second-operand"},               // 10
	{"statet.Zip3", "middle-operand"},              // 11
	{"statet.Replace", "operand"},                  // 12
	{"statet.FlatMapConst", "first-operand"},       // 13
	{"statet.FlatMapConst", "second-operand"},      // 14
	{"statet.Concat", "element"},                   // 15
	{"statet.MapWithState", "operand"},             // 16
	{"statet.MapT", "operand"},                     // 17
	{"statet.Lift", "argument"},                    // 18
	{"statet.LiftA2", "argument"},                  // 19
	{"statet.LiftM", "argument"},                   // 20
	{"statet.FlatMap2", "second-operand"},          // 21
	{"statet.Flap", "of-mapped-base"},              // 22
	{"statet.FlapMap", "operand"},                  // 23
	{"statet.Method1", "receiver"},                 // 24
	{"statet.FlatMethod1", "receiver"},             // 25
	{"statet.With", "operand"},                     // 26
	{"statet.UnZip", "of-mapped-base"},             // 27
	{"statet.Sequence", "element-twice"},           // 28
	{"statet.TraverseSeq", "used-inside-function"}, // 29
	{"statet.Compose", "used-inside-function"},     // 30
	{"statet.PeekState", "operand"},                // 31
	{"statet.FlatMap", "used-inside-continuation"}, // 32
	{"statet.StateT", "base-itself"},               // 33
}

// stArmKinds: the hand-written kinds, then MapN / LiftAN / FlatMapN / LiftMN for N = 3..9
// (zz_statet_fork.go, generated).
var stArmKinds = append(append([]stKind{}, stHandKinds[:len(stHandKinds)-1]...), append(append([]stKind{}, stArityKinds...), stHandKinds[len(stHandKinds)-1])...)

// arity decodes an arity kind: family 0..3, arity 3..9.
func stArity(kind int) (fam, n int, ok bool) {
	j := kind - (len(stHandKinds) - 1)
	if j < 0 || j >= len(stArityKinds) {
		return 0, 0, false
	}
	return j % 4, 3 + j/4, true
}

// positions of the shared base among the n operands: p, and for Sel = 1 also the next one
func (a stArm) shared(n int) (int, int) {
	p := a.X % n
	if a.Sel == 1 {
		return p, (p + 1) % n
	}
	return p, p
}

func (a stArm) other(j int) Opd {
	o := a.O
	if j%2 == 1 {
		o = a.O2
	}
	o.C0 = Md(o.C0 + 17*j)
	return o
}

type stArm struct {
	Kind   int
	F      F1d
	K      Kld
	N      Knd
	G      Fnd
	O, O2  Opd
	X, Sel int
}

func genStArm(c *Cas, kind int) stArm {
	return stArm{kind, F1d{1 + c.R.IntN(50), c.R.IntN(1000)}, forkKl(c), forkKn(c), Fnd{c.R.IntN(1000)}, forkOpd(c, 5), forkOpd(c, 5), c.R.IntN(1000), c.R.IntN(2)}
}

func (a stArm) tryOf(x int) fp.Try[int] {
	v, f, _ := a.N.At(x).At(0)
	if f != 0 {
		return fp.Failure[int](Errs[f])
	}
	return fp.Success(v)
}

func (a stArm) Apply(c *Cas, m smi) smi {
	c.Site(stArmKinds[a.Kind].Comb)
	g2 := a.G.Call2
	kl := func(x int) smi { return stmk(a.K.At(x)) }
	kn := func(x, y int) smi { return stmk(a.N.At(x, y)) }
	if fam, n, ok := stArity(a.Kind); ok {
		p, q := a.shared(n)
		ms := make([]smi, n)
		for j := range ms {
			if j == p || j == q {
				ms[j] = m
			} else {
				ms[j] = stmk(a.other(j))
			}
		}
		return forkArity(c, fam, n, ms, a.G, a.N)
	}
	switch a.Kind {
	case 0:
		return statet.FlatMap(m, kl)
	case 1:
		return statet.Map(m, a.F.Call)
	case 2:
		return statet.Map2(m, stmk(a.O), g2)
	case 3:
		return statet.Map2(stmk(a.O), m, g2)
	case 4:
		return statet.Map2(m, m, g2)
	case 5:
		return statet.Ap(statet.Map(m, curryG(a.G)), stmk(a.O))
	case 6:
		return statet.Ap(BuildStatet(a.O, curryG(a.G)), m)
	case 7:
		return statet.ApFunc(BuildStatet(a.O, curryG(a.G)), func() smi { return m })
	case 8:
		return statet.Flatten(statet.Map(m, kl))
	case 9:
		return statet.Map(statet.Zip(m, stmk(a.O)), func(t fp.Tuple2[int, int]) int { return a.G.Call(t.I1, t.I2) })
	case 10:
		return statet.Map(statet.Zip(stmk(a.O), m), func(t fp.Tuple2[int, int]) int { return a.G.Call(t.I1, t.I2) })
	case 11:
		return statet.Map(statet.Zip3(stmk(a.O), m, stmk(a.O2)), func(t fp.Tuple3[int, int, int]) int { return a.G.Call(t.I1, t.I2, t.I3) })
	case 12:
		return statet.Replace(m, a.X)
	case 13:
		return statet.FlatMapConst(m, stmk(a.O))
	case 14:
		return statet.FlatMapConst(stmk(a.O), m)
	case 15:
		if a.Sel == 0 {
			return statet.Concat(stmk(a.O), m)
		}
		return statet.Concat(m, stmk(a.O), m)
	case 16:
		return statet.MapWithState(m, g2)
	case 17:
		return statet.MapT(m, a.tryOf)
	case 18:
		return statet.Lift[int](a.F.Call)(m)
	case 19:
		return statet.LiftA2[int](g2)(m, stmk(a.O))
	case 20:
		return statet.LiftM(kl)(m)
	case 21:
		return statet.FlatMap2(stmk(a.O), m, kn)
	case 22:
		return statet.Flap(statet.Map(m, curryG(a.G)))(a.X)
	case 23:
		return statet.FlapMap(g2, m)(a.X)
	case 24:
		return statet.Method1(m, g2)(a.X)
	case 25:
		return statet.FlatMethod1(m, kn)(a.X)
	case 26:
		return statet.With(g2, m)(a.X)
	case 27:
		g1, gg := statet.UnZip(statet.Map(m, func(x int) fp.Tuple2[int, int] { return fp.Tuple2[int, int]{I1: x, I2: a.F.Call(x)} }))
		if a.Sel == 0 {
			return g1
		}
		return gg
	case 28:
		return statet.Map(statet.Sequence([]smi{m, stmk(a.O), m}), func(vs []int) int { return a.G.Call(vs...) })
	case 29:
		return statet.Map(statet.TraverseSeq(fp.Seq[int]{a.X, a.X + 1}, func(x int) smi { return statet.Map(m, func(y int) int { return a.G.Call(x, y) }) }),
			func(vs fp.Seq[int]) int { return a.G.Call(vs...) })
	case 30:
		return statet.Compose(func(x int) smi { return statet.Map(m, func(y int) int { return a.G.Call(x, y) }) }, kl)(a.X)
	case 31:
		return statet.PeekState(m, func(int) {})
	case 32:
		return statet.FlatMap(stmk(a.O), func(x int) smi { return statet.Map(m, func(y int) int { return a.G.Call(x, y) }) })
	}
	return m
}

func (a stArm) Ref(r Ref[int]) Ref[int] {
	o, o2 := RefInt(a.O), RefInt(a.O2)
	g2 := a.G.Call2
	mapG := func(x int) Ref[int] { return RMap(r, func(y int) int { return a.G.Call(x, y) }) }
	if fam, n, ok := stArity(a.Kind); ok {
		p, q := a.shared(n)
		rs := make([]Ref[int], n)
		for j := range rs {
			if j == p || j == q {
				rs[j] = r
			} else {
				rs[j] = RefInt(a.other(j))
			}
		}
		if fam < 2 {
			return RLiftA(a.G.Call, rs...)
		}
		return RLiftM(a.N.Ref, rs...)
	}
	switch a.Kind {
	case 0, 8, 20:
		return RFlatMap(r, a.K.Ref)
	case 1, 18:
		return RMap(r, a.F.Call)
	case 2, 5, 9, 19:
		return RMap2(r, o, g2)
	case 3, 6, 7, 10:
		return RMap2(o, r, g2)
	case 4:
		return RMap2(r, r, g2)
	case 11:
		return RLiftA(a.G.Call, o, r, o2)
	case 12:
		return RMap(r, func(int) int { return a.X })
	case 13:
		return RFlatMap(r, func(int) Ref[int] { return o })
	case 14:
		return RFlatMap(o, func(int) Ref[int] { return r })
	case 15:
		if a.Sel == 0 {
			return RFlatMap(o, func(int) Ref[int] { return r })
		}
		return RMap(RAll([]Ref[int]{r, o, r}), func(vs []int) int { return vs[2] })
	case 16:
		return withState(r, a.G)
	case 17:
		return func(s int) (int, int, int) {
			x, f, ns := r(s)
			if f != 0 {
				return 0, f, ns
			}
			v, f, _ := a.N.At(x).At(0)
			return v, f, ns
		}
	case 21:
		return RLiftM(a.N.Ref, o, r)
	case 22, 23, 24:
		return RMap(r, func(v int) int { return a.G.Call(v, a.X) })
	case 25:
		return RFlatMap(r, func(v int) Ref[int] { return a.N.Ref(v, a.X) })
	case 26:
		return RMap(r, func(v int) int { return a.G.Call(a.X, v) })
	case 27:
		if a.Sel == 0 {
			return r
		}
		return RMap(r, a.F.Call)
	case 28:
		return RLiftA(a.G.Call, r, o, r)
	case 29:
		return RMap(RTraverse([]int{a.X, a.X + 1}, mapG), func(vs []int) int { return a.G.Call(vs...) })
	case 30:
		return RFlatMap(mapG(a.X), a.K.Ref)
	case 32:
		return RFlatMap(o, mapG)
	}
	return r
}

func forkStatet(c *Cas) {
	k := c.ForkPending()
	b := stBase{D: forkOpd(c, 8)}
	for i := 0; i < k; i++ {
		b.Steps = append(b.Steps, stStep{c.R.IntN(6), F1d{1 + c.R.IntN(50), c.R.IntN(1000)}, forkKl(c), Fnd{c.R.IntN(1000)}, forkOpd(c, 3)})
	}
	c.Shape(fmt.Sprintf("%s+%d", b.D.Shape(c.P), k))
	c.Note("base %+v with %d pending steps %+v", b.D, k, b.Steps)
	obs := func(v smi) func() string { return func() string { return ObsStatet(v, ShowInt) } }
	m := b.Build() // the shared base
	nk := len(stArmKinds)
	var arms []ForkArm
	var specs []stArm
	var vals []smi
	for _, kd := range c.ForkPick(nk, 2+c.R.IntN(4)) {
		a := genStArm(c, kd)
		v := a.Apply(c, m)
		specs, vals = append(specs, a), append(vals, v)
		arms = append(arms, ForkArm{Comb: stArmKinds[kd].Comb, Pos: stArmKinds[kd].Pos, Desc: fmt.Sprintf("%+v", a), Obs: obs(v),
			Fresh: func() string { return ObsStatet(a.Apply(c, b.Build()), ShowInt) }, Want: c.Obs(a.Ref(b.Ref()))})
	}
	if c.R.IntN(2) == 0 && stArmKinds[specs[0].Kind].Pos != "base-itself" {
		s0, d0 := specs[0], vals[0]
		for _, kd := range c.ForkPick(nk-1, 2) {
			a := genStArm(c, kd)
			v := a.Apply(c, d0)
			arms = append(arms, ForkArm{Comb: stArmKinds[kd].Comb, Pos: stArmKinds[kd].Pos, Desc: fmt.Sprintf("bound to arm 0: %+v", a), Obs: obs(v),
				Fresh: func() string { return ObsStatet(a.Apply(c, s0.Apply(c, b.Build())), ShowInt) }, Want: c.Obs(a.Ref(s0.Ref(b.Ref())))})
		}
		c.W.Add("fork.second-level.statet", 1)
	}
	c.RunForks(k, arms)

	// the laws on a program with k pending steps; every side from its own construction
	k1, k2 := forkKl(c), forkKl(c)
	a := c.IntZ()
	c.Note("laws: k1 %+v k2 %+v a=%d", k1, k2, a)
	f := func(x int) smi { return stmk(k1.At(x)) }
	g := func(x int) smi { return stmk(k2.At(x)) }
	ob := func(v smi) string { return ObsStatet(v, ShowInt) }
	unit := func(x int) smi { return statet.Pure[int](x) }
	fk := func(x int) smi { return b.From(unit(x)) }
	c.Site("statet.FlatMap")
	li := ob(statet.FlatMap(unit(a), fk))
	c.ForkLaw("statet.FlatMap", "left-identity", k, li, ob(fk(a)))
	c.ForkLaw("statet.FlatMap", "left-identity-vs-reference", k, li, c.Obs(b.RefFrom(RPure(a))))
	ri := ob(statet.FlatMap(b.Build(), unit))
	c.ForkLaw("statet.FlatMap", "right-identity", k, ri, ob(b.Build()))
	c.ForkLaw("statet.FlatMap", "right-identity-vs-reference", k, ri, c.Obs(b.Ref()))
	as1 := ob(statet.FlatMap(statet.FlatMap(b.Build(), f), g))
	as2 := ob(statet.FlatMap(b.Build(), func(x int) smi { return statet.FlatMap(f(x), g) }))
	c.ForkLaw("statet.FlatMap", "associativity", k, as1, as2)
	c.ForkLaw("statet.FlatMap", "associativity-vs-reference", k, as1, c.Obs(RFlatMap(RFlatMap(b.Ref(), k1.Ref), k2.Ref)))
}
