// C01 — hand-written extras of statet that are defined through FlatMap and unit.
package hstatet

import (
	. "verif/c01/core"

	"github.com/csgura/fp"
	"github.com/csgura/fp/statet"
)

func Harness() PkgHarness {
	p := ProgramStatet()
	return PkgHarness{Prof: ProfStatet, Checks: Concat(ChecksStatet(), ChecksStatetExtras()), Program: &p}
}

// ---- statet extras ---------------------------------------------------------------------------------

func ChecksStatetExtras() []Check {
	type MI = fp.StateT[int, int]
	mk := func(d Opd) MI { return BuildStatet(d, IdInt) }
	ob := func(v MI) string { return ObsStatet(v, ShowInt) }
	return []Check{
		{"statet.FlatMapConst", func(c *Cas) {
			ds := c.Opds(2)
			c.Site("statet.FlatMapConst")
			got := statet.FlatMapConst(mk(ds[0]), mk(ds[1]))
			c.Eq(ob(got), c.Obs(RFlatMap(RefInt(ds[0]), func(int) Ref[int] { return RefInt(ds[1]) })))
		}},
		{"statet.Concat", func(c *Cas) {
			n := 1 + c.R.IntN(4)
			ds := c.Opds(n)
			ms := make([]MI, n)
			for i := range ds {
				ms[i] = mk(ds[i])
			}
			c.Site("statet.Concat")
			got := statet.Concat(ms[0], ms[1:]...)
			c.Eq(ob(got), c.Obs(RMap(RAll(Refs(ds)), func(vs []int) int { return vs[len(vs)-1] })))
		}},
		{"statet.WithState", func(c *Cas) {
			k := c.Kl()
			c.Site("statet.WithState")
			got := statet.WithState(func(s int) MI { return mk(k.At(s)) })
			c.Eq(ob(got), c.Obs(func(s int) (int, int, int) { return k.Ref(s)(s) }))
		}},
		{"statet.ApTry", func(c *Cas) {
			d := c.Opd()
			g := c.Fn()
			td := c.RawOpd(c.R.IntN(100) < 30)
			td.C1, td.D, td.E = 0, 0, 0
			if td.M > 1 {
				td.M = 1
			}
			c.Note("try operand %+v", td)
			c.Site("statet.ApTry")
			got := statet.ApTry(BuildStatet(d, func(cv int) fp.Func1[int, int] { return func(a int) int { return g.Call(cv, a) } }), BuildTry(td, IdInt))
			c.Eq(ob(got), c.Obs(func(s int) (int, int, int) {
				cv, k, ns := RefInt(d)(s)
				if k != 0 {
					return 0, k, ns
				}
				a, k, _ := td.At(0)
				if k != 0 {
					return 0, k, ns
				}
				return g.Call(cv, a), 0, ns
			}))
		}},
		{"statet.ApOption", func(c *Cas) {
			d := c.Opd()
			g := c.Fn()
			x := c.Ints(1)[0]
			c.Site("statet.ApOption")
			got := statet.ApOption(BuildStatet(d, func(cv int) fp.Func1[int, int] { return func(a int) int { return g.Call(cv, a) } }), OptOf(x))
			c.Eq(ob(got), c.Obs(func(s int) (int, int, int) {
				cv, k, ns := RefInt(d)(s)
				if k != 0 {
					return 0, k, ns
				}
				o := RoptOf(x)
				if !o.Ok {
					return 0, FailOptionEmpty, ns
				}
				return g.Call(cv, o.V), 0, ns
			}))
		}},
		{"statet.MapT", func(c *Cas) {
			d := c.Opd()
			k := c.Kn()
			k.O.C1, k.O.D = 0, 0
			c.Site("statet.MapT")
			got := statet.MapT(mk(d), func(a int) fp.Try[int] {
				v, f, _ := k.At(a).At(0)
				if f != 0 {
					return fp.Failure[int](Errs[f])
				}
				return fp.Success(v)
			})
			c.Eq(ob(got), c.Obs(func(s int) (int, int, int) {
				a, f, ns := RefInt(d)(s)
				if f != 0 {
					return 0, f, ns
				}
				v, f, _ := k.At(a).At(0)
				return v, f, ns
			}))
		}},
		{"statet.MapWithState", func(c *Cas) {
			d := c.Opd()
			g := c.Fn()
			c.Site("statet.MapWithState")
			got := statet.MapWithState(mk(d), g.Call2)
			c.Eq(ob(got), c.Obs(func(s int) (int, int, int) {
				a, f, ns := RefInt(d)(s)
				if f != 0 {
					return 0, f, ns
				}
				return g.Call(ns, a), 0, ns
			}))
		}},
		{"statet.MapWithStateT", func(c *Cas) {
			d := c.Opd()
			k := c.Kn()
			c.Site("statet.MapWithStateT")
			got := statet.MapWithStateT(mk(d), func(s, a int) fp.Try[int] {
				v, f, _ := k.At(s, a).At(0)
				if f != 0 {
					return fp.Failure[int](Errs[f])
				}
				return fp.Success(v)
			})
			c.Eq(ob(got), c.Obs(func(s int) (int, int, int) {
				a, f, ns := RefInt(d)(s)
				if f != 0 {
					return 0, f, ns
				}
				v, f, _ := k.At(ns, a).At(0)
				return v, f, ns
			}))
		}},
	}
}
