// C01 — hand-written extras of option.
package hoption

import (
	. "verif/c01/core"

	"github.com/csgura/fp"
	"github.com/csgura/fp/option"
)

func Harness() PkgHarness {
	p := ProgramOption()
	return PkgHarness{Prof: ProfOption, Checks: Concat(ChecksOption(), ChecksOptionExtras(), BuilderChecksOption(), Repeat(BuilderChecksOption(), "9", 3), Repeat(BuilderChecksOption(), "1", 3)), Program: &p, Extra: BuilderHitsOption()}
}

func ChecksOptionExtras() []Check {
	return []Check{
		{"option.ComposePure", func(c *Cas) {
			f := c.F1()
			a := c.Ints(1)[0]
			c.Shape("pure")
			c.Site("option.ComposePure")
			c.Eq(ObsOption(option.ComposePure(f.Call)(a), ShowInt), c.Obs(RPure(f.Call(a))))
		}},
		{"option.Pure1", func(c *Cas) {
			f := c.F1()
			a := c.Ints(1)[0]
			c.Shape("pure")
			c.Site("option.Pure1")
			c.Eq(ObsOption(option.Pure1(f.Call)(a), ShowInt), c.Obs(RPure(f.Call(a))))
		}},
		{"option.Pure0", func(c *Cas) {
			a := c.Ints(1)[0]
			c.Shape("pure")
			c.Site("option.Pure0")
			c.Eq(ObsOption(option.Pure0(func() int { return a })(fp.Unit{}), ShowInt), c.Obs(RPure(a)))
		}},
	}
}
