// C01 — reference semantics (plain Go, none of the library), operand / function descriptors
// and the per-case context shared by all package harnesses.
package main

import (
	"errors"
	"fmt"
	"math/rand/v2"
	"strconv"
	"strings"

	"verif/vrt"

	"github.com/csgura/fp"
)

// ---- value domain ---------------------------------------------------------------------

const modP = 1000003

func md(x int) int {
	x %= modP
	if x < 0 {
		x += modP
	}
	return x
}

// ---- injected failures ------------------------------------------------------------------

type sentinel struct{ name string }

func (s *sentinel) Error() string { return s.name }

// errs[k] is the k-th injected error (k>=1). Identity is pointer identity.
var errs = []error{nil, &sentinel{"err1"}, &sentinel{"err2"}, &sentinel{"err3"}, &sentinel{"err4"}}

const failOptionEmpty = 9 // fp.ErrOptionEmpty (try.FromOption on None)

func errIdx(err error) string {
	if err == nil {
		return "nil-error"
	}
	for k := 1; k < len(errs); k++ {
		if err == errs[k] && errors.Is(err, errs[k]) {
			return strconv.Itoa(k)
		}
	}
	if err == error(fp.ErrOptionEmpty) {
		return strconv.Itoa(failOptionEmpty)
	}
	return "?(" + err.Error() + ")"
}

// lft is the Left payload used for Either.
type lft struct{ K int }

// ---- profiles ---------------------------------------------------------------------------

type profile struct {
	pkg      string
	stateful bool
	nfail    int
	probes   []int
}

var (
	profOption = &profile{"option", false, 1, []int{0}}
	profTry    = &profile{"try", false, 4, []int{0}}
	profEither = &profile{"either", false, 3, []int{0}}
	profStatet = &profile{"statet", true, 4, []int{0, 1, 2, 7}}
)

// ---- reference monad --------------------------------------------------------------------
//
// One reference covers Option, Try, Either and StateT: a computation from a state to a value,
// a failure index (0 = none) and the next state. The stateless effects ignore the state.
// A failing computation still reports the state reached (StateT = s -> (Try a, s)).

type ref[T any] func(s int) (T, int, int)

func rPure[T any](v T) ref[T] { return func(s int) (T, int, int) { return v, 0, s } }

func rFail[T any](k int) ref[T] {
	return func(s int) (T, int, int) {
		var z T
		return z, k, s
	}
}

func rFlatMap[A, B any](m ref[A], f func(A) ref[B]) ref[B] {
	return func(s int) (B, int, int) {
		a, k, ns := m(s)
		if k != 0 {
			var z B
			return z, k, ns
		}
		return f(a)(ns)
	}
}

func rMap[A, B any](m ref[A], f func(A) B) ref[B] {
	return func(s int) (B, int, int) {
		a, k, ns := m(s)
		if k != 0 {
			var z B
			return z, k, ns
		}
		return f(a), 0, ns
	}
}

// rAll runs the computations left to right and collects their values.
func rAll[T any](ms []ref[T]) ref[[]T] {
	return func(s int) ([]T, int, int) {
		out := make([]T, 0, len(ms))
		for _, m := range ms {
			v, k, ns := m(s)
			s = ns
			if k != 0 {
				return nil, k, s
			}
			out = append(out, v)
		}
		return out, 0, s
	}
}

func rLiftA(f func(...int) int, ms ...ref[int]) ref[int] {
	return rMap(rAll(ms), func(vs []int) int { return f(vs...) })
}

func rLiftM(f func(...int) ref[int], ms ...ref[int]) ref[int] {
	return rFlatMap(rAll(ms), func(vs []int) ref[int] { return f(vs...) })
}

func rMap2[A, B, C any](a ref[A], b ref[B], f func(A, B) C) ref[C] {
	return func(s int) (C, int, int) {
		var z C
		x, k, s1 := a(s)
		if k != 0 {
			return z, k, s1
		}
		y, k, s2 := b(s1)
		if k != 0 {
			return z, k, s2
		}
		return f(x, y), 0, s2
	}
}

// rTraverse: for each element in order run fn(a); collect.
func rTraverse[A, B any](as []A, fn func(A) ref[B]) ref[[]B] {
	return func(s int) ([]B, int, int) {
		out := make([]B, 0, len(as))
		for _, a := range as {
			v, k, ns := fn(a)(s)
			s = ns
			if k != 0 {
				return nil, k, s
			}
			out = append(out, v)
		}
		return out, 0, s
	}
}

func rFoldM[A, B any](as []A, zero B, f func(B, A) ref[B]) ref[B] {
	return func(s int) (B, int, int) {
		acc := zero
		for _, a := range as {
			v, k, ns := f(acc, a)(s)
			s = ns
			if k != 0 {
				var z B
				return z, k, s
			}
			acc = v
		}
		return acc, 0, s
	}
}

func rKleisli(ks []func(int) ref[int]) func(int) ref[int] {
	return func(a int) ref[int] {
		return func(s int) (int, int, int) {
			v := a
			for _, k := range ks {
				nv, f, ns := k(v)(s)
				s = ns
				if f != 0 {
					return 0, f, s
				}
				v = nv
			}
			return v, 0, s
		}
	}
}

func obsRef[T any](p *profile, m ref[T], show func(T) string) string {
	var b strings.Builder
	for i, s := range p.probes {
		if i > 0 {
			b.WriteByte(';')
		}
		v, k, ns := m(s)
		if k != 0 {
			b.WriteString("F" + strconv.Itoa(k))
		} else {
			b.WriteString("ok(" + show(v) + ")")
		}
		b.WriteString("@" + strconv.Itoa(ns))
	}
	return b.String()
}

// ---- operand descriptors ----------------------------------------------------------------

// opd describes a monadic operand: value md(C0+C1*s), next state s+D, failing with sentinel K
// iff M>0 and md(s+E)%M==0. V selects among equivalent library constructors.
type opd struct {
	C0, C1, D, M, E, K, V int
}

func (d opd) at(s int) (v, k, ns int) {
	ns = s + d.D
	if d.M > 0 && md(s+d.E)%d.M == 0 {
		return 0, d.K, ns
	}
	return md(d.C0 + d.C1*s), 0, ns
}

func (d opd) shape(p *profile) string {
	v := "/v" + strconv.Itoa(d.V%3)
	if !p.stateful {
		if _, k, _ := d.at(0); k != 0 {
			return "F" + strconv.Itoa(k) + v
		}
		return "ok" + v
	}
	switch {
	case d.M == 1:
		return "fail" + v
	case d.M > 1:
		return "mixed"
	case d.C1 == 0 && d.D == 0:
		return "pure" + v
	}
	return "st"
}

func refOf[T any](d opd, conv func(int) T) ref[T] {
	return func(s int) (T, int, int) {
		v, k, ns := d.at(s)
		if k != 0 {
			var z T
			return z, k, ns
		}
		return conv(v), 0, ns
	}
}

func refInt(d opd) ref[int] { return refOf(d, idInt) }

func idInt(x int) int { return x }

// ---- function descriptors -----------------------------------------------------------------

type f1d struct{ A, B int }

func (f f1d) call(x int) int { return md(x*f.A + f.B) }

// fnd: position-sensitive n-ary function.
type fnd struct{ S int }

func (f fnd) call(as ...int) int {
	h := f.S
	for i, a := range as {
		h = md(h*31 + a*(i+2) + i)
	}
	return h
}
func (f fnd) call2(a, b int) int { return f.call(a, b) }

// kld: x -> operand.
type kld struct {
	A, B int
	O    opd
}

func (k kld) at(x int) opd {
	o := k.O
	o.C0 = md(x*k.A + k.B)
	o.E += x
	return o
}
func (k kld) ref(x int) ref[int] { return refInt(k.at(x)) }

// knd: (a1..an) -> operand.
type knd struct {
	F fnd
	O opd
}

func (k knd) at(as ...int) opd {
	o := k.O
	o.C0 = k.F.call(as...)
	for _, a := range as {
		o.E += a
	}
	return o
}
func (k knd) ref(as ...int) ref[int] { return refInt(k.at(as...)) }

// ---- small sequences as payloads / traversal inputs -----------------------------------------

// seqOf derives a small sequence from c; the length cycles through nil, empty, 1, 2, 3, 5.
func seqOf(c int) fp.Seq[int] {
	switch c % 6 {
	case 0:
		return nil
	case 1:
		return fp.Seq[int]{}
	}
	n := []int{0, 0, 1, 2, 3, 5}[c%6]
	out := make(fp.Seq[int], n)
	for i := range out {
		out[i] = md(c/6 + i*7)
	}
	return out
}

func seqShape(s []int) string {
	switch {
	case s == nil:
		return "nil"
	case len(s) == 0:
		return "empty"
	case len(s) == 1:
		return "single"
	}
	return "longer"
}

// ---- show -------------------------------------------------------------------------------

func showInt(x int) string     { return strconv.Itoa(x) }
func showBool(x bool) string   { return strconv.FormatBool(x) }
func showStr(x string) string  { return strconv.Quote(x) }
func showInts(x []int) string  { return fmt.Sprint([]int(append([]int{}, x...))) }
func showSeq(x fp.Seq[int]) string { return showInts(x) }
func showIter(x fp.Iterator[int]) string {
	return showInts(x.ToSeq())
}
func showT2(x fp.Tuple2[int, int]) string { return fmt.Sprintf("(%d,%d)", x.I1, x.I2) }
func showT3(x fp.Tuple3[int, int, int]) string {
	return fmt.Sprintf("(%d,%d,%d)", x.I1, x.I2, x.I3)
}
func showOptInt(x fp.Option[int]) string {
	if x.IsDefined() {
		return "some(" + strconv.Itoa(x.Get()) + ")"
	}
	return "none"
}

type t2 struct{ A, B int }
type t3 struct{ A, B, C int }

func showRT2(x t2) string { return fmt.Sprintf("(%d,%d)", x.A, x.B) }
func showRT3(x t3) string { return fmt.Sprintf("(%d,%d,%d)", x.A, x.B, x.C) }

// reference option (v, ok)
type ropt struct {
	V  int
	Ok bool
}

func showROpt(x ropt) string {
	if x.Ok {
		return "some(" + strconv.Itoa(x.V) + ")"
	}
	return "none"
}

// ---- per-case context -----------------------------------------------------------------------

type check struct {
	name string
	run  func(c *cas)
}

type cas struct {
	w      *vrt.W
	i      int
	r      *rand.Rand
	p      *profile
	name   string
	rot    int // how many times this check has been visited in this batch (deterministic rotation)
	shapes []string
	wit    []string
	mode   int
	nopd   int
	failAt int
	prog   *expr
}

func (c *cas) site(s string) { c.w.Site(s) }

func (c *cas) note(format string, a ...any) {
	if len(c.wit) < 64 {
		c.wit = append(c.wit, fmt.Sprintf(format, a...))
	}
}

func (c *cas) witness() any {
	m := map[string]any{"check": c.name, "inputs": c.wit, "shapes": c.shapes}
	if c.prog != nil {
		m["program"] = c.prog
	}
	return m
}

func (c *cas) shape(s string) { c.shapes = append(c.shapes, s) }

func (c *cas) shapeHash(s string) { c.shapes = append(c.shapes, fmt.Sprintf("#%x", vrt.Hash64(s))) }

// rawOpd draws an operand descriptor for the profile (no bookkeeping).
func (c *cas) rawOpd(fail bool) opd {
	r, p := c.r, c.p
	d := opd{C0: r.IntN(1000), V: r.IntN(6)}
	if !p.stateful {
		if fail {
			d.M, d.K = 1, 1+r.IntN(p.nfail)
		}
		return d
	}
	d.K = 1 + r.IntN(p.nfail)
	switch x := r.IntN(20); {
	case fail && x < 10:
		d.M, d.D = 1, r.IntN(3)
	case fail:
		d.M, d.E, d.C1, d.D = 2+r.IntN(2), r.IntN(3), r.IntN(4), r.IntN(6)-2
	case x < 5: // pure
	default:
		d.C1, d.D = r.IntN(4), r.IntN(6)-2
	}
	return d
}

// opd draws the next operand of the case. Failure placement follows the case mode:
// 0 = all succeed, 1 = a single failing operand, 2 = independent 35 %.
func (c *cas) opd() opd {
	fail := false
	switch c.mode {
	case 1:
		fail = c.nopd == c.failAt
	case 2:
		fail = c.r.IntN(100) < 35
	}
	c.nopd++
	d := c.rawOpd(fail)
	c.shape(d.shape(c.p))
	c.note("operand %+v", d)
	return d
}

func (c *cas) opds(n int) []opd {
	out := make([]opd, n)
	for i := range out {
		out[i] = c.opd()
	}
	return out
}

func (c *cas) f1() f1d {
	f := f1d{1 + c.r.IntN(50), c.r.IntN(1000)}
	c.note("f1 %+v", f)
	return f
}

func (c *cas) fn() fnd {
	f := fnd{c.r.IntN(1000)}
	c.note("fn %+v", f)
	return f
}

func (c *cas) kl() kld {
	k := kld{1 + c.r.IntN(50), c.r.IntN(1000), c.rawOpd(c.r.IntN(100) < 30)}
	if !c.p.stateful && k.O.M == 1 && c.r.IntN(2) == 0 {
		k.O.M = 2 + c.r.IntN(2) // fails for part of its domain
	}
	c.shape("k:" + k.O.shape(c.p))
	c.note("kleisli %+v", k)
	return k
}

func (c *cas) kn() knd {
	k := knd{fnd{c.r.IntN(1000)}, c.rawOpd(c.r.IntN(100) < 30)}
	if !c.p.stateful && k.O.M == 1 && c.r.IntN(2) == 0 {
		k.O.M = 2 + c.r.IntN(2)
	}
	c.shape("k:" + k.O.shape(c.p))
	c.note("kleisliN %+v", k)
	return k
}

func (c *cas) ints(n int) []int {
	out := make([]int, n)
	for i := range out {
		out[i] = c.r.IntN(1000)
	}
	c.note("args %v", out)
	return out
}

func (c *cas) seq() fp.Seq[int] {
	s := seqOf(c.r.IntN(6000))
	c.shape("seq:" + seqShape(s))
	c.note("seq %v nil=%v", []int(s), s == nil)
	return s
}

func refs(ds []opd) []ref[int] {
	out := make([]ref[int], len(ds))
	for i, d := range ds {
		out[i] = refInt(d)
	}
	return out
}

func (c *cas) obs(m ref[int]) string { return obsRef(c.p, m, showInt) }

// eq: library result vs plain-Go reference.
func (c *cas) eq(got, want string) bool {
	if got != want {
		c.w.Violation(c.i, c.name+"/differs-from-reference",
			fmt.Sprintf("%s returned %s, the reference semantics of its definition gives %s\ninputs: %s", c.name, got, want, strings.Join(c.wit, " ; ")), c.witness())
		return false
	}
	return true
}

// eqDef: library result vs the textbook definition instantiated with the library's own FlatMap / unit.
func (c *cas) eqDef(got, def string) bool {
	if got != def {
		c.w.Violation(c.i, c.name+"/differs-from-FlatMap-definition",
			fmt.Sprintf("%s returned %s, its definition written with the package's own FlatMap and unit returns %s\ninputs: %s", c.name, got, def, strings.Join(c.wit, " ; ")), c.witness())
		return false
	}
	return true
}

func (c *cas) law(law, lhs, rhs string) bool {
	if lhs != rhs {
		c.w.Violation(c.i, c.name+"/"+law,
			fmt.Sprintf("%s: %s law broken: lhs %s, rhs %s\ninputs: %s", c.name, law, lhs, rhs, strings.Join(c.wit, " ; ")), c.witness())
		return false
	}
	return true
}

func runCheck(w *vrt.W, i int, p *profile, ck check, rot int) {
	r := w.Rand(i)
	c := &cas{w: w, i: i, r: r, p: p, name: ck.name, rot: rot}
	c.mode = r.IntN(3)
	c.failAt = r.IntN(3)
	if r.IntN(4) == 0 {
		c.failAt = r.IntN(9)
	}
	w.Begin(i, ck.name)
	w.Guard(i, c.witness, func() { ck.run(c) })
	w.Done(i)
	w.Hit(ck.name)
	w.Add("cases."+p.pkg, 1)
	w.Distinct(ck.name + "|" + strings.Join(c.shapes, ","))
	if w.WantSample() && i%97 == 5 {
		w.Sample(c.witness())
	}
}

func mapInts(s []int, f func(int) int) []int {
	out := make([]int, len(s))
	for i, v := range s {
		out[i] = f(v)
	}
	return out
}
