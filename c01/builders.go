// C01 — runtime support for the generated ApplicativeN / ChainN builder checks: operand
// bookkeeping and the plain-Go reference of the builder semantics.
//
// Reference: a builder carries h (the arguments applied so far, most recent first, as an
// effect) and the argument list (as an effect). Applying an effectful argument a gives
// h' = a >>= \x -> h >>= \hs -> unit (x:hs) and args' = args >>= \as -> a >>= \x -> unit (as++[x]);
// FlatMap/Map/HList* first derive a from h. The result is args >>= unit . fn.
package main

import (
	"reflect"
	"strconv"
)

type builderCase struct {
	c     *cas
	n     int
	chain bool
	g     fnd
	ds    []opd
	os    []opd
	xs    []int
	ks    []kld
	fs    []f1d
	rh    ref[[]int]
	ra    ref[[]int]
}

func newBuilderCase(c *cas, n int, chain bool) *builderCase {
	b := &builderCase{c: c, n: n, chain: chain}
	b.g = c.fn()
	b.ds = c.opds(n)
	b.xs = c.ints(n)
	b.os = make([]opd, n)
	b.ks = make([]kld, n)
	b.fs = make([]f1d, n)
	for i := 0; i < n; i++ {
		b.os[i] = opd{C0: c.r.IntN(1000), V: c.r.IntN(6), K: 1}
		if c.r.IntN(100) < 25 {
			b.os[i].M = 1
		}
		b.ks[i] = c.kl()
		b.fs[i] = c.f1()
	}
	c.note("option operands %+v", b.os)
	b.rh = rPure([]int(nil))
	b.ra = rPure([]int(nil))
	return b
}

// sel picks the method of step j: a deterministic rotation over the visit number of the check.
func (b *builderCase) sel(j, nMethods int) int { return (b.c.rot + j*3) % nMethods }

func (b *builderCase) step(j int, site string) {
	b.c.site(site)
	b.c.w.Hit(site)
	b.c.shape(site[len(b.c.p.pkg)+1:])
}

func head(hs []int) int {
	if len(hs) > 0 {
		return hs[0]
	}
	return 0
}

func hashInts(hs []int) int { return fnd{7}.call(hs...) }

// headVal: the HT handed to MonadChain.FlatMap/Map is hlist.Nil before the first argument.
func headVal[T any](h T) int {
	if v, ok := any(h).(int); ok {
		return v
	}
	return 0
}

// hlistHash walks an hlist.Cons[int, ...] (most recent argument first) and hashes its elements.
func hlistHash(h any) int {
	var out []int
	v := reflect.ValueOf(h)
	for v.Kind() == reflect.Struct && v.NumField() == 2 {
		out = append(out, int(v.Field(0).Int()))
		v = v.Field(1)
	}
	return hashInts(out)
}

func (b *builderCase) ap(a ref[int]) {
	rh, ra := b.rh, b.ra
	b.rh = rMap2(a, rh, func(x int, hs []int) []int { return append([]int{x}, hs...) })
	b.ra = rMap2(ra, a, func(as []int, x int) []int { return append(append([]int{}, as...), x) })
}

func refOptAsTry(d opd) ref[int] {
	return func(s int) (int, int, int) {
		v, k, _ := d.at(0)
		if k != 0 {
			return 0, failOptionEmpty, s
		}
		return v, 0, s
	}
}

func (b *builderCase) apM(j int)    { b.ap(refInt(b.ds[j-1])) }
func (b *builderCase) apPure(j int) { b.ap(rPure(b.xs[j-1])) }
func (b *builderCase) apOpt(j int)  { b.ap(refOptAsTry(b.os[j-1])) }
func (b *builderCase) apMFunc(j int) {
	b.ap(rFlatMap(b.rh, func([]int) ref[int] { return refInt(b.ds[j-1]) }))
}
func (b *builderCase) apOptFunc(j int) {
	b.ap(rFlatMap(b.rh, func([]int) ref[int] { return refOptAsTry(b.os[j-1]) }))
}
func (b *builderCase) apPureFunc(j int) {
	b.ap(rMap(b.rh, func([]int) int { return b.xs[j-1] }))
}
func (b *builderCase) flatMap(j int) {
	b.ap(rFlatMap(b.rh, func(hs []int) ref[int] { return b.ks[j-1].ref(head(hs)) }))
}
func (b *builderCase) mapH(j int) {
	b.ap(rMap(b.rh, func(hs []int) int { return b.fs[j-1].call(head(hs)) }))
}
func (b *builderCase) hlistFlatMap(j int) {
	b.ap(rFlatMap(b.rh, func(hs []int) ref[int] { return b.ks[j-1].ref(hashInts(hs)) }))
}
func (b *builderCase) hlistMap(j int) {
	b.ap(rMap(b.rh, func(hs []int) int { return b.fs[j-1].call(hashInts(hs)) }))
}

func (b *builderCase) result() ref[int] {
	return rMap(b.ra, func(as []int) int { return b.g.call(as...) })
}

var _ = strconv.Itoa
