// C01 — re-run and result persistence.
//
// A value of a "program-valued" monad (StateT, fn0, fn1, lazy.Eval, a lazy fp.List, a function
// producing an Iterator) is a description that may be executed any number of times; the result
// of one execution must not depend on, or be changed by, another one. Every observer therefore
//   - executes the value several times (the same and different initial states / arguments),
//   - takes a snapshot (string) of every result at once — the snapshots of the first pass are
//     what the caller compares with the reference —,
//   - checks that a run repeated on the same input returns what the first run returned
//     (key <check>/rerun-differs-from-first-run), and
//   - keeps every result AS RETURNED (slices / Seq / maps are not copied) and shows all of them
//     again after all later runs: a snapshot that changed means that a later run wrote into the
//     storage of an earlier result (key <check>/earlier-result-changed-by-rerun).
//
// Rerun does the same for a combinator of a value monad called twice on the very same operands.
package core

import (
	"fmt"
	"reflect"
	"strings"
)

// Cur is the case being executed. Cases run one after the other on the worker goroutine (vrt
// calls Config.Run once per worker process); nothing else reads or writes it.
var Cur *Cas

const (
	KeyChanged = "earlier-result-changed-by-rerun"
	KeyRerun   = "rerun-differs-from-first-run"
)

func (c *Cas) Fail(key, format string, a ...any) {
	c.W.Violation(c.I, c.Name+"/"+key,
		fmt.Sprintf("%s: ", c.Name)+fmt.Sprintf(format, a...)+"\ninputs: "+strings.Join(c.Wit, " ; "), c.Witness())
}

// Reshowable: a result of this type can be shown any number of times (an Iterator is consumed by
// showing it).
func Reshowable[T any]() bool {
	t := reflect.TypeOf((*T)(nil)).Elem()
	return !strings.Contains(t.String(), "fp.Iterator[")
}

// sliceLike: number of elements if v is (or directly contains, one struct level deep) a non-empty
// slice or map; used only for the evidence counters.
func sliceLen(v reflect.Value, depth int) int {
	if !v.IsValid() {
		return 0
	}
	switch v.Kind() {
	case reflect.Slice, reflect.Map:
		return v.Len()
	case reflect.Interface, reflect.Pointer:
		if v.IsNil() {
			return 0
		}
		return sliceLen(v.Elem(), depth)
	case reflect.Struct:
		if depth == 0 {
			return 0
		}
		n := 0
		for i := 0; i < v.NumField(); i++ {
			n += sliceLen(v.Field(i), depth-1)
		}
		return n
	}
	return 0
}

func SliceLen(v any) int { return sliceLen(reflect.ValueOf(v), 3) }

// Kept is a list of results kept as returned together with the snapshot taken right after the run.
type Kept[R any] struct {
	What []string
	Res  []R
	Snap []string
}

func (k *Kept[R]) Add(what string, r R, snap string) {
	k.What = append(k.What, what)
	k.Res = append(k.Res, r)
	k.Snap = append(k.Snap, snap)
}

// Recheck shows every kept result again (after all runs) and compares with its snapshot.
func (k *Kept[R]) Recheck(c *Cas, show func(R) string) {
	if c == nil {
		return
	}
	pkg := c.P.Pkg
	nonEmpty := 0
	for i, r := range k.Res {
		now := show(r)
		if SliceLen(r) > 0 {
			nonEmpty++
		}
		if now != k.Snap[i] {
			c.Fail(KeyChanged, "the result of %s was %s right after that run; after the later runs (%s) the very same value reads %s: a later run wrote into the storage of an earlier result",
				k.What[i], k.Snap[i], strings.Join(k.What[i+1:], ", "), now)
			return
		}
	}
	c.W.Add("rerun.reinspected."+pkg, int64(len(k.Res)))
	if nonEmpty > 1 {
		distinct := map[string]bool{}
		for _, s := range k.Snap {
			distinct[s] = true
		}
		c.W.Add("rerun.reinspected-nonempty-slices."+pkg, int64(nonEmpty))
		if len(distinct) > 1 {
			c.W.Add("rerun.kept-slices-differ-between-runs."+pkg, 1)
		}
	}
}

// Rerun calls a combinator twice on the very same operands (or, for single-use operands, on
// operands rebuilt by call itself), keeps the first result as returned, and returns it. The
// second result must equal the first; the first must still read the same after the second call.
// R must be showable repeatedly (a call producing an Iterator drains it inside call).
func Rerun[R any](c *Cas, call func() R, show func(R) string) R {
	r1 := call()
	o1 := show(r1)
	r2 := call()
	o2 := show(r2)
	c.W.Add("rerun.runs."+c.P.Pkg, 1)
	if o1 != o2 {
		c.Fail(KeyRerun, "the first call returned %s, the second call on the same operands %s", o1, o2)
		return r1
	}
	k := Kept[R]{}
	k.Add("the first call", r1, o1)
	k.Add("the second call", r2, o2)
	k.Recheck(c, show)
	return r1
}

func IdStr(s string) string { return s }
