// C01 — list-monad reference (plain Go), list operands and the FlatMap/Of definitions used for
// the single-use Iterator combinators.
package core

import (
	"verif/vrt"

	"github.com/csgura/fp"
	"github.com/csgura/fp/iterator"
	"github.com/csgura/fp/list"
	"github.com/csgura/fp/seq"
)

var (
	ProfSeq      = &Profile{Pkg: "seq"}
	ProfList     = &Profile{Pkg: "list"}
	ProfIterator = &Profile{Pkg: "iterator"}
)

// ---- reference: list monad on []int -----------------------------------------------------------

func LFlatMap(m []int, f func(int) []int) []int {
	out := []int{}
	for _, x := range m {
		out = append(out, f(x)...)
	}
	return out
}

func LMap(m []int, f func(int) int) []int {
	return LFlatMap(m, func(x int) []int { return []int{f(x)} })
}

func LMap2(a, b []int, f func(int, int) int) []int {
	return LFlatMap(a, func(x int) []int { return LMap(b, func(y int) int { return f(x, y) }) })
}

// lkd: x -> small list; empty for part of the domain.
type Lkd struct{ A, B, N int }

func (k Lkd) At(x int) []int {
	n := (x + k.N) % 4
	out := make([]int, n)
	for i := range out {
		out[i] = Md(x*k.A + k.B + i*7)
	}
	return out
}

// okd: x -> option (v, ok); none for part of the domain (FilterMap).
type Okd struct{ A, B, M int }

func (k Okd) At(x int) (int, bool) {
	if k.M > 0 && x%k.M == 0 {
		return 0, false
	}
	return Md(x*k.A + k.B), true
}
func (k Okd) Opt(x int) fp.Option[int] {
	v, ok := k.At(x)
	if !ok {
		return fp.None[int]()
	}
	return fp.Some(v)
}

// lopd: a list operand: elements plus the constructor variant used on the library side.
type Lopd struct {
	S []int
	V int
}

func (c *Cas) Lopd() Lopd {
	r := c.R
	var s []int
	switch r.IntN(6) {
	case 0:
		s = nil
	case 1:
		s = []int{}
	case 2:
		s = []int{r.IntN(1000)}
	default:
		s = make([]int, 2+r.IntN(3))
		for i := range s {
			s[i] = r.IntN(1000)
		}
	}
	d := Lopd{s, r.IntN(5)}
	c.Shape(SeqShape(s) + "/v" + ShowInt(d.V))
	c.Note("list %v nil=%v variant=%d", s, s == nil, d.V)
	return d
}

func (c *Cas) Lkl() Lkd {
	k := Lkd{1 + c.R.IntN(50), c.R.IntN(1000), c.R.IntN(4)}
	c.Note("kleisli %+v", k)
	return k
}

func (c *Cas) Okl() Okd {
	k := Okd{1 + c.R.IntN(50), c.R.IntN(1000), c.R.IntN(4)}
	c.Note("optfn %+v", k)
	return k
}

func (d Lopd) Seq() fp.Seq[int] {
	if d.S == nil {
		if d.V%2 == 0 {
			return nil
		}
		return seq.Empty[int]()
	}
	switch d.V % 3 {
	case 0:
		return fp.Seq[int](append([]int{}, d.S...))
	case 1:
		return seq.Of(append([]int{}, d.S...)...)
	}
	if len(d.S) == 1 {
		return seq.Pure(d.S[0])
	}
	return fp.Seq[int](append([]int{}, d.S...))
}

func (d Lopd) List() fp.List[int] {
	if len(d.S) == 0 && d.V%2 == 0 {
		return list.Empty[int]()
	}
	switch d.V % 4 {
	case 0:
		return list.FromSeq(fp.Seq[int](d.S))
	case 1:
		return list.Of(d.S...)
	case 2: // cons cells
		var l fp.List[int] = list.Empty[int]()
		for i := len(d.S) - 1; i >= 0; i-- {
			l = list.Apply(d.S[i], l)
		}
		return l
	}
	return list.Collect(fp.IteratorOfSeq(append([]int{}, d.S...))) // lazy list
}

func (d Lopd) Iter() fp.Iterator[int] {
	if v, ok := PullVisit(d.V); ok { // pull-based / Go-map-based constructor + forced collections
		return PullIter(d.S, v)
	}
	if len(d.S) == 0 && d.V%2 == 0 {
		return iterator.Empty[int]()
	}
	switch d.V % 4 {
	case 0:
		return iterator.FromSeq(fp.Seq[int](d.S))
	case 1:
		return iterator.Of(d.S...)
	case 2:
		return iterator.FromList(list.Of(d.S...))
	}
	rev := make([]int, len(d.S))
	for i, v := range d.S {
		rev[len(d.S)-1-i] = v
	}
	return iterator.ReverseSeq(rev)
}

// ListInts walks the (lazy, persistent) list twice: the second traversal of the same list value
// must yield what the first one did (core/rerun.go).
func ListInts(l fp.List[int]) []int {
	out := listInts(l)
	if c := Cur; c != nil {
		c.W.Add("rerun.runs."+c.P.Pkg, 1)
		if again := listInts(l); ShowInts(again) != ShowInts(out) {
			c.Fail(KeyRerun, "the same list value yielded %v on the first traversal and %v on the second", out, again)
		}
	}
	return out
}

func listInts(l fp.List[int]) []int {
	out := []int{}
	n := 0
	for l.NonEmpty() {
		out = append(out, l.Head())
		l = l.Tail()
		if n++; n > 100000 {
			panic(vrt.BudgetExceeded{What: "list longer than 100000 elements"})
		}
	}
	return out
}

// Twice: the combinator is called twice — on the same persistent operands, or on identically
// rebuilt ones where they are single-use (Iterator) —, the second result must equal the first and
// the first, kept as returned, must read the same afterwards.
func (c *Cas) Twice(call func() []int) []int { return Rerun(c, call, ShowInts) }

func IterInts(it fp.Iterator[int]) []int {
	out := []int{}
	n := 0
	for it.HasNext() {
		out = append(out, it.Next())
		if n == 0 {
			MidGC()
		}
		if n++; n > 100000 {
			panic(vrt.BudgetExceeded{What: "iterator yields more than 100000 elements"})
		}
	}
	return out
}

func (c *Cas) EqL(got, want []int) bool { return c.Eq(ShowInts(got), ShowInts(want)) }
func (c *Cas) EqLD(got, def []int) bool { return c.EqDef(ShowInts(got), ShowInts(def)) }

func Curry2(g Fnd) func(int) fp.Func1[int, int] {
	return func(cv int) fp.Func1[int, int] { return func(a int) int { return g.Call(cv, a) } }
}

func Curry3(g Fnd) func(int) fp.Func1[int, fp.Func1[int, int]] {
	return func(cv int) fp.Func1[int, fp.Func1[int, int]] {
		return func(a int) fp.Func1[int, int] { return func(b int) int { return g.Call(cv, a, b) } }
	}
}

// ---- iterator ------------------------------------------------------------------------------------

type IT = fp.Iterator[int]

// textbook definitions instantiated with iterator.FlatMap and iterator.Of only
func DefIterMap[A, B any](m fp.Iterator[A], f func(A) B) fp.Iterator[B] {
	return iterator.FlatMap(m, func(x A) fp.Iterator[B] { return iterator.Of(f(x)) })
}

func DefIterAp[A, B any](tf fp.Iterator[fp.Func1[A, B]], a fp.Iterator[A]) fp.Iterator[B] {
	return iterator.FlatMap(tf, func(f fp.Func1[A, B]) fp.Iterator[B] { return DefIterMap(a, f) })
}

func DefIterMap2[A, B, C any](a fp.Iterator[A], b fp.Iterator[B], f func(A, B) C) fp.Iterator[C] {
	return iterator.FlatMap(a, func(x A) fp.Iterator[C] {
		return DefIterMap(b, func(y B) C { return f(x, y) })
	})
}

func DefIterFlap[A, B any](tf fp.Iterator[fp.Func1[A, B]], a A) fp.Iterator[B] {
	return DefIterAp(tf, iterator.Of(a))
}

func IterFuncs(d Lopd, g Fnd) fp.Iterator[fp.Func1[int, int]] {
	return iterator.Map(d.Iter(), Curry2(g))
}
