// C01 — reference semantics (plain Go, none of the library), operand / function descriptors
// and the per-case context shared by all package harnesses.
package core

import (
	"errors"
	"fmt"
	"math/rand/v2"
	"strconv"
	"strings"

	"verif/vrt"

	"github.com/csgura/fp"
)

// ---- value domain ---------------------------------------------------------------------

const ModP = 1000003

func Md(x int) int {
	x %= ModP
	if x < 0 {
		x += ModP
	}
	return x
}

// ---- injected failures ------------------------------------------------------------------

type Sentinel struct{ Name string }

func (s *Sentinel) Error() string { return s.Name }

// errs[k] is the k-th injected error (k>=1). Identity is pointer identity.
var Errs = []error{nil, &Sentinel{"err1"}, &Sentinel{"err2"}, &Sentinel{"err3"}, &Sentinel{"err4"}}

const FailOptionEmpty = 9 // fp.ErrOptionEmpty (try.FromOption on None)

func ErrIdx(err error) string {
	if err == nil {
		return "nil-error"
	}
	if err == error(fp.ErrOptionEmpty) { // one name, whoever produced it (see FailName)
		return strconv.Itoa(FailOptionEmpty)
	}
	for k := 1; k < len(Errs); k++ {
		if err == Errs[k] && errors.Is(err, Errs[k]) {
			return strconv.Itoa(k)
		}
	}
	return "?(" + err.Error() + ")"
}

// lft is the Left payload used for Either.
type Lft struct{ K int }

// ---- profiles ---------------------------------------------------------------------------

type Profile struct {
	Pkg      string
	Stateful bool
	Nfail    int
	Probes   []int
}

var (
	ProfOption = &Profile{"option", false, 1, []int{0}}
	ProfTry    = &Profile{"try", false, 4, []int{0}}
	ProfEither = &Profile{"either", false, 3, []int{0}}
	ProfStatet = &Profile{"statet", true, 4, []int{0, 1, 2, 7}}
)

// ---- reference monad --------------------------------------------------------------------
//
// One reference covers Option, Try, Either and StateT: a computation from a state to a value,
// a failure index (0 = none) and the next state. The stateless effects ignore the state.
// A failing computation still reports the state reached (StateT = s -> (Try a, s)).

type Ref[T any] func(s int) (T, int, int)

func RPure[T any](v T) Ref[T] { return func(s int) (T, int, int) { return v, 0, s } }

func RFail[T any](k int) Ref[T] {
	return func(s int) (T, int, int) {
		var z T
		return z, k, s
	}
}

func RFlatMap[A, B any](m Ref[A], f func(A) Ref[B]) Ref[B] {
	return func(s int) (B, int, int) {
		a, k, ns := m(s)
		if k != 0 {
			var z B
			return z, k, ns
		}
		return f(a)(ns)
	}
}

func RMap[A, B any](m Ref[A], f func(A) B) Ref[B] {
	return func(s int) (B, int, int) {
		a, k, ns := m(s)
		if k != 0 {
			var z B
			return z, k, ns
		}
		return f(a), 0, ns
	}
}

// rAll runs the computations left to right and collects their values.
func RAll[T any](ms []Ref[T]) Ref[[]T] {
	return func(s int) ([]T, int, int) {
		out := make([]T, 0, len(ms))
		for _, m := range ms {
			v, k, ns := m(s)
			s = ns
			if k != 0 {
				return nil, k, s
			}
			out = append(out, v)
		}
		return out, 0, s
	}
}

func RLiftA(f func(...int) int, ms ...Ref[int]) Ref[int] {
	return RMap(RAll(ms), func(vs []int) int { return f(vs...) })
}

func RLiftM(f func(...int) Ref[int], ms ...Ref[int]) Ref[int] {
	return RFlatMap(RAll(ms), func(vs []int) Ref[int] { return f(vs...) })
}

func RMap2[A, B, C any](a Ref[A], b Ref[B], f func(A, B) C) Ref[C] {
	return func(s int) (C, int, int) {
		var z C
		x, k, s1 := a(s)
		if k != 0 {
			return z, k, s1
		}
		y, k, s2 := b(s1)
		if k != 0 {
			return z, k, s2
		}
		return f(x, y), 0, s2
	}
}

// rTraverse: for each element in order run fn(a); collect.
func RTraverse[A, B any](as []A, fn func(A) Ref[B]) Ref[[]B] {
	return func(s int) ([]B, int, int) {
		out := make([]B, 0, len(as))
		for _, a := range as {
			v, k, ns := fn(a)(s)
			s = ns
			if k != 0 {
				return nil, k, s
			}
			out = append(out, v)
		}
		return out, 0, s
	}
}

func RFoldM[A, B any](as []A, zero B, f func(B, A) Ref[B]) Ref[B] {
	return func(s int) (B, int, int) {
		acc := zero
		for _, a := range as {
			v, k, ns := f(acc, a)(s)
			s = ns
			if k != 0 {
				var z B
				return z, k, s
			}
			acc = v
		}
		return acc, 0, s
	}
}

func RKleisli(ks []func(int) Ref[int]) func(int) Ref[int] {
	return func(a int) Ref[int] {
		return func(s int) (int, int, int) {
			v := a
			for _, k := range ks {
				nv, f, ns := k(v)(s)
				s = ns
				if f != 0 {
					return 0, f, s
				}
				v = nv
			}
			return v, 0, s
		}
	}
}

func ObsRef[T any](p *Profile, m Ref[T], show func(T) string) string {
	var b strings.Builder
	for i, s := range p.Probes {
		if i > 0 {
			b.WriteByte(';')
		}
		v, k, ns := m(s)
		if k != 0 {
			if p == ProfTry || p == ProfStatet { // failures carrying error values
				k = FailName(k)
			}
			b.WriteString("F" + strconv.Itoa(k))
		} else {
			b.WriteString("ok(" + show(v) + ")")
		}
		b.WriteString("@" + strconv.Itoa(ns))
	}
	return b.String()
}

// ---- operand descriptors ----------------------------------------------------------------

// opd describes a monadic operand: value md(C0+C1*s), next state s+D, failing with sentinel K
// iff M>0 and md(s+E)%M==0. V selects among equivalent library constructors.
type Opd struct {
	C0, C1, D, M, E, K, V int
}

func (d Opd) At(s int) (v, k, ns int) {
	ns = s + d.D
	if d.M > 0 && Md(s+d.E)%d.M == 0 {
		return 0, d.K, ns
	}
	return Md(d.C0 + d.C1*s), 0, ns
}

func (d Opd) Shape(p *Profile) string {
	v := "/v" + strconv.Itoa(d.V%3)
	if !p.Stateful {
		if _, k, _ := d.At(0); k != 0 {
			return "F" + strconv.Itoa(k) + v
		}
		return "ok" + v
	}
	switch {
	case d.M == 1:
		return "fail" + v
	case d.M > 1:
		return "mixed"
	case d.C1 == 0 && d.D == 0:
		return "pure" + v
	}
	return "st"
}

func RefOf[T any](d Opd, conv func(int) T) Ref[T] {
	return func(s int) (T, int, int) {
		v, k, ns := d.At(s)
		if k != 0 {
			var z T
			return z, k, ns
		}
		return conv(v), 0, ns
	}
}

func RefInt(d Opd) Ref[int] { return RefOf(d, IdInt) }

func IdInt(x int) int { return x }

// ---- function descriptors -----------------------------------------------------------------

type F1d struct{ A, B int }

func (f F1d) Call(x int) int { return Md(x*f.A + f.B) }

// fnd: position-sensitive n-ary function.
type Fnd struct{ S int }

func (f Fnd) Call(as ...int) int {
	h := f.S
	for i, a := range as {
		h = Md(h*31 + a*(i+2) + i)
	}
	return h
}
func (f Fnd) Call2(a, b int) int { return f.Call(a, b) }

// kld: x -> operand.
type Kld struct {
	A, B int
	O    Opd
}

func (k Kld) At(x int) Opd {
	o := k.O
	o.C0 = Md(x*k.A + k.B)
	o.E += x
	return o
}
func (k Kld) Ref(x int) Ref[int] { return RefInt(k.At(x)) }

// knd: (a1..an) -> operand.
type Knd struct {
	F Fnd
	O Opd
}

func (k Knd) At(as ...int) Opd {
	o := k.O
	o.C0 = k.F.Call(as...)
	for _, a := range as {
		o.E += a
	}
	return o
}
func (k Knd) Ref(as ...int) Ref[int] { return RefInt(k.At(as...)) }

// ---- small sequences as payloads / traversal inputs -----------------------------------------

// seqOf derives a small sequence from c; the length cycles through nil, empty, 1, 2, 3, 5.
func SeqOf(c int) fp.Seq[int] {
	switch c % 6 {
	case 0:
		return nil
	case 1:
		return fp.Seq[int]{}
	}
	n := []int{0, 0, 1, 2, 3, 5}[c%6]
	out := make(fp.Seq[int], n)
	for i := range out {
		out[i] = Md(c/6 + i*7)
	}
	return out
}

func SeqShape(s []int) string {
	switch {
	case s == nil:
		return "nil"
	case len(s) == 0:
		return "empty"
	case len(s) == 1:
		return "single"
	}
	return "longer"
}

// ---- show -------------------------------------------------------------------------------

func ShowInt(x int) string         { return strconv.Itoa(x) }
func ShowBool(x bool) string       { return strconv.FormatBool(x) }
func ShowStr(x string) string      { return strconv.Quote(x) }
func ShowInts(x []int) string      { return fmt.Sprint([]int(append([]int{}, x...))) }
func ShowSeq(x fp.Seq[int]) string { return ShowInts(x) }
func ShowIter(x fp.Iterator[int]) string {
	return ShowInts(x.ToSeq())
}
func ShowT2(x fp.Tuple2[int, int]) string { return fmt.Sprintf("(%d,%d)", x.I1, x.I2) }
func ShowT3(x fp.Tuple3[int, int, int]) string {
	return fmt.Sprintf("(%d,%d,%d)", x.I1, x.I2, x.I3)
}
func ShowOptInt(x fp.Option[int]) string {
	if x.IsDefined() {
		return "some(" + strconv.Itoa(x.Get()) + ")"
	}
	return "none"
}

type T2 struct{ A, B int }
type T3 struct{ A, B, C int }

func ShowRT2(x T2) string { return fmt.Sprintf("(%d,%d)", x.A, x.B) }
func ShowRT3(x T3) string { return fmt.Sprintf("(%d,%d,%d)", x.A, x.B, x.C) }

// reference option (v, ok)
type Ropt struct {
	V  int
	Ok bool
}

func ShowROpt(x Ropt) string {
	if x.Ok {
		return "some(" + strconv.Itoa(x.V) + ")"
	}
	return "none"
}

// ---- per-case context -----------------------------------------------------------------------

type Check struct {
	Name string
	Run  func(c *Cas)
}

type Cas struct {
	W      *vrt.W
	I      int
	R      *rand.Rand
	P      *Profile
	Name   string
	Rot    int // how many times this check has been visited in this batch (deterministic rotation)
	Shapes []string
	Wit    []string
	Mode   int
	Nopd   int
	FailAt int
	Prog   *Expr
	Lprog  any
	NIter  int  // Iterator operands built so far through IterOf (gcpull.go)
	NGC    int  // forced double collections so far (at most MaxGCPerCase)
	NPull  int  // pull-based operands built so far (at most MaxPullPerCase per case)
	GCObs  bool // a pull-based operand was built: observers force a collection mid-consumption
}

func (c *Cas) Site(s string) { c.W.Site(s) }

func (c *Cas) Note(format string, a ...any) {
	if len(c.Wit) < 64 {
		c.Wit = append(c.Wit, fmt.Sprintf(format, a...))
	}
}

func (c *Cas) Witness() any {
	m := map[string]any{"check": c.Name, "inputs": c.Wit, "shapes": c.Shapes}
	if c.Prog != nil {
		m["program"] = c.Prog
	}
	if c.Lprog != nil {
		m["program"] = c.Lprog
	}
	return m
}

func (c *Cas) Shape(s string) { c.Shapes = append(c.Shapes, s) }

func (c *Cas) ShapeHash(s string) { c.Shapes = append(c.Shapes, fmt.Sprintf("#%x", vrt.Hash64(s))) }

// rawOpd draws an operand descriptor for the profile (no bookkeeping).
func (c *Cas) RawOpd(fail bool) Opd {
	r, p := c.R, c.P
	d := Opd{C0: r.IntN(1000), V: r.IntN(6)}
	if !p.Stateful {
		if fail {
			d.M, d.K = 1, 1+r.IntN(p.Nfail)
		}
		return d
	}
	d.K = 1 + r.IntN(p.Nfail)
	switch x := r.IntN(20); {
	case fail && x < 10:
		d.M, d.D = 1, r.IntN(3)
	case fail:
		d.M, d.E, d.C1, d.D = 2+r.IntN(2), r.IntN(3), r.IntN(4), r.IntN(6)-2
	case x < 5: // pure
	default:
		d.C1, d.D = r.IntN(4), r.IntN(6)-2
	}
	return d
}

// opd draws the next operand of the case. Failure placement follows the case mode:
// 0 = all succeed, 1 = a single failing operand, 2 = independent 35 %.
func (c *Cas) Opd() Opd {
	fail := false
	switch c.Mode {
	case 1:
		fail = c.Nopd == c.FailAt
	case 2:
		fail = c.R.IntN(100) < 35
	}
	c.Nopd++
	d := c.RawOpd(fail)
	c.Shape(d.Shape(c.P))
	c.Note("operand %+v", d)
	return d
}

func (c *Cas) Opds(n int) []Opd {
	out := make([]Opd, n)
	for i := range out {
		out[i] = c.Opd()
	}
	return out
}

func (c *Cas) F1() F1d {
	f := F1d{1 + c.R.IntN(50), c.R.IntN(1000)}
	c.Note("f1 %+v", f)
	return f
}

func (c *Cas) Fn() Fnd {
	f := Fnd{c.R.IntN(1000)}
	c.Note("fn %+v", f)
	return f
}

func (c *Cas) Kl() Kld {
	k := Kld{1 + c.R.IntN(50), c.R.IntN(1000), c.RawOpd(c.R.IntN(100) < 30)}
	if !c.P.Stateful && k.O.M == 1 && c.R.IntN(2) == 0 {
		k.O.M = 2 + c.R.IntN(2) // fails for part of its domain
	}
	c.Shape("k:" + k.O.Shape(c.P))
	c.Note("kleisli %+v", k)
	return k
}

func (c *Cas) Kn() Knd {
	k := Knd{Fnd{c.R.IntN(1000)}, c.RawOpd(c.R.IntN(100) < 30)}
	if !c.P.Stateful && k.O.M == 1 && c.R.IntN(2) == 0 {
		k.O.M = 2 + c.R.IntN(2)
	}
	c.Shape("k:" + k.O.Shape(c.P))
	c.Note("kleisliN %+v", k)
	return k
}

func (c *Cas) Ints(n int) []int {
	out := make([]int, n)
	for i := range out {
		out[i] = c.R.IntN(1000)
	}
	c.Note("args %v", out)
	return out
}

// IntZ draws a value below 1000; on every fourth visit of a check it is the zero value instead
// (a unit or a combinator that special-cases the zero value of a non-nil-able type).
func (c *Cas) IntZ() int {
	a := c.R.IntN(1000)
	if c.Rot%4 == 0 {
		a = 0
	}
	return a
}

func (c *Cas) Seq() fp.Seq[int] {
	s := SeqOf(c.R.IntN(6000))
	c.Shape("seq:" + SeqShape(s))
	c.Note("seq %v nil=%v", []int(s), s == nil)
	return s
}

func Refs(ds []Opd) []Ref[int] {
	out := make([]Ref[int], len(ds))
	for i, d := range ds {
		out[i] = RefInt(d)
	}
	return out
}

func (c *Cas) Obs(m Ref[int]) string { return ObsRef(c.P, m, ShowInt) }

// eq: library result vs plain-Go reference.
func (c *Cas) Eq(got, want string) bool {
	if got != want {
		c.W.Violation(c.I, c.Name+"/differs-from-reference",
			fmt.Sprintf("%s returned %s, the reference semantics of its definition gives %s\ninputs: %s", c.Name, got, want, strings.Join(c.Wit, " ; ")), c.Witness())
		return false
	}
	return true
}

// eqDef: library result vs the textbook definition instantiated with the library's own FlatMap / unit.
func (c *Cas) EqDef(got, def string) bool {
	if got != def {
		c.W.Violation(c.I, c.Name+"/differs-from-FlatMap-definition",
			fmt.Sprintf("%s returned %s, its definition written with the package's own FlatMap and unit returns %s\ninputs: %s", c.Name, got, def, strings.Join(c.Wit, " ; ")), c.Witness())
		return false
	}
	return true
}

func (c *Cas) Law(law, lhs, rhs string) bool {
	if lhs != rhs {
		c.W.Violation(c.I, c.Name+"/"+law,
			fmt.Sprintf("%s: %s law broken: lhs %s, rhs %s\ninputs: %s", c.Name, law, lhs, rhs, strings.Join(c.Wit, " ; ")), c.Witness())
		return false
	}
	return true
}

func RunCheck(w *vrt.W, i int, p *Profile, ck Check, rot int) {
	r := w.Rand(i)
	c := &Cas{W: w, I: i, R: r, P: p, Name: ck.Name, Rot: rot}
	c.Mode = r.IntN(3)
	c.FailAt = r.IntN(3)
	if r.IntN(4) == 0 {
		c.FailAt = r.IntN(9)
	}
	Cur = c
	if fl := SetErrFlavour(rot); (p.Nfail > 1 && p != ProfEither) || strings.Contains(ck.Name, "Try") {
		c.Note("failure values Errs[1..4]: %s", fl)
		w.Add("errors.flavour."+fl+"."+p.Pkg, 1)
	}
	w.Begin(i, ck.Name)
	w.Guard(i, c.Witness, func() { ck.Run(c) })
	w.Done(i)
	Cur = nil
	w.Hit(ck.Name)
	w.Add("cases."+p.Pkg, 1)
	w.Distinct(ck.Name + "|" + strings.Join(c.Shapes, ","))
	if w.WantSample() && i%97 == 5 {
		w.Sample(c.Witness())
	}
}

func MapInts(s []int, f func(int) int) []int {
	out := make([]int, len(s))
	for i, v := range s {
		out[i] = f(v)
	}
	return out
}
