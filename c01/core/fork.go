// C01 — forks: one program value, several continuations.
//
// A value of a program-valued monad (lazy.Eval, StateT, fn0, fn1, a lazy fp.List, a function that
// produces Iterators) is an immutable description. Binding a continuation to it must not change
// it: from ONE base value m — which already carries k pending steps (k = 0..40, every value) —
// two or more continuations with DIFFERENT functions are derived through the binding combinators
// of the package (the "arms" of a fork), all are kept, and only then each arm is observed, in PRNG
// order and more than once. Every observation must equal
//   - the plain-Go model of that continuation, and
//   - the same combinator applied to an INDEPENDENTLY constructed base (built from the same
//     descriptors by another run of the constructor, used for nothing else).
//
// An arm that is wrong while its independently built twin is right was disturbed by a sibling:
// key <pkg>.<Combinator>/forked-value-disturbed. A twin that is wrong too is an ordinary
// definition failure: <pkg>.<Combinator>/differs-from-reference.
//
// The same cases check the three monad laws on bases with k pending steps, the left side built
// from one construction of m and the right side from another one (ForkLaw).
package core

import (
	"fmt"
	"strings"
)

const (
	ForkMaxPending = 40
	KeyForked      = "forked-value-disturbed"
)

// ForkArm is one continuation derived from the shared base of the case.
type ForkArm struct {
	Comb  string        // the library combinator that bound the continuation ("lazy.Eval.FlatMap")
	Pos   string        // operand position / variant, "" if there is only one
	Desc  string        // which function was bound (witness)
	Obs   func() string // observes the arm derived from the SHARED base (derived before any observation)
	Fresh func() string // derives the same continuation from an independently built base and observes it
	Want  string        // plain-Go model
}

func (a ForkArm) label() string {
	if a.Pos == "" {
		return a.Comb
	}
	return a.Comb + " (" + a.Pos + ")"
}

// HitName is the evidence name of an arm kind.
func ForkHit(comb, pos string) string {
	if pos == "" {
		return "fork:" + comb
	}
	return "fork:" + comb + "#" + pos
}

// FailKey reports a violation under a key that is not prefixed with the check name.
func (c *Cas) FailKey(key, format string, a ...any) {
	c.W.Violation(c.I, key, fmt.Sprintf(format, a...)+"\ninputs: "+strings.Join(c.Wit, " ; "), c.Witness())
}

// ForkPending: the number of pending steps of the base for this visit of the check: all values
// 0..ForkMaxPending in turn.
func (c *Cas) ForkPending() int { return c.Rot % (ForkMaxPending + 1) }

// RunForks observes the arms. All arms have been derived by the caller before this call.
func (c *Cas) RunForks(k int, arms []ForkArm) bool {
	pkg := c.P.Pkg
	type ev struct {
		arm   int
		fresh bool
	}
	var evs []ev
	for i := range arms {
		n := 2 + c.R.IntN(2)
		for j := 0; j < n; j++ {
			evs = append(evs, ev{i, false})
		}
		evs = append(evs, ev{i, true})
		c.Note("arm %d: %s %s", i, arms[i].label(), arms[i].Desc)
	}
	c.R.Shuffle(len(evs), func(i, j int) { evs[i], evs[j] = evs[j], evs[i] })
	fresh := make([]string, len(arms))
	have := make([]bool, len(arms))
	ok := true
	getFresh := func(i int) string {
		if !have[i] {
			a := &arms[i]
			have[i] = true
			fresh[i] = a.Fresh()
			if fresh[i] != a.Want {
				ok = false
				c.FailKey(a.Comb+"/differs-from-reference", "%s bound to a base value with %d pending steps (the base used for nothing else) gives %s, the reference semantics gives %s [%s]",
					a.label(), k, fresh[i], a.Want, a.Desc)
			}
		}
		return fresh[i]
	}
	var order []string
	nobs := 0
	for _, e := range evs {
		a := &arms[e.arm]
		c.Site(a.Comb)
		if e.fresh {
			order = append(order, fmt.Sprintf("twin%d", e.arm))
			getFresh(e.arm)
			continue
		}
		order = append(order, fmt.Sprintf("arm%d", e.arm))
		got := a.Obs()
		nobs++
		if got == a.Want {
			continue
		}
		ok = false
		if f := getFresh(e.arm); f == a.Want {
			var sib []string
			for j := range arms {
				if j != e.arm {
					sib = append(sib, fmt.Sprintf("arm %d = %s", j, arms[j].label()))
				}
			}
			c.FailKey(a.Comb+"/"+KeyForked, "arm %d = %s [%s], one of %d continuations bound to ONE base value that carries %d pending steps, evaluates to %s; the same continuation bound to an independently constructed base gives %s, as the reference does. Siblings derived from the same base: %s. Order of observations so far: %s",
				e.arm, a.label(), a.Desc, len(arms), k, got, f, strings.Join(sib, ", "), strings.Join(order, " "))
		}
		break
	}
	c.W.Add("fork.cases."+pkg, 1)
	c.W.Add(fmt.Sprintf("fork.pending.%s.%02d", pkg, k), 1)
	c.W.Add("fork.arms."+pkg, int64(len(arms)))
	c.W.Add("fork.arm-observations."+pkg, int64(nobs))
	if len(arms) > 2 {
		c.W.Add("fork.cases-with-three-or-more-arms."+pkg, 1)
	}
	for _, a := range arms {
		c.W.Hit(ForkHit(a.Comb, ""))
		if a.Pos != "" {
			c.W.Hit(ForkHit(a.Comb, a.Pos))
		}
	}
	return ok
}

// ForkLaw: a monad law on a base with k pending steps; lhs and rhs were built from two
// independent constructions of the base. key is "<pkg>.FlatMap".
func (c *Cas) ForkLaw(key, law string, k int, lhs, rhs string) bool {
	c.W.Add("fork.laws-on-independent-constructions."+c.P.Pkg, 1)
	if lhs != rhs {
		c.FailKey(key+"/"+law, "%s: %s law broken for a value with %d pending steps (both sides built from independent constructions of it): lhs %s, rhs %s", key, law, k, lhs, rhs)
		return false
	}
	return true
}

// ForkPick chooses n distinct arm kinds out of total, rotating the start with the visit number so
// that every kind is reached for every number of pending steps.
func (c *Cas) ForkPick(total, n int) []int {
	if n > total {
		n = total
	}
	start := (c.Rot / (ForkMaxPending + 1)) % total
	stride := 1 + c.R.IntN(total-1)
	for gcd(stride, total) != 1 {
		stride++
	}
	out := make([]int, n)
	for i := range out {
		out[i] = (start + i*stride) % total
	}
	return out
}

func gcd(a, b int) int {
	for b != 0 {
		a, b = b, a%b
	}
	return a
}
