// C01 — operands of lazy.Eval and of the reader monad fn1.
package core

import (
	"fmt"
	"strings"

	"github.com/csgura/fp"
	"github.com/csgura/fp/fn1"
	"github.com/csgura/fp/lazy"
)

var (
	ProfLazy = &Profile{Pkg: "lazy"}
	ProfFn0  = &Profile{Pkg: "fn0"}
	ProfFn1  = &Profile{Pkg: "fn1"}
)

// ---- lazy.Eval --------------------------------------------------------------------------------

type EV = lazy.Eval[int]

// eopd: an Eval operand: its strict value and the constructor used.
type Eopd struct{ V, Kind int }

var EvalKinds = []string{"done", "call", "tailcall-done", "tailcall-call", "tailcall-nested", "done-flatmapped"}

func (d Eopd) Eval() EV {
	switch d.Kind % len(EvalKinds) {
	case 0:
		return lazy.Done(d.V)
	case 1:
		return lazy.Call(func() int { return d.V })
	case 2:
		return lazy.TailCall(func() EV { return lazy.Done(d.V) })
	case 3:
		return lazy.TailCall(func() EV { return lazy.Call(func() int { return d.V }) })
	case 4:
		return lazy.TailCall(func() EV { return lazy.TailCall(func() EV { return lazy.Done(d.V) }) })
	}
	return lazy.Done(d.V - 1).FlatMap(func(x int) EV { return lazy.Done(x + 1) })
}

func (c *Cas) Eopd() Eopd {
	d := Eopd{c.R.IntN(1000), c.R.IntN(len(EvalKinds))}
	c.Shape(EvalKinds[d.Kind])
	c.Note("eval %+v", d)
	return d
}

type Ekd struct{ A, B, Kind int }

func (k Ekd) Val(x int) int { return Md(x*k.A + k.B) }
func (k Ekd) At(x int) EV   { return Eopd{k.Val(x), k.Kind + x}.Eval() }

func (c *Cas) Ekl() Ekd {
	k := Ekd{1 + c.R.IntN(50), c.R.IntN(1000), c.R.IntN(len(EvalKinds))}
	c.Note("kleisli %+v", k)
	return k
}

func (c *Cas) EqI(got, want int) bool { return c.Eq(ShowInt(got), ShowInt(want)) }

type R1 = fp.Func1[int, int]

var Fn1Probes = []int{0, 1, 2, 3, 7, 100, 999, -5}

// r1d: a reader value x -> md(x*A+B); Kind 0 = constant built with fn1.Pure.
type R1d struct{ A, B, Kind int }

func (d R1d) Ref(x int) int {
	if d.Kind == 0 {
		return Md(d.B)
	}
	return Md(x*d.A + d.B)
}

func (d R1d) Lib() R1 {
	switch d.Kind {
	case 0:
		return fn1.Pure[int](Md(d.B))
	case 1:
		return func(x int) int { return Md(x*d.A + d.B) }
	}
	return fn1.Map(fn1.Get[int](), func(x int) int { return Md(x*d.A + d.B) })
}

// r1k: a -> reader: x -> md(a*A + x*B + C)
type R1k struct{ A, B, C int }

func (k R1k) Ref(a int) func(int) int { return func(x int) int { return Md(a*k.A + x*k.B + k.C) } }
func (k R1k) Lib(a int) R1            { return func(x int) int { return Md(a*k.A + x*k.B + k.C) } }

func (c *Cas) R1d() R1d {
	d := R1d{c.R.IntN(50), c.R.IntN(1000), c.R.IntN(3)}
	c.Shape([]string{"pure", "closure", "get-mapped"}[d.Kind])
	c.Note("reader %+v", d)
	return d
}

func (c *Cas) R1k() R1k {
	k := R1k{c.R.IntN(50), c.R.IntN(50), c.R.IntN(1000)}
	c.Note("reader-kleisli %+v", k)
	return k
}

// ProbeRef: the observation of a plain-Go reference function.
func ProbeRef(f func(int) int) string { return ProbeRefT(f, ShowInt) }

func ProbeRefT[T any](f func(int) T, show func(T) string) string {
	var b strings.Builder
	for _, x := range Fn1Probes {
		fmt.Fprintf(&b, "%d->%s ", x, show(f(x)))
	}
	return b.String()
}

// Probe: the observation of a library reader value: called on every probe argument and then on
// every probe argument again in reverse order; the second call on an argument must return what the
// first one returned and every result, kept as returned, must read the same after all later
// calls (core/rerun.go). The string handed back is the one of the first pass.
func Probe(f func(int) int) string { return ProbeT(f, ShowInt) }

func ProbeT[T any](f func(int) T, show func(T) string) string {
	c := Cur
	keep := Kept[T]{}
	first := make([]string, len(Fn1Probes))
	var b strings.Builder
	for i, x := range Fn1Probes {
		r := f(x)
		first[i] = show(r)
		keep.Add(fmt.Sprintf("the call with argument %d", x), r, first[i])
		fmt.Fprintf(&b, "%d->%s ", x, first[i])
	}
	if c != nil {
		for i := len(Fn1Probes) - 1; i >= 0; i-- {
			r := f(Fn1Probes[i])
			s := show(r)
			keep.Add(fmt.Sprintf("the second call with argument %d", Fn1Probes[i]), r, s)
			if s != first[i] {
				c.Fail(KeyRerun, "the same function value applied to %d returned %s the first time and %s when applied again", Fn1Probes[i], first[i], s)
				return b.String()
			}
		}
		c.W.Add("rerun.runs."+c.P.Pkg, int64(len(Fn1Probes)))
		keep.Recheck(c, show)
	}
	return b.String()
}

// Run0: a fn0 value is run three times.
func Run0[T any](m fp.Func0[T], show func(T) string) (T, string) {
	c := Cur
	keep := Kept[T]{}
	r1 := m(fp.Unit{})
	s1 := show(r1)
	keep.Add("the first run", r1, s1)
	if c != nil {
		for _, what := range []string{"the second run", "the third run"} {
			r := m(fp.Unit{})
			s := show(r)
			keep.Add(what, r, s)
			if s != s1 {
				c.Fail(KeyRerun, "the same fn0 value returned %s on the first run and %s on %s", s1, s, what)
				return r1, s1
			}
		}
		c.W.Add("rerun.runs."+c.P.Pkg, 2)
		keep.Recheck(c, show)
	}
	return r1, s1
}

func Run0I(m fp.Func0[int]) int {
	r, _ := Run0(m, ShowInt)
	return r
}

// ObsEval: an Eval value is evaluated three times (Get, Run, Get).
func ObsEval[T any](ev lazy.Eval[T], show func(T) string) (T, string) {
	c := Cur
	keep := Kept[T]{}
	r1 := ev.Get()
	s1 := show(r1)
	keep.Add("the first evaluation", r1, s1)
	if c != nil {
		for i, what := range []string{"the second evaluation (lazy.Run)", "the third evaluation"} {
			var r T
			if i == 0 {
				r = lazy.Run(ev)
			} else {
				r = ev.Get()
			}
			s := show(r)
			keep.Add(what, r, s)
			if s != s1 {
				c.Fail(KeyRerun, "the same Eval value gave %s on the first evaluation and %s on %s", s1, s, what)
				return r1, s1
			}
		}
		c.W.Add("rerun.runs."+c.P.Pkg, 2)
		keep.Recheck(c, show)
	}
	return r1, s1
}

func EvGet(ev EV) int {
	r, _ := ObsEval(ev, ShowInt)
	return r
}
