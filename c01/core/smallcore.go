// C01 — operands of lazy.Eval and of the reader monad fn1.
package core

import (
	"fmt"
	"strings"

	"github.com/csgura/fp"
	"github.com/csgura/fp/fn1"
	"github.com/csgura/fp/lazy"
)

var (
	ProfLazy = &Profile{Pkg: "lazy"}
	ProfFn0  = &Profile{Pkg: "fn0"}
	ProfFn1  = &Profile{Pkg: "fn1"}
)

// ---- lazy.Eval --------------------------------------------------------------------------------

type EV = lazy.Eval[int]

// eopd: an Eval operand: its strict value and the constructor used.
type Eopd struct{ V, Kind int }

var EvalKinds = []string{"done", "call", "tailcall-done", "tailcall-call", "tailcall-nested", "done-flatmapped"}

func (d Eopd) Eval() EV {
	switch d.Kind % len(EvalKinds) {
	case 0:
		return lazy.Done(d.V)
	case 1:
		return lazy.Call(func() int { return d.V })
	case 2:
		return lazy.TailCall(func() EV { return lazy.Done(d.V) })
	case 3:
		return lazy.TailCall(func() EV { return lazy.Call(func() int { return d.V }) })
	case 4:
		return lazy.TailCall(func() EV { return lazy.TailCall(func() EV { return lazy.Done(d.V) }) })
	}
	return lazy.Done(d.V - 1).FlatMap(func(x int) EV { return lazy.Done(x + 1) })
}

func (c *Cas) Eopd() Eopd {
	d := Eopd{c.R.IntN(1000), c.R.IntN(len(EvalKinds))}
	c.Shape(EvalKinds[d.Kind])
	c.Note("eval %+v", d)
	return d
}

type Ekd struct{ A, B, Kind int }

func (k Ekd) Val(x int) int { return Md(x*k.A + k.B) }
func (k Ekd) At(x int) EV   { return Eopd{k.Val(x), k.Kind + x}.Eval() }

func (c *Cas) Ekl() Ekd {
	k := Ekd{1 + c.R.IntN(50), c.R.IntN(1000), c.R.IntN(len(EvalKinds))}
	c.Note("kleisli %+v", k)
	return k
}

func (c *Cas) EqI(got, want int) bool { return c.Eq(ShowInt(got), ShowInt(want)) }

type R1 = fp.Func1[int, int]

var Fn1Probes = []int{0, 1, 2, 3, 7, 100, 999, -5}

// r1d: a reader value x -> md(x*A+B); Kind 0 = constant built with fn1.Pure.
type R1d struct{ A, B, Kind int }

func (d R1d) Ref(x int) int {
	if d.Kind == 0 {
		return Md(d.B)
	}
	return Md(x*d.A + d.B)
}

func (d R1d) Lib() R1 {
	switch d.Kind {
	case 0:
		return fn1.Pure[int](Md(d.B))
	case 1:
		return func(x int) int { return Md(x*d.A + d.B) }
	}
	return fn1.Map(fn1.Get[int](), func(x int) int { return Md(x*d.A + d.B) })
}

// r1k: a -> reader: x -> md(a*A + x*B + C)
type R1k struct{ A, B, C int }

func (k R1k) Ref(a int) func(int) int { return func(x int) int { return Md(a*k.A + x*k.B + k.C) } }
func (k R1k) Lib(a int) R1            { return func(x int) int { return Md(a*k.A + x*k.B + k.C) } }

func (c *Cas) R1d() R1d {
	d := R1d{c.R.IntN(50), c.R.IntN(1000), c.R.IntN(3)}
	c.Shape([]string{"pure", "closure", "get-mapped"}[d.Kind])
	c.Note("reader %+v", d)
	return d
}

func (c *Cas) R1k() R1k {
	k := R1k{c.R.IntN(50), c.R.IntN(50), c.R.IntN(1000)}
	c.Note("reader-kleisli %+v", k)
	return k
}

func Probe(f func(int) int) string {
	var b strings.Builder
	for _, x := range Fn1Probes {
		fmt.Fprintf(&b, "%d->%d ", x, f(x))
	}
	return b.String()
}
