// C01 — helpers of the transformer checks.
package core

import (
	"github.com/csgura/fp"
)

var IntOrd fp.Ord[int] = fp.CompareFunc[int](func(a, b int) int {
	switch {
	case a < b:
		return -1
	case a > b:
		return 1
	}
	return 0
})

// optOf: an Option payload derived from c (None for c%3==0).
func OptOf(c int) fp.Option[int] {
	switch c % 6 {
	case 0:
		return fp.None[int]()
	case 3:
		return fp.Option[int]{}
	}
	return fp.Some(c)
}

func RoptOf(c int) Ropt {
	if c%3 == 0 {
		return Ropt{}
	}
	return Ropt{c, true}
}

func FilterInts(s []int, p func(int) bool) []int {
	out := []int{}
	for _, v := range s {
		if p(v) {
			out = append(out, v)
		}
	}
	return out
}

func FindInt(s []int, p func(int) bool) Ropt {
	for _, v := range s {
		if p(v) {
			return Ropt{v, true}
		}
	}
	return Ropt{}
}

func AtInt(s []int, i int) Ropt {
	if i >= 0 && i < len(s) {
		return Ropt{s[i], true}
	}
	return Ropt{}
}
