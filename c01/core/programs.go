// C01 — random expression programs over the combinator palette of the generated monad
// packages: AST, PRNG generator and the plain-Go reference interpreter. The library-side
// interpreters are generated per package (evalLib<Pkg> in zz_<pkg>.go).
package core

import (
	"encoding/json"
	"fmt"
)

type Expr struct {
	Op   string  `json:"op"`
	D    *Opd    `json:"d,omitempty"`
	F    *F1d    `json:"f,omitempty"`
	G    *Fnd    `json:"g,omitempty"`
	K    *Kld    `json:"k,omitempty"`
	K2   *Kld    `json:"k2,omitempty"`
	KN   *Knd    `json:"kn,omitempty"`
	V    int     `json:"v,omitempty"`
	V2   int     `json:"v2,omitempty"`
	S    []int   `json:"s,omitempty"`
	SNil bool    `json:"snil,omitempty"`
	Kids []*Expr `json:"kids,omitempty"`
}

func (e *Expr) String() string {
	b, _ := json.Marshal(e)
	return string(b)
}

func (e *Expr) Seq() []int {
	if e.SNil {
		return nil
	}
	if e.S == nil {
		return []int{}
	}
	return e.S
}

// operators: name, number of plain kids, number of kids evaluated under one more bound variable
type OpSpec struct {
	Name        string
	Kids, Bound int
}

var ProgOps = []OpSpec{
	{"map", 1, 0}, {"lift", 1, 0}, {"replace", 1, 0},
	{"flatmap", 1, 1}, {"liftm", 1, 1}, {"flatten", 1, 1},
	{"map2", 2, 0}, {"lifta2", 2, 0}, {"zip", 2, 0}, {"ap", 2, 0}, {"apfunc", 2, 0},
	{"map3", 3, 0}, {"lifta3", 3, 0}, {"zip3", 3, 0}, {"map4", 4, 0},
	{"liftm2", 2, 0}, {"flatmap2", 2, 0}, {"liftm3", 3, 0}, {"flatmap3", 3, 0},
	{"flapmap", 1, 0}, {"method1", 1, 0}, {"method2", 1, 0}, {"method3", 1, 0}, {"with", 1, 0},
	{"flatflapmap", 1, 0}, {"flatmethod1", 1, 0}, {"flatmethod2", 1, 0}, {"flatmethod3", 1, 0},
	{"flap", 1, 0}, {"flap2", 1, 0}, {"flap3", 1, 0},
	{"compose", 1, 0}, {"compose3", 1, 0},
	{"sequence", -1, 0}, {"sequenceIterator", -1, 0},
	{"traverseSeq", 0, 1}, {"traverse", 0, 1}, {"foldm", 0, 0},
	{"unzip1", 2, 0}, {"unzip2", 2, 0},
}

type ProgGen struct {
	C      *Cas
	Budget int
	Ops    map[string]int
	Depth  int

	DepthReached int
}

func (g *ProgGen) Leaf(nvars int) *Expr {
	c := g.C
	x := c.R.IntN(3)
	if nvars == 0 {
		x = 0
	}
	switch x {
	case 1:
		f := F1d{1 + c.R.IntN(50), c.R.IntN(1000)}
		return &Expr{Op: "var", V: c.R.IntN(nvars), F: &f}
	case 2:
		k := g.Kl()
		return &Expr{Op: "klvar", V: c.R.IntN(nvars), K: &k}
	}
	mode := c.R.IntN(100) < 22
	d := c.RawOpd(mode)
	return &Expr{Op: "leaf", D: &d}
}

func (g *ProgGen) Kl() Kld {
	c := g.C
	k := Kld{1 + c.R.IntN(50), c.R.IntN(1000), c.RawOpd(c.R.IntN(100) < 15)}
	if !c.P.Stateful && k.O.M == 1 {
		k.O.M = 2 + c.R.IntN(3)
	}
	return k
}

func (g *ProgGen) Kn() Knd {
	c := g.C
	k := Knd{Fnd{c.R.IntN(1000)}, c.RawOpd(c.R.IntN(100) < 15)}
	if !c.P.Stateful && k.O.M == 1 {
		k.O.M = 2 + c.R.IntN(3)
	}
	return k
}

func (g *ProgGen) Gen(depth, nvars int) *Expr {
	c := g.C
	g.Budget--
	if depth <= 1 || g.Budget <= 0 || c.R.IntN(100) < 12 {
		return g.Leaf(nvars)
	}
	sp := ProgOps[c.R.IntN(len(ProgOps))]
	g.Ops[sp.Name]++
	e := &Expr{Op: sp.Name, V: c.R.IntN(1000), V2: c.R.IntN(1000)}
	f := F1d{1 + c.R.IntN(50), c.R.IntN(1000)}
	gg := Fnd{c.R.IntN(1000)}
	e.F, e.G = &f, &gg
	k, k2, kn := g.Kl(), g.Kl(), g.Kn()
	e.K, e.K2, e.KN = &k, &k2, &kn
	nk := sp.Kids
	if nk < 0 {
		nk = c.R.IntN(4)
	}
	for i := 0; i < nk; i++ {
		e.Kids = append(e.Kids, g.Gen(depth-1, nvars))
	}
	for i := 0; i < sp.Bound; i++ {
		e.Kids = append(e.Kids, g.Gen(depth-1, nvars+1))
	}
	switch sp.Name {
	case "traverseSeq", "traverse", "foldm":
		s := SeqOf(c.R.IntN(6000))
		if len(s) > 3 {
			s = s[:3]
		}
		e.S, e.SNil = s, s == nil
	}
	if d := g.Depth - depth + 2; d > g.DepthReached { // levels of operators above + the leaves
		g.DepthReached = d
	}
	return e
}

func Bind(env []int, x int) []int { return append(append(make([]int, 0, len(env)+1), env...), x) }

// evalRef is the reference interpreter (plain Go).
func EvalRef(e *Expr, env []int) Ref[int] {
	kid := func(i int) Ref[int] { return EvalRef(e.Kids[i], env) }
	body := func(i int) func(int) Ref[int] {
		return func(x int) Ref[int] { return EvalRef(e.Kids[i], Bind(env, x)) }
	}
	switch e.Op {
	case "leaf":
		return RefInt(*e.D)
	case "var":
		return RPure(e.F.Call(env[e.V]))
	case "klvar":
		return e.K.Ref(env[e.V])
	case "map", "lift":
		return RMap(kid(0), e.F.Call)
	case "replace":
		return RMap(kid(0), func(int) int { return e.V })
	case "flatmap", "liftm", "flatten":
		return RFlatMap(kid(0), body(1))
	case "map2", "lifta2", "zip", "ap", "apfunc":
		return RMap2(kid(0), kid(1), e.G.Call2)
	case "map3", "lifta3", "zip3":
		return RLiftA(e.G.Call, kid(0), kid(1), kid(2))
	case "map4":
		return RLiftA(e.G.Call, kid(0), kid(1), kid(2), kid(3))
	case "liftm2", "flatmap2":
		return RLiftM(e.KN.Ref, kid(0), kid(1))
	case "liftm3", "flatmap3":
		return RLiftM(e.KN.Ref, kid(0), kid(1), kid(2))
	case "flapmap", "method1":
		return RMap(kid(0), func(a int) int { return e.G.Call(a, e.V) })
	case "method2":
		return RMap(kid(0), func(a int) int { return e.G.Call(a, e.V, e.V2) })
	case "method3":
		return RMap(kid(0), func(a int) int { return e.G.Call(a, e.V, e.V2) })
	case "with":
		return RMap(kid(0), func(b int) int { return e.G.Call(e.V, b) })
	case "flatflapmap", "flatmethod1":
		return RFlatMap(kid(0), func(a int) Ref[int] { return e.KN.Ref(a, e.V) })
	case "flatmethod2", "flatmethod3":
		return RFlatMap(kid(0), func(a int) Ref[int] { return e.KN.Ref(a, e.V, e.V2) })
	case "flap":
		return RMap(kid(0), func(cv int) int { return e.G.Call(cv, e.V) })
	case "flap2":
		return RMap(kid(0), func(cv int) int { return e.G.Call(cv, e.V, e.V2) })
	case "flap3":
		return RMap(kid(0), func(cv int) int { return e.G.Call(cv, e.V, e.V2, e.V) })
	case "compose":
		return RFlatMap(kid(0), RKleisli([]func(int) Ref[int]{e.K.Ref, e.K2.Ref}))
	case "compose3":
		return RFlatMap(kid(0), RKleisli([]func(int) Ref[int]{e.K.Ref, e.K2.Ref, e.K.Ref}))
	case "sequence", "sequenceIterator":
		ms := make([]Ref[int], len(e.Kids))
		for i := range e.Kids {
			ms[i] = kid(i)
		}
		return RMap(RAll(ms), func(vs []int) int { return e.G.Call(vs...) })
	case "traverseSeq", "traverse":
		return RMap(RTraverse(e.Seq(), body(0)), func(vs []int) int { return e.G.Call(vs...) })
	case "foldm":
		return RFoldM(e.Seq(), e.V, func(b, a int) Ref[int] { return e.KN.Ref(b, a) })
	case "unzip1":
		return RMap2(kid(0), kid(1), func(a, b int) int { return a })
	case "unzip2":
		return RMap2(kid(0), kid(1), func(a, b int) int { return b })
	}
	panic(fmt.Sprintf("evalRef: unknown op %q", e.Op))
}

func MaxDepth(tier string) int {
	if tier == "thorough" {
		return 6
	}
	return 4
}

// runProgram: generate a program, interpret it with the library (evalLib) and the reference.
func RunProgram(c *Cas, evalLib func(e *Expr) string) {
	depth := 2 + c.R.IntN(MaxDepth(c.W.Tier)-1)
	g := &ProgGen{C: c, Budget: 14 * depth, Ops: map[string]int{}, Depth: depth}
	e := g.Gen(depth, 0)
	c.Prog = e
	c.W.Max("program.depth."+c.P.Pkg, int64(g.DepthReached))
	for op, n := range g.Ops {
		c.W.Add("prog."+c.P.Pkg+"."+op, int64(n))
	}
	c.Shape(fmt.Sprintf("depth=%d,ops=%d", g.DepthReached, len(g.Ops)))
	c.ShapeHash(e.String())
	got := evalLib(e)
	c.Eq(got, c.Obs(EvalRef(e, nil)))
}
