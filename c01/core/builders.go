// C01 — runtime support for the generated ApplicativeN / ChainN builder checks: operand
// bookkeeping and the plain-Go reference of the builder semantics.
//
// Reference: a builder carries h (the arguments applied so far, most recent first, as an
// effect) and the argument list (as an effect). Applying an effectful argument a gives
// h' = a >>= \x -> h >>= \hs -> unit (x:hs) and args' = args >>= \as -> a >>= \x -> unit (as++[x]);
// FlatMap/Map/HList* first derive a from h. The result is args >>= unit . fn.
package core

import (
	"reflect"
	"strconv"
)

type BuilderCase struct {
	C     *Cas
	N     int
	Chain bool
	G     Fnd
	Ds    []Opd
	Os    []Opd
	Xs    []int
	Ks    []Kld
	Fs    []F1d
	Rh    Ref[[]int]
	Ra    Ref[[]int]
}

func NewBuilderCase(c *Cas, n int, chain bool) *BuilderCase {
	b := &BuilderCase{C: c, N: n, Chain: chain}
	b.G = c.Fn()
	b.Ds = c.Opds(n)
	b.Xs = c.Ints(n)
	b.Os = make([]Opd, n)
	b.Ks = make([]Kld, n)
	b.Fs = make([]F1d, n)
	for i := 0; i < n; i++ {
		b.Os[i] = Opd{C0: c.R.IntN(1000), V: c.R.IntN(6), K: 1}
		if c.R.IntN(100) < 35 {
			b.Os[i].M = 1
		}
		b.Ks[i] = c.Kl()
		b.Fs[i] = c.F1()
	}
	c.Note("option operands %+v", b.Os)
	b.Rh = RPure([]int(nil))
	b.Ra = RPure([]int(nil))
	return b
}

// sel picks the method of step j: a deterministic rotation over the visit number of the check.
// Arity 9 rotates through every method at every step (so every method of every
// MonadChainK / ApplicativeFunctorK, K = 9..1, is exercised on a non-trivial hlist) and so does
// arity 1 (the hand-written MonadChain1 / ApplicativeFunctor1); the other arities alternate
// between two methods per step to keep the generated harness small.
func (b *BuilderCase) Sel(n, j, nMethods int) int {
	if n == 9 || n == 1 {
		return (b.C.Rot + j*3) % nMethods
	}
	if (b.C.Rot+j)%2 == 0 {
		return 0
	}
	if b.Chain {
		return 4
	}
	return 1
}

func (b *BuilderCase) Step(j int, site string) {
	b.C.Site(site)
	b.C.W.Hit(site)
	b.C.Shape(site[len(b.C.P.Pkg)+1:])
}

func Head(hs []int) int {
	if len(hs) > 0 {
		return hs[0]
	}
	return 0
}

func HashInts(hs []int) int { return Fnd{7}.Call(hs...) }

// headVal: the HT handed to MonadChain.FlatMap/Map is hlist.Nil before the first argument.
func HeadVal[T any](h T) int {
	if v, ok := any(h).(int); ok {
		return v
	}
	return 0
}

// hlistHash walks an hlist.Cons[int, ...] (most recent argument first) and hashes its elements.
func HlistHash(h any) int {
	var out []int
	v := reflect.ValueOf(h)
	for v.Kind() == reflect.Struct && v.NumField() == 2 {
		out = append(out, int(v.Field(0).Int()))
		v = v.Field(1)
	}
	return HashInts(out)
}

func (b *BuilderCase) Ap(a Ref[int]) {
	rh, ra := b.Rh, b.Ra
	b.Rh = RMap2(a, rh, func(x int, hs []int) []int { return append([]int{x}, hs...) })
	b.Ra = RMap2(ra, a, func(as []int, x int) []int { return append(append([]int{}, as...), x) })
}

func RefOptAsTry(d Opd) Ref[int] {
	return func(s int) (int, int, int) {
		v, k, _ := d.At(0)
		if k != 0 {
			return 0, FailOptionEmpty, s
		}
		return v, 0, s
	}
}

func (b *BuilderCase) ApM(j int)    { b.Ap(RefInt(b.Ds[j-1])) }
func (b *BuilderCase) ApPure(j int) { b.Ap(RPure(b.Xs[j-1])) }
func (b *BuilderCase) ApOpt(j int)  { b.Ap(RefOptAsTry(b.Os[j-1])) }
func (b *BuilderCase) ApMFunc(j int) {
	b.Ap(RFlatMap(b.Rh, func([]int) Ref[int] { return RefInt(b.Ds[j-1]) }))
}
func (b *BuilderCase) ApOptFunc(j int) {
	b.Ap(RFlatMap(b.Rh, func([]int) Ref[int] { return RefOptAsTry(b.Os[j-1]) }))
}
func (b *BuilderCase) ApPureFunc(j int) {
	b.Ap(RMap(b.Rh, func([]int) int { return b.Xs[j-1] }))
}
func (b *BuilderCase) FlatMap(j int) {
	b.Ap(RFlatMap(b.Rh, func(hs []int) Ref[int] { return b.Ks[j-1].Ref(Head(hs)) }))
}
func (b *BuilderCase) MapH(j int) {
	b.Ap(RMap(b.Rh, func(hs []int) int { return b.Fs[j-1].Call(Head(hs)) }))
}
func (b *BuilderCase) HlistFlatMap(j int) {
	b.Ap(RFlatMap(b.Rh, func(hs []int) Ref[int] { return b.Ks[j-1].Ref(HashInts(hs)) }))
}
func (b *BuilderCase) HlistMap(j int) {
	b.Ap(RMap(b.Rh, func(hs []int) int { return b.Fs[j-1].Call(HashInts(hs)) }))
}

func (b *BuilderCase) Result() Ref[int] {
	return RMap(b.Ra, func(as []int) int { return b.G.Call(as...) })
}

var _ = strconv.Itoa
