// C01 — one harness per package under test.
package core

type PkgHarness struct {
	Prof    *Profile
	Checks  []Check
	Program *Check   // random expression programs (nil: none)
	Extra   []string // further hit names (builder methods) that must be observed
}

func Concat(cs ...[]Check) []Check {
	var out []Check
	for _, c := range cs {
		out = append(out, c...)
	}
	return out
}

// Slots: the regular checks in order, then one program slot for every four checks.
func (h *PkgHarness) Slots() int {
	if h.Program == nil {
		return len(h.Checks)
	}
	return len(h.Checks) + (len(h.Checks)+3)/4
}

// Repeat returns the checks whose name ends in suffix, n times over: extra slots for the checks
// that carry a rotation (the arity-9 builders rotate through 10 methods at each of 9 steps).
func Repeat(cs []Check, suffix string, n int) []Check {
	var out []Check
	for k := 0; k < n; k++ {
		for _, c := range cs {
			if len(c.Name) >= len(suffix) && c.Name[len(c.Name)-len(suffix):] == suffix {
				out = append(out, c)
			}
		}
	}
	return out
}
