// C01 — nil-able element types. The combinators are parametric in the element type, but a unit
// (or a combinator built on it) that inspects the value — e.g. a "nullable" constructor that turns
// nil pointers / slices / maps / funcs / interfaces into None — is only visible at element types
// that have a nil. Elem[T] describes a small palette of values of such a type; index 0 is nil.
//
// Values are identified by content (Code), functions on T are tables over the palette, so the
// reference needs nothing but plain Go. nil and empty slices / maps are shown alike (the property
// does not separate them); what must never happen is that a success carrying a nil / zero value
// becomes a failure / empty, or that a value changes.
package core

import (
	"fmt"
	"sort"
	"strconv"
	"strings"
)

type Elem[T any] struct {
	Tag  string // ptr, slice, map, func, iface, error
	N    int    // palette size
	Of   func(i int) T
	Code func(T) int // palette index class of a value (nil-likes -> 0)
	Show func(T) string
	Nil  func(T) bool
}

func mod(i, n int) int {
	i %= n
	if i < 0 {
		i += n
	}
	return i
}

var (
	ptrVals = []*int{nil, new(int), ptrTo(7), ptrTo(42)}

	ElemPtr = Elem[*int]{Tag: "ptr", N: 4,
		Of: func(i int) *int { return ptrVals[mod(i, 4)] },
		Code: func(p *int) int {
			switch {
			case p == nil:
				return 0
			case *p == 0:
				return 1
			case *p == 7:
				return 2
			}
			return 3
		},
		Show: func(p *int) string {
			if p == nil {
				return "nil"
			}
			return "&" + strconv.Itoa(*p)
		},
		Nil: func(p *int) bool { return p == nil },
	}

	// slices: nil, empty, one element, three elements (fresh copies: nobody may rely on sharing)
	ElemSlice = Elem[[]int]{Tag: "slice", N: 4,
		Of: func(i int) []int {
			switch mod(i, 4) {
			case 0:
				return nil
			case 1:
				return []int{}
			case 2:
				return []int{5}
			}
			return []int{1, 2, 3}
		},
		Code: func(s []int) int {
			switch len(s) {
			case 0:
				return 0
			case 1:
				return 2
			}
			return 3
		},
		Show: func(s []int) string { return fmt.Sprint(append([]int{}, s...)) },
		Nil:  func(s []int) bool { return s == nil },
	}

	ElemMap = Elem[map[int]int]{Tag: "map", N: 4,
		Of: func(i int) map[int]int {
			switch mod(i, 4) {
			case 0:
				return nil
			case 1:
				return map[int]int{}
			case 2:
				return map[int]int{1: 2}
			}
			return map[int]int{3: 4, 5: 6}
		},
		Code: func(m map[int]int) int {
			switch len(m) {
			case 0:
				return 0
			case 1:
				return 2
			}
			return 3
		},
		Show: func(m map[int]int) string {
			ks := make([]int, 0, len(m))
			for k := range m {
				ks = append(ks, k)
			}
			sort.Ints(ks)
			var b strings.Builder
			b.WriteString("{")
			for _, k := range ks {
				fmt.Fprintf(&b, "%d:%d ", k, m[k])
			}
			return b.String() + "}"
		},
		Nil: func(m map[int]int) bool { return m == nil },
	}

	funcVals = []func(int) int{nil, func(x int) int { return x + 1 }, func(x int) int { return 2 * x }, func(int) int { return 7 }}

	ElemFunc = Elem[func(int) int]{Tag: "func", N: 4,
		Of:   func(i int) func(int) int { return funcVals[mod(i, 4)] },
		Code: funcCode,
		Show: func(f func(int) int) string {
			if f == nil {
				return "nil"
			}
			return "fn#" + strconv.Itoa(funcCode(f))
		},
		Nil: func(f func(int) int) bool { return f == nil },
	}

	// interface values: nil, an int, a string, a typed nil pointer inside a non-nil interface,
	// a zero int (zero value that is not nil)
	ifaceVals = []any{nil, 3, "s", (*int)(nil), 0}

	ElemIface = Elem[any]{Tag: "iface", N: 5,
		Of: func(i int) any { return ifaceVals[mod(i, 5)] },
		Code: func(v any) int {
			switch x := v.(type) {
			case nil:
				return 0
			case int:
				if x == 0 {
					return 4
				}
				return 1
			case string:
				return 2
			}
			return 3
		},
		Show: func(v any) string {
			if v == nil {
				return "nil"
			}
			return fmt.Sprintf("%T(%v)", v, v)
		},
		Nil: func(v any) bool { return v == nil },
	}

	// error values as PAYLOAD (a Success / Some / Right carrying an error value, or a nil error)
	errVals = []error{nil, &Sentinel{"payload-a"}, &Sentinel{"payload-b"}, Errs[1]}

	ElemError = Elem[error]{Tag: "error", N: 4,
		Of: func(i int) error { return errVals[mod(i, 4)] },
		Code: func(e error) int {
			for i, v := range errVals {
				if e == v {
					return i
				}
			}
			return 3
		},
		Show: func(e error) string {
			if e == nil {
				return "nil"
			}
			return "error(" + e.Error() + ")"
		},
		Nil: func(e error) bool { return e == nil },
	}
)

func ptrTo(v int) *int { return &v }

func funcCode(f func(int) int) int {
	if f == nil {
		return 0
	}
	switch {
	case f(1) == 2 && f(5) == 6:
		return 1
	case f(1) == 2 && f(5) == 10:
		return 2
	}
	return 3
}

// P2 / P3: reference-side products.
type P2[A, B any] struct {
	A A
	B B
}

func ShowSlice[T any](show func(T) string) func([]T) string {
	return func(s []T) string {
		parts := make([]string, len(s))
		for i, v := range s {
			parts[i] = show(v)
		}
		return "[" + strings.Join(parts, " ") + "]"
	}
}

// UnitCheck reports a unit that does not return a success carrying exactly the value it was given.
func UnitCheck[T any](c *Cas, e Elem[T], unit string, x T, got, want string) {
	pkg := c.P.Pkg
	if e.Nil(x) {
		c.W.Add("elem.unit-on-nil."+pkg+"."+e.Tag, 1)
	}
	c.W.Add("elem.unit."+pkg+"."+e.Tag, 1)
	if got != want {
		c.W.Violation(c.I, unit+"/unit-not-total",
			fmt.Sprintf("%s: the unit %s applied to the %s value %s returned %s; a unit is total and must return %s (otherwise left identity FlatMap(unit(x), f) = f(x) fails for this x)\ninputs: %s", c.Name, unit, e.Tag, e.Show(x), got, want, strings.Join(c.Wit, " ; ")), c.Witness())
	}
}

// NilSeen counts, for the evidence, results of user functions that were nil (the situations in
// which a unit that special-cases nil would be visible).
func NilSeen[T any](c *Cas, e Elem[T], what string, x T) {
	if e.Nil(x) {
		c.W.Add("elem.nil-"+what+"."+c.P.Pkg+"."+e.Tag, 1)
	}
}

// Unit: the unit applied to a zero value of a non-nil-able type.
func (c *Cas) Unit(what, got, want string) {
	c.W.Add("elem.unit-on-zero."+c.P.Pkg, 1)
	if got != want {
		c.W.Violation(c.I, c.Name+"/unit-not-total",
			fmt.Sprintf("%s: the unit applied to the zero value %s returned %s; a unit is total and must return %s", c.Name, what, got, want), c.Witness())
	}
}
